(* L7c proofs: the UCI session state machine (model/Uci.v).

   REUSABLE STATEMENTS
     collect_spec, step_shape            the shape of one command
     steps / steps_no_quit / run_app     histories without quit
     ucinewgame_clean, same_as_fresh     C18
     step_isready, step_uci, run_exit    C07 protocol
     track / step_track / run_track      the bracketing automaton of go / collect events
     track_count, track_prefix, track_collected, track_started      consequences
     resolve_cons, resolve_line, legal_in_moves
     position_startpos, position_fen, position_rejects_format, position_rejects_move *)
From WV Require Import Types Bits Attacks Board MoveEnc MoveGen Rules Abs Wf Encode Text Notation Uci.
From WV Require Import BoardProofs PosEq ApplyProofs LegalPosProofs PlayProofs GenLegal GenCount GenAttrs GenResolve.
From Coq Require Import Lia ZifyBool ZifyN ZifyNat List.
Import ListNotations.
Import WV.Bits.
Open Scope N_scope.

(* ====================================================================== *)
(* text equality, command words                                           *)
(* ====================================================================== *)

Lemma text_eqb_eq : forall a b, text_eqb a b = true <-> a = b.
Proof.
  induction a as [|x xs IH]; intros [|y ys]; cbn [text_eqb]; split; intros H; try discriminate H; try reflexivity.
  - apply andb_true_iff in H. destruct H as [H1 H2]. apply N.eqb_eq in H1. apply IH in H2. subst. reflexivity.
  - injection H as -> ->. rewrite N.eqb_refl. apply IH. reflexivity.
Qed.

Lemma text_eqb_refl : forall a, text_eqb a a = true.
Proof. intros a. apply text_eqb_eq. reflexivity. Qed.

(* ====================================================================== *)
(* collect                                                                *)
(* ====================================================================== *)

Section Session.
Variable start : state.
Variable in_book : state -> bool.

Notation step := (Uci.step start in_book).
Notation run := (Uci.run start in_book).

Definition rpos (s : session) : option state :=
  match s_running s with Some (p, _, _) => Some p | None => None end.

Definition collected_outputs (s : session) : list output :=
  match rpos s with Some p => [OCollected p] | None => [] end.

Lemma collect_spec : forall s,
  s_pos (fst (collect s)) = s_pos s /\ s_running (fst (collect s)) = None /\
  snd (collect s) = collected_outputs s /\
  (s_running s = None -> fst (collect s) = s).
Proof.
  intros s. unfold collect, collected_outputs, rpos.
  destruct (s_running s) as [[[p d] t]|] eqn:E; cbn [fst snd s_pos s_running].
  - split; [reflexivity|]. split; [reflexivity|]. split; [reflexivity|]. intros H; discriminate H.
  - split; [reflexivity|]. split; [exact E|]. split; reflexivity.
Qed.

Lemma collect_pos : forall s, s_pos (fst (collect s)) = s_pos s.
Proof. intros s. apply collect_spec. Qed.
Lemma collect_running : forall s, s_running (fst (collect s)) = None.
Proof. intros s. apply collect_spec. Qed.
Lemma collect_out : forall s, snd (collect s) = collected_outputs s.
Proof. intros s. apply collect_spec. Qed.
Lemma collect_idle : forall s, s_running s = None -> collect s = (s, []).
Proof. intros s H. unfold collect. rewrite H. reflexivity. Qed.

(* the artifact after a collection: the collected search's artifact remembers its root *)
Lemma collect_artifact : forall s,
  s_artifact (fst (collect s)) =
  match rpos s with
  | Some p => Some (mkArt (p :: match s_artifact s with Some a => art_roots a | None => [] end))
  | None => s_artifact s
  end.
Proof. intros s. unfold collect, rpos. destruct (s_running s) as [[[p d] t]|]; reflexivity. Qed.

(* ====================================================================== *)
(* the shape of one command                                               *)
(* ====================================================================== *)

Definition quiet (o : output) : bool :=
  match o with OBookMove _ | OSearchStarted _ _ | OCollected _ | OExit => false | _ => true end.

Inductive step_kind (s : session) : session -> list output -> bool -> Prop :=
| SK_same : forall o c, forallb quiet o = true -> step_kind s s o c
| SK_collect : forall s' o2, forallb quiet o2 = true -> s_running s' = None ->
    step_kind s s' (snd (collect s) ++ o2) true
| SK_book : forall o2, forallb quiet o2 = true -> in_book (s_pos s) = true ->
    step_kind s (fst (collect s)) (snd (collect s) ++ o2 ++ [OBookMove (s_pos s)]) true
| SK_search : forall o2 d mt, forallb quiet o2 = true -> in_book (s_pos s) = false ->
    step_kind s (mkSession (s_pos s) (Some (s_pos s, d, mt)) (s_artifact (fst (collect s))))
              (snd (collect s) ++ o2 ++
               [OSearchStarted (s_pos s) (match s_artifact (fst (collect s)) with Some _ => true | None => false end)])
              true.

Lemma step_shape : forall s line, step_kind s (fst (fst (step s line))) (snd (fst (step s line))) (snd (step s line)).
Proof.
  intros s line. unfold Uci.step.
  destruct (tokens line) as [|cmd args]; [apply SK_same; reflexivity|].
  destruct (text_eqb cmd t_go).
  { destruct (collect s) as [s1 o1] eqn:Ec.
    assert (E1 : s1 = fst (collect s)) by (rewrite Ec; reflexivity).
    assert (E2 : o1 = snd (collect s)) by (rewrite Ec; reflexivity).
    assert (Ep : s_pos s1 = s_pos s) by (rewrite E1; apply collect_pos).
    destruct (go_args (S (length args)) args None None) as [[d mt] complained].
    rewrite Ep.
    destruct (in_book (s_pos s)) eqn:Eb; cbn [fst snd]; rewrite E1, E2.
    - apply SK_book; [destruct complained; reflexivity | exact Eb].
    - apply SK_search; [destruct complained; reflexivity | exact Eb]. }
  destruct (text_eqb cmd t_isready); [apply SK_same; reflexivity|].
  destruct (text_eqb cmd t_position).
  { destruct (collect s) as [s1 o1] eqn:Ec.
    assert (E1 : s_running s1 = None) by (change s1 with (fst (s1, o1)); rewrite <- Ec; apply collect_running).
    assert (E2 : o1 = snd (collect s)) by (rewrite Ec; reflexivity).
    destruct (split_at_moves args []) as [pos_part moves].
    rewrite E1.
    match goal with |- context [match ?b with inl _ => _ | inr _ => _ end] => destruct b as [[bb|]|code] end; cbn [fst snd].
    - destruct (all_ok (map uci_move_query moves)) as [qs|]; cbn [fst snd].
      + destruct (resolve bb qs); cbn [fst snd]; rewrite E2.
        * rewrite <- (app_nil_r (snd (collect s))). apply SK_collect; reflexivity.
        * apply SK_collect; reflexivity.
        * apply SK_collect; reflexivity.
        * apply SK_collect; reflexivity.
      + rewrite E2. apply SK_collect; reflexivity.
    - rewrite E2. rewrite <- (app_nil_r (snd (collect s))). apply SK_collect; [reflexivity | exact E1].
    - rewrite E2. apply SK_collect; [reflexivity | exact E1]. }
  destruct (text_eqb cmd t_stop).
  { destruct (collect s) as [s1 o1] eqn:Ec. cbn [fst snd].
    assert (E1 : s_running s1 = None) by (change s1 with (fst (s1, o1)); rewrite <- Ec; apply collect_running).
    change o1 with (snd (s1, o1)). rewrite <- Ec. rewrite <- (app_nil_r (snd (collect s))).
    apply SK_collect; [reflexivity | exact E1]. }
  destruct (text_eqb cmd t_uci); [apply SK_same; reflexivity|].
  destruct (text_eqb cmd t_ucinewgame).
  { destruct (collect s) as [s1 o1] eqn:Ec. cbn [fst snd].
    change o1 with (snd (s1, o1)). rewrite <- Ec. rewrite <- (app_nil_r (snd (collect s))).
    apply SK_collect; reflexivity. }
  destruct (text_eqb cmd t_quit); [apply SK_same; reflexivity|].
  destruct (text_eqb cmd t_state); [apply SK_same; reflexivity|].
  destruct (text_eqb cmd t_status); [apply SK_same; reflexivity|].
  apply SK_same; reflexivity.
Qed.


Ltac step_cmd H :=
  unfold Uci.step; rewrite H;
  cbn [text_eqb t_go t_isready t_position t_stop t_uci t_ucinewgame t_quit t_state t_status N.eqb Pos.eqb andb].

(* ====================================================================== *)
(* single commands                                                        *)
(* ====================================================================== *)

Theorem step_isready : forall s line args, tokens line = t_isready :: args -> step s line = (s, [OReadyOk], true).
Proof. intros s line args H. step_cmd H. reflexivity. Qed.

Theorem step_uci : forall s line args, tokens line = t_uci :: args ->
  step s line = (s, [OIdName; OIdAuthor; OUciOk], true).
Proof. intros s line args H. step_cmd H. reflexivity. Qed.

Theorem step_quit : forall s line args, tokens line = t_quit :: args -> step s line = (s, [], false).
Proof. intros s line args H. step_cmd H. reflexivity. Qed.

Theorem step_stop : forall s line args, tokens line = t_stop :: args ->
  step s line = (fst (collect s), snd (collect s), true).
Proof. intros s line args H. step_cmd H. destruct (collect s); reflexivity. Qed.

Theorem step_ucinewgame : forall s line args, tokens line = t_ucinewgame :: args ->
  step s line = (Uci.fresh (s_pos s), snd (collect s), true).
Proof.
  intros s line args H. step_cmd H. rewrite <- (collect_pos s). destruct (collect s); reflexivity.
Qed.

Theorem ucinewgame_clean : forall s line args, tokens line = t_ucinewgame :: args ->
  let '(s', _, _) := step s line in s_running s' = None /\ s_artifact s' = None /\ s_pos s' = s_pos s.
Proof. intros s line args H. rewrite (step_ucinewgame s line args H). repeat split. Qed.

Theorem step_go : forall s line (args : list text), tokens line = t_go :: args ->
  exists d mt o2, forallb quiet o2 = true /\
  step s line =
  if in_book (s_pos s) then (fst (collect s), snd (collect s) ++ o2 ++ [OBookMove (s_pos s)], true)
  else (mkSession (s_pos s) (Some (s_pos s, d, mt)) (s_artifact (fst (collect s))),
        snd (collect s) ++ o2 ++
        [OSearchStarted (s_pos s) (match s_artifact (fst (collect s)) with Some _ => true | None => false end)], true).
Proof.
  intros s line args H. step_cmd H. rewrite <- (collect_pos s). destruct (collect s) as [s1 o1]. cbn [fst snd].
  destruct (go_args (S (length args)) args None None) as [[d mt] complained].
  exists d, mt, (if complained then [OInfo 1] else []). split; [destruct complained; reflexivity|].
  destruct (in_book (s_pos s1)); reflexivity.
Qed.

(* the only command that ends the loop is quit *)
Definition is_quit (line : text) : Prop := exists args, tokens line = t_quit :: args.

Lemma step_stops : forall s line, snd (step s line) = false -> is_quit line.
Proof.
  intros s line. unfold Uci.step, is_quit. destruct (tokens line) as [|cmd args]; [intros H; discriminate H|].
  destruct (text_eqb cmd t_go).
  { destruct (collect s) as [s1 o1]. destruct (go_args (S (length args)) args None None) as [[d mt] c].
    destruct (in_book (s_pos s1)); intros H; discriminate H. }
  destruct (text_eqb cmd t_isready); [intros H; discriminate H|].
  destruct (text_eqb cmd t_position).
  { destruct (collect s) as [s1 o1]. destruct (split_at_moves args []) as [pp moves].
    match goal with |- context [match ?b with inl _ => _ | inr _ => _ end] => destruct b as [[bb|]|code] end;
      try (intros H; discriminate H).
    destruct (all_ok (map uci_move_query moves)) as [qs|]; [|intros H; discriminate H].
    destruct (resolve bb qs); intros H; discriminate H. }
  destruct (text_eqb cmd t_stop); [destruct (collect s); intros H; discriminate H|].
  destruct (text_eqb cmd t_uci); [intros H; discriminate H|].
  destruct (text_eqb cmd t_ucinewgame); [destruct (collect s); intros H; discriminate H|].
  destruct (text_eqb cmd t_quit) eqn:E.
  { intros _. apply text_eqb_eq in E. subst cmd. exists args. reflexivity. }
  destruct (text_eqb cmd t_state); [intros H; discriminate H|].
  destruct (text_eqb cmd t_status); intros H; discriminate H.
Qed.

(* ====================================================================== *)
(* histories                                                              *)
(* ====================================================================== *)

(* the commands of a history, without the final collection; the flag tells whether the loop continues *)
Fixpoint steps (s : session) (lines : list text) : session * list output * bool :=
  match lines with
  | [] => (s, [], true)
  | l :: tl =>
      let '(s1, o1, c) := step s l in
      if c then let '(s2, o2, c2) := steps s1 tl in (s2, o1 ++ o2, c2) else (s1, o1, false)
  end.

Definition finish (r : session * list output * bool) (rest : list text) : session * list output :=
  let '(s1, o1, c) := r in
  if c then (fst (run s1 rest), o1 ++ snd (run s1 rest))
  else (fst (collect s1), o1 ++ snd (collect s1) ++ [OExit]).

Lemma run_app_gen : forall lines s rest, run s (lines ++ rest) = finish (steps s lines) rest.
Proof.
  induction lines as [|l tl IH]; intros s rest.
  - cbn [app steps finish]. destruct (run s rest); reflexivity.
  - cbn [app Uci.run steps]. destruct (step s l) as [[s1 o1] [|]].
    + rewrite IH. destruct (steps s1 tl) as [[s2 o2] [|]]; cbn [finish fst snd]; rewrite app_assoc; reflexivity.
    + cbn [finish]. destruct (collect s1); reflexivity.
Qed.

Lemma steps_app : forall a s b, steps s (a ++ b) =
  let '(s1, o1, c) := steps s a in
  if c then let '(s2, o2, c2) := steps s1 b in (s2, o1 ++ o2, c2) else (s1, o1, false).
Proof.
  induction a as [|l tl IH]; intros s b.
  - cbn [app steps]. destruct (steps s b) as [[s2 o2] c2]; reflexivity.
  - cbn [app steps]. destruct (step s l) as [[s1 o1] [|]]; [|reflexivity].
    rewrite IH. destruct (steps s1 tl) as [[s2 o2] [|]]; [|reflexivity].
    destruct (steps s2 b) as [[s3 o3] c3]. rewrite app_assoc. reflexivity.
Qed.

Lemma steps_no_quit : forall lines s, (forall l, In l lines -> ~ is_quit l) -> snd (steps s lines) = true.
Proof.
  induction lines as [|l tl IH]; intros s H; [reflexivity|].
  cbn [steps]. destruct (step s l) as [[s1 o1] c] eqn:E. destruct c.
  - specialize (IH s1 (fun x Hx => H x (or_intror Hx))). destruct (steps s1 tl) as [[s2 o2] c2]. exact IH.
  - exfalso. apply (H l (or_introl eq_refl)). apply (step_stops s l). rewrite E. reflexivity.
Qed.

(* run_app: a history without quit, then more input *)
Theorem run_app : forall hist s rest, (forall l, In l hist -> ~ is_quit l) ->
  run s (hist ++ rest) =
  (fst (run (fst (fst (steps s hist))) rest), snd (fst (steps s hist)) ++ snd (run (fst (fst (steps s hist))) rest)).
Proof.
  intros hist s rest H. rewrite run_app_gen. pose proof (steps_no_quit hist s H) as Hc.
  destruct (steps s hist) as [[s1 o1] c]. cbn [snd] in Hc. subst c. reflexivity.
Qed.

(* C18: after a history that ends with ucinewgame the session is the fresh session of the current position,
   and everything that follows is what a fresh process started on that position would do *)
Theorem same_as_fresh : forall s hist l args rest,
  (forall x, In x hist -> ~ is_quit x) -> tokens l = t_ucinewgame :: args ->
  let p := s_pos (fst (fst (steps s hist))) in
  fst (fst (steps s (hist ++ [l]))) = Uci.fresh p /\
  run s ((hist ++ [l]) ++ rest) =
  (fst (run (Uci.fresh p) rest), snd (fst (steps s (hist ++ [l]))) ++ snd (run (Uci.fresh p) rest)).
Proof.
  intros s hist l args rest H Hl p.
  assert (E : fst (fst (steps s (hist ++ [l]))) = Uci.fresh p).
  { rewrite steps_app. pose proof (steps_no_quit hist s H) as Hc. subst p.
    destruct (steps s hist) as [[s1 o1] c]. cbn [snd] in Hc. subst c. cbn [steps fst].
    rewrite (step_ucinewgame s1 l args Hl). reflexivity. }
  split; [exact E|].
  rewrite run_app.
  - rewrite E. reflexivity.
  - intros x Hx. apply in_app_or in Hx. destruct Hx as [Hx|[<-|[]]]; [exact (H x Hx)|].
    intros [a Ha]. rewrite Hl in Ha. discriminate Ha.
Qed.


(* ====================================================================== *)
(* the loop always ends with the final collection and exit                *)
(* ====================================================================== *)

Definition not_exit (o : output) : bool := match o with OExit => false | _ => true end.

Lemma quiet_not_exit : forall l, forallb quiet l = true -> forallb not_exit l = true.
Proof.
  intros l H. apply forallb_forall. intros x Hx. rewrite forallb_forall in H. specialize (H x Hx).
  destruct x; try reflexivity. discriminate H.
Qed.

Lemma collect_not_exit : forall s, forallb not_exit (snd (collect s)) = true.
Proof. intros s. rewrite collect_out. unfold collected_outputs. destruct (rpos s); reflexivity. Qed.

Lemma step_not_exit : forall s line, forallb not_exit (snd (fst (step s line))) = true.
Proof.
  intros s line. destruct (step_shape s line) as [o c Hq | s' o2 Hq Hr | o2 Hq Hb | o2 d mt Hq Hb];
    rewrite ?forallb_app, ?collect_not_exit, ?(quiet_not_exit _ Hq); reflexivity.
Qed.

Lemma steps_not_exit : forall lines s, forallb not_exit (snd (fst (steps s lines))) = true.
Proof.
  induction lines as [|l tl IH]; intros s; [reflexivity|].
  cbn [steps]. pose proof (step_not_exit s l) as H1. destruct (step s l) as [[s1 o1] [|]]; cbn [fst snd] in *.
  - specialize (IH s1). destruct (steps s1 tl) as [[s2 o2] c2]. cbn [fst snd] in *.
    rewrite forallb_app, H1, IH. reflexivity.
  - exact H1.
Qed.

Theorem run_exit : forall lines s,
  exists pre, snd (run s lines) = pre ++ [OExit] /\ forallb not_exit pre = true /\
              s_running (fst (run s lines)) = None.
Proof.
  induction lines as [|l tl IH]; intros s.
  - cbn [Uci.run]. pose proof (collect_not_exit s) as H. pose proof (collect_running s) as Hr.
    destruct (collect s) as [s1 o1]. exists o1. auto.
  - cbn [Uci.run]. pose proof (step_not_exit s l) as H1. destruct (step s l) as [[s1 o1] [|]]; cbn [fst snd] in H1.
    + destruct (IH s1) as [pre (E & Hp & Hr)]. destruct (run s1 tl) as [s2 o2]. cbn [fst snd] in *.
      exists (o1 ++ pre). rewrite E, app_assoc, forallb_app, H1, Hp. auto.
    + pose proof (collect_not_exit s1) as H. pose proof (collect_running s1) as Hr.
      destruct (collect s1) as [s2 o2]. cbn [fst snd] in *. exists (o1 ++ o2).
      rewrite app_assoc, forallb_app, H1, H. auto.
Qed.

Corollary run_last_exit : forall lines s d, last (snd (run s lines)) d = OExit.
Proof. intros lines s d. destruct (run_exit lines s) as [pre (E & _)]. rewrite E. apply last_last. Qed.

(* ====================================================================== *)
(* go / bestmove bracketing                                               *)
(* ====================================================================== *)

Definition answers (o : output) : nat := match o with OBookMove _ | OCollected _ => 1 | _ => 0 end.
Definition asks (o : output) : nat := match o with OBookMove _ | OSearchStarted _ _ => 1 | _ => 0 end.
Fixpoint total (f : output -> nat) (l : list output) : nat :=
  match l with [] => O | o :: tl => (f o + total f tl)%nat end.

(* neither a go event nor a collection *)
Definition silent (o : output) : bool :=
  match o with OBookMove _ | OSearchStarted _ _ | OCollected _ => false | _ => true end.

(* the bracketing automaton: the state is the position of the outstanding search, if any.
   A search starts only when none is outstanding, a book move is answered on the spot when none is
   outstanding, a collection answers the outstanding search and names its position. *)
Inductive tracked : option state -> list output -> option state -> Prop :=
| tr_nil : forall r, tracked r [] r
| tr_silent : forall r o tl r', silent o = true -> tracked r tl r' -> tracked r (o :: tl) r'
| tr_book : forall p tl r', tracked None tl r' -> tracked None (OBookMove p :: tl) r'
| tr_start : forall p b tl r', tracked (Some p) tl r' -> tracked None (OSearchStarted p b :: tl) r'
| tr_collect : forall p tl r', tracked None tl r' -> tracked (Some p) (OCollected p :: tl) r'.

Lemma tracked_app : forall a b r m r', tracked r a m -> tracked m b r' -> tracked r (a ++ b) r'.
Proof.
  intros a b r m r' H. induction H; intros Hb; cbn [app]; [exact Hb| | | |].
  - apply tr_silent; auto.
  - apply tr_book; auto.
  - apply tr_start; auto.
  - apply tr_collect; auto.
Qed.

Lemma tracked_cons : forall r o tl r', tracked r (o :: tl) r' -> exists m, tracked r [o] m /\ tracked m tl r'.
Proof.
  intros r o tl r' H. inversion H; subst;
    match goal with Ht : tracked ?m tl r' |- _ => exists m; split; [|exact Ht] end.
  - apply tr_silent; [assumption | constructor].
  - apply tr_book; constructor.
  - apply tr_start; constructor.
  - apply tr_collect; constructor.
Qed.

Lemma tracked_split : forall a b r r', tracked r (a ++ b) r' -> exists m, tracked r a m /\ tracked m b r'.
Proof.
  induction a as [|o tl IH]; intros b r r' H; cbn [app] in H.
  - exists r. split; [constructor | exact H].
  - apply tracked_cons in H. destruct H as [m0 [H0 H]]. destruct (IH _ _ _ H) as [m [H1 H2]].
    exists m. split; [|exact H2]. exact (tracked_app [o] tl _ _ _ H0 H1).
Qed.

Lemma tracked_collect_inv : forall m p post r', tracked m (OCollected p :: post) r' ->
  m = Some p /\ tracked None post r'.
Proof.
  intros m p post r' H. inversion H; subst.
  - match goal with Hs : silent _ = true |- _ => discriminate Hs end.
  - split; [reflexivity | assumption].
Qed.

Lemma tracked_start_inv : forall m p b post r', tracked m (OSearchStarted p b :: post) r' ->
  m = None /\ tracked (Some p) post r'.
Proof.
  intros m p b post r' H. inversion H; subst.
  - match goal with Hs : silent _ = true |- _ => discriminate Hs end.
  - split; [reflexivity | assumption].
Qed.

Lemma tracked_book_inv : forall m p post r', tracked m (OBookMove p :: post) r' ->
  m = None /\ tracked None post r'.
Proof.
  intros m p post r' H. inversion H; subst.
  - match goal with Hs : silent _ = true |- _ => discriminate Hs end.
  - split; [reflexivity | assumption].
Qed.

Lemma quiet_silent : forall o, quiet o = true -> silent o = true.
Proof. intros o H. destruct o; try reflexivity; discriminate H. Qed.

Lemma tracked_silent : forall l r, forallb silent l = true -> tracked r l r.
Proof.
  induction l as [|o tl IH]; intros r H; [constructor|].
  cbn [forallb] in H. apply andb_true_iff in H. destruct H as [H1 H2]. apply tr_silent; auto.
Qed.

Lemma tracked_quiet : forall l r, forallb quiet l = true -> tracked r l r.
Proof.
  intros l r H. apply tracked_silent. apply forallb_forall. intros x Hx. rewrite forallb_forall in H.
  apply quiet_silent. exact (H x Hx).
Qed.

Lemma tracked_collect : forall s, tracked (rpos s) (snd (collect s)) None.
Proof.
  intros s. rewrite collect_out. unfold collected_outputs. destruct (rpos s) as [p|].
  - apply tr_collect. constructor.
  - constructor.
Qed.

Lemma rpos_collect : forall s, rpos (fst (collect s)) = None.
Proof. intros s. unfold rpos. rewrite collect_running. reflexivity. Qed.

Theorem step_tracked : forall s line,
  tracked (rpos s) (snd (fst (step s line))) (rpos (fst (fst (step s line)))).
Proof.
  intros s line. destruct (step_shape s line) as [o c Hq | s' o2 Hq Hr | o2 Hq Hb | o2 d mt Hq Hb].
  - apply tracked_quiet. exact Hq.
  - apply (tracked_app _ _ _ None); [apply tracked_collect|]. unfold rpos. rewrite Hr. apply tracked_quiet. exact Hq.
  - apply (tracked_app _ _ _ None); [apply tracked_collect|]. rewrite rpos_collect.
    apply (tracked_app _ _ _ None); [apply tracked_quiet; exact Hq|]. apply tr_book. constructor.
  - apply (tracked_app _ _ _ None); [apply tracked_collect|].
    apply (tracked_app _ _ _ None); [apply tracked_quiet; exact Hq|]. apply tr_start. constructor.
Qed.

Theorem steps_tracked : forall lines s,
  tracked (rpos s) (snd (fst (steps s lines))) (rpos (fst (fst (steps s lines)))).
Proof.
  induction lines as [|l tl IH]; intros s; [constructor|].
  cbn [steps]. pose proof (step_tracked s l) as H1. destruct (step s l) as [[s1 o1] [|]]; cbn [fst snd] in *.
  - specialize (IH s1). destruct (steps s1 tl) as [[s2 o2] c2]. cbn [fst snd] in *.
    exact (tracked_app _ _ _ _ _ H1 IH).
  - exact H1.
Qed.

Theorem run_tracked : forall lines s, tracked (rpos s) (snd (run s lines)) None.
Proof.
  induction lines as [|l tl IH]; intros s.
  - cbn [Uci.run]. pose proof (tracked_collect s) as H. destruct (collect s) as [s1 o1]. cbn [snd] in *.
    apply (tracked_app _ _ _ None); [exact H|]. apply tr_silent; [reflexivity | constructor].
  - cbn [Uci.run]. pose proof (step_tracked s l) as H1. destruct (step s l) as [[s1 o1] [|]]; cbn [fst snd] in *.
    + specialize (IH s1). destruct (run s1 tl) as [s2 o2]. cbn [snd] in *. exact (tracked_app _ _ _ _ _ H1 IH).
    + pose proof (tracked_collect s1) as H. destruct (collect s1) as [s2 o2]. cbn [snd] in *.
      apply (tracked_app _ _ _ _ _ H1). apply (tracked_app _ _ _ None); [exact H|].
      apply tr_silent; [reflexivity | constructor].
Qed.

(* ---- consequences of being tracked ---- *)

Definition outstanding (r : option state) : nat := match r with Some _ => 1 | None => 0 end.

Lemma tracked_count : forall r l r', tracked r l r' ->
  (total asks l + outstanding r = total answers l + outstanding r')%nat.
Proof.
  intros r l r' H. induction H; cbn [total asks answers outstanding] in *; try lia.
  destruct o; cbn [silent] in H; try discriminate H; cbn [asks answers]; lia.
Qed.

Lemma tracked_prefix_count : forall pre post r', tracked None (pre ++ post) r' ->
  (total answers pre <= total asks pre <= total answers pre + 1)%nat.
Proof.
  intros pre post r' H. destruct (tracked_split _ _ _ _ H) as [m [H1 _]].
  apply tracked_count in H1. destruct m; cbn [outstanding] in H1; lia.
Qed.

(* a search outstanding after l was started in l, and nothing but silent output came after its start *)
Lemma tracked_outstanding : forall r l r', tracked r l r' -> forall p, r' = Some p ->
  (r = Some p /\ forallb silent l = true) \/
  (exists pre b mid, l = pre ++ OSearchStarted p b :: mid /\ forallb silent mid = true /\ tracked r pre None).
Proof.
  intros r l r' H. induction H; intros q Hq.
  - left. split; [exact Hq | reflexivity].
  - destruct (IHtracked q Hq) as [[E Hs]|[pre [b [mid (E & Hs & Ht)]]]].
    + left. split; [exact E|]. cbn [forallb]. rewrite H, Hs. reflexivity.
    + right. exists (o :: pre), b, mid. rewrite E. split; [reflexivity|]. split; [exact Hs|].
      apply tr_silent; assumption.
  - destruct (IHtracked q Hq) as [[E Hs]|[pre [b [mid (E & Hs & Ht)]]]]; [discriminate E|].
    right. exists (OBookMove p :: pre), b, mid. rewrite E. split; [reflexivity|]. split; [exact Hs|].
    apply tr_book; assumption.
  - destruct (IHtracked q Hq) as [[E Hs]|[pre [b0 [mid (E & Hs & Ht)]]]].
    + injection E as ->. right. exists [], b, tl. split; [reflexivity|]. split; [exact Hs | constructor].
    + right. exists (OSearchStarted p b :: pre), b0, mid. rewrite E. split; [reflexivity|]. split; [exact Hs|].
      apply tr_start; assumption.
  - destruct (IHtracked q Hq) as [[E Hs]|[pre [b [mid (E & Hs & Ht)]]]]; [discriminate E|].
    right. exists (OCollected p :: pre), b, mid. rewrite E. split; [reflexivity|]. split; [exact Hs|].
    apply tr_collect; assumption.
Qed.

(* every collection answers the latest search start, which was for the same position, and nothing but
   silent output lies between them *)
Theorem tracked_collected : forall pre p post r', tracked None (pre ++ OCollected p :: post) r' ->
  exists pre1 b mid, pre = pre1 ++ OSearchStarted p b :: mid /\ forallb silent mid = true.
Proof.
  intros pre p post r' H. destruct (tracked_split _ _ _ _ H) as [m [H1 H2]].
  apply tracked_collect_inv in H2. destruct H2 as [-> _].
  destruct (tracked_outstanding _ _ _ H1 p eq_refl) as [[E _]|[pre1 [b [mid (E & Hs & _)]]]]; [discriminate E|].
  exists pre1, b, mid. auto.
Qed.

(* every started search is collected, for the same position, before the session ends and before any other
   go event *)
Lemma tracked_pending : forall l p, tracked (Some p) l None ->
  exists mid post, l = mid ++ OCollected p :: post /\ forallb silent mid = true.
Proof.
  intros l p H. remember (Some p) as r eqn:Er. remember None as r' eqn:Er'.
  revert p Er Er'. induction H; intros q Er Er'; subst; try discriminate.
  - destruct (IHtracked q eq_refl eq_refl) as [mid [post [E Hs]]]. exists (o :: mid), post. rewrite E.
    split; [reflexivity|]. cbn [forallb]. rewrite H, Hs. reflexivity.
  - injection Er as ->. exists [], tl. split; reflexivity.
Qed.

Theorem tracked_started : forall pre p b post, tracked None (pre ++ OSearchStarted p b :: post) None ->
  exists mid post', post = mid ++ OCollected p :: post' /\ forallb silent mid = true.
Proof.
  intros pre p b post H. destruct (tracked_split _ _ _ _ H) as [m [H1 H2]].
  apply tracked_start_inv in H2. destruct H2 as [_ H2]. apply tracked_pending. exact H2.
Qed.

(* a book move is emitted only when no search is outstanding *)
Theorem tracked_book : forall pre p post r', tracked None (pre ++ OBookMove p :: post) r' ->
  total asks pre = total answers pre.
Proof.
  intros pre p post r' H. destruct (tracked_split _ _ _ _ H) as [m [H1 H2]].
  apply tracked_book_inv in H2. destruct H2 as [-> _]. apply tracked_count in H1. cbn [outstanding] in H1. lia.
Qed.

(* C07: one answer per go *)
Theorem one_answer_per_go : forall lines,
  let outs := snd (run (Uci.fresh start) lines) in
  total answers outs = total asks outs /\
  (forall pre post, outs = pre ++ post ->
     (total answers pre <= total asks pre <= total answers pre + 1)%nat) /\
  (forall pre p post, outs = pre ++ OCollected p :: post ->
     exists pre1 b mid, pre = pre1 ++ OSearchStarted p b :: mid /\ forallb silent mid = true) /\
  (forall pre p b post, outs = pre ++ OSearchStarted p b :: post ->
     exists mid post', post = mid ++ OCollected p :: post' /\ forallb silent mid = true) /\
  (forall pre p post, outs = pre ++ OBookMove p :: post -> total asks pre = total answers pre).
Proof.
  intros lines outs. pose proof (run_tracked lines (Uci.fresh start)) as H.
  change (rpos (Uci.fresh start)) with (@None state) in H. fold outs in H.
  split; [apply tracked_count in H; cbn [outstanding] in H; lia|].
  split; [intros pre post E; rewrite E in H; exact (tracked_prefix_count _ _ _ H)|].
  split; [intros pre p post E; rewrite E in H; exact (tracked_collected _ _ _ _ H)|].
  split; [intros pre p b post E; rewrite E in H; exact (tracked_started _ _ _ _ H)|].
  intros pre p post E; rewrite E in H; exact (tracked_book _ _ _ _ H).
Qed.

(* C07: a go event carries the session position at that moment *)
Theorem go_position : forall s line p,
  (In (OBookMove p) (snd (fst (step s line))) \/ exists b, In (OSearchStarted p b) (snd (fst (step s line)))) ->
  p = s_pos s /\ p = s_pos (fst (fst (step s line))).
Proof.
  intros s line p.
  assert (Hc : forall x, In x (snd (collect s)) -> silent x = false -> exists q, x = OCollected q).
  { intros x Hx _. rewrite collect_out in Hx. unfold collected_outputs in Hx.
    destruct (rpos s) as [q|]; [|destruct Hx]. destruct Hx as [<-|[]]. exists q. reflexivity. }
  assert (Hq : forall l x, forallb quiet l = true -> In x l -> silent x = true).
  { intros l x Hl Hx. rewrite forallb_forall in Hl. apply quiet_silent. exact (Hl x Hx). }
  assert (Hgo : forall x, (x = OBookMove p \/ exists b, x = OSearchStarted p b) ->
                          silent x = false /\ forall q, x <> OCollected q).
  { intros x [->|[b ->]]; split; try reflexivity; intros q E; discriminate E. }
  assert (Hcase : forall l, (In (OBookMove p) l \/ exists b, In (OSearchStarted p b) l) ->
                            exists x, In x l /\ (x = OBookMove p \/ exists b, x = OSearchStarted p b)).
  { intros l [H|[b H]]; [exists (OBookMove p) | exists (OSearchStarted p b)]; split; eauto. }
  intros H. apply Hcase in H. destruct H as [x [Hx Hk]]. destruct (Hgo x Hk) as [Hs Hnc].
  destruct (step_shape s line) as [o c Hqo | s' o2 Hqo Hr | o2 Hqo Hb | o2 d mt Hqo Hb].
  - rewrite (Hq _ _ Hqo Hx) in Hs. discriminate Hs.
  - apply in_app_or in Hx. destruct Hx as [Hx|Hx].
    + destruct (Hc x Hx Hs) as [q E]. destruct (Hnc q E).
    + rewrite (Hq _ _ Hqo Hx) in Hs. discriminate Hs.
  - apply in_app_or in Hx. destruct Hx as [Hx|Hx]; [destruct (Hc x Hx Hs) as [q E]; destruct (Hnc q E)|].
    apply in_app_or in Hx. destruct Hx as [Hx|Hx]; [rewrite (Hq _ _ Hqo Hx) in Hs; discriminate Hs|].
    destruct Hx as [<-|[]]. rewrite collect_pos. destruct Hk as [E|[b E]]; [injection E as <-; auto | discriminate E].
  - apply in_app_or in Hx. destruct Hx as [Hx|Hx]; [destruct (Hc x Hx Hs) as [q E]; destruct (Hnc q E)|].
    apply in_app_or in Hx. destruct Hx as [Hx|Hx]; [rewrite (Hq _ _ Hqo Hx) in Hs; discriminate Hs|].
    destruct Hx as [<-|[]]. cbn [s_pos]. destruct Hk as [E|[b E]]; [discriminate E | injection E as <- _; auto].
Qed.


(* ====================================================================== *)
(* position ... moves ...                                                 *)
(* ====================================================================== *)

(* the base position named by the part before "moves" (the same case analysis as in Uci.step) *)
Definition pos_base (pp : list text) : option state + N :=
  match pp with
  | p :: rest =>
      if text_eqb p t_startpos then inl (Some start)
      else if text_eqb p t_fen then
        match fen_read (join_sp rest) with
        | Ok st => inl (Some st)
        | _ => inr 2
        end
      else inr 3
  | [] => inr 3
  end.

Lemma step_position : forall s line (args : list text) pp toks,
  tokens line = t_position :: args -> split_at_moves args [] = (pp, toks) ->
  step s line =
  match pos_base pp with
  | inr code => (fst (collect s), snd (collect s) ++ [OInfo code], true)
  | inl None => (fst (collect s), snd (collect s), true)
  | inl (Some b) =>
      match all_ok (map uci_move_query toks) with
      | None => (mkSession b None (s_artifact (fst (collect s))), snd (collect s) ++ [OInfo 4], true)
      | Some qs =>
          match resolve b qs with
          | ROk st => (mkSession st None (s_artifact (fst (collect s))), snd (collect s), true)
          | _ => (mkSession b None (s_artifact (fst (collect s))), snd (collect s) ++ [OInfo 5], true)
          end
      end
  end.
Proof.
  intros s line args pp toks H Hs. step_cmd H. rewrite Hs. pose proof (collect_running s) as Hr.
  destruct (collect s) as [s1 o1]. cbn [fst snd] in *. rewrite Hr. reflexivity.
Qed.

Lemma split_at_moves_app : forall pre acc rest, Forall (fun x => text_eqb x t_moves = false) pre ->
  split_at_moves (pre ++ t_moves :: rest) acc = (rev acc ++ pre, rest).
Proof.
  induction pre as [|x tl IH]; intros acc rest H; cbn [app split_at_moves].
  - rewrite text_eqb_refl, app_nil_r. reflexivity.
  - inversion H as [|y l Hx Htl]; subst. rewrite Hx, (IH _ _ Htl). cbn [rev]. rewrite <- app_assoc. reflexivity.
Qed.

Lemma split_at_moves_none : forall pre acc, Forall (fun x => text_eqb x t_moves = false) pre ->
  split_at_moves pre acc = (rev acc ++ pre, []).
Proof.
  induction pre as [|x tl IH]; intros acc H; cbn [split_at_moves].
  - rewrite app_nil_r. reflexivity.
  - inversion H as [|y l Hx Htl]; subst. rewrite Hx, (IH _ Htl). cbn [rev]. rewrite <- app_assoc. reflexivity.
Qed.

(* all_ok *)
Lemma all_ok_some : forall toks qs, all_ok (map uci_move_query toks) = Some qs <->
  Forall2 (fun t q => uci_move_query t = Ok q) toks qs.
Proof.
  induction toks as [|t tl IH]; intros qs; cbn [map all_ok].
  - split; intros H; [injection H as <-; constructor | inversion H; reflexivity].
  - split; intros H.
    + destruct (uci_move_query t) as [q| |] eqn:E; try discriminate H.
      destruct (all_ok (map uci_move_query tl)) as [r|] eqn:Er; [|discriminate H]. injection H as <-.
      constructor; [exact E | apply IH; reflexivity].
    + inversion H as [|t' q tl' qs' Hq Htl]; subst. rewrite Hq. apply IH in Htl. rewrite Htl. reflexivity.
Qed.

Lemma all_ok_none : forall toks, all_ok (map uci_move_query toks) = None <->
  exists t, In t toks /\ forall q, uci_move_query t <> Ok q.
Proof.
  induction toks as [|t tl IH]; cbn [map all_ok].
  - split; [intros H; discriminate H | intros [t [[] _]]].
  - split.
    + intros H. destruct (uci_move_query t) as [q| |] eqn:E.
      * destruct (all_ok (map uci_move_query tl)) as [r|]; [discriminate H|].
        destruct (proj1 IH eq_refl) as [t' [Hin Hne]]. exists t'. split; [right; exact Hin | exact Hne].
      * exists t. split; [left; reflexivity|]. rewrite E. intros q Hq; discriminate Hq.
      * exists t. split; [left; reflexivity|]. rewrite E. intros q Hq; discriminate Hq.
    + intros [t' [[<-|Hin] Hne]].
      * destruct (uci_move_query t) as [q| |]; [destruct (Hne q eq_refl) | reflexivity | reflexivity].
      * rewrite (proj2 IH (ex_intro _ t' (conj Hin Hne))). destruct (uci_move_query t); reflexivity.
Qed.

End Session.

(* ---- resolve over several queries is iterated single-step resolution ---- *)

Lemma resolve_cons : forall s q qs,
  resolve s (q :: qs) = match resolve s [q] with ROk n => resolve n qs | r => r end.
Proof.
  intros s q qs. cbn [resolve]. destruct (filter (fun ms => qtest q (fst ms)) (gen_legal s)) as [|ms [|ms2 l]]; try reflexivity.
  destruct (apply_move s (fst ms)); reflexivity.
Qed.

Lemma resolve_app : forall qs1 s qs2,
  resolve s (qs1 ++ qs2) = match resolve s qs1 with ROk n => resolve n qs2 | r => r end.
Proof.
  induction qs1 as [|q tl IH]; intros s qs2; [reflexivity|].
  cbn [app]. rewrite (resolve_cons s q (tl ++ qs2)), (resolve_cons s q tl).
  destruct (resolve s [q]); try reflexivity. apply IH.
Qed.

Lemma legal_in_moves : forall s mv, LegalPos s -> Rules.legal (abs s) mv = true -> mv_to mv < 64 ->
  In mv (Rules.legal_moves (abs s)).
Proof.
  intros s mv HL Hl Ht. apply legal_moves_In.
  destruct (legal_move_ok s mv HL Hl Ht) as [k Hk]. apply move_ok_k_abs in Hk.
  destruct Hk as (_ & Hf & _ & _ & _ & Hpr & _).
  split; [exact Hf|]. split; [exact Ht|]. split; [|exact Hl].
  destruct (mv_promo mv) as [pr|]; [|left; reflexivity].
  destruct Hpr as [_ Hpr]. unfold promo_options.
  destruct pr; try discriminate Hpr; cbn [In]; auto 10.
Qed.

(* the coordinate queries of a legal line resolve to the end of the line *)
Theorem resolve_line : forall s mvs s', LegalPos s -> plays s mvs s' ->
  resolve s (map query_of mvs) = ROk s' /\ LegalPos s'.
Proof.
  intros s mvs s' HL Hp. induction Hp as [s | s mv s1 mvs s2 Hl Ht Ha Hp IH]; [split; [reflexivity | exact HL]|].
  cbn [map]. rewrite resolve_cons.
  destruct (resolve_move s mv HL (legal_in_moves s mv HL Hl Ht)) as [s1' (Ha' & Hr & HL1 & _)].
  rewrite Ha in Ha'. injection Ha' as <-. rewrite Hr. exact (IH HL1).
Qed.

Lemma resolve_ok_legal : forall qs s s', LegalPos s -> resolve s qs = ROk s' -> LegalPos s'.
Proof.
  induction qs as [|q tl IH]; intros s s' HL H.
  - injection H as <-. exact HL.
  - rewrite resolve_cons in H. pose proof (resolve_one s q HL) as H1.
    destruct (resolve s [q]) as [n| | |]; try discriminate H.
    destruct H1 as [m (Hg & _)]. destruct (gen_legal_props s m n HL Hg) as (_ & HLn & _).
    exact (IH n s' HLn H).
Qed.

(* a failing resolution fails at a definite query, in the position reached by the queries before it *)
Lemma resolve_fails_at : forall qs s, (forall st, resolve s qs <> ROk st) ->
  exists qs1 q qs2 s1, qs = qs1 ++ q :: qs2 /\ resolve s qs1 = ROk s1 /\
                       resolve s1 [q] = resolve s qs /\ (forall st, resolve s1 [q] <> ROk st).
Proof.
  induction qs as [|q tl IH]; intros s H; [destruct (H s eq_refl)|].
  destruct (resolve s [q]) as [n| | |] eqn:E.
  - assert (Hn : forall st, resolve n tl <> ROk st).
    { intros st Hst. apply (H st). rewrite (resolve_cons s q tl), E. exact Hst. }
    destruct (IH n Hn) as [qs1 [q' [qs2 [s1 (E1 & E2 & E3 & E4)]]]].
    exists (q :: qs1), q', qs2, s1. subst tl. split; [reflexivity|].
    rewrite (resolve_cons s q qs1), (resolve_cons s q (qs1 ++ q' :: qs2)), E. auto.
  - exists [], q, tl, s. rewrite (resolve_cons s q tl), E.
    split; [reflexivity|]. split; [reflexivity|]. split; [reflexivity|]. intros st Hst; discriminate Hst.
  - exists [], q, tl, s. rewrite (resolve_cons s q tl), E.
    split; [reflexivity|]. split; [reflexivity|]. split; [reflexivity|]. intros st Hst; discriminate Hst.
  - exists [], q, tl, s. rewrite (resolve_cons s q tl), E.
    split; [reflexivity|]. split; [reflexivity|]. split; [reflexivity|]. intros st Hst; discriminate Hst.
Qed.

(* ... and there the query matches no legal move, or more than one *)
Theorem resolve_fails_sem : forall qs s, LegalPos s -> (forall st, resolve s qs <> ROk st) ->
  exists qs1 q qs2 s1, qs = qs1 ++ q :: qs2 /\ resolve s qs1 = ROk s1 /\ LegalPos s1 /\
    ((forall m, In m (MoveGen.legal_moves s1) -> qtest q m = false) \/
     (exists m1 m2, m1 <> m2 /\ In m1 (MoveGen.legal_moves s1) /\ In m2 (MoveGen.legal_moves s1) /\
                    qtest q m1 = true /\ qtest q m2 = true)).
Proof.
  intros qs s HL H. destruct (resolve_fails_at qs s H) as [qs1 [q [qs2 [s1 (E1 & E2 & _ & E4)]]]].
  exists qs1, q, qs2, s1. split; [exact E1|]. split; [exact E2|].
  pose proof (resolve_ok_legal qs1 s s1 HL E2) as HL1. split; [exact HL1|].
  pose proof (resolve_one s1 q HL1) as H1. destruct (resolve s1 [q]) as [n| | |].
  - destruct (E4 n eq_refl).
  - right. exact H1.
  - left. exact H1.
  - destruct H1.
Qed.

Section Position.
Variable start : state.
Variable in_book : state -> bool.
Notation step := (Uci.step start in_book).

Lemma Forall2_query_of : forall toks mvs,
  Forall2 (fun t mv => uci_move_query t = Ok (query_of mv)) toks mvs ->
  Forall2 (fun t q => uci_move_query t = Ok q) toks (map query_of mvs).
Proof. intros toks mvs H. induction H; cbn [map]; constructor; assumption. Qed.

(* a legal line from the base position is followed exactly; nothing is printed but the collection *)
Theorem position_ok : forall s line (args : list text) pp toks b mvs p',
  tokens line = t_position :: args -> split_at_moves args [] = (pp, toks) ->
  pos_base start pp = inl (Some b) -> LegalPos b ->
  Forall2 (fun t mv => uci_move_query t = Ok (query_of mv)) toks mvs -> plays b mvs p' ->
  step s line = (mkSession p' None (s_artifact (fst (collect s))), snd (collect s), true) /\ LegalPos p'.
Proof.
  intros s line args pp toks b mvs p' H Hs Hb HL Hq Hp.
  rewrite (step_position start in_book s line args pp toks H Hs), Hb.
  rewrite (proj2 (all_ok_some toks _) (Forall2_query_of toks mvs Hq)).
  destruct (resolve_line b mvs p' HL Hp) as [Hr HL']. rewrite Hr. split; [reflexivity | exact HL'].
Qed.

Theorem position_startpos : forall s line toks mvs p',
  LegalPos start -> tokens line = t_position :: t_startpos :: t_moves :: toks ->
  Forall2 (fun t mv => uci_move_query t = Ok (query_of mv)) toks mvs -> plays start mvs p' ->
  step s line = (mkSession p' None (s_artifact (fst (collect s))), snd (collect s), true) /\ LegalPos p'.
Proof.
  intros s line toks mvs p' HL H Hq Hp.
  apply (position_ok s line (t_startpos :: t_moves :: toks) [t_startpos] toks start mvs p' H); auto.
Qed.

Theorem position_startpos_only : forall s line,
  tokens line = [t_position; t_startpos] ->
  step s line = (mkSession start None (s_artifact (fst (collect s))), snd (collect s), true).
Proof.
  intros s line H. rewrite (step_position start in_book s line [t_startpos] [t_startpos] [] H eq_refl). reflexivity.
Qed.

Theorem position_fen : forall s line fenparts toks b mvs p',
  tokens line = t_position :: t_fen :: fenparts ++ t_moves :: toks ->
  Forall (fun x => text_eqb x t_moves = false) fenparts ->
  fen_read (join_sp fenparts) = Ok b -> LegalPos b ->
  Forall2 (fun t mv => uci_move_query t = Ok (query_of mv)) toks mvs -> plays b mvs p' ->
  step s line = (mkSession p' None (s_artifact (fst (collect s))), snd (collect s), true) /\ LegalPos p'.
Proof.
  intros s line fenparts toks b mvs p' H Hf Hb HL Hq Hp.
  apply (position_ok s line (t_fen :: fenparts ++ t_moves :: toks) (t_fen :: fenparts) toks b mvs p' H); auto.
  - change (t_fen :: fenparts ++ t_moves :: toks) with ((t_fen :: fenparts) ++ t_moves :: toks).
    rewrite split_at_moves_app; [reflexivity|]. constructor; [reflexivity | exact Hf].
  - unfold pos_base. change (text_eqb t_fen t_startpos) with false. change (text_eqb t_fen t_fen) with true.
    cbv iota. rewrite Hb. reflexivity.
Qed.

(* rejections: the session position is the base position *)
Theorem position_rejects_format : forall s line (args : list text) pp toks b,
  tokens line = t_position :: args -> split_at_moves args [] = (pp, toks) ->
  pos_base start pp = inl (Some b) ->
  (exists t, In t toks /\ forall q, uci_move_query t <> Ok q) ->
  step s line = (mkSession b None (s_artifact (fst (collect s))), snd (collect s) ++ [OInfo 4], true).
Proof.
  intros s line args pp toks b H Hs Hb Hbad.
  rewrite (step_position start in_book s line args pp toks H Hs), Hb.
  rewrite (proj2 (all_ok_none toks) Hbad). reflexivity.
Qed.

Theorem position_rejects_move : forall s line (args : list text) pp toks b qs,
  tokens line = t_position :: args -> split_at_moves args [] = (pp, toks) ->
  pos_base start pp = inl (Some b) ->
  Forall2 (fun t q => uci_move_query t = Ok q) toks qs -> (forall st, resolve b qs <> ROk st) ->
  step s line = (mkSession b None (s_artifact (fst (collect s))), snd (collect s) ++ [OInfo 5], true).
Proof.
  intros s line args pp toks b qs H Hs Hb Hq Hbad.
  rewrite (step_position start in_book s line args pp toks H Hs), Hb.
  rewrite (proj2 (all_ok_some toks qs) Hq).
  destruct (resolve b qs) as [st| | |]; [destruct (Hbad st eq_refl) | reflexivity | reflexivity | reflexivity].
Qed.

(* the three outcomes are exhaustive: a position command with a readable base ends in one of them *)
Theorem position_outcomes : forall s line (args : list text) pp toks b,
  tokens line = t_position :: args -> split_at_moves args [] = (pp, toks) ->
  pos_base start pp = inl (Some b) ->
  let s1 := fst (collect s) in
  (exists qs st, Forall2 (fun t q => uci_move_query t = Ok q) toks qs /\ resolve b qs = ROk st /\
                 step s line = (mkSession st None (s_artifact s1), snd (collect s), true)) \/
  ((exists t, In t toks /\ forall q, uci_move_query t <> Ok q) /\
   step s line = (mkSession b None (s_artifact s1), snd (collect s) ++ [OInfo 4], true)) \/
  (exists qs, Forall2 (fun t q => uci_move_query t = Ok q) toks qs /\ (forall st, resolve b qs <> ROk st) /\
              step s line = (mkSession b None (s_artifact s1), snd (collect s) ++ [OInfo 5], true)).
Proof.
  intros s line args pp toks b H Hs Hb s1. subst s1.
  destruct (all_ok (map uci_move_query toks)) as [qs|] eqn:E.
  - apply all_ok_some in E. destruct (resolve b qs) as [st| | |] eqn:Er.
    + left. exists qs, st. split; [exact E|]. split; [exact Er|].
      rewrite (step_position start in_book s line args pp toks H Hs), Hb, (proj2 (all_ok_some toks qs) E), Er. reflexivity.
    + right; right. exists qs. split; [exact E|].
      assert (Hbad : forall st, resolve b qs <> ROk st) by (intros st; rewrite Er; discriminate).
      split; [exact Hbad|]. exact (position_rejects_move s line args pp toks b qs H Hs Hb E Hbad).
    + right; right. exists qs. split; [exact E|].
      assert (Hbad : forall st, resolve b qs <> ROk st) by (intros st; rewrite Er; discriminate).
      split; [exact Hbad|]. exact (position_rejects_move s line args pp toks b qs H Hs Hb E Hbad).
    + right; right. exists qs. split; [exact E|].
      assert (Hbad : forall st, resolve b qs <> ROk st) by (intros st; rewrite Er; discriminate).
      split; [exact Hbad|]. exact (position_rejects_move s line args pp toks b qs H Hs Hb E Hbad).
  - apply all_ok_none in E. right; left. split; [exact E|].
    exact (position_rejects_format s line args pp toks b H Hs Hb E).
Qed.

End Position.

(* ====================================================================== *)
(* coordinate texts: what the engine prints (Lan) is what the position command reads back *)
(* ====================================================================== *)

Definition coord_text (mv : move) : text :=
  square_text (mv_from mv) ++ square_text (mv_to mv)
  ++ match mv_promo mv with Some p => [to_lower (piece_letter p)] | None => [] end.

Lemma lan_write_coord : forall m, lan_write m = coord_text (absm m).
Proof. intros m. reflexivity. Qed.

Definition opt_eqb {A : Type} (e : A -> A -> bool) (a b : option A) : bool :=
  match a, b with Some x, Some y => e x y | None, None => true | _, _ => false end.

Lemma opt_eqb_eq : forall (A : Type) (e : A -> A -> bool), (forall x y, e x y = true -> x = y) ->
  forall a b, opt_eqb e a b = true -> a = b.
Proof.
  intros A e He [x|] [y|] H; cbn [opt_eqb] in H; try discriminate H; [|reflexivity].
  rewrite (He x y H). reflexivity.
Qed.

Definition mquery_eqb (a b : mquery) : bool :=
  opt_eqb piece_eqb (q_piece a) (q_piece b) && opt_eqb N.eqb (q_orank a) (q_orank b) &&
  opt_eqb N.eqb (q_ofile a) (q_ofile b) && opt_eqb N.eqb (q_drank a) (q_drank b) &&
  opt_eqb N.eqb (q_dfile a) (q_dfile b) && opt_eqb piece_eqb (q_promotion a) (q_promotion b) &&
  opt_eqb Bool.eqb (q_castle a) (q_castle b) && opt_eqb Bool.eqb (q_capture a) (q_capture b).

Lemma mquery_eqb_eq : forall a b, mquery_eqb a b = true -> a = b.
Proof.
  intros [a1 a2 a3 a4 a5 a6 a7 a8] [b1 b2 b3 b4 b5 b6 b7 b8] H. unfold mquery_eqb in H.
  cbn [q_piece q_orank q_ofile q_drank q_dfile q_promotion q_castle q_capture] in H.
  rewrite !andb_true_iff in H. destruct H as [[[[[[[H1 H2] H3] H4] H5] H6] H7] H8].
  assert (Hp : forall x y, piece_eqb x y = true -> x = y) by (intros x y E; apply piece_eqb_eq; exact E).
  assert (Hn : forall x y, N.eqb x y = true -> x = y) by (intros x y E; apply N.eqb_eq; exact E).
  assert (Hb : forall x y, Bool.eqb x y = true -> x = y) by (intros x y E; apply Bool.eqb_prop; exact E).
  rewrite (opt_eqb_eq _ _ Hp _ _ H1), (opt_eqb_eq _ _ Hn _ _ H2), (opt_eqb_eq _ _ Hn _ _ H3),
          (opt_eqb_eq _ _ Hn _ _ H4), (opt_eqb_eq _ _ Hn _ _ H5), (opt_eqb_eq _ _ Hp _ _ H6),
          (opt_eqb_eq _ _ Hb _ _ H7), (opt_eqb_eq _ _ Hb _ _ H8). reflexivity.
Qed.

Definition coord_check (mv : move) : bool :=
  match uci_move_query (coord_text mv) with Ok q => mquery_eqb q (query_of mv) | _ => false end.

Definition all_coord_moves : list move :=
  flat_map (fun f => flat_map (fun t => map (fun pr => mkMove f t pr) promo_options) all_squares) all_squares.

(* 64 * 64 * 5 token parses *)
Lemma coord_check_all : forallb coord_check all_coord_moves = true.
Proof. vm_compute. reflexivity. Qed.

Theorem uci_move_query_coord : forall mv, mv_from mv < 64 -> mv_to mv < 64 -> In (mv_promo mv) promo_options ->
  uci_move_query (coord_text mv) = Ok (query_of mv).
Proof.
  intros [f t pr] Hf Ht Hpr. cbn [mv_from mv_to mv_promo] in *.
  assert (Hin : In (mkMove f t pr) all_coord_moves).
  { unfold all_coord_moves. apply in_flat_map. exists f. split; [apply all_squares_In; exact Hf|].
    apply in_flat_map. exists t. split; [apply all_squares_In; exact Ht|].
    apply in_map_iff. exists pr. split; [reflexivity | exact Hpr]. }
  pose proof (proj1 (forallb_forall _ _) coord_check_all _ Hin) as H. unfold coord_check in H.
  destruct (uci_move_query (coord_text (mkMove f t pr))) as [q| |]; try discriminate H.
  apply mquery_eqb_eq in H. rewrite H. reflexivity.
Qed.

Lemma plays_coords : forall s mvs s', LegalPos s -> plays s mvs s' ->
  Forall2 (fun t mv => uci_move_query t = Ok (query_of mv)) (map coord_text mvs) mvs.
Proof.
  intros s mvs s' HL Hp. induction Hp as [s | s mv s1 mvs s2 Hl Ht Ha Hp IH]; cbn [map]; constructor.
  - pose proof (legal_in_moves s mv HL Hl Ht) as Hin. apply legal_moves_In in Hin.
    destruct Hin as (Hf & _ & Hpr & _). exact (uci_move_query_coord mv Hf Ht Hpr).
  - exact (IH (legal_pos_preserved s mv s1 HL Hl Ht Ha)).
Qed.

(* the text the engine prints for a generated move is read back as that move *)
Theorem lan_round_trip : forall s m n, LegalPos s -> In (m, n) (gen_legal s) ->
  uci_move_query (lan_write m) = Ok (query_of (absm m)) /\ resolve s [query_of (absm m)] = ROk n.
Proof.
  intros s m n HL Hin. destruct (gen_legal_props s m n HL Hin) as (Ha & _ & _ & Hl & Hm).
  split.
  - rewrite lan_write_coord. pose proof Hl as Hl'. apply legal_moves_In in Hl'. destruct Hl' as (Hf & Ht & Hpr & _).
    exact (uci_move_query_coord _ Hf Ht Hpr).
  - destruct (resolve_move s (absm m) HL Hl) as [s' (Ha' & Hr & _)]. rewrite <- Hm, Ha in Ha'.
    injection Ha' as <-. exact Hr.
Qed.

(* C07: position startpos moves <coordinate texts of a legal line> *)
Theorem position_startpos_coord : forall start in_book s line mvs p',
  LegalPos start -> tokens line = t_position :: t_startpos :: t_moves :: map coord_text mvs ->
  plays start mvs p' ->
  Uci.step start in_book s line = (mkSession p' None (s_artifact (fst (collect s))), snd (collect s), true) /\
  LegalPos p'.
Proof.
  intros start in_book s line mvs p' HL H Hp.
  exact (position_startpos start in_book s line _ mvs p' HL H (plays_coords start mvs p' HL Hp) Hp).
Qed.

(* C18: the first search after ucinewgame starts without an artifact; a search started after an earlier
   search was collected (no ucinewgame in between) receives that search's artifact *)
Theorem go_after_newgame : forall start in_book p line (args : list text),
  tokens line = t_go :: args -> in_book p = false ->
  exists d mt o2, forallb quiet o2 = true /\
    Uci.step start in_book (Uci.fresh p) line =
    (mkSession p (Some (p, d, mt)) None, o2 ++ [OSearchStarted p false], true).
Proof.
  intros start in_book p line args H Hb.
  destruct (step_go start in_book (Uci.fresh p) line args H) as [d [mt [o2 [Hq E]]]].
  exists d, mt, o2. split; [exact Hq|]. rewrite E. cbn [Uci.fresh s_pos]. rewrite Hb. reflexivity.
Qed.

Theorem go_after_collected : forall start in_book s line (args : list text) p0,
  tokens line = t_go :: args -> in_book (s_pos s) = false -> rpos s = Some p0 ->
  exists d mt o2 roots, forallb quiet o2 = true /\
    Uci.step start in_book s line =
    (mkSession (s_pos s) (Some (s_pos s, d, mt)) (Some (mkArt (p0 :: roots))),
     OCollected p0 :: o2 ++ [OSearchStarted (s_pos s) true], true).
Proof.
  intros start in_book s line args p0 H Hb Hr.
  destruct (step_go start in_book s line args H) as [d [mt [o2 [Hq E]]]].
  exists d, mt, o2, (match s_artifact s with Some a => art_roots a | None => [] end). split; [exact Hq|].
  rewrite E, Hb, collect_artifact, collect_out. unfold collected_outputs. rewrite Hr. reflexivity.
Qed.
