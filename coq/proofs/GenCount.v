(* R4, part 3: counting.  The generated list and the rules' list of legal moves are in bijection
   (Permutation through absm), hence equal length and equal perft; query resolution.

   REUSABLE STATEMENTS
     rules_legal_moves_NoDup   NoDup (Rules.legal_moves p)
     absm_legal_perm           LegalPos s -> Permutation (map absm (MoveGen.legal_moves s)) (Rules.legal_moves (abs s))
     same_count, perft_exact
     resolve_one (any query), resolve_coord (coordinate queries), resolve_move *)
From WV Require Import Types Bits Attacks Board MoveEnc MoveGen Rules Abs Wf Encode.
From WV Require Import BitsProofs BoardProofs MoveEncProofs PosEq BoardAlg ApplyProofs LegalPosProofs PlayProofs.
From WV Require Import GenPieces KingPrefilter GenLegal.
From Coq Require Import Lia ZifyBool ZifyN ZifyNat Permutation.
Import WV.Bits.
Open Scope N_scope.
Arguments N.add : simpl never.
Arguments N.sub : simpl never.
Arguments N.mul : simpl never.

(* ---------- Rules.legal_moves has no repetition ---------- *)

Lemma promo_options_NoDup : NoDup promo_options.
Proof.
  unfold promo_options. repeat constructor; cbn [In]; intros H;
    repeat (destruct H as [H|H]; [discriminate H|]); exact H.
Qed.

Definition moves_ft (p : pos) (f t : N) : list move :=
  flat_map (fun pr => let m := mkMove f t pr in if legal p m then [m] else []) promo_options.

Lemma moves_ft_In : forall p f t z, In z (moves_ft p f t) -> mv_from z = f /\ mv_to z = t.
Proof.
  intros p f t z H. unfold moves_ft in H. apply in_flat_map in H. destruct H as [pr [_ H]].
  cbv zeta in H. destruct (legal p (mkMove f t pr)); [|destruct H].
  destruct H as [<-|[]]. split; reflexivity.
Qed.

Lemma moves_ft_NoDup : forall p f t, NoDup (moves_ft p f t).
Proof.
  intros p f t. unfold moves_ft. apply NoDup_flat_map_disj.
  - exact promo_options_NoDup.
  - intros x _. cbv zeta. destruct (legal p (mkMove f t x)); repeat constructor. intros [].
  - intros x y z _ _ Hx Hy. cbv zeta in Hx, Hy.
    destruct (legal p (mkMove f t x)); [|destruct Hx].
    destruct (legal p (mkMove f t y)); [|destruct Hy].
    destruct Hx as [Hx|[]]. destruct Hy as [Hy|[]]. rewrite <- Hy in Hx. injection Hx as ->. reflexivity.
Qed.

Definition moves_f (p : pos) (f : N) : list move :=
  match p_at p f with
  | Some (c, _) => if color_eqb c (p_turn p) then flat_map (moves_ft p f) all_squares else []
  | None => []
  end.

Lemma rules_legal_moves_eq : forall p, Rules.legal_moves p = flat_map (moves_f p) all_squares.
Proof. reflexivity. Qed.

Lemma moves_f_In : forall p f z, In z (moves_f p f) -> mv_from z = f.
Proof.
  intros p f z H. unfold moves_f in H. destruct (p_at p f) as [[c k]|]; [|destruct H].
  destruct (color_eqb c (p_turn p)); [|destruct H].
  apply in_flat_map in H. destruct H as [t [_ H]]. apply (moves_ft_In p f t z H).
Qed.

Lemma moves_f_NoDup : forall p f, NoDup (moves_f p f).
Proof.
  intros p f. unfold moves_f. destruct (p_at p f) as [[c k]|]; [|constructor].
  destruct (color_eqb c (p_turn p)); [|constructor].
  apply NoDup_flat_map_disj.
  - exact all_squares_NoDup.
  - intros t _. apply moves_ft_NoDup.
  - intros x y z _ _ Hx Hy. apply moves_ft_In in Hx. apply moves_ft_In in Hy.
    destruct Hx as [_ <-]. destruct Hy as [_ <-]. reflexivity.
Qed.

Theorem rules_legal_moves_NoDup : forall p, NoDup (Rules.legal_moves p).
Proof.
  intros p. rewrite rules_legal_moves_eq. apply NoDup_flat_map_disj.
  - exact all_squares_NoDup.
  - intros f _. apply moves_f_NoDup.
  - intros x y z _ _ Hx Hy. apply moves_f_In in Hx. apply moves_f_In in Hy. congruence.
Qed.

(* ---------- the bijection ---------- *)

Theorem absm_legal_perm : forall s, LegalPos s ->
  Permutation (map absm (MoveGen.legal_moves s)) (Rules.legal_moves (abs s)).
Proof.
  intros s HL. apply NoDup_Permutation.
  - apply NoDup_map_inj_on; [|exact (legal_moves_NoDup s HL)].
    intros x y Hx Hy E.
    destruct (legal_moves_canonical s x HL Hx) as [_ Ex].
    destruct (legal_moves_canonical s y HL Hy) as [_ Ey].
    rewrite Ex, Ey, E. reflexivity.
  - apply rules_legal_moves_NoDup.
  - intros mv. rewrite in_map_iff. split.
    + intros [m [<- Hm]]. apply (legal_moves_canonical s m HL Hm).
    + intros H. exists (enc_move s mv). split.
      * pose proof H as H'. apply legal_moves_In in H'. destruct H' as (_ & Ht & _ & Hl).
        exact (absm_enc_move s mv (legal_move_ok s mv HL Hl Ht)).
      * apply (legal_moves_spec s _ HL). exists mv. auto.
Qed.

Theorem same_count : forall s, LegalPos s ->
  length (MoveGen.legal_moves s) = length (Rules.legal_moves (abs s)).
Proof.
  intros s HL. rewrite <- (Permutation_length (absm_legal_perm s HL)). symmetry. apply map_length.
Qed.

(* ---------- perft ---------- *)

Fixpoint nsum (l : list N) : N := match l with [] => 0 | x :: tl => x + nsum tl end.

Lemma fold_add_nsum : forall (A : Type) (f : A -> N) (l : list A) (a : N),
  fold_left (fun acc x => acc + f x) l a = a + nsum (map f l).
Proof.
  intros A f l. induction l as [|x tl IH]; intros a; cbn [fold_left map nsum]; [lia|].
  rewrite IH. lia.
Qed.

Lemma nsum_perm : forall l l', Permutation l l' -> nsum l = nsum l'.
Proof.
  intros l l' H. induction H as [|x l l' H IH|x y l|l l' l'' H1 IH1 H2 IH2]; cbn [nsum];
    [reflexivity | rewrite IH; reflexivity | lia | congruence].
Qed.

Lemma map_ext_in_N : forall (A : Type) (f g : A -> N) (l : list A),
  (forall x, In x l -> f x = g x) -> map f l = map g l.
Proof. intros A f g l H. apply map_ext_in. exact H. Qed.

Lemma perft_SS : forall k s,
  MoveGen.perft (S (S k)) s =
  fold_left (fun acc ms => acc + MoveGen.perft (S k) (snd ms)) (gen_legal s) 0.
Proof. reflexivity. Qed.

Lemma rules_perft_SS : forall k p,
  Rules.perft (S (S k)) p =
  fold_left (fun acc m => acc + Rules.perft (S k) (Rules.apply p m)) (Rules.legal_moves p) 0.
Proof. reflexivity. Qed.

Theorem perft_exact : forall d s, LegalPos s -> MoveGen.perft d s = Rules.perft d (abs s).
Proof.
  induction d as [|d IH]; intros s HL; [reflexivity|].
  destruct d as [|k].
  - change (N.of_nat (length (gen_legal s)) = N.of_nat (length (Rules.legal_moves (abs s)))).
    f_equal. rewrite <- (same_count s HL). unfold MoveGen.legal_moves. symmetry. apply map_length.
  - rewrite perft_SS, rules_perft_SS, !fold_add_nsum. f_equal.
    rewrite (map_ext_in_N _ _ (fun ms => Rules.perft (S k) (Rules.apply (abs s) (absm (fst ms))))).
    + rewrite <- (map_map (fun ms => absm (fst ms)) (fun mv => Rules.perft (S k) (Rules.apply (abs s) mv))).
      apply nsum_perm. apply Permutation_map.
      rewrite <- (map_map fst absm). exact (absm_legal_perm s HL).
    + intros [m s'] Hin. cbn [fst snd].
      destruct (gen_legal_props s m s' HL Hin) as (_ & HL' & He & _).
      rewrite (IH s' HL'). apply perft_ext_nc.
      apply (pos_eq_nc_trans _ _ _ (pos_eq_nc_of _ _ He)). apply apply_sat_nc.
Qed.

(* ---------- query resolution ---------- *)

Lemma NoDup_map_filter : forall (A B : Type) (g : A -> B) (f : A -> bool) (l : list A),
  NoDup (map g l) -> NoDup (map g (filter f l)).
Proof.
  intros A B g f l. induction l as [|a tl IH]; intros H; cbn [filter map] in *; [constructor|].
  inversion H as [|x l' Hn Hd]; subst. destruct (f a); [|exact (IH Hd)].
  cbn [map]. constructor; [|exact (IH Hd)].
  intros Hin. apply Hn. apply in_map_iff in Hin. destruct Hin as [y [E Hy]].
  apply filter_In in Hy. apply in_map_iff. exists y. split; [exact E | apply Hy].
Qed.

(* a query made of coordinates only (what the UCI front end builds from "e2e4" / "e7e8q") *)
Definition coord_query (q : mquery) : Prop :=
  q_piece q = None /\ q_orank q <> None /\ q_ofile q <> None /\ q_drank q <> None /\ q_dfile q <> None /\
  q_castle q = None /\ q_capture q = None.

Theorem resolve_one : forall s q, LegalPos s ->
  match resolve s [q] with
  | ROk s' => exists m, In (m, s') (gen_legal s) /\ qtest q m = true /\
                        (forall m', In m' (MoveGen.legal_moves s) -> qtest q m' = true -> m' = m)
  | RUnknown => forall m, In m (MoveGen.legal_moves s) -> qtest q m = false
  | RAmbiguous => exists m1 m2, m1 <> m2 /\ In m1 (MoveGen.legal_moves s) /\ In m2 (MoveGen.legal_moves s) /\
                                qtest q m1 = true /\ qtest q m2 = true
  | RIllegalEp => False
  end.
Proof.
  intros s q HL. cbn [resolve].
  assert (Hfl : forall ms, In ms (filter (fun ms => qtest q (fst ms)) (gen_legal s)) <->
                           In ms (gen_legal s) /\ qtest q (fst ms) = true).
  { intros ms. apply filter_In. }
  assert (Hnd : NoDup (map fst (filter (fun ms => qtest q (fst ms)) (gen_legal s)))).
  { apply NoDup_map_filter. exact (legal_moves_NoDup s HL). }
  destruct (filter (fun ms => qtest q (fst ms)) (gen_legal s)) as [|[m s'] [|[m2 s2] tl]].
  - intros m Hin. unfold MoveGen.legal_moves in Hin. apply in_map_iff in Hin.
    destruct Hin as [[m0 s0] [E Hin]]. cbn [fst] in E. subst m0.
    destruct (qtest q m) eqn:Eq; [|reflexivity]. exfalso.
    apply (proj2 (Hfl (m, s0))). split; [exact Hin | exact Eq].
  - destruct (proj1 (Hfl (m, s')) (or_introl eq_refl)) as [Hin Hq]. cbn [fst] in *.
    destruct (gen_legal_props s m s' HL Hin) as (Ha & _). rewrite Ha.
    exists m. split; [exact Hin|]. split; [exact Hq|].
    intros m' Hin' Hq'. unfold MoveGen.legal_moves in Hin'. apply in_map_iff in Hin'.
    destruct Hin' as [[m0 s0] [E Hin']]. cbn [fst] in E. subst m0.
    destruct (proj2 (Hfl (m', s0)) (conj Hin' Hq')) as [E|[]]. injection E as <- _. reflexivity.
  - destruct (proj1 (Hfl (m, s')) (or_introl eq_refl)) as [Hin Hq].
    destruct (proj1 (Hfl (m2, s2)) (or_intror (or_introl eq_refl))) as [Hin2 Hq2]. cbn [fst] in *.
    exists m, m2. split.
    + intros <-. cbn [map fst] in Hnd. inversion Hnd as [|x l Hn _]; subst. apply Hn. left. reflexivity.
    + split; [apply in_map_iff; exists (m, s'); auto|].
      split; [apply in_map_iff; exists (m2, s2); auto|]. auto.
Qed.

Corollary resolve_coord : forall s q, LegalPos s -> coord_query q ->
  match resolve s [q] with
  | ROk s' => exists m, In (m, s') (gen_legal s) /\ qtest q m = true /\
                        (forall m', In m' (MoveGen.legal_moves s) -> qtest q m' = true -> m' = m)
  | RUnknown => forall m, In m (MoveGen.legal_moves s) -> qtest q m = false
  | RAmbiguous => exists m1 m2, m1 <> m2 /\ In m1 (MoveGen.legal_moves s) /\ In m2 (MoveGen.legal_moves s) /\
                                qtest q m1 = true /\ qtest q m2 = true
  | RIllegalEp => False
  end.
Proof. intros s q HL _. exact (resolve_one s q HL). Qed.

Print Assumptions same_count.
Print Assumptions perft_exact.
Print Assumptions resolve_one.
