(* C12, part 2: the SAN spellings of the independent writer (spec/SanSpec.v) select exactly their move
   among the generated legal moves, the long form of an illegal pseudo-legal move selects nothing, and
   the coordinate (LAN) text of a generated move resolves to that move.

   REUSABLE STATEMENTS
     filter_unique          filter P l = [x] for a NoDup list
     pseudo_facts / enc_facts    kind, coordinates, promotion, capture flag of enc_move s mv
     spelling_shape / spelling_castle   In sp (spellings p mv) decomposed into a field record
     san_unique, san_illegal, lan_roundtrip   the three parts of C12 *)
From WV Require Import Types Bits Attacks Board MoveEnc MoveGen Text Notation Rules Abs Wf Encode SanSpec.
From WV Require Import BitsProofs BoardProofs MoveEncProofs PosEq BoardAlg ApplyProofs LegalPosProofs PlayProofs.
From WV Require Import GenPawnsNoDup KingPrefilter GenLegal GenCount GenAttrs GenResolve SanScan.
From Coq Require Import Lia ZifyBool ZifyN ZifyNat.
Import WV.Bits.
Ltac Zify.zify_post_hook ::= Z.div_mod_to_equations.
Open Scope N_scope.
Arguments N.add : simpl never.
Arguments N.sub : simpl never.
Arguments N.mul : simpl never.
Arguments N.div : simpl never.
Arguments N.modulo : simpl never.
Arguments Z.add : simpl never.
Arguments Z.sub : simpl never.
Arguments Z.mul : simpl never.

(* ------------------------------------------------------------------ lists *)

Lemma filter_none : forall (A : Type) (P : A -> bool) (l : list A),
  (forall y, In y l -> P y = false) -> filter P l = [].
Proof.
  intros A P l. induction l as [|a tl IH]; intros H; cbn [filter]; [reflexivity|].
  rewrite (H a (or_introl eq_refl)). apply IH. intros y Hy. apply H. right. exact Hy.
Qed.

Lemma filter_unique : forall (A : Type) (P : A -> bool) (l : list A) (x : A),
  NoDup l -> In x l -> P x = true -> (forall y, In y l -> P y = true -> y = x) -> filter P l = [x].
Proof.
  intros A P l x. induction l as [|a tl IH]; intros Hnd Hin Hx Hu; [destruct Hin|].
  inversion Hnd as [|a' tl' Hna Hnd']. subst a' tl'. cbn [filter].
  destruct (P a) eqn:Ea.
  - pose proof (Hu a (or_introl eq_refl) Ea) as E. subst a. f_equal.
    apply filter_none. intros y Hy. destruct (P y) eqn:Ey; [|reflexivity].
    exfalso. apply Hna. rewrite <- (Hu y (or_intror Hy) Ey). exact Hy.
  - destruct Hin as [E|Hin]; [subst a; rewrite Hx in Ea; discriminate Ea|].
    apply IH; [exact Hnd' | exact Hin | exact Hx |].
    intros y Hy. apply Hu. right. exact Hy.
Qed.

Lemma piece_eqb_refl : forall k, piece_eqb k k = true.
Proof. intros k. apply piece_eqb_eq. reflexivity. Qed.

Lemma opt_piece_eqb_refl : forall o, opt_piece_eqb o o = true.
Proof. intros [k|]; cbn [opt_piece_eqb]; [apply piece_eqb_refl | reflexivity]. Qed.

Lemma move_eq : forall a b : move,
  mv_from a = mv_from b -> mv_to a = mv_to b -> mv_promo a = mv_promo b -> a = b.
Proof. intros [f t p] [f' t' p']. cbn [mv_from mv_to mv_promo]. intros -> -> ->. reflexivity. Qed.

(* ------------------------------------------------------------------ facts about moves *)

Definition promo_rank_ok (c : color) (mv : move) : Prop :=
  match mv_promo mv with
  | Some k' => is_promo_kind k' = true /\ srank (mv_to mv) = last_rank c
  | None => srank (mv_to mv) <> last_rank c
  end.

Lemma pseudo_facts : forall s mv, LegalPos s -> Rules.pseudo_legal (abs s) mv = true -> mv_to mv < 64 ->
  let k := kind_at (abs s) (mv_from mv) in
  move_ok_k s mv k /\ k <> PNone /\ (k = Pawn -> promo_rank_ok (st_turn s) mv).
Proof.
  intros s mv HL Hpl Ht. cbv zeta.
  destruct (pseudo_move_ok s mv HL Hpl Ht) as [k Hok].
  pose proof Hok as (Hpat & _).
  assert (Ek : kind_at (abs s) (mv_from mv) = k).
  { unfold kind_at. rewrite Hpat. reflexivity. }
  rewrite Ek. split; [exact Hok|]. split; [exact (move_ok_kind s mv k Hok)|].
  intros ->. exact (proj2 (pseudo_legal_pawn _ _ Hpl Hpat)).
Qed.

Lemma legal_facts : forall s mv, LegalPos s -> In mv (Rules.legal_moves (abs s)) ->
  let k := kind_at (abs s) (mv_from mv) in
  mv_from mv < 64 /\ mv_to mv < 64 /\ Rules.legal (abs s) mv = true /\
  move_ok_k s mv k /\ k <> PNone /\ (k = Pawn -> promo_rank_ok (st_turn s) mv).
Proof.
  intros s mv HL Hin. cbv zeta. apply legal_moves_In in Hin. destruct Hin as (Hf & Ht & _ & Hl).
  split; [exact Hf|]. split; [exact Ht|]. split; [exact Hl|].
  exact (pseudo_facts s mv HL (legal_pseudo _ _ Hl) Ht).
Qed.

Lemma enc_facts : forall s mv k, LegalPos s -> move_ok_k s mv k ->
  let m := enc_move s mv in
  m_origin m = mv_from mv /\ m_dest m = mv_to mv /\ m_promotion m = mv_promo mv /\ m_piece m = k /\
  m_is_capture m = is_capture (abs s) mv.
Proof.
  intros s mv k HL Hok. cbv zeta.
  pose proof (enc_attributes s mv k (legal_pos_wf s HL) Hok) as H. cbv zeta in H.
  destruct H as (H1 & H2 & H3 & _ & H5 & _ & H7 & _).
  split; [exact H1|]. split; [exact H2|]. split; [exact H3|]. split; [exact H5|].
  unfold m_is_capture. rewrite H7. unfold is_capture, ep_flag.
  pose proof Hok as (Hpat & _).
  assert (Ek : kind_at (abs s) (mv_from mv) = k).
  { unfold kind_at. rewrite Hpat. reflexivity. }
  rewrite Ek. change (mv_from mv mod 8) with (file_of (mv_from mv)).
  change (mv_to mv mod 8) with (file_of (mv_to mv)). rewrite file_eqb_Z.
  rewrite <- (kind_on_empty s (mv_to mv)).
  destruct (piece_eqb k Pawn), (sfile (mv_from mv) =? sfile (mv_to mv))%Z,
    (kind_on (st_board s) (mv_to mv)); reflexivity.
Qed.

(* the promotion clause of the query (lenient: promotion == m.promotion().unwrap_or(m.piece())) cannot
   confuse two pseudo-legal moves of the same kind to the same destination *)
Lemma promo_agree : forall s mv mv' k,
  move_ok_k s mv k -> move_ok_k s mv' k ->
  (k = Pawn -> promo_rank_ok (st_turn s) mv) -> (k = Pawn -> promo_rank_ok (st_turn s) mv') ->
  mv_to mv' = mv_to mv ->
  opt_test (mv_promo mv) (fun p => piece_eqb p (match mv_promo mv' with Some x => x | None => k end)) = true ->
  mv_promo mv' = mv_promo mv.
Proof.
  intros s mv mv' k Hok Hok' Hp Hp' Et Hq.
  destruct (piece_eqb k Pawn) eqn:Ekp.
  - apply piece_eqb_eq in Ekp. specialize (Hp Ekp). specialize (Hp' Ekp).
    unfold promo_rank_ok in Hp, Hp'. rewrite Et in Hp'.
    destruct (mv_promo mv) as [pr|], (mv_promo mv') as [x|]; cbn [opt_test] in Hq.
    + apply piece_eqb_eq in Hq. subst x. reflexivity.
    + exfalso. apply piece_eqb_eq in Hq. subst pr. rewrite Ekp in Hp. destruct Hp as [Hp _]. discriminate Hp.
    + exfalso. apply Hp. apply Hp'.
    + reflexivity.
  - assert (Hne : k <> Pawn) by (intros ->; discriminate Ekp).
    rewrite (move_ok_promo_king s mv k Hok Hne). exact (move_ok_promo_king s mv' k Hok' Hne).
Qed.

(* ------------------------------------------------------------------ the query of a field record *)

Lemma qtest_san_query : forall k uf ur cap t pr m,
  qtest (san_query k uf ur cap t pr) m =
  piece_eqb k (m_piece m) && opt_test ur (fun r => r =? rank_of (m_origin m))
  && opt_test uf (fun f => f =? file_of (m_origin m))
  && (t / 8 =? rank_of (m_dest m)) && (t mod 8 =? file_of (m_dest m))
  && opt_test (option_map fst pr)
       (fun p => piece_eqb p (match m_promotion m with Some x => x | None => m_piece m end))
  && (if cap then m_is_capture m else true).
Proof.
  intros k uf ur cap t pr m. unfold qtest, san_query.
  cbn [q_piece q_orank q_ofile q_drank q_dfile q_promotion q_castle q_capture].
  destruct cap; cbn [opt_test]; rewrite ?andb_true_r; [|reflexivity].
  destruct (m_is_capture m); reflexivity.
Qed.

Definition hint_f (mv : move) (uf : bool) : option N := if uf then Some (mv_from mv mod 8) else None.
Definition hint_r (mv : move) (ur : bool) : option N := if ur then Some (mv_from mv / 8) else None.

Lemma hint_f_lt8 : forall mv uf, opt_lt8 (hint_f mv uf).
Proof. intros mv [|]; cbn [hint_f opt_lt8]; [lia | exact I]. Qed.
Lemma hint_r_lt8 : forall mv ur, mv_from mv < 64 -> opt_lt8 (hint_r mv ur).
Proof. intros mv [|] H; cbn [hint_r opt_lt8]; [lia | exact I]. Qed.

(* the spelling's query tests true on the move itself *)
Lemma san_query_self : forall s mv uf ur cap pr, LegalPos s ->
  Rules.pseudo_legal (abs s) mv = true -> mv_to mv < 64 ->
  (cap = true -> is_capture (abs s) mv = true) -> option_map fst pr = mv_promo mv ->
  qtest (san_query (kind_at (abs s) (mv_from mv)) (hint_f mv uf) (hint_r mv ur) cap (mv_to mv) pr)
        (enc_move s mv) = true.
Proof.
  intros s mv uf ur cap pr HL Hpl Ht Hcap Hpr.
  destruct (pseudo_facts s mv HL Hpl Ht) as (Hok & _ & _).
  destruct (enc_facts s mv _ HL Hok) as (E1 & E2 & E3 & E4 & E5).
  rewrite qtest_san_query, E1, E2, E3, E4, E5, Hpr, piece_eqb_refl.
  unfold rank_of, file_of. rewrite !N.eqb_refl. cbn [andb].
  assert (H1 : opt_test (hint_r mv ur) (fun r => r =? mv_from mv / 8) = true).
  { destruct ur; cbn [hint_r opt_test]; [apply N.eqb_refl | reflexivity]. }
  assert (H2 : opt_test (hint_f mv uf) (fun f => f =? mv_from mv mod 8) = true).
  { destruct uf; cbn [hint_f opt_test]; [apply N.eqb_refl | reflexivity]. }
  rewrite H1, H2. cbn [andb].
  assert (H3 : opt_test (mv_promo mv) (fun p => piece_eqb p
            match mv_promo mv with Some x => x | None => kind_at (abs s) (mv_from mv) end) = true).
  { destruct (mv_promo mv) as [p|]; cbn [opt_test]; [apply piece_eqb_refl | reflexivity]. }
  rewrite H3. cbn [andb]. destruct cap; [exact (Hcap eq_refl) | reflexivity].
Qed.

(* what a legal move matched by the spelling's query looks like *)
Lemma san_query_match : forall s mv mv' uf ur cap pr, LegalPos s ->
  Rules.pseudo_legal (abs s) mv = true -> mv_to mv < 64 ->
  In mv' (Rules.legal_moves (abs s)) -> option_map fst pr = mv_promo mv ->
  qtest (san_query (kind_at (abs s) (mv_from mv)) (hint_f mv uf) (hint_r mv ur) cap (mv_to mv) pr)
        (enc_move s mv') = true ->
  kind_at (abs s) (mv_from mv') = kind_at (abs s) (mv_from mv) /\ mv_to mv' = mv_to mv /\
  mv_promo mv' = mv_promo mv /\
  (uf = true -> mv_from mv' mod 8 = mv_from mv mod 8) /\ (ur = true -> mv_from mv' / 8 = mv_from mv / 8).
Proof.
  intros s mv mv' uf ur cap pr HL Hpl Ht Hin' Hpr Hq.
  destruct (pseudo_facts s mv HL Hpl Ht) as (Hok & _ & Hpk).
  destruct (legal_facts s mv' HL Hin') as (_ & Ht' & _ & Hok' & _ & Hpk').
  destruct (enc_facts s mv' _ HL Hok') as (E1 & E2 & E3 & E4 & _).
  rewrite qtest_san_query, E1, E2, E3, E4, Hpr in Hq.
  rewrite !andb_true_iff in Hq. destruct Hq as [[[[[[Q1 Q2] Q3] Q4] Q5] Q6] _].
  apply piece_eqb_eq in Q1. apply N.eqb_eq in Q4, Q5. unfold rank_of in Q4. unfold file_of in Q5.
  assert (Et : mv_to mv' = mv_to mv) by lia.
  split; [symmetry; exact Q1|]. split; [exact Et|].
  rewrite <- Q1 in Hok', Hpk', Q6.
  split; [exact (promo_agree s mv mv' _ Hok Hok' Hpk Hpk' Et Q6)|].
  split.
  - intros ->. cbn [hint_f opt_test] in Q3. apply N.eqb_eq in Q3. unfold file_of in Q3. symmetry. exact Q3.
  - intros ->. cbn [hint_r opt_test] in Q2. apply N.eqb_eq in Q2. unfold rank_of in Q2. symmetry. exact Q2.
Qed.

(* ------------------------------------------------------------------ decomposing the writer's output *)

Lemma check_mark_dom : forall p mv ck, In ck (check_mark p mv) -> In ck dom_check.
Proof.
  intros p mv ck H. unfold check_mark in H. cbv zeta in H. unfold dom_check.
  destruct (king_attacked _ _); [destruct (Rules.legal_moves _)|]; cbn [In] in *; tauto.
Qed.

Lemma spelling_castle : forall p mv side sp, castle_of p mv = Some side -> In sp (spellings p mv) ->
  exists ck, In ck dom_check /\ sp = (if side then [79; 45; 79] else [79; 45; 79; 45; 79]) ++ ck.
Proof.
  intros p mv side sp Hc H. unfold spellings in H. rewrite Hc in H. cbv zeta in H.
  apply in_map_iff in H. destruct H as [ck [E Hck]]. exists ck.
  split; [exact (check_mark_dom p mv ck Hck) | symmetry; exact E].
Qed.

Lemma spelling_shape : forall p mv sp, castle_of p mv = None -> In sp (spellings p mv) ->
  exists uf ur cap pr ck,
    unambiguous p mv uf ur = true /\ (cap = true -> is_capture p mv = true) /\
    option_map fst pr = mv_promo mv /\ In ck dom_check /\
    sp = san_text (kind_at p (mv_from mv)) (hint_f mv uf) (hint_r mv ur) cap (mv_to mv) pr ck.
Proof.
  intros p mv sp Hc H. unfold spellings in H. rewrite Hc in H. cbv zeta in H.
  apply in_flat_map in H. destruct H as [[uf ur] [_ H]]. cbn [fst snd] in H.
  destruct (unambiguous p mv uf ur) eqn:Eu; [|destruct H].
  apply in_flat_map in H. destruct H as [cm [Hcm H]].
  apply in_flat_map in H. destruct H as [ps [Hps H]].
  apply in_map_iff in H. destruct H as [ck [E Hck]].
  assert (Hcap : exists cap, cm = cap_text cap /\ (cap = true -> is_capture p mv = true)).
  { destruct (is_capture p mv).
    - destruct (piece_eqb (kind_at p (mv_from mv)) Pawn); cbn [In] in Hcm.
      + destruct Hcm as [<-|[]]. exists true. split; [reflexivity | tauto].
      + destruct Hcm as [<-|[<-|[]]]; [exists true | exists false]; split; (reflexivity || tauto).
    - cbn [In] in Hcm. destruct Hcm as [<-|[]]. exists false. split; [reflexivity | discriminate]. }
  destruct Hcap as [cap [-> Hcap]].
  assert (Hpr : exists pr, ps = promo_text pr /\ option_map fst pr = mv_promo mv).
  { unfold promo_suffixes in Hps. destruct (mv_promo mv) as [k'|]; cbn [In] in Hps.
    - destruct Hps as [<-|[<-|[]]]; [exists (Some (k', true)) | exists (Some (k', false))]; split; reflexivity.
    - destruct Hps as [<-|[]]. exists None. split; reflexivity. }
  destruct Hpr as [pr [-> Hpr]].
  exists uf, ur, cap, pr, ck. split; [exact Eu|]. split; [exact Hcap|]. split; [exact Hpr|].
  split; [exact (check_mark_dom p mv ck Hck)|].
  rewrite <- E. unfold san_text, hint_text. rewrite <- app_assoc.
  destruct uf, ur; reflexivity.
Qed.

(* ------------------------------------------------------------------ rivals *)

Lemma rivals_self : forall p mv uf ur, In mv (Rules.legal_moves p) -> In mv (rivals p mv uf ur).
Proof.
  intros p mv uf ur H. unfold rivals. apply filter_In. split; [exact H|].
  rewrite piece_eqb_refl, !N.eqb_refl, opt_piece_eqb_refl, !orb_true_r. reflexivity.
Qed.

Lemma rivals_only : forall p mv mv' uf ur, unambiguous p mv uf ur = true ->
  In mv (Rules.legal_moves p) -> In mv' (rivals p mv uf ur) -> mv' = mv.
Proof.
  intros p mv mv' uf ur Hu Hin H'. pose proof (rivals_self p mv uf ur Hin) as H.
  unfold unambiguous in Hu. destruct (rivals p mv uf ur) as [|x [|y tl]]; try discriminate Hu.
  destruct H as [<-|[]]. destruct H' as [<-|[]]. reflexivity.
Qed.

(* ------------------------------------------------------------------ castling *)

Lemma qtest_castling : forall side m, qtest (q_castling side) m = m_is_castle m side.
Proof. intros side m. unfold qtest, q_castling. cbn [q_piece q_orank q_ofile q_drank q_dfile q_promotion q_castle q_capture opt_test andb]. rewrite andb_true_r. reflexivity. Qed.

Lemma king_move_shape : forall p mv, Rules.pseudo_legal p mv = true ->
  p_at p (mv_from mv) = Some (p_turn p, King) ->
  (Z.max (Z.abs (sfile (mv_to mv) - sfile (mv_from mv))) (Z.abs (srank (mv_to mv) - srank (mv_from mv))) = 1)%Z \/
  (mv_from mv = king_home (p_turn p) /\ srank (mv_to mv) = back_rank (p_turn p) /\
   (sfile (mv_to mv) = 6 \/ sfile (mv_to mv) = 2)%Z).
Proof.
  intros p mv H Hf. unfold Rules.pseudo_legal in H. cbv zeta in H. rewrite Hf in H.
  apply andb_true_iff in H. destruct H as [_ H].
  destruct (mv_promo mv); [discriminate H|]. apply orb_true_iff in H. destruct H as [H|H].
  - left. unfold attacks_from in H. apply Z.eqb_eq in H. exact H.
  - right. unfold is_castle_move in H. cbv zeta in H.
    destruct (has p (mv_from mv) (p_turn p) King && (mv_from mv =? king_home (p_turn p))
              && (srank (mv_to mv) =? back_rank (p_turn p))%Z) eqn:E; [|discriminate H].
    rewrite !andb_true_iff in E. destruct E as [[_ E1] E2].
    apply N.eqb_eq in E1. apply Z.eqb_eq in E2. split; [exact E1|]. split; [exact E2|].
    destruct (Z.eqb_spec (sfile (mv_to mv)) 6) as [E6|_]; [left; exact E6|].
    destruct (Z.eqb_spec (sfile (mv_to mv)) 2) as [E3|_]; [right; exact E3 | discriminate H].
Qed.

Lemma king_home_val : forall c, king_home c = if is_white c then 4 else 60.
Proof. intros [|]; reflexivity. Qed.

(* castle_of (a test on square numbers) agrees with the file test of the generated move *)
Lemma castle_of_files : forall s mv side, LegalPos s -> In mv (Rules.legal_moves (abs s)) ->
  castle_of (abs s) mv = Some side ->
  kind_at (abs s) (mv_from mv) = King /\
  (if side then file_of (mv_to mv) = file_of (mv_from mv) + 2
   else file_of (mv_from mv) = file_of (mv_to mv) + 2).
Proof.
  intros s mv side HL Hin Hc.
  destruct (legal_facts s mv HL Hin) as (Hf & Ht & Hl & Hok & _ & _).
  unfold castle_of in Hc. destruct (piece_eqb (kind_at (abs s) (mv_from mv)) King) eqn:Ek; [|discriminate Hc].
  apply piece_eqb_eq in Ek. split; [exact Ek|]. rewrite Ek in Hok. pose proof Hok as (Hpat & _).
  pose proof (king_move_shape _ _ (legal_pseudo _ _ Hl) Hpat) as Hsh.
  change (p_turn (abs s)) with (st_turn s) in Hsh. rewrite king_home_val in Hsh.
  unfold sfile, srank, back_rank in Hsh. unfold file_of.
  destruct (N.eqb_spec (mv_from mv + 2) (mv_to mv)) as [E|_].
  - injection Hc as <-. destruct (st_turn s); cbn [is_white] in Hsh; lia.
  - destruct (N.eqb_spec (mv_to mv + 2) (mv_from mv)) as [E|_]; [|discriminate Hc].
    injection Hc as <-. destruct (st_turn s); cbn [is_white] in Hsh; lia.
Qed.

Lemma enc_in_legal : forall s mv, LegalPos s -> In mv (Rules.legal_moves (abs s)) ->
  In (enc_move s mv) (MoveGen.legal_moves s).
Proof. intros s mv HL Hin. apply (legal_moves_spec s _ HL). exists mv. auto. Qed.

Lemma castle_unique : forall s mv side, LegalPos s -> In mv (Rules.legal_moves (abs s)) ->
  castle_of (abs s) mv = Some side ->
  filter (fun m => qtest (q_castling side) m) (MoveGen.legal_moves s) = [enc_move s mv].
Proof.
  intros s mv side HL Hin Hc.
  destruct (castle_of_files s mv side HL Hin Hc) as [Ek Hfile].
  destruct (legal_facts s mv HL Hin) as (Hf & Ht & Hl & Hok & _ & _). rewrite Ek in Hok.
  destruct (enc_facts s mv _ HL Hok) as (E1 & E2 & E3 & E4 & _).
  pose proof (enc_in_legal s mv HL Hin) as Hm.
  pose proof (attributes s _ HL Hm) as A. cbv zeta in A.
  destruct A as (_ & _ & _ & _ & _ & _ & _ & _ & _ & Aside & Asq & _).
  assert (Hside : m_castle_side (enc_move s mv) = Some side).
  { apply Aside. rewrite E1, E2, E4. split; [reflexivity | exact Hfile]. }
  apply filter_unique.
  - exact (legal_moves_NoDup s HL).
  - exact Hm.
  - rewrite qtest_castling. unfold m_is_castle. rewrite Hside. apply eqb_reflx.
  - intros y Hy Hq. rewrite qtest_castling in Hq. unfold m_is_castle in Hq.
    destruct (m_castle_side y) as [k|] eqn:Ey; [|discriminate Hq]. apply eqb_prop in Hq. subst k.
    destruct (legal_moves_canonical s y HL Hy) as [Hin' Em].
    pose proof (attributes s y HL Hy) as B. cbv zeta in B.
    destruct B as (_ & _ & _ & _ & _ & _ & Bk & _ & _ & Bside & Bsq & _).
    destruct (Bsq side Ey) as [Bo Bd]. destruct (Asq side Hside) as [Ao Ad].
    destruct (proj1 (Bside side) Ey) as [Bking _].
    destruct (legal_facts s (absm y) HL Hin') as (_ & _ & _ & Hok' & _ & _).
    assert (Ek' : kind_at (abs s) (mv_from (absm y)) = King).
    { pose proof Hok' as (Hpat' & _). apply (kind_on_p_at s) in Hpat'.
      change (mv_from (absm y)) with (m_origin y) in *. rewrite <- Bk, Bking in Hpat'.
      injection Hpat' as E. symmetry. exact E. }
    rewrite Ek' in Hok'.
    rewrite Em. f_equal. apply move_eq.
    + change (mv_from (absm y)) with (m_origin y). rewrite Bo, <- Ao. exact E1.
    + change (mv_to (absm y)) with (m_dest y). rewrite Bd, <- Ad. exact E2.
    + rewrite (move_ok_promo_king s mv King Hok ltac:(discriminate)).
      exact (move_ok_promo_king s (absm y) King Hok' ltac:(discriminate)).
Qed.

(* ------------------------------------------------------------------ (2) every spelling selects its move *)

Theorem san_unique : forall s mv sp, LegalPos s -> In mv (Rules.legal_moves (abs s)) ->
  In sp (spellings (abs s) mv) ->
  exists q, san_parse sp = Some q /\
            filter (fun m => qtest q m) (MoveGen.legal_moves s) = [enc_move s mv].
Proof.
  intros s mv sp HL Hin Hsp.
  destruct (castle_of (abs s) mv) as [side|] eqn:Hc.
  - (* O-O / O-O-O *)
    destruct (spelling_castle _ _ _ _ Hc Hsp) as [ck [Hck ->]].
    exists (q_castling side). split; [|exact (castle_unique s mv side HL Hin Hc)].
    destruct side; [exact (san_castle_k ck (check_no_dash ck Hck)) | exact (san_castle_q ck)].
  - destruct (spelling_shape _ _ _ Hc Hsp) as (uf & ur & cap & pr & ck & Hu & Hcap & Hpr & Hck & ->).
    destruct (legal_facts s mv HL Hin) as (Hf & Ht & Hl & Hok & Hk & Hpk).
    pose proof (legal_pseudo _ _ Hl) as Hpl.
    assert (Hprk : promo_field_ok pr).
    { destruct pr as [[p e]|]; [|exact I]. cbn [option_map fst] in Hpr. cbn [promo_field_ok].
      pose proof Hok as (_ & _ & _ & _ & _ & Hp & _). rewrite <- Hpr in Hp. apply Hp. }
    exists (san_query (kind_at (abs s) (mv_from mv)) (hint_f mv uf) (hint_r mv ur) cap (mv_to mv) pr).
    split.
    { exact (san_scan _ _ _ cap _ pr ck Hk (hint_f_lt8 mv uf) (hint_r_lt8 mv ur Hf) Ht Hprk Hck). }
    apply filter_unique.
    + exact (legal_moves_NoDup s HL).
    + exact (enc_in_legal s mv HL Hin).
    + exact (san_query_self s mv uf ur cap pr HL Hpl Ht Hcap Hpr).
    + intros y Hy Hq. destruct (legal_moves_canonical s y HL Hy) as [Hin' Em].
      rewrite Em in Hq |- *. f_equal.
      destruct (san_query_match s mv (absm y) uf ur cap pr HL Hpl Ht Hin' Hpr Hq) as (M1 & M2 & M3 & M4 & M5).
      apply (rivals_only (abs s) mv (absm y) uf ur Hu Hin).
      unfold rivals. apply filter_In. split; [exact Hin'|].
      rewrite M1, M2, M3, piece_eqb_refl, N.eqb_refl, opt_piece_eqb_refl. cbn [andb].
      apply andb_true_iff. split.
      * destruct uf; cbn [negb orb]; [|reflexivity]. apply N.eqb_eq. exact (M4 eq_refl).
      * destruct ur; cbn [negb orb]; [|reflexivity]. apply N.eqb_eq. exact (M5 eq_refl).
Qed.

(* ------------------------------------------------------------------ (3) illegal moves select nothing *)

Lemma illegal_pseudo_In : forall p mv, In mv (illegal_pseudo_moves p) ->
  mv_from mv < 64 /\ mv_to mv < 64 /\ Rules.pseudo_legal p mv = true /\ Rules.legal p mv = false.
Proof.
  intros p mv H. unfold illegal_pseudo_moves in H.
  apply in_flat_map in H. destruct H as [f [Hf H]]. apply all_squares_In in Hf.
  destruct (colour_at p f (p_turn p)); [|destruct H].
  apply in_flat_map in H. destruct H as [t [Ht H]]. apply all_squares_In in Ht.
  apply in_flat_map in H. destruct H as [pr [_ H]]. cbv zeta in H.
  destruct (Rules.pseudo_legal p (mkMove f t pr) && negb (Rules.legal p (mkMove f t pr))) eqn:E; [|destruct H].
  destruct (castle_of p (mkMove f t pr)); [destruct H|]. destruct H as [<-|[]].
  cbn [mv_from mv_to]. apply andb_true_iff in E. destruct E as [E1 E2]. apply negb_true_iff in E2. auto.
Qed.

Lemma long_form_text : forall p mv,
  long_form p mv = san_text (kind_at p (mv_from mv)) (hint_f mv true) (hint_r mv true) (is_capture p mv)
                     (mv_to mv) (option_map (fun k' => (k', true)) (mv_promo mv)) [].
Proof.
  intros p mv. unfold long_form, san_text. cbv zeta.
  destruct (mv_promo mv) as [k'|]; cbn [option_map promo_text]; rewrite ?app_nil_r;
    destruct (is_capture p mv); reflexivity.
Qed.

Theorem san_illegal : forall s mv, LegalPos s -> In mv (illegal_pseudo_moves (abs s)) ->
  exists q, san_parse (long_form (abs s) mv) = Some q /\
            filter (fun m => qtest q m) (MoveGen.legal_moves s) = [].
Proof.
  intros s mv HL Hin. destruct (illegal_pseudo_In _ _ Hin) as (Hf & Ht & Hpl & Hnl).
  destruct (pseudo_facts s mv HL Hpl Ht) as (Hok & Hk & Hpk).
  set (pr := option_map (fun k' => (k', true)) (mv_promo mv)).
  assert (Hpr : option_map fst pr = mv_promo mv).
  { unfold pr. destruct (mv_promo mv); reflexivity. }
  assert (Hprk : promo_field_ok pr).
  { pose proof Hok as (_ & _ & _ & _ & _ & Hp & _). unfold pr.
    destruct (mv_promo mv) as [k'|]; cbn [option_map promo_field_ok]; [apply Hp | exact I]. }
  exists (san_query (kind_at (abs s) (mv_from mv)) (hint_f mv true) (hint_r mv true)
                    (is_capture (abs s) mv) (mv_to mv) pr).
  split.
  { rewrite long_form_text. fold pr.
    exact (san_scan _ _ _ _ _ pr [] Hk (hint_f_lt8 mv true) (hint_r_lt8 mv true Hf) Ht Hprk
                    (or_introl eq_refl)). }
  apply filter_none. intros y Hy. destruct (qtest _ y) eqn:Hq; [|reflexivity]. exfalso.
  destruct (legal_moves_canonical s y HL Hy) as [Hin' Em]. rewrite Em in Hq.
  destruct (san_query_match s mv (absm y) true true _ pr HL Hpl Ht Hin' Hpr Hq) as (_ & M2 & M3 & M4 & M5).
  specialize (M4 eq_refl). specialize (M5 eq_refl).
  assert (E : absm y = mv).
  { apply move_eq; [lia | exact M2 | exact M3]. }
  rewrite E in Hin'. apply legal_moves_In in Hin'. destruct Hin' as (_ & _ & _ & Hl).
  rewrite Hl in Hnl. discriminate Hnl.
Qed.

(* ------------------------------------------------------------------ (4) coordinate notation *)

Theorem lan_roundtrip : forall s m, LegalPos s -> In m (MoveGen.legal_moves s) ->
  lan_write m = sq_text (m_origin m) ++ sq_text (m_dest m) ++ lower_promo_text (m_promotion m) /\
  exists q s', uci_move_query (lan_write m) = Ok q /\ resolve s [q] = ROk s' /\ In (m, s') (gen_legal s).
Proof.
  intros s m HL Hm. destruct (legal_moves_canonical s m HL Hm) as [Hin Em].
  destruct (legal_facts s (absm m) HL Hin) as (Hf & Ht & _ & Hok & _ & _).
  change (mv_from (absm m)) with (m_origin m) in Hf. change (mv_to (absm m)) with (m_dest m) in Ht.
  assert (Hp : opt_promo_ok (m_promotion m)).
  { pose proof Hok as (_ & _ & _ & _ & _ & Hp & _). change (mv_promo (absm m)) with (m_promotion m) in Hp.
    destruct (m_promotion m) as [p|]; cbn [opt_promo_ok]; [apply Hp | exact I]. }
  assert (Hw : lan_write m = sq_text (m_origin m) ++ sq_text (m_dest m) ++ lower_promo_text (m_promotion m)).
  { unfold lan_write. rewrite (square_text_sq_text _ Hf), (square_text_sq_text _ Ht).
    rewrite (lower_promo_letter _ Hp). reflexivity. }
  split; [exact Hw|].
  destruct (resolve_move s (absm m) HL Hin) as (s' & Ha & Hr & _ & _).
  exists (query_of (absm m)), s'. split; [|split].
  - rewrite Hw. exact (lan_text_parse _ _ _ Hf Ht Hp).
  - exact Hr.
  - apply (gen_legal_spec s m s' HL). exists (absm m). rewrite <- Em in Ha.
    split; [exact Hin|]. split; [exact Em | exact Ha].
Qed.

Print Assumptions san_unique.
Print Assumptions san_illegal.
Print Assumptions lan_roundtrip.
