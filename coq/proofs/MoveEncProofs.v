(* C20: the 32-bit packed move.  Structural (bit-level) proofs: a field that is stored can be
   loaded back, and stores / flag updates on other fields do not disturb it.  The only facts used
   about the generated layout constants are the closed side conditions collected in
   [layout_disjoint] (pairwise disjoint masks, mask = ones w << off, everything below 2^29). *)
From WV Require Import MoveEnc.
From Coq Require Import Lia.
Open Scope N_scope.

Arguments N.add : simpl never.
Arguments N.sub : simpl never.
Arguments N.mul : simpl never.
Arguments N.land : simpl never.
Arguments N.lor : simpl never.
Arguments N.shiftl : simpl never.
Arguments N.shiftr : simpl never.
Arguments N.ldiff : simpl never.
Arguments N.pow : simpl never.

(* ------------------------------------------------------------------------- *)
(* the value built by the ordinary constructors                               *)

Definition build (c : color) (p : piece) (o d : N) (cap pro : option piece) : N :=
  set_promotion (set_capture (by_moving c p o d) cap) pro.

(* ------------------------------------------------------------------------- *)
(* layout obligation                                                          *)

Definition layout_masks : list N :=
  [ piece_mask; origin_mask; dest_mask; capture_mask; promotion_mask;
    N.shiftl 1 en_passant_offset; N.shiftl 1 double_pawn_offset;
    N.shiftl 1 castle_queenside_offset; N.shiftl 1 castle_kingside_offset;
    N.shiftl 1 color_offset ].

Fixpoint pairwise_disjoint (l : list N) : bool :=
  match l with
  | [] => true
  | x :: r => forallb (fun y => N.land x y =? 0) r && pairwise_disjoint r
  end.

Lemma layout_disjoint :
  pairwise_disjoint layout_masks = true /\
  piece_mask = N.shiftl (N.ones 4) piece_offset /\
  origin_mask = N.shiftl (N.ones 6) origin_offset /\
  dest_mask = N.shiftl (N.ones 6) dest_offset /\
  capture_mask = N.shiftl (N.ones 4) capture_offset /\
  promotion_mask = N.shiftl (N.ones 4) promotion_offset /\
  forallb (fun x => x <? 2 ^ 29) layout_masks = true.
Proof. vm_compute. repeat split. Qed.

(* Prop reading of [pairwise_disjoint] *)
Lemma pairwise_disjoint_spec : forall l, pairwise_disjoint l = true ->
  forall i j, (i < j)%nat -> (j < length l)%nat -> N.land (nth i l 0) (nth j l 0) = 0.
Proof.
  induction l as [|x r IH]; intros H i j Hij Hj.
  - inversion Hj.
  - cbn [pairwise_disjoint] in H. apply andb_true_iff in H. destruct H as [Hx Hr].
    cbn [length] in Hj. destruct j as [|j]; [inversion Hij|].
    destruct i as [|i]; cbn [nth].
    + rewrite forallb_forall in Hx. apply N.eqb_eq, Hx, nth_In. lia.
    + apply IH; [assumption | lia | lia].
Qed.

Lemma layout_masks_disjoint : forall i j, (i < j)%nat -> (j < 10)%nat ->
  N.land (nth i layout_masks 0) (nth j layout_masks 0) = 0.
Proof. intros i j Hij Hj. apply pairwise_disjoint_spec; [apply layout_disjoint | exact Hij | exact Hj]. Qed.

(* ------------------------------------------------------------------------- *)
(* generic bit lemmas                                                         *)

Lemma testbit_small : forall v w i, v < 2 ^ w -> w <= i -> N.testbit v i = false.
Proof.
  intros v w i Hv Hwi. destruct (N.eq_dec v 0) as [->|Hnz]; [apply N.bits_0|].
  apply N.bits_above_log2. apply N.log2_lt_pow2; [lia|].
  apply N.lt_le_trans with (2 ^ w); [assumption|]. apply N.pow_le_mono_r; lia.
Qed.

Lemma lt_pow2_shiftr : forall a n, a < 2 ^ n <-> N.shiftr a n = 0.
Proof.
  intros a n. rewrite N.shiftr_div_pow2. symmetry. apply N.div_small_iff.
  apply N.pow_nonzero. discriminate.
Qed.

Lemma testbit_set_bit : forall d b v i,
  N.testbit (set_bit d b v) i = if i =? b then v else N.testbit d i.
Proof.
  intros d b v i. unfold set_bit. rewrite N.shiftl_1_l. destruct v.
  - rewrite N.lor_spec, N.pow2_bits_eqb, (N.eqb_sym b i).
    destruct (i =? b); [apply orb_true_r | apply orb_false_r].
  - rewrite N.ldiff_spec, N.pow2_bits_eqb, (N.eqb_sym b i).
    destruct (i =? b); [apply andb_false_r | apply andb_true_r].
Qed.

Lemma bit_testbit : forall d b, bit d b = N.testbit d b.
Proof.
  intros d b. unfold bit. rewrite N.shiftl_1_l. destruct (N.testbit d b) eqn:E.
  - destruct (N.eqb_spec (N.land d (2 ^ b)) 0) as [H|H]; [|reflexivity].
    exfalso. assert (T : N.testbit (N.land d (2 ^ b)) b = true)
      by (rewrite N.land_spec, E, N.pow2_bits_true; reflexivity).
    rewrite H, N.bits_0 in T. discriminate.
  - assert (Z : N.land d (2 ^ b) = 0).
    { apply N.bits_inj; intro i. rewrite N.land_spec, N.pow2_bits_eqb, N.bits_0.
      destruct (N.eqb_spec b i) as [->|_]; [rewrite E; reflexivity | apply andb_false_r]. }
    rewrite Z. reflexivity.
Qed.

(* ------------------------------------------------------------------------- *)
(* frame lemmas: what a store / flag update does under another mask            *)

Lemma land_store_other : forall d off mask v mask',
  N.land mask mask' = 0 -> N.land (store d off mask v) mask' = N.land d mask'.
Proof.
  intros d off mask v mask' H. unfold store.
  rewrite N.land_lor_distr_l, <- (N.land_assoc _ mask mask'), H, N.land_0_r, N.lor_0_r.
  reflexivity.
Qed.

Lemma land_set_bit_other : forall d b v mask',
  N.land (N.shiftl 1 b) mask' = 0 -> N.land (set_bit d b v) mask' = N.land d mask'.
Proof.
  intros d b v mask' H. apply N.bits_inj; intro i.
  rewrite !N.land_spec, testbit_set_bit. destruct (N.eqb_spec i b) as [->|_]; [|reflexivity].
  assert (T : N.testbit (N.land (N.shiftl 1 b) mask') b = false) by (rewrite H; apply N.bits_0).
  rewrite N.land_spec, N.shiftl_1_l, N.pow2_bits_true in T. cbn [andb] in T.
  rewrite T, !andb_false_r. reflexivity.
Qed.

Lemma load_store_other : forall d off mask v off' mask',
  N.land mask mask' = 0 -> load (store d off mask v) off' mask' = load d off' mask'.
Proof. intros. unfold load. rewrite land_store_other by assumption. reflexivity. Qed.

Lemma load_set_bit_other : forall d b v off' mask',
  N.land (N.shiftl 1 b) mask' = 0 -> load (set_bit d b v) off' mask' = load d off' mask'.
Proof. intros. unfold load. rewrite land_set_bit_other by assumption. reflexivity. Qed.

Lemma bit_store_other : forall d off mask v b,
  N.land mask (N.shiftl 1 b) = 0 -> bit (store d off mask v) b = bit d b.
Proof. intros. unfold bit. rewrite land_store_other by assumption. reflexivity. Qed.

Lemma bit_set_bit_other : forall d b' v b,
  N.land (N.shiftl 1 b') (N.shiftl 1 b) = 0 -> bit (set_bit d b' v) b = bit d b.
Proof. intros. unfold bit. rewrite land_set_bit_other by assumption. reflexivity. Qed.

Lemma bit_set_bit_same : forall d b v, bit (set_bit d b v) b = v.
Proof. intros. rewrite bit_testbit, testbit_set_bit, N.eqb_refl. reflexivity. Qed.

Lemma bit_0 : forall b, bit 0 b = false.
Proof. intros. rewrite bit_testbit. apply N.bits_0. Qed.

Lemma load_0 : forall off mask, load 0 off mask = 0.
Proof. intros. unfold load. rewrite N.land_0_l, N.shiftr_0_l, N.land_0_l. reflexivity. Qed.

(* the field that was stored is read back *)
Lemma load_store_same : forall d off mask v w,
  mask = N.shiftl (N.ones w) off -> w <= 8 -> off + w <= 32 -> v < 2 ^ w ->
  N.land d mask = 0 ->
  load (store d off mask v) off mask = v.
Proof.
  intros d off mask v w Hm Hw How Hv Hd. unfold load, store.
  rewrite N.land_lor_distr_l, Hd, N.lor_0_l.
  rewrite <- (N.land_assoc _ mask mask), N.land_diag.
  change mask32 with (N.ones 32). change 255 with (N.ones 8).
  apply N.bits_inj; intro i.
  rewrite N.land_spec, N.shiftr_spec', !N.land_spec.
  rewrite Hm, !N.shiftl_spec_high' by lia. rewrite N.add_sub.
  destruct (N.lt_ge_cases i w) as [Hi|Hi].
  - rewrite (N.ones_spec_low w i) by assumption.
    rewrite (N.ones_spec_low 32 (i + off)) by lia.
    rewrite (N.ones_spec_low 8 i) by lia.
    rewrite !andb_true_r. reflexivity.
  - rewrite (N.ones_spec_high w i) by assumption.
    rewrite andb_false_r, andb_false_l.
    symmetry. apply testbit_small with w; assumption.
Qed.

(* storing zero changes nothing *)
Lemma store_zero : forall d off mask, store d off mask 0 = d.
Proof.
  intros. unfold store. rewrite N.shiftl_0_l, !N.land_0_l, N.lor_0_r. reflexivity.
Qed.

(* bounds *)
Lemma store_lt : forall n d off mask v, d < 2 ^ n -> mask < 2 ^ n -> store d off mask v < 2 ^ n.
Proof.
  intros n d off mask v Hd Hm. rewrite lt_pow2_shiftr in *. unfold store.
  rewrite N.shiftr_lor, N.shiftr_land, Hd, Hm, N.land_0_r, N.lor_0_r. reflexivity.
Qed.

Lemma set_bit_lt : forall n d b v, d < 2 ^ n -> b < n -> set_bit d b v < 2 ^ n.
Proof.
  intros n d b v Hd Hb.
  assert (H2 : N.shiftl 1 b < 2 ^ n)
    by (rewrite N.shiftl_1_l; apply N.pow_lt_mono_r; [reflexivity | assumption]).
  rewrite lt_pow2_shiftr in *. unfold set_bit. destruct v.
  - rewrite N.shiftr_lor, Hd, H2. reflexivity.
  - rewrite N.shiftr_ldiff, Hd. apply N.ldiff_0_l.
Qed.

(* ------------------------------------------------------------------------- *)
(* tactics                                                                    *)

Ltac by_compute := vm_compute; first [reflexivity | discriminate].

Ltac frame :=
  repeat first
    [ rewrite load_store_other by reflexivity
    | rewrite load_set_bit_other by reflexivity
    | rewrite bit_store_other by reflexivity
    | rewrite bit_set_bit_other by reflexivity ].

Ltac zero_under :=
  repeat first
    [ rewrite land_store_other by reflexivity
    | rewrite land_set_bit_other by reflexivity ];
  apply N.land_0_l.

(* after [frame]: goal  load (store d off mask v) off mask = v ; leaves  v < 2^w *)
Ltac same w :=
  apply (fun d off mask v => load_store_same d off mask v w);
  [ reflexivity | by_compute | by_compute | | zero_under ].

Ltac open_build :=
  cbv beta zeta delta [build by_en_passant by_castling by_capturing by_promoting
                       by_capture_promoting set_promotion set_capture by_moving].

Lemma piece_to_N_lt16 : forall p, piece_to_N p < 2 ^ 4.
Proof. destruct p; by_compute. Qed.
Lemma opt_piece_to_N_lt16 : forall p, opt_piece_to_N p < 2 ^ 4.
Proof. destruct p as [p|]; [apply piece_to_N_lt16 | by_compute]. Qed.

Lemma piece_of_to_N : forall p, piece_of_N (piece_to_N p) = Some p.
Proof. destruct p; reflexivity. Qed.

(* ------------------------------------------------------------------------- *)
(* the constructors are instances of [build]                                  *)

Lemma build_by_moving : forall c p o d, build c p o d None None = by_moving c p o d.
Proof.
  intros. unfold build, set_promotion, set_capture. cbn [opt_piece_to_N].
  rewrite !store_zero. reflexivity.
Qed.
Lemma build_by_capturing : forall c p o d k, build c p o d (Some k) None = by_capturing c p o d k.
Proof.
  intros. unfold build, by_capturing, set_promotion. cbn [opt_piece_to_N].
  rewrite store_zero. reflexivity.
Qed.
Lemma build_by_promoting : forall c p o d k, build c p o d None (Some k) = by_promoting c p o d k.
Proof.
  intros. unfold build, by_promoting, set_capture at 1. cbn [opt_piece_to_N].
  rewrite store_zero. reflexivity.
Qed.
Lemma build_by_capture_promoting : forall c p o d k q,
  build c p o d (Some k) (Some q) = by_capture_promoting c p o d k q.
Proof. reflexivity. Qed.

(* ------------------------------------------------------------------------- *)
(* field by field: [build]                                                    *)


Lemma build_piece_raw : forall (c : color) (p : piece) (o d : N) (cap pro : option piece),
  m_piece_raw (build c p o d cap pro) = piece_to_N p.
Proof.
  intros c p o d cap pro.
  unfold m_piece_raw. open_build.
  destruct (piece_eqb p Pawn && _); frame; same 4; apply piece_to_N_lt16.
Qed.

Lemma build_origin : forall (c : color) (p : piece) (o d : N) (cap pro : option piece),
  o < 64 -> m_origin (build c p o d cap pro) = o.
Proof.
  intros c p o d cap pro.
  intro Ho. unfold m_origin. open_build.
  destruct (piece_eqb p Pawn && _); frame; same 6; exact Ho.
Qed.

Lemma build_dest : forall (c : color) (p : piece) (o d : N) (cap pro : option piece),
  d < 64 -> m_dest (build c p o d cap pro) = d.
Proof.
  intros c p o d cap pro.
  intro Hd. unfold m_dest. open_build.
  destruct (piece_eqb p Pawn && _); frame; same 6; exact Hd.
Qed.

Lemma build_capture_raw : forall (c : color) (p : piece) (o d : N) (cap pro : option piece),
  load (build c p o d cap pro) capture_offset capture_mask = opt_piece_to_N cap.
Proof.
  intros c p o d cap pro.
  open_build.
  destruct (piece_eqb p Pawn && _); frame; same 4; apply opt_piece_to_N_lt16.
Qed.

Lemma build_promotion_raw : forall (c : color) (p : piece) (o d : N) (cap pro : option piece),
  load (build c p o d cap pro) promotion_offset promotion_mask = opt_piece_to_N pro.
Proof.
  intros c p o d cap pro.
  open_build.
  destruct (piece_eqb p Pawn && _); frame; same 4; apply opt_piece_to_N_lt16.
Qed.

Lemma build_is_ep : forall (c : color) (p : piece) (o d : N) (cap pro : option piece),
  m_is_ep (build c p o d cap pro) = false.
Proof.
  intros c p o d cap pro.
  unfold m_is_ep. open_build.
  destruct (piece_eqb p Pawn && _); frame; apply bit_0.
Qed.

Lemma build_castle_q : forall (c : color) (p : piece) (o d : N) (cap pro : option piece),
  m_castle_q (build c p o d cap pro) = false.
Proof.
  intros c p o d cap pro.
  unfold m_castle_q. open_build.
  destruct (piece_eqb p Pawn && _); frame; apply bit_0.
Qed.

Lemma build_castle_k : forall (c : color) (p : piece) (o d : N) (cap pro : option piece),
  m_castle_k (build c p o d cap pro) = false.
Proof.
  intros c p o d cap pro.
  unfold m_castle_k. open_build.
  destruct (piece_eqb p Pawn && _); frame; apply bit_0.
Qed.

Lemma build_color_bit : forall (c : color) (p : piece) (o d : N) (cap pro : option piece),
  bit (build c p o d cap pro) color_offset = is_white c.
Proof.
  intros c p o d cap pro.
  open_build.
  destruct (piece_eqb p Pawn && _); frame; apply bit_set_bit_same.
Qed.

Lemma build_is_double : forall (c : color) (p : piece) (o d : N) (cap pro : option piece),
  m_is_double (build c p o d cap pro) = (piece_eqb p Pawn && (1 <? abs_dist (rank_of o) (rank_of d))).
Proof.
  intros c p o d cap pro.
  unfold m_is_double. open_build.
  destruct (piece_eqb p Pawn && _); frame; [apply bit_set_bit_same | apply bit_0].
Qed.

Lemma build_lt : forall (c : color) (p : piece) (o d : N) (cap pro : option piece),
  (build c p o d cap pro) < 2 ^ 29.
Proof.
  intros c p o d cap pro.
  open_build.
  assert (B : forall x, x < 2 ^ 29 ->
    (if piece_eqb p Pawn && (1 <? abs_dist (rank_of o) (rank_of d))
     then set_bit x double_pawn_offset true else x) < 2 ^ 29).
  { intros x Hx. destruct (_ && _); [apply set_bit_lt; [exact Hx | by_compute] | exact Hx]. }
  repeat first [ apply store_lt; [|by_compute] | apply B | apply set_bit_lt; [|by_compute] ].
  by_compute.
Qed.


Lemma m_piece_of_raw : forall m p, m_piece_raw m = piece_to_N p -> m_piece m = p.
Proof. intros m p H. unfold m_piece. rewrite H, piece_of_to_N. reflexivity. Qed.

Lemma opt_of_raw : forall x (q : option piece), q <> Some PNone -> x = opt_piece_to_N q ->
  (if x =? 0 then None else piece_of_N x) = q.
Proof.
  intros x q Hq ->. destruct q as [[]|]; try reflexivity. exfalso; apply Hq; reflexivity.
Qed.

Lemma color_of_bit : forall m c, bit m color_offset = is_white c -> m_color m = c.
Proof. intros m c H. unfold m_color. rewrite H. destruct c; reflexivity. Qed.

Lemma roundtrip : forall c p o d cap pro,
  p <> PNone -> o < 64 -> d < 64 -> cap <> Some PNone -> pro <> Some PNone ->
  let m := build c p o d cap pro in
  m_piece m = p /\ m_color m = c /\ m_origin m = o /\ m_dest m = d /\
  m_capture m = cap /\ m_promotion m = pro /\ m_is_ep m = false /\ m_castle_side m = None /\
  m_is_double m = (piece_eqb p Pawn && (1 <? abs_dist (rank_of o) (rank_of d))) /\
  m_decodes m = true.
Proof.
  intros c p o d cap pro Hp Ho Hd Hcap Hpro m. subst m.
  split; [apply m_piece_of_raw, build_piece_raw|].
  split; [apply color_of_bit, build_color_bit|].
  split; [apply build_origin, Ho|].
  split; [apply build_dest, Hd|].
  split; [unfold m_capture; apply opt_of_raw; [exact Hcap | apply build_capture_raw]|].
  split; [unfold m_promotion; apply opt_of_raw; [exact Hpro | apply build_promotion_raw]|].
  split; [apply build_is_ep|].
  split; [unfold m_castle_side; rewrite build_castle_q, build_castle_k; reflexivity|].
  split; [apply build_is_double|].
  unfold m_decodes.
  rewrite build_piece_raw, piece_of_to_N, build_capture_raw, build_promotion_raw.
  destruct cap as [[]|]; destruct pro as [[]|]; reflexivity.
Qed.

(* ------------------------------------------------------------------------- *)
(* en passant                                                                 *)

Lemma en_passant_fields : forall c o d, o < 64 -> d < 64 ->
  let m := by_en_passant c Pawn o d in
  m_piece m = Pawn /\ m_color m = c /\ m_origin m = o /\ m_dest m = d /\ m_capture m = Some Pawn /\
  m_promotion m = None /\ m_is_ep m = true /\ m_castle_side m = None.
Proof.
  intros c o d Ho Hd m. subst m.
  split.
  { apply m_piece_of_raw. unfold m_piece_raw. open_build.
    destruct (piece_eqb Pawn Pawn && _); frame; same 4; by_compute. }
  split.
  { apply color_of_bit. open_build.
    destruct (piece_eqb Pawn Pawn && _); frame; apply bit_set_bit_same. }
  split.
  { unfold m_origin. open_build.
    destruct (piece_eqb Pawn Pawn && _); frame; same 6; exact Ho. }
  split.
  { unfold m_dest. open_build.
    destruct (piece_eqb Pawn Pawn && _); frame; same 6; exact Hd. }
  split.
  { unfold m_capture. apply (opt_of_raw _ (Some Pawn)); [discriminate|]. open_build.
    destruct (piece_eqb Pawn Pawn && _); frame; same 4; by_compute. }
  split.
  { unfold m_promotion. apply (opt_of_raw _ None); [discriminate|]. open_build.
    destruct (piece_eqb Pawn Pawn && _); frame; apply load_0. }
  split.
  { unfold m_is_ep. open_build.
    destruct (piece_eqb Pawn Pawn && _); frame; apply bit_set_bit_same. }
  assert (Q : m_castle_q (by_en_passant c Pawn o d) = false).
  { unfold m_castle_q. open_build. destruct (piece_eqb Pawn Pawn && _); frame; apply bit_0. }
  assert (K : m_castle_k (by_en_passant c Pawn o d) = false).
  { unfold m_castle_k. open_build. destruct (piece_eqb Pawn Pawn && _); frame; apply bit_0. }
  unfold m_castle_side. rewrite Q, K. reflexivity.
Qed.

Lemma en_passant_lt : forall c p o d, by_en_passant c p o d < 2 ^ 29.
Proof.
  intros. unfold by_en_passant, set_capture.
  apply store_lt; [|by_compute]. apply set_bit_lt; [|by_compute].
  rewrite <- build_by_moving. apply build_lt.
Qed.

(* ------------------------------------------------------------------------- *)
(* castling: four closed cases                                                *)

Lemma castle_fields : forall c k,
  let m := by_castling c k in
  m_piece m = King /\ m_color m = c /\ m_origin m = king_origin c /\ m_dest m = castle_dest c k /\
  m_capture m = None /\ m_promotion m = None /\ m_is_ep m = false /\ m_castle_side m = Some k /\
  m_is_double m = false.
Proof. intros [] []; vm_compute; repeat split. Qed.

Lemma castle_lt : forall c k, by_castling c k < 2 ^ 29.
Proof. intros [] []; by_compute. Qed.

(* ------------------------------------------------------------------------- *)
(* consequences                                                               *)

Lemma build_injective : forall c p o d cap pro c' p' o' d' cap' pro',
  p <> PNone -> o < 64 -> d < 64 -> cap <> Some PNone -> pro <> Some PNone ->
  p' <> PNone -> o' < 64 -> d' < 64 -> cap' <> Some PNone -> pro' <> Some PNone ->
  build c p o d cap pro = build c' p' o' d' cap' pro' ->
  c = c' /\ p = p' /\ o = o' /\ d = d' /\ cap = cap' /\ pro = pro'.
Proof.
  intros c p o d cap pro c' p' o' d' cap' pro' Hp Ho Hd Hcap Hpro Hp' Ho' Hd' Hcap' Hpro' E.
  destruct (roundtrip c p o d cap pro Hp Ho Hd Hcap Hpro)
    as (A1 & A2 & A3 & A4 & A5 & A6 & _).
  destruct (roundtrip c' p' o' d' cap' pro' Hp' Ho' Hd' Hcap' Hpro')
    as (B1 & B2 & B3 & B4 & B5 & B6 & _).
  rewrite E in A1, A2, A3, A4, A5, A6.
  rewrite <- A1, <- A2, <- A3, <- A4, <- A5, <- A6.
  repeat split; assumption.
Qed.

Lemma distinct_kinds : forall c p o d cap pro c2 o2 d2,
  p <> PNone -> o < 64 -> d < 64 -> cap <> Some PNone -> pro <> Some PNone -> o2 < 64 -> d2 < 64 ->
  build c p o d cap pro <> by_en_passant c2 Pawn o2 d2 /\
  (forall c3 k, build c p o d cap pro <> by_castling c3 k /\
                by_en_passant c2 Pawn o2 d2 <> by_castling c3 k).
Proof.
  intros c p o d cap pro c2 o2 d2 Hp Ho Hd Hcap Hpro Ho2 Hd2.
  destruct (roundtrip c p o d cap pro Hp Ho Hd Hcap Hpro)
    as (_ & _ & _ & _ & _ & _ & Aep & Acs & _).
  destruct (en_passant_fields c2 o2 d2 Ho2 Hd2) as (_ & _ & _ & _ & _ & _ & Bep & _).
  split.
  - intro E. rewrite E, Bep in Aep. discriminate.
  - intros c3 k. destruct (castle_fields c3 k) as (_ & _ & _ & _ & _ & _ & Cep & Ccs & _).
    split; intro E.
    + rewrite E, Ccs in Acs. discriminate.
    + rewrite E, Cep in Bep. discriminate.
Qed.
