(* R3: the pawn generator MoveGen.pawn_moves refines the pawn clauses of Rules.pseudo_legal.
   Part 1 (this file): side conditions, bit-level characterisation of every branch of the generator
   in terms of Square::offset, the rules-side characterisation, and the main theorem. *)
From Coq Require Import Lia ZifyBool ZifyN ZifyNat.
From WV Require Import Types Bits Attacks Board MoveEnc MoveGen Rules Abs Wf Encode.
From WV Require Import BitsProofs BoardProofs MoveEncProofs.
Import WV.Bits.   (* ZArith's Zpower.shift must not shadow Bits.shift *)
Ltac Zify.zify_post_hook ::= Z.div_mod_to_equations.
Open Scope N_scope.
Arguments N.add : simpl never.
Arguments N.sub : simpl never.
Arguments N.mul : simpl never.
Arguments N.land : simpl never.
Arguments N.lor : simpl never.
Arguments N.shiftl : simpl never.
Arguments N.shiftr : simpl never.

(* ------------------------------------------------------------------------- *)
(* side conditions                                                            *)

Definition pawns_ok (s : state) : Prop :=
  forall c t, test (pocc (st_board s) c Pawn) t = true -> rank_of t <> 0 /\ rank_of t <> 7.

Definition ep_ok (s : state) : Prop :=
  match st_ep s with
  | None => True
  | Some t =>
      let c := st_turn s in
      t < 64 /\ rank_of t = (if is_white c then 5 else 2) /\
      test (occupancy (st_board s)) t = false /\
      piece_at (st_board s) (sq_of (sfile t) (srank t - fwd c)) = Some (opp c, Pawn)
  end.

(* ------------------------------------------------------------------------- *)
(* colour constants                                                           *)

Definition lastN (c : color) : N := match c with White => 7 | Black => 0 end.
Definition homeN (c : color) : N := match c with White => 1 | Black => 6 end.

Lemma fwd_eq : forall c, forward_dr c = fwd c.
Proof. intros [|]; reflexivity. Qed.

Lemma bwd_eq : forall c, backward_dr c = (- fwd c)%Z.
Proof. intros [|]; reflexivity. Qed.

Lemma fwd_cases : forall c, fwd c = 1%Z \/ fwd c = (-1)%Z.
Proof. intros [|]; [left | right]; reflexivity. Qed.

Lemma rank_mask_test : forall r t, r < 8 -> t < 64 -> test (rank_mask r) t = (rank_of t =? r).
Proof.
  intros r t Hr Ht.
  assert (H : forallb (fun r => forallb (fun t => Bool.eqb (test (rank_mask r) t) (rank_of t =? r)) squares)
                      (map N.of_nat (seq 0 8)) = true) by (vm_compute; reflexivity).
  rewrite forallb_forall in H.
  assert (Hin : In r (map N.of_nat (seq 0 8))).
  { apply in_map_iff. exists (N.to_nat r). split; [apply N2Nat.id|]. apply in_seq. lia. }
  apply H in Hin. apply forallb_squares with (s := t) in Hin; [|exact Ht].
  apply eqb_prop in Hin. exact Hin.
Qed.

Lemma backrank_test : forall c t, t < 64 -> test (own_backrank_mask c) t = (rank_of t =? lastN c).
Proof. intros [|] t Ht; cbn [own_backrank_mask lastN]; apply rank_mask_test; [lia | exact Ht | lia | exact Ht]. Qed.

Lemma home_test : forall c t, t < 64 -> test (own_pawn_home_mask c) t = (rank_of t =? homeN c).
Proof. intros [|] t Ht; cbn [own_pawn_home_mask homeN]; apply rank_mask_test; [lia | exact Ht | lia | exact Ht]. Qed.

(* ------------------------------------------------------------------------- *)
(* bit-level helpers                                                          *)

Lemma test_land : forall a b t, test (N.land a b) t = test a t && test b t.
Proof. intros. unfold test. apply N.land_spec. Qed.

Lemma lnot64_test : forall x t, t < 64 -> test (lnot64 x) t = negb (test x t).
Proof.
  intros x t Ht. unfold test. rewrite lnot64_spec.
  destruct (N.ltb_spec t 64) as [H | H]; [|lia]. destruct (N.testbit x t); reflexivity.
Qed.

Lemma vacancy_test : forall b t, t < 64 -> test (vacancy b) t = negb (test (occupancy b) t).
Proof. intros. unfold vacancy. apply lnot64_test. assumption. Qed.

Lemma shift_test : forall x df dr t, x < 2 ^ 64 ->
  (test (shift x df dr) t = true <-> exists s0, test x s0 = true /\ offset s0 df dr = Some t).
Proof.
  intros x df dr t Hx. split.
  - intros H. pose proof (test_lt64 _ _ (shift_lt x df dr Hx) H) as Ht.
    apply (shift_spec_any x df dr t Hx Ht) in H. destruct H as [s0 [_ [H1 H2]]]. eauto.
  - intros [s0 [H1 H2]]. pose proof (test_lt64 _ _ Hx H1) as Hs0.
    pose proof (offset_lt _ _ _ _ Hs0 H2) as Ht.
    apply (shift_spec_any x df dr t Hx Ht). eauto.
Qed.

Lemma offset_inv : forall s df dr t, s < 64 -> offset s df dr = Some t ->
  offset t (- df) (- dr) = Some s.
Proof.
  intros s df dr t Hs H. pose proof (offset_lt _ _ _ _ Hs H) as Ht.
  apply offset_spec in H; [|exact Hs]. apply offset_spec; [exact Ht|]. lia.
Qed.

(* first_one *)
Lemma ctz_pos_spec : forall p, Pos.testbit p (ctz_pos p) = true.
Proof.
  induction p as [q IH | q IH |]; cbn [ctz_pos]; try reflexivity.
  destruct (ctz_pos q) as [|j] eqn:E; cbn [N.succ Pos.testbit Pos.pred_N]; [exact IH|].
  rewrite Pos.pred_N_succ. exact IH.
Qed.

Lemma first_one_some : forall b k, first_one b = Some k -> test b k = true.
Proof.
  intros [|p] k H; cbn [first_one] in H; [discriminate H|].
  injection H as <-. unfold test. cbn [N.testbit]. apply ctz_pos_spec.
Qed.

Lemma first_one_none : forall b k, first_one b = None -> test b k = false.
Proof.
  intros [|p] k H; cbn [first_one] in H; [|discriminate H]. unfold test. apply N.bits_0.
Qed.

(* iter_ones is duplicate-free *)
Lemma ones_pos_NoDup : forall p i, NoDup (ones_pos p i).
Proof.
  induction p as [q IH | q IH |]; intros i; cbn [ones_pos].
  - constructor; [|apply IH]. intros Hin. apply ones_pos_spec in Hin. destruct Hin as [j [Hj _]]. lia.
  - apply IH.
  - constructor; [intros []|constructor].
Qed.

Lemma iter_ones_NoDup : forall b, NoDup (iter_ones b).
Proof. intros [|p]; cbn [iter_ones]; [constructor | apply ones_pos_NoDup]. Qed.

Lemma in_map_ones : forall (g : N -> N) x m,
  In m (map g (iter_ones x)) <-> exists t, test x t = true /\ m = g t.
Proof.
  intros g x m. rewrite in_map_iff. split.
  - intros [t [E Hin]]. apply iter_ones_spec in Hin. eauto.
  - intros [t [Ht E]]. exists t. split; [auto|]. apply iter_ones_spec. exact Ht.
Qed.

Lemma in_flat_map_ones : forall (g : N -> N -> N) l x m,
  In m (flat_map (fun t => map (g t) l) (iter_ones x)) <->
  exists t pr, test x t = true /\ In pr l /\ m = g t pr.
Proof.
  intros g l x m. rewrite in_flat_map. split.
  - intros [t [Hin Hm]]. apply iter_ones_spec in Hin. apply in_map_iff in Hm.
    destruct Hm as [pr [E Hpr]]. eauto 6.
  - intros [t [pr [Ht [Hpr E]]]]. exists t. split; [apply iter_ones_spec; exact Ht|].
    apply in_map_iff. eauto.
Qed.

(* ------------------------------------------------------------------------- *)
(* well-formedness consequences                                               *)

Lemma wf_state_board : forall s, WfState s -> WfBoard (st_board s).
Proof.
  intros s H. unfold WfState, wf_stateb in H. rewrite !andb_true_iff in H.
  destruct H as [[[H _] _] _]. exact H.
Qed.

Lemma wf_state_ep : forall s t, WfState s -> st_ep s = Some t -> t < 64.
Proof.
  intros s t H E. unfold WfState, wf_stateb in H. rewrite !andb_true_iff in H.
  destruct H as [[[_ H] _] _]. rewrite E in H. apply N.ltb_lt. exact H.
Qed.

Lemma pawn_piece_at : forall b c f, WfBoard b ->
  (test (pocc b c Pawn) f = true <-> piece_at b f = Some (c, Pawn)).
Proof.
  intros b c f Hwf. rewrite (piece_at_spec b f c Pawn Hwf). split.
  - intros H. split; [discriminate | exact H].
  - intros [_ H]. exact H.
Qed.

Lemma occ_of_colored : forall b c t, test (colored_occ b c) t = true -> test (occupancy b) t = true.
Proof.
  intros b c t H. apply colored_occ_test in H. destruct H as [k H]. apply occupancy_test. eauto.
Qed.

Lemma own_of_opp : forall b c t, WfBoard b ->
  test (colored_occ b (opp c)) t = true -> test (colored_occ b c) t = false.
Proof.
  intros b c t Hwf H. destruct (test (colored_occ b c) t) eqn:E; [|reflexivity].
  apply colored_occ_test in H. apply colored_occ_test in E.
  destruct H as [k H]. destruct E as [k' E].
  pose proof (wf_disjoint b Hwf _ _ _ _ _ H E) as Q. destruct c; discriminate Q.
Qed.

Lemma kind_on_opp : forall b c t, test (colored_occ b c) t = true ->
  kind_on b t = Some (cap_kind b t) /\ cap_kind b t <> PNone.
Proof.
  intros b c t H. unfold kind_on, cap_kind.
  destruct (piece_at b t) as [[c' k]|] eqn:E.
  - split; [reflexivity|]. apply piece_at_some_imp in E. apply E.
  - apply piece_at_none_occ in E. apply occ_of_colored in H. congruence.
Qed.

Lemma kind_on_empty : forall b t, test (occupancy b) t = false -> kind_on b t = None.
Proof. intros b t H. apply piece_at_none_occ in H. unfold kind_on. rewrite H. reflexivity. Qed.

(* ------------------------------------------------------------------------- *)
(* the generator, branch by branch                                            *)

Definition pw (s : state) : N := pocc (st_board s) (st_turn s) Pawn.
Definition orig1 (c : color) (t : N) : N := unwrap_sq (offset t 0 (backward_dr c)).
Definition orig2 (c : color) (t : N) : N := unwrap_sq (offset (orig1 c t) 0 (backward_dr c)).
Definition origc (c : color) (inv : Z) (t : N) : N := unwrap_sq (offset t inv (backward_dr c)).
Definition promo_piece (pr : N) : piece := match piece_of_N pr with Some q => q | None => PNone end.

Definition step (s : state) (x : N) : N :=
  N.land (shift x 0 (forward_dr (st_turn s))) (vacancy (st_board s)).
Definition att (s : state) (fo : Z) : N := shift (shift (pw s) 0 (forward_dr (st_turn s))) fo 0.
Definition ep_bb (s : state) : N := match st_ep s with Some t => just t | None => 0 end.

Definition l_pushes (s : state) : list N :=
  let c := st_turn s in
  map (fun t => by_moving c Pawn (orig1 c t) t)
      (iter_ones (N.land (step s (pw s)) (lnot64 (own_backrank_mask c)))).
Definition l_promos (s : state) : list N :=
  let c := st_turn s in
  flat_map (fun t => map (fun pr => by_promoting c Pawn (orig1 c t) t (promo_piece pr)) promotion_types)
           (iter_ones (N.land (step s (pw s)) (own_backrank_mask c))).
Definition l_doubles (s : state) : list N :=
  let c := st_turn s in
  map (fun t => by_moving c Pawn (orig2 c t) t)
      (iter_ones (step s (step s (N.land (pw s) (own_pawn_home_mask c))))).
Definition l_cap_np (s : state) (fo inv : Z) : list N :=
  let c := st_turn s in let b := st_board s in
  map (fun t => by_capturing c Pawn (origc c inv t) t (cap_kind b t))
      (iter_ones (N.land (N.land (att s fo) (lnot64 (own_backrank_mask c))) (colored_occ b (opp c)))).
Definition l_cap_p (s : state) (fo inv : Z) : list N :=
  let c := st_turn s in let b := st_board s in
  flat_map (fun t => map (fun pr => by_capture_promoting c Pawn (origc c inv t) t (cap_kind b t) (promo_piece pr))
                         promotion_types)
           (iter_ones (N.land (N.land (att s fo) (own_backrank_mask c)) (colored_occ b (opp c)))).
Definition l_ep (s : state) (fo inv : Z) : list N :=
  match first_one (N.land (att s fo) (ep_bb s)) with
  | Some t => [by_en_passant (st_turn s) Pawn (origc (st_turn s) inv t) t]
  | None => []
  end.
Definition l_caps (s : state) (fo inv : Z) : list N :=
  l_cap_np s fo inv ++ l_cap_p s fo inv ++ l_ep s fo inv.

Lemma pawn_moves_eq : forall s,
  pawn_moves s = l_pushes s ++ l_promos s ++ l_doubles s ++ l_caps s 1 (-1) ++ l_caps s (-1) 1.
Proof. reflexivity. Qed.

(* --- target sets --- *)

Lemma pw_lt : forall s, WfState s -> pw s < 2 ^ 64.
Proof. intros s H. apply wf_slots. apply wf_state_board. exact H. Qed.

Lemma step_lt : forall s x, x < 2 ^ 64 -> step s x < 2 ^ 64.
Proof. intros s x Hx. unfold step. apply land_lt. apply shift_lt. exact Hx. Qed.

Lemma step_test : forall s x t, x < 2 ^ 64 ->
  (test (step s x) t = true <->
   exists f, test x f = true /\ offset f 0 (fwd (st_turn s)) = Some t /\
             test (occupancy (st_board s)) t = false).
Proof.
  intros s x t Hx. unfold step. rewrite test_land, andb_true_iff, fwd_eq, (shift_test _ _ _ _ Hx). split.
  - intros [[f [Hf Ho]] Hv]. exists f. split; [exact Hf|]. split; [exact Ho|].
    pose proof (offset_lt _ _ _ _ (test_lt64 _ _ Hx Hf) Ho) as Ht.
    rewrite (vacancy_test _ _ Ht) in Hv. apply negb_true_iff in Hv. exact Hv.
  - intros [f [Hf [Ho Hv]]]. split; [eauto|].
    pose proof (offset_lt _ _ _ _ (test_lt64 _ _ Hx Hf) Ho) as Ht.
    rewrite (vacancy_test _ _ Ht), Hv. reflexivity.
Qed.

Lemma att_lt : forall s fo, WfState s -> att s fo < 2 ^ 64.
Proof. intros s fo H. unfold att. apply shift_lt, shift_lt, pw_lt, H. Qed.

Lemma att_test : forall s fo t, WfState s ->
  (test (att s fo) t = true <-> exists f, test (pw s) f = true /\ offset f fo (fwd (st_turn s)) = Some t).
Proof.
  intros s fo t Hwf. unfold att. pose proof (pw_lt s Hwf) as Hp.
  rewrite (shift_test _ _ _ _ (shift_lt _ _ _ Hp)), fwd_eq. split.
  - intros [s1 [H1 H2]]. apply (shift_test _ _ _ _ Hp) in H1. destruct H1 as [f [Hf H1]].
    exists f. split; [exact Hf|]. apply (offset_join f fo _ s1 t (test_lt64 _ _ Hp Hf) H1 H2).
  - intros [f [Hf Ho]]. destruct (offset_split f fo _ t (test_lt64 _ _ Hp Hf) Ho) as [s1 [H1 H2]].
    exists s1. split; [|exact H2]. apply (shift_test _ _ _ _ Hp). eauto.
Qed.

(* --- origins --- *)

Lemma orig1_eq : forall c f t, f < 64 -> offset f 0 (fwd c) = Some t -> orig1 c t = f.
Proof.
  intros c f t Hf H. unfold orig1. rewrite bwd_eq. apply offset_inv in H; [|exact Hf].
  change (- 0)%Z with 0%Z in H. rewrite H. reflexivity.
Qed.

Lemma origc_eq : forall c fo f t, f < 64 -> offset f fo (fwd c) = Some t -> origc c (- fo) t = f.
Proof.
  intros c fo f t Hf H. unfold origc. rewrite bwd_eq. apply offset_inv in H; [|exact Hf].
  rewrite H. reflexivity.
Qed.

(* --- promotion kinds --- *)

Lemma promo_types_spec : forall k,
  is_promo_kind k = true <-> exists pr, In pr promotion_types /\ promo_piece pr = k.
Proof.
  intros k. split.
  - intros H. exists (piece_to_N k). destruct k; try discriminate H; (split; [|reflexivity]);
      unfold promotion_types; cbn [In piece_to_N]; auto.
  - intros [pr [Hin <-]]. unfold promotion_types in Hin. cbn [In] in Hin.
    destruct Hin as [<- | [<- | [<- | [<- | []]]]]; reflexivity.
Qed.

(* --- the branches --- *)

Definition pawn_on (s : state) (f : N) : Prop := test (pw s) f = true.
Definition vacant (s : state) (t : N) : Prop := test (occupancy (st_board s)) t = false.
Definition enemy (s : state) (t : N) : Prop := test (colored_occ (st_board s) (opp (st_turn s))) t = true.

Lemma pawn_on_lt : forall s f, WfState s -> pawn_on s f -> f < 64.
Proof. intros s f Hwf H. exact (test_lt64 _ _ (pw_lt s Hwf) H). Qed.

Lemma in_pushes : forall s m, WfState s ->
  (In m (l_pushes s) <->
   exists f t, pawn_on s f /\ offset f 0 (fwd (st_turn s)) = Some t /\ vacant s t /\
               rank_of t <> lastN (st_turn s) /\ m = build (st_turn s) Pawn f t None None).
Proof.
  intros s m Hwf. unfold l_pushes. cbv zeta. rewrite in_map_ones. split.
  - intros [t [Ht ->]]. rewrite test_land, andb_true_iff in Ht. destruct Ht as [H1 H2].
    apply (step_test s _ t (pw_lt s Hwf)) in H1. destruct H1 as [f [Hf [Ho Hv]]].
    pose proof (pawn_on_lt s f Hwf Hf) as Hf64. pose proof (offset_lt _ _ _ _ Hf64 Ho) as Ht64.
    rewrite (lnot64_test _ _ Ht64), (backrank_test _ _ Ht64), negb_true_iff, N.eqb_neq in H2.
    exists f, t. rewrite (orig1_eq _ f t Hf64 Ho), build_by_moving. auto.
  - intros [f [t [Hf [Ho [Hv [Hr ->]]]]]].
    pose proof (pawn_on_lt s f Hwf Hf) as Hf64. pose proof (offset_lt _ _ _ _ Hf64 Ho) as Ht64.
    exists t. rewrite (orig1_eq _ f t Hf64 Ho), build_by_moving. split; [|reflexivity].
    rewrite test_land, andb_true_iff. split.
    + apply (step_test s _ t (pw_lt s Hwf)). exists f. auto.
    + rewrite (lnot64_test _ _ Ht64), (backrank_test _ _ Ht64), negb_true_iff, N.eqb_neq. exact Hr.
Qed.

Lemma in_promos : forall s m, WfState s ->
  (In m (l_promos s) <->
   exists f t k, pawn_on s f /\ offset f 0 (fwd (st_turn s)) = Some t /\ vacant s t /\
                 rank_of t = lastN (st_turn s) /\ is_promo_kind k = true /\
                 m = build (st_turn s) Pawn f t None (Some k)).
Proof.
  intros s m Hwf. unfold l_promos. cbv zeta.
  rewrite (in_flat_map_ones (fun t pr => by_promoting (st_turn s) Pawn (orig1 (st_turn s) t) t (promo_piece pr))).
  split.
  - intros [t [pr [Ht [Hpr ->]]]]. rewrite test_land, andb_true_iff in Ht. destruct Ht as [H1 H2].
    apply (step_test s _ t (pw_lt s Hwf)) in H1. destruct H1 as [f [Hf [Ho Hv]]].
    pose proof (pawn_on_lt s f Hwf Hf) as Hf64. pose proof (offset_lt _ _ _ _ Hf64 Ho) as Ht64.
    rewrite (backrank_test _ _ Ht64), N.eqb_eq in H2.
    exists f, t, (promo_piece pr). rewrite (orig1_eq _ f t Hf64 Ho), build_by_promoting.
    repeat (split; [assumption|]). split; [|reflexivity]. apply promo_types_spec. eauto.
  - intros [f [t [k [Hf [Ho [Hv [Hr [Hk ->]]]]]]]].
    pose proof (pawn_on_lt s f Hwf Hf) as Hf64. pose proof (offset_lt _ _ _ _ Hf64 Ho) as Ht64.
    apply promo_types_spec in Hk. destruct Hk as [pr [Hpr <-]].
    exists t, pr. rewrite (orig1_eq _ f t Hf64 Ho), build_by_promoting.
    split; [|split; [exact Hpr | reflexivity]].
    rewrite test_land, andb_true_iff. split.
    + apply (step_test s _ t (pw_lt s Hwf)). exists f. auto.
    + rewrite (backrank_test _ _ Ht64), N.eqb_eq. exact Hr.
Qed.

Lemma in_doubles : forall s m, WfState s ->
  (In m (l_doubles s) <->
   exists f mid t, pawn_on s f /\ rank_of f = homeN (st_turn s) /\
                   offset f 0 (fwd (st_turn s)) = Some mid /\ vacant s mid /\
                   offset mid 0 (fwd (st_turn s)) = Some t /\ vacant s t /\
                   m = build (st_turn s) Pawn f t None None).
Proof.
  intros s m Hwf. unfold l_doubles. cbv zeta. rewrite in_map_ones.
  pose proof (pw_lt s Hwf) as Hp.
  assert (Hh : N.land (pw s) (own_pawn_home_mask (st_turn s)) < 2 ^ 64) by (apply land_lt; exact Hp).
  assert (Horig : forall f mid t, f < 64 -> offset f 0 (fwd (st_turn s)) = Some mid ->
            offset mid 0 (fwd (st_turn s)) = Some t -> orig2 (st_turn s) t = f).
  { intros f mid t Hf H1 H2. unfold orig2.
    rewrite (orig1_eq _ mid t (offset_lt _ _ _ _ Hf H1) H2). exact (orig1_eq _ f mid Hf H1). }
  split.
  - intros [t [Ht ->]].
    apply (step_test s _ t (step_lt s _ Hh)) in Ht. destruct Ht as [mid [Hm [Ho2 Hv2]]].
    apply (step_test s _ mid Hh) in Hm. destruct Hm as [f [Hf [Ho1 Hv1]]].
    rewrite test_land, andb_true_iff in Hf. destruct Hf as [Hf Hr].
    pose proof (pawn_on_lt s f Hwf Hf) as Hf64.
    rewrite (home_test _ _ Hf64), N.eqb_eq in Hr.
    exists f, mid, t. rewrite (Horig f mid t Hf64 Ho1 Ho2), build_by_moving. auto 8.
  - intros [f [mid [t [Hf [Hr [Ho1 [Hv1 [Ho2 [Hv2 ->]]]]]]]]].
    pose proof (pawn_on_lt s f Hwf Hf) as Hf64.
    exists t. rewrite (Horig f mid t Hf64 Ho1 Ho2), build_by_moving. split; [|reflexivity].
    apply (step_test s _ t (step_lt s _ Hh)). exists mid. split; [|auto].
    apply (step_test s _ mid Hh). exists f. split; [|auto].
    rewrite test_land, andb_true_iff, (home_test _ _ Hf64), N.eqb_eq. auto.
Qed.

Lemma in_cap_np : forall s fo m, WfState s ->
  (In m (l_cap_np s fo (- fo)) <->
   exists f t, pawn_on s f /\ offset f fo (fwd (st_turn s)) = Some t /\ enemy s t /\
               rank_of t <> lastN (st_turn s) /\
               m = build (st_turn s) Pawn f t (Some (cap_kind (st_board s) t)) None).
Proof.
  intros s fo m Hwf. unfold l_cap_np. cbv zeta. rewrite in_map_ones. split.
  - intros [t [Ht ->]]. rewrite !test_land, !andb_true_iff in Ht. destruct Ht as [[H1 H2] H3].
    apply (att_test s fo t Hwf) in H1. destruct H1 as [f [Hf Ho]].
    pose proof (pawn_on_lt s f Hwf Hf) as Hf64. pose proof (offset_lt _ _ _ _ Hf64 Ho) as Ht64.
    rewrite (lnot64_test _ _ Ht64), (backrank_test _ _ Ht64), negb_true_iff, N.eqb_neq in H2.
    exists f, t. rewrite (origc_eq _ fo f t Hf64 Ho), build_by_capturing. auto.
  - intros [f [t [Hf [Ho [He [Hr ->]]]]]].
    pose proof (pawn_on_lt s f Hwf Hf) as Hf64. pose proof (offset_lt _ _ _ _ Hf64 Ho) as Ht64.
    exists t. rewrite (origc_eq _ fo f t Hf64 Ho), build_by_capturing. split; [|reflexivity].
    rewrite !test_land, !andb_true_iff. split; [split|exact He].
    + apply (att_test s fo t Hwf). exists f. auto.
    + rewrite (lnot64_test _ _ Ht64), (backrank_test _ _ Ht64), negb_true_iff, N.eqb_neq. exact Hr.
Qed.

Lemma in_cap_p : forall s fo m, WfState s ->
  (In m (l_cap_p s fo (- fo)) <->
   exists f t k, pawn_on s f /\ offset f fo (fwd (st_turn s)) = Some t /\ enemy s t /\
                 rank_of t = lastN (st_turn s) /\ is_promo_kind k = true /\
                 m = build (st_turn s) Pawn f t (Some (cap_kind (st_board s) t)) (Some k)).
Proof.
  intros s fo m Hwf. unfold l_cap_p. cbv zeta.
  rewrite (in_flat_map_ones (fun t pr => by_capture_promoting (st_turn s) Pawn (origc (st_turn s) (- fo) t) t
                                           (cap_kind (st_board s) t) (promo_piece pr))).
  split.
  - intros [t [pr [Ht [Hpr ->]]]]. rewrite !test_land, !andb_true_iff in Ht. destruct Ht as [[H1 H2] H3].
    apply (att_test s fo t Hwf) in H1. destruct H1 as [f [Hf Ho]].
    pose proof (pawn_on_lt s f Hwf Hf) as Hf64. pose proof (offset_lt _ _ _ _ Hf64 Ho) as Ht64.
    rewrite (backrank_test _ _ Ht64), N.eqb_eq in H2.
    exists f, t, (promo_piece pr). rewrite (origc_eq _ fo f t Hf64 Ho), build_by_capture_promoting.
    repeat (split; [assumption|]). split; [|reflexivity]. apply promo_types_spec. eauto.
  - intros [f [t [k [Hf [Ho [He [Hr [Hk ->]]]]]]]].
    pose proof (pawn_on_lt s f Hwf Hf) as Hf64. pose proof (offset_lt _ _ _ _ Hf64 Ho) as Ht64.
    apply promo_types_spec in Hk. destruct Hk as [pr [Hpr <-]].
    exists t, pr. rewrite (origc_eq _ fo f t Hf64 Ho), build_by_capture_promoting.
    split; [|split; [exact Hpr | reflexivity]].
    rewrite !test_land, !andb_true_iff. split; [split|exact He].
    + apply (att_test s fo t Hwf). exists f. auto.
    + rewrite (backrank_test _ _ Ht64), N.eqb_eq. exact Hr.
Qed.

Lemma ep_bb_test : forall s t, test (ep_bb s) t = true <-> st_ep s = Some t.
Proof.
  intros s t. unfold ep_bb. destruct (st_ep s) as [e|].
  - unfold test. rewrite just_spec, N.eqb_eq. split; [intros ->; reflexivity | intros H; injection H; auto].
  - split; [intros H; exfalso; exact (test_0 _ H) | discriminate].
Qed.

Lemma in_ep : forall s fo m, WfState s ->
  (In m (l_ep s fo (- fo)) <->
   exists f t, pawn_on s f /\ offset f fo (fwd (st_turn s)) = Some t /\ st_ep s = Some t /\
               m = by_en_passant (st_turn s) Pawn f t).
Proof.
  intros s fo m Hwf. unfold l_ep. split.
  - destruct (first_one (N.land (att s fo) (ep_bb s))) as [t|] eqn:E; [|intros []].
    intros [<- | []]. apply first_one_some in E. rewrite test_land, andb_true_iff in E.
    destruct E as [H1 H2]. apply ep_bb_test in H2.
    apply (att_test s fo t Hwf) in H1. destruct H1 as [f [Hf Ho]].
    exists f, t. rewrite (origc_eq _ fo f t (pawn_on_lt s f Hwf Hf) Ho). auto.
  - intros [f [t [Hf [Ho [He ->]]]]].
    assert (Ht : test (N.land (att s fo) (ep_bb s)) t = true).
    { rewrite test_land, andb_true_iff. split; [|apply ep_bb_test; exact He].
      apply (att_test s fo t Hwf). exists f. auto. }
    destruct (first_one (N.land (att s fo) (ep_bb s))) as [t'|] eqn:E.
    + apply first_one_some in E. rewrite test_land, andb_true_iff in E. destruct E as [_ E].
      apply ep_bb_test in E. rewrite He in E. injection E as <-.
      rewrite (origc_eq _ fo f t (pawn_on_lt s f Hwf Hf) Ho). left. reflexivity.
    + rewrite (first_one_none _ t E) in Ht. discriminate Ht.
Qed.

(* ------------------------------------------------------------------------- *)
(* the rules side                                                             *)

Definition promo_clause (c : color) (t : N) (pro : option piece) : Prop :=
  if rank_of t =? lastN c then exists k, pro = Some k /\ is_promo_kind k = true else pro = None.

(* Rules.pseudo_legal for a pawn of the side to move, in terms of Square::offset and bitboards *)
Definition pawn_rule (s : state) (f t : N) (pro : option piece) : Prop :=
  let c := st_turn s in
  ( (offset f 0 (fwd c) = Some t /\ vacant s t)
    \/ (rank_of f = homeN c /\ exists mid, offset f 0 (fwd c) = Some mid /\ vacant s mid /\
                                         offset mid 0 (fwd c) = Some t /\ vacant s t)
    \/ (exists fo, (fo = 1 \/ fo = -1)%Z /\ offset f fo (fwd c) = Some t /\ enemy s t)
    \/ (exists fo, (fo = 1 \/ fo = -1)%Z /\ offset f fo (fwd c) = Some t /\ vacant s t /\ st_ep s = Some t) )
  /\ promo_clause c t pro.

Lemma pl_pawn_prop : forall p f t pro, p_at p f = Some (p_turn p, Pawn) ->
  (Rules.pseudo_legal p (mkMove f t pro) = true <->
   colour_at p t (p_turn p) = false /\ f <> t /\
   ( ((sfile t - sfile f = 0)%Z /\ (srank t - srank f = fwd (p_turn p))%Z /\ empty_at p t = true)
     \/ ((sfile t - sfile f = 0)%Z /\ (srank t - srank f = 2 * fwd (p_turn p))%Z /\
         srank f = home_rank (p_turn p) /\
         empty_at p (sq_of (sfile f) (srank f + fwd (p_turn p))) = true /\ empty_at p t = true)
     \/ ((Z.abs (sfile t - sfile f) = 1)%Z /\ (srank t - srank f = fwd (p_turn p))%Z /\
         colour_at p t (opp (p_turn p)) = true)
     \/ ((Z.abs (sfile t - sfile f) = 1)%Z /\ (srank t - srank f = fwd (p_turn p))%Z /\
         empty_at p t = true /\ p_ep p = Some t) ) /\
   (if (srank t =? last_rank (p_turn p))%Z then exists k, pro = Some k /\ is_promo_kind k = true
    else pro = None)).
Proof.
  intros p f t pro Hpa. unfold Rules.pseudo_legal. cbv zeta. cbn [mv_from mv_to mv_promo].
  rewrite Hpa, color_eqb_refl, andb_true_l.
  assert (Hep : match p_ep p with Some e => e =? t | None => false end = true <-> p_ep p = Some t).
  { destruct (p_ep p) as [e|]; [rewrite N.eqb_eq|]; split; intros H; try discriminate H;
      [subst; reflexivity | injection H; auto]. }
  assert (Hpr : (if (srank t =? last_rank (p_turn p))%Z
                 then match pro with Some k' => is_promo_kind k' | None => false end
                 else match pro with Some _ => false | None => true end) = true <->
                (if (srank t =? last_rank (p_turn p))%Z then exists k, pro = Some k /\ is_promo_kind k = true
                 else pro = None)).
  { destruct (srank t =? last_rank (p_turn p))%Z; destruct pro as [k|]; split; intros H;
      try discriminate H; try reflexivity; eauto.
    - destruct H as [k' [E H]]. injection E as ->. exact H.
    - destruct H as [k' [E _]]. discriminate E. }
  rewrite !andb_true_iff, !orb_true_iff, !andb_true_iff, !negb_true_iff, !Z.eqb_eq, N.eqb_neq, Hep, Hpr.
  tauto.
Qed.

Lemma vacant_iff : forall s t, empty_at (abs s) t = true <-> vacant s t.
Proof. intros s t. rewrite abs_empty_at. apply empty_at_occ. Qed.

Lemma enemy_iff : forall s t, WfState s -> (colour_at (abs s) t (opp (st_turn s)) = true <-> enemy s t).
Proof.
  intros s t Hwf. rewrite abs_colour_at, (colour_at_occ _ _ _ (wf_state_board s Hwf)). reflexivity.
Qed.

Lemma own_eq : forall s t, WfState s ->
  colour_at (abs s) t (st_turn s) = test (colored_occ (st_board s) (st_turn s)) t.
Proof. intros s t Hwf. rewrite abs_colour_at. apply colour_at_occ. apply wf_state_board, Hwf. Qed.

Lemma own_of_vacant : forall s t, WfState s -> vacant s t -> colour_at (abs s) t (st_turn s) = false.
Proof.
  intros s t Hwf Hv. rewrite (own_eq s t Hwf).
  destruct (test (colored_occ (st_board s) (st_turn s)) t) eqn:E; [|reflexivity].
  apply occ_of_colored in E. unfold vacant in Hv. congruence.
Qed.

Lemma own_of_enemy : forall s t, WfState s -> enemy s t -> colour_at (abs s) t (st_turn s) = false.
Proof.
  intros s t Hwf He. rewrite (own_eq s t Hwf). apply own_of_opp; [apply wf_state_board, Hwf | exact He].
Qed.

Lemma mid_offset : forall f d, f < 64 -> (0 <= srank f + d <= 7)%Z ->
  offset f 0 d = Some (sq_of (sfile f) (srank f + d)).
Proof. intros f d Hf Hd. apply offset_spec; [exact Hf|]. unfold sq_of, sfile, srank in *. lia. Qed.

Lemma promo_clause_iff : forall c t pro,
  (if (srank t =? last_rank c)%Z then exists k, pro = Some k /\ is_promo_kind k = true else pro = None)
  <-> promo_clause c t pro.
Proof.
  intros c t pro. unfold promo_clause.
  assert (E : (srank t =? last_rank c)%Z = (rank_of t =? lastN c)).
  { apply eq_iff_eq_true. rewrite Z.eqb_eq, N.eqb_eq. unfold srank, rank_of. destruct c; cbn [last_rank lastN]; lia. }
  rewrite E. reflexivity.
Qed.

Lemma srank_home : forall c f, srank f = home_rank c <-> rank_of f = homeN c.
Proof. intros c f. unfold srank, rank_of. destruct c; cbn [home_rank homeN]; lia. Qed.

(* under pawns_ok a pseudo-legal pawn move never leaves the board *)
Lemma pawn_pl_dest_lt : forall s f t pro, WfState s -> pawns_ok s -> pawn_on s f ->
  Rules.pseudo_legal (abs s) (mkMove f t pro) = true -> t < 64.
Proof.
  intros s f t pro Hwf Hpk Hf H.
  pose proof (pawn_on_lt s f Hwf Hf) as Hf64.
  assert (Hpa : p_at (abs s) f = Some (p_turn (abs s), Pawn)).
  { rewrite abs_p_at. apply pawn_piece_at; [apply wf_state_board, Hwf | exact Hf]. }
  apply (pl_pawn_prop _ f t pro Hpa) in H. destruct H as [_ [_ [H _]]].
  destruct (Hpk _ _ Hf) as [R0 R7]. unfold rank_of in R0, R7.
  cbn [abs p_turn] in H. pose proof (fwd_cases (st_turn s)) as Hfw.
  assert (Hr : (0 <= srank t <= 7)%Z).
  { unfold srank in *. destruct H as [H | [H | [H | H]]].
    - lia.
    - destruct H as [_ [H1 [H2 _]]]. destruct (st_turn s); cbn [home_rank fwd] in *; lia.
    - lia.
    - lia. }
  unfold srank in Hr. lia.
Qed.

Lemma pawn_rule_iff : forall s f t pro, WfState s -> pawn_on s f -> t < 64 ->
  (Rules.pseudo_legal (abs s) (mkMove f t pro) = true <-> pawn_rule s f t pro).
Proof.
  intros s f t pro Hwf Hf Ht.
  pose proof (pawn_on_lt s f Hwf Hf) as Hf64.
  assert (Hpa : p_at (abs s) f = Some (p_turn (abs s), Pawn)).
  { rewrite abs_p_at. apply pawn_piece_at; [apply wf_state_board, Hwf | exact Hf]. }
  rewrite (pl_pawn_prop _ f t pro Hpa). cbn [abs p_turn p_ep]. fold (abs s).
  rewrite promo_clause_iff. unfold pawn_rule. cbv zeta.
  pose proof (fwd_cases (st_turn s)) as Hfw.
  split.
  - intros [_ [_ [H Hp]]]. split; [|exact Hp].
    destruct H as [H | [H | [H | H]]].
    + left. destruct H as [H1 [H2 H3]]. split; [|apply vacant_iff; exact H3].
      apply (offset_delta f t _ _ Hf64 Ht). auto.
    + right; left. destruct H as [H1 [H2 [H3 [H4 H5]]]].
      split; [apply srank_home; exact H3|].
      assert (Hm : offset f 0 (fwd (st_turn s)) = Some (sq_of (sfile f) (srank f + fwd (st_turn s)))).
      { apply mid_offset; [exact Hf64|]. destruct (st_turn s); cbn [home_rank fwd] in *; lia. }
      pose proof (offset_lt _ _ _ _ Hf64 Hm) as Hm64.
      exists (sq_of (sfile f) (srank f + fwd (st_turn s))).
      split; [exact Hm|]. split; [apply vacant_iff; exact H4|]. split; [|apply vacant_iff; exact H5].
      apply (offset_delta f _ _ _ Hf64 Hm64) in Hm. apply (offset_delta _ t _ _ Hm64 Ht). lia.
    + right; right; left. destruct H as [H1 [H2 H3]].
      exists (sfile t - sfile f)%Z. split; [lia|]. split; [|apply enemy_iff; assumption].
      apply (offset_delta f t _ _ Hf64 Ht). auto.
    + right; right; right. destruct H as [H1 [H2 [H3 H4]]].
      exists (sfile t - sfile f)%Z. split; [lia|]. split; [apply (offset_delta f t _ _ Hf64 Ht); auto|].
      split; [apply vacant_iff; exact H3 | exact H4].
  - intros [H Hp].
    assert (Hne : forall dx, offset f dx (fwd (st_turn s)) = Some t -> f <> t).
    { intros dx Ho E. subst t. apply (offset_delta f f _ _ Hf64 Hf64) in Ho. lia. }
    destruct H as [H | [H | [H | H]]].
    + destruct H as [Ho Hv]. split; [apply own_of_vacant; assumption|]. split; [exact (Hne _ Ho)|].
      split; [|exact Hp]. left. apply (offset_delta f t _ _ Hf64 Ht) in Ho.
      destruct Ho as [H1 H2]. split; [exact H1|]. split; [exact H2|]. apply vacant_iff; exact Hv.
    + destruct H as [Hr [mid [Ho1 [Hv1 [Ho2 Hv2]]]]].
      pose proof (offset_lt _ _ _ _ Hf64 Ho1) as Hm64.
      split; [apply own_of_vacant; assumption|].
      pose proof Ho1 as D1. apply (offset_delta f mid _ _ Hf64 Hm64) in D1.
      pose proof Ho2 as D2. apply (offset_delta mid t _ _ Hm64 Ht) in D2.
      split; [intros E; subst t; lia|].
      split; [|exact Hp]. right; left.
      split; [lia|]. split; [lia|]. split; [apply srank_home; exact Hr|].
      split; [|apply vacant_iff; exact Hv2].
      apply offset_sq_of in Ho1; [|exact Hf64]. destruct Ho1 as [E _]. rewrite Z.add_0_r in E.
      rewrite <- E. apply vacant_iff; exact Hv1.
    + destruct H as [fo [Hfo [Ho He]]]. split; [apply own_of_enemy; assumption|]. split; [exact (Hne _ Ho)|].
      split; [|exact Hp]. right; right; left. apply (offset_delta f t _ _ Hf64 Ht) in Ho.
      split; [lia|]. split; [lia|]. apply enemy_iff; assumption.
    + destruct H as [fo [Hfo [Ho [Hv He]]]]. split; [apply own_of_vacant; assumption|].
      split; [exact (Hne _ Ho)|]. split; [|exact Hp]. right; right; right.
      apply (offset_delta f t _ _ Hf64 Ht) in Ho.
      split; [lia|]. split; [lia|]. split; [apply vacant_iff; exact Hv | exact He].
Qed.

(* ------------------------------------------------------------------------- *)
(* the canonical encoding of pawn moves                                       *)

Lemma pawn_kind_on : forall s f, WfState s -> pawn_on s f -> kind_on (st_board s) f = Some Pawn.
Proof.
  intros s f Hwf Hf. unfold kind_on.
  apply (pawn_piece_at _ _ _ (wf_state_board s Hwf)) in Hf. rewrite Hf. reflexivity.
Qed.

Lemma enc_straight : forall s f t pro, WfState s -> pawn_on s f -> file_of f = file_of t ->
  enc_move s (mkMove f t pro) = build (st_turn s) Pawn f t (kind_on (st_board s) t) pro.
Proof.
  intros s f t pro Hwf Hf E. unfold enc_move. cbn [mv_from mv_to mv_promo].
  rewrite (pawn_kind_on s f Hwf Hf), E, N.eqb_refl. reflexivity.
Qed.

Lemma enc_capture : forall s f t pro, WfState s -> pawn_on s f -> enemy s t ->
  enc_move s (mkMove f t pro) = build (st_turn s) Pawn f t (Some (cap_kind (st_board s) t)) pro.
Proof.
  intros s f t pro Hwf Hf He. unfold enc_move. cbn [mv_from mv_to mv_promo].
  destruct (kind_on_opp _ _ _ He) as [Hk _].
  rewrite (pawn_kind_on s f Hwf Hf), Hk, andb_false_r. reflexivity.
Qed.

Lemma enc_ep : forall s f t pro, WfState s -> pawn_on s f -> file_of f <> file_of t -> vacant s t ->
  enc_move s (mkMove f t pro) = by_en_passant (st_turn s) Pawn f t.
Proof.
  intros s f t pro Hwf Hf Hne Hv. unfold enc_move. cbn [mv_from mv_to mv_promo].
  apply N.eqb_neq in Hne.
  rewrite (pawn_kind_on s f Hwf Hf), (kind_on_empty _ _ Hv), Hne. reflexivity.
Qed.

Lemma offset_same_file : forall f d t, f < 64 -> offset f 0 d = Some t -> file_of f = file_of t.
Proof. intros f d t Hf H. apply offset_geometry in H; [|exact Hf]. lia. Qed.

Lemma offset_diff_file : forall f fo d t, f < 64 -> (fo = 1 \/ fo = -1)%Z ->
  offset f fo d = Some t -> file_of f <> file_of t.
Proof. intros f fo d t Hf Hfo H. apply offset_geometry in H; [|exact Hf]. lia. Qed.

Lemma double_not_last : forall c f mid t, f < 64 -> rank_of f = homeN c ->
  offset f 0 (fwd c) = Some mid -> offset mid 0 (fwd c) = Some t -> rank_of t <> lastN c.
Proof.
  intros c f mid t Hf Hr H1 H2. pose proof (offset_lt _ _ _ _ Hf H1) as Hm.
  apply offset_geometry in H1; [|exact Hf]. apply offset_geometry in H2; [|exact Hm].
  destruct c; cbn [fwd homeN lastN] in *; lia.
Qed.

Lemma promo_clause_none : forall c t, rank_of t <> lastN c -> promo_clause c t None.
Proof. intros c t H. unfold promo_clause. apply N.eqb_neq in H. rewrite H. reflexivity. Qed.

Lemma promo_clause_none_inv : forall c t pro, rank_of t <> lastN c -> promo_clause c t pro -> pro = None.
Proof. intros c t pro H. unfold promo_clause. apply N.eqb_neq in H. rewrite H. auto. Qed.

Lemma promo_clause_some : forall c t k, rank_of t = lastN c -> is_promo_kind k = true ->
  promo_clause c t (Some k).
Proof. intros c t k H Hk. unfold promo_clause. apply N.eqb_eq in H. rewrite H. eauto. Qed.

Lemma promo_clause_some_inv : forall c t pro, rank_of t = lastN c -> promo_clause c t pro ->
  exists k, pro = Some k /\ is_promo_kind k = true.
Proof. intros c t pro H. unfold promo_clause. apply N.eqb_eq in H. rewrite H. auto. Qed.

Lemma ep_not_last : forall s t, ep_ok s -> st_ep s = Some t -> rank_of t <> lastN (st_turn s) /\ vacant s t.
Proof.
  intros s t H E. unfold ep_ok in H. rewrite E in H. cbv zeta in H.
  destruct H as [_ [Hr [Hv _]]]. split; [|exact Hv].
  rewrite Hr. destruct (st_turn s); cbn [is_white lastN]; lia.
Qed.

Lemma in_caps : forall s fo m,
  In m (l_caps s fo (- fo)) <->
  In m (l_cap_np s fo (- fo)) \/ In m (l_cap_p s fo (- fo)) \/ In m (l_ep s fo (- fo)).
Proof. intros. unfold l_caps. rewrite !in_app_iff. reflexivity. Qed.

Lemma in_pawn_moves : forall s m,
  In m (pawn_moves s) <->
  In m (l_pushes s) \/ In m (l_promos s) \/ In m (l_doubles s) \/
  In m (l_caps s 1 (- (1))) \/ In m (l_caps s (-1) (- (-1))).
Proof. intros. rewrite pawn_moves_eq, !in_app_iff. reflexivity. Qed.

(* ------------------------------------------------------------------------- *)
(* generator = rule                                                           *)

Lemma pawn_gen_sound : forall s m, WfState s -> ep_ok s -> In m (pawn_moves s) ->
  exists f t pro, pawn_on s f /\ pawn_rule s f t pro /\ m = enc_move s (mkMove f t pro).
Proof.
  intros s m Hwf Hep H. apply in_pawn_moves in H.
  assert (Hcap : forall fo, (fo = 1 \/ fo = -1)%Z -> In m (l_caps s fo (- fo)) ->
            exists f t pro, pawn_on s f /\ pawn_rule s f t pro /\ m = enc_move s (mkMove f t pro)).
  { intros fo Hfo Hc. apply in_caps in Hc. destruct Hc as [Hc | [Hc | Hc]].
    - apply (in_cap_np s fo m Hwf) in Hc. destruct Hc as [f [t [Hf [Ho [He [Hr ->]]]]]].
      exists f, t, None. split; [exact Hf|]. split.
      + split; [|apply promo_clause_none; exact Hr]. right; right; left. exists fo. auto.
      + symmetry. apply enc_capture; assumption.
    - apply (in_cap_p s fo m Hwf) in Hc. destruct Hc as [f [t [k [Hf [Ho [He [Hr [Hk ->]]]]]]]].
      exists f, t, (Some k). split; [exact Hf|]. split.
      + split; [|apply promo_clause_some; assumption]. right; right; left. exists fo. auto.
      + symmetry. apply enc_capture; assumption.
    - apply (in_ep s fo m Hwf) in Hc. destruct Hc as [f [t [Hf [Ho [He ->]]]]].
      destruct (ep_not_last s t Hep He) as [Hr Hv].
      exists f, t, None. split; [exact Hf|]. split.
      + split; [|apply promo_clause_none; exact Hr]. right; right; right. exists fo. auto.
      + symmetry. apply enc_ep; try assumption.
        exact (offset_diff_file _ _ _ _ (pawn_on_lt s f Hwf Hf) Hfo Ho). }
  destruct H as [H | [H | [H | [H | H]]]].
  - apply (in_pushes s m Hwf) in H. destruct H as [f [t [Hf [Ho [Hv [Hr ->]]]]]].
    exists f, t, None. split; [exact Hf|]. split.
    + split; [|apply promo_clause_none; exact Hr]. left. auto.
    + rewrite (enc_straight s f t None Hwf Hf (offset_same_file _ _ _ (pawn_on_lt s f Hwf Hf) Ho)).
      rewrite (kind_on_empty _ _ Hv). reflexivity.
  - apply (in_promos s m Hwf) in H. destruct H as [f [t [k [Hf [Ho [Hv [Hr [Hk ->]]]]]]]].
    exists f, t, (Some k). split; [exact Hf|]. split.
    + split; [|apply promo_clause_some; assumption]. left. auto.
    + rewrite (enc_straight s f t _ Hwf Hf (offset_same_file _ _ _ (pawn_on_lt s f Hwf Hf) Ho)).
      rewrite (kind_on_empty _ _ Hv). reflexivity.
  - apply (in_doubles s m Hwf) in H.
    destruct H as [f [mid [t [Hf [Hr [Ho1 [Hv1 [Ho2 [Hv2 ->]]]]]]]]].
    pose proof (pawn_on_lt s f Hwf Hf) as Hf64.
    exists f, t, None. split; [exact Hf|]. split.
    + split; [|apply promo_clause_none; exact (double_not_last _ _ _ _ Hf64 Hr Ho1 Ho2)].
      right; left. split; [exact Hr|]. exists mid. auto.
    + assert (Hfile : file_of f = file_of t).
      { rewrite (offset_same_file _ _ _ Hf64 Ho1).
        exact (offset_same_file _ _ _ (offset_lt _ _ _ _ Hf64 Ho1) Ho2). }
      rewrite (enc_straight s f t None Hwf Hf Hfile), (kind_on_empty _ _ Hv2). reflexivity.
  - apply (Hcap 1%Z); [left; reflexivity | exact H].
  - apply (Hcap (-1)%Z); [right; reflexivity | exact H].
Qed.

Lemma pawn_gen_complete : forall s f t pro, WfState s -> ep_ok s -> pawn_on s f -> pawn_rule s f t pro ->
  In (enc_move s (mkMove f t pro)) (pawn_moves s).
Proof.
  intros s f t pro Hwf Hep Hf [H Hp]. apply in_pawn_moves.
  pose proof (pawn_on_lt s f Hwf Hf) as Hf64.
  destruct H as [H | [H | [H | H]]].
  - destruct H as [Ho Hv].
    rewrite (enc_straight s f t pro Hwf Hf (offset_same_file _ _ _ Hf64 Ho)), (kind_on_empty _ _ Hv).
    destruct (N.eq_dec (rank_of t) (lastN (st_turn s))) as [Hr | Hr].
    + right; left. apply (in_promos s _ Hwf).
      destruct (promo_clause_some_inv _ _ _ Hr Hp) as [k [-> Hk]]. exists f, t, k. auto 8.
    + left. apply (in_pushes s _ Hwf). rewrite (promo_clause_none_inv _ _ _ Hr Hp). exists f, t. auto 8.
  - destruct H as [Hr [mid [Ho1 [Hv1 [Ho2 Hv2]]]]].
    assert (Hfile : file_of f = file_of t).
    { rewrite (offset_same_file _ _ _ Hf64 Ho1).
      exact (offset_same_file _ _ _ (offset_lt _ _ _ _ Hf64 Ho1) Ho2). }
    rewrite (enc_straight s f t pro Hwf Hf Hfile), (kind_on_empty _ _ Hv2).
    rewrite (promo_clause_none_inv _ _ _ (double_not_last _ _ _ _ Hf64 Hr Ho1 Ho2) Hp).
    right; right; left. apply (in_doubles s _ Hwf). exists f, mid, t. auto 10.
  - destruct H as [fo [Hfo [Ho He]]]. rewrite (enc_capture s f t pro Hwf Hf He).
    assert (Hin : In (build (st_turn s) Pawn f t (Some (cap_kind (st_board s) t)) pro) (l_caps s fo (- fo))).
    { apply in_caps. destruct (N.eq_dec (rank_of t) (lastN (st_turn s))) as [Hr | Hr].
      - right; left. apply (in_cap_p s fo _ Hwf).
        destruct (promo_clause_some_inv _ _ _ Hr Hp) as [k [-> Hk]]. exists f, t, k. auto 8.
      - left. apply (in_cap_np s fo _ Hwf). rewrite (promo_clause_none_inv _ _ _ Hr Hp).
        exists f, t. auto 8. }
    destruct Hfo as [-> | ->]; [right; right; right; left | right; right; right; right]; exact Hin.
  - destruct H as [fo [Hfo [Ho [Hv He]]]].
    rewrite (enc_ep s f t pro Hwf Hf (offset_diff_file _ _ _ _ Hf64 Hfo Ho) Hv).
    assert (Hin : In (by_en_passant (st_turn s) Pawn f t) (l_caps s fo (- fo))).
    { apply in_caps. right; right. apply (in_ep s fo _ Hwf). exists f, t. auto. }
    destruct Hfo as [-> | ->]; [right; right; right; left | right; right; right; right]; exact Hin.
Qed.

Lemma pawn_rule_dest_lt : forall s f t pro, WfState s -> pawn_on s f -> pawn_rule s f t pro -> t < 64.
Proof.
  intros s f t pro Hwf Hf [H _]. pose proof (pawn_on_lt s f Hwf Hf) as Hf64.
  destruct H as [H | [H | [H | H]]].
  - destruct H as [Ho _]. exact (offset_lt _ _ _ _ Hf64 Ho).
  - destruct H as [_ [mid [Ho1 [_ [Ho2 _]]]]]. exact (offset_lt _ _ _ _ (offset_lt _ _ _ _ Hf64 Ho1) Ho2).
  - destruct H as [fo [_ [Ho _]]]. exact (offset_lt _ _ _ _ Hf64 Ho).
  - destruct H as [fo [_ [Ho _]]]. exact (offset_lt _ _ _ _ Hf64 Ho).
Qed.

Lemma pl_turn : forall p mv c k, Rules.pseudo_legal p mv = true -> p_at p (mv_from mv) = Some (c, k) ->
  c = p_turn p.
Proof.
  intros p mv c k H E. unfold Rules.pseudo_legal in H. cbv zeta in H. rewrite E in H.
  destruct (color_eqb (p_turn p) c) eqn:Ec; [|discriminate H]. apply color_eqb_eq in Ec. auto.
Qed.

(* ------------------------------------------------------------------------- *)
(* main theorem                                                               *)

Theorem pawn_moves_spec : forall s m, WfState s -> pawns_ok s -> ep_ok s ->
  (In m (pawn_moves s) <->
   exists mv, kind_on (st_board s) (mv_from mv) = Some Pawn /\ mv_from mv < 64 /\ mv_to mv < 64 /\
              Rules.pseudo_legal (abs s) mv = true /\ m = enc_move s mv).
Proof.
  intros s m Hwf Hpk Hep. split.
  - intros H. destruct (pawn_gen_sound s m Hwf Hep H) as [f [t [pro [Hf [Hr ->]]]]].
    pose proof (pawn_rule_dest_lt s f t pro Hwf Hf Hr) as Ht.
    exists (mkMove f t pro). cbn [mv_from mv_to].
    split; [exact (pawn_kind_on s f Hwf Hf)|]. split; [exact (pawn_on_lt s f Hwf Hf)|].
    split; [exact Ht|]. split; [|reflexivity]. apply (pawn_rule_iff s f t pro Hwf Hf Ht). exact Hr.
  - intros [[f t pro] [Hk [Hf64 [Ht [Hpl ->]]]]]. cbn [mv_from mv_to] in *.
    assert (Hf : pawn_on s f).
    { unfold kind_on in Hk. destruct (piece_at (st_board s) f) as [[c k]|] eqn:E; [|discriminate Hk].
      injection Hk as ->. pose proof (pl_turn (abs s) _ c Pawn Hpl E) as Hc. cbn [abs p_turn] in Hc.
      subst c. apply (pawn_piece_at _ _ _ (wf_state_board s Hwf)). exact E. }
    apply (pawn_gen_complete s f t pro Hwf Hep Hf). apply (pawn_rule_iff s f t pro Hwf Hf Ht). exact Hpl.
Qed.

(* for pawns the bound on the destination is implied by the rules under pawns_ok *)
Theorem pawn_moves_spec_unbounded : forall s m, WfState s -> pawns_ok s -> ep_ok s ->
  (In m (pawn_moves s) <->
   exists mv, kind_on (st_board s) (mv_from mv) = Some Pawn /\ mv_from mv < 64 /\
              Rules.pseudo_legal (abs s) mv = true /\ m = enc_move s mv).
Proof.
  intros s m Hwf Hpk Hep. rewrite (pawn_moves_spec s m Hwf Hpk Hep). split.
  - intros [mv [H1 [H2 [_ [H3 H4]]]]]. exists mv. auto.
  - intros [[f t pro] [Hk [Hf64 [Hpl E]]]]. exists (mkMove f t pro). cbn [mv_from mv_to] in *.
    repeat (split; [assumption|]). split; [|split; assumption].
    assert (Hf : pawn_on s f).
    { unfold kind_on in Hk. destruct (piece_at (st_board s) f) as [[c k]|] eqn:E'; [|discriminate Hk].
      injection Hk as ->. pose proof (pl_turn (abs s) _ c Pawn Hpl E') as Hc. cbn [abs p_turn] in Hc.
      subst c. apply (pawn_piece_at _ _ _ (wf_state_board s Hwf)). exact E'. }
    exact (pawn_pl_dest_lt s f t pro Hwf Hpk Hf Hpl).
Qed.

