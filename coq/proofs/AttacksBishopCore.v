(* The finite core of C09 for bishops: all 64 squares x all 2^bits blocker subsets (5 248 cases). *)
From WV Require Import Bits Attacks AttacksProofs.
Open Scope N_scope.

Lemma bishop_core : slider_core bishop_table bishop_slide_mask bishop_magics bishop_bits bishop_dirs = true.
Proof. vm_cast_no_check (eq_refl true). Qed.
