(* R4, part 4: the attributes carried by a generated move, spelled out with the accessors, and
   histories of generated moves.

   REUSABLE STATEMENTS
     enc_attributes   every accessor of enc_move s mv for a move satisfying move_ok_k (three shapes)
     attributes       the same for m in MoveGen.legal_moves s, as equivalences on the board
     gen_plays / gen_plays_plays / histories_gen *)
From WV Require Import Types Bits Attacks Board MoveEnc MoveGen Rules Abs Wf Encode.
From WV Require Import BitsProofs BoardProofs MoveEncProofs PosEq BoardAlg ApplyProofs LegalPosProofs PlayProofs.
From WV Require Import GenPawnsNoDup KingPrefilter GenLegal.
From Coq Require Import Lia ZifyBool ZifyN ZifyNat.
Import WV.Bits.
Ltac Zify.zify_post_hook ::= Z.div_mod_to_equations.
Open Scope N_scope.
Arguments N.add : simpl never.
Arguments N.sub : simpl never.
Arguments N.mul : simpl never.
Arguments N.div : simpl never.
Arguments N.modulo : simpl never.

Lemma move_ok_promo_king : forall s mv k, move_ok_k s mv k -> k <> Pawn -> mv_promo mv = None.
Proof.
  intros s mv k (_ & _ & _ & _ & _ & Hp & _) Hne. destruct (mv_promo mv) as [pr|]; [|reflexivity].
  destruct Hp as [Hp _]. contradiction.
Qed.

Theorem enc_attributes : forall s mv k, WfState s -> move_ok_k s mv k ->
  let m := enc_move s mv in
  let f := mv_from mv in
  let t := mv_to mv in
  m_origin m = f /\ m_dest m = t /\ m_promotion m = mv_promo mv /\ m_color m = st_turn s /\
  m_piece m = k /\
  m_is_ep m = ep_flag (abs s) k f t /\
  m_capture m = (if ep_flag (abs s) k f t then Some Pawn else kind_on (st_board s) t) /\
  m_castle_side m = (if castle_flag k f t then Some (sfile t =? 6)%Z else None) /\
  m_is_double m = piece_eqb k Pawn && (1 <? abs_dist (rank_of f) (rank_of t)).
Proof.
  intros s mv k Hwf Hok. cbv zeta.
  pose proof Hok as (Hpat & Hf & Ht & Hne & Hown & Hpromo & Hpawn & Hking).
  destruct (move_shape s mv k Hok) as [[-> Hep] | [[-> [Hep Hca]] | [Hep Hca]]].
  - (* en passant *)
    rewrite (enc_ep s mv Hok Hep), Hep.
    pose proof (en_passant_fields (st_turn s) (mv_from mv) (mv_to mv) Hf Ht) as H. cbv zeta in H.
    destruct H as (H1 & H2 & H3 & H4 & H5 & H6 & H7 & H8).
    assert (Hpr : mv_promo mv = None).
    { unfold ep_flag in Hep. rewrite !andb_true_iff in Hep. destruct Hep as [[_ Hfile] Hemp].
      apply negb_true_iff, Z.eqb_neq in Hfile.
      destruct (Hpawn eq_refl) as [_ Hx]. apply Hx; [congruence | exact Hemp]. }
    rewrite H1, H2, H3, H4, H5, H6, H7, H8, Hpr, ep_is_double. repeat split; reflexivity.
  - (* castling *)
    destruct (ApplyProofs.enc_castle s mv Hok Hca) as (E & Ef & Et). rewrite E, Hep, Hca.
    pose proof (castle_fields (st_turn s) (sfile (mv_to mv) =? 6)%Z) as H. cbv zeta in H.
    destruct H as (H1 & H2 & H3 & H4 & H5 & H6 & H7 & H8 & H9).
    rewrite H1, H2, H3, H4, H5, H6, H7, H8, H9, <- Ef, <- Et.
    rewrite (move_ok_promo_king s mv King Hok ltac:(discriminate)).
    assert (Hcap : kind_on (st_board s) (mv_to mv) = None).
    { unfold castle_flag in Hca. apply andb_true_iff in Hca. destruct Hca as [_ Hdf].
      apply Z.eqb_eq in Hdf. destruct (Hking eq_refl Hdf) as (_ & _ & _ & Hemp & _).
      rewrite <- kind_on_empty in Hemp. destruct (kind_on (st_board s) (mv_to mv)); [discriminate Hemp | reflexivity]. }
    rewrite Hcap. repeat split; reflexivity.
  - (* plain *)
    rewrite (enc_plain s mv k Hok Hep Hca), Hep, Hca.
    assert (Hpr : mv_promo mv <> Some PNone).
    { intros E. rewrite E in Hpromo. destruct Hpromo as [_ Hp]. discriminate Hp. }
    pose proof (roundtrip (st_turn s) k (mv_from mv) (mv_to mv) (kind_on (st_board s) (mv_to mv)) (mv_promo mv)
                  (move_ok_kind s mv k Hok) Hf Ht (kind_on_not_none _ _) Hpr) as H. cbv zeta in H.
    destruct H as (H1 & H2 & H3 & H4 & H5 & H6 & H7 & H8 & H9 & _).
    rewrite H1, H2, H3, H4, H5, H6, H7, H8, H9. repeat split; reflexivity.
Qed.

Lemma king_home_file : forall c, sfile (king_home c) = 4%Z.
Proof. intros [|]; reflexivity. Qed.

(* the attributes of a generated legal move, as statements about the board *)
Theorem attributes : forall s m, LegalPos s -> In m (MoveGen.legal_moves s) ->
  let mv := absm m in
  let b := st_board s in
  m_origin m = mv_from mv /\ m_dest m = mv_to mv /\ m_promotion m = mv_promo mv /\
  m_origin m < 64 /\ m_dest m < 64 /\
  m_color m = st_turn s /\
  Some (m_piece m) = kind_on b (m_origin m) /\
  (m_is_ep m = true <->
     (m_piece m = Pawn /\ file_of (m_origin m) <> file_of (m_dest m) /\ kind_on b (m_dest m) = None)) /\
  m_capture m = (if m_is_ep m then Some Pawn else kind_on b (m_dest m)) /\
  (forall side, m_castle_side m = Some side <->
     (m_piece m = King /\
      if side then file_of (m_dest m) = file_of (m_origin m) + 2
      else file_of (m_origin m) = file_of (m_dest m) + 2)) /\
  (forall side, m_castle_side m = Some side ->
     m_origin m = king_home (st_turn s) /\ m_dest m = castle_dest (st_turn s) side) /\
  (m_is_double m = true <->
     (m_piece m = Pawn /\ abs_dist (rank_of (m_origin m)) (rank_of (m_dest m)) = 2)).
Proof.
  intros s m HL Hin. cbv zeta.
  destruct (legal_moves_canonical s m HL Hin) as [Hleg Em].
  apply legal_moves_In in Hleg. destruct Hleg as (Hf & Ht & _ & Hl).
  destruct (legal_move_ok s (absm m) HL Hl Ht) as [k Hok].
  pose proof (enc_attributes s (absm m) k (legal_pos_wf s HL) Hok) as H. cbv zeta in H.
  rewrite <- Em in H. destruct H as (_ & _ & _ & Hcol & Hpc & Hisep & Hcap & Hside & Hdbl).
  pose proof Hok as (Hpat & _ & _ & Hne & _ & _ & Hpawn & Hking).
  change (mv_from (absm m)) with (m_origin m) in *. change (mv_to (absm m)) with (m_dest m) in *.
  set (f := m_origin m) in *. set (t := m_dest m) in *.
  split; [reflexivity|]. split; [reflexivity|]. split; [reflexivity|].
  split; [exact Hf|]. split; [exact Ht|]. split; [exact Hcol|].
  split; [rewrite Hpc; symmetry; exact (kind_on_p_at s f _ _ Hpat)|].
  assert (Hemp : forall x, kind_on (st_board s) x = None <-> empty_at (abs s) x = true).
  { intros x. rewrite <- kind_on_empty. destruct (kind_on (st_board s) x); split; congruence. }
  split.
  { rewrite Hisep, Hpc. unfold ep_flag. rewrite !andb_true_iff, negb_true_iff, piece_eqb_eq, Hemp.
    rewrite <- file_eqb_Z, N.eqb_neq. tauto. }
  split.
  { rewrite Hcap, Hisep. reflexivity. }
  assert (Hcs : forall side, m_castle_side m = Some side ->
            k = King /\ (Z.abs (sfile t - sfile f) = 2)%Z /\ side = (sfile t =? 6)%Z).
  { intros side E. rewrite Hside in E. destruct (castle_flag k f t) eqn:Eca; [|discriminate E].
    injection E as <-. unfold castle_flag in Eca. apply andb_true_iff in Eca. destruct Eca as [E1 E2].
    apply piece_eqb_eq in E1. apply Z.eqb_eq in E2. auto. }
  split.
  { intros side. rewrite Hpc. split.
    - intros E. destruct (Hcs side E) as (Ek & Edf & ->). split; [exact Ek|].
      destruct (Hking Ek Edf) as (Efh & _). pose proof (king_home_file (st_turn s)) as H4.
      rewrite <- Efh in H4. rewrite !sfile_file in *.
      destruct (Z.eqb_spec (Z.of_N (file_of t)) 6); lia.
    - intros [Ek Efile]. rewrite Hside.
      assert (Edf : (Z.abs (sfile t - sfile f) = 2)%Z).
      { rewrite !sfile_file. destruct side; lia. }
      unfold castle_flag. rewrite Ek. cbn [piece_eqb piece_to_N N.eqb Pos.eqb andb].
      apply Z.eqb_eq in Edf. rewrite Edf. f_equal.
      apply Z.eqb_eq in Edf. destruct (Hking Ek Edf) as (Efh & _).
      pose proof (king_home_file (st_turn s)) as H4. rewrite <- Efh in H4. rewrite !sfile_file in *.
      destruct side; lia. }
  split.
  { intros side E. destruct (Hcs side E) as (Ek & Edf & ->).
    assert (Eca : castle_flag k f t = true).
    { unfold castle_flag. rewrite Ek. apply Z.eqb_eq in Edf. rewrite Edf. reflexivity. }
    pose proof Hok as Hok'. rewrite Ek in Hok', Eca.
    destruct (ApplyProofs.enc_castle s (absm m) Hok' Eca) as (_ & E1 & E2).
    rewrite king_origin_home in E1. split; [exact E1 | exact E2]. }
  { rewrite Hdbl, Hpc, andb_true_iff, piece_eqb_eq. split.
    - intros [Ek Hd]. split; [exact Ek|]. destruct (Hpawn Ek) as [Hsh _].
      pose proof (abs_dist_Z (rank_of f) (rank_of t)) as Hz. rewrite !srank_rank in Hsh.
      pose proof (LegalPosProofs.fwd_cases (st_turn s)). cbn [abs p_turn] in *. lia.
    - intros [Ek Hd]. split; [exact Ek|]. rewrite Hd. reflexivity. }
Qed.

(* ---------- histories of generated moves ---------- *)

Inductive gen_plays : state -> list N -> state -> Prop :=
| gen_plays_nil : forall s, gen_plays s [] s
| gen_plays_cons : forall s m s1 ms s2,
    In (m, s1) (gen_legal s) -> gen_plays s1 ms s2 -> gen_plays s (m :: ms) s2.

Lemma gen_plays_plays : forall s ms s', LegalPos s -> gen_plays s ms s' -> plays s (map absm ms) s'.
Proof.
  intros s ms s' HL Hp. induction Hp as [s | s m s1 ms s2 Hin Hp IH]; cbn [map]; [constructor|].
  destruct (gen_legal_props s m s1 HL Hin) as (Ha & HL1 & _ & Hleg & Em).
  apply legal_moves_In in Hleg. destruct Hleg as (_ & Ht & _ & Hl).
  apply (plays_cons s (absm m) s1); [exact Hl | exact Ht | rewrite <- Em; exact Ha | exact (IH HL1)].
Qed.

Theorem histories_gen : forall s ms s', LegalPos s -> gen_plays s ms s' ->
  st_half s + N.of_nat (length ms) <= mask64 -> st_full s + N.of_nat (length ms) <= mask64 ->
  LegalPos s' /\ pos_eq (abs s') (fold_left Rules.apply (map absm ms) (abs s)).
Proof.
  intros s ms s' HL Hp Hh Hf.
  apply (plays_refines s (map absm ms) s' HL (gen_plays_plays s ms s' HL Hp)); rewrite map_length; assumption.
Qed.

Print Assumptions attributes.
Print Assumptions histories_gen.
