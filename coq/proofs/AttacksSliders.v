(* C09 for the sliding pieces: magic-table lookup = geometric walk, for every square and every occupancy. *)
From WV Require Import Bits Attacks BitsProofs AttacksProofs AttacksRookCore AttacksBishopCore.
Open Scope N_scope.

Theorem rook_attacks_walk_any : forall s occ, s < 64 -> rook_attacks s occ = walk_dirs occ s rook_dirs.
Proof.
  intros s occ Hs. unfold rook_attacks. rewrite rook_mask_nth by exact Hs.
  apply (slider_lift rook_table rook_slide_mask rook_magics rook_bits rook_dirs
           rook_core rook_bits_check rook_cover_check s occ Hs).
Qed.

Theorem bishop_attacks_walk_any : forall s occ, s < 64 -> bishop_attacks s occ = walk_dirs occ s bishop_dirs.
Proof.
  intros s occ Hs. unfold bishop_attacks. rewrite bishop_mask_nth by exact Hs.
  apply (slider_lift bishop_table bishop_slide_mask bishop_magics bishop_bits bishop_dirs
           bishop_core bishop_bits_check bishop_cover_check s occ Hs).
Qed.

Theorem rook_attacks_walk : forall s occ, s < 64 -> occ < 2 ^ 64 ->
  rook_attacks s occ = walk_dirs occ s rook_dirs.
Proof. intros s occ Hs _. apply rook_attacks_walk_any. exact Hs. Qed.

Theorem bishop_attacks_walk : forall s occ, s < 64 -> occ < 2 ^ 64 ->
  bishop_attacks s occ = walk_dirs occ s bishop_dirs.
Proof. intros s occ Hs _. apply bishop_attacks_walk_any. exact Hs. Qed.

Theorem queen_attacks_walk : forall s occ, s < 64 -> occ < 2 ^ 64 ->
  queen_attacks s occ = N.lor (walk_dirs occ s rook_dirs) (walk_dirs occ s bishop_dirs).
Proof.
  intros s occ Hs _. unfold queen_attacks.
  rewrite rook_attacks_walk_any, bishop_attacks_walk_any by exact Hs. reflexivity.
Qed.
