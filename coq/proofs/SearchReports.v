(* C03, last clause: "at least one such report is made before the search ends".

   One worker (model/Search.v), no cancellation.  The first iteration (depth 0, max_depth 1, window
   (-mate_in_ply 0, mate_in_ply 0) = (-11000, 11000)) of a position that has a legal move ends with an entry under
   the root hash whose move applies to the root, so the table walk is not empty and EvBest is emitted; events
   already emitted stay in the event list of the run (iterate_keeps).

   Why the root entry exists: every value a call below the root returns lies STRICTLY inside (-11000, 11000)
   (analyze_in: static scores, mate scores at depth >= 1, draws, table values, window bounds), so the first legal
   root move raises alpha above -11000 (best := Some m) or cuts off (impossible here, but harmless: it stores too),
   and the store under the root hash is the last table write of the iteration.

   RESIDUE.  "Static scores lie strictly inside (-11000, 11000)" is NOT a theorem of the evaluator on LegalPos
   (LegalPos does not bound the number of pawns or promoted pieces: see MateRegion.wall, EvalBound.
   nonterminal_counterexample).  It is the explicit premise HeurInside (Below s): for every position x reachable
   from a successor of the root that has a legal move, -11000 < heuristic x < 11000 (from the side to move).
   This is weaker than the residue HeurNTOn of C06 (|score| < 10000), and it is discharged outright for roots with
   at most ten men (reports_fresh_small).  If a successor of the root could score >= 11000 for the opponent, the
   root move leading to it would not raise alpha (-(11000) is not > -11000), and a root all of whose moves are
   like that would end its iteration with no root entry and no report. *)
From Coq Require Import NArith ZArith List Bool Lia ZifyBool ZifyN ZifyNat.
From WV Require Import Types Bits Attacks Board MoveEnc MoveGen Text Table Eval Search.
From WV Require Import Rules Abs Wf Encode GameValue.
From WV Require Import BoardProofs GenPawnsNoDup GenLegal TableProofs HashProofs EvalShortcut EvalProofs EvalBound.
From WV Require Import SearchBase SearchProofs SearchSafety SearchMen SearchTop.
From WV Require Import MateValue MateSound MateRegion MateComplete.
Import ListNotations.
Import WV.Bits.
Open Scope Z_scope.

(* ------------------------------------------------------------------ *)
(* 1. definitions                                                       *)
(* ------------------------------------------------------------------ *)

(* strictly inside the root window *)
Definition VIn (v : Z) : Prop := -11000 < v < 11000.

Definition TIn (tt : access) : Prop := forall h e, acc_find tt h = Some e -> VIn (e_eval e).
Definition TR (tt : access) : Prop := tt_ok tt /\ TIn tt.

(* no entry under h is usable by a probe at remaining depth md - cd *)
Definition NoUse (tt : access) (h md cd : N) : Prop :=
  forall e, acc_find tt h = Some e -> (e_maxdepth e - e_depth e < md - cd)%N.

(* the residue: static scores of positions of P that have a legal move, seen from the side to move *)
Definition HeurInside (P : state -> Prop) : Prop :=
  forall s, P s -> gen_legal s <> [] -> VIn (heuristic (st_board s) (st_turn s)).

(* the positions reachable from a successor of s *)
Definition Below (s x : state) : Prop := exists m ns, In (m, ns) (gen_legal s) /\ Reach ns x.

(* a bound on max_depth below which `ply as i32` does not wrap (any bound < 2^31 - 65 would do) *)
Definition DMAX : N := 1073741824.

Lemma mate_in_range : forall d, (1 <= d)%N -> (d < 2147483648)%N -> 10000 <= mate_in_ply d <= 10900.
Proof.
  intros d H1 H2. destruct (mate_scores d) as (_ & _ & _ & _ & _ & E). rewrite (E H2).
  assert (HP : POS_INF = 10000) by reflexivity. assert (Ho : one_pawn = 100) by reflexivity.
  assert (Hm : mate_bonus_plies = 10) by reflexivity. rewrite HP, Ho, Hm. lia.
Qed.

Lemma EVal_inj : forall a b, EVal a = EVal b -> a = b.
Proof. intros a b H. injection H as H. exact H. Qed.

Lemma men_le64 : forall s, LegalPos s -> (men s <= 64)%nat.
Proof.
  intros s HL. pose proof (GenPawnsNoDup.legal_pos_wf s HL) as Hwf.
  pose proof (count_ones_le64 _ (occupancy_lt _ (ApplyProofs.wf_state_board s Hwf))) as H. unfold men. lia.
Qed.

Lemma TR_insert : forall tt k e, TR tt -> VIn (e_eval e) -> TR (acc_insert tt k e).
Proof.
  intros tt k e [Hok Hin] He. split; [apply tt_ok_insert; exact Hok|].
  intros h x Hfind. destruct (acc_find_insert_cases _ _ _ _ _ Hok Hfind) as [[_ ->]|[_ Hold]];
    [exact He|exact (Hin h x Hold)].
Qed.

Lemma TR_empty : forall nt nb, (0 < nt)%nat -> (0 < nb)%nat -> TR (empty_access nt nb).
Proof.
  intros nt nb Hnt Hnb. split; [apply tt_ok_empty; assumption|].
  intros h e H. pose proof (empty_refines nt nb Hnt Hnb h e H) as H1. discriminate H1.
Qed.

Lemma NoUse_empty : forall nt nb h md cd, (0 < nt)%nat -> (0 < nb)%nat -> NoUse (empty_access nt nb) h md cd.
Proof. intros nt nb h md cd Hnt Hnb e H. pose proof (empty_refines nt nb Hnt Hnb h e H) as H1. discriminate H1. Qed.

(* the terminal scores at depth >= 1 *)
Lemma eval_terminal_in : forall s d v, LegalPos s -> gen_legal s = [] -> (1 <= d)%N -> (d < 2147483648)%N ->
  evaluate s (st_turn s) d = EVal v -> VIn v.
Proof.
  intros s d v HL Hg H1 H2 E. destruct (is_check s) eqn:Ec.
  - rewrite (eval_mate s _ d HL Hg Ec), BoardProofs.color_eqb_refl in E. injection E as <-.
    pose proof (mate_in_range d H1 H2). unfold VIn. lia.
  - rewrite (eval_stalemate s _ d HL Hg Ec) in E. injection E as <-. unfold VIn, EVEN. lia.
Qed.

(* the probe: a value of the table, or a window inside the given one *)
Lemma probe_in : forall tt h md cd a b, TIn tt -> -11000 <= a -> a < b -> b <= 11000 ->
  match probe tt h md cd a b with
  | PEarly v => VIn v /\ (NoUse tt h md cd -> False)
  | PWindow a1 b1 => a <= a1 /\ a1 < b1 /\ b1 <= b /\ (NoUse tt h md cd -> a1 = a)
  | PPanic _ => True
  end.
Proof.
  intros tt h md cd a b HT Ha Hab Hb. unfold probe.
  assert (Hwin : a <= a /\ a < b /\ b <= b /\ (NoUse tt h md cd -> a = a)).
  { split; [lia|]. split; [exact Hab|]. split; [lia|reflexivity]. }
  destruct (acc_find tt h) as [e|] eqn:Ef; [|exact Hwin].
  destruct (md <? cd)%N; [exact Logic.I|]. destruct (e_maxdepth e <? e_depth e)%N; [exact Logic.I|].
  destruct (md - cd <=? e_maxdepth e - e_depth e)%N eqn:H3; [|exact Hwin].
  apply N.leb_le in H3. pose proof (HT h e Ef) as Hv.
  assert (Hno : NoUse tt h md cd -> False) by (intros Hno; specialize (Hno e Ef); lia).
  unfold VIn in Hv. destruct (e_kind e).
  - split; [exact Hv|exact Hno].
  - cbv zeta. destruct (Z.min b (e_eval e) <=? a) eqn:Hc.
    + split; [exact Hv|exact Hno].
    + apply Z.leb_gt in Hc. split; [lia|]. split; [lia|]. split; [lia|]. intros H. exfalso. exact (Hno H).
  - cbv zeta. destruct (b <=? Z.max a (e_eval e)) eqn:Hc.
    + split; [exact Hv|exact Hno].
    + apply Z.leb_gt in Hc. split; [lia|]. split; [lia|]. split; [lia|]. intros H. exfalso. exact (Hno H).
Qed.

(* ------------------------------------------------------------------ *)
(* 2. every value returned below the root is strictly inside            *)
(* ------------------------------------------------------------------ *)

Section Range.
Variable hs : hasher.
Variable P : state -> Prop.
Hypothesis P_legal : forall s, P s -> LegalPos s.
Hypothesis P_step : forall s m ns, P s -> In (m, ns) (gen_legal s) -> P ns.
Hypothesis HI : HeurInside P.

Lemma eval_in : forall s d v, P s -> (1 <= d)%N -> (d < 2147483648)%N ->
  evaluate s (st_turn s) d = EVal v -> VIn v.
Proof.
  intros s d v HP H1 H2 E. pose proof (P_legal s HP) as HL.
  assert (Hc : gen_legal s = [] \/ gen_legal s <> []) by (destruct (gen_legal s); [left; reflexivity|right; discriminate]).
  destruct Hc as [Hg|Hg].
  - exact (eval_terminal_in s d v HL Hg H1 H2 E).
  - rewrite (eval_has_move s _ d HL Hg) in E. apply EVal_inj in E. rewrite <- E. exact (HI s HP Hg).
Qed.

(* ---- quiescence ---- *)

Lemma q_loop_in : forall (rec : state -> N -> Z -> Z -> qres) s depth beta,
  (forall ns a b v, P ns -> -11000 <= a -> a < b -> b <= 11000 -> rec ns (depth + 1)%N a b = QVal v -> VIn v) ->
  P s -> beta <= 11000 ->
  forall l, (forall ms, In ms l -> In ms (gen_legal s)) ->
  forall alpha v, VIn alpha -> alpha < beta -> q_loop rec depth beta l alpha = QVal v -> VIn v.
Proof.
  intros rec s depth beta Hrec HP Hb l. induction l as [|[m ns] tl IH]; intros Hl alpha v Hal Hab E; cbn [q_loop] in E.
  - injection E as <-. exact Hal.
  - assert (Htl : forall ms, In ms tl -> In ms (gen_legal s)) by (intros ms Hm; apply Hl; right; exact Hm).
    destruct (m_is_capture m); cbn [negb] in E; [|exact (IH Htl alpha v Hal Hab E)].
    pose proof (P_step s m ns HP (Hl (m, ns) (or_introl eq_refl))) as HPn.
    unfold VIn in Hal.
    destruct (rec ns (depth + 1)%N (- beta) (- alpha)) as [r|site|] eqn:Er; [|discriminate E|discriminate E].
    pose proof (Hrec ns (- beta) (- alpha) r HPn ltac:(lia) ltac:(lia) ltac:(lia) Er) as Hr. unfold VIn in Hr.
    cbv zeta in E. destruct (beta <=? - r) eqn:Hc.
    + apply Z.leb_le in Hc. injection E as <-. unfold VIn. lia.
    + apply Z.leb_gt in Hc. destruct (alpha <? - r) eqn:Hr2.
      * apply Z.ltb_lt in Hr2. apply (IH Htl (- r) v); [unfold VIn; lia|lia|exact E].
      * apply (IH Htl alpha v); [unfold VIn; lia|exact Hab|exact E].
Qed.

Lemma quiesce_in : forall fuel s depth alpha beta v, P s -> (1 <= depth)%N ->
  (depth + N.of_nat fuel <= 2147483648)%N -> -11000 <= alpha -> alpha < beta -> beta <= 11000 ->
  quiesce fuel s depth alpha beta = QVal v -> VIn v.
Proof.
  induction fuel as [|k IH]; intros s depth alpha beta v HP Hd Hf Ha Hab Hb E; [discriminate E|].
  rewrite quiesce_S in E. destruct (gen_panics s); [discriminate E|].
  destruct (evaluate s (st_turn s) depth) as [normal|] eqn:Ee; [|discriminate E].
  assert (Hn : VIn normal) by (apply (eval_in s depth normal HP Hd); [lia|exact Ee]).
  destruct (gen_legal s) as [|ms0 tl0] eqn:Eg; [injection E as <-; exact Hn|]. cbv iota in E.
  destruct (forallb _ _); [injection E as <-; exact Hn|].
  unfold VIn in Hn. destruct (beta <=? normal) eqn:Hbn.
  - apply Z.leb_le in Hbn. injection E as <-. unfold VIn. lia.
  - apply Z.leb_gt in Hbn.
    apply (q_loop_in (quiesce k) s depth beta) with (l := q_sorted s) (alpha := if alpha <? normal then normal else alpha).
    + intros ns a b v0 HPn Ha' Hab' Hb' E'. apply (IH ns (depth + 1)%N a b v0 HPn); [lia|lia|exact Ha'|exact Hab'|exact Hb'|exact E'].
    + exact HP.
    + exact Hb.
    + apply q_sorted_in.
    + destruct (alpha <? normal) eqn:Hc; [unfold VIn; lia|]. apply Z.ltb_ge in Hc. unfold VIn. lia.
    + destruct (alpha <? normal); lia.
    + exact E.
Qed.

(* ---- analyze ---- *)

(* what a node needs: its successors are in P; below the root the node itself is in P, at the root (cd = 0 is the
   only use) it has a legal move *)
Definition NodeOk (s : state) (md cd : N) : Prop :=
  LegalPos s /\ (forall m ns, In (m, ns) (gen_legal s) -> P ns) /\
  (((1 <= cd)%N /\ P s) \/ ((cd < md)%N /\ gen_legal s <> [])).

(* the table has an entry under the hash of s whose move applies to s *)
Definition HasLine (tt : access) (s : state) : Prop :=
  exists e ns, acc_find tt (hash hs s) = Some e /\ apply_move s (e_move e) = Some ns.

Definition apost (s : state) (md cd : N) (a : Z) (w : wstate) (r : sres Z) : Prop :=
  match r with
  | SVal v w' =>
      VIn v /\ TR (w_tt w') /\ (w_nodes w < w_nodes w')%N /\
      (cd = 0%N -> (0 < md)%N -> gen_legal s <> [] -> a = -11000 -> NoUse (w_tt w) (hash hs s) md cd ->
       HasLine (w_tt w') s)
  | _ => True
  end.

Definition rec_ok (rec : rec_t) : Prop :=
  forall ns md cd ce a b w, NodeOk ns md cd -> (cd <= md)%N -> (md + (extension_cap - ce) <= DMAX)%N ->
  -11000 <= a -> a < b -> b <= 11000 -> TR (w_tt w) ->
  apost ns md cd a w (rec ns md cd ce a b None w).

Definition lpost (s : state) (prev : N) (a1 : Z) (r : sres Z) : Prop :=
  match r with
  | SVal v w' =>
      VIn v /\ TR (w_tt w') /\ (prev <= w_nodes w')%N /\
      (gen_legal s = [] \/ -11000 < a1 \/ HasLine (w_tt w') s)
  | _ => True
  end.

(* a1 = the window's lower bound after the probe, alpha = the running bound *)
Lemma loop_in : forall (rec : rec_t), rec_ok rec ->
  forall s md cd ce ext a1 beta1 prev, LegalPos s -> (forall m ns, In (m, ns) (gen_legal s) -> P ns) ->
  ((1 <= cd)%N \/ gen_legal s <> []) -> (cd < md)%N ->
  (md + ext + (extension_cap - (ce + ext)) <= DMAX)%N ->
  -11000 <= a1 -> beta1 <= 11000 ->
  forall l, (forall m, In m l -> In m (MoveGen.pseudo_legal s)) ->
  forall alpha best kind w,
    TR (w_tt w) -> (prev <= w_nodes w)%N -> a1 <= alpha -> alpha < beta1 ->
    (-11000 < alpha \/ (w_nodes w = prev /\ best = None)) ->
    (best = None -> alpha = a1) ->
    (forall bm, best = Some bm -> exists ns, apply_move s bm = Some ns) ->
    ((prev < w_nodes w)%N \/ forall m ns, In (m, ns) (gen_legal s) -> In m l) ->
    lpost s prev a1 (loop_body rec s (hash hs s) md cd ce ext beta1 prev l alpha best kind w).
Proof.
  intros rec Hrec s md cd ce ext a1 beta1 prev HL Hch Hcd Hlt Hdm Ha1 Hb1 l.
  induction l as [|m tl IH]; intros Hl alpha best kind w HT Hpn Hge Hab I1 I2 Hbest Hcov; cbn [loop_body].
  - destruct (prev =? w_nodes w)%N eqn:Hpw.
    + apply N.eqb_eq in Hpw.
      assert (Hnil : gen_legal s = []).
      { destruct Hcov as [Hc|Hc]; [lia|]. destruct (gen_legal s) as [|[m0 ns0] tl0]; [reflexivity|].
        destruct (Hc m0 ns0 (or_introl eq_refl)). }
      unfold eval_or_panic. destruct (evaluate s (st_turn s) cd) as [v|] eqn:Ee; [|exact Logic.I].
      cbn [lpost]. split; [|split; [exact HT|split; [lia|left; exact Hnil]]].
      destruct Hcd as [Hcd|Hcd]; [|contradiction].
      apply (eval_terminal_in s cd v HL Hnil Hcd); [unfold DMAX in Hdm; lia|exact Ee].
    + apply N.eqb_neq in Hpw.
      assert (Hal : VIn alpha).
      { unfold VIn. destruct I1 as [I1|[I1 _]]; [lia|]. exfalso. apply Hpw. symmetry. exact I1. }
      destruct best as [bm|].
      * cbn [lpost w_tt w_nodes]. split; [exact Hal|]. split; [apply TR_insert; [exact HT|exact Hal]|].
        split; [exact Hpn|]. right. right. destruct (Hbest bm eq_refl) as [ns Hns].
        exists (mkEntry kind bm cd md alpha), ns.
        split; [apply acc_find_insert_same; exact (proj1 HT)|exact Hns].
      * cbn [lpost]. split; [exact Hal|]. split; [exact HT|]. split; [exact Hpn|].
        right. left. rewrite <- (I2 eq_refl). unfold VIn in Hal. lia.
  - assert (Htl : forall m', In m' tl -> In m' (MoveGen.pseudo_legal s)) by (intros m' Hm'; apply Hl; right; exact Hm').
    destruct (apply_move s m) as [ns|] eqn:Ha; [|exact Logic.I].
    fold (king_hit s ns). destruct (king_hit s ns) eqn:Hk.
    + apply IH; try assumption.
      destruct Hcov as [Hc|Hc]; [left; exact Hc|]. right. intros m' ns' Hg'.
      destruct (Hc m' ns' Hg') as [<-|Hin']; [|exact Hin'].
      exfalso. exact (gen_legal_hit_false s m ns' ns Hg' Ha Hk).
    + destruct (searched_move s m ns HL (Hl m (or_introl eq_refl)) Ha Hk) as (Hg & HLn & _).
      pose proof (Hch m ns Hg) as HPn.
      assert (HN : NodeOk ns (md + ext) (cd + 1 + ext)).
      { split; [exact HLn|]. split; [intros m' ns' Hin'; exact (P_step ns m' ns' HPn Hin')|].
        left. split; [lia|exact HPn]. }
      pose proof (Hrec ns (md + ext)%N (cd + 1 + ext)%N (ce + ext)%N (- beta1) (- alpha) w HN
                    ltac:(lia) Hdm ltac:(lia) ltac:(lia) ltac:(lia) HT) as Hc.
      destruct (rec ns (md + ext)%N (cd + 1 + ext)%N (ce + ext)%N (- beta1) (- alpha) None w) as [r w'|w'|site|];
        cbn [apost] in Hc; [|exact Logic.I|exact Logic.I|exact Logic.I].
      destruct Hc as (Hr & HT' & Hn' & _). unfold VIn in Hr.
      cbv zeta. destruct (beta1 <=? - r) eqn:Hcut.
      * apply Z.leb_le in Hcut. cbn [lpost w_tt w_nodes].
        assert (Hvb : VIn beta1) by (unfold VIn; lia).
        split; [exact Hvb|]. split; [apply TR_insert; assumption|]. split; [lia|].
        right. right. exists (mkEntry LowerBound m cd md beta1), ns.
        split; [apply acc_find_insert_same; exact (proj1 HT')|exact Ha].
      * apply Z.leb_gt in Hcut. destruct (alpha <? - r) eqn:Hr2.
        -- apply Z.ltb_lt in Hr2.
           apply IH; [exact Htl|exact HT'|lia|lia|lia|left; lia|intros E; discriminate E| |left; lia].
           intros bm E. injection E as <-. exists ns. exact Ha.
        -- apply Z.ltb_ge in Hr2.
           apply IH; [exact Htl|exact HT'|lia|exact Hge|exact Hab|left; lia|exact I2|exact Hbest|left; lia].
Qed.

Lemma node_in : forall history jit cancel (rec : rec_t), rec_ok rec ->
  forall s md cd ce a b prio w, NodeOk s md cd -> (cd <= md)%N -> (md + (extension_cap - ce) <= DMAX)%N ->
  -11000 <= a -> a < b -> b <= 11000 -> TR (w_tt w) ->
  (forall pm, prio = Some pm -> In pm (MoveGen.legal_moves s)) ->
  apost s md cd a w (node_body hs history jit cancel rec s md cd ce a b prio w).
Proof.
  intros history jit cancel rec Hrec s md cd ce a b prio w (HL & Hch & Hcase) Hle Hdm Ha Hab Hb HT Hprio.
  unfold node_body.
  destruct (snd (enter_node cancel w)); [exact Logic.I|]. cbv zeta.
  destruct ((0 <? cd)%N && in_history history (hash hs s)) eqn:Hh.
  - apply andb_true_iff in Hh. destruct Hh as [Hh1 _]. apply N.ltb_lt in Hh1.
    cbn [apost with_trace w_tt w_nodes]. rewrite ?enter_node_tt, enter_nodes.
    split; [unfold VIn, EVEN; lia|]. split; [exact HT|]. split; [lia|]. intros E. lia.
  - unfold node_continue. cbn [with_trace w_tt]. rewrite ?enter_node_tt.
    pose proof (probe_in (w_tt w) (hash hs s) md cd a b (proj2 HT) Ha Hab Hb) as Hp.
    destruct (probe (w_tt w) (hash hs s) md cd a b) as [v|a1 b1|site]; [| |exact Logic.I].
    + cbn [apost with_trace w_tt w_nodes]. rewrite ?enter_node_tt, enter_nodes. destruct Hp as [Hv Hno].
      split; [exact Hv|]. split; [exact HT|]. split; [lia|]. intros _ _ _ _ Hn. exfalso. exact (Hno Hn).
    + destruct Hp as (Hge & Hlt1 & Hle1 & Hnu).
      destruct (md <=? cd)%N eqn:Hmd.
      * apply N.leb_le in Hmd.
        destruct Hcase as [[Hc1 HP]|[Hc1 _]]; [|lia].
        destruct (quiesce (S (men s)) s cd a1 b1) as [v|site|] eqn:Eq; [|exact Logic.I|exact Logic.I].
        cbn [apost with_trace w_tt w_nodes]. rewrite ?enter_node_tt, enter_nodes.
        split.
        { apply (quiesce_in (S (men s)) s cd a1 b1 v HP Hc1); [|lia|lia|lia|exact Eq].
          pose proof (men_le64 s HL). unfold DMAX in Hdm. lia. }
        split; [exact HT|]. split; [lia|]. intros E Hm. lia.
      * apply N.leb_gt in Hmd.
        set (w1 := with_trace (fst (enter_node cancel w)) (hash hs s, cd, md, a, b)).
        assert (Hlp : lpost s (w_nodes w1) a1
                  (loop_body rec s (hash hs s) md cd ce (node_ext s ce) b1 (w_nodes w1)
                     (ordered_moves jit s (w_jidx w1) prio) a1 None UpperBound (with_jidx w1 (drawn_count s)))).
        { apply (loop_in rec Hrec s md cd ce (node_ext s ce) a1 b1 (w_nodes w1) HL Hch).
          - destruct Hcase as [[H1 _]|[_ H1]]; [left; exact H1|right; exact H1].
          - exact Hmd.
          - unfold node_ext. destruct (N.ltb_spec ce extension_cap) as [Hce|Hce]; [destruct (is_check s)|]; lia.
          - lia.
          - lia.
          - intros m Hm. destruct (ordered_moves_in jit s (w_jidx w1) prio m Hm) as [H|H];
              [exact H|exact (legal_in_pseudo s m (Hprio m H))].
          - cbn [with_jidx w_tt]. unfold w1. cbn [with_trace w_tt]. rewrite enter_node_tt. exact HT.
          - cbn [with_jidx w_nodes]. lia.
          - lia.
          - exact Hlt1.
          - right. split; reflexivity.
          - intros _. reflexivity.
          - intros bm E. discriminate E.
          - right. intros m ns Hin. apply ordered_moves_complete. exact (proj1 (gen_legal_not_hit s m ns Hin)). }
        destruct (loop_body rec s (hash hs s) md cd ce (node_ext s ce) b1 (w_nodes w1)
                    (ordered_moves jit s (w_jidx w1) prio) a1 None UpperBound (with_jidx w1 (drawn_count s)))
          as [v w'|w'|site|]; cbn [lpost] in Hlp; cbn [apost]; [|exact Logic.I|exact Logic.I|exact Logic.I].
        destruct Hlp as (L1 & L2 & L3 & L4).
        assert (En : w_nodes w1 = (w_nodes w + 1)%N) by reflexivity.
        split; [exact L1|]. split; [exact L2|]. split; [lia|].
        intros _ _ Hg Haa Hno. rewrite (Hnu Hno) in L4.
        destruct L4 as [L4|[L4|L4]]; [contradiction|lia|exact L4].
Qed.

Theorem analyze_in : forall history jit cancel fuel s md cd ce a b prio w,
  NodeOk s md cd -> (cd <= md)%N -> (md + (extension_cap - ce) <= DMAX)%N ->
  -11000 <= a -> a < b -> b <= 11000 -> TR (w_tt w) ->
  (forall pm, prio = Some pm -> In pm (MoveGen.legal_moves s)) ->
  apost s md cd a w (analyze hs history jit cancel fuel s md cd ce a b prio w).
Proof.
  intros history jit cancel. induction fuel as [|k IH]; intros s md cd ce a b prio w HN Hle Hdm Ha Hab Hb HT Hprio;
    [exact Logic.I|].
  rewrite analyze_S. apply node_in; try assumption.
  intros ns md' cd' ce' a' b' w' HN' Hle' Hdm' Ha' Hab' Hb' HT'. apply IH; try assumption.
  intros pm E. discriminate E.
Qed.

End Range.

(* ------------------------------------------------------------------ *)
(* 3. the iterative driver                                              *)
(* ------------------------------------------------------------------ *)

(* an event already emitted is an event of the run *)
Lemma iterate_keeps : forall hs jit_of cancel iters depth s history tt gnodes flag trace nt be bm acc x,
  In x acc -> In x (r_events (iterate hs jit_of cancel iters depth s history tt gnodes flag trace nt be bm acc)).
Proof.
  intros hs jit_of cancel iters. induction iters as [|k IH];
    intros depth s history tt gnodes flag trace nt be bm acc x Hin; cbn [iterate].
  - cbn [r_events]. apply -> in_rev. exact Hin.
  - destruct ((0 <? depth)%N && flag); [cbn [r_events]; apply -> in_rev; exact Hin|]. cbv zeta.
    destruct (analyze _ _ _ _ _ _ _ _ _ _ _ _ _) as [ev w|w|site|].
    + destruct (iter_moves _ _ _ _ _ _) as [|mv tl].
      * cbn [r_events]. apply -> in_rev. right. exact Hin.
      * destruct (POS_INF <=? ev).
        -- cbn [r_events]. apply -> in_rev. right. right. exact Hin.
        -- apply IH. right. right. exact Hin.
    + cbn [r_events]. apply -> in_rev.
      destruct (acc_find (w_tt w) (hash hs s)) as [e|]; [|exact Hin].
      destruct (_ && _); [right; exact Hin|exact Hin].
    + cbn [r_events]. apply -> in_rev. exact Hin.
    + cbn [r_events]. apply -> in_rev. exact Hin.
Qed.

Section Driver.
Variable hs : hasher.
Variable P : state -> Prop.
Hypothesis P_legal : forall s, P s -> LegalPos s.
Hypothesis P_step : forall s m ns, P s -> In (m, ns) (gen_legal s) -> P ns.
Hypothesis HI : HeurInside P.

(* any history; any table whose values are strictly inside the root window, whose entries have ordered depths and
   which has no usable entry (remaining depth >= 1) under the root hash *)
Theorem reports_region : forall jit_of iters s history tt,
  LegalPos s -> (forall m ns, In (m, ns) (gen_legal s) -> P ns) -> gen_legal s <> [] -> (1 <= iters)%nat ->
  TR tt -> TEntriesOk tt -> NoUse tt (hash hs s) 1 0 ->
  let r := analyze_iterative hs jit_of None iters s history tt in
  exists ev line, In (EvBest ev line) (r_events r) /\ line <> [].
Proof.
  intros jit_of iters s history tt HL Hch Hg Hit HT HE Hno. cbv zeta.
  destruct (root_recorded hs jit_of None iters s history tt) as (E & _). rewrite E. clear E.
  destruct iters as [|k]; [lia|]. cbn [iterate]. rewrite andb_false_r. cbv zeta.
  set (hist := root_history hs s history).
  set (w0 := mkW tt 0 0 0 false []).
  assert (HM : mate_in_ply 0 = 11000) by reflexivity.
  assert (HN : NodeOk P s (0 + 1) 0).
  { split; [exact HL|]. split; [exact Hch|]. right. split; [lia|exact Hg]. }
  assert (Hprio : forall pm : N, @None N = Some pm -> In pm (MoveGen.legal_moves s)) by (intros pm E; discriminate E).
  assert (Hdm : (0 + 1 + (extension_cap - 0) <= DMAX)%N) by (unfold extension_cap, DMAX; lia).
  assert (Hfuel : (N.to_nat (0 + 1 - 0) < S (S (N.to_nat 0)))%nat) by lia.
  pose proof (analyze_in hs P P_legal P_step HI hist (jit_of 0%N) None (S (S (N.to_nat 0))) s (0 + 1)%N 0%N 0%N
                (- mate_in_ply 0) (mate_in_ply 0) None w0 HN (N.le_0_l _) Hdm
                ltac:(lia) ltac:(lia) ltac:(lia) HT Hprio) as Hin.
  pose proof (analyze_safe eval_no_panic hs hist (jit_of 0%N) None (S (S (N.to_nat 0))) s (0 + 1)%N 0%N 0%N
                (- mate_in_ply 0) (mate_in_ply 0) None w0 (proj1 HT) HE HL (N.le_0_l _) Hfuel Hprio) as Hsafe.
  pose proof (no_interrupt hs hist (jit_of 0%N) (S (S (N.to_nat 0))) s (0 + 1)%N 0%N 0%N
                (- mate_in_ply 0) (mate_in_ply 0) None w0 eq_refl) as Hni.
  destruct (analyze hs hist (jit_of 0%N) None (S (S (N.to_nat 0))) s (0 + 1)%N 0%N 0%N
                    (- mate_in_ply 0) (mate_in_ply 0) None w0) as [ev w|w|site|];
    [|destruct Hni|destruct Hsafe|destruct Hsafe].
  cbn [apost] in Hin. destruct Hin as (_ & _ & _ & Hline).
  destruct (Hline eq_refl ltac:(lia) Hg ltac:(lia) Hno) as (e & n & Ef & Ha).
  pose proof (iter_moves_nonempty hs (S (N.to_nat 0)) (w_tt w) s 0%N e n Ef Ha) as Hne.
  destruct (iter_moves hs (S (S (N.to_nat 0))) (w_tt w) s 0%N 0%N) as [|mv tl] eqn:El; [contradiction Hne; reflexivity|].
  exists ev, (mv :: tl). split; [|discriminate].
  destruct (POS_INF <=? ev).
  - cbn [r_events]. apply -> in_rev. left. reflexivity.
  - apply iterate_keeps. left. reflexivity.
Qed.

End Driver.

(* ------------------------------------------------------------------ *)
(* 4. final forms                                                       *)
(* ------------------------------------------------------------------ *)

Lemma Below_legal : forall s x, LegalPos s -> Below s x -> LegalPos x.
Proof.
  intros s x HL (m & ns & Hin & Hr). destruct (apply_saturating s m ns HL Hin) as (_ & _ & HLn).
  exact (proj1 (Reach_region ns HLn) x Hr).
Qed.

Lemma Below_step : forall s x m nx, Below s x -> In (m, nx) (gen_legal x) -> Below s nx.
Proof.
  intros s x m nx (m0 & ns & Hin & Hr) Hx. exists m0, ns. split; [exact Hin|]. exact (Reach_step ns x m nx Hr Hx).
Qed.

Lemma Below_child : forall s m ns, In (m, ns) (gen_legal s) -> Below s ns.
Proof. intros s m ns Hin. exists m, ns. split; [exact Hin|apply Reach_root]. Qed.

(* (b) a reused table, (a) any history *)
Theorem reports_table : forall hs jit_of iters s history tt,
  HeurInside (Below s) -> LegalPos s -> gen_legal s <> [] -> (1 <= iters)%nat ->
  tt_ok tt -> TEntriesOk tt -> TIn tt -> NoUse tt (hash hs s) 1 0 ->
  let r := analyze_iterative hs jit_of None iters s history tt in
  exists ev line, In (EvBest ev line) (r_events r) /\ line <> [].
Proof.
  intros hs jit_of iters s history tt HI HL Hg Hit Hok HE HTI Hno.
  exact (reports_region hs (Below s) (fun x Hx => Below_legal s x HL Hx) (fun x m nx => Below_step s x m nx) HI
           jit_of iters s history tt HL (Below_child s) Hg Hit (conj Hok HTI) HE Hno).
Qed.

(* the fresh table *)
Theorem reports_fresh : forall hs jit_of iters s history nt nb,
  HeurInside (Below s) -> LegalPos s -> gen_legal s <> [] -> (1 <= iters)%nat -> (0 < nt)%nat -> (0 < nb)%nat ->
  let r := analyze_iterative hs jit_of None iters s history (empty_access nt nb) in
  exists ev line, In (EvBest ev line) (r_events r) /\ line <> [].
Proof.
  intros hs jit_of iters s history nt nb HI HL Hg Hit Hnt Hnb.
  destruct (TR_empty nt nb Hnt Hnb) as [Hok HTI].
  exact (reports_table hs jit_of iters s history (empty_access nt nb) HI HL Hg Hit Hok
           (proj2 (TSafe_empty nt nb Hnt Hnb)) HTI (NoUse_empty nt nb (hash hs s) 1 0 Hnt Hnb)).
Qed.

(* the residue follows from the residue of C06 on the positions reachable from the root ... *)
Lemma term_in : forall h, is_terminal h = false -> VIn h.
Proof.
  intros h Ht. unfold is_terminal in Ht.
  apply orb_false_iff in Ht. destruct Ht as [H1 H2]. apply Z.leb_gt in H1, H2.
  assert (HP1 : POS_INF = 10000) by reflexivity. assert (HN1 : NEG_INF = -10000) by reflexivity.
  unfold VIn. lia.
Qed.

Lemma HeurNT_inside : forall P, HeurNTOn P -> HeurInside P.
Proof. intros P H s HP Hg. apply term_in. exact (H s (st_turn s) HP Hg). Qed.

Theorem reports_fresh_reach : forall hs jit_of iters s history nt nb,
  HeurNTOn (Reach s) -> LegalPos s -> gen_legal s <> [] -> (1 <= iters)%nat -> (0 < nt)%nat -> (0 < nb)%nat ->
  let r := analyze_iterative hs jit_of None iters s history (empty_access nt nb) in
  exists ev line, In (EvBest ev line) (r_events r) /\ line <> [].
Proof.
  intros hs jit_of iters s history nt nb HH HL. apply reports_fresh; [|exact HL].
  intros x (m & ns & Hin & Hr) Hg. apply (HeurNT_inside (Reach s) HH x); [|exact Hg].
  clear Hg. induction Hr as [|y m' ny _ IH Hy]; [exact (Reach_step s s m ns (Reach_root s) Hin)|].
  exact (Reach_step s y m' ny IH Hy).
Qed.

(* ... and holds outright for a root with at most ten men *)
Theorem reports_fresh_small : forall hs jit_of iters s history nt nb,
  LegalPos s -> (men s <= 10)%nat -> gen_legal s <> [] -> (1 <= iters)%nat -> (0 < nt)%nat -> (0 < nb)%nat ->
  let r := analyze_iterative hs jit_of None iters s history (empty_access nt nb) in
  exists ev line, In (EvBest ev line) (r_events r) /\ line <> [].
Proof.
  intros hs jit_of iters s history nt nb HL Hm. apply reports_fresh_reach; [|exact HL].
  exact (Reach_small_heur s (conj HL Hm)).
Qed.

(* ------------------------------------------------------------------ *)
(* 5. the residue cannot be dropped                                     *)
(* ------------------------------------------------------------------ *)

(* MateRegion.wall with the black men other than the king removed, Black to move: White K h1, Q a8..h8 and 39
   frozen pawns, Black K a2.  LegalPos holds (it does not bound the number of pawns); Black has five legal moves;
   after each of them the static score is >= 11678 >= 11000 for White, quiescence stands pat at beta = 11000, the
   root never raises alpha = -11000, stores nothing, and the run ends normally without any report. *)
Definition wall_b : state :=
  mkState (mkBoard 72057593970606080 0 0 0 18374686479671623680 128 0 0 0 0 0 256)
          Black false false false false None 0 1.

Theorem reports_counterexample :
  let hx := hasher_of_stream (map N.of_nat (seq 1 1038)) in
  let r := analyze_iterative hx (fun _ _ => 0) None 3 wall_b [] (empty_access 2 4) in
  LegalPos wall_b /\ length (gen_legal wall_b) = 5%nat /\
  r_events r = [EvProgress 1 6] /\ r_outcome r = 0%N.
Proof.
  split; [vm_compute; reflexivity|]. split; [vm_compute; reflexivity|].
  split; vm_compute; reflexivity.
Qed.

Theorem heur_inside_needed :
  ~ (forall hs jit_of iters s history nt nb,
       LegalPos s -> gen_legal s <> [] -> (1 <= iters)%nat -> (0 < nt)%nat -> (0 < nb)%nat ->
       let r := analyze_iterative hs jit_of None iters s history (empty_access nt nb) in
       exists ev line, In (EvBest ev line) (r_events r) /\ line <> []).
Proof.
  intros H. destruct reports_counterexample as (HL & Hlen & Hev & _).
  assert (Hg : gen_legal wall_b <> []) by (intros E; rewrite E in Hlen; discriminate Hlen).
  destruct (H (hasher_of_stream (map N.of_nat (seq 1 1038))) (fun _ _ => 0) 3%nat wall_b [] 2%nat 4%nat
              HL Hg ltac:(lia) ltac:(lia) ltac:(lia)) as (ev & line & Hin & _).
  rewrite Hev in Hin. destruct Hin as [E|[]]. discriminate E.
Qed.

Print Assumptions reports_table.
Print Assumptions reports_fresh_small.
Print Assumptions heur_inside_needed.
Print Assumptions reports_fresh.
