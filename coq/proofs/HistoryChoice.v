(* C17, second sentence, last clause: "... the search still reports a winning terminal evaluation AND DOES NOT
   CHOOSE THE REPEATING MOVE".

   One worker (model/Search.v), no cancellation.  A line reported with a winning terminal evaluation
   (POS_INF <= ev) never starts with a move into a recorded position.

   Why.  Below the root every node whose hash is recorded returns EVEN = 0 at once (history_draw), so
     (1) the root hash itself being recorded (analyze_iterative records it first), NO node below the root ever
         stores under the root hash: the entry found under the root hash is either an entry the root node stored,
         or an older root entry that survived (Keep), or nothing (evicted);
     (2) in the root's move loop a move m into a recorded position gets e = -EVEN = 0; `best`/alpha are replaced
         only when alpha < e and the value finally stored with `best` is that e; a cut-off stores (m, beta1) only
         when beta1 <= e.  So an entry (m, v) stored by the root with POS_INF <= v has 0 < POS_INF <= e(m): m does
         not lead into a recorded position.  This is the invariant RInv of the table, kept by every iteration;
     (3) the value the root call returns is the value of the entry it stored, or (no store) the value of the old
         root entry it used (early return of the probe, or the lower bound a1 of a window narrowed by a LowerBound
         entry, returned unchanged when no move raised it), or a value < POS_INF (the untouched -11000; the static
         value of a root without legal move: -mate or EVEN).  In every case "POS_INF <= returned value" gives
         the property Qs of the move of the entry that the table walk (iter_moves) reads next.
   No NoUse-style premise on the root probe is needed: a usable old root entry is itself covered by RInv.
   No premise on scores is needed.  LegalPos s is used only for the value of a root without legal move. *)
From Coq Require Import NArith ZArith List Bool Lia ZifyBool ZifyN ZifyNat.
From WV Require Import Types Bits Attacks Board MoveEnc MoveGen Text Table Eval Search.
From WV Require Import Rules Abs Wf Encode GameValue.
From WV Require Import BoardProofs GenPawnsNoDup GenLegal TableProofs HashProofs EvalShortcut EvalProofs EvalBound.
From WV Require Import SearchBase SearchProofs SearchSafety SearchMen SearchTop.
From WV Require Import MateValue MateSound MateRegion MateComplete SearchReports.
Import ListNotations.
Import WV.Bits.
Open Scope Z_scope.

Section Choice.
Variable hs : hasher.
Variable history : list N.          (* the history the iterations run with: it contains the root hash *)
Variable s0 : state.                (* the root *)
Hypothesis root_in : in_history history (hash hs s0) = true.

(* ------------------------------------------------------------------ *)
(* 1. below the root nothing is stored under the root hash              *)
(* ------------------------------------------------------------------ *)

(* an entry found under the root hash in tt' was already there in tt *)
Definition Keep (tt tt' : access) : Prop :=
  forall x, acc_find tt' (hash hs s0) = Some x -> acc_find tt (hash hs s0) = Some x.

Definition KR (w w' : wstate) : Prop :=
  tt_ok (w_tt w') /\ Keep (w_tt w) (w_tt w') /\ (w_nodes w <= w_nodes w')%N.

Lemma KR_refl : forall w, tt_ok (w_tt w) -> KR w w.
Proof. intros w H. split; [exact H|]. split; [intros x Hx; exact Hx|lia]. Qed.

Lemma KR_trans : forall w1 w2 w3, KR w1 w2 -> KR w2 w3 -> KR w1 w3.
Proof.
  intros w1 w2 w3 (_ & K12 & N12) (O3 & K23 & N23). split; [exact O3|].
  split; [intros x Hx; exact (K12 x (K23 x Hx))|lia].
Qed.

Lemma not_recorded_ne : forall h, in_history history h = false -> h <> hash hs s0.
Proof. intros h H E. rewrite E, root_in in H. discriminate H. Qed.

Lemma KR_insert : forall w0 w h e, KR w0 w -> h <> hash hs s0 ->
  KR w0 (mkW (acc_insert (w_tt w) h e) (w_jidx w) (w_nodes w) (w_gnodes w) (w_flag w) (w_trace w)).
Proof.
  intros w0 w h e (Ok & K & Nn) Hne. cbn [KR w_tt w_nodes]. unfold KR. cbn [w_tt w_nodes].
  split; [apply tt_ok_insert; exact Ok|]. split; [|exact Nn].
  intros x Hx. destruct (acc_find_insert_cases _ _ _ _ _ Ok Hx) as [[E _]|[_ Hold]].
  - exfalso. apply Hne. symmetry. exact E.
  - exact (K x Hold).
Qed.

(* a call below the root: the table relation, the node count grows, a recorded position returns EVEN *)
Definition kpost (s : state) (w : wstate) (r : sres Z) : Prop :=
  match r with
  | SVal v w' => KR w w' /\ (w_nodes w < w_nodes w')%N /\ (in_history history (hash hs s) = true -> v = EVEN)
  | _ => True
  end.

Definition krec (rec : rec_t) : Prop :=
  forall ns md cd ce a b w, (0 < cd)%N -> tt_ok (w_tt w) -> kpost ns w (rec ns md cd ce a b None w).

Definition klpost (w0 : wstate) (r : sres Z) : Prop :=
  match r with SVal _ w' => KR w0 w' | _ => True end.

Lemma keep_loop : forall (rec : rec_t), krec rec ->
  forall s h md cd ce ext beta1 prev, h <> hash hs s0 ->
  forall l alpha best kind w0 w, KR w0 w ->
  klpost w0 (loop_body rec s h md cd ce ext beta1 prev l alpha best kind w).
Proof.
  intros rec Hrec s h md cd ce ext beta1 prev Hne l.
  induction l as [|m tl IH]; intros alpha best kind w0 w HR; cbn [loop_body].
  - destruct (prev =? w_nodes w)%N.
    + unfold eval_or_panic. destruct (evaluate s (st_turn s) cd); [exact HR|exact Logic.I].
    + destruct best as [bm|]; [|exact HR]. cbn [klpost]. apply KR_insert; assumption.
  - destruct (apply_move s m) as [ns|]; [|exact Logic.I].
    destruct (any _).
    + apply IH; exact HR.
    + pose proof (Hrec ns (md + ext)%N (cd + 1 + ext)%N (ce + ext)%N (- beta1) (- alpha) w
                    ltac:(lia) (proj1 HR)) as Hc.
      destruct (rec ns (md + ext)%N (cd + 1 + ext)%N (ce + ext)%N (- beta1) (- alpha) None w) as [r w'|w'|site|];
        cbn [kpost] in Hc; [|exact Logic.I|exact Logic.I|exact Logic.I].
      destruct Hc as (Hk & _ & _). pose proof (KR_trans _ _ _ HR Hk) as HR'.
      cbv zeta. destruct (beta1 <=? - r).
      * cbn [klpost]. apply KR_insert; assumption.
      * destruct (alpha <? - r); apply IH; exact HR'.
Qed.

Lemma keep_node : forall jit cancel (rec : rec_t), krec rec ->
  forall s md cd ce a b prio w, (0 < cd)%N -> tt_ok (w_tt w) ->
  kpost s w (node_body hs history jit cancel rec s md cd ce a b prio w).
Proof.
  intros jit cancel rec Hrec s md cd ce a b prio w Hcd Hok. unfold node_body.
  destruct (snd (enter_node cancel w)); [exact Logic.I|]. cbv zeta.
  set (w1 := with_trace (fst (enter_node cancel w)) (hash hs s, cd, md, a, b)).
  assert (Hn1 : w_nodes w1 = (w_nodes w + 1)%N) by reflexivity.
  assert (Ht1 : w_tt w1 = w_tt w) by reflexivity.
  assert (HR1 : KR w w1).
  { split; [rewrite Ht1; exact Hok|]. split; [intros x Hx; rewrite Ht1 in Hx; exact Hx|lia]. }
  apply N.ltb_lt in Hcd. rewrite Hcd. cbn [andb].
  destruct (in_history history (hash hs s)) eqn:Hh.
  - cbn [kpost]. split; [exact HR1|]. split; [lia|]. reflexivity.
  - pose proof (not_recorded_ne _ Hh) as Hne.
    assert (Hfin : forall v, kpost s w (SVal v w1)).
    { intros v. cbn [kpost]. split; [exact HR1|]. split; [lia|]. intros E. rewrite Hh in E. discriminate E. }
    unfold node_continue.
    destruct (probe (w_tt w1) (hash hs s) md cd a b) as [v|a1 b1|site]; [apply Hfin| |exact Logic.I].
    destruct (md <=? cd)%N.
    + destruct (quiesce (S (men s)) s cd a1 b1); [apply Hfin|exact Logic.I|exact Logic.I].
    + set (wj := with_jidx w1 (drawn_count s)).
      assert (Hnj : w_nodes wj = (w_nodes w + 1)%N) by reflexivity.
      assert (HRj : KR w wj).
      { split; [exact (proj1 HR1)|]. split; [exact (proj1 (proj2 HR1))|lia]. }
      pose proof (keep_loop rec Hrec s (hash hs s) md cd ce (node_ext s ce) b1 (w_nodes w1) Hne
                    (ordered_moves jit s (w_jidx w1) prio) a1 None UpperBound wj wj (KR_refl wj (proj1 HRj))) as Hl.
      destruct (loop_body rec s (hash hs s) md cd ce (node_ext s ce) b1 (w_nodes w1)
                  (ordered_moves jit s (w_jidx w1) prio) a1 None UpperBound wj) as [v w'|w'|site|];
        cbn [klpost] in Hl; cbn [kpost]; [|exact Logic.I|exact Logic.I|exact Logic.I].
      split; [exact (KR_trans _ _ _ HRj Hl)|]. split; [destruct Hl as (_ & _ & Hl); lia|].
      intros E. rewrite Hh in E. discriminate E.
Qed.

Lemma keep_analyze : forall jit cancel fuel, krec (analyze hs history jit cancel fuel).
Proof.
  intros jit cancel. induction fuel as [|k IH]; intros ns md cd ce a b w Hcd Hok; [exact Logic.I|].
  rewrite analyze_S. apply keep_node; assumption.
Qed.

(* ------------------------------------------------------------------ *)
(* 2. the root                                                          *)
(* ------------------------------------------------------------------ *)

Hypothesis HL0 : LegalPos s0.

(* the root move m does not lead into a recorded position *)
Definition Qs (m : N) : Prop :=
  forall ns, apply_move s0 m = Some ns -> in_history history (hash hs ns) = false.

(* an entry under the root hash: a winning terminal value goes with a move that does not repeat *)
Definition Q (e : entry) : Prop := POS_INF <= e_eval e -> Qs (e_move e).

Definition RInv (tt : access) : Prop := forall e, acc_find tt (hash hs s0) = Some e -> Q e.

Definition rpost (r : sres Z) : Prop :=
  match r with
  | SVal ev w' =>
      tt_ok (w_tt w') /\ RInv (w_tt w') /\
      (POS_INF <= ev -> forall e, acc_find (w_tt w') (hash hs s0) = Some e -> Qs (e_move e))
  | _ => True
  end.

Lemma RInv_keep : forall tt tt', RInv tt -> Keep tt tt' -> RInv tt'.
Proof. intros tt tt' H K e He. exact (H e (K e He)). Qed.

Lemma RInv_insert : forall tt e, tt_ok tt -> Q e -> RInv (acc_insert tt (hash hs s0) e).
Proof.
  intros tt e Hok Hq x Hx. rewrite (acc_find_insert_same tt (hash hs s0) e Hok) in Hx.
  injection Hx as <-. exact Hq.
Qed.

(* the static value of a root without legal move is not a winning terminal value *)
Lemma eval_nomove_small : forall d v, gen_legal s0 = [] -> evaluate s0 (st_turn s0) d = EVal v -> v < POS_INF.
Proof.
  intros d v Hg E. assert (HP : POS_INF = 10000) by reflexivity. assert (HN : NEG_INF = -10000) by reflexivity.
  destruct (is_check s0) eqn:Ec.
  - rewrite (eval_mate s0 _ d HL0 Hg Ec), BoardProofs.color_eqb_refl in E. injection E as <-.
    destruct (mate_scores d) as (_ & H2 & _). lia.
  - rewrite (eval_stalemate s0 _ d HL0 Hg Ec) in E. injection E as <-. unfold EVEN. lia.
Qed.

(* a1 = the window's lower bound after the probe; tt0 = the table when the root node is entered *)
Lemma root_loop : forall (rec : rec_t), krec rec ->
  forall md cd ce ext a1 beta1 prev tt0, RInv tt0 ->
  (POS_INF <= a1 -> forall e, acc_find tt0 (hash hs s0) = Some e -> Qs (e_move e)) ->
  forall l alpha best kind w,
    tt_ok (w_tt w) -> Keep tt0 (w_tt w) -> (prev <= w_nodes w)%N ->
    (best = None -> alpha = a1) ->
    (forall bm, best = Some bm -> POS_INF <= alpha -> Qs bm) ->
    ((prev < w_nodes w)%N \/ forall m ns, In (m, ns) (gen_legal s0) -> In m l) ->
    rpost (loop_body rec s0 (hash hs s0) md cd ce ext beta1 prev l alpha best kind w).
Proof.
  intros rec Hrec md cd ce ext a1 beta1 prev tt0 HI0 Ha1 l.
  assert (HP : POS_INF = 10000) by reflexivity.
  induction l as [|m tl IH]; intros alpha best kind w Hok HK Hpn Hnone Hbest Hcov; cbn [loop_body].
  - destruct (prev =? w_nodes w)%N eqn:Hpw.
    + apply N.eqb_eq in Hpw.
      assert (Hnil : gen_legal s0 = []).
      { destruct Hcov as [Hc|Hc]; [lia|]. destruct (gen_legal s0) as [|[m0 ns0] tl0]; [reflexivity|].
        destruct (Hc m0 ns0 (or_introl eq_refl)). }
      unfold eval_or_panic. destruct (evaluate s0 (st_turn s0) cd) as [v|] eqn:Ee; [|exact Logic.I].
      cbn [rpost]. split; [exact Hok|]. split; [exact (RInv_keep _ _ HI0 HK)|].
      intros Hv. pose proof (eval_nomove_small cd v Hnil Ee). lia.
    + destruct best as [bm|].
      * cbn [rpost w_tt]. split; [apply tt_ok_insert; exact Hok|].
        split; [apply RInv_insert; [exact Hok|]; unfold Q; cbn [e_eval e_move]; exact (Hbest bm eq_refl)|].
        intros Hv e He. rewrite (acc_find_insert_same _ (hash hs s0) _ Hok) in He. injection He as <-.
        cbn [e_move]. exact (Hbest bm eq_refl Hv).
      * cbn [rpost]. split; [exact Hok|]. split; [exact (RInv_keep _ _ HI0 HK)|].
        intros Hv e He. rewrite (Hnone eq_refl) in Hv. exact (Ha1 Hv e (HK e He)).
  - destruct (apply_move s0 m) as [ns|] eqn:Ha; [|exact Logic.I].
    fold (king_hit s0 ns). destruct (king_hit s0 ns) eqn:Hk.
    + apply IH; try assumption.
      destruct Hcov as [Hc|Hc]; [left; exact Hc|]. right. intros m' ns' Hg'.
      destruct (Hc m' ns' Hg') as [<-|Hin']; [|exact Hin'].
      exfalso. exact (gen_legal_hit_false s0 m ns' ns Hg' Ha Hk).
    + pose proof (Hrec ns (md + ext)%N (cd + 1 + ext)%N (ce + ext)%N (- beta1) (- alpha) w ltac:(lia) Hok) as Hc.
      destruct (rec ns (md + ext)%N (cd + 1 + ext)%N (ce + ext)%N (- beta1) (- alpha) None w) as [r w'|w'|site|];
        cbn [kpost] in Hc; [|exact Logic.I|exact Logic.I|exact Logic.I].
      destruct Hc as ((Hok' & HK' & Hn') & Hlt' & Hev).
      assert (HK2 : Keep tt0 (w_tt w')) by (intros x Hx; exact (HK x (HK' x Hx))).
      (* a value e = -r that is a winning terminal value: m does not lead into a recorded position *)
      assert (Hm : POS_INF <= - r -> Qs m).
      { intros Hr ns' Ha'. rewrite Ha in Ha'. injection Ha' as <-.
        destruct (in_history history (hash hs ns)) eqn:Hh; [|reflexivity].
        pose proof (Hev eq_refl) as E. unfold EVEN in E. lia. }
      cbv zeta. destruct (beta1 <=? - r) eqn:Hcut.
      * apply Z.leb_le in Hcut. cbn [rpost w_tt].
        assert (Hq : POS_INF <= beta1 -> Qs m) by (intros Hb; apply Hm; lia).
        split; [apply tt_ok_insert; exact Hok'|].
        split; [apply RInv_insert; [exact Hok'|]; unfold Q; cbn [e_eval e_move]; exact Hq|].
        intros Hv e He. rewrite (acc_find_insert_same _ (hash hs s0) _ Hok') in He. injection He as <-.
        cbn [e_move]. exact (Hq Hv).
      * destruct (alpha <? - r) eqn:Hr2.
        -- apply IH; [exact Hok'|exact HK2|lia|intros E; discriminate E| |left; lia].
           intros bm E. injection E as <-. exact Hm.
        -- apply IH; [exact Hok'|exact HK2|lia|exact Hnone|exact Hbest|left; lia].
Qed.

(* the probe of a table with RInv under the root hash: a winning terminal value that comes out of it (early
   return, or raised lower bound) is the value of the entry found *)
Lemma probe_root : forall tt md cd a b, RInv tt -> a < POS_INF ->
  match probe tt (hash hs s0) md cd a b with
  | PEarly v => POS_INF <= v -> forall e, acc_find tt (hash hs s0) = Some e -> Qs (e_move e)
  | PWindow a1 _ => POS_INF <= a1 -> forall e, acc_find tt (hash hs s0) = Some e -> Qs (e_move e)
  | PPanic _ => True
  end.
Proof.
  intros tt md cd a b HI Ha. unfold probe.
  destruct (acc_find tt (hash hs s0)) as [e|] eqn:Ef; [|intros H; lia].
  pose proof (HI e Ef) as Hq. unfold Q in Hq.
  assert (Hsame : POS_INF <= e_eval e -> forall e', Some e = Some e' -> Qs (e_move e')).
  { intros H e' E. injection E as <-. exact (Hq H). }
  destruct (md <? cd)%N; [exact Logic.I|]. destruct (e_maxdepth e <? e_depth e)%N; [exact Logic.I|].
  destruct (md - cd <=? e_maxdepth e - e_depth e)%N; [|intros H; lia].
  destruct (e_kind e).
  - exact Hsame.
  - cbv zeta. destruct (Z.min b (e_eval e) <=? a); [exact Hsame|intros H; lia].
  - cbv zeta. destruct (b <=? Z.max a (e_eval e)); [exact Hsame|].
    intros H. apply Hsame. lia.
Qed.

Lemma root_node : forall jit cancel (rec : rec_t), krec rec ->
  forall md ce a b prio w, (0 < md)%N -> a < POS_INF -> tt_ok (w_tt w) -> RInv (w_tt w) ->
  rpost (node_body hs history jit cancel rec s0 md 0 ce a b prio w).
Proof.
  intros jit cancel rec Hrec md ce a b prio w Hmd Ha Hok HI. unfold node_body.
  destruct (snd (enter_node cancel w)); [exact Logic.I|]. cbv zeta.
  set (w1 := with_trace (fst (enter_node cancel w)) (hash hs s0, 0%N, md, a, b)).
  assert (Ht1 : w_tt w1 = w_tt w) by reflexivity.
  rewrite N.ltb_irrefl. cbn [andb]. unfold node_continue. rewrite Ht1.
  pose proof (probe_root (w_tt w) md 0%N a b HI Ha) as Hp.
  destruct (probe (w_tt w) (hash hs s0) md 0 a b) as [v|a1 b1|site]; [| |exact Logic.I].
  - cbn [rpost]. rewrite Ht1. split; [exact Hok|]. split; [exact HI|exact Hp].
  - destruct (md <=? 0)%N eqn:Hq; [apply N.leb_le in Hq; lia|].
    apply (root_loop rec Hrec md 0%N ce (node_ext s0 ce) a1 b1 (w_nodes w1) (w_tt w) HI Hp).
    + exact Hok.
    + intros x Hx. exact Hx.
    + cbn [with_jidx w_nodes]. lia.
    + intros _. reflexivity.
    + intros bm E. discriminate E.
    + right. intros m ns Hin. apply ordered_moves_complete. exact (proj1 (gen_legal_not_hit s0 m ns Hin)).
Qed.

Lemma root_analyze : forall jit cancel fuel md ce a b prio w,
  (0 < md)%N -> a < POS_INF -> tt_ok (w_tt w) -> RInv (w_tt w) ->
  rpost (analyze hs history jit cancel fuel s0 md 0 ce a b prio w).
Proof.
  intros jit cancel fuel md ce a b prio w Hmd Ha Hok HI. destruct fuel as [|k]; [exact Logic.I|].
  rewrite analyze_S. apply root_node; try assumption. apply keep_analyze.
Qed.

End Choice.

(* ------------------------------------------------------------------ *)
(* 3. the iterative driver                                              *)
(* ------------------------------------------------------------------ *)

(* every report with a winning terminal evaluation starts with a move that does not repeat *)
Definition EvGood (hs : hasher) (hist : list N) (s : state) (l : list event) : Prop :=
  forall ev mv tl, In (EvBest ev (mv :: tl)) l -> POS_INF <= ev -> Qs hs hist s mv.

Lemma EvGood_rev : forall hs hist s l, EvGood hs hist s l -> EvGood hs hist s (rev l).
Proof. intros hs hist s l H ev mv tl Hin. apply in_rev in Hin. exact (H ev mv tl Hin). Qed.

Lemma EvGood_progress : forall hs hist s d n l, EvGood hs hist s l -> EvGood hs hist s (EvProgress d n :: l).
Proof. intros hs hist s d n l H ev mv tl [E|Hin]; [discriminate E|exact (H ev mv tl Hin)]. Qed.

(* the first move of the table walk is the move of the entry under the root hash *)
Lemma iter_moves_head : forall hs k tt s depth mv tl,
  iter_moves hs (S k) tt s 0%N depth = mv :: tl ->
  exists e, acc_find tt (hash hs s) = Some e /\ mv = e_move e.
Proof.
  intros hs k tt s depth mv tl E. cbn [iter_moves] in E.
  rewrite (proj2 (N.ltb_ge depth 0) (N.le_0_l depth)) in E.
  destruct (acc_find tt (hash hs s)) as [e|]; [|discriminate E].
  destruct (apply_move s (e_move e)) as [n|]; [|discriminate E].
  injection E as E _. exists e. split; [reflexivity|symmetry; exact E].
Qed.

Lemma iterate_choice : forall hs jit_of s hist, LegalPos s -> in_history hist (hash hs s) = true ->
  forall iters depth tt gnodes trace nt be bm acc,
  tt_ok tt -> RInv hs hist s tt -> EvGood hs hist s acc ->
  EvGood hs hist s (r_events (iterate hs jit_of None iters depth s hist tt gnodes false trace nt be bm acc)).
Proof.
  intros hs jit_of s hist HL Hroot iters. induction iters as [|k IH];
    intros depth tt gnodes trace nt be bm acc Hok HI Hacc; cbn [iterate].
  - cbn [r_events]. apply EvGood_rev. exact Hacc.
  - rewrite andb_false_r. cbv zeta.
    set (w0 := mkW tt 0 0 gnodes false trace).
    assert (HM : - mate_in_ply 0 < POS_INF) by (vm_compute; reflexivity).
    pose proof (root_analyze hs hist s Hroot HL (jit_of depth) None (S (S (N.to_nat depth))) (depth + 1)%N 0%N
                  (- mate_in_ply 0) (mate_in_ply 0) bm w0 ltac:(lia) HM Hok HI) as Hr.
    pose proof (no_interrupt hs hist (jit_of depth) (S (S (N.to_nat depth))) s (depth + 1)%N 0%N 0%N
                  (- mate_in_ply 0) (mate_in_ply 0) bm w0 eq_refl) as Hni.
    destruct (analyze hs hist (jit_of depth) None (S (S (N.to_nat depth))) s (depth + 1)%N 0%N 0%N
                      (- mate_in_ply 0) (mate_in_ply 0) bm w0) as [ev w|w|site|].
    + cbn [rpost] in Hr. destruct Hr as (Hok' & HI' & Hwin).
      destruct (iter_moves hs (S (S (N.to_nat depth))) (w_tt w) s 0%N depth) as [|mv tl] eqn:El.
      * cbn [r_events]. apply EvGood_rev. apply EvGood_progress. exact Hacc.
      * destruct (iter_moves_head hs _ (w_tt w) s depth mv tl El) as (e & Ef & Emv).
        assert (Hacc2 : EvGood hs hist s (EvBest ev (mv :: tl) :: EvProgress (depth + 1)%N (nt + w_nodes w)%N :: acc)).
        { intros ev' mv' tl' [E|Hin] Hv.
          - injection E as <- <- _. rewrite Emv. exact (Hwin Hv e Ef).
          - exact (EvGood_progress hs hist s _ _ acc Hacc ev' mv' tl' Hin Hv). }
        destruct (POS_INF <=? ev).
        { cbn [r_events]. apply EvGood_rev. exact Hacc2. }
        rewrite Hni. apply IH; assumption.
    + destruct Hni.
    + cbn [r_events]. apply EvGood_rev. exact Hacc.
    + cbn [r_events]. apply EvGood_rev. exact Hacc.
Qed.

Lemma RInv_empty : forall hs hist s nt nb, (0 < nt)%nat -> (0 < nb)%nat -> RInv hs hist s (empty_access nt nb).
Proof. intros hs hist s nt nb Hnt Hnb e H. pose proof (empty_refines nt nb Hnt Hnb _ e H) as H1. discriminate H1. Qed.

(* ------------------------------------------------------------------ *)
(* 4. final forms                                                       *)
(* ------------------------------------------------------------------ *)

(* a reused table: well-formed, and whatever it holds under the root hash satisfies Q (a winning terminal value
   goes with a move that does not lead into a position of the history with the root recorded) *)
Theorem repeating_move_not_chosen_table : forall hs jit_of iters s history tt ev mv tl,
  LegalPos s -> tt_ok tt -> RInv hs (root_history hs s history) s tt ->
  let r := analyze_iterative hs jit_of None iters s history tt in
  In (EvBest ev (mv :: tl)) (r_events r) -> POS_INF <= ev ->
  forall ns, apply_move s mv = Some ns -> in_history (root_history hs s history) (hash hs ns) = false.
Proof.
  intros hs jit_of iters s history tt ev mv tl HL Hok HI. cbv zeta.
  destruct (root_recorded hs jit_of None iters s history tt) as (E & Hroot & _). rewrite E.
  intros Hin Hev.
  refine (iterate_choice hs jit_of s (root_history hs s history) HL Hroot iters 0%N tt 0%N [] 0%N NEG_INF None []
            Hok HI _ ev mv tl Hin Hev).
  intros ev' mv' tl' [].
Qed.

(* the fresh table *)
Theorem repeating_move_not_chosen : forall hs jit_of iters s history nt nb ev mv tl,
  LegalPos s -> (0 < nt)%nat -> (0 < nb)%nat ->
  let r := analyze_iterative hs jit_of None iters s history (empty_access nt nb) in
  In (EvBest ev (mv :: tl)) (r_events r) -> POS_INF <= ev ->
  forall ns, apply_move s mv = Some ns -> in_history (root_history hs s history) (hash hs ns) = false.
Proof.
  intros hs jit_of iters s history nt nb ev mv tl HL Hnt Hnb.
  exact (repeating_move_not_chosen_table hs jit_of iters s history (empty_access nt nb) ev mv tl HL
           (tt_ok_empty nt nb Hnt Hnb) (RInv_empty hs _ s nt nb Hnt Hnb)).
Qed.

(* in terms of the caller's history: the first move of such a line leads neither back to the root position nor
   into a position recorded before the call *)
Corollary repeating_move_not_chosen_history : forall hs jit_of iters s history nt nb ev mv tl,
  LegalPos s -> (0 < nt)%nat -> (0 < nb)%nat ->
  let r := analyze_iterative hs jit_of None iters s history (empty_access nt nb) in
  In (EvBest ev (mv :: tl)) (r_events r) -> POS_INF <= ev ->
  forall ns, apply_move s mv = Some ns ->
  in_history history (hash hs ns) = false /\ hash hs ns <> hash hs s.
Proof.
  intros hs jit_of iters s history nt nb ev mv tl HL Hnt Hnb. cbv zeta. intros Hin Hev ns Ha.
  pose proof (repeating_move_not_chosen hs jit_of iters s history nt nb ev mv tl HL Hnt Hnb Hin Hev ns Ha) as H.
  destruct (root_recorded hs jit_of None iters s history (empty_access nt nb)) as (_ & Hroot & Hsub & _).
  split.
  - destruct (in_history history (hash hs ns)) eqn:Hh; [|reflexivity].
    rewrite (Hsub _ Hh) in H. discriminate H.
  - intros E. rewrite E, Hroot in H. discriminate H.
Qed.

(* ------------------------------------------------------------------ *)
(* 5. a concrete run (non-vacuity)                                      *)
(* ------------------------------------------------------------------ *)

(* White Kf6 Ra1, Black Kh8, White to move ("7k/8/5K2/8/8/8/8/R7 w - - 0 1", MateCompleteEx.kr2): mate in three
   plies by 1.Kf7 (move 268490454, the move the run from the empty history reports with 10700: MateCompleteEx.
   kr2_found) or by 1.Kg6 (move 268483286).  With the position after 1.Kf7 (hash 1885) recorded, the depth-3 run
   still reports 10700 >= POS_INF, and the line starts with 1.Kg6, whose successor (hash 1773) is not recorded. *)
Example repeating_move_example :
  let hx := hasher_of_stream (map N.of_nat (seq 1 1038)) in
  let kr := mkState (mkBoard 0 0 0 1 0 (N.shiftl 1 45) 0 0 0 0 0 (N.shiftl 1 63))%N
                    White false false false false None 0%N 1%N in
  let succ_hash m := match apply_move kr m with Some n => Some (hash hx n) | None => None end in
  let r := analyze_iterative hx (fun _ _ => 0) None 3 kr [1885%N] (empty_access 2 4) in
  LegalPos kr /\ hash hx kr = 1758%N /\ succ_hash 268490454%N = Some 1885%N /\
  r_events r = [EvProgress 1 22; EvBest 620 [268473046%N]; EvProgress 2 66; EvBest 588 [268473046%N; 56310%N];
                EvProgress 3 429; EvBest 10700 [268483286%N]] /\
  (POS_INF <=? 10700) = true /\ succ_hash 268483286%N = Some 1773%N /\
  in_history (root_history hx kr [1885%N]) 1773%N = false.
Proof.
  split; [vm_compute; reflexivity|]. vm_compute. repeat split.
Qed.

Print Assumptions repeating_move_not_chosen_table.
Print Assumptions repeating_move_not_chosen.
Print Assumptions repeating_move_not_chosen_history.
