(* Rely/guarantee for programs over a shared transposition table, for EVERY schedule and ANY number of
   workers (model/Conc.v).

     sat R G Q p : whatever `find` answers - as long as every entry it returns under key h satisfies R h -
                   every entry p inserts under key h satisfies G h, and p's result satisfies Q.
     TabR R tt   : the table is well formed and every entry found in it satisfies R.

   If G implies R, workers that each satisfy `sat R G Q` can be interleaved in any order on a table
   satisfying TabR R: the table satisfies TabR R at every moment, every worker's result satisfies Q
   (run_workers_sat).  No fairness or atomicity beyond "one table operation at a time" is assumed, which is
   what the RwLock of each sub-table provides. *)
From Coq Require Import NArith ZArith List Bool Lia.
From WV Require Import Types Bits Attacks Board MoveEnc MoveGen Text Table Eval Search Conc Wf.
From WV Require Import SearchBase SearchProofs ConcSeq.
Import ListNotations.
Open Scope N_scope.

Inductive sat {A : Type} (R G : N -> entry -> Prop) (Q : A -> Prop) : prog A -> Prop :=
| sat_ret : forall a, Q a -> sat R G Q (Ret a)
| sat_find : forall h k, (forall r, (forall e, r = Some e -> R h e) -> sat R G Q (k r)) -> sat R G Q (Find h k)
| sat_ins : forall h e k, G h e -> sat R G Q k -> sat R G Q (Insert h e k).

Lemma sat_bind : forall A B (R G : N -> entry -> Prop) (Q1 : A -> Prop) (Q2 : B -> Prop) (p : prog A) (f : A -> prog B),
  sat R G Q1 p -> (forall a, Q1 a -> sat R G Q2 (f a)) -> sat R G Q2 (bind p f).
Proof.
  intros A B R G Q1 Q2 p f Hp Hf. induction Hp as [a Ha|h k _ IH|h e k Hg _ IH]; cbn [bind].
  - exact (Hf a Ha).
  - apply sat_find. intros r Hr. exact (IH r Hr).
  - apply sat_ins; [exact Hg|exact IH].
Qed.

(* a weaker rely, a stronger guarantee and a stronger postcondition can be traded *)
Lemma sat_mono : forall A (R R' G G' : N -> entry -> Prop) (Q Q' : A -> Prop) (p : prog A),
  (forall h e, R' h e -> R h e) -> (forall h e, G h e -> G' h e) -> (forall a, Q a -> Q' a) ->
  sat R G Q p -> sat R' G' Q' p.
Proof.
  intros A R R' G G' Q Q' p HR HG HQ Hp. induction Hp as [a Ha|h k _ IH|h e k Hg _ IH].
  - apply sat_ret. exact (HQ a Ha).
  - apply sat_find. intros r Hr. apply IH. intros e E. exact (HR h e (Hr e E)).
  - apply sat_ins; [exact (HG h e Hg)|exact IH].
Qed.

Section RG.
Context {A : Type}.
Variable R G : N -> entry -> Prop.
Variable Q : A -> Prop.
Hypothesis G_R : forall h e, G h e -> R h e.

Definition TabR (tt : access) : Prop := tt_ok tt /\ forall h e, acc_find tt h = Some e -> R h e.

Lemma TabR_insert : forall tt h e, TabR tt -> G h e -> TabR (acc_insert tt h e).
Proof.
  intros tt h e [Hok Hall] Hg. split; [apply tt_ok_insert; exact Hok|].
  intros h2 x Hf. destruct (acc_find_insert_cases _ _ _ _ _ Hok Hf) as [[-> ->]|[_ Hold]].
  - exact (G_R h e Hg).
  - exact (Hall h2 x Hold).
Qed.

Lemma step1_sat : forall (p : prog A) tt, sat R G Q p -> TabR tt ->
  sat R G Q (fst (step1 p tt)) /\ TabR (snd (step1 p tt)).
Proof.
  intros p tt Hp HT. destruct Hp as [a Ha|h k Hk|h e k Hg Hk]; cbn [step1 fst snd].
  - split; [apply sat_ret; exact Ha|exact HT].
  - split; [|exact HT]. apply Hk. intros e E. exact (proj2 HT h e E).
  - split; [exact Hk|]. apply TabR_insert; assumption.
Qed.

Lemma step_nth_sat : forall (ws : list (prog A)) c tt, Forall (sat R G Q) ws -> TabR tt ->
  Forall (sat R G Q) (fst (step_nth ws c tt)) /\ TabR (snd (step_nth ws c tt)) /\
  length (fst (step_nth ws c tt)) = length ws.
Proof.
  induction ws as [|p tl IH]; intros c tt Hws HT; cbn [step_nth].
  - cbn [fst snd]. split; [constructor|]. split; [exact HT|reflexivity].
  - inversion Hws as [|p' tl' Hp Htl]; subst p' tl'.
    destruct (finished p).
    + specialize (IH c tt Htl HT). destruct (step_nth tl c tt) as [tl1 tt1]. cbn [fst snd length] in IH |- *.
      destruct IH as (H1 & H2 & H3). split; [constructor; assumption|]. split; [exact H2|]. rewrite H3. reflexivity.
    + destruct c as [|c'].
      * pose proof (step1_sat p tt Hp HT) as [H1 H2]. destruct (step1 p tt) as [p1 tt1]. cbn [fst snd length] in H1, H2 |- *.
        split; [constructor; assumption|]. split; [exact H2|reflexivity].
      * specialize (IH c' tt Htl HT). destruct (step_nth tl c' tt) as [tl1 tt1]. cbn [fst snd length] in IH |- *.
        destruct IH as (H1 & H2 & H3). split; [constructor; assumption|]. split; [exact H2|]. rewrite H3. reflexivity.
Qed.

Lemma run_sched_sat : forall sched (ws : list (prog A)) tt, Forall (sat R G Q) ws -> TabR tt ->
  let '(ws', tt', _) := run_sched sched ws tt in
  Forall (sat R G Q) ws' /\ TabR tt' /\ length ws' = length ws.
Proof.
  induction sched as [|c rest IH]; intros ws tt Hws HT; cbn [run_sched].
  - split; [exact Hws|]. split; [exact HT|reflexivity].
  - destruct (unfinished ws) as [|m].
    + split; [exact Hws|]. split; [exact HT|reflexivity].
    + pose proof (step_nth_sat ws (N.to_nat (c mod N.of_nat (S m))) tt Hws HT) as (H1 & H2 & H3).
      destruct (step_nth ws (N.to_nat (c mod N.of_nat (S m))) tt) as [ws1 tt1]. cbn [fst snd] in H1, H2, H3.
      specialize (IH ws1 tt1 H1 H2). destruct (run_sched rest ws1 tt1) as [[ws2 tt2] r2].
      destruct IH as (K1 & K2 & K3). split; [exact K1|]. split; [exact K2|]. rewrite K3. exact H3.
Qed.

Lemma run_seq_sat : forall (p : prog A) tt, sat R G Q p -> TabR tt ->
  Q (fst (run_seq p tt)) /\ TabR (snd (run_seq p tt)).
Proof.
  intros p tt Hp. revert tt. induction Hp as [a Ha|h k _ IH|h e k Hg _ IH]; intros tt HT; cbn [run_seq].
  - cbn [fst snd]. split; assumption.
  - apply IH; [|exact HT]. intros e E. exact (proj2 HT h e E).
  - apply IH. apply TabR_insert; assumption.
Qed.

Lemma finish_all_sat : forall (ws : list (prog A)) tt, Forall (sat R G Q) ws -> TabR tt ->
  Forall Q (fst (finish_all ws tt)) /\ TabR (snd (finish_all ws tt)) /\ length (fst (finish_all ws tt)) = length ws.
Proof.
  induction ws as [|p tl IH]; intros tt Hws HT; cbn [finish_all].
  - cbn [fst snd]. split; [constructor|]. split; [exact HT|reflexivity].
  - inversion Hws as [|p' tl' Hp Htl]; subst p' tl'.
    pose proof (run_seq_sat p tt Hp HT) as [H1 H2]. destruct (run_seq p tt) as [a tt1]. cbn [fst snd] in H1, H2.
    specialize (IH tt1 Htl H2). destruct (finish_all tl tt1) as [rs tt2]. cbn [fst snd length] in IH |- *.
    destruct IH as (K1 & K2 & K3). split; [constructor; assumption|]. split; [exact K2|]. rewrite K3. reflexivity.
Qed.

(* EVERY schedule, ANY number of workers *)
Theorem run_workers_sat : forall sched (ws : list (prog A)) tt, Forall (sat R G Q) ws -> TabR tt ->
  let '(rs, tt', _) := run_workers sched ws tt in
  Forall Q rs /\ TabR tt' /\ length rs = length ws.
Proof.
  intros sched ws tt Hws HT. unfold run_workers.
  pose proof (run_sched_sat sched ws tt Hws HT) as H.
  destruct (run_sched sched ws tt) as [[ws1 tt1] rest]. destruct H as (H1 & H2 & H3).
  pose proof (finish_all_sat ws1 tt1 H1 H2) as K. destruct (finish_all ws1 tt1) as [rs tt2]. cbn [fst snd] in K.
  destruct K as (K1 & K2 & K3). split; [exact K1|]. split; [exact K2|]. rewrite K3. exact H3.
Qed.

End RG.

(* one worker alone: the schedule is irrelevant *)
Lemma run_seq_step1 : forall A (p : prog A) tt, run_seq (fst (step1 p tt)) (snd (step1 p tt)) = run_seq p tt.
Proof. intros A p tt. destruct p; reflexivity. Qed.

Lemma run_sched_single : forall A sched (p : prog A) tt,
  exists p' tt' rest, run_sched sched [p] tt = ([p'], tt', rest) /\ run_seq p' tt' = run_seq p tt.
Proof.
  intros A. induction sched as [|c rest IH]; intros p tt; cbn [run_sched].
  - exists p, tt, []. split; reflexivity.
  - unfold unfinished. cbn [filter]. destruct (finished p) eqn:Hf; cbn [negb length].
    + exists p, tt, (c :: rest). split; reflexivity.
    + replace (N.to_nat (c mod N.of_nat 1)) with O by (rewrite N.mod_1_r; reflexivity).
      cbn [step_nth]. rewrite Hf. destruct (step1 p tt) as [p1 tt1] eqn:E.
      destruct (IH p1 tt1) as (p' & tt' & r' & H1 & H2). exists p', tt', r'. split; [exact H1|].
      rewrite H2. pose proof (run_seq_step1 A p tt) as H. rewrite E in H. exact H.
Qed.

Theorem run_workers_single : forall A sched (p : prog A) tt,
  exists rest, run_workers sched [p] tt = ([fst (run_seq p tt)], snd (run_seq p tt), rest).
Proof.
  intros A sched p tt. unfold run_workers.
  destruct (run_sched_single A sched p tt) as (p' & tt' & rest & H1 & H2). rewrite H1. cbn [finish_all].
  rewrite H2. destruct (run_seq p tt) as [a tt1]. exists rest. reflexivity.
Qed.
