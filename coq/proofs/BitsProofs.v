(* Bit-level facts about model/Bits.v: testbit characterisations of the 64-bit primitives,
   Square::offset arithmetic, and the no-wrap-around characterisation of BitBoard::shift. *)
From WV Require Import Bits.
From Coq Require Import Lia ZifyBool ZifyN ZifyNat.
Ltac Zify.zify_post_hook ::= Z.div_mod_to_equations.
Open Scope N_scope.
Arguments N.add : simpl never.
Arguments N.sub : simpl never.
Arguments N.mul : simpl never.
Arguments N.land : simpl never.
Arguments N.lor : simpl never.
Arguments N.shiftl : simpl never.
Arguments N.shiftr : simpl never.

(* ---------- generic N facts ---------- *)

Lemma mask64_ones : mask64 = N.ones 64.
Proof. reflexivity. Qed.

Lemma testbit_high : forall b n k, b < 2 ^ n -> n <= k -> N.testbit b k = false.
Proof.
  intros b n k Hb Hk.
  destruct (N.eq_dec b 0) as [-> | Hnz].
  - apply N.bits_0.
  - apply N.bits_above_log2.
    assert (Hlog : N.log2 b < n) by (apply N.log2_lt_pow2; lia).
    lia.
Qed.

Lemma lt_pow2_of_bits : forall a n, (forall k, n <= k -> N.testbit a k = false) -> a < 2 ^ n.
Proof.
  intros a n H.
  destruct (N.eq_dec a 0) as [-> | Hnz].
  - apply N.neq_0_lt_0. apply N.pow_nonzero. discriminate.
  - apply N.log2_lt_pow2; [lia|].
    destruct (N.lt_ge_cases (N.log2 a) n) as [Hlt | Hge]; [exact Hlt|].
    apply H in Hge. rewrite N.bit_log2 in Hge by exact Hnz. discriminate.
Qed.

Lemma test_lt64 : forall b t, b < 2 ^ 64 -> test b t = true -> t < 64.
Proof.
  intros b t Hb Ht. destruct (N.lt_ge_cases t 64) as [H | H]; [exact H|].
  unfold test in Ht. rewrite (testbit_high b 64 t Hb H) in Ht. discriminate.
Qed.

(* ---------- the square list ---------- *)

Lemma squares_In : forall s, In s squares <-> s < 64.
Proof.
  intros s. unfold squares. rewrite in_map_iff. split.
  - intros [n [Hn Hin]]. apply in_seq in Hin. lia.
  - intros Hs. exists (N.to_nat s). split; [apply N2Nat.id|]. apply in_seq. lia.
Qed.

Lemma forallb_squares : forall f, forallb f squares = true -> forall s, s < 64 -> f s = true.
Proof.
  intros f H s Hs. rewrite forallb_forall in H. apply H. apply squares_In. exact Hs.
Qed.

Lemma squares_length : length squares = 64%nat.
Proof. reflexivity. Qed.

Lemma squares_nth : forall s, s < 64 -> nth (N.to_nat s) squares 0 = s.
Proof.
  intros s Hs. unfold squares.
  change (nth (N.to_nat s) (map N.of_nat (seq 0 64)) (N.of_nat 0) = s). rewrite map_nth.
  rewrite seq_nth by lia. cbn [Nat.add]. apply N2Nat.id.
Qed.

Lemma map_squares_nth : forall (f : N -> N) s, s < 64 -> nth (N.to_nat s) (map f squares) 0 = f s.
Proof.
  intros f s Hs.
  rewrite (nth_indep (map f squares) 0 (f 0)) by (rewrite map_length, squares_length; lia).
  rewrite map_nth. rewrite squares_nth by exact Hs. reflexivity.
Qed.

(* ---------- testbit of the u64 primitives ---------- *)

Lemma trunc64_spec : forall b s, N.testbit (trunc64 b) s = N.testbit b s && (s <? 64).
Proof.
  intros b s. unfold trunc64. rewrite N.land_spec, mask64_ones.
  destruct (N.ltb_spec s 64) as [H | H].
  - rewrite N.ones_spec_low by exact H. reflexivity.
  - rewrite N.ones_spec_high by exact H. reflexivity.
Qed.

Lemma trunc64_lt : forall b, trunc64 b < 2 ^ 64.
Proof.
  intros b. apply lt_pow2_of_bits. intros k Hk. rewrite trunc64_spec.
  destruct (N.ltb_spec k 64); [lia|]. apply andb_false_r.
Qed.

Lemma shl64_spec : forall b k s,
  N.testbit (shl64 b k) s = (s <? 64) && (k <=? s) && N.testbit b (s - k).
Proof.
  intros b k s. unfold shl64. rewrite trunc64_spec.
  destruct (N.leb_spec k s) as [H | H].
  - rewrite N.shiftl_spec_high' by exact H.
    destruct (s <? 64); destruct (N.testbit b (s - k)); reflexivity.
  - rewrite N.shiftl_spec_low by exact H. destruct (s <? 64); reflexivity.
Qed.

Lemma shl64_lt : forall b k, shl64 b k < 2 ^ 64.
Proof. intros. apply trunc64_lt. Qed.

Lemma shr64_spec : forall b k s, N.testbit (shr64 b k) s = N.testbit b (s + k).
Proof. intros. unfold shr64. apply N.shiftr_spec'. Qed.

Lemma shr64_lt : forall b k, b < 2 ^ 64 -> shr64 b k < 2 ^ 64.
Proof.
  intros b k Hb. apply lt_pow2_of_bits. intros j Hj. rewrite shr64_spec.
  apply (testbit_high b 64); [exact Hb | lia].
Qed.

Lemma lnot64_spec : forall b s, N.testbit (lnot64 b) s = xorb (N.testbit b s) (s <? 64).
Proof.
  intros b s. unfold lnot64. rewrite N.lxor_spec, mask64_ones.
  destruct (N.ltb_spec s 64) as [H | H].
  - rewrite N.ones_spec_low by exact H. reflexivity.
  - rewrite N.ones_spec_high by exact H. reflexivity.
Qed.

Lemma land_lt : forall a b, a < 2 ^ 64 -> N.land a b < 2 ^ 64.
Proof.
  intros a b Ha. apply lt_pow2_of_bits. intros k Hk. rewrite N.land_spec.
  rewrite (testbit_high a 64 k Ha Hk). reflexivity.
Qed.

Lemma lor_lt : forall a b, a < 2 ^ 64 -> b < 2 ^ 64 -> N.lor a b < 2 ^ 64.
Proof.
  intros a b Ha Hb. apply lt_pow2_of_bits. intros k Hk. rewrite N.lor_spec.
  rewrite (testbit_high a 64 k Ha Hk), (testbit_high b 64 k Hb Hk). reflexivity.
Qed.

Lemma just_spec : forall s t, N.testbit (just s) t = (s =? t).
Proof.
  intros s t. unfold just.
  destruct (N.eqb_spec s t) as [-> | Hne].
  - rewrite N.shiftl_spec_high' by lia. rewrite N.sub_diag. reflexivity.
  - destruct (N.lt_ge_cases t s) as [H | H].
    + apply N.shiftl_spec_low. exact H.
    + rewrite N.shiftl_spec_high' by exact H.
      assert (Hpos : t - s <> 0) by lia.
      destruct (t - s) as [|p] eqn:E; [congruence|]. reflexivity.
Qed.

Lemma setb_true_spec : forall b s t, N.testbit (setb b s true) t = N.testbit b t || (s =? t).
Proof. intros. unfold setb. rewrite N.lor_spec, just_spec. reflexivity. Qed.

Lemma setb_true_lt : forall b s, b < 2 ^ 64 -> s < 64 -> setb b s true < 2 ^ 64.
Proof.
  intros b s Hb Hs. apply lt_pow2_of_bits. intros k Hk. rewrite setb_true_spec.
  rewrite (testbit_high b 64 k Hb Hk). destruct (N.eqb_spec s k); [lia | reflexivity].
Qed.

(* file masks: bit k of file_a <-> k mod 8 = 0 ; of file_h <-> k mod 8 = 7 (k < 64) *)
Lemma file_a_spec : forall k, k < 64 -> N.testbit file_a k = (k mod 8 =? 0).
Proof.
  intros k Hk.
  assert (H : forallb (fun k => Bool.eqb (N.testbit file_a k) (k mod 8 =? 0)) squares = true)
    by (vm_compute; reflexivity).
  apply forallb_squares with (s := k) in H; [|exact Hk]. apply eqb_prop in H. exact H.
Qed.

Lemma file_h_spec : forall k, k < 64 -> N.testbit file_h k = (k mod 8 =? 7).
Proof.
  intros k Hk.
  assert (H : forallb (fun k => Bool.eqb (N.testbit file_h k) (k mod 8 =? 7)) squares = true)
    by (vm_compute; reflexivity).
  apply forallb_squares with (s := k) in H; [|exact Hk]. apply eqb_prop in H. exact H.
Qed.

(* ---------- iter_ones ---------- *)

Lemma ones_pos_spec : forall p i k,
  In k (ones_pos p i) <-> exists j, k = i + j /\ Pos.testbit p j = true.
Proof.
  induction p as [q IH | q IH |]; intros i k; cbn [ones_pos In].
  - rewrite IH. split.
    + intros [H | [j [Hk Hj]]].
      * exists 0. split; [lia | reflexivity].
      * exists (N.succ j). split; [lia|]. rewrite <- Hj.
        destruct j; cbn [Pos.testbit N.succ Pos.pred_N]; [reflexivity|].
        rewrite Pos.pred_N_succ. reflexivity.
    + intros [j [Hk Hj]]. destruct j as [|pj].
      * left. lia.
      * right. exists (Pos.pred_N pj). split; [|exact Hj].
        rewrite Hk. pose proof (N.succ_pos_pred pj). lia.
  - rewrite IH. split.
    + intros [j [Hk Hj]].
      exists (N.succ j). split; [lia|]. rewrite <- Hj.
      destruct j; cbn [Pos.testbit N.succ Pos.pred_N]; [reflexivity|].
      rewrite Pos.pred_N_succ. reflexivity.
    + intros [j [Hk Hj]]. destruct j as [|pj]; [discriminate Hj|].
      exists (Pos.pred_N pj). split; [|exact Hj].
      rewrite Hk. pose proof (N.succ_pos_pred pj). lia.
  - split.
    + intros [H | []]. exists 0. split; [lia | reflexivity].
    + intros [j [Hk Hj]]. destruct j; [left; lia | discriminate Hj].
Qed.

Lemma iter_ones_spec : forall b k, In k (iter_ones b) <-> N.testbit b k = true.
Proof.
  intros [|p] k; cbn [iter_ones N.testbit].
  - split; [intros [] | discriminate].
  - rewrite ones_pos_spec. split.
    + intros [j [Hk Hj]]. rewrite N.add_0_l in Hk. subst k. exact Hj.
    + intros H. exists k. split; [lia | exact H].
Qed.

(* ---------- Square::offset ---------- *)

Lemma offset_spec : forall s df dr t, s < 64 ->
  (offset s df dr = Some t <->
   (0 <= Z.of_N (s mod 8) + df <= 7)%Z /\ (0 <= Z.of_N (s / 8) + dr <= 7)%Z /\
   Z.of_N t = (Z.of_N s + df + 8 * dr)%Z).
Proof.
  intros s df dr t Hs. unfold offset, file_of, rank_of, mk_square. cbv zeta.
  destruct ((Z.of_N (s mod 8) + df <? 0)%Z || (7 <? Z.of_N (s mod 8) + df)%Z
            || (Z.of_N (s / 8) + dr <? 0)%Z || (7 <? Z.of_N (s / 8) + dr)%Z) eqn:E.
  - split; [discriminate|]. intros [H1 [H2 _]]. lia.
  - split.
    + intros H. injection H as H. lia.
    + intros [H1 [H2 H3]]. f_equal. lia.
Qed.

Lemma offset_geometry : forall s df dr t, s < 64 -> offset s df dr = Some t ->
  t < 64 /\ Z.of_N (file_of t) = (Z.of_N (file_of s) + df)%Z /\
  Z.of_N (rank_of t) = (Z.of_N (rank_of s) + dr)%Z.
Proof.
  intros s df dr t Hs H. apply offset_spec in H; [|exact Hs].
  unfold file_of, rank_of. lia.
Qed.

Lemma offset_lt : forall s df dr t, s < 64 -> offset s df dr = Some t -> t < 64.
Proof. intros s df dr t Hs H. apply (offset_geometry s df dr t Hs H). Qed.

(* composition: going through an on-board intermediate square *)
Lemma offset_comp : forall s df1 dr1 s1 df2 dr2, s < 64 ->
  offset s df1 dr1 = Some s1 -> offset s1 df2 dr2 = offset s (df1 + df2) (dr1 + dr2).
Proof.
  intros s df1 dr1 s1 df2 dr2 Hs H1.
  pose proof (offset_lt _ _ _ _ Hs H1) as Hs1.
  apply offset_spec in H1; [|exact Hs].
  destruct (offset s (df1 + df2) (dr1 + dr2)) as [t|] eqn:E.
  - apply offset_spec in E; [|exact Hs]. apply offset_spec; [exact Hs1|]. lia.
  - destruct (offset s1 df2 dr2) as [t|] eqn:E2; [|reflexivity].
    apply offset_spec in E2; [|exact Hs1].
    assert (E' : offset s (df1 + df2) (dr1 + dr2) = Some t) by (apply offset_spec; [exact Hs | lia]).
    congruence.
Qed.

(* convexity: if n steps stay on the board, so does any smaller number of steps *)
Lemma between_aux : forall f n k d, (0 <= f <= 7 -> 0 <= k <= n -> 0 <= f + n * d <= 7 -> 0 <= f + k * d <= 7)%Z.
Proof.
  intros f n k d Hf Hk Hn.
  destruct (Z.le_gt_cases 0 d) as [Hd | Hd].
  - assert (k * d <= n * d)%Z by (apply Z.mul_le_mono_nonneg_r; lia).
    assert (0 <= k * d)%Z by (apply Z.mul_nonneg_nonneg; lia). lia.
  - assert (n * d <= k * d)%Z by (apply Z.mul_le_mono_nonpos_r; lia).
    assert (k * d <= 0)%Z by (apply Z.mul_nonneg_nonpos; lia). lia.
Qed.

Lemma offset_between : forall s df dr n k t, s < 64 -> (0 <= k <= n)%Z ->
  offset s (n * df) (n * dr) = Some t -> exists u, offset s (k * df) (k * dr) = Some u.
Proof.
  intros s df dr n k t Hs Hk H. apply offset_spec in H; [|exact Hs].
  destruct H as [Hf [Hr _]].
  assert (Hf0 : (0 <= Z.of_N (s mod 8) <= 7)%Z) by lia.
  assert (Hr0 : (0 <= Z.of_N (s / 8) <= 7)%Z) by lia.
  pose proof (between_aux _ n k df Hf0 Hk Hf) as Hf'.
  pose proof (between_aux _ n k dr Hr0 Hk Hr) as Hr'.
  exists (Z.to_N (Z.of_N s + k * df + 8 * (k * dr))).
  apply offset_spec; [exact Hs|].
  split; [exact Hf'|]. split; [exact Hr'|].
  generalize dependent (k * df)%Z. generalize dependent (k * dr)%Z. intros. lia.
Qed.

Lemma offset_0 : forall s t, s < 64 -> (offset s 0 0 = Some t <-> t = s).
Proof. intros s t Hs. rewrite offset_spec by exact Hs. lia. Qed.

(* a (df,dr) move is a rank move followed by a file move *)
Lemma offset_split : forall s df dr t, s < 64 -> offset s df dr = Some t ->
  exists s1, offset s 0 dr = Some s1 /\ offset s1 df 0 = Some t.
Proof.
  intros s df dr t Hs H.
  pose proof H as H'. apply offset_spec in H'; [|exact Hs].
  assert (H1 : offset s 0 dr = Some (Z.to_N (Z.of_N s + 8 * dr))) by (apply offset_spec; [exact Hs | lia]).
  eexists. split; [exact H1|].
  rewrite (offset_comp s 0 dr _ df 0 Hs H1).
  replace (0 + df)%Z with df by lia. replace (dr + 0)%Z with dr by lia. exact H.
Qed.

Lemma offset_join : forall s df dr s1 t, s < 64 -> offset s 0 dr = Some s1 -> offset s1 df 0 = Some t ->
  offset s df dr = Some t.
Proof.
  intros s df dr s1 t Hs H1 H2.
  rewrite (offset_comp s 0 dr _ df 0 Hs H1) in H2.
  replace (0 + df)%Z with df in H2 by lia. replace (dr + 0)%Z with dr in H2 by lia. exact H2.
Qed.

(* ---------- BitBoard::shift ---------- *)

Definition stepE (x : N) : N := shl64 (N.land x (lnot64 file_h)) 1.
Definition stepW (x : N) : N := shr64 (N.land x (lnot64 file_a)) 1.
Definition rank_shift (b : N) (dr : Z) : N :=
  if (0 <? dr)%Z then shl64 b (Z.to_N (dr * 8))
  else if (dr <? 0)%Z then shr64 b (Z.to_N (- dr * 8)) else b.

Lemma shift_unfold : forall b df dr,
  shift b df dr =
  if (0 <? df)%Z then iter_n (Z.to_nat df) stepE (rank_shift b dr)
  else if (df <? 0)%Z then iter_n (Z.to_nat (- df)) stepW (rank_shift b dr)
  else rank_shift b dr.
Proof. reflexivity. Qed.

Definition moved (b : N) (df dr : Z) (s : N) : Prop :=
  exists s0, s0 < 64 /\ test b s0 = true /\ offset s0 df dr = Some s.

Lemma stepE_lt : forall x, stepE x < 2 ^ 64.
Proof. intros. apply shl64_lt. Qed.

Lemma stepW_lt : forall x, x < 2 ^ 64 -> stepW x < 2 ^ 64.
Proof. intros x Hx. apply shr64_lt. apply land_lt. exact Hx. Qed.

Lemma stepE_spec : forall x s, s < 64 -> (test (stepE x) s = true <-> moved x 1 0 s).
Proof.
  intros x s Hs. unfold test, stepE, moved.
  rewrite shl64_spec, N.land_spec, lnot64_spec. split.
  - intros H.
    destruct (N.ltb_spec s 64) as [_ | Hc]; [|lia].
    destruct (N.leb_spec 1 s) as [H1 | H1]; [|discriminate H].
    cbn [andb] in H. apply andb_true_iff in H. destruct H as [Hx Hf].
    rewrite file_h_spec in Hf by lia.
    destruct (N.ltb_spec (s - 1) 64) as [_ | Hc]; [|lia].
    destruct (N.eqb_spec ((s - 1) mod 8) 7) as [E | E]; [discriminate Hf|].
    exists (s - 1). split; [lia|]. split; [exact Hx|].
    apply offset_spec; [lia|]. lia.
  - intros [s0 [Hs0 [Hx Ho]]]. apply offset_spec in Ho; [|exact Hs0].
    assert (Es : s0 = s - 1) by lia. subst s0.
    rewrite file_h_spec by lia. unfold test in Hx. rewrite Hx.
    destruct (N.ltb_spec s 64) as [_ | Hc]; [|lia].
    destruct (N.leb_spec 1 s) as [H1 | H1]; [|lia].
    destruct (N.ltb_spec (s - 1) 64) as [_ | Hc]; [|lia].
    destruct (N.eqb_spec ((s - 1) mod 8) 7) as [E | E]; [lia | reflexivity].
Qed.

Lemma stepW_spec : forall x s, x < 2 ^ 64 -> s < 64 -> (test (stepW x) s = true <-> moved x (-1) 0 s).
Proof.
  intros x s Hx Hs. unfold test, stepW, moved.
  rewrite shr64_spec, N.land_spec, lnot64_spec. split.
  - intros H. apply andb_true_iff in H. destruct H as [Hb Hf].
    assert (Hlt : s + 1 < 64) by (apply (test_lt64 x); assumption).
    rewrite file_a_spec in Hf by exact Hlt.
    destruct (N.ltb_spec (s + 1) 64) as [_ | Hc]; [|lia].
    destruct (N.eqb_spec ((s + 1) mod 8) 0) as [E | E]; [discriminate Hf|].
    exists (s + 1). split; [exact Hlt|]. split; [exact Hb|].
    apply offset_spec; [exact Hlt|]. lia.
  - intros [s0 [Hs0 [Hb Ho]]]. apply offset_spec in Ho; [|exact Hs0].
    assert (Es : s0 = s + 1) by lia. subst s0.
    rewrite file_a_spec by exact Hs0. unfold test in Hb. rewrite Hb.
    destruct (N.ltb_spec (s + 1) 64) as [_ | Hc]; [|lia].
    destruct (N.eqb_spec ((s + 1) mod 8) 0) as [E | E]; [lia | reflexivity].
Qed.

Lemma rank_shift_lt : forall b dr, b < 2 ^ 64 -> rank_shift b dr < 2 ^ 64.
Proof.
  intros b dr Hb. unfold rank_shift.
  destruct (0 <? dr)%Z; [apply shl64_lt|].
  destruct (dr <? 0)%Z; [apply shr64_lt; exact Hb | exact Hb].
Qed.

Lemma rank_shift_spec : forall b dr s, b < 2 ^ 64 -> s < 64 ->
  (test (rank_shift b dr) s = true <-> moved b 0 dr s).
Proof.
  intros b dr s Hb Hs. unfold rank_shift, moved, test.
  destruct (Z.ltb_spec 0 dr) as [Hp | Hp]; [|destruct (Z.ltb_spec dr 0) as [Hn | Hn]].
  - rewrite shl64_spec. split.
    + intros H.
      destruct (N.ltb_spec s 64) as [_ | Hc]; [|lia].
      destruct (N.leb_spec (Z.to_N (dr * 8)) s) as [H1 | H1]; [|discriminate H].
      cbn [andb] in H.
      exists (s - Z.to_N (dr * 8)). split; [lia|]. split; [exact H|].
      apply offset_spec; [lia|]. lia.
    + intros [s0 [Hs0 [Hx Ho]]]. apply offset_spec in Ho; [|exact Hs0].
      assert (Es : s0 = s - Z.to_N (dr * 8)) by lia. subst s0. rewrite Hx.
      destruct (N.ltb_spec s 64) as [_ | Hc]; [|lia].
      destruct (N.leb_spec (Z.to_N (dr * 8)) s) as [H1 | H1]; [reflexivity | lia].
  - rewrite shr64_spec. split.
    + intros H.
      assert (Hlt : s + Z.to_N (- dr * 8) < 64) by (apply (test_lt64 b); assumption).
      exists (s + Z.to_N (- dr * 8)). split; [exact Hlt|]. split; [exact H|].
      apply offset_spec; [exact Hlt|]. lia.
    + intros [s0 [Hs0 [Hx Ho]]]. apply offset_spec in Ho; [|exact Hs0].
      assert (Es : s0 = s + Z.to_N (- dr * 8)) by lia. subst s0. exact Hx.
  - assert (dr = 0%Z) by lia. subst dr. split.
    + intros H. exists s. split; [exact Hs|]. split; [exact H|]. apply offset_0; [exact Hs | reflexivity].
    + intros [s0 [Hs0 [Hx Ho]]]. apply offset_0 in Ho; [|exact Hs0]. subst s0. exact Hx.
Qed.

Lemma iterE_spec : forall n x s, x < 2 ^ 64 -> s < 64 ->
  (test (iter_n n stepE x) s = true <-> moved x (Z.of_nat n) 0 s) /\ iter_n n stepE x < 2 ^ 64.
Proof.
  induction n as [|k IH]; intros x s Hx Hs.
  - cbn [iter_n]. split; [|exact Hx]. unfold moved. split.
    + intros H. exists s. split; [exact Hs|]. split; [exact H|]. apply offset_0; [exact Hs | reflexivity].
    + intros [s0 [Hs0 [Hb Ho]]]. change (Z.of_nat 0) with 0%Z in Ho.
      apply offset_0 in Ho; [|exact Hs0]. subst s0. exact Hb.
  - cbn [iter_n]. destruct (IH (stepE x) s (stepE_lt x) Hs) as [IH1 IH2]. split; [|exact IH2].
    rewrite IH1. unfold moved. split.
    + intros [s1 [Hs1 [Hb Ho]]]. apply stepE_spec in Hb; [|exact Hs1].
      destruct Hb as [s0 [Hs0 [Hb Ho1]]]. exists s0. split; [exact Hs0|]. split; [exact Hb|].
      rewrite (offset_comp s0 1 0 s1 (Z.of_nat k) 0 Hs0 Ho1) in Ho.
      replace (Z.of_nat (S k)) with (1 + Z.of_nat k)%Z by lia. exact Ho.
    + intros [s0 [Hs0 [Hb Ho]]].
      replace (Z.of_nat (S k)) with (1 + Z.of_nat k)%Z in Ho by lia.
      pose proof Ho as Ho'. apply offset_spec in Ho'; [|exact Hs0].
      assert (H1 : offset s0 1 0 = Some (s0 + 1)) by (apply offset_spec; [exact Hs0 | lia]).
      pose proof (offset_lt _ _ _ _ Hs0 H1) as Hs1.
      exists (s0 + 1). split; [exact Hs1|]. split.
      * apply stepE_spec; [exact Hs1|]. exists s0. split; [exact Hs0|]. split; [exact Hb | exact H1].
      * rewrite (offset_comp s0 1 0 _ (Z.of_nat k) 0 Hs0 H1). exact Ho.
Qed.

Lemma iterW_spec : forall n x s, x < 2 ^ 64 -> s < 64 ->
  (test (iter_n n stepW x) s = true <-> moved x (- Z.of_nat n) 0 s) /\ iter_n n stepW x < 2 ^ 64.
Proof.
  induction n as [|k IH]; intros x s Hx Hs.
  - cbn [iter_n]. split; [|exact Hx]. unfold moved. split.
    + intros H. exists s. split; [exact Hs|]. split; [exact H|]. apply offset_0; [exact Hs | reflexivity].
    + intros [s0 [Hs0 [Hb Ho]]]. change (- Z.of_nat 0)%Z with 0%Z in Ho.
      apply offset_0 in Ho; [|exact Hs0]. subst s0. exact Hb.
  - cbn [iter_n]. destruct (IH (stepW x) s (stepW_lt x Hx) Hs) as [IH1 IH2]. split; [|exact IH2].
    rewrite IH1. unfold moved. split.
    + intros [s1 [Hs1 [Hb Ho]]]. apply stepW_spec in Hb; [|exact Hx|exact Hs1].
      destruct Hb as [s0 [Hs0 [Hb Ho1]]]. exists s0. split; [exact Hs0|]. split; [exact Hb|].
      rewrite (offset_comp s0 (-1) 0 s1 (- Z.of_nat k) 0 Hs0 Ho1) in Ho.
      replace (- Z.of_nat (S k))%Z with (-1 + - Z.of_nat k)%Z by lia. exact Ho.
    + intros [s0 [Hs0 [Hb Ho]]].
      replace (- Z.of_nat (S k))%Z with (-1 + - Z.of_nat k)%Z in Ho by lia.
      pose proof Ho as Ho'. apply offset_spec in Ho'; [|exact Hs0].
      assert (H1 : offset s0 (-1) 0 = Some (s0 - 1)) by (apply offset_spec; [exact Hs0 | lia]).
      pose proof (offset_lt _ _ _ _ Hs0 H1) as Hs1.
      exists (s0 - 1). split; [exact Hs1|]. split.
      * apply stepW_spec; [exact Hx|exact Hs1|]. exists s0. split; [exact Hs0|]. split; [exact Hb | exact H1].
      * rewrite (offset_comp s0 (-1) 0 _ (- Z.of_nat k) 0 Hs0 H1). exact Ho.
Qed.

Lemma moved_compose : forall b b1 df dr s, b < 2 ^ 64 ->
  (forall s1, s1 < 64 -> (test b1 s1 = true <-> moved b 0 dr s1)) ->
  (moved b1 df 0 s <-> moved b df dr s).
Proof.
  intros b b1 df dr s Hb H1. unfold moved. split.
  - intros [s1 [Hs1 [Ht Ho]]]. apply H1 in Ht; [|exact Hs1].
    destruct Ht as [s0 [Hs0 [Ht Ho0]]]. exists s0. split; [exact Hs0|]. split; [exact Ht|].
    apply (offset_join s0 df dr s1 s Hs0 Ho0 Ho).
  - intros [s0 [Hs0 [Ht Ho]]]. destruct (offset_split s0 df dr s Hs0 Ho) as [s1 [Ho0 Ho1]].
    pose proof (offset_lt _ _ _ _ Hs0 Ho0) as Hs1.
    exists s1. split; [exact Hs1|]. split; [|exact Ho1].
    apply H1; [exact Hs1|]. exists s0. split; [exact Hs0|]. split; [exact Ht | exact Ho0].
Qed.

(* the no-wrap-around characterisation of BitBoard::shift, for every bitboard and every (df,dr) *)
Theorem shift_spec_any : forall b df dr s, b < 2 ^ 64 -> s < 64 ->
  (test (shift b df dr) s = true <->
   exists s0, s0 < 64 /\ test b s0 = true /\ offset s0 df dr = Some s).
Proof.
  intros b df dr s Hb Hs. fold (moved b df dr s). rewrite shift_unfold.
  pose proof (rank_shift_lt b dr Hb) as Hb1.
  pose proof (fun s1 Hs1 => rank_shift_spec b dr s1 Hb Hs1) as H1.
  rewrite <- (moved_compose b (rank_shift b dr) df dr s Hb H1).
  destruct (Z.ltb_spec 0 df) as [Hp | Hp]; [|destruct (Z.ltb_spec df 0) as [Hn | Hn]].
  - destruct (iterE_spec (Z.to_nat df) (rank_shift b dr) s Hb1 Hs) as [H _].
    rewrite H. replace (Z.of_nat (Z.to_nat df)) with df by lia. reflexivity.
  - destruct (iterW_spec (Z.to_nat (- df)) (rank_shift b dr) s Hb1 Hs) as [H _].
    rewrite H. replace (- Z.of_nat (Z.to_nat (- df)))%Z with df by lia. reflexivity.
  - assert (df = 0%Z) by lia. subst df. unfold moved. split.
    + intros H. exists s. split; [exact Hs|]. split; [exact H|]. apply offset_0; [exact Hs | reflexivity].
    + intros [s0 [Hs0 [Hx Ho]]]. apply offset_0 in Ho; [|exact Hs0]. subst s0. exact Hx.
Qed.

Theorem shift_lt : forall b df dr, b < 2 ^ 64 -> shift b df dr < 2 ^ 64.
Proof.
  intros b df dr Hb. rewrite shift_unfold.
  pose proof (rank_shift_lt b dr Hb) as Hb1.
  destruct (0 <? df)%Z; [|destruct (df <? 0)%Z].
  - apply (iterE_spec _ _ 0 Hb1). reflexivity.
  - apply (iterW_spec _ _ 0 Hb1). reflexivity.
  - exact Hb1.
Qed.

Theorem shift_spec : forall b df dr s, b < 2 ^ 64 -> (-2 <= df <= 2)%Z -> (-2 <= dr <= 2)%Z -> s < 64 ->
  (test (shift b df dr) s = true <->
   exists s0, s0 < 64 /\ test b s0 = true /\ offset s0 df dr = Some s).
Proof. intros b df dr s Hb _ _ Hs. apply shift_spec_any; assumption. Qed.
