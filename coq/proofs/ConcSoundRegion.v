(* Region forms of the n-worker soundness theorem (proofs/ConcSound.v) with the heuristic caveat discharged
   for at most ten men, as proofs/MateRegion.v does for the one-worker model. *)
From Coq Require Import NArith ZArith List Bool Lia.
From WV Require Import Types Bits Attacks Board MoveEnc MoveGen Text Table Eval Search Conc Wf.
From WV Require Import Rules Abs GameValue.
From WV Require Import SearchBase SearchProofs SearchMen MateValue MateSound MateRegion ConcSeq ConcRG ConcSound.
Import ListNotations.

Theorem small_men_soundM : forall hs, HashRuleOn SmallMen hs ->
  forall jit_of workers iters s history tt sched, LegalPos s -> (men s <= 10)%nat -> TOk SmallMen hs tt ->
  let r := analyze_iterativeM hs jit_of workers iters s history tt sched in
  (forall ev line, In (EvBest ev line) (m_events r) -> (POS_INF <= ev)%Z -> exists n, Win n (abs s)) /\
  TOk SmallMen hs (m_tt r).
Proof.
  intros hs HR jit_of workers iters s history tt sched HL Hm HT.
  destruct (soundM_iterative hs SmallMen HR SmallMen_region SmallMen_heur jit_of workers iters s history tt sched
              (conj HL Hm) HT) as (H1 & H2).
  split; [|exact H2]. intros ev line Hin Hp. apply Won_iff_Win. exact (H1 ev line Hin Hp).
Qed.

Theorem small_root_soundM : forall hs s, LegalPos s -> (men s <= 10)%nat -> HashRuleOn (Reach s) hs ->
  forall jit_of workers iters history tt sched, TOk (Reach s) hs tt ->
  let r := analyze_iterativeM hs jit_of workers iters s history tt sched in
  (forall ev line, In (EvBest ev line) (m_events r) -> (POS_INF <= ev)%Z -> exists n, Win n (abs s)) /\
  TOk (Reach s) hs (m_tt r).
Proof.
  intros hs s HL Hm HR. exact (soundM_iterative_reach hs s HL HR (Reach_small_heur s (conj HL Hm))).
Qed.
