(* Property C10: Board (piece_at, attack maps, check) against the rules specification.
   piece_at = the unique occupant; colored_attacks / colored_pawn_attacks / board_is_check =
   Rules.attacks_from / attacked / king_attacked on the placement; the OnceCell cache is pure. *)
From WV Require Import Types Bits Attacks Board Rules Abs Wf BitsProofs AttacksProofs AttacksSliders.
From Coq Require Import Lia ZifyBool ZifyN ZifyNat.
Ltac Zify.zify_post_hook ::= Z.div_mod_to_equations.
Open Scope N_scope.
Arguments N.add : simpl never.
Arguments N.sub : simpl never.
Arguments N.mul : simpl never.
Arguments N.land : simpl never.
Arguments N.lor : simpl never.
Arguments N.shiftl : simpl never.
Arguments N.shiftr : simpl never.

Lemma two64_eq : two64 = 2 ^ 64.
Proof. reflexivity. Qed.

(* ---------- generic bit facts ---------- *)

Lemma test_0 : forall s, test 0 s = true -> False.
Proof. intros s H. unfold test in H. rewrite N.bits_0 in H. discriminate H. Qed.

Lemma disj_test : forall x y s, (N.land x y =? 0) = true -> test x s = true -> test y s = true -> False.
Proof.
  intros x y s H Hx Hy. apply N.eqb_eq in H. unfold test in *.
  assert (E : N.testbit (N.land x y) s = false) by (rewrite H; apply N.bits_0).
  rewrite N.land_spec, Hx, Hy in E. discriminate E.
Qed.

Lemma fold_lor_test : forall (A : Type) (g : A -> N) (l : list A) (a t : N),
  N.testbit (fold_left (fun acc x => N.lor acc (g x)) l a) t =
  N.testbit a t || existsb (fun x => N.testbit (g x) t) l.
Proof.
  intros A g l. induction l as [|x tl IH]; intros a t; cbn [fold_left existsb].
  - rewrite orb_false_r. reflexivity.
  - rewrite IH, N.lor_spec, orb_assoc. reflexivity.
Qed.

Lemma any_test : forall x, any x = true <-> exists s, N.testbit x s = true.
Proof.
  intros x. unfold any. rewrite negb_true_iff, N.eqb_neq. split.
  - intros Hne. exists (N.log2 x). apply N.bit_log2. exact Hne.
  - intros [s Hs] E. rewrite E, N.bits_0 in Hs. discriminate Hs.
Qed.

(* ---------- WfBoard ---------- *)

Lemma wf_slots : forall b, WfBoard b -> forall c k, pocc b c k < 2 ^ 64.
Proof.
  intros b H c k. rewrite <- two64_eq. unfold WfBoard, wf_boardb in H.
  apply andb_true_iff in H. destruct H as [H _].
  rewrite forallb_forall in H.
  destruct c, k; cbn [pocc];
    first [ reflexivity
          | apply N.ltb_lt, H; unfold all_slots; cbn [In]; repeat first [left; reflexivity | right] ].
Qed.

Lemma wf_disjoint : forall b, WfBoard b -> forall c k c' k' s,
  test (pocc b c k) s = true -> test (pocc b c' k') s = true -> (c, k) = (c', k').
Proof.
  intros b H. unfold WfBoard, wf_boardb in H. apply andb_true_iff in H. destruct H as [_ H].
  unfold all_slots in H. cbn [pairwise_disjoint forallb] in H.
  rewrite !andb_true_iff in H. decompose [and] H. clear H.
  intros c k c' k' s Ht1 Ht2.
  destruct c, k, c', k'; cbn [pocc] in Ht1, Ht2; try reflexivity;
    try (exfalso; exact (test_0 _ Ht1)); try (exfalso; exact (test_0 _ Ht2));
    exfalso;
    first [ eapply (disj_test _ _ s); [|exact Ht1|exact Ht2]; assumption
          | eapply (disj_test _ _ s); [|exact Ht2|exact Ht1]; assumption ].
Qed.

(* ---------- piece_at ---------- *)

Ltac scan s :=
  repeat match goal with
  | |- context [if test ?x s then _ else _] => destruct (test x s) eqn:?; cbv beta iota
  end.

Lemma piece_at_some_imp : forall b s c k,
  piece_at b s = Some (c, k) -> k <> PNone /\ test (pocc b c k) s = true.
Proof.
  intros b s c k. unfold piece_at. cbn [find all_pieces pocc].
  scan s; intros H; inversion H; subst; (split; [discriminate | assumption]).
Qed.

Lemma piece_at_none : forall b s, piece_at b s = None <-> forall c k, test (pocc b c k) s = false.
Proof.
  intros b s. split.
  - unfold piece_at. cbn [find all_pieces pocc]. scan s; intros H; try discriminate H.
    intros c k. destruct c, k; cbn [pocc]; try assumption; unfold test; apply N.bits_0.
  - intros H. destruct (piece_at b s) as [[c k]|] eqn:E; [|reflexivity].
    apply piece_at_some_imp in E. destruct E as [_ E]. rewrite H in E. discriminate E.
Qed.

Theorem piece_at_spec : forall b s c k, WfBoard b ->
  (piece_at b s = Some (c, k) <-> k <> PNone /\ test (pocc b c k) s = true).
Proof.
  intros b s c k Hwf. split; [apply piece_at_some_imp|].
  intros [Hk Ht]. destruct (piece_at b s) as [[c' k']|] eqn:E.
  - apply piece_at_some_imp in E. destruct E as [_ Ht'].
    rewrite (wf_disjoint b Hwf c' k' c k s Ht' Ht). reflexivity.
  - rewrite piece_at_none in E. rewrite E in Ht. discriminate Ht.
Qed.

Lemma colored_occ_test : forall b c s,
  test (colored_occ b c) s = true <-> exists k, test (pocc b c k) s = true.
Proof.
  intros b c s. unfold test, colored_occ.
  rewrite fold_lor_test, N.bits_0, orb_false_l, existsb_exists.
  split; [intros [k [_ H]]; exists k; exact H|].
  intros [k H]. exists k. split; [|exact H].
  destruct k; [exfalso; destruct c; exact (test_0 _ H) | ..];
    unfold all_pieces; cbn [In]; repeat first [left; reflexivity | right].
Qed.

Lemma occupancy_test : forall b s,
  test (occupancy b) s = true <-> exists c k, test (pocc b c k) s = true.
Proof.
  intros b s. unfold occupancy. unfold test at 1. rewrite N.lor_spec, orb_true_iff.
  fold (test (colored_occ b White) s). fold (test (colored_occ b Black) s).
  rewrite !colored_occ_test. split.
  - intros [[k H] | [k H]]; eauto.
  - intros [[|] [k H]]; eauto.
Qed.

Lemma occupancy_lt : forall b, WfBoard b -> occupancy b < 2 ^ 64.
Proof.
  intros b Hwf. apply lt_pow2_of_bits. intros k Hk.
  destruct (N.testbit (occupancy b) k) eqn:E; [|reflexivity].
  apply occupancy_test in E. destruct E as [c [p E]].
  pose proof (test_lt64 _ _ (wf_slots b Hwf c p) E). lia.
Qed.

Lemma colored_occ_lt : forall b c, WfBoard b -> colored_occ b c < 2 ^ 64.
Proof.
  intros b c Hwf. apply lt_pow2_of_bits. intros k Hk.
  destruct (N.testbit (colored_occ b c) k) eqn:E; [|reflexivity].
  apply colored_occ_test in E. destruct E as [p E].
  pose proof (test_lt64 _ _ (wf_slots b Hwf c p) E). lia.
Qed.

Theorem piece_at_none_occ : forall b s, piece_at b s = None <-> test (occupancy b) s = false.
Proof.
  intros b s. rewrite piece_at_none. split.
  - intros H. destruct (test (occupancy b) s) eqn:E; [|reflexivity].
    apply occupancy_test in E. destruct E as [c [k E]]. rewrite H in E. discriminate E.
  - intros H c k. destruct (test (pocc b c k) s) eqn:E; [|reflexivity].
    assert (E' : test (occupancy b) s = true) by (apply occupancy_test; eauto).
    rewrite H in E'. discriminate E'.
Qed.

(* ---------- reading the rules-level position ---------- *)

Lemma p_at_pos : forall b s, p_at (pos_of_board b) s = piece_at b s.
Proof. reflexivity. Qed.

Lemma color_eqb_eq : forall c c', color_eqb c c' = true <-> c = c'.
Proof. intros [|] [|]; cbn [color_eqb]; split; intros H; (reflexivity || discriminate H). Qed.

Lemma color_eqb_refl : forall c, color_eqb c c = true.
Proof. intros [|]; reflexivity. Qed.

Lemma color_eqb_opp : forall c, color_eqb (opp c) c = false.
Proof. intros [|]; reflexivity. Qed.

Lemma piece_eqb_eq : forall k k', piece_eqb k k' = true <-> k = k'.
Proof.
  intros k k'. split.
  - intros H. destruct k, k'; try reflexivity; cbv in H; discriminate H.
  - intros ->. destruct k'; reflexivity.
Qed.

Lemma has_iff : forall p s c k, has p s c k = true <-> p_at p s = Some (c, k).
Proof.
  intros p s c k. unfold has. destruct (p_at p s) as [[c' k']|].
  - rewrite andb_true_iff, color_eqb_eq, piece_eqb_eq. split.
    + intros [-> ->]. reflexivity.
    + intros H. injection H as -> ->. split; reflexivity.
  - split; intros H; discriminate H.
Qed.

Lemma empty_at_occ : forall b s, empty_at (pos_of_board b) s = true <-> test (occupancy b) s = false.
Proof.
  intros b s. rewrite <- piece_at_none_occ. unfold empty_at. rewrite p_at_pos.
  destruct (piece_at b s) as [[c k]|]; split; intros H; (reflexivity || discriminate H).
Qed.

Lemma colour_at_occ : forall b s c, WfBoard b ->
  colour_at (pos_of_board b) s c = test (colored_occ b c) s.
Proof.
  intros b s c Hwf. apply eq_iff_eq_true. rewrite colored_occ_test.
  unfold colour_at. rewrite p_at_pos. destruct (piece_at b s) as [[c' k']|] eqn:E.
  - apply (piece_at_spec b s c' k' Hwf) in E. destruct E as [Hk Ht].
    rewrite color_eqb_eq. split.
    + intros ->. exists k'. exact Ht.
    + intros [k Hk']. pose proof (wf_disjoint b Hwf c k c' k' s Hk' Ht) as Hq. congruence.
  - rewrite piece_at_none in E. split; [intros H; discriminate H|].
    intros [k Hk]. rewrite E in Hk. discriminate Hk.
Qed.

(* ---------- coordinate geometry ---------- *)

Lemma offset_delta : forall f t dx dy, f < 64 -> t < 64 ->
  (offset f dx dy = Some t <-> (sfile t - sfile f = dx /\ srank t - srank f = dy)%Z).
Proof.
  intros f t dx dy Hf Ht. rewrite offset_spec by exact Hf. unfold sfile, srank. lia.
Qed.

Lemma offset_sq_of : forall f a b u, f < 64 -> offset f a b = Some u ->
  u = sq_of (sfile f + a) (srank f + b) /\ on_board (sfile f + a) (srank f + b) = true.
Proof.
  intros f a b u Hf H. apply offset_spec in H; [|exact Hf].
  unfold sq_of, on_board, sfile, srank. lia.
Qed.

Lemma clear_path_spec : forall p fuel x y sx sy x' y',
  clear_path p fuel x y sx sy x' y' = true <->
  exists n, (1 <= n <= Z.of_nat fuel)%Z /\ x' = (x + n * sx)%Z /\ y' = (y + n * sy)%Z /\
    forall k, (1 <= k < n)%Z ->
      on_board (x + k * sx) (y + k * sy) = true /\ empty_at p (sq_of (x + k * sx) (y + k * sy)) = true.
Proof.
  intros p fuel. induction fuel as [|m IH]; intros x y sx sy x' y'.
  - cbn [clear_path]. split; [intros H; discriminate H | intros [n [Hn _]]; lia].
  - cbn [clear_path]. cbv zeta.
    destruct (((x + sx =? x') && (y + sy =? y'))%Z) eqn:E.
    + split; [|reflexivity]. intros _. exists 1%Z.
      split; [lia|]. split; [lia|]. split; [lia|]. intros k Hk. lia.
    + rewrite !andb_true_iff, IH. split.
      * intros [[Hob Hem] [n [Hn [Hx [Hy Hall]]]]]. exists (n + 1)%Z.
        split; [lia|]. split; [lia|]. split; [lia|].
        intros k Hk. destruct (Z.eq_dec k 1) as [-> | Hne].
        -- rewrite !Z.mul_1_l. split; assumption.
        -- specialize (Hall (k - 1)%Z ltac:(lia)).
           replace (x + sx + (k - 1) * sx)%Z with (x + k * sx)%Z in Hall by ring.
           replace (y + sy + (k - 1) * sy)%Z with (y + k * sy)%Z in Hall by ring.
           exact Hall.
      * intros [n [Hn [Hx [Hy Hall]]]].
        assert (Hn1 : n <> 1%Z) by (intros ->; rewrite !Z.mul_1_l in *; lia).
        split.
        -- specialize (Hall 1%Z ltac:(lia)). rewrite !Z.mul_1_l in Hall. exact Hall.
        -- exists (n - 1)%Z. split; [lia|]. split; [lia|]. split; [lia|].
           intros k Hk. specialize (Hall (k + 1)%Z ltac:(lia)).
           replace (x + (k + 1) * sx)%Z with (x + sx + k * sx)%Z in Hall by ring.
           replace (y + (k + 1) * sy)%Z with (y + sy + k * sy)%Z in Hall by ring.
           exact Hall.
Qed.

(* the walked ray of the attack tables <-> the clear path of the rules *)
Lemma ray_clear : forall b f t dx dy, f < 64 -> t < 64 ->
  ((exists n, (1 <= n <= 7)%Z /\ offset f (n * dx) (n * dy) = Some t /\
      forall k, (1 <= k < n)%Z -> forall u, offset f (k * dx) (k * dy) = Some u ->
        test (occupancy b) u = false)
   <-> clear_path (pos_of_board b) 7 (sfile f) (srank f) dx dy (sfile t) (srank t) = true).
Proof.
  intros b f t dx dy Hf Ht. rewrite clear_path_spec. split.
  - intros [n [Hn [Ho Hall]]]. exists n. split; [lia|].
    pose proof Ho as Hd. apply offset_delta in Hd; [|exact Hf|exact Ht].
    split; [lia|]. split; [lia|]. intros k Hk.
    destruct (offset_between f dx dy n k t Hf ltac:(lia) Ho) as [u Hu].
    pose proof (Hall k Hk u Hu) as Hocc.
    apply offset_sq_of in Hu; [|exact Hf]. destruct Hu as [Hu Hob]. subst u.
    split; [exact Hob|]. apply empty_at_occ. exact Hocc.
  - intros [n [Hn [Hx [Hy Hall]]]]. exists n. split; [lia|].
    split; [apply offset_delta; [exact Hf|exact Ht|lia]|].
    intros k Hk u Hu. destruct (Hall k Hk) as [_ Hem].
    apply offset_sq_of in Hu; [|exact Hf]. destruct Hu as [Hu _]. subst u.
    apply empty_at_occ. exact Hem.
Qed.

Lemma sgn_mul_unit : forall n d, (1 <= n)%Z -> (-1 <= d <= 1)%Z -> Z.sgn (n * d) = d.
Proof.
  intros n d Hn Hd. assert (Hc : d = (-1)%Z \/ d = 0%Z \/ d = 1%Z) by lia.
  destruct Hc as [-> | [-> | ->]]; lia.
Qed.

Lemma walk_dirs_line : forall b f t dirs, f < 64 -> t < 64 ->
  (forall d, In d dirs -> (-1 <= fst d <= 1)%Z /\ (-1 <= snd d <= 1)%Z) ->
  (test (walk_dirs (occupancy b) f dirs) t = true <->
   In (Z.sgn (sfile t - sfile f), Z.sgn (srank t - srank f)) dirs /\
   clear_path (pos_of_board b) 7 (sfile f) (srank f)
     (Z.sgn (sfile t - sfile f)) (Z.sgn (srank t - srank f)) (sfile t) (srank t) = true).
Proof.
  intros b f t dirs Hf Ht Hd. rewrite walk_dirs_test. split.
  - intros [[dx dy] [Hin Hw]]. destruct (Hd _ Hin) as [Hx Hy]. cbn [fst snd] in Hx, Hy.
    apply walk_geometry_any in Hw; [|exact Hf]. cbn [fst snd] in Hw.
    assert (Hcp : clear_path (pos_of_board b) 7 (sfile f) (srank f) dx dy (sfile t) (srank t) = true)
      by (apply ray_clear; assumption).
    destruct Hw as [n [Hn [Ho _]]]. apply offset_delta in Ho; [|exact Hf|exact Ht].
    destruct Ho as [Hdf Hdr]. rewrite Hdf, Hdr. rewrite !sgn_mul_unit by lia.
    split; assumption.
  - intros [Hin Hcp]. eexists. split; [exact Hin|].
    apply walk_geometry_any; [exact Hf|]. cbn [fst snd]. apply ray_clear; assumption.
Qed.

Lemma rook_dirs_eq : rook_dirs = [(0, 1); (0, -1); (1, 0); (-1, 0)]%Z.
Proof. reflexivity. Qed.
Lemma bishop_dirs_eq : bishop_dirs = [(1, 1); (-1, 1); (1, -1); (-1, -1)]%Z.
Proof. reflexivity. Qed.

Lemma clear_path_aligned : forall p fuel x y sx sy x' y',
  clear_path p fuel x y sx sy x' y' = true ->
  exists n, (1 <= n)%Z /\ (x' - x = n * sx)%Z /\ (y' - y = n * sy)%Z.
Proof.
  intros p fuel x y sx sy x' y' H. apply clear_path_spec in H.
  destruct H as [n [Hn [Hx [Hy _]]]]. exists n. lia.
Qed.

(* ---------- piece_attacks = Rules.attacks_from ---------- *)

Lemma rook_spec : forall b c f t, f < 64 -> t < 64 ->
  (test (rook_attacks f (occupancy b)) t = true <-> attacks_from (pos_of_board b) c Rook f t = true).
Proof.
  intros b c f t Hf Ht. rewrite rook_attacks_walk_any by exact Hf.
  rewrite walk_dirs_line; [|exact Hf|exact Ht|].
  2:{ rewrite rook_dirs_eq. intros d Hd. cbn [In] in Hd.
      destruct Hd as [<- | [<- | [<- | [<- | []]]]]; cbn [fst snd]; lia. }
  rewrite rook_dirs_eq. cbv beta iota zeta delta [attacks_from]. cbn [In].
  rewrite !pair_equal_spec.
  destruct (clear_path (pos_of_board b) 7 (sfile f) (srank f) (Z.sgn (sfile t - sfile f))
              (Z.sgn (srank t - srank f)) (sfile t) (srank t)); lia.
Qed.

Lemma bishop_spec : forall b c f t, f < 64 -> t < 64 ->
  (test (bishop_attacks f (occupancy b)) t = true <-> attacks_from (pos_of_board b) c Bishop f t = true).
Proof.
  intros b c f t Hf Ht. rewrite bishop_attacks_walk_any by exact Hf.
  rewrite walk_dirs_line; [|exact Hf|exact Ht|].
  2:{ rewrite bishop_dirs_eq. intros d Hd. cbn [In] in Hd.
      destruct Hd as [<- | [<- | [<- | [<- | []]]]]; cbn [fst snd]; lia. }
  rewrite bishop_dirs_eq. cbv beta iota zeta delta [attacks_from]. cbn [In].
  rewrite !pair_equal_spec.
  destruct (clear_path (pos_of_board b) 7 (sfile f) (srank f) (Z.sgn (sfile t - sfile f))
              (Z.sgn (srank t - srank f)) (sfile t) (srank t)) eqn:E; [|lia].
  apply clear_path_aligned in E. destruct E as [n [Hn [Hx Hy]]].
  assert (Hc1 : Z.sgn (sfile t - sfile f) = (-1)%Z \/ Z.sgn (sfile t - sfile f) = 0%Z \/
                Z.sgn (sfile t - sfile f) = 1%Z) by lia.
  assert (Hc2 : Z.sgn (srank t - srank f) = (-1)%Z \/ Z.sgn (srank t - srank f) = 0%Z \/
                Z.sgn (srank t - srank f) = 1%Z) by lia.
  destruct Hc1 as [E1 | [E1 | E1]]; destruct Hc2 as [E2 | [E2 | E2]];
    rewrite E1 in Hx; rewrite E2 in Hy; lia.
Qed.

Lemma queen_of_rook_bishop : forall p c f t,
  attacks_from p c Queen f t = attacks_from p c Rook f t || attacks_from p c Bishop f t.
Proof.
  intros p c f t. cbv beta iota zeta delta [attacks_from].
  destruct (clear_path p 7 (sfile f) (srank f) (Z.sgn (sfile t - sfile f))
              (Z.sgn (srank t - srank f)) (sfile t) (srank t)); lia.
Qed.

Lemma queen_spec : forall b c f t, f < 64 -> t < 64 ->
  (test (queen_attacks f (occupancy b)) t = true <-> attacks_from (pos_of_board b) c Queen f t = true).
Proof.
  intros b c f t Hf Ht. unfold queen_attacks. unfold test at 1.
  rewrite N.lor_spec, queen_of_rook_bishop, !orb_true_iff.
  fold (test (rook_attacks f (occupancy b)) t). fold (test (bishop_attacks f (occupancy b)) t).
  rewrite (rook_spec b c f t Hf Ht), (bishop_spec b c f t Hf Ht). reflexivity.
Qed.

Lemma pattern_delta : forall offs f t, f < 64 -> t < 64 ->
  ((exists d, In d offs /\ offset f (fst d) (snd d) = Some t) <->
   In (sfile t - sfile f, srank t - srank f)%Z offs).
Proof.
  intros offs f t Hf Ht. split.
  - intros [[dx dy] [Hin Ho]]. cbn [fst snd] in Ho.
    apply offset_delta in Ho; [|exact Hf|exact Ht]. destruct Ho as [-> ->]. exact Hin.
  - intros Hin. eexists. split; [exact Hin|]. cbn [fst snd].
    apply offset_delta; [exact Hf|exact Ht|]. split; reflexivity.
Qed.

Lemma knight_spec : forall b c f t, f < 64 -> t < 64 ->
  (test (knight_attacks f) t = true <-> attacks_from (pos_of_board b) c Knight f t = true).
Proof.
  intros b c f t Hf Ht. destruct (leapers_spec f t Hf Ht) as [H _]. rewrite H.
  rewrite pattern_delta by assumption. cbv beta iota zeta delta [attacks_from].
  unfold knight_offsets. cbn [In]. rewrite !pair_equal_spec. lia.
Qed.

Lemma king_spec : forall b c f t, f < 64 -> t < 64 ->
  (test (king_attacks f) t = true <-> attacks_from (pos_of_board b) c King f t = true).
Proof.
  intros b c f t Hf Ht. destruct (leapers_spec f t Hf Ht) as [_ [H _]]. rewrite H.
  rewrite pattern_delta by assumption. cbv beta iota zeta delta [attacks_from].
  unfold king_offsets. cbn [In]. rewrite !pair_equal_spec. lia.
Qed.

Lemma pawn_spec : forall b c f t, f < 64 -> t < 64 ->
  (test (pawn_attacks (is_white c) f) t = true <-> attacks_from (pos_of_board b) c Pawn f t = true).
Proof.
  intros b c f t Hf Ht. destruct (leapers_spec f t Hf Ht) as [_ [_ [Hw Hb]]].
  destruct c; cbn [is_white]; [rewrite Hw | rewrite Hb];
    rewrite pattern_delta by assumption; cbv beta iota zeta delta [attacks_from fwd];
    unfold white_pawn_offsets, black_pawn_offsets; cbn [In]; rewrite !pair_equal_spec; lia.
Qed.

Theorem piece_attacks_spec : forall b c k f t, f < 64 -> t < 64 ->
  (test (piece_attacks c k f (occupancy b)) t = true <-> attacks_from (pos_of_board b) c k f t = true).
Proof.
  intros b c k f t Hf Ht. destruct k; cbn [piece_attacks].
  - cbv beta iota zeta delta [attacks_from]. split; intros H; [destruct (test_0 _ H) | discriminate H].
  - apply pawn_spec; assumption.
  - apply knight_spec; assumption.
  - apply bishop_spec; assumption.
  - apply rook_spec; assumption.
  - apply queen_spec; assumption.
  - apply king_spec; assumption.
Qed.

(* ---------- attack maps ---------- *)

Lemma attacks_of_kind_test : forall b c k t,
  test (attacks_of_kind b c k) t = true <->
  exists f, test (pocc b c k) f = true /\ test (piece_attacks c k f (occupancy b)) t = true.
Proof.
  intros b c k t. unfold test, attacks_of_kind.
  rewrite fold_lor_test, N.bits_0, orb_false_l, existsb_exists.
  split; intros [f [H1 H2]]; exists f; (split; [|exact H2]); apply iter_ones_spec; exact H1.
Qed.

Lemma attacks_of_kind_spec : forall b c k t, WfBoard b -> t < 64 -> k <> PNone ->
  (test (attacks_of_kind b c k) t = true <->
   exists f, f < 64 /\ piece_at b f = Some (c, k) /\ attacks_from (pos_of_board b) c k f t = true).
Proof.
  intros b c k t Hwf Ht Hk. rewrite attacks_of_kind_test. split.
  - intros [f [H1 H2]].
    assert (Hf : f < 64) by (apply (test_lt64 (pocc b c k)); [apply wf_slots; exact Hwf | exact H1]).
    exists f. split; [exact Hf|]. split.
    + apply piece_at_spec; [exact Hwf|]. split; assumption.
    + apply piece_attacks_spec; assumption.
  - intros [f [Hf [H1 H2]]]. exists f. split.
    + apply (piece_at_spec b f c k Hwf) in H1. apply H1.
    + apply piece_attacks_spec; assumption.
Qed.

Lemma all_attacks_spec : forall b c t, WfBoard b -> t < 64 ->
  (N.testbit (fold_left (fun acc p => N.lor acc (attacks_of_kind b c p)) all_pieces 0) t = true <->
   exists f k, f < 64 /\ piece_at b f = Some (c, k) /\ attacks_from (pos_of_board b) c k f t = true).
Proof.
  intros b c t Hwf Ht. rewrite fold_lor_test, N.bits_0, orb_false_l, existsb_exists. split.
  - intros [k [Hin H]].
    assert (Hk : k <> PNone)
      by (intros ->; unfold all_pieces in Hin; cbn [In] in Hin; intuition discriminate).
    apply (attacks_of_kind_spec b c k t Hwf Ht Hk) in H. destruct H as [f H]. exists f, k. exact H.
  - intros [f [k [Hf [H1 H2]]]]. exists k.
    assert (Hk : k <> PNone) by (apply (piece_at_spec b f c k Hwf) in H1; apply H1).
    split.
    + destruct k; [congruence | ..]; unfold all_pieces; cbn [In]; repeat first [left; reflexivity | right].
    + apply (attacks_of_kind_spec b c k t Hwf Ht Hk). exists f. auto.
Qed.

Lemma not_own_test : forall b c t, WfBoard b -> t < 64 ->
  (N.testbit (lnot64 (colored_occ b c)) t = true <-> colour_at (pos_of_board b) t c = false).
Proof.
  intros b c t Hwf Ht. rewrite lnot64_spec, (colour_at_occ b t c Hwf). unfold test.
  destruct (N.ltb_spec t 64) as [_ | Hc]; [|lia].
  destruct (N.testbit (colored_occ b c) t); cbn [xorb]; split; intros H; (reflexivity || discriminate H).
Qed.

Theorem colored_attacks_spec : forall b c t, WfBoard b -> t < 64 ->
  (test (colored_attacks b c) t = true <->
     (exists f k, f < 64 /\ piece_at b f = Some (c, k) /\
                  attacks_from (pos_of_board b) c k f t = true)
     /\ colour_at (pos_of_board b) t c = false).
Proof.
  intros b c t Hwf Ht. unfold test, colored_attacks.
  rewrite N.land_spec, andb_true_iff, (all_attacks_spec b c t Hwf Ht), (not_own_test b c t Hwf Ht).
  reflexivity.
Qed.

Theorem colored_pawn_attacks_spec : forall b c t, WfBoard b -> t < 64 ->
  (test (colored_pawn_attacks b c) t = true <->
     (exists f, f < 64 /\ piece_at b f = Some (c, Pawn) /\
                attacks_from (pos_of_board b) c Pawn f t = true)
     /\ colour_at (pos_of_board b) t c = false).
Proof.
  intros b c t Hwf Ht. unfold test at 1. unfold colored_pawn_attacks.
  rewrite N.land_spec, andb_true_iff, (not_own_test b c t Hwf Ht).
  fold (test (attacks_of_kind b c Pawn) t).
  rewrite (attacks_of_kind_spec b c Pawn t Hwf Ht) by discriminate. reflexivity.
Qed.

Theorem attacked_spec : forall b c t,
  attacked (pos_of_board b) c t = true <->
  (exists f k, f < 64 /\ piece_at b f = Some (c, k) /\ attacks_from (pos_of_board b) c k f t = true).
Proof.
  intros b c t. unfold attacked. rewrite existsb_exists. split.
  - intros [f [Hin H]]. change all_squares with squares in Hin. apply squares_In in Hin.
    rewrite p_at_pos in H. destruct (piece_at b f) as [[c' k]|] eqn:E; [|discriminate H].
    apply andb_true_iff in H. destruct H as [Hc H]. apply color_eqb_eq in Hc. subst c'.
    exists f, k. auto.
  - intros [f [k [Hf [E H]]]]. exists f. split.
    + change all_squares with squares. apply squares_In. exact Hf.
    + rewrite p_at_pos, E, color_eqb_refl, H. reflexivity.
Qed.

Theorem is_check_spec : forall b c, WfBoard b ->
  (board_is_check b c = true <-> king_attacked (pos_of_board b) c = true).
Proof.
  intros b c Hwf. unfold board_is_check, king_attacked. rewrite any_test, existsb_exists. split.
  - intros [s Hs]. rewrite N.land_spec, andb_true_iff in Hs. destruct Hs as [Hk Ha].
    assert (Hs : s < 64) by (apply (test_lt64 (pocc b c King)); [apply wf_slots; exact Hwf | exact Hk]).
    exists s. split; [change all_squares with squares; apply squares_In; exact Hs|].
    apply andb_true_iff. split.
    + apply has_iff. rewrite p_at_pos. apply piece_at_spec; [exact Hwf|].
      split; [discriminate | exact Hk].
    + apply attacked_spec. apply (colored_attacks_spec b (opp c) s Hwf Hs) in Ha. apply Ha.
  - intros [s [Hin H]]. change all_squares with squares in Hin. apply squares_In in Hin.
    apply andb_true_iff in H. destruct H as [Hh Ha].
    apply has_iff in Hh. rewrite p_at_pos in Hh.
    exists s. rewrite N.land_spec, andb_true_iff. split.
    + apply (piece_at_spec b s c King Hwf) in Hh. apply Hh.
    + apply (colored_attacks_spec b (opp c) s Hwf Hin). split.
      * apply attacked_spec. exact Ha.
      * unfold colour_at. rewrite p_at_pos, Hh. apply color_eqb_opp.
Qed.

Theorem colored_attacks_lt : forall b c, WfBoard b -> colored_attacks b c < 2 ^ 64.
Proof.
  intros b c Hwf. unfold colored_attacks. rewrite N.land_comm. apply land_lt.
  apply lt_pow2_of_bits. intros k Hk. rewrite lnot64_spec.
  rewrite (testbit_high _ 64 k (colored_occ_lt b c Hwf) Hk).
  destruct (N.ltb_spec k 64); [lia | reflexivity].
Qed.

Theorem colored_pawn_attacks_lt : forall b c, WfBoard b -> colored_pawn_attacks b c < 2 ^ 64.
Proof.
  intros b c Hwf. unfold colored_pawn_attacks. rewrite N.land_comm. apply land_lt.
  apply lt_pow2_of_bits. intros k Hk. rewrite lnot64_spec.
  rewrite (testbit_high _ 64 k (colored_occ_lt b c Hwf) Hk).
  destruct (N.ltb_spec k 64); [lia | reflexivity].
Qed.

(* ---------- transfer to states: the attack predicates only read the placement ---------- *)

Lemma abs_attacks_from : forall s, attacks_from (abs s) = attacks_from (pos_of_board (st_board s)).
Proof. reflexivity. Qed.
Lemma abs_colour_at : forall s, colour_at (abs s) = colour_at (pos_of_board (st_board s)).
Proof. reflexivity. Qed.
Lemma abs_empty_at : forall s, empty_at (abs s) = empty_at (pos_of_board (st_board s)).
Proof. reflexivity. Qed.
Lemma abs_has : forall s, has (abs s) = has (pos_of_board (st_board s)).
Proof. reflexivity. Qed.
Lemma abs_attacked : forall s, attacked (abs s) = attacked (pos_of_board (st_board s)).
Proof. intros s. unfold attacked. rewrite abs_attacks_from. reflexivity. Qed.
Lemma abs_king_attacked : forall s, king_attacked (abs s) = king_attacked (pos_of_board (st_board s)).
Proof. intros s. unfold king_attacked. rewrite abs_attacked, abs_has. reflexivity. Qed.
Lemma abs_p_at : forall s, p_at (abs s) = piece_at (st_board s).
Proof. reflexivity. Qed.

Lemma abs_transfer : forall s,
  attacks_from (abs s) = attacks_from (pos_of_board (st_board s)) /\
  attacked (abs s) = attacked (pos_of_board (st_board s)) /\
  king_attacked (abs s) = king_attacked (pos_of_board (st_board s)) /\
  colour_at (abs s) = colour_at (pos_of_board (st_board s)) /\
  empty_at (abs s) = empty_at (pos_of_board (st_board s)) /\
  has (abs s) = has (pos_of_board (st_board s)).
Proof.
  intros s. exact (conj (abs_attacks_from s) (conj (abs_attacked s) (conj (abs_king_attacked s)
                  (conj (abs_colour_at s) (conj (abs_empty_at s) (abs_has s)))))).
Qed.

(* ---------- the OnceCell cache ---------- *)

Inductive cop := QAttacks (c : color) | QPawnAttacks (c : color) | QIsCheck (c : color)
               | QClone | QSwitchToClone.
Inductive cans := AnsBB (n : N) | AnsBool (v : bool) | AnsUnit.

(* one operation on (current board, saved clone); Board::is_check reads attack_map of the opponent;
   clone copies the cells with whatever they hold; switching continues on the clone (and keeps the
   previous object as the saved one) *)
Definition cstep (op : cop) (cur saved : cboard) : cans * cboard * cboard :=
  match op with
  | QAttacks c => let r := attack_map cur c in (AnsBB (fst (fst r)), snd r, saved)
  | QPawnAttacks c => let r := attack_map cur c in (AnsBB (snd (fst r)), snd r, saved)
  | QIsCheck c => let r := attack_map cur (opp c) in
                  (AnsBool (any (N.land (pocc (cb_board cur) c King) (fst (fst r)))), snd r, saved)
  | QClone => (AnsUnit, cur, cur)
  | QSwitchToClone => (AnsUnit, saved, cur)
  end.

Fixpoint run_queries (ops : list cop) (cur saved : cboard) : list cans :=
  match ops with
  | [] => []
  | op :: tl => let r := cstep op cur saved in
                fst (fst r) :: run_queries tl (snd (fst r)) (snd r)
  end.

Definition pure_answer (b : board) (op : cop) : cans :=
  match op with
  | QAttacks c => AnsBB (colored_attacks b c)
  | QPawnAttacks c => AnsBB (colored_pawn_attacks b c)
  | QIsCheck c => AnsBool (board_is_check b c)
  | QClone | QSwitchToClone => AnsUnit
  end.

(* each cell is empty or holds attack_map_pure of the board *)
Definition cache_ok (b : board) (cb : cboard) : Prop :=
  cb_board cb = b /\
  (cb_white cb = None \/ cb_white cb = Some (attack_map_pure b White)) /\
  (cb_black cb = None \/ cb_black cb = Some (attack_map_pure b Black)).

Lemma fresh_ok : forall b, cache_ok b (fresh b).
Proof. intros b. unfold cache_ok, fresh. cbn [cb_board cb_white cb_black]. auto. Qed.

Lemma attack_map_ok : forall b cb c, cache_ok b cb ->
  fst (attack_map cb c) = attack_map_pure b c /\ cache_ok b (snd (attack_map cb c)).
Proof.
  intros b cb c [Hb [Hw Hk]]. unfold attack_map. destruct c.
  - destruct Hw as [Hw | Hw]; rewrite Hw; cbn [fst snd].
    + rewrite Hb. split; [reflexivity|]. unfold cache_ok. cbn [cb_board cb_white cb_black]. auto.
    + split; [reflexivity|]. unfold cache_ok. auto.
  - destruct Hk as [Hk | Hk]; rewrite Hk; cbn [fst snd].
    + rewrite Hb. split; [reflexivity|]. unfold cache_ok. cbn [cb_board cb_white cb_black]. auto.
    + split; [reflexivity|]. unfold cache_ok. auto.
Qed.

Lemma cstep_ok : forall b op cur saved, cache_ok b cur -> cache_ok b saved ->
  fst (fst (cstep op cur saved)) = pure_answer b op /\
  cache_ok b (snd (fst (cstep op cur saved))) /\ cache_ok b (snd (cstep op cur saved)).
Proof.
  intros b op cur saved Hc Hs. destruct op as [c | c | c | | ]; unfold cstep; cbv zeta; cbn [fst snd pure_answer].
  - destruct (attack_map_ok b cur c Hc) as [E Hok]. rewrite E. auto.
  - destruct (attack_map_ok b cur c Hc) as [E Hok]. rewrite E. auto.
  - destruct (attack_map_ok b cur (opp c) Hc) as [E Hok]. rewrite E.
    destruct Hc as [Hb _]. rewrite Hb. auto.
  - auto.
  - auto.
Qed.

Theorem run_queries_pure_gen : forall b ops cur saved, cache_ok b cur -> cache_ok b saved ->
  run_queries ops cur saved = map (pure_answer b) ops.
Proof.
  intros b ops. induction ops as [|op tl IH]; intros cur saved Hc Hs; [reflexivity|].
  cbn [run_queries map]. cbv zeta.
  destruct (cstep_ok b op cur saved Hc Hs) as [E [Hc' Hs']].
  rewrite E, (IH _ _ Hc' Hs'). reflexivity.
Qed.

Theorem run_queries_pure : forall b ops,
  run_queries ops (fresh b) (fresh b) = map (pure_answer b) ops.
Proof. intros b ops. apply run_queries_pure_gen; apply fresh_ok. Qed.
