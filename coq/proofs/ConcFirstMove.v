(* C06, second clause ("... and the reported first move keeps it") for SEVERAL workers on one shared table,
   under EVERY schedule: what can be claimed, and what cannot.

   The one-worker proof (proofs/MateFirstMove.v) strengthens the table invariant of MateSound.v by KeepsOk
   ("an entry that is not an UpperBound and carries an evaluation >= POS_INF stores a generated legal move whose
   successor is Lost": EntryOk2 / TOk2) and then shows, for the ROOT call, that whenever the call returns
   ev >= POS_INF every entry found afterwards under the root key carries an evaluation >= POS_INF (root_wins:
   nobody but the root call writes under the root key, and the root call's last write carries its result).

   This file ports the first half - the strengthened invariant TOk2 - to the n-worker layer (model/Conc.v) as the
   instance of the rely/guarantee predicate `sat` of proofs/ConcRG.v with

     R_snd2 P hs h e := forall s, P s -> hash hs s = h -> EntryOk2 e s      (what a find may return under h)
     G_snd2 P hs h e := exists s, P s /\ h = hash hs s /\ EntryOk2 e s      (what a worker inserts under h)

   G_snd2 implies R_snd2 (G_snd2_R_snd2: G_snd_R_snd of ConcSound.v plus same_key_keeps), TabR R_snd2 is TOk2
   (TabR_TOk2), every analyzeP satisfies sat R_snd2 G_snd2 Q_snd (analyzeP_sound2: loopP_sound / nodeP_sound /
   analyzeP_sound of ConcSound.v with the clause `POS_INF <= alpha -> Keeps s bm` added to the loop invariant on
   `best`, exactly as loop_sound2 of MateFirstMove.v does), hence by run_workers_sat the table satisfies TOk2 at
   every moment of every interleaving of any number of workers (workers_first_move), and through the whole run
   of analyze_iterativeM (iterativeM_sound2).

   WHY THE SECOND HALF DOES NOT PORT, i.e. why this layer cannot claim "the reported first move keeps the mate"
   unconditionally.  analyze_iterativeM reports EvBest ev line where
     * ev   is the MAX over the workers' evaluations (join_results), and
     * line is read from the SHARED table AFTER the join (iter_moves on the table the workers left behind);
       its first move is the move of the entry found under the root key (iter_moves_root).
   All workers of an iteration search the same root, so all of them write under the root key, and the entry that
   is found there after the join is the LAST write among them - whose it is depends on the schedule.  Worker i
   searches to depth - (i mod 2) + 1: an odd worker searches one ply less.  So worker 0 may see the mate and
   return ev >= POS_INF (this is what is reported), while the root entry that survives is the last write of a
   worker that searched one ply less and saw no mate: that entry carries an evaluation below POS_INF and its move
   is just that worker's best guess.  The one-worker argument "the root call's last write carries its result"
   (root_wins) has no counterpart: the reported evaluation and the reported line come from different workers.
   What remains true under every schedule is the table invariant, and it gives exactly the CONDITION under which
   the claim holds (item 3, workers_first_move / first_moveM_workers): IF the root entry found in the table the
   line is read from carries an evaluation >= POS_INF and is not an UpperBound, THEN the first move of the line
   leads to a position that is Lost for the opponent.  When that entry's evaluation is below POS_INF the
   theorem says nothing about the move beyond its legality (iter_moves_head).

   This is not only a gap in the proof method: the scenario happens in the model (Example
   fm_kr2_line_of_other_worker at the end of this file; position kr2 of MateFirstMove.v, two workers, the
   smallest table, the schedule "worker 0 takes 80 steps of the third iteration - which evict the old root entry
   from the 8-slot bucket -, worker 1 runs up to its last insert, worker 0 runs to its end, worker 1 inserts").
   The run reports EvBest 10700 [268484612]: 10700 (mate in 3 plies) is worker 0's result, the move 268484612 is
   worker 1's, whose depth-2 search returned 600; the root entry found after the join is
   (Exact, 268484612, depth 0/2, 600).  Under the sequential schedule the same run reports
   EvBest 10700 [268490454], worker 0's mating move.  So the key lemma of the one-worker proof (root_wins /
   WinsAt: "after a result >= POS_INF every entry found under the root key has an evaluation >= POS_INF") is
   FALSE in this layer.  (Evaluated outside this file, `Eval lazy`, 123 s: 268484612 is a generated legal move
   and the position after it is NOT lost within 2 plies - loss 2 = false, while loss 2 = true after 268490454 -
   so the reported move does not keep the reported mate in 3.  The unbounded `Keeps` is not refuted by this
   example: in K+R v K every move that keeps the rook keeps a longer forced mate; a refutation of `Keeps` itself
   would need a position in which the shallower worker's move gives the win away, and none is exhibited here.)

   Event-level form of the invariant (iterativeM_heads / first_moveM_heads): every reported line's first move is
   the move of an entry e with EntryOk2 e s - it is legal, and it keeps the mate whenever e itself claims one.

   Residues: the same as in ConcSound.v (a region P with HashRuleOn P hs and HeurNTOn P). *)
From Coq Require Import NArith ZArith List Bool Lia ZifyBool ZifyN ZifyNat.
From WV Require Import Types Bits Attacks Board MoveEnc MoveGen Text Table Eval Search Conc.
From WV Require Import Rules Abs Wf Encode GameValue.
From WV Require Import BoardProofs GenLegal TableProofs HashProofs EvalProofs EvalBound SearchBase SearchProofs SearchSafety.
From WV Require Import MateSound MateFirstMove ConcSeq ConcRG ConcSound.
Import ListNotations.
Import WV.Bits.
Open Scope Z_scope.

(* ------------------------------------------------------------------ *)
(* the instance                                                         *)
(* ------------------------------------------------------------------ *)

Definition R_snd2 (P : state -> Prop) (hs : hasher) (h : N) (e : entry) : Prop :=
  forall s, P s -> hash hs s = h -> EntryOk2 e s.

Definition G_snd2 (P : state -> Prop) (hs : hasher) (h : N) (e : entry) : Prop :=
  exists s, P s /\ h = hash hs s /\ EntryOk2 e s.

Lemma R_snd2_R_snd : forall P hs h e, R_snd2 P hs h e -> R_snd P hs h e.
Proof. intros P hs h e H s HP Hh. exact (proj1 (H s HP Hh)). Qed.

Lemma G_snd2_G_snd : forall P hs h e, G_snd2 P hs h e -> G_snd P hs h e.
Proof. intros P hs h e (s & HP & Hh & Hs). exists s. split; [exact HP|]. split; [exact Hh|exact (proj1 Hs)]. Qed.

Section FirstM.
Variable hs : hasher.
Variable P : state -> Prop.
Hypothesis HR : HashRuleOn P hs.
Hypothesis P_legal : forall s, P s -> LegalPos s.
Hypothesis P_step : forall s m ns, P s -> In (m, ns) (gen_legal s) -> P ns.
Hypothesis P_heur : HeurNTOn P.

(* ---- (1) the guarantee implies the rely; TabR is TOk2 ---- *)

Lemma G_snd2_R_snd2 : forall h e, G_snd2 P hs h e -> R_snd2 P hs h e.
Proof.
  intros h e Hg s' HP' Hh. split.
  - exact (G_snd_R_snd hs P HR P_legal h e (G_snd2_G_snd P hs h e Hg) s' HP' Hh).
  - destruct Hg as (s & HP & -> & [_ Hk]).
    assert (Ekey : rulekey s = rulekey s') by (apply HR; [exact HP|exact HP'|congruence]).
    intros H1 H2. exact (same_key_keeps s s' (e_move e) (P_legal s HP) (P_legal s' HP') Ekey (Hk H1 H2)).
Qed.

Lemma TabR_TOk2 : forall tt, TabR (R_snd2 P hs) tt <-> TOk2 P hs tt.
Proof.
  intros tt. unfold TabR, TOk2, R_snd2. split; intros [H1 H2]; (split; [exact H1|]).
  - intros h e Hf s HP Hh. exact (H2 h e Hf s HP Hh).
  - intros h e Hf s HP Hh. exact (H2 h e Hf s HP Hh).
Qed.

(* ---- (2) the move loop, a node, analyzeP ---- *)

Notation SAT2 := (sat (R_snd2 P hs) (G_snd2 P hs)).

Definition recP_ok2 (recP : recP_t) : Prop :=
  forall ns md cd ce a b st, P ns -> a < b -> SAT2 (Q_snd ns a b) (recP ns md cd ce a b None st).

(* a = the node's alpha, b = the node's beta; alpha / b1 = the running window *)
Lemma loopP_sound2 : forall (recP : recP_t), recP_ok2 recP ->
  forall s md cd ce ext a b b1 prev, P s -> b1 <= b -> (b1 <= NEG_INF -> b1 < b -> Lost s) ->
  forall l, (forall m, In m l -> In m (MoveGen.pseudo_legal s)) ->
  forall alpha best kind st,
    a <= alpha -> alpha < b1 ->
    (POS_INF <= alpha -> a < alpha -> Won s) ->
    (forall bm, best = Some bm -> kind = Exact /\ a < alpha /\ In bm (MoveGen.legal_moves s) /\
                                  (POS_INF <= alpha -> Keeps s bm)) ->
    (prev = l_nodes st \/ gen_legal s <> []) ->
    (forall m ns, In (m, ns) (gen_legal s) -> In m l \/ (alpha <= NEG_INF -> Won ns)) ->
    SAT2 (Q_snd s a b) (loop_bodyP recP s (hash hs s) md cd ce ext b1 prev l alpha best kind st).
Proof.
  intros recP Hrec s md cd ce ext a b b1 prev HP Hb1 HK l. pose proof (P_legal s HP) as HL. infs.
  induction l as [|m tl IH]; intros Hl alpha best kind st Hge Hab HJ Hbest Hprev Hcov; cbn [loop_bodyP].
  - destruct (prev =? l_nodes st)%N eqn:Hpn.
    + destruct (evaluate s (st_turn s) cd) as [v|] eqn:Ee; [|apply sat_ret; exact Logic.I].
      apply sat_ret. cbn [Q_snd]. destruct (eval_sound P P_legal P_step P_heur s cd v HP Ee) as (Hlt & Hlost & _).
      split; [intros Hp _; lia|intros Hn _; exact (Hlost Hn)].
    + assert (Hne : gen_legal s <> []).
      { destruct Hprev as [E|E]; [|exact E]. apply N.eqb_neq in Hpn. contradiction. }
      assert (HLs : alpha <= NEG_INF -> Lost s).
      { intros Hn. apply (lost_of_children_won s HL Hne). intros m ns Hin.
        destruct (Hcov m ns Hin) as [[]|Hw]. exact (Hw Hn). }
      destruct best as [bm|].
      * destruct (Hbest bm eq_refl) as (-> & Haa & Hbm & Hkeep).
        apply sat_ins.
        -- exists s. split; [exact HP|]. split; [reflexivity|]. split; [split; [|exact Hbm]|].
           ++ split; cbn [e_eval e_kind]; [intros H1 _; exact (HJ H1 Haa) | intros H1 _; exact (HLs H1)].
           ++ intros H1 _. cbn [e_eval e_move] in H1 |- *. exact (Hkeep H1).
        -- apply sat_ret. cbn [Q_snd]. split; [exact HJ|intros Hn _; exact (HLs Hn)].
      * apply sat_ret. cbn [Q_snd]. split; [exact HJ|intros Hn _; exact (HLs Hn)].
  - assert (Htl : forall m', In m' tl -> In m' (MoveGen.pseudo_legal s)) by (intros m' Hm'; apply Hl; right; exact Hm').
    destruct (apply_move s m) as [ns|] eqn:Ha; [|apply sat_ret; exact Logic.I].
    fold (king_hit s ns). destruct (king_hit s ns) eqn:Hk.
    + apply IH; try assumption.
      intros m' ns' Hin. destruct (Hcov m' ns' Hin) as [[<-|Hm']|Hw]; [|left; exact Hm'|right; exact Hw].
      exfalso. destruct (gen_legal_not_hit s m ns' Hin) as (_ & Ha' & Hk'). rewrite Ha in Ha'. injection Ha' as <-.
      rewrite Hk in Hk'. discriminate Hk'.
    + destruct (searched_move s m ns HL (Hl m (or_introl eq_refl)) Ha Hk) as (Hg & _ & Hml).
      pose proof (P_step s m ns HP Hg) as HPn.
      assert (Hwin : - b1 < - alpha) by lia.
      apply (sat_bind _ _ _ _ (Q_snd ns (- b1) (- alpha)));
        [exact (Hrec ns (md + ext)%N (cd + 1 + ext)%N (ce + ext)%N (- b1) (- alpha) st HPn Hwin)|].
      intros r Hc. destruct r as [r st'|site|]; [|apply sat_ret; exact Logic.I|apply sat_ret; exact Logic.I].
      cbn [Q_snd] in Hc. destruct Hc as (HcW & HcL).
      assert (Hne : gen_legal s <> []) by (intros E; rewrite E in Hg; destruct Hg).
      assert (Hsame : forall ns', In (m, ns') (gen_legal s) -> ns' = ns).
      { intros ns' Hin. destruct (gen_legal_not_hit s m ns' Hin) as (_ & Ha' & _). rewrite Ha in Ha'.
        injection Ha' as <-. reflexivity. }
      cbv zeta. destruct (b1 <=? - r) eqn:Hcut.
      * assert (HKp : POS_INF <= b1 -> Keeps s m).
        { intros Hp. exists ns. split; [exact Hg|]. apply HcL; lia. }
        assert (HW : POS_INF <= b1 -> Won s).
        { intros Hp. apply (won_of_child_lost s m ns HL Hg). apply HcL; lia. }
        apply sat_ins.
        -- exists s. split; [exact HP|]. split; [reflexivity|]. split; [split; [|exact Hml]|].
           ++ split; cbn [e_eval e_kind]; [intros H1 _; exact (HW H1) | intros _ [H2|H2]; discriminate H2].
           ++ intros H1 _. cbn [e_eval e_move] in H1 |- *. exact (HKp H1).
        -- apply sat_ret. cbn [Q_snd]. split; [intros H1 _; exact (HW H1)|exact HK].
      * destruct (alpha <? - r) eqn:Hr.
        -- apply IH; [exact Htl|lia|lia| | | |].
           ++ intros Hp _. apply (won_of_child_lost s m ns HL Hg). apply HcL; lia.
           ++ intros bm E. injection E as <-. split; [reflexivity|]. split; [lia|]. split; [exact Hml|].
              intros Hp. exists ns. split; [exact Hg|]. apply HcL; lia.
           ++ right. exact Hne.
           ++ intros m' ns' Hin. destruct (Hcov m' ns' Hin) as [[<-|Hm']|Hw]; [|left; exact Hm'|].
              ** right. intros Hn. rewrite (Hsame ns' Hin). apply HcW; lia.
              ** right. intros Hn. apply Hw. lia.
        -- apply IH; [exact Htl|exact Hge|exact Hab|exact HJ|exact Hbest| |].
           ++ right. exact Hne.
           ++ intros m' ns' Hin. destruct (Hcov m' ns' Hin) as [[<-|Hm']|Hw]; [|left; exact Hm'|right; exact Hw].
              right. intros Hn. rewrite (Hsame ns' Hin). apply HcW; lia.
Qed.

Lemma nodeP_sound2 : forall history jit (recP : recP_t), recP_ok2 recP ->
  forall s md cd ce a b prio st, P s -> a < b ->
  (forall pm, prio = Some pm -> In pm (MoveGen.legal_moves s)) ->
  SAT2 (Q_snd s a b) (node_bodyP hs history jit recP s md cd ce a b prio st).
Proof.
  intros history jit recP Hrec s md cd ce a b prio st HP Hab Hprio.
  pose proof (P_legal s HP) as HL. infs. unfold node_bodyP. cbv zeta.
  destruct ((0 <? cd)%N && in_history history (hash hs s)).
  - apply sat_ret. cbn [Q_snd]. unfold EVEN. split; intros; lia.
  - apply sat_find. intros r Hr.
    assert (Hr1 : forall e, r = Some e -> R_snd P hs (hash hs s) e).
    { intros e E. exact (R_snd2_R_snd P hs _ e (Hr e E)). }
    pose proof (probe_of_sound hs P P_legal P_step r s md cd a b Hr1 HP Hab) as Hp.
    destruct (probe_of r md cd a b) as [v|a1 b1|site]; [| |apply sat_ret; exact Logic.I].
    + apply sat_ret. cbn [Q_snd]. exact Hp.
    + destruct Hp as (Hge & Hlt & Hle & HJ & HK).
      destruct (md <=? cd)%N.
      * destruct (quiesce (S (men s)) s cd a1 b1) as [v|site|] eqn:Eq; [|apply sat_ret; exact Logic.I|apply sat_ret; exact Logic.I].
        apply sat_ret. cbn [Q_snd].
        destruct (quiesce_sound P P_legal P_step P_heur _ _ _ _ _ _ HP Hlt Eq) as [Q1 Q2].
        split.
        -- intros Hp Hav. destruct (Z_lt_le_dec a1 v) as [Hc|Hc]; [exact (Q1 Hp Hc)|]. apply HJ; lia.
        -- intros Hn Hvb. destruct (Z_lt_le_dec v b1) as [Hc|Hc]; [exact (Q2 Hn Hc)|]. apply HK; lia.
      * apply (loopP_sound2 recP Hrec s md cd ce _ a b b1 _ HP Hle HK).
        -- intros m Hm.
           assert (Hin : In m (ordered_moves jit s (l_jidx st) prio)) by exact Hm.
           apply ordered_moves_in in Hin. destruct Hin as [Hin|Hin]; [exact Hin|].
           apply legal_in_pseudo. exact (Hprio m Hin).
        -- exact Hge.
        -- exact Hlt.
        -- exact HJ.
        -- intros bm E. discriminate E.
        -- left. reflexivity.
        -- intros m ns Hin. left.
           change (In m (ordered_moves jit s (l_jidx st) prio)). apply ordered_moves_complete.
           exact (proj1 (gen_legal_not_hit s m ns Hin)).
Qed.

Theorem analyzeP_sound2 : forall history jit fuel s md cd ce a b prio st,
  P s -> a < b -> (forall pm, prio = Some pm -> In pm (MoveGen.legal_moves s)) ->
  sat (R_snd2 P hs) (G_snd2 P hs) (Q_snd s a b) (analyzeP hs history jit fuel s md cd ce a b prio st).
Proof.
  intros history jit. induction fuel as [|k IH]; intros s md cd ce a b prio st HP Hab Hprio; cbn [analyzeP].
  - apply sat_ret. exact Logic.I.
  - apply nodeP_sound2; try assumption.
    intros ns md' cd' ce' a' b' st' HPn Hab'. apply IH; try assumption. intros pm E. discriminate E.
Qed.

(* ---- (3) the workers of one iteration, every schedule ---- *)

Lemma workers_sound2 : forall jit_of depth s history bm (l : list nat), P s ->
  (forall m, bm = Some m -> In m (MoveGen.legal_moves s)) ->
  Forall (sat (R_snd2 P hs) (G_snd2 P hs) (Q_snd s (- mate_in_ply 0) (mate_in_ply 0)))
         (map (worker_prog hs jit_of depth s history bm) l).
Proof.
  intros jit_of depth s history bm l HP Hbm. apply Forall_forall. intros p Hp.
  apply in_map_iff in Hp. destruct Hp as (i & <- & _). unfold worker_prog.
  apply analyzeP_sound2; [exact HP|exact root_window|].
  destruct i as [|i']; [exact Hbm|intros pm E; discriminate E].
Qed.

(* the line read out of a TOk2 table: its first move is the move of the root entry, and that entry - if it
   claims a mate - keeps it *)
Lemma line_head_keeps : forall tt s, TOk2 P hs tt -> P s ->
  forall fuel idx maxd mv tl e, iter_moves hs fuel tt s idx maxd = mv :: tl ->
  acc_find tt (hash hs s) = Some e -> POS_INF <= e_eval e -> e_kind e <> UpperBound -> Keeps s mv.
Proof.
  intros tt s [_ Hen] HP fuel idx maxd mv tl e El Ef Hp Hk.
  destruct (iter_moves_root hs fuel tt s idx maxd mv tl El) as (e' & Ef' & <-).
  rewrite Ef in Ef'. injection Ef' as <-.
  exact (proj2 (Hen _ e Ef s HP eq_refl) Hp Hk).
Qed.

Theorem workers_first_move : forall jit_of depth s history bm workers sched tt,
  P s -> TOk2 P hs tt -> (forall m, bm = Some m -> In m (MoveGen.legal_moves s)) ->
  let '(rs, tt', _) := run_workers sched (map (worker_prog hs jit_of depth s history bm) (seq 0 workers)) tt in
  TOk2 P hs tt' /\ Forall (Q_snd s (- mate_in_ply 0) (mate_in_ply 0)) rs /\
  (forall fuel mv tl e, iter_moves hs fuel tt' s 0 depth = mv :: tl ->
     acc_find tt' (hash hs s) = Some e -> POS_INF <= e_eval e -> e_kind e <> UpperBound -> Keeps s mv).
Proof.
  intros jit_of depth s history bm workers sched tt HP HT Hbm.
  pose proof (run_workers_sat (R_snd2 P hs) (G_snd2 P hs) (Q_snd s (- mate_in_ply 0) (mate_in_ply 0)) G_snd2_R_snd2 sched
                (map (worker_prog hs jit_of depth s history bm) (seq 0 workers)) tt
                (workers_sound2 jit_of depth s history bm (seq 0 workers) HP Hbm)
                (proj2 (TabR_TOk2 tt) HT)) as Hrw.
  destruct (run_workers sched (map (worker_prog hs jit_of depth s history bm) (seq 0 workers)) tt) as [[rs tt1] sched1].
  destruct Hrw as (Hrs & HT1 & _). apply TabR_TOk2 in HT1.
  split; [exact HT1|]. split; [exact Hrs|].
  intros fuel mv tl e El Ef Hp Hk. exact (line_head_keeps tt1 s HT1 HP fuel 0%N depth mv tl e El Ef Hp Hk).
Qed.

(* ---- (4) the iterative driver with n workers ---- *)

(* every reported line starts with the move of an entry that satisfied the strengthened invariant for the root *)
Definition EvHead (s : state) (l : list event) : Prop :=
  forall ev mv tl, In (EvBest ev (mv :: tl)) l -> exists e, e_move e = mv /\ EntryOk2 e s.

Lemma iterateM_sound2 : forall jit_of workers iters depth s history tt sched nt bm acc,
  P s -> TOk2 P hs tt -> (forall m, bm = Some m -> In m (MoveGen.legal_moves s)) -> EvSound s acc -> EvHead s acc ->
  let r := iterateM hs jit_of workers iters depth s history tt sched nt bm acc in
  EvSound s (m_events r) /\ TOk2 P hs (m_tt r) /\ EvHead s (m_events r).
Proof.
  intros jit_of workers iters. induction iters as [|k IH];
    intros depth s history tt sched nt bm acc HP HT Hbm Hacc Hhd; cbn [iterateM].
  - cbn [m_events m_tt]. split; [|split; [exact HT|]].
    + intros ev line Hin. apply in_rev in Hin. exact (Hacc ev line Hin).
    + intros ev mv tl Hin. apply in_rev in Hin. exact (Hhd ev mv tl Hin).
  - assert (Hrev : forall l, EvSound s l -> EvSound s (rev l)).
    { intros l H ev line Hin. apply in_rev in Hin. exact (H ev line Hin). }
    assert (Hrevh : forall l, EvHead s l -> EvHead s (rev l)).
    { intros l H ev mv tl Hin. apply in_rev in Hin. exact (H ev mv tl Hin). }
    cbv zeta. infs.
    pose proof (workers_first_move jit_of depth s history bm workers sched tt HP HT Hbm) as Hrw.
    destruct (run_workers sched (map (worker_prog hs jit_of depth s history bm) (seq 0 workers)) tt) as [[rs tt1] sched1].
    destruct Hrw as (HT1 & Hrs & _).
    destruct (join_results rs None 0) as [[best n] oc] eqn:Ej.
    destruct oc as [|poc];
      [|destruct best; cbn [m_events m_tt]; (split; [apply Hrev; exact Hacc|split; [exact HT|apply Hrevh; exact Hhd]])].
    destruct best as [ev|]; [|cbn [m_events m_tt]; split; [apply Hrev; exact Hacc|split; [exact HT1|apply Hrevh; exact Hhd]]].
    assert (Hev : POS_INF <= ev -> Won s).
    { intros Hp. apply (join_results_sound0 s (- mate_in_ply 0) (mate_in_ply 0) rs ev n Ej Hrs Hp).
      assert (E : mate_in_ply 0 = 11000) by reflexivity. lia. }
    destruct (iter_moves hs (S (S (N.to_nat depth))) tt1 s 0 depth) as [|mv tl] eqn:El.
    + cbn [m_events m_tt]. split; [|split; [exact HT1|]].
      * apply Hrev. intros ev' line [E|Hin]; [discriminate E|exact (Hacc ev' line Hin)].
      * apply Hrevh. intros ev' mv' tl' [E|Hin]; [discriminate E|exact (Hhd ev' mv' tl' Hin)].
    + assert (Hacc2 : EvSound s (EvBest ev (mv :: tl) :: EvProgress (depth + 1)%N (nt + n)%N :: acc)).
      { intros ev' line [E|[E|Hin]]; [|discriminate E|exact (Hacc ev' line Hin)].
        injection E as <- _. exact Hev. }
      assert (Hhd2 : EvHead s (EvBest ev (mv :: tl) :: EvProgress (depth + 1)%N (nt + n)%N :: acc)).
      { intros ev' mv' tl' [E|[E|Hin]]; [|discriminate E|exact (Hhd ev' mv' tl' Hin)].
        injection E as _ <- _.
        destruct (iter_moves_root hs _ _ _ _ _ _ _ El) as (e & Ef & Em).
        exists e. split; [exact Em|]. exact (proj2 HT1 _ e Ef s HP eq_refl). }
      destruct (POS_INF <=? ev);
        [cbn [m_events m_tt]; split; [apply Hrev; exact Hacc2|split; [exact HT1|apply Hrevh; exact Hhd2]]|].
      apply IH; [exact HP|exact HT1| |exact Hacc2|exact Hhd2].
      intros m E. injection E as <-.
      exact (iter_moves_head hs P _ _ _ _ _ _ _ (TOk_of_TOk2 P hs _ HT1) HP El).
Qed.

Theorem iterativeM_sound2 : forall jit_of workers iters s history tt sched,
  P s -> TOk2 P hs tt ->
  let r := analyze_iterativeM hs jit_of workers iters s history tt sched in
  (forall ev line, In (EvBest ev line) (m_events r) -> POS_INF <= ev -> Won s) /\ TOk2 P hs (m_tt r).
Proof.
  intros jit_of workers iters s history tt sched HP HT. unfold analyze_iterativeM.
  assert (Hbm : forall m, @None N = Some m -> In m (MoveGen.legal_moves s)) by (intros m E; discriminate E).
  assert (Hs0 : EvSound s []) by (intros ev line []).
  assert (Hh0 : EvHead s []) by (intros ev mv tl []).
  destruct (iterateM_sound2 jit_of workers iters 0%N s
              (if existsb (N.eqb (hash hs s)) history then history else hash hs s :: history) tt sched 0%N None []
              HP HT Hbm Hs0 Hh0) as (H1 & H2 & _).
  split; [exact H1|exact H2].
Qed.

(* the same run, what each reported line's head is: the move of an entry e with EntryOk2 e s (legal; keeps the
   mate whenever e carries an evaluation >= POS_INF and is not an UpperBound) *)
Theorem iterativeM_heads : forall jit_of workers iters s history tt sched,
  P s -> TOk2 P hs tt ->
  let r := analyze_iterativeM hs jit_of workers iters s history tt sched in
  forall ev mv tl, In (EvBest ev (mv :: tl)) (m_events r) ->
    exists e, e_move e = mv /\ In mv (MoveGen.legal_moves s) /\
              (POS_INF <= e_eval e -> e_kind e <> UpperBound -> Keeps s mv).
Proof.
  intros jit_of workers iters s history tt sched HP HT. unfold analyze_iterativeM.
  assert (Hbm : forall m, @None N = Some m -> In m (MoveGen.legal_moves s)) by (intros m E; discriminate E).
  assert (Hs0 : EvSound s []) by (intros ev line []).
  assert (Hh0 : EvHead s []) by (intros ev mv tl []).
  destruct (iterateM_sound2 jit_of workers iters 0%N s
              (if existsb (N.eqb (hash hs s)) history then history else hash hs s :: history) tt sched 0%N None []
              HP HT Hbm Hs0 Hh0) as (_ & _ & H3).
  intros ev mv tl Hin. destruct (H3 ev mv tl Hin) as (e & <- & [[_ Hm] Hk]).
  exists e. split; [reflexivity|]. split; [exact Hm|exact Hk].
Qed.

End FirstM.

(* ------------------------------------------------------------------ *)
(* final forms                                                          *)
(* ------------------------------------------------------------------ *)

(* the guarantee implies the rely (the only place HashRuleOn is used) *)
Theorem first_moveM_guarantee_rely : forall hs P, HashRuleOn P hs -> Region P ->
  forall h e, G_snd2 P hs h e -> R_snd2 P hs h e.
Proof. intros hs P HR [HPl _]. exact (G_snd2_R_snd2 hs P HR HPl). Qed.

(* one worker program, region form *)
Theorem first_moveM_call : forall hs P, HashRuleOn P hs -> Region P -> HeurNTOn P ->
  forall history jit fuel s md cd ce a b prio st,
  P s -> a < b -> (forall pm, prio = Some pm -> In pm (MoveGen.legal_moves s)) ->
  sat (R_snd2 P hs) (G_snd2 P hs) (Q_snd s a b) (analyzeP hs history jit fuel s md cd ce a b prio st).
Proof.
  intros hs P HR [HPl HPs] HPh history jit fuel s md cd ce a b prio st HP Hab Hprio.
  exact (analyzeP_sound2 hs P HPl HPs HPh history jit fuel s md cd ce a b prio st HP Hab Hprio).
Qed.

(* item 3: any number of workers on one table, any schedule; the condition under which the first move of the
   line read afterwards keeps the mate *)
Theorem first_moveM_workers : forall hs P, HashRuleOn P hs -> Region P -> HeurNTOn P ->
  forall jit_of depth s history bm workers sched tt,
  P s -> TOk2 P hs tt -> (forall m, bm = Some m -> In m (MoveGen.legal_moves s)) ->
  let '(rs, tt', _) := run_workers sched (map (worker_prog hs jit_of depth s history bm) (seq 0 workers)) tt in
  TOk2 P hs tt' /\ Forall (Q_snd s (- mate_in_ply 0) (mate_in_ply 0)) rs /\
  (forall fuel mv tl e, iter_moves hs fuel tt' s 0 depth = mv :: tl ->
     acc_find tt' (hash hs s) = Some e -> POS_INF <= e_eval e -> e_kind e <> UpperBound -> Keeps s mv).
Proof.
  intros hs P HR [HPl HPs] HPh jit_of depth s history bm workers sched tt HP HT Hbm.
  exact (workers_first_move hs P HR HPl HPs HPh jit_of depth s history bm workers sched tt HP HT Hbm).
Qed.

(* item 4: the strengthened invariant survives the whole run, the reported score is sound *)
Theorem first_moveM_table : forall hs P, HashRuleOn P hs -> Region P -> HeurNTOn P ->
  forall jit_of workers iters s history tt sched, P s -> TOk2 P hs tt ->
  let r := analyze_iterativeM hs jit_of workers iters s history tt sched in
  (forall ev line, In (EvBest ev line) (m_events r) -> POS_INF <= ev -> Won s) /\ TOk2 P hs (m_tt r).
Proof.
  intros hs P HR [HPl HPs] HPh jit_of workers iters s history tt sched HP HT.
  exact (iterativeM_sound2 hs P HR HPl HPs HPh jit_of workers iters s history tt sched HP HT).
Qed.

(* every reported line starts with the move of an entry that was correct for the root *)
Theorem first_moveM_heads : forall hs P, HashRuleOn P hs -> Region P -> HeurNTOn P ->
  forall jit_of workers iters s history tt sched, P s -> TOk2 P hs tt ->
  let r := analyze_iterativeM hs jit_of workers iters s history tt sched in
  forall ev mv tl, In (EvBest ev (mv :: tl)) (m_events r) ->
    exists e, e_move e = mv /\ In mv (MoveGen.legal_moves s) /\
              (POS_INF <= e_eval e -> e_kind e <> UpperBound -> Keeps s mv).
Proof.
  intros hs P HR [HPl HPs] HPh jit_of workers iters s history tt sched HP HT.
  exact (iterativeM_heads hs P HR HPl HPs HPh jit_of workers iters s history tt sched HP HT).
Qed.

(* instance: the positions reachable from the root, from the empty table *)
Theorem first_moveM_table_reach_fresh : forall hs s, LegalPos s -> HashRuleOn (Reach s) hs -> HeurNTOn (Reach s) ->
  forall jit_of workers iters history nt nb sched, (0 < nt)%nat -> (0 < nb)%nat ->
  let r := analyze_iterativeM hs jit_of workers iters s history (empty_access nt nb) sched in
  (forall ev line, In (EvBest ev line) (m_events r) -> POS_INF <= ev -> exists n, Win n (abs s)) /\
  TOk2 (Reach s) hs (m_tt r).
Proof.
  intros hs s HL HR HH jit_of workers iters history nt nb sched Hnt Hnb.
  destruct (first_moveM_table hs (Reach s) HR (Reach_region s HL) HH jit_of workers iters s history
              (empty_access nt nb) sched (Reach_root s) (TOk2_empty _ hs nt nb Hnt Hnb)) as (H1 & H2).
  split; [|exact H2]. intros ev line Hin Hp. apply Won_iff_Win. exact (H1 ev line Hin Hp).
Qed.

(* the scenario of the header, in the model: the reported evaluation is worker 0's (mate in 3 plies), the reported
   move and the root entry are worker 1's (depth-2 search, evaluation 600); under the sequential schedule the
   reported move is worker 0's mating move *)
Definition bests (l : list event) : list event :=
  filter (fun e => match e with EvBest _ _ => true | _ => false end) l.

Example fm_kr2_line_of_other_worker :
  let run := analyze_iterativeM fm_hx (fun _ _ _ => 0) 2 3 fm_kr2 [] (empty_access 1 1) in
  let r := run (repeat 0%N 169 ++ repeat 1%N 46) in
  let r0 := run [] in
  (bests (m_events r), acc_find (m_tt r) (hash fm_hx fm_kr2), m_outcome r, m_sched r) =
    ([EvBest 620 [268473046%N]; EvBest 588 [268473046%N; 56310%N]; EvBest 10700 [268484612%N]],
     Some (mkEntry Exact 268484612%N 0%N 2%N 600), 0%N, []) /\
  (bests (m_events r0), acc_find (m_tt r0) (hash fm_hx fm_kr2), m_outcome r0) =
    ([EvBest 620 [268473046%N]; EvBest 588 [268473046%N; 56310%N]; EvBest 10700 [268490454%N]],
     Some (mkEntry Exact 268490454%N 0%N 3%N 10700), 0%N) /\
  (POS_INF <=? 10700) = true /\ (600 <? POS_INF) = true.
Proof.
  split; [|split; [|split; reflexivity]];
    match goal with |- _ = ?rhs => vm_cast_no_check (@eq_refl _ rhs) end.
Qed.

Print Assumptions first_moveM_guarantee_rely.
Print Assumptions first_moveM_call.
Print Assumptions first_moveM_workers.
Print Assumptions first_moveM_table.
Print Assumptions first_moveM_heads.
Print Assumptions first_moveM_table_reach_fresh.
