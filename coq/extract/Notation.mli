open BinNat
open BinNums
open Bits
open Datatypes
open List
open MoveEnc
open Text
open Types

val starts_with : text -> text -> bool

val promo_of_letter : coq_N -> piece option

val piece_of_letter : coq_N -> piece option

val set_q_piece : mquery -> piece -> mquery

val set_q_orank : mquery -> coq_N -> mquery

val set_q_ofile : mquery -> coq_N -> mquery

val set_q_drank : mquery -> coq_N -> mquery

val set_q_dfile : mquery -> coq_N -> mquery

val set_q_promotion : mquery -> piece -> mquery

val set_q_capture : mquery -> bool -> mquery

val q_castling : bool -> mquery

val san_parse : text -> mquery option

val lan_write : coq_N -> text

val peg_write : coq_N -> text

val take_bytes : text -> coq_N -> nat -> (text * text) option

val uci_move_query : text -> mquery result
