
type positive =
| Coq_xI of positive
| Coq_xO of positive
| Coq_xH

type coq_N =
| N0
| Npos of positive

type coq_Z =
| Z0
| Zpos of positive
| Zneg of positive
