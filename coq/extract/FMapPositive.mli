open BinNums

module PositiveMap :
 sig
  type key = positive

  type 'a tree =
  | Leaf
  | Node of 'a tree * 'a option * 'a tree

  type 'a t = 'a tree

  val empty : 'a1 t

  val find : key -> 'a1 t -> 'a1 option

  val add : key -> 'a1 -> 'a1 t -> 'a1 t
 end
