open BinNat
open BinNums
open Bits
open Consts
open Datatypes
open FMapPositive
open List

(** val nthN : 'a1 list -> coq_N -> 'a1 -> 'a1 **)

let nthN l i d =
  nth (N.to_nat i) l d

(** val ray_squares_fuel : nat -> coq_N -> coq_Z -> coq_Z -> coq_N list **)

let rec ray_squares_fuel fuel s df dr =
  match fuel with
  | O -> []
  | S k ->
    (match offset s df dr with
     | Some n -> n :: (ray_squares_fuel k n df dr)
     | None -> [])

(** val ray_squares : coq_N -> (coq_Z * coq_Z) -> coq_N list **)

let ray_squares s d =
  ray_squares_fuel (S (S (S (S (S (S (S O))))))) s (fst d) (snd d)

(** val bb_of_list : coq_N list -> coq_N **)

let bb_of_list l =
  fold_left (fun acc s -> setb acc s true) l N0

(** val ray_bb : coq_N -> (coq_Z * coq_Z) -> coq_N **)

let ray_bb s d =
  bb_of_list (ray_squares s d)

(** val dirN : coq_Z * coq_Z **)

let dirN =
  nth O dir_offsets (Z0, Z0)

(** val dirS : coq_Z * coq_Z **)

let dirS =
  nth (S O) dir_offsets (Z0, Z0)

(** val dirE : coq_Z * coq_Z **)

let dirE =
  nth (S (S O)) dir_offsets (Z0, Z0)

(** val dirW : coq_Z * coq_Z **)

let dirW =
  nth (S (S (S O))) dir_offsets (Z0, Z0)

(** val dirNE : coq_Z * coq_Z **)

let dirNE =
  nth (S (S (S (S O)))) dir_offsets (Z0, Z0)

(** val dirNW : coq_Z * coq_Z **)

let dirNW =
  nth (S (S (S (S (S O))))) dir_offsets (Z0, Z0)

(** val dirSE : coq_Z * coq_Z **)

let dirSE =
  nth (S (S (S (S (S (S O)))))) dir_offsets (Z0, Z0)

(** val dirSW : coq_Z * coq_Z **)

let dirSW =
  nth (S (S (S (S (S (S (S O))))))) dir_offsets (Z0, Z0)

(** val rank_mask : coq_N -> coq_N **)

let rank_mask r =
  nthN rank_masks r N0

(** val file_mask : coq_N -> coq_N **)

let file_mask f =
  nthN file_masks f N0

(** val rook_slide_mask : coq_N -> coq_N **)

let rook_slide_mask s =
  N.coq_lor
    (N.coq_lor
      (N.coq_lor (N.coq_land (ray_bb s dirW) (lnot64 (file_mask N0)))
        (N.coq_land (ray_bb s dirE)
          (lnot64 (file_mask (Npos (Coq_xI (Coq_xI Coq_xH)))))))
      (N.coq_land (ray_bb s dirN)
        (lnot64 (rank_mask (Npos (Coq_xI (Coq_xI Coq_xH)))))))
    (N.coq_land (ray_bb s dirS) (lnot64 (rank_mask N0)))

(** val bishop_slide_mask : coq_N -> coq_N **)

let bishop_slide_mask s =
  N.coq_lor
    (N.coq_lor
      (N.coq_lor
        (N.coq_land (ray_bb s dirNW)
          (lnot64
            (N.coq_lor (file_mask N0)
              (rank_mask (Npos (Coq_xI (Coq_xI Coq_xH)))))))
        (N.coq_land (ray_bb s dirSW)
          (lnot64 (N.coq_lor (file_mask N0) (rank_mask N0)))))
      (N.coq_land (ray_bb s dirNE)
        (lnot64
          (N.coq_lor (file_mask (Npos (Coq_xI (Coq_xI Coq_xH))))
            (rank_mask (Npos (Coq_xI (Coq_xI Coq_xH))))))))
    (N.coq_land (ray_bb s dirSE)
      (lnot64
        (N.coq_lor (file_mask (Npos (Coq_xI (Coq_xI Coq_xH)))) (rank_mask N0))))

(** val blockers_aux : coq_N -> coq_N list -> coq_N -> coq_N -> coq_N **)

let rec blockers_aux idx bits i acc =
  match bits with
  | [] -> acc
  | b :: tl ->
    blockers_aux idx tl (N.succ i)
      (if N.testbit idx i then setb acc b true else acc)

(** val blockers_from_index : coq_N -> coq_N -> coq_N **)

let blockers_from_index idx mask =
  blockers_aux idx (iter_ones mask) N0 N0

(** val cut_ray :
    coq_N -> coq_N -> coq_N -> (coq_Z * coq_Z) -> bool -> coq_N **)

let cut_ray attacks s blockers d nearest_is_first =
  let r = ray_bb s d in
  let a = N.coq_lor attacks r in
  (match if nearest_is_first
         then first_one (N.coq_land r blockers)
         else last_one (N.coq_land r blockers) with
   | Some bit -> N.coq_land a (lnot64 (ray_bb bit d))
   | None -> a)

(** val rook_attacks_unopt : coq_N -> coq_N -> coq_N **)

let rook_attacks_unopt s blockers =
  cut_ray
    (cut_ray
      (cut_ray (cut_ray N0 s blockers dirN true) s blockers dirS false) s
      blockers dirW false) s blockers dirE true

(** val bishop_attacks_unopt : coq_N -> coq_N -> coq_N **)

let bishop_attacks_unopt s blockers =
  cut_ray
    (cut_ray
      (cut_ray (cut_ray N0 s blockers dirNW true) s blockers dirSW false) s
      blockers dirNE true) s blockers dirSE false

(** val magic_index : coq_N -> coq_N -> coq_N -> coq_N -> coq_N **)

let magic_index occ mask magic bits =
  shr64 (mul64 (N.coq_land occ mask) magic)
    (N.sub (Npos (Coq_xO (Coq_xO (Coq_xO (Coq_xO (Coq_xO (Coq_xO
      Coq_xH))))))) bits)

(** val tkey : coq_N -> coq_N -> positive **)

let tkey s idx =
  N.succ_pos (N.add (N.mul s magic_table_slots) idx)

(** val fill_square :
    nat -> coq_N -> coq_N -> coq_N -> coq_N -> coq_N -> (coq_N -> coq_N ->
    coq_N) -> coq_N PositiveMap.t -> coq_N PositiveMap.t **)

let rec fill_square fuel b s mask magic bits unopt t0 =
  match fuel with
  | O -> t0
  | S k ->
    let bl = blockers_from_index b mask in
    let idx = magic_index bl mask magic bits in
    fill_square k (N.succ b) s mask magic bits unopt
      (PositiveMap.add (tkey s idx) (unopt s bl) t0)

(** val build_table :
    coq_N list -> coq_N list -> (coq_N -> coq_N) -> (coq_N -> coq_N -> coq_N)
    -> coq_N PositiveMap.t **)

let build_table magics bitsl maskf unopt =
  fold_left (fun t0 s ->
    let bits = nthN bitsl s N0 in
    fill_square (N.to_nat (N.shiftl (Npos Coq_xH) bits)) N0 s (maskf s)
      (nthN magics s N0) bits unopt t0) squares PositiveMap.empty

(** val rook_table : coq_N PositiveMap.t **)

let rook_table =
  build_table rook_magics rook_bits rook_slide_mask rook_attacks_unopt

(** val bishop_table : coq_N PositiveMap.t **)

let bishop_table =
  build_table bishop_magics bishop_bits bishop_slide_mask bishop_attacks_unopt

(** val table_get : coq_N PositiveMap.t -> coq_N -> coq_N -> coq_N **)

let table_get t0 s idx =
  match PositiveMap.find (tkey s idx) t0 with
  | Some v -> v
  | None -> N0

(** val rook_slide_masks : coq_N list **)

let rook_slide_masks =
  map rook_slide_mask squares

(** val bishop_slide_masks : coq_N list **)

let bishop_slide_masks =
  map bishop_slide_mask squares

(** val rook_attacks : coq_N -> coq_N -> coq_N **)

let rook_attacks s occ =
  table_get rook_table s
    (magic_index occ (nthN rook_slide_masks s N0) (nthN rook_magics s N0)
      (nthN rook_bits s N0))

(** val bishop_attacks : coq_N -> coq_N -> coq_N **)

let bishop_attacks s occ =
  table_get bishop_table s
    (magic_index occ (nthN bishop_slide_masks s N0) (nthN bishop_magics s N0)
      (nthN bishop_bits s N0))

(** val queen_attacks : coq_N -> coq_N -> coq_N **)

let queen_attacks s occ =
  N.coq_lor (rook_attacks s occ) (bishop_attacks s occ)

(** val pattern : coq_N -> (coq_Z * coq_Z) list -> coq_N **)

let pattern s offs =
  fold_left (fun acc d ->
    match offset s (fst d) (snd d) with
    | Some t0 -> setb acc t0 true
    | None -> acc) offs N0

(** val knight_table : coq_N list **)

let knight_table =
  map (fun s -> pattern s knight_offsets) squares

(** val king_table : coq_N list **)

let king_table =
  map (fun s -> pattern s king_offsets) squares

(** val white_pawn_table : coq_N list **)

let white_pawn_table =
  map (fun s -> pattern s white_pawn_offsets) squares

(** val black_pawn_table : coq_N list **)

let black_pawn_table =
  map (fun s -> pattern s black_pawn_offsets) squares

(** val knight_attacks : coq_N -> coq_N **)

let knight_attacks s =
  nthN knight_table s N0

(** val king_attacks : coq_N -> coq_N **)

let king_attacks s =
  nthN king_table s N0

(** val pawn_attacks : bool -> coq_N -> coq_N **)

let pawn_attacks white s =
  nthN (if white then white_pawn_table else black_pawn_table) s N0

(** val walk : coq_N -> coq_N list -> coq_N list **)

let rec walk occ = function
| [] -> []
| s :: tl -> if test occ s then s :: [] else s :: (walk occ tl)

(** val walk_dirs : coq_N -> coq_N -> (coq_Z * coq_Z) list -> coq_N **)

let walk_dirs occ s dirs =
  bb_of_list (flat_map (fun d -> walk occ (ray_squares s d)) dirs)

(** val rook_dirs : (coq_Z * coq_Z) list **)

let rook_dirs =
  dirN :: (dirS :: (dirE :: (dirW :: [])))

(** val bishop_dirs : (coq_Z * coq_Z) list **)

let bishop_dirs =
  dirNE :: (dirNW :: (dirSE :: (dirSW :: [])))
