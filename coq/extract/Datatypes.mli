
val negb : bool -> bool

type nat =
| O
| S of nat

val fst : ('a1 * 'a2) -> 'a1

val snd : ('a1 * 'a2) -> 'a2

val length : 'a1 list -> nat

val app : 'a1 list -> 'a1 list -> 'a1 list

type comparison =
| Eq
| Lt
| Gt

val coq_CompOpp : comparison -> comparison
