open BinNums
open BinPos
open Datatypes
open Decimal

module N =
 struct
  (** val succ_double : coq_N -> coq_N **)

  let succ_double = function
  | N0 -> Npos Coq_xH
  | Npos p -> Npos (Coq_xI p)

  (** val double : coq_N -> coq_N **)

  let double = function
  | N0 -> N0
  | Npos p -> Npos (Coq_xO p)

  (** val succ : coq_N -> coq_N **)

  let succ = function
  | N0 -> Npos Coq_xH
  | Npos p -> Npos (Pos.succ p)

  (** val succ_pos : coq_N -> positive **)

  let succ_pos = function
  | N0 -> Coq_xH
  | Npos p -> Pos.succ p

  (** val add : coq_N -> coq_N -> coq_N **)

  let add n m =
    match n with
    | N0 -> m
    | Npos p -> (match m with
                 | N0 -> n
                 | Npos q -> Npos (Pos.add p q))

  (** val sub : coq_N -> coq_N -> coq_N **)

  let sub n m =
    match n with
    | N0 -> N0
    | Npos n' ->
      (match m with
       | N0 -> n
       | Npos m' ->
         (match Pos.sub_mask n' m' with
          | Pos.IsPos p -> Npos p
          | _ -> N0))

  (** val mul : coq_N -> coq_N -> coq_N **)

  let mul n m =
    match n with
    | N0 -> N0
    | Npos p -> (match m with
                 | N0 -> N0
                 | Npos q -> Npos (Pos.mul p q))

  (** val compare : coq_N -> coq_N -> comparison **)

  let compare n m =
    match n with
    | N0 -> (match m with
             | N0 -> Eq
             | Npos _ -> Lt)
    | Npos n' -> (match m with
                  | N0 -> Gt
                  | Npos m' -> Pos.compare n' m')

  (** val eqb : coq_N -> coq_N -> bool **)

  let eqb n m =
    match n with
    | N0 -> (match m with
             | N0 -> true
             | Npos _ -> false)
    | Npos p -> (match m with
                 | N0 -> false
                 | Npos q -> Pos.eqb p q)

  (** val leb : coq_N -> coq_N -> bool **)

  let leb x y =
    match compare x y with
    | Gt -> false
    | _ -> true

  (** val ltb : coq_N -> coq_N -> bool **)

  let ltb x y =
    match compare x y with
    | Lt -> true
    | _ -> false

  (** val div2 : coq_N -> coq_N **)

  let div2 = function
  | N0 -> N0
  | Npos p0 ->
    (match p0 with
     | Coq_xI p -> Npos p
     | Coq_xO p -> Npos p
     | Coq_xH -> N0)

  (** val log2 : coq_N -> coq_N **)

  let log2 = function
  | N0 -> N0
  | Npos p0 ->
    (match p0 with
     | Coq_xI p -> Npos (Pos.size p)
     | Coq_xO p -> Npos (Pos.size p)
     | Coq_xH -> N0)

  (** val pos_div_eucl : positive -> coq_N -> coq_N * coq_N **)

  let rec pos_div_eucl a b =
    match a with
    | Coq_xI a' ->
      let (q, r) = pos_div_eucl a' b in
      let r' = succ_double r in
      if leb b r' then ((succ_double q), (sub r' b)) else ((double q), r')
    | Coq_xO a' ->
      let (q, r) = pos_div_eucl a' b in
      let r' = double r in
      if leb b r' then ((succ_double q), (sub r' b)) else ((double q), r')
    | Coq_xH ->
      (match b with
       | N0 -> (N0, (Npos Coq_xH))
       | Npos p ->
         (match p with
          | Coq_xH -> ((Npos Coq_xH), N0)
          | _ -> (N0, (Npos Coq_xH))))

  (** val div_eucl : coq_N -> coq_N -> coq_N * coq_N **)

  let div_eucl a b =
    match a with
    | N0 -> (N0, N0)
    | Npos na -> (match b with
                  | N0 -> (N0, a)
                  | Npos _ -> pos_div_eucl na b)

  (** val div : coq_N -> coq_N -> coq_N **)

  let div a b =
    fst (div_eucl a b)

  (** val modulo : coq_N -> coq_N -> coq_N **)

  let modulo a b =
    snd (div_eucl a b)

  (** val coq_lor : coq_N -> coq_N -> coq_N **)

  let coq_lor n m =
    match n with
    | N0 -> m
    | Npos p -> (match m with
                 | N0 -> n
                 | Npos q -> Npos (Pos.coq_lor p q))

  (** val coq_land : coq_N -> coq_N -> coq_N **)

  let coq_land n m =
    match n with
    | N0 -> N0
    | Npos p -> (match m with
                 | N0 -> N0
                 | Npos q -> Pos.coq_land p q)

  (** val ldiff : coq_N -> coq_N -> coq_N **)

  let ldiff n m =
    match n with
    | N0 -> N0
    | Npos p -> (match m with
                 | N0 -> n
                 | Npos q -> Pos.ldiff p q)

  (** val coq_lxor : coq_N -> coq_N -> coq_N **)

  let coq_lxor n m =
    match n with
    | N0 -> m
    | Npos p -> (match m with
                 | N0 -> n
                 | Npos q -> Pos.coq_lxor p q)

  (** val shiftl : coq_N -> coq_N -> coq_N **)

  let shiftl a n =
    match a with
    | N0 -> N0
    | Npos a0 -> Npos (Pos.shiftl a0 n)

  (** val shiftr : coq_N -> coq_N -> coq_N **)

  let shiftr a = function
  | N0 -> a
  | Npos p -> Pos.iter div2 a p

  (** val testbit : coq_N -> coq_N -> bool **)

  let testbit a n =
    match a with
    | N0 -> false
    | Npos p -> Pos.testbit p n

  (** val to_nat : coq_N -> nat **)

  let to_nat = function
  | N0 -> O
  | Npos p -> Pos.to_nat p

  (** val of_nat : nat -> coq_N **)

  let of_nat = function
  | O -> N0
  | S n' -> Npos (Pos.of_succ_nat n')

  (** val to_uint : coq_N -> uint **)

  let to_uint = function
  | N0 -> D0 Nil
  | Npos p -> Pos.to_uint p
 end
