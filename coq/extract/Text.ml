open Attacks
open BinNat
open BinNums
open Bits
open Board
open Datatypes
open Decimal
open List
open PeanoNat
open Types

type text = coq_N list

type hasher = { k_turn : coq_N list; k_piece : coq_N list;
                k_castle : coq_N list; k_ep : coq_N list }

(** val hasher_of_stream : coq_N list -> hasher **)

let hasher_of_stream l =
  { k_turn = (firstn (S (S O)) l); k_piece =
    (firstn (S (S (S (S (S (S (S (S (S (S (S (S (S (S (S (S (S (S (S (S (S (S
      (S (S (S (S (S (S (S (S (S (S (S (S (S (S (S (S (S (S (S (S (S (S (S (S
      (S (S (S (S (S (S (S (S (S (S (S (S (S (S (S (S (S (S (S (S (S (S (S (S
      (S (S (S (S (S (S (S (S (S (S (S (S (S (S (S (S (S (S (S (S (S (S (S (S
      (S (S (S (S (S (S (S (S (S (S (S (S (S (S (S (S (S (S (S (S (S (S (S (S
      (S (S (S (S (S (S (S (S (S (S (S (S (S (S (S (S (S (S (S (S (S (S (S (S
      (S (S (S (S (S (S (S (S (S (S (S (S (S (S (S (S (S (S (S (S (S (S (S (S
      (S (S (S (S (S (S (S (S (S (S (S (S (S (S (S (S (S (S (S (S (S (S (S (S
      (S (S (S (S (S (S (S (S (S (S (S (S (S (S (S (S (S (S (S (S (S (S (S (S
      (S (S (S (S (S (S (S (S (S (S (S (S (S (S (S (S (S (S (S (S (S (S (S (S
      (S (S (S (S (S (S (S (S (S (S (S (S (S (S (S (S (S (S (S (S (S (S (S (S
      (S (S (S (S (S (S (S (S (S (S (S (S (S (S (S (S (S (S (S (S (S (S (S (S
      (S (S (S (S (S (S (S (S (S (S (S (S (S (S (S (S (S (S (S (S (S (S (S (S
      (S (S (S (S (S (S (S (S (S (S (S (S (S (S (S (S (S (S (S (S (S (S (S (S
      (S (S (S (S (S (S (S (S (S (S (S (S (S (S (S (S (S (S (S (S (S (S (S (S
      (S (S (S (S (S (S (S (S (S (S (S (S (S (S (S (S (S (S (S (S (S (S (S (S
      (S (S (S (S (S (S (S (S (S (S (S (S (S (S (S (S (S (S (S (S (S (S (S (S
      (S (S (S (S (S (S (S (S (S (S (S (S (S (S (S (S (S (S (S (S (S (S (S (S
      (S (S (S (S (S (S (S (S (S (S (S (S (S (S (S (S (S (S (S (S (S (S (S (S
      (S (S (S (S (S (S (S (S (S (S (S (S (S (S (S (S (S (S (S (S (S (S (S (S
      (S (S (S (S (S (S (S (S (S (S (S (S (S (S (S (S (S (S (S (S (S (S (S (S
      (S (S (S (S (S (S (S (S (S (S (S (S (S (S (S (S (S (S (S (S (S (S (S (S
      (S (S (S (S (S (S (S (S (S (S (S (S (S (S (S (S (S (S (S (S (S (S (S (S
      (S (S (S (S (S (S (S (S (S (S (S (S (S (S (S (S (S (S (S (S (S (S (S (S
      (S (S (S (S (S (S (S (S (S (S (S (S (S (S (S (S (S (S (S (S (S (S (S (S
      (S (S (S (S (S (S (S (S (S (S (S (S (S (S (S (S (S (S (S (S (S (S (S (S
      (S (S (S (S (S (S (S (S (S (S (S (S (S (S (S (S (S (S (S (S (S (S (S (S
      (S (S (S (S (S (S (S (S (S (S (S (S (S (S (S (S (S (S (S (S (S (S (S (S
      (S (S (S (S (S (S (S (S (S (S (S (S (S (S (S (S (S (S (S (S (S (S (S (S
      (S (S (S (S (S (S (S (S (S (S (S (S (S (S (S (S (S (S (S (S (S (S (S (S
      (S (S (S (S (S (S (S (S (S (S (S (S (S (S (S (S (S (S (S (S (S (S (S (S
      (S (S (S (S (S (S (S (S (S (S (S (S (S (S (S (S (S (S (S (S (S (S (S (S
      (S (S (S (S (S (S (S (S (S (S (S (S (S (S (S (S (S (S (S (S (S (S (S (S
      (S (S (S (S (S (S (S (S (S (S (S (S (S (S (S (S (S (S (S (S (S (S (S (S
      (S (S (S (S (S (S (S (S (S (S (S (S (S (S (S (S (S (S (S (S (S (S (S (S
      (S (S (S (S (S (S (S (S (S (S (S (S (S (S (S (S (S (S (S (S (S (S (S (S
      (S (S (S (S (S (S (S (S (S (S (S (S (S (S (S (S (S (S (S (S (S (S (S (S
      (S (S (S (S (S (S (S (S (S (S (S (S (S (S (S (S (S (S (S (S (S (S (S (S
      (S (S (S (S (S (S (S (S (S (S (S (S (S (S (S (S (S (S (S (S (S (S (S (S
      (S (S (S (S (S (S (S (S (S (S (S (S (S (S (S (S (S (S (S (S (S (S (S (S
      (S (S (S (S (S (S (S (S (S (S (S (S (S (S (S (S (S (S (S (S (S (S (S (S
      (S (S (S (S (S (S (S (S (S (S (S (S (S (S (S (S (S (S (S (S (S (S (S (S
      (S (S (S (S (S (S (S (S (S (S (S (S (S (S (S (S (S (S
      O))))))))))))))))))))))))))))))))))))))))))))))))))))))))))))))))))))))))))))))))))))))))))))))))))))))))))))))))))))))))))))))))))))))))))))))))))))))))))))))))))))))))))))))))))))))))))))))))))))))))))))))))))))))))))))))))))))))))))))))))))))))))))))))))))))))))))))))))))))))))))))))))))))))))))))))))))))))))))))))))))))))))))))))))))))))))))))))))))))))))))))))))))))))))))))))))))))))))))))))))))))))))))))))))))))))))))))))))))))))))))))))))))))))))))))))))))))))))))))))))))))))))))))))))))))))))))))))))))))))))))))))))))))))))))))))))))))))))))))))))))))))))))))))))))))))))))))))))))))))))))))))))))))))))))))))))))))))))))))))))))))))))))))))))))))))))))))))))))))))))))))))))))))))))))))))))))))))))))))))))))))))))))))))))))))))))))))))))))))))))))))))))))))))))))))))))))))))))))))))))))))))))))))))))))))))))))))))))))))))))))))))))))))))))))))))))))))))))))))))))))))))))))))))))))))))))))))))))))))))))))))))))))))))))))))))))))))))))))))))))))))))))))))))))))))))))))))))))))))))))))))))))))))))))))))))))
      (skipn (S (S O)) l)); k_castle =
    (firstn (S (S (S (S O))))
      (skipn (S (S (S (S (S (S (S (S (S (S (S (S (S (S (S (S (S (S (S (S (S
        (S (S (S (S (S (S (S (S (S (S (S (S (S (S (S (S (S (S (S (S (S (S (S
        (S (S (S (S (S (S (S (S (S (S (S (S (S (S (S (S (S (S (S (S (S (S (S
        (S (S (S (S (S (S (S (S (S (S (S (S (S (S (S (S (S (S (S (S (S (S (S
        (S (S (S (S (S (S (S (S (S (S (S (S (S (S (S (S (S (S (S (S (S (S (S
        (S (S (S (S (S (S (S (S (S (S (S (S (S (S (S (S (S (S (S (S (S (S (S
        (S (S (S (S (S (S (S (S (S (S (S (S (S (S (S (S (S (S (S (S (S (S (S
        (S (S (S (S (S (S (S (S (S (S (S (S (S (S (S (S (S (S (S (S (S (S (S
        (S (S (S (S (S (S (S (S (S (S (S (S (S (S (S (S (S (S (S (S (S (S (S
        (S (S (S (S (S (S (S (S (S (S (S (S (S (S (S (S (S (S (S (S (S (S (S
        (S (S (S (S (S (S (S (S (S (S (S (S (S (S (S (S (S (S (S (S (S (S (S
        (S (S (S (S (S (S (S (S (S (S (S (S (S (S (S (S (S (S (S (S (S (S (S
        (S (S (S (S (S (S (S (S (S (S (S (S (S (S (S (S (S (S (S (S (S (S (S
        (S (S (S (S (S (S (S (S (S (S (S (S (S (S (S (S (S (S (S (S (S (S (S
        (S (S (S (S (S (S (S (S (S (S (S (S (S (S (S (S (S (S (S (S (S (S (S
        (S (S (S (S (S (S (S (S (S (S (S (S (S (S (S (S (S (S (S (S (S (S (S
        (S (S (S (S (S (S (S (S (S (S (S (S (S (S (S (S (S (S (S (S (S (S (S
        (S (S (S (S (S (S (S (S (S (S (S (S (S (S (S (S (S (S (S (S (S (S (S
        (S (S (S (S (S (S (S (S (S (S (S (S (S (S (S (S (S (S (S (S (S (S (S
        (S (S (S (S (S (S (S (S (S (S (S (S (S (S (S (S (S (S (S (S (S (S (S
        (S (S (S (S (S (S (S (S (S (S (S (S (S (S (S (S (S (S (S (S (S (S (S
        (S (S (S (S (S (S (S (S (S (S (S (S (S (S (S (S (S (S (S (S (S (S (S
        (S (S (S (S (S (S (S (S (S (S (S (S (S (S (S (S (S (S (S (S (S (S (S
        (S (S (S (S (S (S (S (S (S (S (S (S (S (S (S (S (S (S (S (S (S (S (S
        (S (S (S (S (S (S (S (S (S (S (S (S (S (S (S (S (S (S (S (S (S (S (S
        (S (S (S (S (S (S (S (S (S (S (S (S (S (S (S (S (S (S (S (S (S (S (S
        (S (S (S (S (S (S (S (S (S (S (S (S (S (S (S (S (S (S (S (S (S (S (S
        (S (S (S (S (S (S (S (S (S (S (S (S (S (S (S (S (S (S (S (S (S (S (S
        (S (S (S (S (S (S (S (S (S (S (S (S (S (S (S (S (S (S (S (S (S (S (S
        (S (S (S (S (S (S (S (S (S (S (S (S (S (S (S (S (S (S (S (S (S (S (S
        (S (S (S (S (S (S (S (S (S (S (S (S (S (S (S (S (S (S (S (S (S (S (S
        (S (S (S (S (S (S (S (S (S (S (S (S (S (S (S (S (S (S (S (S (S (S (S
        (S (S (S (S (S (S (S (S (S (S (S (S (S (S (S (S (S (S (S (S (S (S (S
        (S (S (S (S (S (S (S (S (S (S (S (S (S (S (S (S (S (S (S (S (S (S (S
        (S (S (S (S (S (S (S (S (S (S (S (S (S (S (S (S (S (S (S (S (S (S (S
        (S (S (S (S (S (S (S (S (S (S (S (S (S (S (S (S (S (S (S (S (S (S (S
        (S (S (S (S (S (S (S (S (S (S (S (S (S (S (S (S (S (S (S (S (S (S (S
        (S (S (S (S (S (S (S (S (S (S (S (S (S (S (S (S (S (S (S (S (S (S (S
        (S (S (S (S (S (S (S (S (S (S (S (S (S (S (S (S (S (S (S (S (S (S (S
        (S (S (S (S (S (S (S (S (S (S (S (S (S (S (S (S (S (S (S (S (S (S (S
        (S (S (S (S (S (S (S (S (S (S (S (S (S (S (S (S (S (S (S (S (S (S (S
        (S (S (S (S (S (S (S (S (S (S (S (S (S (S (S (S (S (S (S (S (S (S (S
        (S (S (S (S (S (S (S (S (S (S (S (S (S (S (S (S (S (S (S (S (S (S (S
        (S (S (S (S (S (S (S (S (S (S (S (S (S (S (S (S (S (S (S (S (S (S (S
        (S (S (S (S (S (S (S (S (S (S (S (S (S (S (S (S
        O))))))))))))))))))))))))))))))))))))))))))))))))))))))))))))))))))))))))))))))))))))))))))))))))))))))))))))))))))))))))))))))))))))))))))))))))))))))))))))))))))))))))))))))))))))))))))))))))))))))))))))))))))))))))))))))))))))))))))))))))))))))))))))))))))))))))))))))))))))))))))))))))))))))))))))))))))))))))))))))))))))))))))))))))))))))))))))))))))))))))))))))))))))))))))))))))))))))))))))))))))))))))))))))))))))))))))))))))))))))))))))))))))))))))))))))))))))))))))))))))))))))))))))))))))))))))))))))))))))))))))))))))))))))))))))))))))))))))))))))))))))))))))))))))))))))))))))))))))))))))))))))))))))))))))))))))))))))))))))))))))))))))))))))))))))))))))))))))))))))))))))))))))))))))))))))))))))))))))))))))))))))))))))))))))))))))))))))))))))))))))))))))))))))))))))))))))))))))))))))))))))))))))))))))))))))))))))))))))))))))))))))))))))))))))))))))))))))))))))))))))))))))))))))))))))))))))))))))))))))))))))))))))))))))))))))))))))))))))))))))))))))))))))))))))))))))))))))))))))))))))))))))))))))))))))))))))
        l)); k_ep =
    (firstn (S (S (S (S (S (S (S (S O))))))))
      (skipn (S (S (S (S (S (S (S (S (S (S (S (S (S (S (S (S (S (S (S (S (S
        (S (S (S (S (S (S (S (S (S (S (S (S (S (S (S (S (S (S (S (S (S (S (S
        (S (S (S (S (S (S (S (S (S (S (S (S (S (S (S (S (S (S (S (S (S (S (S
        (S (S (S (S (S (S (S (S (S (S (S (S (S (S (S (S (S (S (S (S (S (S (S
        (S (S (S (S (S (S (S (S (S (S (S (S (S (S (S (S (S (S (S (S (S (S (S
        (S (S (S (S (S (S (S (S (S (S (S (S (S (S (S (S (S (S (S (S (S (S (S
        (S (S (S (S (S (S (S (S (S (S (S (S (S (S (S (S (S (S (S (S (S (S (S
        (S (S (S (S (S (S (S (S (S (S (S (S (S (S (S (S (S (S (S (S (S (S (S
        (S (S (S (S (S (S (S (S (S (S (S (S (S (S (S (S (S (S (S (S (S (S (S
        (S (S (S (S (S (S (S (S (S (S (S (S (S (S (S (S (S (S (S (S (S (S (S
        (S (S (S (S (S (S (S (S (S (S (S (S (S (S (S (S (S (S (S (S (S (S (S
        (S (S (S (S (S (S (S (S (S (S (S (S (S (S (S (S (S (S (S (S (S (S (S
        (S (S (S (S (S (S (S (S (S (S (S (S (S (S (S (S (S (S (S (S (S (S (S
        (S (S (S (S (S (S (S (S (S (S (S (S (S (S (S (S (S (S (S (S (S (S (S
        (S (S (S (S (S (S (S (S (S (S (S (S (S (S (S (S (S (S (S (S (S (S (S
        (S (S (S (S (S (S (S (S (S (S (S (S (S (S (S (S (S (S (S (S (S (S (S
        (S (S (S (S (S (S (S (S (S (S (S (S (S (S (S (S (S (S (S (S (S (S (S
        (S (S (S (S (S (S (S (S (S (S (S (S (S (S (S (S (S (S (S (S (S (S (S
        (S (S (S (S (S (S (S (S (S (S (S (S (S (S (S (S (S (S (S (S (S (S (S
        (S (S (S (S (S (S (S (S (S (S (S (S (S (S (S (S (S (S (S (S (S (S (S
        (S (S (S (S (S (S (S (S (S (S (S (S (S (S (S (S (S (S (S (S (S (S (S
        (S (S (S (S (S (S (S (S (S (S (S (S (S (S (S (S (S (S (S (S (S (S (S
        (S (S (S (S (S (S (S (S (S (S (S (S (S (S (S (S (S (S (S (S (S (S (S
        (S (S (S (S (S (S (S (S (S (S (S (S (S (S (S (S (S (S (S (S (S (S (S
        (S (S (S (S (S (S (S (S (S (S (S (S (S (S (S (S (S (S (S (S (S (S (S
        (S (S (S (S (S (S (S (S (S (S (S (S (S (S (S (S (S (S (S (S (S (S (S
        (S (S (S (S (S (S (S (S (S (S (S (S (S (S (S (S (S (S (S (S (S (S (S
        (S (S (S (S (S (S (S (S (S (S (S (S (S (S (S (S (S (S (S (S (S (S (S
        (S (S (S (S (S (S (S (S (S (S (S (S (S (S (S (S (S (S (S (S (S (S (S
        (S (S (S (S (S (S (S (S (S (S (S (S (S (S (S (S (S (S (S (S (S (S (S
        (S (S (S (S (S (S (S (S (S (S (S (S (S (S (S (S (S (S (S (S (S (S (S
        (S (S (S (S (S (S (S (S (S (S (S (S (S (S (S (S (S (S (S (S (S (S (S
        (S (S (S (S (S (S (S (S (S (S (S (S (S (S (S (S (S (S (S (S (S (S (S
        (S (S (S (S (S (S (S (S (S (S (S (S (S (S (S (S (S (S (S (S (S (S (S
        (S (S (S (S (S (S (S (S (S (S (S (S (S (S (S (S (S (S (S (S (S (S (S
        (S (S (S (S (S (S (S (S (S (S (S (S (S (S (S (S (S (S (S (S (S (S (S
        (S (S (S (S (S (S (S (S (S (S (S (S (S (S (S (S (S (S (S (S (S (S (S
        (S (S (S (S (S (S (S (S (S (S (S (S (S (S (S (S (S (S (S (S (S (S (S
        (S (S (S (S (S (S (S (S (S (S (S (S (S (S (S (S (S (S (S (S (S (S (S
        (S (S (S (S (S (S (S (S (S (S (S (S (S (S (S (S (S (S (S (S (S (S (S
        (S (S (S (S (S (S (S (S (S (S (S (S (S (S (S (S (S (S (S (S (S (S (S
        (S (S (S (S (S (S (S (S (S (S (S (S (S (S (S (S (S (S (S (S (S (S (S
        (S (S (S (S (S (S (S (S (S (S (S (S (S (S (S (S (S (S (S (S (S (S (S
        (S (S (S (S (S (S (S (S (S (S (S (S (S (S (S (S (S (S (S (S (S (S (S
        (S (S (S (S (S (S (S (S (S (S (S (S (S (S (S (S (S (S (S (S
        O))))))))))))))))))))))))))))))))))))))))))))))))))))))))))))))))))))))))))))))))))))))))))))))))))))))))))))))))))))))))))))))))))))))))))))))))))))))))))))))))))))))))))))))))))))))))))))))))))))))))))))))))))))))))))))))))))))))))))))))))))))))))))))))))))))))))))))))))))))))))))))))))))))))))))))))))))))))))))))))))))))))))))))))))))))))))))))))))))))))))))))))))))))))))))))))))))))))))))))))))))))))))))))))))))))))))))))))))))))))))))))))))))))))))))))))))))))))))))))))))))))))))))))))))))))))))))))))))))))))))))))))))))))))))))))))))))))))))))))))))))))))))))))))))))))))))))))))))))))))))))))))))))))))))))))))))))))))))))))))))))))))))))))))))))))))))))))))))))))))))))))))))))))))))))))))))))))))))))))))))))))))))))))))))))))))))))))))))))))))))))))))))))))))))))))))))))))))))))))))))))))))))))))))))))))))))))))))))))))))))))))))))))))))))))))))))))))))))))))))))))))))))))))))))))))))))))))))))))))))))))))))))))))))))))))))))))))))))))))))))))))))))))))))))))))))))))))))))))))))))))))))))))))))))))))))))))))))
        l)) }

(** val piece_index : color -> piece -> coq_N **)

let piece_index c p =
  N.add (if is_white c then N0 else Npos (Coq_xO (Coq_xO (Coq_xO Coq_xH))))
    (piece_to_N p)

(** val hash_pieces : hasher -> board -> coq_N **)

let hash_pieces h b =
  fold_left (fun acc c ->
    fold_left (fun acc0 p ->
      fold_left (fun acc1 sq ->
        N.coq_lxor acc1
          (nthN h.k_piece
            (N.add
              (N.mul sq (Npos (Coq_xO (Coq_xO (Coq_xO (Coq_xO Coq_xH))))))
              (piece_index c p)) N0)) (iter_ones (pocc b c p)) acc0)
      (PNone :: all_pieces) acc) all_colors N0

(** val ep_capturable : state -> coq_N option **)

let ep_capturable s =
  match s.st_ep with
  | Some t ->
    if any
         (N.coq_land (pawn_attacks (is_white (opp s.st_turn)) t)
           (pocc s.st_board s.st_turn Pawn))
    then Some t
    else None
  | None -> None

(** val hash : hasher -> state -> coq_N **)

let hash h s =
  let x0 = hash_pieces h s.st_board in
  let x1 =
    N.coq_lxor x0
      (nthN h.k_turn (if is_white s.st_turn then N0 else Npos Coq_xH) N0)
  in
  let x2 =
    fold_left (fun acc ck ->
      if castle_right s (fst ck) (snd ck)
      then N.coq_lxor acc
             (nthN h.k_castle
               (N.add
                 (if is_white (fst ck) then N0 else Npos (Coq_xO Coq_xH))
                 (if snd ck then N0 else Npos Coq_xH)) N0)
      else acc) ((White, true) :: ((White, false) :: ((Black,
      true) :: ((Black, false) :: [])))) x1
  in
  (match ep_capturable s with
   | Some t -> N.coq_lxor x2 (nthN h.k_ep (file_of t) N0)
   | None -> x2)

(** val ch_space : coq_N **)

let ch_space =
  Npos (Coq_xO (Coq_xO (Coq_xO (Coq_xO (Coq_xO Coq_xH)))))

(** val ch_slash : coq_N **)

let ch_slash =
  Npos (Coq_xI (Coq_xI (Coq_xI (Coq_xI (Coq_xO Coq_xH)))))

(** val ch_dash : coq_N **)

let ch_dash =
  Npos (Coq_xI (Coq_xO (Coq_xI (Coq_xI (Coq_xO Coq_xH)))))

(** val ch_pipe : coq_N **)

let ch_pipe =
  Npos (Coq_xO (Coq_xO (Coq_xI (Coq_xI (Coq_xI (Coq_xI Coq_xH))))))

(** val ch_0 : coq_N **)

let ch_0 =
  Npos (Coq_xO (Coq_xO (Coq_xO (Coq_xO (Coq_xI Coq_xH)))))

(** val ch_1 : coq_N **)

let ch_1 =
  Npos (Coq_xI (Coq_xO (Coq_xO (Coq_xO (Coq_xI Coq_xH)))))

(** val ch_8 : coq_N **)

let ch_8 =
  Npos (Coq_xO (Coq_xO (Coq_xO (Coq_xI (Coq_xI Coq_xH)))))

(** val ch_9 : coq_N **)

let ch_9 =
  Npos (Coq_xI (Coq_xO (Coq_xO (Coq_xI (Coq_xI Coq_xH)))))

(** val ch_a : coq_N **)

let ch_a =
  Npos (Coq_xI (Coq_xO (Coq_xO (Coq_xO (Coq_xO (Coq_xI Coq_xH))))))

(** val ch_h : coq_N **)

let ch_h =
  Npos (Coq_xO (Coq_xO (Coq_xO (Coq_xI (Coq_xO (Coq_xI Coq_xH))))))

(** val ch_z : coq_N **)

let ch_z =
  Npos (Coq_xO (Coq_xI (Coq_xO (Coq_xI (Coq_xI (Coq_xI Coq_xH))))))

(** val ch_A : coq_N **)

let ch_A =
  Npos (Coq_xI (Coq_xO (Coq_xO (Coq_xO (Coq_xO (Coq_xO Coq_xH))))))

(** val ch_Z : coq_N **)

let ch_Z =
  Npos (Coq_xO (Coq_xI (Coq_xO (Coq_xI (Coq_xI (Coq_xO Coq_xH))))))

(** val ch_w : coq_N **)

let ch_w =
  Npos (Coq_xI (Coq_xI (Coq_xI (Coq_xO (Coq_xI (Coq_xI Coq_xH))))))

(** val ch_b : coq_N **)

let ch_b =
  Npos (Coq_xO (Coq_xI (Coq_xO (Coq_xO (Coq_xO (Coq_xI Coq_xH))))))

(** val ch_x : coq_N **)

let ch_x =
  Npos (Coq_xO (Coq_xO (Coq_xO (Coq_xI (Coq_xI (Coq_xI Coq_xH))))))

(** val ch_eq : coq_N **)

let ch_eq =
  Npos (Coq_xI (Coq_xO (Coq_xI (Coq_xI (Coq_xI Coq_xH)))))

(** val ch_plus : coq_N **)

let ch_plus =
  Npos (Coq_xI (Coq_xI (Coq_xO (Coq_xI (Coq_xO Coq_xH)))))

(** val ch_hash : coq_N **)

let ch_hash =
  Npos (Coq_xI (Coq_xI (Coq_xO (Coq_xO (Coq_xO Coq_xH)))))

(** val ch_O : coq_N **)

let ch_O =
  Npos (Coq_xI (Coq_xI (Coq_xI (Coq_xI (Coq_xO (Coq_xO Coq_xH))))))

(** val ch_K : coq_N **)

let ch_K =
  Npos (Coq_xI (Coq_xI (Coq_xO (Coq_xI (Coq_xO (Coq_xO Coq_xH))))))

(** val ch_Q : coq_N **)

let ch_Q =
  Npos (Coq_xI (Coq_xO (Coq_xO (Coq_xO (Coq_xI (Coq_xO Coq_xH))))))

(** val ch_R : coq_N **)

let ch_R =
  Npos (Coq_xO (Coq_xI (Coq_xO (Coq_xO (Coq_xI (Coq_xO Coq_xH))))))

(** val ch_B : coq_N **)

let ch_B =
  Npos (Coq_xO (Coq_xI (Coq_xO (Coq_xO (Coq_xO (Coq_xO Coq_xH))))))

(** val ch_N : coq_N **)

let ch_N =
  Npos (Coq_xO (Coq_xI (Coq_xI (Coq_xI (Coq_xO (Coq_xO Coq_xH))))))

(** val ch_P : coq_N **)

let ch_P =
  Npos (Coq_xO (Coq_xO (Coq_xO (Coq_xO (Coq_xI (Coq_xO Coq_xH))))))

(** val ch_k : coq_N **)

let ch_k =
  Npos (Coq_xI (Coq_xI (Coq_xO (Coq_xI (Coq_xO (Coq_xI Coq_xH))))))

(** val ch_q : coq_N **)

let ch_q =
  Npos (Coq_xI (Coq_xO (Coq_xO (Coq_xO (Coq_xI (Coq_xI Coq_xH))))))

(** val ch_r : coq_N **)

let ch_r =
  Npos (Coq_xO (Coq_xI (Coq_xO (Coq_xO (Coq_xI (Coq_xI Coq_xH))))))

(** val ch_n : coq_N **)

let ch_n =
  Npos (Coq_xO (Coq_xI (Coq_xI (Coq_xI (Coq_xO (Coq_xI Coq_xH))))))

(** val ch_p : coq_N **)

let ch_p =
  Npos (Coq_xO (Coq_xO (Coq_xO (Coq_xO (Coq_xI (Coq_xI Coq_xH))))))

(** val is_ascii_digit : coq_N -> bool **)

let is_ascii_digit c =
  (&&) (N.leb ch_0 c) (N.leb c ch_9)

(** val is_ascii_upper : coq_N -> bool **)

let is_ascii_upper c =
  (&&) (N.leb ch_A c) (N.leb c ch_Z)

(** val is_ascii_lower : coq_N -> bool **)

let is_ascii_lower c =
  (&&) (N.leb ch_a c) (N.leb c ch_z)

(** val is_ws : coq_N -> bool **)

let is_ws c =
  (||)
    ((||)
      ((||)
        ((||)
          ((||)
            ((||)
              ((||)
                ((||)
                  ((||)
                    ((||)
                      ((&&)
                        (N.leb (Npos (Coq_xI (Coq_xO (Coq_xO Coq_xH)))) c)
                        (N.leb c (Npos (Coq_xI (Coq_xO (Coq_xI Coq_xH))))))
                      (N.eqb c (Npos (Coq_xO (Coq_xO (Coq_xO (Coq_xO (Coq_xO
                        Coq_xH))))))))
                    (N.eqb c (Npos (Coq_xI (Coq_xO (Coq_xI (Coq_xO (Coq_xO
                      (Coq_xO (Coq_xO Coq_xH))))))))))
                  (N.eqb c (Npos (Coq_xO (Coq_xO (Coq_xO (Coq_xO (Coq_xO
                    (Coq_xI (Coq_xO Coq_xH))))))))))
                (N.eqb c (Npos (Coq_xO (Coq_xO (Coq_xO (Coq_xO (Coq_xO
                  (Coq_xO (Coq_xO (Coq_xI (Coq_xO (Coq_xI (Coq_xI (Coq_xO
                  Coq_xH)))))))))))))))
              ((&&)
                (N.leb (Npos (Coq_xO (Coq_xO (Coq_xO (Coq_xO (Coq_xO (Coq_xO
                  (Coq_xO (Coq_xO (Coq_xO (Coq_xO (Coq_xO (Coq_xO (Coq_xO
                  Coq_xH)))))))))))))) c)
                (N.leb c (Npos (Coq_xO (Coq_xI (Coq_xO (Coq_xI (Coq_xO
                  (Coq_xO (Coq_xO (Coq_xO (Coq_xO (Coq_xO (Coq_xO (Coq_xO
                  (Coq_xO Coq_xH)))))))))))))))))
            (N.eqb c (Npos (Coq_xO (Coq_xO (Coq_xO (Coq_xI (Coq_xO (Coq_xI
              (Coq_xO (Coq_xO (Coq_xO (Coq_xO (Coq_xO (Coq_xO (Coq_xO
              Coq_xH))))))))))))))))
          (N.eqb c (Npos (Coq_xI (Coq_xO (Coq_xO (Coq_xI (Coq_xO (Coq_xI
            (Coq_xO (Coq_xO (Coq_xO (Coq_xO (Coq_xO (Coq_xO (Coq_xO
            Coq_xH))))))))))))))))
        (N.eqb c (Npos (Coq_xI (Coq_xI (Coq_xI (Coq_xI (Coq_xO (Coq_xI
          (Coq_xO (Coq_xO (Coq_xO (Coq_xO (Coq_xO (Coq_xO (Coq_xO
          Coq_xH))))))))))))))))
      (N.eqb c (Npos (Coq_xI (Coq_xI (Coq_xI (Coq_xI (Coq_xI (Coq_xO (Coq_xI
        (Coq_xO (Coq_xO (Coq_xO (Coq_xO (Coq_xO (Coq_xO Coq_xH))))))))))))))))
    (N.eqb c (Npos (Coq_xO (Coq_xO (Coq_xO (Coq_xO (Coq_xO (Coq_xO (Coq_xO
      (Coq_xO (Coq_xO (Coq_xO (Coq_xO (Coq_xO (Coq_xI Coq_xH)))))))))))))))

(** val piece_letter : piece -> coq_N **)

let piece_letter = function
| PNone -> Npos (Coq_xO (Coq_xO (Coq_xO (Coq_xO (Coq_xO Coq_xH)))))
| Pawn -> ch_P
| Knight -> ch_N
| Bishop -> ch_B
| Rook -> ch_R
| Queen -> ch_Q
| King -> ch_K

(** val to_lower : coq_N -> coq_N **)

let to_lower c =
  if is_ascii_upper c
  then N.add c (Npos (Coq_xO (Coq_xO (Coq_xO (Coq_xO (Coq_xO Coq_xH))))))
  else c

(** val to_upper : coq_N -> coq_N **)

let to_upper c =
  if is_ascii_lower c
  then N.sub c (Npos (Coq_xO (Coq_xO (Coq_xO (Coq_xO (Coq_xO Coq_xH))))))
  else c

(** val file_char : coq_N -> coq_N **)

let file_char f =
  if N.leb f (Npos (Coq_xI (Coq_xI Coq_xH)))
  then N.add ch_a f
  else Npos (Coq_xI (Coq_xI (Coq_xI (Coq_xI (Coq_xI Coq_xH)))))

(** val rank_char : coq_N -> coq_N **)

let rank_char r =
  if N.leb r (Npos (Coq_xI (Coq_xI Coq_xH)))
  then N.add ch_1 r
  else Npos (Coq_xI (Coq_xI (Coq_xI (Coq_xI (Coq_xI Coq_xH)))))

(** val square_text : coq_N -> text **)

let square_text s =
  (file_char (file_of s)) :: ((rank_char (rank_of s)) :: [])

(** val uint_digits : uint -> text **)

let rec uint_digits = function
| Nil -> []
| D0 r ->
  (Npos (Coq_xO (Coq_xO (Coq_xO (Coq_xO (Coq_xI
    Coq_xH)))))) :: (uint_digits r)
| D1 r ->
  (Npos (Coq_xI (Coq_xO (Coq_xO (Coq_xO (Coq_xI
    Coq_xH)))))) :: (uint_digits r)
| D2 r ->
  (Npos (Coq_xO (Coq_xI (Coq_xO (Coq_xO (Coq_xI
    Coq_xH)))))) :: (uint_digits r)
| D3 r ->
  (Npos (Coq_xI (Coq_xI (Coq_xO (Coq_xO (Coq_xI
    Coq_xH)))))) :: (uint_digits r)
| D4 r ->
  (Npos (Coq_xO (Coq_xO (Coq_xI (Coq_xO (Coq_xI
    Coq_xH)))))) :: (uint_digits r)
| D5 r ->
  (Npos (Coq_xI (Coq_xO (Coq_xI (Coq_xO (Coq_xI
    Coq_xH)))))) :: (uint_digits r)
| D6 r ->
  (Npos (Coq_xO (Coq_xI (Coq_xI (Coq_xO (Coq_xI
    Coq_xH)))))) :: (uint_digits r)
| D7 r ->
  (Npos (Coq_xI (Coq_xI (Coq_xI (Coq_xO (Coq_xI
    Coq_xH)))))) :: (uint_digits r)
| D8 r ->
  (Npos (Coq_xO (Coq_xO (Coq_xO (Coq_xI (Coq_xI
    Coq_xH)))))) :: (uint_digits r)
| D9 r ->
  (Npos (Coq_xI (Coq_xO (Coq_xO (Coq_xI (Coq_xI
    Coq_xH)))))) :: (uint_digits r)

(** val dec_of_N : coq_N -> text **)

let dec_of_N n =
  uint_digits (N.to_uint n)

(** val parse_dec_aux : text -> coq_N -> coq_N option **)

let rec parse_dec_aux l acc =
  match l with
  | [] -> Some acc
  | c :: tl ->
    if is_ascii_digit c
    then let acc' =
           N.add (N.mul acc (Npos (Coq_xO (Coq_xI (Coq_xO Coq_xH)))))
             (N.sub c ch_0)
         in
         if N.ltb mask64 acc' then None else parse_dec_aux tl acc'
    else None

(** val parse_usize : text -> coq_N option **)

let parse_usize l = match l with
| [] -> None
| _ :: _ -> parse_dec_aux l N0

(** val piece_char : color -> piece -> coq_N **)

let piece_char c p =
  match c with
  | White -> piece_letter p
  | Black -> to_lower (piece_letter p)

(** val fen_rank_aux : board -> coq_N -> coq_N list -> coq_N -> text **)

let rec fen_rank_aux b r files empty =
  match files with
  | [] -> if N.ltb N0 empty then dec_of_N empty else []
  | f :: tl ->
    (match piece_at b (mk_square r f) with
     | Some p0 ->
       let (c, p) = p0 in
       app (if N.ltb N0 empty then dec_of_N empty else [])
         ((piece_char c p) :: (fen_rank_aux b r tl N0))
     | None -> fen_rank_aux b r tl (N.add empty (Npos Coq_xH)))

(** val files8 : coq_N list **)

let files8 =
  N0 :: ((Npos Coq_xH) :: ((Npos (Coq_xO Coq_xH)) :: ((Npos (Coq_xI
    Coq_xH)) :: ((Npos (Coq_xO (Coq_xO Coq_xH))) :: ((Npos (Coq_xI (Coq_xO
    Coq_xH))) :: ((Npos (Coq_xO (Coq_xI Coq_xH))) :: ((Npos (Coq_xI (Coq_xI
    Coq_xH))) :: [])))))))

(** val ranks_desc : coq_N list **)

let ranks_desc =
  (Npos (Coq_xI (Coq_xI Coq_xH))) :: ((Npos (Coq_xO (Coq_xI
    Coq_xH))) :: ((Npos (Coq_xI (Coq_xO Coq_xH))) :: ((Npos (Coq_xO (Coq_xO
    Coq_xH))) :: ((Npos (Coq_xI Coq_xH)) :: ((Npos (Coq_xO Coq_xH)) :: ((Npos
    Coq_xH) :: (N0 :: [])))))))

(** val fen_board : board -> text **)

let fen_board b =
  flat_map (fun r ->
    app (fen_rank_aux b r files8 N0)
      (if N.eqb r N0 then [] else ch_slash :: [])) ranks_desc

(** val fen_write : state -> text **)

let fen_write s =
  app (fen_board s.st_board)
    (app (ch_space :: [])
      (app ((match s.st_turn with
             | White -> ch_w
             | Black -> ch_b) :: [])
        (app (ch_space :: [])
          (app
            (if (&&) (negb ((||) s.st_wk s.st_wq))
                  (negb ((||) s.st_bk s.st_bq))
             then ch_dash :: []
             else app (if s.st_wk then ch_K :: [] else [])
                    (app (if s.st_wq then ch_Q :: [] else [])
                      (app (if s.st_bk then ch_k :: [] else [])
                        (if s.st_bq then ch_q :: [] else []))))
            (app (ch_space :: [])
              (app
                (match s.st_ep with
                 | Some t -> square_text t
                 | None -> ch_dash :: [])
                (app (ch_space :: [])
                  (app (dec_of_N s.st_half)
                    (app (ch_space :: []) (dec_of_N s.st_full))))))))))

type 'a result =
| Ok of 'a
| Err
| Panic of coq_N

(** val site_fen_cursor_inc : coq_N **)

let site_fen_cursor_inc =
  Npos Coq_xH

(** val site_fen_square_index : coq_N **)

let site_fen_square_index =
  Npos (Coq_xO Coq_xH)

(** val split_on : (coq_N -> bool) -> text -> text -> text list **)

let rec split_on p l cur =
  match l with
  | [] -> (rev cur) :: []
  | c :: tl ->
    if p c then (rev cur) :: (split_on p tl []) else split_on p tl (c :: cur)

(** val fen_piece_of_char : coq_N -> (color * piece) option **)

let fen_piece_of_char c =
  if N.eqb c ch_P
  then Some (White, Pawn)
  else if N.eqb c ch_N
       then Some (White, Knight)
       else if N.eqb c ch_B
            then Some (White, Bishop)
            else if N.eqb c ch_R
                 then Some (White, Rook)
                 else if N.eqb c ch_Q
                      then Some (White, Queen)
                      else if N.eqb c ch_K
                           then Some (White, King)
                           else if N.eqb c ch_p
                                then Some (Black, Pawn)
                                else if N.eqb c ch_n
                                     then Some (Black, Knight)
                                     else if N.eqb c ch_b
                                          then Some (Black, Bishop)
                                          else if N.eqb c ch_r
                                               then Some (Black, Rook)
                                               else if N.eqb c ch_q
                                                    then Some (Black, Queen)
                                                    else if N.eqb c ch_k
                                                         then Some (Black,
                                                                King)
                                                         else None

(** val is_placement_char : coq_N -> bool **)

let is_placement_char c =
  (||) (match fen_piece_of_char c with
        | Some _ -> true
        | None -> false) ((&&) (N.leb ch_1 c) (N.leb c ch_8))

(** val gate_placement : text -> bool **)

let gate_placement f =
  let chunks = split_on (fun c -> N.eqb c ch_slash) f [] in
  (&&) (Nat.eqb (length chunks) (S (S (S (S (S (S (S (S O)))))))))
    (forallb (fun ch ->
      match ch with
      | [] -> false
      | _ :: _ -> forallb is_placement_char ch) chunks)

(** val gate_turn : text -> bool **)

let gate_turn = function
| [] -> false
| c :: l ->
  (match l with
   | [] -> (||) ((||) (N.eqb c ch_b) (N.eqb c ch_pipe)) (N.eqb c ch_w)
   | _ :: _ -> false)

(** val gate_castle : text -> bool **)

let gate_castle f = match f with
| [] ->
  (&&)
    ((&&) (Nat.leb (S O) (length f)) (Nat.leb (length f) (S (S (S (S O))))))
    (forallb (fun c ->
      (||)
        ((||) ((||) ((||) (N.eqb c ch_K) (N.eqb c ch_pipe)) (N.eqb c ch_Q))
          (N.eqb c ch_k)) (N.eqb c ch_q)) f)
| c :: l ->
  (match l with
   | [] ->
     (||)
       ((||)
         ((||)
           ((||) ((||) (N.eqb c ch_dash) (N.eqb c ch_K)) (N.eqb c ch_pipe))
           (N.eqb c ch_Q)) (N.eqb c ch_k)) (N.eqb c ch_q)
   | _ :: _ ->
     (&&)
       ((&&) (Nat.leb (S O) (length f))
         (Nat.leb (length f) (S (S (S (S O))))))
       (forallb (fun c0 ->
         (||)
           ((||)
             ((||) ((||) (N.eqb c0 ch_K) (N.eqb c0 ch_pipe)) (N.eqb c0 ch_Q))
             (N.eqb c0 ch_k)) (N.eqb c0 ch_q)) f))

(** val gate_ep : text -> bool **)

let gate_ep = function
| [] -> false
| a :: l ->
  (match l with
   | [] -> N.eqb a ch_dash
   | b :: l0 ->
     (match l0 with
      | [] ->
        (&&) ((&&) ((&&) (N.leb ch_a a) (N.leb a ch_h)) (N.leb ch_1 b))
          (N.leb b ch_8)
      | _ :: _ -> false))

(** val parse_placement : text -> coq_N -> board -> board result **)

let rec parse_placement l loc b =
  match l with
  | [] -> Ok b
  | c :: tl ->
    if (&&) (N.leb ch_1 c) (N.leb c ch_8)
    then let loc' = N.add loc (N.sub c ch_0) in
         if N.ltb (Npos (Coq_xI (Coq_xI (Coq_xI (Coq_xI (Coq_xI (Coq_xI
              (Coq_xI Coq_xH)))))))) loc'
         then Err
         else parse_placement tl loc' b
    else if N.eqb c ch_space
         then Ok b
         else if N.eqb c ch_slash
              then parse_placement tl loc b
              else (match fen_piece_of_char c with
                    | Some p0 ->
                      let (col, p) = p0 in
                      if N.ltb (Npos (Coq_xI (Coq_xI (Coq_xI (Coq_xI (Coq_xI
                           Coq_xH)))))) loc
                      then Err
                      else let sq =
                             mk_square
                               (N.sub (Npos (Coq_xI (Coq_xI Coq_xH)))
                                 (rank_of loc)) (file_of loc)
                           in
                           if N.ltb (Npos (Coq_xI (Coq_xI (Coq_xI (Coq_xI
                                (Coq_xI Coq_xH)))))) sq
                           then Panic site_fen_square_index
                           else if N.ltb (Npos (Coq_xI (Coq_xI (Coq_xI
                                     (Coq_xI (Coq_xI (Coq_xI (Coq_xI
                                     Coq_xH)))))))) (N.add loc (Npos Coq_xH))
                                then Panic site_fen_cursor_inc
                                else parse_placement tl
                                       (N.add loc (Npos Coq_xH))
                                       (pset_bit b col p sq true)
                    | None -> Err)

(** val parse_castle : text -> (((bool * bool) * bool) * bool) option **)

let parse_castle f = match f with
| [] ->
  fold_left (fun acc c ->
    match acc with
    | Some y ->
      let (y0, bq) = y in
      let (y1, bk) = y0 in
      let (wk, wq) = y1 in
      if N.eqb c ch_k
      then Some (((wk, wq), true), bq)
      else if N.eqb c ch_q
           then Some (((wk, wq), bk), true)
           else if N.eqb c ch_K
                then Some (((true, wq), bk), bq)
                else if N.eqb c ch_Q
                     then Some (((wk, true), bk), bq)
                     else if N.eqb c ch_dash then acc else None
    | None -> None) f (Some (((false, false), false), false))
| n :: l ->
  (match n with
   | N0 ->
     fold_left (fun acc c ->
       match acc with
       | Some y ->
         let (y0, bq) = y in
         let (y1, bk) = y0 in
         let (wk, wq) = y1 in
         if N.eqb c ch_k
         then Some (((wk, wq), true), bq)
         else if N.eqb c ch_q
              then Some (((wk, wq), bk), true)
              else if N.eqb c ch_K
                   then Some (((true, wq), bk), bq)
                   else if N.eqb c ch_Q
                        then Some (((wk, true), bk), bq)
                        else if N.eqb c ch_dash then acc else None
       | None -> None) f (Some (((false, false), false), false))
   | Npos p ->
     (match p with
      | Coq_xI p0 ->
        (match p0 with
         | Coq_xO p1 ->
           (match p1 with
            | Coq_xI p2 ->
              (match p2 with
               | Coq_xI p3 ->
                 (match p3 with
                  | Coq_xO p4 ->
                    (match p4 with
                     | Coq_xH ->
                       (match l with
                        | [] -> Some (((false, false), false), false)
                        | _ :: _ ->
                          fold_left (fun acc c ->
                            match acc with
                            | Some y ->
                              let (y0, bq) = y in
                              let (y1, bk) = y0 in
                              let (wk, wq) = y1 in
                              if N.eqb c ch_k
                              then Some (((wk, wq), true), bq)
                              else if N.eqb c ch_q
                                   then Some (((wk, wq), bk), true)
                                   else if N.eqb c ch_K
                                        then Some (((true, wq), bk), bq)
                                        else if N.eqb c ch_Q
                                             then Some (((wk, true), bk), bq)
                                             else if N.eqb c ch_dash
                                                  then acc
                                                  else None
                            | None -> None) f (Some (((false, false), false),
                            false)))
                     | _ ->
                       fold_left (fun acc c ->
                         match acc with
                         | Some y ->
                           let (y0, bq) = y in
                           let (y1, bk) = y0 in
                           let (wk, wq) = y1 in
                           if N.eqb c ch_k
                           then Some (((wk, wq), true), bq)
                           else if N.eqb c ch_q
                                then Some (((wk, wq), bk), true)
                                else if N.eqb c ch_K
                                     then Some (((true, wq), bk), bq)
                                     else if N.eqb c ch_Q
                                          then Some (((wk, true), bk), bq)
                                          else if N.eqb c ch_dash
                                               then acc
                                               else None
                         | None -> None) f (Some (((false, false), false),
                         false)))
                  | _ ->
                    fold_left (fun acc c ->
                      match acc with
                      | Some y ->
                        let (y0, bq) = y in
                        let (y1, bk) = y0 in
                        let (wk, wq) = y1 in
                        if N.eqb c ch_k
                        then Some (((wk, wq), true), bq)
                        else if N.eqb c ch_q
                             then Some (((wk, wq), bk), true)
                             else if N.eqb c ch_K
                                  then Some (((true, wq), bk), bq)
                                  else if N.eqb c ch_Q
                                       then Some (((wk, true), bk), bq)
                                       else if N.eqb c ch_dash
                                            then acc
                                            else None
                      | None -> None) f (Some (((false, false), false),
                      false)))
               | _ ->
                 fold_left (fun acc c ->
                   match acc with
                   | Some y ->
                     let (y0, bq) = y in
                     let (y1, bk) = y0 in
                     let (wk, wq) = y1 in
                     if N.eqb c ch_k
                     then Some (((wk, wq), true), bq)
                     else if N.eqb c ch_q
                          then Some (((wk, wq), bk), true)
                          else if N.eqb c ch_K
                               then Some (((true, wq), bk), bq)
                               else if N.eqb c ch_Q
                                    then Some (((wk, true), bk), bq)
                                    else if N.eqb c ch_dash then acc else None
                   | None -> None) f (Some (((false, false), false), false)))
            | _ ->
              fold_left (fun acc c ->
                match acc with
                | Some y ->
                  let (y0, bq) = y in
                  let (y1, bk) = y0 in
                  let (wk, wq) = y1 in
                  if N.eqb c ch_k
                  then Some (((wk, wq), true), bq)
                  else if N.eqb c ch_q
                       then Some (((wk, wq), bk), true)
                       else if N.eqb c ch_K
                            then Some (((true, wq), bk), bq)
                            else if N.eqb c ch_Q
                                 then Some (((wk, true), bk), bq)
                                 else if N.eqb c ch_dash then acc else None
                | None -> None) f (Some (((false, false), false), false)))
         | _ ->
           fold_left (fun acc c ->
             match acc with
             | Some y ->
               let (y0, bq) = y in
               let (y1, bk) = y0 in
               let (wk, wq) = y1 in
               if N.eqb c ch_k
               then Some (((wk, wq), true), bq)
               else if N.eqb c ch_q
                    then Some (((wk, wq), bk), true)
                    else if N.eqb c ch_K
                         then Some (((true, wq), bk), bq)
                         else if N.eqb c ch_Q
                              then Some (((wk, true), bk), bq)
                              else if N.eqb c ch_dash then acc else None
             | None -> None) f (Some (((false, false), false), false)))
      | _ ->
        fold_left (fun acc c ->
          match acc with
          | Some y ->
            let (y0, bq) = y in
            let (y1, bk) = y0 in
            let (wk, wq) = y1 in
            if N.eqb c ch_k
            then Some (((wk, wq), true), bq)
            else if N.eqb c ch_q
                 then Some (((wk, wq), bk), true)
                 else if N.eqb c ch_K
                      then Some (((true, wq), bk), bq)
                      else if N.eqb c ch_Q
                           then Some (((wk, true), bk), bq)
                           else if N.eqb c ch_dash then acc else None
          | None -> None) f (Some (((false, false), false), false))))

(** val utf8_len : coq_N -> coq_N **)

let utf8_len c =
  if N.ltb c (Npos (Coq_xO (Coq_xO (Coq_xO (Coq_xO (Coq_xO (Coq_xO (Coq_xO
       Coq_xH))))))))
  then Npos Coq_xH
  else if N.ltb c (Npos (Coq_xO (Coq_xO (Coq_xO (Coq_xO (Coq_xO (Coq_xO
            (Coq_xO (Coq_xO (Coq_xO (Coq_xO (Coq_xO Coq_xH))))))))))))
       then Npos (Coq_xO Coq_xH)
       else if N.ltb c (Npos (Coq_xO (Coq_xO (Coq_xO (Coq_xO (Coq_xO (Coq_xO
                 (Coq_xO (Coq_xO (Coq_xO (Coq_xO (Coq_xO (Coq_xO (Coq_xO
                 (Coq_xO (Coq_xO (Coq_xO Coq_xH)))))))))))))))))
            then Npos (Coq_xI Coq_xH)
            else Npos (Coq_xO (Coq_xO Coq_xH))

(** val byte_len : text -> coq_N **)

let byte_len l =
  fold_left (fun a c -> N.add a (utf8_len c)) l N0

(** val parse_square : text -> coq_N option **)

let parse_square l =
  if N.eqb (byte_len l) (Npos (Coq_xO Coq_xH))
  then (match l with
        | [] -> None
        | a :: l0 ->
          (match l0 with
           | [] -> None
           | b :: l1 ->
             (match l1 with
              | [] ->
                let u = to_upper a in
                if (&&)
                     ((&&)
                       ((&&) (N.leb ch_A u)
                         (N.leb u (Npos (Coq_xO (Coq_xO (Coq_xO (Coq_xI
                           (Coq_xO (Coq_xO Coq_xH))))))))) (N.leb ch_1 b))
                     (N.leb b ch_8)
                then Some (mk_square (N.sub b ch_1) (N.sub u ch_A))
                else None
              | _ :: _ -> None)))
  else None

(** val fen_read : text -> state result **)

let fen_read str =
  match split_on is_ws str [] with
  | [] -> Err
  | f1 :: l ->
    (match l with
     | [] -> Err
     | f2 :: l0 ->
       (match l0 with
        | [] -> Err
        | f3 :: l1 ->
          (match l1 with
           | [] -> Err
           | f4 :: l2 ->
             (match l2 with
              | [] -> Err
              | f5 :: l3 ->
                (match l3 with
                 | [] -> Err
                 | f6 :: l4 ->
                   (match l4 with
                    | [] ->
                      if (&&)
                           ((&&)
                             ((&&)
                               ((&&)
                                 ((&&) (gate_placement f1) (gate_turn f2))
                                 (gate_castle f3)) (gate_ep f4))
                             (match f5 with
                              | [] -> false
                              | _ :: _ -> true))
                           (match f6 with
                            | [] -> false
                            | _ :: _ -> true)
                      then (match parse_placement f1 N0 empty_board with
                            | Ok b ->
                              (match f2 with
                               | [] -> Err
                               | c :: l5 ->
                                 (match l5 with
                                  | [] ->
                                    if N.eqb c ch_w
                                    then let turn = White in
                                         (match parse_castle f3 with
                                          | Some p ->
                                            let (p0, bq) = p in
                                            let (p1, bk) = p0 in
                                            let (wk, wq) = p1 in
                                            (match f4 with
                                             | [] ->
                                               (match parse_square f4 with
                                                | Some t ->
                                                  let ep = Some t in
                                                  (match parse_usize f5 with
                                                   | Some h ->
                                                     (match parse_usize f6 with
                                                      | Some fl ->
                                                        Ok { st_board = b;
                                                          st_turn = turn;
                                                          st_wk = wk; st_wq =
                                                          wq; st_bk = bk;
                                                          st_bq = bq; st_ep =
                                                          ep; st_half = h;
                                                          st_full = fl }
                                                      | None -> Err)
                                                   | None -> Err)
                                                | None -> Err)
                                             | n :: l6 ->
                                               (match n with
                                                | N0 ->
                                                  (match parse_square f4 with
                                                   | Some t ->
                                                     let ep = Some t in
                                                     (match parse_usize f5 with
                                                      | Some h ->
                                                        (match parse_usize f6 with
                                                         | Some fl ->
                                                           Ok { st_board = b;
                                                             st_turn = turn;
                                                             st_wk = wk;
                                                             st_wq = wq;
                                                             st_bk = bk;
                                                             st_bq = bq;
                                                             st_ep = ep;
                                                             st_half = h;
                                                             st_full = fl }
                                                         | None -> Err)
                                                      | None -> Err)
                                                   | None -> Err)
                                                | Npos p2 ->
                                                  (match p2 with
                                                   | Coq_xI p3 ->
                                                     (match p3 with
                                                      | Coq_xO p4 ->
                                                        (match p4 with
                                                         | Coq_xI p5 ->
                                                           (match p5 with
                                                            | Coq_xI p6 ->
                                                              (match p6 with
                                                               | Coq_xO p7 ->
                                                                 (match p7 with
                                                                  | Coq_xH ->
                                                                    (match l6 with
                                                                    | [] ->
                                                                    let ep =
                                                                    None
                                                                    in
                                                                    (
                                                                    match 
                                                                    parse_usize
                                                                    f5 with
                                                                    | Some h ->
                                                                    (match 
                                                                    parse_usize
                                                                    f6 with
                                                                    | Some fl ->
                                                                    Ok
                                                                    { st_board =
                                                                    b;
                                                                    st_turn =
                                                                    turn;
                                                                    st_wk =
                                                                    wk;
                                                                    st_wq =
                                                                    wq;
                                                                    st_bk =
                                                                    bk;
                                                                    st_bq =
                                                                    bq;
                                                                    st_ep =
                                                                    ep;
                                                                    st_half =
                                                                    h;
                                                                    st_full =
                                                                    fl }
                                                                    | None ->
                                                                    Err)
                                                                    | None ->
                                                                    Err)
                                                                    | _ :: _ ->
                                                                    (match 
                                                                    parse_square
                                                                    f4 with
                                                                    | Some t ->
                                                                    let ep =
                                                                    Some t
                                                                    in
                                                                    (
                                                                    match 
                                                                    parse_usize
                                                                    f5 with
                                                                    | Some h ->
                                                                    (match 
                                                                    parse_usize
                                                                    f6 with
                                                                    | Some fl ->
                                                                    Ok
                                                                    { st_board =
                                                                    b;
                                                                    st_turn =
                                                                    turn;
                                                                    st_wk =
                                                                    wk;
                                                                    st_wq =
                                                                    wq;
                                                                    st_bk =
                                                                    bk;
                                                                    st_bq =
                                                                    bq;
                                                                    st_ep =
                                                                    ep;
                                                                    st_half =
                                                                    h;
                                                                    st_full =
                                                                    fl }
                                                                    | None ->
                                                                    Err)
                                                                    | None ->
                                                                    Err)
                                                                    | None ->
                                                                    Err))
                                                                  | _ ->
                                                                    (match 
                                                                    parse_square
                                                                    f4 with
                                                                    | Some t ->
                                                                    let ep =
                                                                    Some t
                                                                    in
                                                                    (
                                                                    match 
                                                                    parse_usize
                                                                    f5 with
                                                                    | Some h ->
                                                                    (match 
                                                                    parse_usize
                                                                    f6 with
                                                                    | Some fl ->
                                                                    Ok
                                                                    { st_board =
                                                                    b;
                                                                    st_turn =
                                                                    turn;
                                                                    st_wk =
                                                                    wk;
                                                                    st_wq =
                                                                    wq;
                                                                    st_bk =
                                                                    bk;
                                                                    st_bq =
                                                                    bq;
                                                                    st_ep =
                                                                    ep;
                                                                    st_half =
                                                                    h;
                                                                    st_full =
                                                                    fl }
                                                                    | None ->
                                                                    Err)
                                                                    | None ->
                                                                    Err)
                                                                    | None ->
                                                                    Err))
                                                               | _ ->
                                                                 (match 
                                                                  parse_square
                                                                    f4 with
                                                                  | Some t ->
                                                                    let ep =
                                                                    Some t
                                                                    in
                                                                    (
                                                                    match 
                                                                    parse_usize
                                                                    f5 with
                                                                    | Some h ->
                                                                    (match 
                                                                    parse_usize
                                                                    f6 with
                                                                    | Some fl ->
                                                                    Ok
                                                                    { st_board =
                                                                    b;
                                                                    st_turn =
                                                                    turn;
                                                                    st_wk =
                                                                    wk;
                                                                    st_wq =
                                                                    wq;
                                                                    st_bk =
                                                                    bk;
                                                                    st_bq =
                                                                    bq;
                                                                    st_ep =
                                                                    ep;
                                                                    st_half =
                                                                    h;
                                                                    st_full =
                                                                    fl }
                                                                    | None ->
                                                                    Err)
                                                                    | None ->
                                                                    Err)
                                                                  | None ->
                                                                    Err))
                                                            | _ ->
                                                              (match 
                                                               parse_square f4 with
                                                               | Some t ->
                                                                 let ep =
                                                                   Some t
                                                                 in
                                                                 (match 
                                                                  parse_usize
                                                                    f5 with
                                                                  | Some h ->
                                                                    (match 
                                                                    parse_usize
                                                                    f6 with
                                                                    | Some fl ->
                                                                    Ok
                                                                    { st_board =
                                                                    b;
                                                                    st_turn =
                                                                    turn;
                                                                    st_wk =
                                                                    wk;
                                                                    st_wq =
                                                                    wq;
                                                                    st_bk =
                                                                    bk;
                                                                    st_bq =
                                                                    bq;
                                                                    st_ep =
                                                                    ep;
                                                                    st_half =
                                                                    h;
                                                                    st_full =
                                                                    fl }
                                                                    | None ->
                                                                    Err)
                                                                  | None ->
                                                                    Err)
                                                               | None -> Err))
                                                         | _ ->
                                                           (match parse_square
                                                                    f4 with
                                                            | Some t ->
                                                              let ep = Some t
                                                              in
                                                              (match 
                                                               parse_usize f5 with
                                                               | Some h ->
                                                                 (match 
                                                                  parse_usize
                                                                    f6 with
                                                                  | Some fl ->
                                                                    Ok
                                                                    { st_board =
                                                                    b;
                                                                    st_turn =
                                                                    turn;
                                                                    st_wk =
                                                                    wk;
                                                                    st_wq =
                                                                    wq;
                                                                    st_bk =
                                                                    bk;
                                                                    st_bq =
                                                                    bq;
                                                                    st_ep =
                                                                    ep;
                                                                    st_half =
                                                                    h;
                                                                    st_full =
                                                                    fl }
                                                                  | None ->
                                                                    Err)
                                                               | None -> Err)
                                                            | None -> Err))
                                                      | _ ->
                                                        (match parse_square f4 with
                                                         | Some t ->
                                                           let ep = Some t in
                                                           (match parse_usize
                                                                    f5 with
                                                            | Some h ->
                                                              (match 
                                                               parse_usize f6 with
                                                               | Some fl ->
                                                                 Ok
                                                                   { st_board =
                                                                   b;
                                                                   st_turn =
                                                                   turn;
                                                                   st_wk =
                                                                   wk;
                                                                   st_wq =
                                                                   wq;
                                                                   st_bk =
                                                                   bk;
                                                                   st_bq =
                                                                   bq;
                                                                   st_ep =
                                                                   ep;
                                                                   st_half =
                                                                   h;
                                                                   st_full =
                                                                   fl }
                                                               | None -> Err)
                                                            | None -> Err)
                                                         | None -> Err))
                                                   | _ ->
                                                     (match parse_square f4 with
                                                      | Some t ->
                                                        let ep = Some t in
                                                        (match parse_usize f5 with
                                                         | Some h ->
                                                           (match parse_usize
                                                                    f6 with
                                                            | Some fl ->
                                                              Ok { st_board =
                                                                b; st_turn =
                                                                turn; st_wk =
                                                                wk; st_wq =
                                                                wq; st_bk =
                                                                bk; st_bq =
                                                                bq; st_ep =
                                                                ep; st_half =
                                                                h; st_full =
                                                                fl }
                                                            | None -> Err)
                                                         | None -> Err)
                                                      | None -> Err))))
                                          | None -> Err)
                                    else if N.eqb c ch_b
                                         then let turn = Black in
                                              (match parse_castle f3 with
                                               | Some p ->
                                                 let (p0, bq) = p in
                                                 let (p1, bk) = p0 in
                                                 let (wk, wq) = p1 in
                                                 (match f4 with
                                                  | [] ->
                                                    (match parse_square f4 with
                                                     | Some t ->
                                                       let ep = Some t in
                                                       (match parse_usize f5 with
                                                        | Some h ->
                                                          (match parse_usize
                                                                   f6 with
                                                           | Some fl ->
                                                             Ok { st_board =
                                                               b; st_turn =
                                                               turn; st_wk =
                                                               wk; st_wq =
                                                               wq; st_bk =
                                                               bk; st_bq =
                                                               bq; st_ep =
                                                               ep; st_half =
                                                               h; st_full =
                                                               fl }
                                                           | None -> Err)
                                                        | None -> Err)
                                                     | None -> Err)
                                                  | n :: l6 ->
                                                    (match n with
                                                     | N0 ->
                                                       (match parse_square f4 with
                                                        | Some t ->
                                                          let ep = Some t in
                                                          (match parse_usize
                                                                   f5 with
                                                           | Some h ->
                                                             (match parse_usize
                                                                    f6 with
                                                              | Some fl ->
                                                                Ok
                                                                  { st_board =
                                                                  b;
                                                                  st_turn =
                                                                  turn;
                                                                  st_wk = wk;
                                                                  st_wq = wq;
                                                                  st_bk = bk;
                                                                  st_bq = bq;
                                                                  st_ep = ep;
                                                                  st_half =
                                                                  h;
                                                                  st_full =
                                                                  fl }
                                                              | None -> Err)
                                                           | None -> Err)
                                                        | None -> Err)
                                                     | Npos p2 ->
                                                       (match p2 with
                                                        | Coq_xI p3 ->
                                                          (match p3 with
                                                           | Coq_xO p4 ->
                                                             (match p4 with
                                                              | Coq_xI p5 ->
                                                                (match p5 with
                                                                 | Coq_xI p6 ->
                                                                   (match p6 with
                                                                    | Coq_xO p7 ->
                                                                    (match p7 with
                                                                    | Coq_xH ->
                                                                    (match l6 with
                                                                    | [] ->
                                                                    let ep =
                                                                    None
                                                                    in
                                                                    (
                                                                    match 
                                                                    parse_usize
                                                                    f5 with
                                                                    | Some h ->
                                                                    (match 
                                                                    parse_usize
                                                                    f6 with
                                                                    | Some fl ->
                                                                    Ok
                                                                    { st_board =
                                                                    b;
                                                                    st_turn =
                                                                    turn;
                                                                    st_wk =
                                                                    wk;
                                                                    st_wq =
                                                                    wq;
                                                                    st_bk =
                                                                    bk;
                                                                    st_bq =
                                                                    bq;
                                                                    st_ep =
                                                                    ep;
                                                                    st_half =
                                                                    h;
                                                                    st_full =
                                                                    fl }
                                                                    | None ->
                                                                    Err)
                                                                    | None ->
                                                                    Err)
                                                                    | _ :: _ ->
                                                                    (match 
                                                                    parse_square
                                                                    f4 with
                                                                    | Some t ->
                                                                    let ep =
                                                                    Some t
                                                                    in
                                                                    (
                                                                    match 
                                                                    parse_usize
                                                                    f5 with
                                                                    | Some h ->
                                                                    (match 
                                                                    parse_usize
                                                                    f6 with
                                                                    | Some fl ->
                                                                    Ok
                                                                    { st_board =
                                                                    b;
                                                                    st_turn =
                                                                    turn;
                                                                    st_wk =
                                                                    wk;
                                                                    st_wq =
                                                                    wq;
                                                                    st_bk =
                                                                    bk;
                                                                    st_bq =
                                                                    bq;
                                                                    st_ep =
                                                                    ep;
                                                                    st_half =
                                                                    h;
                                                                    st_full =
                                                                    fl }
                                                                    | None ->
                                                                    Err)
                                                                    | None ->
                                                                    Err)
                                                                    | None ->
                                                                    Err))
                                                                    | _ ->
                                                                    (match 
                                                                    parse_square
                                                                    f4 with
                                                                    | Some t ->
                                                                    let ep =
                                                                    Some t
                                                                    in
                                                                    (
                                                                    match 
                                                                    parse_usize
                                                                    f5 with
                                                                    | Some h ->
                                                                    (match 
                                                                    parse_usize
                                                                    f6 with
                                                                    | Some fl ->
                                                                    Ok
                                                                    { st_board =
                                                                    b;
                                                                    st_turn =
                                                                    turn;
                                                                    st_wk =
                                                                    wk;
                                                                    st_wq =
                                                                    wq;
                                                                    st_bk =
                                                                    bk;
                                                                    st_bq =
                                                                    bq;
                                                                    st_ep =
                                                                    ep;
                                                                    st_half =
                                                                    h;
                                                                    st_full =
                                                                    fl }
                                                                    | None ->
                                                                    Err)
                                                                    | None ->
                                                                    Err)
                                                                    | None ->
                                                                    Err))
                                                                    | _ ->
                                                                    (match 
                                                                    parse_square
                                                                    f4 with
                                                                    | Some t ->
                                                                    let ep =
                                                                    Some t
                                                                    in
                                                                    (
                                                                    match 
                                                                    parse_usize
                                                                    f5 with
                                                                    | Some h ->
                                                                    (match 
                                                                    parse_usize
                                                                    f6 with
                                                                    | Some fl ->
                                                                    Ok
                                                                    { st_board =
                                                                    b;
                                                                    st_turn =
                                                                    turn;
                                                                    st_wk =
                                                                    wk;
                                                                    st_wq =
                                                                    wq;
                                                                    st_bk =
                                                                    bk;
                                                                    st_bq =
                                                                    bq;
                                                                    st_ep =
                                                                    ep;
                                                                    st_half =
                                                                    h;
                                                                    st_full =
                                                                    fl }
                                                                    | None ->
                                                                    Err)
                                                                    | None ->
                                                                    Err)
                                                                    | None ->
                                                                    Err))
                                                                 | _ ->
                                                                   (match 
                                                                    parse_square
                                                                    f4 with
                                                                    | Some t ->
                                                                    let ep =
                                                                    Some t
                                                                    in
                                                                    (
                                                                    match 
                                                                    parse_usize
                                                                    f5 with
                                                                    | Some h ->
                                                                    (match 
                                                                    parse_usize
                                                                    f6 with
                                                                    | Some fl ->
                                                                    Ok
                                                                    { st_board =
                                                                    b;
                                                                    st_turn =
                                                                    turn;
                                                                    st_wk =
                                                                    wk;
                                                                    st_wq =
                                                                    wq;
                                                                    st_bk =
                                                                    bk;
                                                                    st_bq =
                                                                    bq;
                                                                    st_ep =
                                                                    ep;
                                                                    st_half =
                                                                    h;
                                                                    st_full =
                                                                    fl }
                                                                    | None ->
                                                                    Err)
                                                                    | None ->
                                                                    Err)
                                                                    | None ->
                                                                    Err))
                                                              | _ ->
                                                                (match 
                                                                 parse_square
                                                                   f4 with
                                                                 | Some t ->
                                                                   let ep =
                                                                    Some t
                                                                   in
                                                                   (match 
                                                                    parse_usize
                                                                    f5 with
                                                                    | Some h ->
                                                                    (match 
                                                                    parse_usize
                                                                    f6 with
                                                                    | Some fl ->
                                                                    Ok
                                                                    { st_board =
                                                                    b;
                                                                    st_turn =
                                                                    turn;
                                                                    st_wk =
                                                                    wk;
                                                                    st_wq =
                                                                    wq;
                                                                    st_bk =
                                                                    bk;
                                                                    st_bq =
                                                                    bq;
                                                                    st_ep =
                                                                    ep;
                                                                    st_half =
                                                                    h;
                                                                    st_full =
                                                                    fl }
                                                                    | None ->
                                                                    Err)
                                                                    | None ->
                                                                    Err)
                                                                 | None -> Err))
                                                           | _ ->
                                                             (match parse_square
                                                                    f4 with
                                                              | Some t ->
                                                                let ep = Some
                                                                  t
                                                                in
                                                                (match 
                                                                 parse_usize
                                                                   f5 with
                                                                 | Some h ->
                                                                   (match 
                                                                    parse_usize
                                                                    f6 with
                                                                    | Some fl ->
                                                                    Ok
                                                                    { st_board =
                                                                    b;
                                                                    st_turn =
                                                                    turn;
                                                                    st_wk =
                                                                    wk;
                                                                    st_wq =
                                                                    wq;
                                                                    st_bk =
                                                                    bk;
                                                                    st_bq =
                                                                    bq;
                                                                    st_ep =
                                                                    ep;
                                                                    st_half =
                                                                    h;
                                                                    st_full =
                                                                    fl }
                                                                    | None ->
                                                                    Err)
                                                                 | None -> Err)
                                                              | None -> Err))
                                                        | _ ->
                                                          (match parse_square
                                                                   f4 with
                                                           | Some t ->
                                                             let ep = Some t
                                                             in
                                                             (match parse_usize
                                                                    f5 with
                                                              | Some h ->
                                                                (match 
                                                                 parse_usize
                                                                   f6 with
                                                                 | Some fl ->
                                                                   Ok
                                                                    { st_board =
                                                                    b;
                                                                    st_turn =
                                                                    turn;
                                                                    st_wk =
                                                                    wk;
                                                                    st_wq =
                                                                    wq;
                                                                    st_bk =
                                                                    bk;
                                                                    st_bq =
                                                                    bq;
                                                                    st_ep =
                                                                    ep;
                                                                    st_half =
                                                                    h;
                                                                    st_full =
                                                                    fl }
                                                                 | None -> Err)
                                                              | None -> Err)
                                                           | None -> Err))))
                                               | None -> Err)
                                         else Err
                                  | _ :: _ -> Err))
                            | Err -> Err
                            | Panic k -> Panic k)
                      else Err
                    | _ :: _ -> Err))))))
