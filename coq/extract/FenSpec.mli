open BinNat
open BinNums
open Datatypes
open Decimal
open List
open Rules
open Types

val letter : color -> piece -> coq_N

val digits_of_uint : uint -> coq_N list

val decimal : coq_N -> coq_N list

val rank_text : (color * piece) option list -> coq_N -> coq_N list

val rank_cells : pos -> coq_Z -> (color * piece) option list

val placement : pos -> coq_N list

val square_name : coq_N -> coq_N list

val rights_text : pos -> coq_N list

val write : pos -> coq_N list
