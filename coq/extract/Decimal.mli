
type uint =
| Nil
| D0 of uint
| D1 of uint
| D2 of uint
| D3 of uint
| D4 of uint
| D5 of uint
| D6 of uint
| D7 of uint
| D8 of uint
| D9 of uint

val revapp : uint -> uint -> uint

val rev : uint -> uint

module Little :
 sig
  val double : uint -> uint

  val succ_double : uint -> uint
 end
