open BinNat
open BinNums

type color =
| White
| Black

type piece =
| PNone
| Pawn
| Knight
| Bishop
| Rook
| Queen
| King

val opp : color -> color

val color_eqb : color -> color -> bool

val piece_to_N : piece -> coq_N

val piece_of_N : coq_N -> piece option

val piece_eqb : piece -> piece -> bool

val is_white : color -> bool
