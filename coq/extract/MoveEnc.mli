open BinNat
open BinNums
open Bits
open Bool
open Consts
open Datatypes
open List
open Nat
open Types

val mask32 : coq_N

val store : coq_N -> coq_N -> coq_N -> coq_N -> coq_N

val load : coq_N -> coq_N -> coq_N -> coq_N

val bit : coq_N -> coq_N -> bool

val set_bit : coq_N -> coq_N -> bool -> coq_N

val opt_piece_to_N : piece option -> coq_N

val abs_dist : coq_N -> coq_N -> coq_N

val by_moving : color -> piece -> coq_N -> coq_N -> coq_N

val set_capture : coq_N -> piece option -> coq_N

val set_promotion : coq_N -> piece option -> coq_N

val by_capturing : color -> piece -> coq_N -> coq_N -> piece -> coq_N

val by_promoting : color -> piece -> coq_N -> coq_N -> piece -> coq_N

val by_capture_promoting :
  color -> piece -> coq_N -> coq_N -> piece -> piece -> coq_N

val by_en_passant : color -> piece -> coq_N -> coq_N -> coq_N

val king_origin : color -> coq_N

val castle_dest : color -> bool -> coq_N

val by_castling : color -> bool -> coq_N

val m_piece_raw : coq_N -> coq_N

val m_piece : coq_N -> piece

val m_origin : coq_N -> coq_N

val m_dest : coq_N -> coq_N

val m_capture : coq_N -> piece option

val m_promotion : coq_N -> piece option

val m_is_ep : coq_N -> bool

val m_is_double : coq_N -> bool

val m_castle_q : coq_N -> bool

val m_castle_k : coq_N -> bool

val m_color : coq_N -> color

val m_is_capture : coq_N -> bool

val m_castle_side : coq_N -> bool option

val m_is_castle : coq_N -> bool -> bool

val m_decodes : coq_N -> bool

type mquery = { q_piece : piece option; q_orank : coq_N option;
                q_ofile : coq_N option; q_drank : coq_N option;
                q_dfile : coq_N option; q_promotion : piece option;
                q_castle : bool option; q_capture : bool option }

val q_empty : mquery

val opt_test : 'a1 option -> ('a1 -> bool) -> bool

val qtest : mquery -> coq_N -> bool
