open BinNums
open BinPosDef
open Datatypes
open Decimal
open Nat

module Pos :
 sig
  val succ : positive -> positive

  val add : positive -> positive -> positive

  val add_carry : positive -> positive -> positive

  val pred_double : positive -> positive

  val pred_N : positive -> coq_N

  type mask = Pos.mask =
  | IsNul
  | IsPos of positive
  | IsNeg

  val succ_double_mask : mask -> mask

  val double_mask : mask -> mask

  val double_pred_mask : positive -> mask

  val sub_mask : positive -> positive -> mask

  val sub_mask_carry : positive -> positive -> mask

  val mul : positive -> positive -> positive

  val iter : ('a1 -> 'a1) -> 'a1 -> positive -> 'a1

  val size : positive -> positive

  val compare_cont : comparison -> positive -> positive -> comparison

  val compare : positive -> positive -> comparison

  val eqb : positive -> positive -> bool

  val coq_Nsucc_double : coq_N -> coq_N

  val coq_Ndouble : coq_N -> coq_N

  val coq_lor : positive -> positive -> positive

  val coq_land : positive -> positive -> coq_N

  val ldiff : positive -> positive -> coq_N

  val coq_lxor : positive -> positive -> coq_N

  val shiftl : positive -> coq_N -> positive

  val testbit : positive -> coq_N -> bool

  val iter_op : ('a1 -> 'a1 -> 'a1) -> positive -> 'a1 -> 'a1

  val to_nat : positive -> nat

  val of_succ_nat : nat -> positive

  val to_little_uint : positive -> uint

  val to_uint : positive -> uint
 end
