open Datatypes

(** val nth : nat -> 'a1 list -> 'a1 -> 'a1 **)

let rec nth n l default =
  match n with
  | O -> (match l with
          | [] -> default
          | x :: _ -> x)
  | S m -> (match l with
            | [] -> default
            | _ :: t -> nth m t default)

(** val nth_error : 'a1 list -> nat -> 'a1 option **)

let rec nth_error l = function
| O -> (match l with
        | [] -> None
        | x :: _ -> Some x)
| S n0 -> (match l with
           | [] -> None
           | _ :: l0 -> nth_error l0 n0)

(** val rev : 'a1 list -> 'a1 list **)

let rec rev = function
| [] -> []
| x :: l' -> app (rev l') (x :: [])

(** val map : ('a1 -> 'a2) -> 'a1 list -> 'a2 list **)

let rec map f = function
| [] -> []
| a :: t -> (f a) :: (map f t)

(** val flat_map : ('a1 -> 'a2 list) -> 'a1 list -> 'a2 list **)

let rec flat_map f = function
| [] -> []
| x :: t -> app (f x) (flat_map f t)

(** val fold_left : ('a1 -> 'a2 -> 'a1) -> 'a2 list -> 'a1 -> 'a1 **)

let rec fold_left f l a0 =
  match l with
  | [] -> a0
  | b :: t -> fold_left f t (f a0 b)

(** val existsb : ('a1 -> bool) -> 'a1 list -> bool **)

let rec existsb f = function
| [] -> false
| a :: l0 -> (||) (f a) (existsb f l0)

(** val forallb : ('a1 -> bool) -> 'a1 list -> bool **)

let rec forallb f = function
| [] -> true
| a :: l0 -> (&&) (f a) (forallb f l0)

(** val filter : ('a1 -> bool) -> 'a1 list -> 'a1 list **)

let rec filter f = function
| [] -> []
| x :: l0 -> if f x then x :: (filter f l0) else filter f l0

(** val find : ('a1 -> bool) -> 'a1 list -> 'a1 option **)

let rec find f = function
| [] -> None
| x :: tl -> if f x then Some x else find f tl

(** val firstn : nat -> 'a1 list -> 'a1 list **)

let rec firstn n l =
  match n with
  | O -> []
  | S n0 -> (match l with
             | [] -> []
             | a :: l0 -> a :: (firstn n0 l0))

(** val skipn : nat -> 'a1 list -> 'a1 list **)

let rec skipn n l =
  match n with
  | O -> l
  | S n0 -> (match l with
             | [] -> []
             | _ :: l0 -> skipn n0 l0)

(** val seq : nat -> nat -> nat list **)

let rec seq start = function
| O -> []
| S len0 -> start :: (seq (S start) len0)
