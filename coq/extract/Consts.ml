open BinNums

(** val rank_masks : coq_N list **)

let rank_masks =
  (Npos (Coq_xI (Coq_xI (Coq_xI (Coq_xI (Coq_xI (Coq_xI (Coq_xI
    Coq_xH)))))))) :: ((Npos (Coq_xO (Coq_xO (Coq_xO (Coq_xO (Coq_xO (Coq_xO
    (Coq_xO (Coq_xO (Coq_xI (Coq_xI (Coq_xI (Coq_xI (Coq_xI (Coq_xI (Coq_xI
    Coq_xH)))))))))))))))) :: ((Npos (Coq_xO (Coq_xO (Coq_xO (Coq_xO (Coq_xO
    (Coq_xO (Coq_xO (Coq_xO (Coq_xO (Coq_xO (Coq_xO (Coq_xO (Coq_xO (Coq_xO
    (Coq_xO (Coq_xO (Coq_xI (Coq_xI (Coq_xI (Coq_xI (Coq_xI (Coq_xI (Coq_xI
    Coq_xH)))))))))))))))))))))))) :: ((Npos (Coq_xO (Coq_xO (Coq_xO (Coq_xO
    (Coq_xO (Coq_xO (Coq_xO (Coq_xO (Coq_xO (Coq_xO (Coq_xO (Coq_xO (Coq_xO
    (Coq_xO (Coq_xO (Coq_xO (Coq_xO (Coq_xO (Coq_xO (Coq_xO (Coq_xO (Coq_xO
    (Coq_xO (Coq_xO (Coq_xI (Coq_xI (Coq_xI (Coq_xI (Coq_xI (Coq_xI (Coq_xI
    Coq_xH)))))))))))))))))))))))))))))))) :: ((Npos (Coq_xO (Coq_xO (Coq_xO
    (Coq_xO (Coq_xO (Coq_xO (Coq_xO (Coq_xO (Coq_xO (Coq_xO (Coq_xO (Coq_xO
    (Coq_xO (Coq_xO (Coq_xO (Coq_xO (Coq_xO (Coq_xO (Coq_xO (Coq_xO (Coq_xO
    (Coq_xO (Coq_xO (Coq_xO (Coq_xO (Coq_xO (Coq_xO (Coq_xO (Coq_xO (Coq_xO
    (Coq_xO (Coq_xO (Coq_xI (Coq_xI (Coq_xI (Coq_xI (Coq_xI (Coq_xI (Coq_xI
    Coq_xH)))))))))))))))))))))))))))))))))))))))) :: ((Npos (Coq_xO (Coq_xO
    (Coq_xO (Coq_xO (Coq_xO (Coq_xO (Coq_xO (Coq_xO (Coq_xO (Coq_xO (Coq_xO
    (Coq_xO (Coq_xO (Coq_xO (Coq_xO (Coq_xO (Coq_xO (Coq_xO (Coq_xO (Coq_xO
    (Coq_xO (Coq_xO (Coq_xO (Coq_xO (Coq_xO (Coq_xO (Coq_xO (Coq_xO (Coq_xO
    (Coq_xO (Coq_xO (Coq_xO (Coq_xO (Coq_xO (Coq_xO (Coq_xO (Coq_xO (Coq_xO
    (Coq_xO (Coq_xO (Coq_xI (Coq_xI (Coq_xI (Coq_xI (Coq_xI (Coq_xI (Coq_xI
    Coq_xH)))))))))))))))))))))))))))))))))))))))))))))))) :: ((Npos (Coq_xO
    (Coq_xO (Coq_xO (Coq_xO (Coq_xO (Coq_xO (Coq_xO (Coq_xO (Coq_xO (Coq_xO
    (Coq_xO (Coq_xO (Coq_xO (Coq_xO (Coq_xO (Coq_xO (Coq_xO (Coq_xO (Coq_xO
    (Coq_xO (Coq_xO (Coq_xO (Coq_xO (Coq_xO (Coq_xO (Coq_xO (Coq_xO (Coq_xO
    (Coq_xO (Coq_xO (Coq_xO (Coq_xO (Coq_xO (Coq_xO (Coq_xO (Coq_xO (Coq_xO
    (Coq_xO (Coq_xO (Coq_xO (Coq_xO (Coq_xO (Coq_xO (Coq_xO (Coq_xO (Coq_xO
    (Coq_xO (Coq_xO (Coq_xI (Coq_xI (Coq_xI (Coq_xI (Coq_xI (Coq_xI (Coq_xI
    Coq_xH)))))))))))))))))))))))))))))))))))))))))))))))))))))))) :: ((Npos
    (Coq_xO (Coq_xO (Coq_xO (Coq_xO (Coq_xO (Coq_xO (Coq_xO (Coq_xO (Coq_xO
    (Coq_xO (Coq_xO (Coq_xO (Coq_xO (Coq_xO (Coq_xO (Coq_xO (Coq_xO (Coq_xO
    (Coq_xO (Coq_xO (Coq_xO (Coq_xO (Coq_xO (Coq_xO (Coq_xO (Coq_xO (Coq_xO
    (Coq_xO (Coq_xO (Coq_xO (Coq_xO (Coq_xO (Coq_xO (Coq_xO (Coq_xO (Coq_xO
    (Coq_xO (Coq_xO (Coq_xO (Coq_xO (Coq_xO (Coq_xO (Coq_xO (Coq_xO (Coq_xO
    (Coq_xO (Coq_xO (Coq_xO (Coq_xO (Coq_xO (Coq_xO (Coq_xO (Coq_xO (Coq_xO
    (Coq_xO (Coq_xO (Coq_xI (Coq_xI (Coq_xI (Coq_xI (Coq_xI (Coq_xI (Coq_xI
    Coq_xH)))))))))))))))))))))))))))))))))))))))))))))))))))))))))))))))) :: [])))))))

(** val file_masks : coq_N list **)

let file_masks =
  (Npos (Coq_xI (Coq_xO (Coq_xO (Coq_xO (Coq_xO (Coq_xO (Coq_xO (Coq_xO
    (Coq_xI (Coq_xO (Coq_xO (Coq_xO (Coq_xO (Coq_xO (Coq_xO (Coq_xO (Coq_xI
    (Coq_xO (Coq_xO (Coq_xO (Coq_xO (Coq_xO (Coq_xO (Coq_xO (Coq_xI (Coq_xO
    (Coq_xO (Coq_xO (Coq_xO (Coq_xO (Coq_xO (Coq_xO (Coq_xI (Coq_xO (Coq_xO
    (Coq_xO (Coq_xO (Coq_xO (Coq_xO (Coq_xO (Coq_xI (Coq_xO (Coq_xO (Coq_xO
    (Coq_xO (Coq_xO (Coq_xO (Coq_xO (Coq_xI (Coq_xO (Coq_xO (Coq_xO (Coq_xO
    (Coq_xO (Coq_xO (Coq_xO
    Coq_xH))))))))))))))))))))))))))))))))))))))))))))))))))))))))) :: ((Npos
    (Coq_xO (Coq_xI (Coq_xO (Coq_xO (Coq_xO (Coq_xO (Coq_xO (Coq_xO (Coq_xO
    (Coq_xI (Coq_xO (Coq_xO (Coq_xO (Coq_xO (Coq_xO (Coq_xO (Coq_xO (Coq_xI
    (Coq_xO (Coq_xO (Coq_xO (Coq_xO (Coq_xO (Coq_xO (Coq_xO (Coq_xI (Coq_xO
    (Coq_xO (Coq_xO (Coq_xO (Coq_xO (Coq_xO (Coq_xO (Coq_xI (Coq_xO (Coq_xO
    (Coq_xO (Coq_xO (Coq_xO (Coq_xO (Coq_xO (Coq_xI (Coq_xO (Coq_xO (Coq_xO
    (Coq_xO (Coq_xO (Coq_xO (Coq_xO (Coq_xI (Coq_xO (Coq_xO (Coq_xO (Coq_xO
    (Coq_xO (Coq_xO (Coq_xO
    Coq_xH)))))))))))))))))))))))))))))))))))))))))))))))))))))))))) :: ((Npos
    (Coq_xO (Coq_xO (Coq_xI (Coq_xO (Coq_xO (Coq_xO (Coq_xO (Coq_xO (Coq_xO
    (Coq_xO (Coq_xI (Coq_xO (Coq_xO (Coq_xO (Coq_xO (Coq_xO (Coq_xO (Coq_xO
    (Coq_xI (Coq_xO (Coq_xO (Coq_xO (Coq_xO (Coq_xO (Coq_xO (Coq_xO (Coq_xI
    (Coq_xO (Coq_xO (Coq_xO (Coq_xO (Coq_xO (Coq_xO (Coq_xO (Coq_xI (Coq_xO
    (Coq_xO (Coq_xO (Coq_xO (Coq_xO (Coq_xO (Coq_xO (Coq_xI (Coq_xO (Coq_xO
    (Coq_xO (Coq_xO (Coq_xO (Coq_xO (Coq_xO (Coq_xI (Coq_xO (Coq_xO (Coq_xO
    (Coq_xO (Coq_xO (Coq_xO (Coq_xO
    Coq_xH))))))))))))))))))))))))))))))))))))))))))))))))))))))))))) :: ((Npos
    (Coq_xO (Coq_xO (Coq_xO (Coq_xI (Coq_xO (Coq_xO (Coq_xO (Coq_xO (Coq_xO
    (Coq_xO (Coq_xO (Coq_xI (Coq_xO (Coq_xO (Coq_xO (Coq_xO (Coq_xO (Coq_xO
    (Coq_xO (Coq_xI (Coq_xO (Coq_xO (Coq_xO (Coq_xO (Coq_xO (Coq_xO (Coq_xO
    (Coq_xI (Coq_xO (Coq_xO (Coq_xO (Coq_xO (Coq_xO (Coq_xO (Coq_xO (Coq_xI
    (Coq_xO (Coq_xO (Coq_xO (Coq_xO (Coq_xO (Coq_xO (Coq_xO (Coq_xI (Coq_xO
    (Coq_xO (Coq_xO (Coq_xO (Coq_xO (Coq_xO (Coq_xO (Coq_xI (Coq_xO (Coq_xO
    (Coq_xO (Coq_xO (Coq_xO (Coq_xO (Coq_xO
    Coq_xH)))))))))))))))))))))))))))))))))))))))))))))))))))))))))))) :: ((Npos
    (Coq_xO (Coq_xO (Coq_xO (Coq_xO (Coq_xI (Coq_xO (Coq_xO (Coq_xO (Coq_xO
    (Coq_xO (Coq_xO (Coq_xO (Coq_xI (Coq_xO (Coq_xO (Coq_xO (Coq_xO (Coq_xO
    (Coq_xO (Coq_xO (Coq_xI (Coq_xO (Coq_xO (Coq_xO (Coq_xO (Coq_xO (Coq_xO
    (Coq_xO (Coq_xI (Coq_xO (Coq_xO (Coq_xO (Coq_xO (Coq_xO (Coq_xO (Coq_xO
    (Coq_xI (Coq_xO (Coq_xO (Coq_xO (Coq_xO (Coq_xO (Coq_xO (Coq_xO (Coq_xI
    (Coq_xO (Coq_xO (Coq_xO (Coq_xO (Coq_xO (Coq_xO (Coq_xO (Coq_xI (Coq_xO
    (Coq_xO (Coq_xO (Coq_xO (Coq_xO (Coq_xO (Coq_xO
    Coq_xH))))))))))))))))))))))))))))))))))))))))))))))))))))))))))))) :: ((Npos
    (Coq_xO (Coq_xO (Coq_xO (Coq_xO (Coq_xO (Coq_xI (Coq_xO (Coq_xO (Coq_xO
    (Coq_xO (Coq_xO (Coq_xO (Coq_xO (Coq_xI (Coq_xO (Coq_xO (Coq_xO (Coq_xO
    (Coq_xO (Coq_xO (Coq_xO (Coq_xI (Coq_xO (Coq_xO (Coq_xO (Coq_xO (Coq_xO
    (Coq_xO (Coq_xO (Coq_xI (Coq_xO (Coq_xO (Coq_xO (Coq_xO (Coq_xO (Coq_xO
    (Coq_xO (Coq_xI (Coq_xO (Coq_xO (Coq_xO (Coq_xO (Coq_xO (Coq_xO (Coq_xO
    (Coq_xI (Coq_xO (Coq_xO (Coq_xO (Coq_xO (Coq_xO (Coq_xO (Coq_xO (Coq_xI
    (Coq_xO (Coq_xO (Coq_xO (Coq_xO (Coq_xO (Coq_xO (Coq_xO
    Coq_xH)))))))))))))))))))))))))))))))))))))))))))))))))))))))))))))) :: ((Npos
    (Coq_xO (Coq_xO (Coq_xO (Coq_xO (Coq_xO (Coq_xO (Coq_xI (Coq_xO (Coq_xO
    (Coq_xO (Coq_xO (Coq_xO (Coq_xO (Coq_xO (Coq_xI (Coq_xO (Coq_xO (Coq_xO
    (Coq_xO (Coq_xO (Coq_xO (Coq_xO (Coq_xI (Coq_xO (Coq_xO (Coq_xO (Coq_xO
    (Coq_xO (Coq_xO (Coq_xO (Coq_xI (Coq_xO (Coq_xO (Coq_xO (Coq_xO (Coq_xO
    (Coq_xO (Coq_xO (Coq_xI (Coq_xO (Coq_xO (Coq_xO (Coq_xO (Coq_xO (Coq_xO
    (Coq_xO (Coq_xI (Coq_xO (Coq_xO (Coq_xO (Coq_xO (Coq_xO (Coq_xO (Coq_xO
    (Coq_xI (Coq_xO (Coq_xO (Coq_xO (Coq_xO (Coq_xO (Coq_xO (Coq_xO
    Coq_xH))))))))))))))))))))))))))))))))))))))))))))))))))))))))))))))) :: ((Npos
    (Coq_xO (Coq_xO (Coq_xO (Coq_xO (Coq_xO (Coq_xO (Coq_xO (Coq_xI (Coq_xO
    (Coq_xO (Coq_xO (Coq_xO (Coq_xO (Coq_xO (Coq_xO (Coq_xI (Coq_xO (Coq_xO
    (Coq_xO (Coq_xO (Coq_xO (Coq_xO (Coq_xO (Coq_xI (Coq_xO (Coq_xO (Coq_xO
    (Coq_xO (Coq_xO (Coq_xO (Coq_xO (Coq_xI (Coq_xO (Coq_xO (Coq_xO (Coq_xO
    (Coq_xO (Coq_xO (Coq_xO (Coq_xI (Coq_xO (Coq_xO (Coq_xO (Coq_xO (Coq_xO
    (Coq_xO (Coq_xO (Coq_xI (Coq_xO (Coq_xO (Coq_xO (Coq_xO (Coq_xO (Coq_xO
    (Coq_xO (Coq_xI (Coq_xO (Coq_xO (Coq_xO (Coq_xO (Coq_xO (Coq_xO (Coq_xO
    Coq_xH)))))))))))))))))))))))))))))))))))))))))))))))))))))))))))))))) :: [])))))))

(** val castle_path_masks : coq_N list **)

let castle_path_masks =
  (Npos (Coq_xO (Coq_xO (Coq_xO (Coq_xO (Coq_xO (Coq_xI
    Coq_xH))))))) :: ((Npos (Coq_xO (Coq_xO (Coq_xO (Coq_xO (Coq_xO (Coq_xO
    (Coq_xO (Coq_xO (Coq_xO (Coq_xO (Coq_xO (Coq_xO (Coq_xO (Coq_xO (Coq_xO
    (Coq_xO (Coq_xO (Coq_xO (Coq_xO (Coq_xO (Coq_xO (Coq_xO (Coq_xO (Coq_xO
    (Coq_xO (Coq_xO (Coq_xO (Coq_xO (Coq_xO (Coq_xO (Coq_xO (Coq_xO (Coq_xO
    (Coq_xO (Coq_xO (Coq_xO (Coq_xO (Coq_xO (Coq_xO (Coq_xO (Coq_xO (Coq_xO
    (Coq_xO (Coq_xO (Coq_xO (Coq_xO (Coq_xO (Coq_xO (Coq_xO (Coq_xO (Coq_xO
    (Coq_xO (Coq_xO (Coq_xO (Coq_xO (Coq_xO (Coq_xO (Coq_xO (Coq_xO (Coq_xO
    (Coq_xO (Coq_xI
    Coq_xH))))))))))))))))))))))))))))))))))))))))))))))))))))))))))))))) :: ((Npos
    (Coq_xO (Coq_xI (Coq_xI Coq_xH)))) :: ((Npos (Coq_xO (Coq_xO (Coq_xO
    (Coq_xO (Coq_xO (Coq_xO (Coq_xO (Coq_xO (Coq_xO (Coq_xO (Coq_xO (Coq_xO
    (Coq_xO (Coq_xO (Coq_xO (Coq_xO (Coq_xO (Coq_xO (Coq_xO (Coq_xO (Coq_xO
    (Coq_xO (Coq_xO (Coq_xO (Coq_xO (Coq_xO (Coq_xO (Coq_xO (Coq_xO (Coq_xO
    (Coq_xO (Coq_xO (Coq_xO (Coq_xO (Coq_xO (Coq_xO (Coq_xO (Coq_xO (Coq_xO
    (Coq_xO (Coq_xO (Coq_xO (Coq_xO (Coq_xO (Coq_xO (Coq_xO (Coq_xO (Coq_xO
    (Coq_xO (Coq_xO (Coq_xO (Coq_xO (Coq_xO (Coq_xO (Coq_xO (Coq_xO (Coq_xO
    (Coq_xI (Coq_xI
    Coq_xH)))))))))))))))))))))))))))))))))))))))))))))))))))))))))))) :: [])))

(** val castle_check_masks : coq_N list **)

let castle_check_masks =
  (Npos (Coq_xO (Coq_xO (Coq_xO (Coq_xO (Coq_xI (Coq_xI
    Coq_xH))))))) :: ((Npos (Coq_xO (Coq_xO (Coq_xO (Coq_xO (Coq_xO (Coq_xO
    (Coq_xO (Coq_xO (Coq_xO (Coq_xO (Coq_xO (Coq_xO (Coq_xO (Coq_xO (Coq_xO
    (Coq_xO (Coq_xO (Coq_xO (Coq_xO (Coq_xO (Coq_xO (Coq_xO (Coq_xO (Coq_xO
    (Coq_xO (Coq_xO (Coq_xO (Coq_xO (Coq_xO (Coq_xO (Coq_xO (Coq_xO (Coq_xO
    (Coq_xO (Coq_xO (Coq_xO (Coq_xO (Coq_xO (Coq_xO (Coq_xO (Coq_xO (Coq_xO
    (Coq_xO (Coq_xO (Coq_xO (Coq_xO (Coq_xO (Coq_xO (Coq_xO (Coq_xO (Coq_xO
    (Coq_xO (Coq_xO (Coq_xO (Coq_xO (Coq_xO (Coq_xO (Coq_xO (Coq_xO (Coq_xO
    (Coq_xI (Coq_xI
    Coq_xH))))))))))))))))))))))))))))))))))))))))))))))))))))))))))))))) :: ((Npos
    (Coq_xO (Coq_xO (Coq_xI (Coq_xI Coq_xH))))) :: ((Npos (Coq_xO (Coq_xO
    (Coq_xO (Coq_xO (Coq_xO (Coq_xO (Coq_xO (Coq_xO (Coq_xO (Coq_xO (Coq_xO
    (Coq_xO (Coq_xO (Coq_xO (Coq_xO (Coq_xO (Coq_xO (Coq_xO (Coq_xO (Coq_xO
    (Coq_xO (Coq_xO (Coq_xO (Coq_xO (Coq_xO (Coq_xO (Coq_xO (Coq_xO (Coq_xO
    (Coq_xO (Coq_xO (Coq_xO (Coq_xO (Coq_xO (Coq_xO (Coq_xO (Coq_xO (Coq_xO
    (Coq_xO (Coq_xO (Coq_xO (Coq_xO (Coq_xO (Coq_xO (Coq_xO (Coq_xO (Coq_xO
    (Coq_xO (Coq_xO (Coq_xO (Coq_xO (Coq_xO (Coq_xO (Coq_xO (Coq_xO (Coq_xO
    (Coq_xO (Coq_xO (Coq_xI (Coq_xI
    Coq_xH))))))))))))))))))))))))))))))))))))))))))))))))))))))))))))) :: [])))

(** val king_origins : coq_N list **)

let king_origins =
  (Npos (Coq_xO (Coq_xO Coq_xH))) :: ((Npos (Coq_xO (Coq_xO (Coq_xI (Coq_xI
    (Coq_xI Coq_xH)))))) :: [])

(** val castle_dests : coq_N list **)

let castle_dests =
  (Npos (Coq_xO (Coq_xI Coq_xH))) :: ((Npos (Coq_xO Coq_xH)) :: ((Npos
    (Coq_xO (Coq_xI (Coq_xI (Coq_xI (Coq_xI Coq_xH)))))) :: ((Npos (Coq_xO
    (Coq_xI (Coq_xO (Coq_xI (Coq_xI Coq_xH)))))) :: [])))

(** val rook_magics : coq_N list **)

let rook_magics =
  (Npos (Coq_xO (Coq_xO (Coq_xO (Coq_xO (Coq_xO (Coq_xI (Coq_xO (Coq_xO
    (Coq_xO (Coq_xO (Coq_xO (Coq_xO (Coq_xO (Coq_xO (Coq_xO (Coq_xI (Coq_xO
    (Coq_xO (Coq_xO (Coq_xO (Coq_xI (Coq_xO (Coq_xO (Coq_xO (Coq_xO (Coq_xO
    (Coq_xO (Coq_xO (Coq_xO (Coq_xO (Coq_xO (Coq_xO (Coq_xO (Coq_xO (Coq_xO
    (Coq_xO (Coq_xO (Coq_xO (Coq_xI (Coq_xI (Coq_xO (Coq_xI (Coq_xO (Coq_xO
    (Coq_xO (Coq_xO (Coq_xO (Coq_xO (Coq_xO (Coq_xO (Coq_xO (Coq_xO (Coq_xO
    (Coq_xO (Coq_xO (Coq_xI (Coq_xO (Coq_xI (Coq_xO
    Coq_xH)))))))))))))))))))))))))))))))))))))))))))))))))))))))))))) :: ((Npos
    (Coq_xI (Coq_xO (Coq_xO (Coq_xO (Coq_xO (Coq_xO (Coq_xO (Coq_xO (Coq_xO
    (Coq_xO (Coq_xO (Coq_xO (Coq_xO (Coq_xI (Coq_xO (Coq_xO (Coq_xO (Coq_xO
    (Coq_xO (Coq_xO (Coq_xO (Coq_xO (Coq_xO (Coq_xO (Coq_xO (Coq_xO (Coq_xO
    (Coq_xO (Coq_xI (Coq_xI (Coq_xO (Coq_xI (Coq_xI (Coq_xO (Coq_xO (Coq_xI
    (Coq_xO (Coq_xO (Coq_xI (Coq_xO (Coq_xO (Coq_xO (Coq_xO (Coq_xO (Coq_xO
    (Coq_xO (Coq_xO (Coq_xO (Coq_xO (Coq_xO (Coq_xO (Coq_xO (Coq_xO (Coq_xO
    (Coq_xI (Coq_xI (Coq_xO (Coq_xI
    Coq_xH))))))))))))))))))))))))))))))))))))))))))))))))))))))))))) :: ((Npos
    (Coq_xO (Coq_xO (Coq_xO (Coq_xO (Coq_xO (Coq_xO (Coq_xI (Coq_xO (Coq_xO
    (Coq_xO (Coq_xO (Coq_xO (Coq_xO (Coq_xO (Coq_xO (Coq_xO (Coq_xI (Coq_xO
    (Coq_xO (Coq_xI (Coq_xO (Coq_xO (Coq_xO (Coq_xO (Coq_xO (Coq_xO (Coq_xO
    (Coq_xO (Coq_xI (Coq_xO (Coq_xO (Coq_xO (Coq_xO (Coq_xO (Coq_xO (Coq_xO
    (Coq_xO (Coq_xO (Coq_xO (Coq_xO (Coq_xO (Coq_xO (Coq_xO (Coq_xO (Coq_xO
    (Coq_xI (Coq_xO (Coq_xO (Coq_xO (Coq_xO (Coq_xO (Coq_xO (Coq_xO (Coq_xO
    (Coq_xO (Coq_xO
    Coq_xH))))))))))))))))))))))))))))))))))))))))))))))))))))))))) :: ((Npos
    (Coq_xI (Coq_xO (Coq_xO (Coq_xO (Coq_xO (Coq_xO (Coq_xO (Coq_xO (Coq_xO
    (Coq_xO (Coq_xO (Coq_xI (Coq_xO (Coq_xO (Coq_xO (Coq_xO (Coq_xO (Coq_xO
    (Coq_xO (Coq_xO (Coq_xO (Coq_xO (Coq_xO (Coq_xI (Coq_xO (Coq_xO (Coq_xO
    (Coq_xO (Coq_xO (Coq_xO (Coq_xO (Coq_xO (Coq_xO (Coq_xO (Coq_xO (Coq_xO
    (Coq_xI (Coq_xO (Coq_xO (Coq_xO (Coq_xO (Coq_xO (Coq_xI (Coq_xO (Coq_xO
    (Coq_xO (Coq_xO (Coq_xO (Coq_xO (Coq_xO (Coq_xO (Coq_xO (Coq_xO (Coq_xO
    (Coq_xO (Coq_xI (Coq_xO (Coq_xO (Coq_xI (Coq_xO (Coq_xO
    Coq_xH)))))))))))))))))))))))))))))))))))))))))))))))))))))))))))))) :: ((Npos
    (Coq_xO (Coq_xO (Coq_xO (Coq_xO (Coq_xO (Coq_xO (Coq_xO (Coq_xO (Coq_xO
    (Coq_xO (Coq_xO (Coq_xI (Coq_xO (Coq_xO (Coq_xO (Coq_xO (Coq_xO (Coq_xO
    (Coq_xO (Coq_xO (Coq_xO (Coq_xO (Coq_xO (Coq_xO (Coq_xO (Coq_xO (Coq_xI
    (Coq_xO (Coq_xO (Coq_xO (Coq_xO (Coq_xO (Coq_xO (Coq_xO (Coq_xO (Coq_xO
    (Coq_xO (Coq_xO (Coq_xO (Coq_xI (Coq_xO (Coq_xI (Coq_xO (Coq_xO (Coq_xO
    (Coq_xO (Coq_xO (Coq_xO (Coq_xO (Coq_xO (Coq_xO (Coq_xO (Coq_xO (Coq_xO
    (Coq_xO (Coq_xI (Coq_xO
    Coq_xH)))))))))))))))))))))))))))))))))))))))))))))))))))))))))) :: ((Npos
    (Coq_xO (Coq_xI (Coq_xO (Coq_xO (Coq_xO (Coq_xI (Coq_xO (Coq_xO (Coq_xO
    (Coq_xO (Coq_xO (Coq_xO (Coq_xO (Coq_xO (Coq_xO (Coq_xO (Coq_xO (Coq_xO
    (Coq_xI (Coq_xO (Coq_xO (Coq_xO (Coq_xO (Coq_xO (Coq_xO (Coq_xO (Coq_xO
    (Coq_xI (Coq_xO (Coq_xO (Coq_xO (Coq_xO (Coq_xO (Coq_xO (Coq_xO (Coq_xO
    (Coq_xO (Coq_xO (Coq_xO (Coq_xO (Coq_xI (Coq_xO (Coq_xO (Coq_xO (Coq_xO
    (Coq_xO (Coq_xI (Coq_xO (Coq_xO (Coq_xO (Coq_xO (Coq_xO (Coq_xO (Coq_xO
    (Coq_xO (Coq_xO (Coq_xI (Coq_xO (Coq_xO
    Coq_xH)))))))))))))))))))))))))))))))))))))))))))))))))))))))))))) :: ((Npos
    (Coq_xO (Coq_xO (Coq_xO (Coq_xO (Coq_xO (Coq_xO (Coq_xO (Coq_xI (Coq_xO
    (Coq_xO (Coq_xO (Coq_xO (Coq_xI (Coq_xO (Coq_xO (Coq_xO (Coq_xO (Coq_xO
    (Coq_xO (Coq_xO (Coq_xO (Coq_xO (Coq_xO (Coq_xO (Coq_xI (Coq_xO (Coq_xO
    (Coq_xO (Coq_xO (Coq_xO (Coq_xO (Coq_xO (Coq_xO (Coq_xO (Coq_xO (Coq_xO
    (Coq_xO (Coq_xO (Coq_xO (Coq_xO (Coq_xO (Coq_xI (Coq_xO (Coq_xO (Coq_xO
    (Coq_xO (Coq_xO (Coq_xO (Coq_xO (Coq_xO (Coq_xO (Coq_xO (Coq_xO (Coq_xO
    (Coq_xO (Coq_xI (Coq_xO
    Coq_xH)))))))))))))))))))))))))))))))))))))))))))))))))))))))))) :: ((Npos
    (Coq_xO (Coq_xO (Coq_xO (Coq_xO (Coq_xO (Coq_xO (Coq_xO (Coq_xI (Coq_xO
    (Coq_xO (Coq_xO (Coq_xO (Coq_xO (Coq_xO (Coq_xO (Coq_xO (Coq_xO (Coq_xO
    (Coq_xO (Coq_xO (Coq_xO (Coq_xO (Coq_xO (Coq_xO (Coq_xI (Coq_xO (Coq_xO
    (Coq_xO (Coq_xO (Coq_xO (Coq_xI (Coq_xO (Coq_xO (Coq_xO (Coq_xO (Coq_xO
    (Coq_xO (Coq_xI (Coq_xO (Coq_xO (Coq_xO (Coq_xO (Coq_xO (Coq_xO (Coq_xO
    (Coq_xO (Coq_xO (Coq_xO (Coq_xO (Coq_xO (Coq_xO (Coq_xO (Coq_xO (Coq_xO
    (Coq_xO (Coq_xI (Coq_xO (Coq_xO (Coq_xO (Coq_xI (Coq_xO
    Coq_xH)))))))))))))))))))))))))))))))))))))))))))))))))))))))))))))) :: ((Npos
    (Coq_xO (Coq_xO (Coq_xI (Coq_xO (Coq_xI (Coq_xI (Coq_xO (Coq_xO (Coq_xO
    (Coq_xO (Coq_xO (Coq_xO (Coq_xO (Coq_xO (Coq_xO (Coq_xO (Coq_xO (Coq_xO
    (Coq_xO (Coq_xO (Coq_xO (Coq_xO (Coq_xI (Coq_xO (Coq_xO (Coq_xO (Coq_xO
    (Coq_xO (Coq_xO (Coq_xO (Coq_xO (Coq_xI (Coq_xO (Coq_xO (Coq_xO (Coq_xO
    (Coq_xO (Coq_xO (Coq_xO (Coq_xO (Coq_xO (Coq_xO (Coq_xO (Coq_xO (Coq_xO
    (Coq_xO (Coq_xO (Coq_xI (Coq_xO (Coq_xO (Coq_xO (Coq_xO (Coq_xO (Coq_xO
    (Coq_xO (Coq_xO (Coq_xO (Coq_xO (Coq_xO (Coq_xO (Coq_xO (Coq_xI (Coq_xO
    Coq_xH)))))))))))))))))))))))))))))))))))))))))))))))))))))))))))))))) :: ((Npos
    (Coq_xO (Coq_xO (Coq_xO (Coq_xO (Coq_xO (Coq_xO (Coq_xO (Coq_xO (Coq_xO
    (Coq_xO (Coq_xO (Coq_xO (Coq_xO (Coq_xO (Coq_xI (Coq_xO (Coq_xO (Coq_xO
    (Coq_xO (Coq_xO (Coq_xO (Coq_xO (Coq_xO (Coq_xO (Coq_xO (Coq_xO (Coq_xO
    (Coq_xO (Coq_xO (Coq_xI (Coq_xO (Coq_xO (Coq_xO (Coq_xO (Coq_xO (Coq_xO
    (Coq_xO (Coq_xO (Coq_xO (Coq_xI (Coq_xO (Coq_xO (Coq_xO (Coq_xO (Coq_xO
    (Coq_xO (Coq_xO (Coq_xI (Coq_xO (Coq_xO
    Coq_xH))))))))))))))))))))))))))))))))))))))))))))))))))) :: ((Npos
    (Coq_xO (Coq_xO (Coq_xO (Coq_xO (Coq_xO (Coq_xO (Coq_xO (Coq_xO (Coq_xO
    (Coq_xO (Coq_xO (Coq_xO (Coq_xI (Coq_xO (Coq_xO (Coq_xO (Coq_xO (Coq_xO
    (Coq_xO (Coq_xO (Coq_xO (Coq_xO (Coq_xO (Coq_xI (Coq_xO (Coq_xO (Coq_xI
    (Coq_xO (Coq_xO (Coq_xO (Coq_xO (Coq_xO (Coq_xO (Coq_xO (Coq_xO (Coq_xO
    (Coq_xO (Coq_xI (Coq_xO (Coq_xO (Coq_xO (Coq_xO (Coq_xO (Coq_xO (Coq_xO
    (Coq_xO (Coq_xO (Coq_xI (Coq_xO (Coq_xO (Coq_xO (Coq_xO (Coq_xI (Coq_xO
    (Coq_xO (Coq_xI (Coq_xO (Coq_xI (Coq_xO (Coq_xO (Coq_xO
    Coq_xH)))))))))))))))))))))))))))))))))))))))))))))))))))))))))))))) :: ((Npos
    (Coq_xO (Coq_xO (Coq_xO (Coq_xO (Coq_xO (Coq_xI (Coq_xO (Coq_xO (Coq_xO
    (Coq_xO (Coq_xO (Coq_xO (Coq_xO (Coq_xO (Coq_xO (Coq_xO (Coq_xO (Coq_xO
    (Coq_xO (Coq_xO (Coq_xI (Coq_xO (Coq_xO (Coq_xO (Coq_xO (Coq_xO (Coq_xO
    (Coq_xO (Coq_xO (Coq_xO (Coq_xO (Coq_xO (Coq_xI (Coq_xO (Coq_xI (Coq_xI
    (Coq_xO (Coq_xO (Coq_xO (Coq_xO (Coq_xO (Coq_xO (Coq_xO (Coq_xO (Coq_xO
    (Coq_xO (Coq_xO (Coq_xO (Coq_xI (Coq_xO (Coq_xO (Coq_xO (Coq_xI (Coq_xO
    (Coq_xO (Coq_xO (Coq_xO (Coq_xO
    Coq_xH))))))))))))))))))))))))))))))))))))))))))))))))))))))))))) :: ((Npos
    (Coq_xO (Coq_xO (Coq_xO (Coq_xO (Coq_xO (Coq_xO (Coq_xO (Coq_xI (Coq_xO
    (Coq_xO (Coq_xO (Coq_xO (Coq_xO (Coq_xO (Coq_xO (Coq_xO (Coq_xO (Coq_xO
    (Coq_xI (Coq_xO (Coq_xO (Coq_xO (Coq_xO (Coq_xO (Coq_xO (Coq_xO (Coq_xO
    (Coq_xO (Coq_xO (Coq_xO (Coq_xO (Coq_xO (Coq_xO (Coq_xO (Coq_xO (Coq_xI
    (Coq_xO (Coq_xO (Coq_xO (Coq_xO (Coq_xO (Coq_xO (Coq_xO (Coq_xO (Coq_xO
    (Coq_xO (Coq_xO (Coq_xI (Coq_xO (Coq_xI (Coq_xO (Coq_xO (Coq_xO (Coq_xO
    (Coq_xO (Coq_xO (Coq_xO (Coq_xO
    Coq_xH))))))))))))))))))))))))))))))))))))))))))))))))))))))))))) :: ((Npos
    (Coq_xO (Coq_xO (Coq_xO (Coq_xI (Coq_xO (Coq_xO (Coq_xO (Coq_xO (Coq_xO
    (Coq_xI (Coq_xO (Coq_xO (Coq_xO (Coq_xO (Coq_xI (Coq_xO (Coq_xO (Coq_xO
    (Coq_xO (Coq_xO (Coq_xO (Coq_xO (Coq_xO (Coq_xO (Coq_xI (Coq_xO (Coq_xO
    (Coq_xO (Coq_xO (Coq_xO (Coq_xO (Coq_xO (Coq_xO (Coq_xO (Coq_xI (Coq_xO
    (Coq_xO (Coq_xO (Coq_xO (Coq_xO (Coq_xO (Coq_xO (Coq_xO (Coq_xO (Coq_xO
    (Coq_xO (Coq_xO (Coq_xO (Coq_xI (Coq_xI (Coq_xO
    Coq_xH)))))))))))))))))))))))))))))))))))))))))))))))))))) :: ((Npos
    (Coq_xO (Coq_xO (Coq_xO (Coq_xO (Coq_xO (Coq_xO (Coq_xO (Coq_xO (Coq_xO
    (Coq_xI (Coq_xO (Coq_xO (Coq_xO (Coq_xO (Coq_xO (Coq_xO (Coq_xO (Coq_xO
    (Coq_xI (Coq_xO (Coq_xO (Coq_xO (Coq_xO (Coq_xO (Coq_xO (Coq_xO (Coq_xO
    (Coq_xO (Coq_xO (Coq_xO (Coq_xO (Coq_xO (Coq_xI (Coq_xO (Coq_xO (Coq_xO
    (Coq_xO (Coq_xO (Coq_xO (Coq_xO (Coq_xO (Coq_xO (Coq_xO (Coq_xO (Coq_xO
    (Coq_xO (Coq_xO (Coq_xO (Coq_xI (Coq_xO (Coq_xO (Coq_xI (Coq_xO (Coq_xO
    (Coq_xO (Coq_xO (Coq_xO (Coq_xO (Coq_xI (Coq_xO (Coq_xO
    Coq_xH)))))))))))))))))))))))))))))))))))))))))))))))))))))))))))))) :: ((Npos
    (Coq_xO (Coq_xI (Coq_xO (Coq_xO (Coq_xO (Coq_xO (Coq_xO (Coq_xI (Coq_xO
    (Coq_xO (Coq_xO (Coq_xO (Coq_xO (Coq_xO (Coq_xI (Coq_xO (Coq_xO (Coq_xO
    (Coq_xO (Coq_xO (Coq_xO (Coq_xO (Coq_xO (Coq_xO (Coq_xO (Coq_xO (Coq_xO
    (Coq_xO (Coq_xO (Coq_xO (Coq_xO (Coq_xO (Coq_xI (Coq_xO (Coq_xO (Coq_xO
    (Coq_xO (Coq_xI (Coq_xO (Coq_xO (Coq_xO (Coq_xO (Coq_xO (Coq_xO (Coq_xO
    (Coq_xO (Coq_xO (Coq_xO
    Coq_xH))))))))))))))))))))))))))))))))))))))))))))))))) :: ((Npos (Coq_xO
    (Coq_xO (Coq_xO (Coq_xO (Coq_xO (Coq_xO (Coq_xO (Coq_xO (Coq_xO (Coq_xO
    (Coq_xO (Coq_xO (Coq_xO (Coq_xO (Coq_xI (Coq_xO (Coq_xO (Coq_xI (Coq_xO
    (Coq_xO (Coq_xO (Coq_xI (Coq_xI (Coq_xI (Coq_xI (Coq_xO (Coq_xO (Coq_xO
    (Coq_xO (Coq_xO (Coq_xO (Coq_xO (Coq_xO (Coq_xO (Coq_xO (Coq_xO (Coq_xO
    (Coq_xO (Coq_xO (Coq_xI (Coq_xI (Coq_xI (Coq_xI (Coq_xO (Coq_xO (Coq_xO
    (Coq_xO (Coq_xI (Coq_xO (Coq_xI (Coq_xO (Coq_xO (Coq_xO
    Coq_xH)))))))))))))))))))))))))))))))))))))))))))))))))))))) :: ((Npos
    (Coq_xO (Coq_xO (Coq_xO (Coq_xO (Coq_xI (Coq_xO (Coq_xO (Coq_xO (Coq_xO
    (Coq_xO (Coq_xO (Coq_xO (Coq_xO (Coq_xO (Coq_xI (Coq_xO (Coq_xO (Coq_xO
    (Coq_xO (Coq_xO (Coq_xO (Coq_xO (Coq_xO (Coq_xO (Coq_xI (Coq_xO (Coq_xO
    (Coq_xO (Coq_xO (Coq_xI (Coq_xO (Coq_xO (Coq_xO (Coq_xO (Coq_xO (Coq_xO
    (Coq_xO (Coq_xO (Coq_xO (Coq_xO (Coq_xI (Coq_xO (Coq_xO (Coq_xO (Coq_xO
    (Coq_xO (Coq_xO (Coq_xI (Coq_xO (Coq_xO (Coq_xO (Coq_xO (Coq_xI (Coq_xO
    (Coq_xO (Coq_xI (Coq_xO (Coq_xO (Coq_xO (Coq_xO
    Coq_xH))))))))))))))))))))))))))))))))))))))))))))))))))))))))))))) :: ((Npos
    (Coq_xO (Coq_xI (Coq_xO (Coq_xO (Coq_xI (Coq_xO (Coq_xO (Coq_xO (Coq_xO
    (Coq_xO (Coq_xO (Coq_xO (Coq_xO (Coq_xO (Coq_xO (Coq_xO (Coq_xO (Coq_xO
    (Coq_xO (Coq_xO (Coq_xO (Coq_xI (Coq_xO (Coq_xO (Coq_xO (Coq_xO (Coq_xO
    (Coq_xO (Coq_xO (Coq_xO (Coq_xI (Coq_xO (Coq_xO (Coq_xO (Coq_xO (Coq_xO
    (Coq_xO (Coq_xO (Coq_xO (Coq_xO (Coq_xI (Coq_xI (Coq_xO (Coq_xO (Coq_xO
    (Coq_xO (Coq_xO (Coq_xO (Coq_xI (Coq_xO (Coq_xO (Coq_xO (Coq_xO (Coq_xO
    (Coq_xO (Coq_xO (Coq_xO (Coq_xO (Coq_xO
    Coq_xH)))))))))))))))))))))))))))))))))))))))))))))))))))))))))))) :: ((Npos
    (Coq_xO (Coq_xO (Coq_xO (Coq_xO (Coq_xO (Coq_xO (Coq_xO (Coq_xO (Coq_xO
    (Coq_xO (Coq_xO (Coq_xO (Coq_xI (Coq_xO (Coq_xO (Coq_xO (Coq_xO (Coq_xO
    (Coq_xO (Coq_xO (Coq_xO (Coq_xO (Coq_xO (Coq_xO (Coq_xO (Coq_xO (Coq_xO
    (Coq_xI (Coq_xO (Coq_xO (Coq_xO (Coq_xO (Coq_xO (Coq_xO (Coq_xO (Coq_xO
    (Coq_xO (Coq_xO (Coq_xO (Coq_xI (Coq_xO (Coq_xO (Coq_xO (Coq_xO (Coq_xO
    (Coq_xO (Coq_xO (Coq_xI (Coq_xO (Coq_xO (Coq_xO (Coq_xO (Coq_xO (Coq_xO
    (Coq_xO (Coq_xO (Coq_xI (Coq_xO
    Coq_xH))))))))))))))))))))))))))))))))))))))))))))))))))))))))))) :: ((Npos
    (Coq_xO (Coq_xO (Coq_xO (Coq_xO (Coq_xO (Coq_xO (Coq_xO (Coq_xI (Coq_xO
    (Coq_xO (Coq_xO (Coq_xI (Coq_xO (Coq_xO (Coq_xO (Coq_xO (Coq_xO (Coq_xO
    (Coq_xO (Coq_xO (Coq_xO (Coq_xO (Coq_xO (Coq_xO (Coq_xO (Coq_xO (Coq_xI
    (Coq_xO (Coq_xI (Coq_xO (Coq_xO (Coq_xO (Coq_xO (Coq_xO (Coq_xO (Coq_xO
    (Coq_xO (Coq_xO (Coq_xO (Coq_xI (Coq_xI (Coq_xO (Coq_xO (Coq_xO (Coq_xO
    (Coq_xO (Coq_xO (Coq_xO (Coq_xO (Coq_xO (Coq_xO (Coq_xI (Coq_xO (Coq_xO
    (Coq_xO (Coq_xO (Coq_xO (Coq_xI (Coq_xO
    Coq_xH)))))))))))))))))))))))))))))))))))))))))))))))))))))))))))) :: ((Npos
    (Coq_xO (Coq_xO (Coq_xO (Coq_xO (Coq_xO (Coq_xO (Coq_xO (Coq_xO (Coq_xO
    (Coq_xI (Coq_xO (Coq_xO (Coq_xO (Coq_xO (Coq_xO (Coq_xO (Coq_xO (Coq_xO
    (Coq_xO (Coq_xO (Coq_xO (Coq_xO (Coq_xO (Coq_xO (Coq_xO (Coq_xO (Coq_xI
    (Coq_xO (Coq_xO (Coq_xO (Coq_xO (Coq_xO (Coq_xO (Coq_xO (Coq_xO (Coq_xO
    (Coq_xO (Coq_xO (Coq_xO (Coq_xI (Coq_xO (Coq_xO (Coq_xO (Coq_xO (Coq_xO
    (Coq_xO (Coq_xO (Coq_xI (Coq_xO (Coq_xO (Coq_xO (Coq_xO (Coq_xO (Coq_xO
    (Coq_xO (Coq_xO (Coq_xO (Coq_xO (Coq_xO (Coq_xO (Coq_xO (Coq_xO (Coq_xO
    Coq_xH)))))))))))))))))))))))))))))))))))))))))))))))))))))))))))))))) :: ((Npos
    (Coq_xO (Coq_xO (Coq_xO (Coq_xO (Coq_xO (Coq_xO (Coq_xO (Coq_xO (Coq_xO
    (Coq_xI (Coq_xO (Coq_xO (Coq_xO (Coq_xO (Coq_xO (Coq_xO (Coq_xI (Coq_xO
    (Coq_xO (Coq_xO (Coq_xO (Coq_xO (Coq_xO (Coq_xO (Coq_xO (Coq_xO (Coq_xO
    (Coq_xO (Coq_xO (Coq_xO (Coq_xO (Coq_xI (Coq_xO (Coq_xO (Coq_xO (Coq_xO
    (Coq_xO (Coq_xO (Coq_xO (Coq_xI (Coq_xO (Coq_xO (Coq_xO (Coq_xO (Coq_xO
    (Coq_xO (Coq_xO (Coq_xO (Coq_xI (Coq_xO (Coq_xO (Coq_xO (Coq_xO (Coq_xO
    (Coq_xO (Coq_xO (Coq_xO
    Coq_xH)))))))))))))))))))))))))))))))))))))))))))))))))))))))))) :: ((Npos
    (Coq_xI (Coq_xO (Coq_xO (Coq_xO (Coq_xI (Coq_xO (Coq_xO (Coq_xI (Coq_xO
    (Coq_xO (Coq_xO (Coq_xO (Coq_xI (Coq_xO (Coq_xO (Coq_xO (Coq_xO (Coq_xO
    (Coq_xI (Coq_xO (Coq_xO (Coq_xO (Coq_xI (Coq_xO (Coq_xO (Coq_xO (Coq_xO
    (Coq_xO (Coq_xO (Coq_xO (Coq_xO (Coq_xO (Coq_xO (Coq_xO (Coq_xO (Coq_xO
    (Coq_xO (Coq_xO (Coq_xO (Coq_xO (Coq_xO (Coq_xI (Coq_xO (Coq_xO (Coq_xO
    (Coq_xO (Coq_xO (Coq_xO (Coq_xI (Coq_xO (Coq_xO (Coq_xO (Coq_xO (Coq_xO
    (Coq_xO (Coq_xO (Coq_xO (Coq_xO (Coq_xO
    Coq_xH)))))))))))))))))))))))))))))))))))))))))))))))))))))))))))) :: ((Npos
    (Coq_xI (Coq_xO (Coq_xI (Coq_xO (Coq_xO (Coq_xO (Coq_xO (Coq_xO (Coq_xO
    (Coq_xO (Coq_xO (Coq_xO (Coq_xO (Coq_xO (Coq_xI (Coq_xO (Coq_xO (Coq_xO
    (Coq_xO (Coq_xO (Coq_xO (Coq_xI (Coq_xO (Coq_xO (Coq_xO (Coq_xO (Coq_xO
    (Coq_xO (Coq_xO (Coq_xO (Coq_xO (Coq_xI (Coq_xO (Coq_xO (Coq_xO (Coq_xO
    (Coq_xO (Coq_xO (Coq_xO (Coq_xO (Coq_xO (Coq_xO (Coq_xO (Coq_xO (Coq_xO
    (Coq_xO (Coq_xO
    Coq_xH)))))))))))))))))))))))))))))))))))))))))))))))) :: ((Npos (Coq_xO
    (Coq_xO (Coq_xO (Coq_xI (Coq_xO (Coq_xO (Coq_xI (Coq_xO (Coq_xO (Coq_xO
    (Coq_xO (Coq_xO (Coq_xO (Coq_xO (Coq_xO (Coq_xO (Coq_xO (Coq_xO (Coq_xO
    (Coq_xO (Coq_xI (Coq_xO (Coq_xO (Coq_xO (Coq_xO (Coq_xO (Coq_xO (Coq_xO
    (Coq_xO (Coq_xO (Coq_xI (Coq_xO (Coq_xO (Coq_xO (Coq_xO (Coq_xO (Coq_xO
    (Coq_xO (Coq_xO (Coq_xO (Coq_xO (Coq_xO (Coq_xO (Coq_xO (Coq_xO (Coq_xI
    (Coq_xO (Coq_xO (Coq_xO (Coq_xO (Coq_xO (Coq_xO (Coq_xO (Coq_xO (Coq_xI
    (Coq_xO (Coq_xO (Coq_xO (Coq_xO (Coq_xO
    Coq_xH))))))))))))))))))))))))))))))))))))))))))))))))))))))))))))) :: ((Npos
    (Coq_xO (Coq_xI (Coq_xO (Coq_xO (Coq_xO (Coq_xO (Coq_xO (Coq_xI (Coq_xO
    (Coq_xO (Coq_xO (Coq_xO (Coq_xO (Coq_xI (Coq_xO (Coq_xO (Coq_xO (Coq_xO
    (Coq_xO (Coq_xO (Coq_xO (Coq_xO (Coq_xI (Coq_xO (Coq_xO (Coq_xO (Coq_xO
    (Coq_xO (Coq_xO (Coq_xO (Coq_xO (Coq_xO (Coq_xO (Coq_xI (Coq_xO (Coq_xO
    (Coq_xO (Coq_xO (Coq_xO (Coq_xO (Coq_xO (Coq_xI (Coq_xO (Coq_xO
    Coq_xH))))))))))))))))))))))))))))))))))))))))))))) :: ((Npos (Coq_xO
    (Coq_xO (Coq_xO (Coq_xO (Coq_xO (Coq_xO (Coq_xO (Coq_xI (Coq_xO (Coq_xO
    (Coq_xO (Coq_xO (Coq_xO (Coq_xO (Coq_xO (Coq_xO (Coq_xO (Coq_xO (Coq_xO
    (Coq_xO (Coq_xI (Coq_xO (Coq_xO (Coq_xO (Coq_xO (Coq_xO (Coq_xO (Coq_xO
    (Coq_xO (Coq_xO (Coq_xO (Coq_xI (Coq_xO (Coq_xO (Coq_xI (Coq_xO (Coq_xO
    (Coq_xO (Coq_xO (Coq_xO (Coq_xO (Coq_xO (Coq_xO (Coq_xI (Coq_xO (Coq_xO
    (Coq_xO (Coq_xI (Coq_xO (Coq_xO (Coq_xI (Coq_xO (Coq_xI (Coq_xO (Coq_xO
    (Coq_xO (Coq_xI (Coq_xO (Coq_xI
    Coq_xH)))))))))))))))))))))))))))))))))))))))))))))))))))))))))))) :: ((Npos
    (Coq_xO (Coq_xO (Coq_xO (Coq_xO (Coq_xO (Coq_xO (Coq_xO (Coq_xI (Coq_xO
    (Coq_xO (Coq_xO (Coq_xO (Coq_xO (Coq_xO (Coq_xO (Coq_xO (Coq_xO (Coq_xO
    (Coq_xO (Coq_xI (Coq_xO (Coq_xO (Coq_xO (Coq_xO (Coq_xO (Coq_xO (Coq_xO
    (Coq_xO (Coq_xO (Coq_xO (Coq_xO (Coq_xI (Coq_xO (Coq_xI (Coq_xO (Coq_xO
    (Coq_xO (Coq_xO (Coq_xO (Coq_xO (Coq_xO (Coq_xO (Coq_xI (Coq_xO (Coq_xO
    (Coq_xO (Coq_xO (Coq_xO (Coq_xO (Coq_xI (Coq_xO (Coq_xO
    Coq_xH))))))))))))))))))))))))))))))))))))))))))))))))))))) :: ((Npos
    (Coq_xO (Coq_xO (Coq_xO (Coq_xO (Coq_xO (Coq_xO (Coq_xO (Coq_xI (Coq_xO
    (Coq_xO (Coq_xO (Coq_xO (Coq_xO (Coq_xO (Coq_xO (Coq_xO (Coq_xO (Coq_xI
    (Coq_xO (Coq_xO (Coq_xO (Coq_xO (Coq_xO (Coq_xO (Coq_xO (Coq_xO (Coq_xO
    (Coq_xO (Coq_xO (Coq_xO (Coq_xO (Coq_xI (Coq_xO (Coq_xO (Coq_xO (Coq_xO
    (Coq_xO (Coq_xO (Coq_xO (Coq_xO (Coq_xO (Coq_xO (Coq_xI (Coq_xO (Coq_xO
    (Coq_xO (Coq_xO (Coq_xO (Coq_xO (Coq_xO (Coq_xO (Coq_xO (Coq_xO (Coq_xO
    (Coq_xO (Coq_xO
    Coq_xH))))))))))))))))))))))))))))))))))))))))))))))))))))))))) :: ((Npos
    (Coq_xO (Coq_xO (Coq_xO (Coq_xO (Coq_xO (Coq_xO (Coq_xO (Coq_xO (Coq_xO
    (Coq_xI (Coq_xO (Coq_xO (Coq_xO (Coq_xO (Coq_xO (Coq_xO (Coq_xO (Coq_xO
    (Coq_xO (Coq_xO (Coq_xO (Coq_xO (Coq_xO (Coq_xI (Coq_xO (Coq_xO (Coq_xO
    (Coq_xO (Coq_xO (Coq_xO (Coq_xO (Coq_xI (Coq_xO (Coq_xO (Coq_xO (Coq_xO
    (Coq_xO (Coq_xO (Coq_xO (Coq_xO (Coq_xI (Coq_xO (Coq_xO (Coq_xO (Coq_xO
    (Coq_xO (Coq_xO (Coq_xO (Coq_xO (Coq_xO (Coq_xO (Coq_xO (Coq_xO (Coq_xI
    (Coq_xO (Coq_xO (Coq_xO (Coq_xO (Coq_xO (Coq_xO (Coq_xI (Coq_xO (Coq_xO
    Coq_xH)))))))))))))))))))))))))))))))))))))))))))))))))))))))))))))))) :: ((Npos
    (Coq_xI (Coq_xO (Coq_xO (Coq_xI (Coq_xO (Coq_xO (Coq_xI (Coq_xO (Coq_xO
    (Coq_xO (Coq_xI (Coq_xO (Coq_xO (Coq_xO (Coq_xO (Coq_xI (Coq_xO (Coq_xO
    (Coq_xI (Coq_xO (Coq_xI (Coq_xO (Coq_xO (Coq_xO (Coq_xO (Coq_xO (Coq_xO
    (Coq_xO (Coq_xO (Coq_xO (Coq_xO (Coq_xO (Coq_xO (Coq_xI (Coq_xO (Coq_xO
    (Coq_xI (Coq_xO (Coq_xO (Coq_xO (Coq_xO (Coq_xO (Coq_xI (Coq_xO (Coq_xO
    (Coq_xI (Coq_xO (Coq_xO (Coq_xI (Coq_xI (Coq_xO (Coq_xO (Coq_xI (Coq_xO
    (Coq_xO (Coq_xO (Coq_xO (Coq_xO (Coq_xO
    Coq_xH)))))))))))))))))))))))))))))))))))))))))))))))))))))))))))) :: ((Npos
    (Coq_xO (Coq_xO (Coq_xO (Coq_xO (Coq_xO (Coq_xO (Coq_xO (Coq_xI (Coq_xO
    (Coq_xO (Coq_xO (Coq_xO (Coq_xO (Coq_xO (Coq_xO (Coq_xO (Coq_xO (Coq_xO
    (Coq_xO (Coq_xO (Coq_xO (Coq_xO (Coq_xO (Coq_xI (Coq_xI (Coq_xO (Coq_xO
    (Coq_xO (Coq_xO (Coq_xO (Coq_xO (Coq_xO (Coq_xO (Coq_xO (Coq_xO (Coq_xO
    (Coq_xO (Coq_xO (Coq_xI (Coq_xO (Coq_xO (Coq_xO (Coq_xO (Coq_xO (Coq_xO
    (Coq_xI (Coq_xI (Coq_xO (Coq_xI (Coq_xO (Coq_xO (Coq_xO (Coq_xI (Coq_xO
    (Coq_xO (Coq_xI (Coq_xO (Coq_xO
    Coq_xH))))))))))))))))))))))))))))))))))))))))))))))))))))))))))) :: ((Npos
    (Coq_xI (Coq_xO (Coq_xO (Coq_xO (Coq_xO (Coq_xO (Coq_xO (Coq_xO (Coq_xO
    (Coq_xO (Coq_xO (Coq_xO (Coq_xO (Coq_xI (Coq_xO (Coq_xO (Coq_xO (Coq_xO
    (Coq_xO (Coq_xO (Coq_xO (Coq_xO (Coq_xI (Coq_xO (Coq_xO (Coq_xO (Coq_xO
    (Coq_xO (Coq_xO (Coq_xO (Coq_xO (Coq_xO (Coq_xO (Coq_xO (Coq_xO (Coq_xO
    (Coq_xI (Coq_xO (Coq_xO (Coq_xO (Coq_xO (Coq_xO (Coq_xO (Coq_xO (Coq_xO
    (Coq_xO (Coq_xI (Coq_xO (Coq_xO (Coq_xO (Coq_xO (Coq_xO (Coq_xO (Coq_xO
    (Coq_xO (Coq_xO
    Coq_xH))))))))))))))))))))))))))))))))))))))))))))))))))))))))) :: ((Npos
    (Coq_xO (Coq_xO (Coq_xO (Coq_xO (Coq_xO (Coq_xO (Coq_xI (Coq_xO (Coq_xO
    (Coq_xO (Coq_xO (Coq_xO (Coq_xI (Coq_xO (Coq_xO (Coq_xO (Coq_xO (Coq_xO
    (Coq_xO (Coq_xO (Coq_xO (Coq_xO (Coq_xO (Coq_xO (Coq_xI (Coq_xO (Coq_xO
    (Coq_xO (Coq_xO (Coq_xI (Coq_xO (Coq_xO (Coq_xO (Coq_xO (Coq_xO (Coq_xO
    (Coq_xO (Coq_xO (Coq_xO (Coq_xO (Coq_xI (Coq_xO (Coq_xO (Coq_xO (Coq_xO
    (Coq_xO (Coq_xO (Coq_xO (Coq_xO (Coq_xO (Coq_xO (Coq_xO (Coq_xO (Coq_xI
    (Coq_xO (Coq_xO (Coq_xO (Coq_xO (Coq_xO (Coq_xI (Coq_xO (Coq_xO
    Coq_xH))))))))))))))))))))))))))))))))))))))))))))))))))))))))))))))) :: ((Npos
    (Coq_xO (Coq_xI (Coq_xO (Coq_xO (Coq_xI (Coq_xO (Coq_xO (Coq_xO (Coq_xO
    (Coq_xO (Coq_xO (Coq_xI (Coq_xO (Coq_xO (Coq_xO (Coq_xO (Coq_xO (Coq_xO
    (Coq_xO (Coq_xO (Coq_xO (Coq_xO (Coq_xO (Coq_xO (Coq_xO (Coq_xI (Coq_xO
    (Coq_xO (Coq_xO (Coq_xO (Coq_xO (Coq_xO (Coq_xO (Coq_xI (Coq_xO (Coq_xO
    (Coq_xO (Coq_xI (Coq_xO (Coq_xO (Coq_xO (Coq_xO (Coq_xO (Coq_xO (Coq_xO
    (Coq_xO (Coq_xI (Coq_xO (Coq_xO (Coq_xO (Coq_xO (Coq_xO (Coq_xO (Coq_xO
    (Coq_xO (Coq_xO (Coq_xO (Coq_xO
    Coq_xH))))))))))))))))))))))))))))))))))))))))))))))))))))))))))) :: ((Npos
    (Coq_xO (Coq_xI (Coq_xO (Coq_xO (Coq_xO (Coq_xO (Coq_xO (Coq_xO (Coq_xO
    (Coq_xO (Coq_xO (Coq_xI (Coq_xO (Coq_xO (Coq_xO (Coq_xO (Coq_xO (Coq_xO
    (Coq_xO (Coq_xO (Coq_xO (Coq_xO (Coq_xO (Coq_xO (Coq_xI (Coq_xO (Coq_xI
    (Coq_xO (Coq_xO (Coq_xO (Coq_xO (Coq_xO (Coq_xO (Coq_xO (Coq_xO (Coq_xO
    (Coq_xI (Coq_xO (Coq_xO (Coq_xI (Coq_xO (Coq_xO (Coq_xO (Coq_xO (Coq_xO
    (Coq_xO (Coq_xO (Coq_xO (Coq_xI (Coq_xO (Coq_xO (Coq_xI (Coq_xO (Coq_xO
    (Coq_xO (Coq_xO (Coq_xO
    Coq_xH)))))))))))))))))))))))))))))))))))))))))))))))))))))))))) :: ((Npos
    (Coq_xO (Coq_xO (Coq_xO (Coq_xO (Coq_xO (Coq_xO (Coq_xO (Coq_xO (Coq_xO
    (Coq_xO (Coq_xI (Coq_xO (Coq_xO (Coq_xO (Coq_xO (Coq_xO (Coq_xO (Coq_xO
    (Coq_xO (Coq_xO (Coq_xO (Coq_xO (Coq_xO (Coq_xI (Coq_xI (Coq_xO (Coq_xO
    (Coq_xO (Coq_xO (Coq_xO (Coq_xO (Coq_xO (Coq_xO (Coq_xI (Coq_xI (Coq_xO
    (Coq_xO (Coq_xO (Coq_xO (Coq_xO (Coq_xO (Coq_xO (Coq_xO (Coq_xO (Coq_xO
    (Coq_xO (Coq_xO (Coq_xI (Coq_xO (Coq_xO (Coq_xO (Coq_xO (Coq_xI (Coq_xO
    (Coq_xO (Coq_xO (Coq_xO (Coq_xO (Coq_xO
    Coq_xH)))))))))))))))))))))))))))))))))))))))))))))))))))))))))))) :: ((Npos
    (Coq_xO (Coq_xO (Coq_xO (Coq_xO (Coq_xI (Coq_xO (Coq_xI (Coq_xO (Coq_xI
    (Coq_xO (Coq_xO (Coq_xO (Coq_xO (Coq_xO (Coq_xO (Coq_xO (Coq_xO (Coq_xO
    (Coq_xO (Coq_xO (Coq_xO (Coq_xO (Coq_xO (Coq_xO (Coq_xO (Coq_xO (Coq_xI
    (Coq_xO (Coq_xI (Coq_xO (Coq_xO (Coq_xO (Coq_xO (Coq_xI (Coq_xO (Coq_xO
    (Coq_xI (Coq_xI (Coq_xO (Coq_xO (Coq_xO (Coq_xO (Coq_xO (Coq_xI (Coq_xO
    (Coq_xO (Coq_xO (Coq_xO (Coq_xI (Coq_xO (Coq_xO (Coq_xO (Coq_xO (Coq_xO
    (Coq_xO (Coq_xO (Coq_xI (Coq_xI (Coq_xO (Coq_xO (Coq_xO (Coq_xO
    Coq_xH))))))))))))))))))))))))))))))))))))))))))))))))))))))))))))))) :: ((Npos
    (Coq_xI (Coq_xO (Coq_xO (Coq_xO (Coq_xO (Coq_xO (Coq_xO (Coq_xO (Coq_xO
    (Coq_xO (Coq_xI (Coq_xO (Coq_xI (Coq_xO (Coq_xO (Coq_xO (Coq_xO (Coq_xO
    (Coq_xO (Coq_xO (Coq_xO (Coq_xO (Coq_xO (Coq_xO (Coq_xO (Coq_xI (Coq_xI
    (Coq_xI (Coq_xO (Coq_xO (Coq_xO (Coq_xI (Coq_xI (Coq_xO (Coq_xI (Coq_xO
    (Coq_xO (Coq_xO (Coq_xI (Coq_xO (Coq_xO (Coq_xI (Coq_xI (Coq_xO (Coq_xO
    (Coq_xI (Coq_xO (Coq_xO (Coq_xO (Coq_xO (Coq_xO (Coq_xO (Coq_xO (Coq_xO
    (Coq_xI (Coq_xO (Coq_xO (Coq_xO (Coq_xO (Coq_xO (Coq_xO
    Coq_xH)))))))))))))))))))))))))))))))))))))))))))))))))))))))))))))) :: ((Npos
    (Coq_xO (Coq_xO (Coq_xO (Coq_xO (Coq_xO (Coq_xO (Coq_xO (Coq_xO (Coq_xO
    (Coq_xO (Coq_xO (Coq_xO (Coq_xO (Coq_xO (Coq_xO (Coq_xI (Coq_xO (Coq_xO
    (Coq_xO (Coq_xO (Coq_xO (Coq_xO (Coq_xO (Coq_xI (Coq_xO (Coq_xO (Coq_xO
    (Coq_xO (Coq_xO (Coq_xO (Coq_xO (Coq_xO (Coq_xO (Coq_xO (Coq_xO (Coq_xO
    (Coq_xO (Coq_xO (Coq_xI (Coq_xO (Coq_xO (Coq_xO (Coq_xO (Coq_xO (Coq_xO
    (Coq_xI (Coq_xO (Coq_xO (Coq_xO (Coq_xO (Coq_xO (Coq_xO (Coq_xO (Coq_xO
    Coq_xH))))))))))))))))))))))))))))))))))))))))))))))))))))))) :: ((Npos
    (Coq_xO (Coq_xO (Coq_xO (Coq_xO (Coq_xO (Coq_xI (Coq_xO (Coq_xO (Coq_xO
    (Coq_xO (Coq_xO (Coq_xO (Coq_xO (Coq_xO (Coq_xO (Coq_xO (Coq_xI (Coq_xO
    (Coq_xO (Coq_xO (Coq_xO (Coq_xO (Coq_xO (Coq_xO (Coq_xO (Coq_xO (Coq_xO
    (Coq_xO (Coq_xO (Coq_xO (Coq_xI (Coq_xO (Coq_xO (Coq_xO (Coq_xO (Coq_xO
    (Coq_xO (Coq_xO (Coq_xO (Coq_xI (Coq_xO (Coq_xO (Coq_xO (Coq_xO (Coq_xO
    (Coq_xO (Coq_xO (Coq_xO (Coq_xI (Coq_xO (Coq_xO (Coq_xO (Coq_xO (Coq_xO
    (Coq_xO (Coq_xO (Coq_xO (Coq_xO (Coq_xO (Coq_xO (Coq_xO (Coq_xO (Coq_xO
    Coq_xH)))))))))))))))))))))))))))))))))))))))))))))))))))))))))))))))) :: ((Npos
    (Coq_xO (Coq_xO (Coq_xO (Coq_xO (Coq_xI (Coq_xO (Coq_xO (Coq_xO (Coq_xO
    (Coq_xO (Coq_xO (Coq_xO (Coq_xO (Coq_xO (Coq_xO (Coq_xO (Coq_xO (Coq_xI
    (Coq_xO (Coq_xO (Coq_xO (Coq_xO (Coq_xI (Coq_xO (Coq_xO (Coq_xO (Coq_xO
    (Coq_xO (Coq_xO (Coq_xI (Coq_xO (Coq_xO (Coq_xO (Coq_xO (Coq_xO (Coq_xI
    (Coq_xO (Coq_xO (Coq_xO (Coq_xO (Coq_xO (Coq_xI (Coq_xO (Coq_xO (Coq_xO
    (Coq_xO (Coq_xO (Coq_xI (Coq_xO (Coq_xO (Coq_xO (Coq_xO (Coq_xI (Coq_xO
    (Coq_xO (Coq_xO (Coq_xO (Coq_xO (Coq_xI (Coq_xO (Coq_xO (Coq_xO (Coq_xO
    Coq_xH)))))))))))))))))))))))))))))))))))))))))))))))))))))))))))))))) :: ((Npos
    (Coq_xO (Coq_xO (Coq_xO (Coq_xO (Coq_xO (Coq_xI (Coq_xO (Coq_xO (Coq_xO
    (Coq_xO (Coq_xO (Coq_xO (Coq_xO (Coq_xO (Coq_xO (Coq_xO (Coq_xI (Coq_xO
    (Coq_xO (Coq_xI (Coq_xO (Coq_xO (Coq_xO (Coq_xO (Coq_xO (Coq_xO (Coq_xO
    (Coq_xO (Coq_xO (Coq_xO (Coq_xO (Coq_xO (Coq_xO (Coq_xO (Coq_xO (Coq_xO
    (Coq_xI (Coq_xO (Coq_xO (Coq_xO (Coq_xO (Coq_xO (Coq_xO (Coq_xO (Coq_xO
    (Coq_xO (Coq_xO (Coq_xO (Coq_xI (Coq_xI (Coq_xO (Coq_xO (Coq_xO (Coq_xO
    (Coq_xO (Coq_xO (Coq_xO (Coq_xO (Coq_xO (Coq_xO
    Coq_xH))))))))))))))))))))))))))))))))))))))))))))))))))))))))))))) :: ((Npos
    (Coq_xO (Coq_xO (Coq_xO (Coq_xO (Coq_xO (Coq_xO (Coq_xO (Coq_xI (Coq_xO
    (Coq_xO (Coq_xO (Coq_xO (Coq_xO (Coq_xO (Coq_xO (Coq_xI (Coq_xO (Coq_xO
    (Coq_xO (Coq_xO (Coq_xO (Coq_xO (Coq_xO (Coq_xO (Coq_xO (Coq_xO (Coq_xO
    (Coq_xI (Coq_xO (Coq_xO (Coq_xO (Coq_xO (Coq_xO (Coq_xO (Coq_xO (Coq_xO
    (Coq_xO (Coq_xO (Coq_xO (Coq_xO (Coq_xO (Coq_xO (Coq_xI (Coq_xO (Coq_xO
    (Coq_xO (Coq_xO (Coq_xO (Coq_xO (Coq_xO (Coq_xI (Coq_xO (Coq_xO (Coq_xO
    (Coq_xO (Coq_xO (Coq_xO (Coq_xO (Coq_xO
    Coq_xH)))))))))))))))))))))))))))))))))))))))))))))))))))))))))))) :: ((Npos
    (Coq_xO (Coq_xO (Coq_xI (Coq_xO (Coq_xO (Coq_xO (Coq_xO (Coq_xO (Coq_xO
    (Coq_xO (Coq_xO (Coq_xO (Coq_xO (Coq_xO (Coq_xO (Coq_xO (Coq_xO (Coq_xI
    (Coq_xO (Coq_xO (Coq_xO (Coq_xO (Coq_xO (Coq_xO (Coq_xO (Coq_xO (Coq_xO
    (Coq_xO (Coq_xI (Coq_xO (Coq_xO (Coq_xO (Coq_xO (Coq_xO (Coq_xO (Coq_xI
    (Coq_xO (Coq_xO (Coq_xO (Coq_xO (Coq_xO (Coq_xO (Coq_xO (Coq_xO (Coq_xO
    (Coq_xO (Coq_xO (Coq_xO (Coq_xO (Coq_xI (Coq_xO (Coq_xO
    Coq_xH))))))))))))))))))))))))))))))))))))))))))))))))))))) :: ((Npos
    (Coq_xO (Coq_xO (Coq_xO (Coq_xI (Coq_xO (Coq_xO (Coq_xO (Coq_xO (Coq_xO
    (Coq_xI (Coq_xO (Coq_xO (Coq_xO (Coq_xO (Coq_xO (Coq_xO (Coq_xO (Coq_xO
    (Coq_xI (Coq_xO (Coq_xO (Coq_xO (Coq_xO (Coq_xO (Coq_xO (Coq_xO (Coq_xO
    (Coq_xO (Coq_xO (Coq_xO (Coq_xO (Coq_xO (Coq_xO (Coq_xI (Coq_xO (Coq_xO
    (Coq_xO (Coq_xO (Coq_xO (Coq_xO (Coq_xO (Coq_xO (Coq_xO (Coq_xO (Coq_xI
    (Coq_xO (Coq_xO (Coq_xO (Coq_xO (Coq_xO (Coq_xO (Coq_xO (Coq_xO (Coq_xO
    (Coq_xO (Coq_xO (Coq_xO (Coq_xO (Coq_xO (Coq_xO
    Coq_xH))))))))))))))))))))))))))))))))))))))))))))))))))))))))))))) :: ((Npos
    (Coq_xI (Coq_xO (Coq_xO (Coq_xO (Coq_xO (Coq_xO (Coq_xO (Coq_xO (Coq_xO
    (Coq_xO (Coq_xO (Coq_xO (Coq_xO (Coq_xO (Coq_xO (Coq_xO (Coq_xO (Coq_xI
    (Coq_xO (Coq_xO (Coq_xO (Coq_xO (Coq_xO (Coq_xO (Coq_xO (Coq_xO (Coq_xI
    (Coq_xO (Coq_xO (Coq_xO (Coq_xI (Coq_xO (Coq_xO (Coq_xO (Coq_xO (Coq_xO
    (Coq_xO (Coq_xI (Coq_xO (Coq_xI (Coq_xO (Coq_xO (Coq_xO (Coq_xO (Coq_xO
    (Coq_xO (Coq_xO (Coq_xO (Coq_xO (Coq_xO (Coq_xO (Coq_xO (Coq_xO (Coq_xO
    (Coq_xO (Coq_xO (Coq_xI (Coq_xI (Coq_xO (Coq_xO (Coq_xO (Coq_xO
    Coq_xH))))))))))))))))))))))))))))))))))))))))))))))))))))))))))))))) :: ((Npos
    (Coq_xO (Coq_xO (Coq_xO (Coq_xO (Coq_xO (Coq_xO (Coq_xO (Coq_xO (Coq_xI
    (Coq_xI (Coq_xO (Coq_xO (Coq_xO (Coq_xO (Coq_xO (Coq_xO (Coq_xI (Coq_xO
    (Coq_xO (Coq_xO (Coq_xO (Coq_xO (Coq_xI (Coq_xO (Coq_xI (Coq_xI (Coq_xO
    (Coq_xO (Coq_xO (Coq_xI (Coq_xO (Coq_xO (Coq_xO (Coq_xO (Coq_xO (Coq_xO
    (Coq_xI (Coq_xO (Coq_xO (Coq_xI (Coq_xO (Coq_xO (Coq_xO (Coq_xO (Coq_xO
    (Coq_xO (Coq_xO (Coq_xO (Coq_xO (Coq_xO (Coq_xO (Coq_xO (Coq_xO (Coq_xO
    (Coq_xO (Coq_xI (Coq_xO
    Coq_xH)))))))))))))))))))))))))))))))))))))))))))))))))))))))))) :: ((Npos
    (Coq_xO (Coq_xO (Coq_xO (Coq_xO (Coq_xO (Coq_xO (Coq_xI (Coq_xO (Coq_xO
    (Coq_xI (Coq_xO (Coq_xO (Coq_xO (Coq_xI (Coq_xO (Coq_xO (Coq_xO (Coq_xO
    (Coq_xO (Coq_xO (Coq_xO (Coq_xO (Coq_xO (Coq_xO (Coq_xO (Coq_xO (Coq_xO
    (Coq_xO (Coq_xO (Coq_xO (Coq_xI (Coq_xO (Coq_xO (Coq_xO (Coq_xO (Coq_xO
    (Coq_xO (Coq_xO (Coq_xO (Coq_xO (Coq_xO (Coq_xO (Coq_xO (Coq_xO (Coq_xI
    (Coq_xO (Coq_xO (Coq_xO (Coq_xO (Coq_xO (Coq_xO (Coq_xO (Coq_xO (Coq_xI
    (Coq_xI
    Coq_xH)))))))))))))))))))))))))))))))))))))))))))))))))))))))) :: ((Npos
    (Coq_xO (Coq_xO (Coq_xO (Coq_xO (Coq_xO (Coq_xO (Coq_xO (Coq_xO (Coq_xI
    (Coq_xI (Coq_xI (Coq_xO (Coq_xI (Coq_xO (Coq_xO (Coq_xO (Coq_xO (Coq_xO
    (Coq_xO (Coq_xO (Coq_xO (Coq_xO (Coq_xI (Coq_xO (Coq_xO (Coq_xO (Coq_xO
    (Coq_xO (Coq_xO (Coq_xO (Coq_xO (Coq_xO (Coq_xI (Coq_xO (Coq_xO (Coq_xO
    (Coq_xO (Coq_xO (Coq_xO (Coq_xO (Coq_xO (Coq_xO (Coq_xO (Coq_xO (Coq_xO
    Coq_xH)))))))))))))))))))))))))))))))))))))))))))))) :: ((Npos (Coq_xO
    (Coq_xO (Coq_xO (Coq_xO (Coq_xO (Coq_xO (Coq_xO (Coq_xI (Coq_xO (Coq_xO
    (Coq_xO (Coq_xO (Coq_xO (Coq_xO (Coq_xO (Coq_xI (Coq_xO (Coq_xO (Coq_xO
    (Coq_xO (Coq_xO (Coq_xO (Coq_xO (Coq_xO (Coq_xO (Coq_xO (Coq_xO (Coq_xI
    (Coq_xO (Coq_xO (Coq_xO (Coq_xO (Coq_xO (Coq_xO (Coq_xI (Coq_xO (Coq_xO
    (Coq_xO (Coq_xO (Coq_xO (Coq_xO (Coq_xO (Coq_xO (Coq_xO (Coq_xI (Coq_xO
    (Coq_xO (Coq_xO (Coq_xO (Coq_xO (Coq_xI (Coq_xO (Coq_xO (Coq_xO (Coq_xI
    (Coq_xO (Coq_xO (Coq_xI (Coq_xO (Coq_xO (Coq_xO
    Coq_xH)))))))))))))))))))))))))))))))))))))))))))))))))))))))))))))) :: ((Npos
    (Coq_xO (Coq_xO (Coq_xO (Coq_xO (Coq_xO (Coq_xO (Coq_xO (Coq_xI (Coq_xI
    (Coq_xO (Coq_xO (Coq_xI (Coq_xI (Coq_xO (Coq_xO (Coq_xO (Coq_xO (Coq_xO
    (Coq_xO (Coq_xO (Coq_xO (Coq_xO (Coq_xO (Coq_xI (Coq_xO (Coq_xO (Coq_xO
    (Coq_xO (Coq_xO (Coq_xO (Coq_xO (Coq_xO (Coq_xO (Coq_xO (Coq_xI (Coq_xO
    (Coq_xO (Coq_xO (Coq_xO (Coq_xO (Coq_xO (Coq_xO (Coq_xO (Coq_xO (Coq_xO
    (Coq_xO (Coq_xO (Coq_xO (Coq_xO (Coq_xO (Coq_xO
    Coq_xH)))))))))))))))))))))))))))))))))))))))))))))))))))) :: ((Npos
    (Coq_xO (Coq_xO (Coq_xO (Coq_xO (Coq_xO (Coq_xO (Coq_xO (Coq_xO (Coq_xO
    (Coq_xI (Coq_xO (Coq_xO (Coq_xO (Coq_xO (Coq_xO (Coq_xO (Coq_xO (Coq_xO
    (Coq_xI (Coq_xO (Coq_xO (Coq_xO (Coq_xO (Coq_xO (Coq_xO (Coq_xO (Coq_xO
    (Coq_xO (Coq_xI (Coq_xO (Coq_xO (Coq_xO (Coq_xO (Coq_xO (Coq_xO (Coq_xI
    (Coq_xO (Coq_xO (Coq_xO (Coq_xO (Coq_xO (Coq_xO (Coq_xO (Coq_xO (Coq_xO
    (Coq_xO (Coq_xO (Coq_xO (Coq_xO
    Coq_xH)))))))))))))))))))))))))))))))))))))))))))))))))) :: ((Npos
    (Coq_xO (Coq_xO (Coq_xO (Coq_xO (Coq_xO (Coq_xO (Coq_xO (Coq_xO (Coq_xO
    (Coq_xO (Coq_xI (Coq_xO (Coq_xO (Coq_xO (Coq_xO (Coq_xO (Coq_xI (Coq_xO
    (Coq_xO (Coq_xO (Coq_xO (Coq_xO (Coq_xO (Coq_xI (Coq_xO (Coq_xO (Coq_xO
    (Coq_xI (Coq_xO (Coq_xI (Coq_xO (Coq_xO (Coq_xO (Coq_xI (Coq_xO (Coq_xO
    (Coq_xO (Coq_xO (Coq_xO (Coq_xO (Coq_xO (Coq_xO (Coq_xO (Coq_xO (Coq_xI
    (Coq_xO (Coq_xO (Coq_xO (Coq_xO (Coq_xO (Coq_xO (Coq_xO (Coq_xI (Coq_xO
    (Coq_xO (Coq_xO (Coq_xO (Coq_xO (Coq_xO (Coq_xO (Coq_xO (Coq_xO (Coq_xO
    Coq_xH)))))))))))))))))))))))))))))))))))))))))))))))))))))))))))))))) :: ((Npos
    (Coq_xO (Coq_xO (Coq_xO (Coq_xO (Coq_xO (Coq_xO (Coq_xO (Coq_xO (Coq_xO
    (Coq_xI (Coq_xO (Coq_xO (Coq_xO (Coq_xO (Coq_xO (Coq_xO (Coq_xI (Coq_xO
    (Coq_xO (Coq_xO (Coq_xO (Coq_xI (Coq_xO (Coq_xO (Coq_xO (Coq_xO (Coq_xI
    (Coq_xO (Coq_xO (Coq_xO (Coq_xI (Coq_xO (Coq_xO (Coq_xO (Coq_xO (Coq_xO
    (Coq_xI (Coq_xO (Coq_xO (Coq_xI (Coq_xO (Coq_xO (Coq_xO (Coq_xO (Coq_xO
    (Coq_xO (Coq_xO (Coq_xO (Coq_xO (Coq_xO (Coq_xO (Coq_xO (Coq_xO (Coq_xO
    (Coq_xO (Coq_xO (Coq_xO (Coq_xO (Coq_xO (Coq_xO (Coq_xO
    Coq_xH)))))))))))))))))))))))))))))))))))))))))))))))))))))))))))))) :: ((Npos
    (Coq_xI (Coq_xO (Coq_xO (Coq_xO (Coq_xO (Coq_xO (Coq_xO (Coq_xO (Coq_xI
    (Coq_xO (Coq_xO (Coq_xO (Coq_xO (Coq_xI (Coq_xO (Coq_xO (Coq_xO (Coq_xO
    (Coq_xO (Coq_xO (Coq_xI (Coq_xO (Coq_xO (Coq_xO (Coq_xO (Coq_xO (Coq_xO
    (Coq_xO (Coq_xO (Coq_xO (Coq_xI (Coq_xO (Coq_xO (Coq_xO (Coq_xO (Coq_xO
    (Coq_xO (Coq_xO (Coq_xO (Coq_xI (Coq_xO (Coq_xO (Coq_xO (Coq_xO (Coq_xO
    (Coq_xO (Coq_xO (Coq_xO (Coq_xO (Coq_xO (Coq_xO (Coq_xO (Coq_xO (Coq_xO
    (Coq_xO (Coq_xI (Coq_xO (Coq_xO (Coq_xO (Coq_xO (Coq_xO (Coq_xO
    Coq_xH))))))))))))))))))))))))))))))))))))))))))))))))))))))))))))))) :: ((Npos
    (Coq_xI (Coq_xO (Coq_xO (Coq_xO (Coq_xO (Coq_xO (Coq_xO (Coq_xO (Coq_xI
    (Coq_xO (Coq_xI (Coq_xI (Coq_xI (Coq_xO (Coq_xO (Coq_xO (Coq_xI (Coq_xO
    (Coq_xO (Coq_xO (Coq_xO (Coq_xO (Coq_xI (Coq_xO (Coq_xO (Coq_xO (Coq_xO
    (Coq_xO (Coq_xO (Coq_xO (Coq_xO (Coq_xI (Coq_xO (Coq_xO (Coq_xO (Coq_xO
    (Coq_xO (Coq_xI (Coq_xO (Coq_xO (Coq_xO (Coq_xO (Coq_xO (Coq_xO (Coq_xO
    (Coq_xO (Coq_xO (Coq_xO (Coq_xO (Coq_xO (Coq_xO (Coq_xO (Coq_xO (Coq_xO
    Coq_xH))))))))))))))))))))))))))))))))))))))))))))))))))))))) :: ((Npos
    (Coq_xI (Coq_xO (Coq_xO (Coq_xO (Coq_xO (Coq_xO (Coq_xO (Coq_xO (Coq_xI
    (Coq_xO (Coq_xO (Coq_xI (Coq_xO (Coq_xO (Coq_xO (Coq_xO (Coq_xO (Coq_xO
    (Coq_xO (Coq_xO (Coq_xO (Coq_xO (Coq_xO (Coq_xO (Coq_xO (Coq_xO (Coq_xO
    (Coq_xO (Coq_xO (Coq_xI (Coq_xI (Coq_xO (Coq_xO (Coq_xO (Coq_xO (Coq_xO
    (Coq_xO (Coq_xO (Coq_xI (Coq_xO (Coq_xO (Coq_xI (Coq_xO (Coq_xO (Coq_xI
    (Coq_xO (Coq_xI (Coq_xO (Coq_xI (Coq_xO (Coq_xI (Coq_xO (Coq_xO (Coq_xO
    (Coq_xO (Coq_xO (Coq_xO (Coq_xO (Coq_xO (Coq_xO (Coq_xO
    Coq_xH)))))))))))))))))))))))))))))))))))))))))))))))))))))))))))))) :: ((Npos
    (Coq_xO (Coq_xI (Coq_xO (Coq_xO (Coq_xO (Coq_xI (Coq_xO (Coq_xO (Coq_xO
    (Coq_xO (Coq_xI (Coq_xO (Coq_xO (Coq_xO (Coq_xO (Coq_xO (Coq_xO (Coq_xO
    (Coq_xO (Coq_xO (Coq_xO (Coq_xO (Coq_xI (Coq_xO (Coq_xO (Coq_xO (Coq_xO
    (Coq_xI (Coq_xO (Coq_xO (Coq_xO (Coq_xO (Coq_xO (Coq_xO (Coq_xO (Coq_xO
    (Coq_xI (Coq_xO (Coq_xO (Coq_xO (Coq_xO (Coq_xO (Coq_xO (Coq_xO (Coq_xO
    (Coq_xO (Coq_xO (Coq_xO (Coq_xO (Coq_xI (Coq_xO (Coq_xO (Coq_xO (Coq_xO
    (Coq_xO (Coq_xO (Coq_xI (Coq_xO
    Coq_xH))))))))))))))))))))))))))))))))))))))))))))))))))))))))))) :: ((Npos
    (Coq_xO (Coq_xI (Coq_xO (Coq_xO (Coq_xO (Coq_xO (Coq_xO (Coq_xO (Coq_xO
    (Coq_xO (Coq_xI (Coq_xO (Coq_xO (Coq_xO (Coq_xO (Coq_xO (Coq_xO (Coq_xO
    (Coq_xO (Coq_xO (Coq_xO (Coq_xI (Coq_xO (Coq_xO (Coq_xO (Coq_xO (Coq_xO
    (Coq_xO (Coq_xI (Coq_xO (Coq_xO (Coq_xO (Coq_xO (Coq_xO (Coq_xO (Coq_xI
    (Coq_xO (Coq_xO (Coq_xO (Coq_xO (Coq_xO (Coq_xO (Coq_xO (Coq_xO (Coq_xO
    (Coq_xO (Coq_xO (Coq_xO (Coq_xO (Coq_xI (Coq_xO (Coq_xI (Coq_xI (Coq_xO
    (Coq_xO (Coq_xI (Coq_xO (Coq_xO (Coq_xO (Coq_xI (Coq_xO (Coq_xO
    Coq_xH))))))))))))))))))))))))))))))))))))))))))))))))))))))))))))))) :: ((Npos
    (Coq_xI (Coq_xI (Coq_xO (Coq_xO (Coq_xI (Coq_xO (Coq_xO (Coq_xO (Coq_xO
    (Coq_xI (Coq_xO (Coq_xI (Coq_xO (Coq_xO (Coq_xO (Coq_xO (Coq_xO (Coq_xO
    (Coq_xO (Coq_xI (Coq_xO (Coq_xO (Coq_xO (Coq_xO (Coq_xO (Coq_xO (Coq_xO
    (Coq_xO (Coq_xO (Coq_xO (Coq_xO (Coq_xO (Coq_xO (Coq_xO (Coq_xI (Coq_xO
    (Coq_xO (Coq_xO (Coq_xI (Coq_xO (Coq_xO (Coq_xO (Coq_xO (Coq_xO (Coq_xO
    (Coq_xO (Coq_xO (Coq_xO
    Coq_xH))))))))))))))))))))))))))))))))))))))))))))))))) :: ((Npos (Coq_xO
    (Coq_xO (Coq_xI (Coq_xO (Coq_xO (Coq_xO (Coq_xO (Coq_xI (Coq_xO (Coq_xO
    (Coq_xO (Coq_xO (Coq_xO (Coq_xO (Coq_xO (Coq_xO (Coq_xO (Coq_xI (Coq_xO
    (Coq_xO (Coq_xO (Coq_xO (Coq_xO (Coq_xO (Coq_xO (Coq_xO (Coq_xO (Coq_xI
    (Coq_xO (Coq_xO (Coq_xO (Coq_xO (Coq_xO (Coq_xO (Coq_xO (Coq_xO (Coq_xI
    (Coq_xO (Coq_xO (Coq_xO (Coq_xI (Coq_xO (Coq_xO (Coq_xO (Coq_xO (Coq_xO
    (Coq_xO (Coq_xO (Coq_xO (Coq_xO (Coq_xO (Coq_xO (Coq_xO (Coq_xO (Coq_xO
    (Coq_xO (Coq_xO (Coq_xO (Coq_xO (Coq_xO (Coq_xO (Coq_xO
    Coq_xH))))))))))))))))))))))))))))))))))))))))))))))))))))))))))))))) :: ((Npos
    (Coq_xO (Coq_xI (Coq_xO (Coq_xO (Coq_xO (Coq_xO (Coq_xI (Coq_xO (Coq_xO
    (Coq_xO (Coq_xO (Coq_xO (Coq_xO (Coq_xO (Coq_xO (Coq_xI (Coq_xI (Coq_xO
    (Coq_xI (Coq_xO (Coq_xO (Coq_xO (Coq_xO (Coq_xO (Coq_xO (Coq_xO (Coq_xI
    (Coq_xO (Coq_xI (Coq_xO (Coq_xO (Coq_xO (Coq_xI (Coq_xO (Coq_xO (Coq_xO
    (Coq_xO (Coq_xI (Coq_xO (Coq_xO (Coq_xO (Coq_xO (Coq_xO (Coq_xO (Coq_xO
    (Coq_xO (Coq_xO (Coq_xO (Coq_xO (Coq_xI (Coq_xI (Coq_xO (Coq_xO
    Coq_xH)))))))))))))))))))))))))))))))))))))))))))))))))))))) :: [])))))))))))))))))))))))))))))))))))))))))))))))))))))))))))))))

(** val bishop_magics : coq_N list **)

let bishop_magics =
  (Npos (Coq_xO (Coq_xO (Coq_xO (Coq_xO (Coq_xO (Coq_xO (Coq_xI (Coq_xO
    (Coq_xO (Coq_xI (Coq_xO (Coq_xO (Coq_xO (Coq_xO (Coq_xO (Coq_xO (Coq_xO
    (Coq_xO (Coq_xI (Coq_xO (Coq_xO (Coq_xO (Coq_xO (Coq_xO (Coq_xO (Coq_xI
    (Coq_xI (Coq_xO (Coq_xI (Coq_xO (Coq_xO (Coq_xI (Coq_xO (Coq_xO (Coq_xO
    (Coq_xI (Coq_xI (Coq_xO (Coq_xO (Coq_xO (Coq_xO (Coq_xI (Coq_xO (Coq_xO
    (Coq_xI (Coq_xO (Coq_xO (Coq_xO (Coq_xI (Coq_xO (Coq_xO (Coq_xO (Coq_xO
    (Coq_xI (Coq_xO (Coq_xI (Coq_xI (Coq_xO (Coq_xO (Coq_xI (Coq_xO (Coq_xO
    (Coq_xO
    Coq_xH)))))))))))))))))))))))))))))))))))))))))))))))))))))))))))))))) :: ((Npos
    (Coq_xO (Coq_xO (Coq_xO (Coq_xO (Coq_xI (Coq_xO (Coq_xO (Coq_xO (Coq_xO
    (Coq_xO (Coq_xO (Coq_xO (Coq_xO (Coq_xI (Coq_xO (Coq_xO (Coq_xO (Coq_xO
    (Coq_xO (Coq_xO (Coq_xO (Coq_xO (Coq_xO (Coq_xO (Coq_xO (Coq_xI (Coq_xO
    (Coq_xO (Coq_xO (Coq_xO (Coq_xO (Coq_xO (Coq_xO (Coq_xO (Coq_xO (Coq_xI
    (Coq_xO (Coq_xO (Coq_xI (Coq_xO (Coq_xO (Coq_xO (Coq_xI (Coq_xO (Coq_xO
    (Coq_xO (Coq_xO (Coq_xI (Coq_xO (Coq_xO (Coq_xI (Coq_xO (Coq_xO (Coq_xO
    (Coq_xO (Coq_xO (Coq_xO (Coq_xO (Coq_xO (Coq_xO (Coq_xO
    Coq_xH)))))))))))))))))))))))))))))))))))))))))))))))))))))))))))))) :: ((Npos
    (Coq_xO (Coq_xO (Coq_xO (Coq_xO (Coq_xO (Coq_xO (Coq_xO (Coq_xO (Coq_xO
    (Coq_xO (Coq_xO (Coq_xO (Coq_xI (Coq_xO (Coq_xO (Coq_xO (Coq_xO (Coq_xI
    (Coq_xO (Coq_xO (Coq_xI (Coq_xO (Coq_xO (Coq_xI (Coq_xI (Coq_xO (Coq_xO
    (Coq_xO (Coq_xI (Coq_xO (Coq_xI (Coq_xO (Coq_xO (Coq_xO (Coq_xO (Coq_xO
    (Coq_xO (Coq_xO (Coq_xO (Coq_xO (Coq_xO (Coq_xO (Coq_xO (Coq_xI (Coq_xO
    (Coq_xO (Coq_xO (Coq_xO (Coq_xO (Coq_xO (Coq_xO (Coq_xI (Coq_xO (Coq_xI
    (Coq_xI (Coq_xO (Coq_xO (Coq_xO (Coq_xO (Coq_xO (Coq_xO
    Coq_xH)))))))))))))))))))))))))))))))))))))))))))))))))))))))))))))) :: ((Npos
    (Coq_xO (Coq_xO (Coq_xO (Coq_xI (Coq_xO (Coq_xO (Coq_xO (Coq_xO (Coq_xO
    (Coq_xO (Coq_xO (Coq_xI (Coq_xO (Coq_xO (Coq_xO (Coq_xO (Coq_xO (Coq_xO
    (Coq_xO (Coq_xO (Coq_xO (Coq_xI (Coq_xO (Coq_xO (Coq_xO (Coq_xO (Coq_xO
    (Coq_xO (Coq_xO (Coq_xI (Coq_xO (Coq_xO (Coq_xO (Coq_xI (Coq_xO (Coq_xO
    (Coq_xO (Coq_xO (Coq_xO (Coq_xO (Coq_xO (Coq_xI (Coq_xO (Coq_xI (Coq_xO
    (Coq_xO (Coq_xO (Coq_xO (Coq_xO (Coq_xO (Coq_xO (Coq_xI (Coq_xO (Coq_xO
    (Coq_xO (Coq_xI (Coq_xO (Coq_xI (Coq_xO (Coq_xO (Coq_xO (Coq_xI
    Coq_xH))))))))))))))))))))))))))))))))))))))))))))))))))))))))))))))) :: ((Npos
    (Coq_xO (Coq_xO (Coq_xO (Coq_xO (Coq_xO (Coq_xO (Coq_xO (Coq_xO (Coq_xO
    (Coq_xO (Coq_xO (Coq_xO (Coq_xO (Coq_xO (Coq_xO (Coq_xO (Coq_xO (Coq_xO
    (Coq_xO (Coq_xO (Coq_xO (Coq_xO (Coq_xO (Coq_xO (Coq_xO (Coq_xO (Coq_xI
    (Coq_xO (Coq_xO (Coq_xO (Coq_xO (Coq_xO (Coq_xO (Coq_xO (Coq_xO (Coq_xO
    (Coq_xO (Coq_xI (Coq_xO (Coq_xO (Coq_xO (Coq_xO (Coq_xI (Coq_xO (Coq_xO
    (Coq_xO (Coq_xO (Coq_xO (Coq_xO (Coq_xO
    Coq_xH))))))))))))))))))))))))))))))))))))))))))))))))))) :: ((Npos
    (Coq_xI (Coq_xO (Coq_xO (Coq_xO (Coq_xI (Coq_xO (Coq_xO (Coq_xO (Coq_xO
    (Coq_xO (Coq_xO (Coq_xO (Coq_xO (Coq_xO (Coq_xO (Coq_xO (Coq_xO (Coq_xO
    (Coq_xO (Coq_xO (Coq_xO (Coq_xI (Coq_xO (Coq_xO (Coq_xO (Coq_xO (Coq_xO
    (Coq_xO (Coq_xO (Coq_xI (Coq_xO (Coq_xO (Coq_xO (Coq_xO (Coq_xO (Coq_xO
    (Coq_xO (Coq_xI (Coq_xO (Coq_xO (Coq_xO (Coq_xI (Coq_xO (Coq_xO (Coq_xO
    (Coq_xO (Coq_xO (Coq_xI (Coq_xO (Coq_xO (Coq_xO (Coq_xO (Coq_xO (Coq_xO
    (Coq_xO (Coq_xO
    Coq_xH))))))))))))))))))))))))))))))))))))))))))))))))))))))))) :: ((Npos
    (Coq_xO (Coq_xI (Coq_xO (Coq_xI (Coq_xO (Coq_xO (Coq_xO (Coq_xO (Coq_xO
    (Coq_xO (Coq_xO (Coq_xO (Coq_xO (Coq_xO (Coq_xO (Coq_xO (Coq_xO (Coq_xI
    (Coq_xO (Coq_xO (Coq_xI (Coq_xO (Coq_xO (Coq_xO (Coq_xO (Coq_xO (Coq_xO
    (Coq_xO (Coq_xO (Coq_xI (Coq_xO (Coq_xO (Coq_xO (Coq_xI (Coq_xO (Coq_xO
    (Coq_xO (Coq_xI (Coq_xO (Coq_xO (Coq_xO (Coq_xO (Coq_xI (Coq_xO (Coq_xO
    (Coq_xO (Coq_xI (Coq_xO (Coq_xO (Coq_xO (Coq_xI (Coq_xO (Coq_xO (Coq_xO
    (Coq_xO (Coq_xO (Coq_xO (Coq_xO (Coq_xO (Coq_xO (Coq_xO (Coq_xO (Coq_xI
    Coq_xH)))))))))))))))))))))))))))))))))))))))))))))))))))))))))))))))) :: ((Npos
    (Coq_xI (Coq_xO (Coq_xO (Coq_xO (Coq_xO (Coq_xO (Coq_xO (Coq_xO (Coq_xO
    (Coq_xO (Coq_xO (Coq_xO (Coq_xO (Coq_xI (Coq_xI (Coq_xO (Coq_xI (Coq_xO
    (Coq_xO (Coq_xO (Coq_xO (Coq_xI (Coq_xO (Coq_xO (Coq_xI (Coq_xO (Coq_xO
    (Coq_xO (Coq_xO (Coq_xO (Coq_xO (Coq_xO (Coq_xO (Coq_xO (Coq_xO (Coq_xI
    (Coq_xO (Coq_xO (Coq_xO (Coq_xI (Coq_xO (Coq_xO (Coq_xO (Coq_xO (Coq_xO
    (Coq_xO (Coq_xO (Coq_xI (Coq_xO (Coq_xO (Coq_xO (Coq_xI (Coq_xO
    Coq_xH)))))))))))))))))))))))))))))))))))))))))))))))))))))) :: ((Npos
    (Coq_xO (Coq_xO (Coq_xO (Coq_xO (Coq_xO (Coq_xO (Coq_xO (Coq_xO (Coq_xI
    (Coq_xO (Coq_xO (Coq_xO (Coq_xO (Coq_xO (Coq_xO (Coq_xI (Coq_xO (Coq_xO
    (Coq_xO (Coq_xO (Coq_xO (Coq_xO (Coq_xI (Coq_xO (Coq_xO (Coq_xO (Coq_xO
    (Coq_xI (Coq_xO (Coq_xO (Coq_xO (Coq_xI (Coq_xO (Coq_xO (Coq_xO (Coq_xO
    (Coq_xO (Coq_xI (Coq_xO (Coq_xO (Coq_xI (Coq_xO (Coq_xO (Coq_xI (Coq_xO
    (Coq_xO (Coq_xI (Coq_xO (Coq_xO (Coq_xO (Coq_xO (Coq_xO (Coq_xO (Coq_xO
    (Coq_xO (Coq_xO (Coq_xO (Coq_xO
    Coq_xH))))))))))))))))))))))))))))))))))))))))))))))))))))))))))) :: ((Npos
    (Coq_xO (Coq_xO (Coq_xI (Coq_xO (Coq_xO (Coq_xO (Coq_xO (Coq_xI (Coq_xO
    (Coq_xO (Coq_xO (Coq_xO (Coq_xO (Coq_xO (Coq_xO (Coq_xO (Coq_xO (Coq_xO
    (Coq_xI (Coq_xI (Coq_xO (Coq_xO (Coq_xO (Coq_xO (Coq_xO (Coq_xO (Coq_xI
    (Coq_xO (Coq_xO (Coq_xO (Coq_xO (Coq_xO (Coq_xI (Coq_xO (Coq_xO (Coq_xO
    (Coq_xO (Coq_xO (Coq_xO (Coq_xO (Coq_xO (Coq_xO (Coq_xI (Coq_xO (Coq_xO
    (Coq_xO (Coq_xI (Coq_xI (Coq_xI (Coq_xO (Coq_xO (Coq_xO (Coq_xO (Coq_xO
    (Coq_xO (Coq_xO (Coq_xO
    Coq_xH)))))))))))))))))))))))))))))))))))))))))))))))))))))))))) :: ((Npos
    (Coq_xO (Coq_xO (Coq_xO (Coq_xO (Coq_xI (Coq_xO (Coq_xO (Coq_xO (Coq_xO
    (Coq_xO (Coq_xO (Coq_xO (Coq_xO (Coq_xO (Coq_xO (Coq_xO (Coq_xO (Coq_xI
    (Coq_xO (Coq_xI (Coq_xO (Coq_xO (Coq_xO (Coq_xO (Coq_xI (Coq_xO (Coq_xO
    (Coq_xO (Coq_xI (Coq_xO (Coq_xO (Coq_xI (Coq_xO (Coq_xO (Coq_xO (Coq_xO
    (Coq_xO (Coq_xO (Coq_xO (Coq_xO (Coq_xO (Coq_xO (Coq_xO (Coq_xI (Coq_xO
    (Coq_xO (Coq_xO (Coq_xO (Coq_xO (Coq_xO (Coq_xI (Coq_xO (Coq_xO (Coq_xO
    (Coq_xO
    Coq_xH)))))))))))))))))))))))))))))))))))))))))))))))))))))))) :: ((Npos
    (Coq_xO (Coq_xO (Coq_xO (Coq_xO (Coq_xO (Coq_xI (Coq_xI (Coq_xO (Coq_xO
    (Coq_xO (Coq_xO (Coq_xO (Coq_xO (Coq_xO (Coq_xO (Coq_xO (Coq_xO (Coq_xO
    (Coq_xI (Coq_xO (Coq_xO (Coq_xI (Coq_xO (Coq_xO (Coq_xO (Coq_xO (Coq_xO
    (Coq_xO (Coq_xO (Coq_xO (Coq_xO (Coq_xI (Coq_xO (Coq_xO (Coq_xO (Coq_xO
    (Coq_xO (Coq_xI (Coq_xO (Coq_xO (Coq_xO (Coq_xO (Coq_xO
    Coq_xH)))))))))))))))))))))))))))))))))))))))))))) :: ((Npos (Coq_xO
    (Coq_xO (Coq_xO (Coq_xO (Coq_xO (Coq_xO (Coq_xO (Coq_xO (Coq_xO (Coq_xO
    (Coq_xO (Coq_xO (Coq_xO (Coq_xI (Coq_xI (Coq_xO (Coq_xO (Coq_xO (Coq_xO
    (Coq_xO (Coq_xO (Coq_xO (Coq_xO (Coq_xO (Coq_xO (Coq_xO (Coq_xI (Coq_xO
    (Coq_xO (Coq_xO (Coq_xO (Coq_xO (Coq_xI (Coq_xO (Coq_xI (Coq_xO (Coq_xO
    (Coq_xO (Coq_xO (Coq_xO (Coq_xO (Coq_xO (Coq_xI (Coq_xO (Coq_xO (Coq_xO
    (Coq_xO (Coq_xI (Coq_xO (Coq_xO (Coq_xO (Coq_xO (Coq_xO (Coq_xO (Coq_xO
    (Coq_xO (Coq_xO (Coq_xO (Coq_xO (Coq_xO (Coq_xO
    Coq_xH)))))))))))))))))))))))))))))))))))))))))))))))))))))))))))))) :: ((Npos
    (Coq_xO (Coq_xO (Coq_xI (Coq_xO (Coq_xO (Coq_xO (Coq_xO (Coq_xO (Coq_xO
    (Coq_xO (Coq_xO (Coq_xO (Coq_xI (Coq_xO (Coq_xI (Coq_xO (Coq_xO (Coq_xO
    (Coq_xO (Coq_xO (Coq_xO (Coq_xO (Coq_xI (Coq_xO (Coq_xO (Coq_xO (Coq_xO
    (Coq_xI (Coq_xO (Coq_xO (Coq_xO (Coq_xO (Coq_xI (Coq_xO (Coq_xO (Coq_xO
    (Coq_xO (Coq_xO (Coq_xI (Coq_xO (Coq_xO (Coq_xO (Coq_xI (Coq_xI (Coq_xO
    (Coq_xO (Coq_xO (Coq_xO (Coq_xI (Coq_xO (Coq_xO (Coq_xO (Coq_xO (Coq_xO
    (Coq_xO (Coq_xO (Coq_xO (Coq_xO (Coq_xO (Coq_xO (Coq_xI
    Coq_xH)))))))))))))))))))))))))))))))))))))))))))))))))))))))))))))) :: ((Npos
    (Coq_xO (Coq_xI (Coq_xO (Coq_xO (Coq_xO (Coq_xO (Coq_xO (Coq_xO (Coq_xO
    (Coq_xO (Coq_xO (Coq_xI (Coq_xO (Coq_xO (Coq_xO (Coq_xO (Coq_xO (Coq_xO
    (Coq_xO (Coq_xI (Coq_xO (Coq_xO (Coq_xO (Coq_xO (Coq_xO (Coq_xO (Coq_xO
    (Coq_xO (Coq_xI (Coq_xO (Coq_xO (Coq_xO (Coq_xO (Coq_xO (Coq_xI (Coq_xO
    (Coq_xI (Coq_xO (Coq_xI (Coq_xO (Coq_xO (Coq_xO (Coq_xO (Coq_xO (Coq_xO
    (Coq_xO (Coq_xO (Coq_xO (Coq_xO (Coq_xO (Coq_xO (Coq_xI (Coq_xO (Coq_xO
    (Coq_xO (Coq_xO (Coq_xO (Coq_xO (Coq_xO (Coq_xO
    Coq_xH))))))))))))))))))))))))))))))))))))))))))))))))))))))))))))) :: ((Npos
    (Coq_xO (Coq_xO (Coq_xO (Coq_xO (Coq_xO (Coq_xO (Coq_xO (Coq_xO (Coq_xI
    (Coq_xO (Coq_xO (Coq_xI (Coq_xO (Coq_xO (Coq_xO (Coq_xO (Coq_xO (Coq_xO
    (Coq_xO (Coq_xO (Coq_xI (Coq_xO (Coq_xO (Coq_xO (Coq_xI (Coq_xO (Coq_xO
    (Coq_xI (Coq_xO (Coq_xO (Coq_xO (Coq_xO (Coq_xO (Coq_xI (Coq_xO (Coq_xO
    (Coq_xO (Coq_xI (Coq_xO (Coq_xO (Coq_xO (Coq_xO (Coq_xI (Coq_xO (Coq_xO
    (Coq_xO (Coq_xO (Coq_xO (Coq_xO (Coq_xO (Coq_xI (Coq_xO (Coq_xO (Coq_xO
    (Coq_xI (Coq_xO (Coq_xI (Coq_xO (Coq_xO (Coq_xO (Coq_xO (Coq_xO (Coq_xO
    Coq_xH)))))))))))))))))))))))))))))))))))))))))))))))))))))))))))))))) :: ((Npos
    (Coq_xO (Coq_xO (Coq_xO (Coq_xO (Coq_xO (Coq_xO (Coq_xO (Coq_xO (Coq_xO
    (Coq_xO (Coq_xI (Coq_xO (Coq_xO (Coq_xO (Coq_xI (Coq_xO (Coq_xI (Coq_xO
    (Coq_xO (Coq_xO (Coq_xO (Coq_xO (Coq_xO (Coq_xO (Coq_xO (Coq_xO (Coq_xO
    (Coq_xO (Coq_xO (Coq_xI (Coq_xO (Coq_xO (Coq_xO (Coq_xO (Coq_xO (Coq_xO
    (Coq_xI (Coq_xO (Coq_xO (Coq_xO (Coq_xO (Coq_xO (Coq_xO (Coq_xI (Coq_xO
    (Coq_xO (Coq_xO (Coq_xO (Coq_xO (Coq_xO (Coq_xO (Coq_xI (Coq_xO (Coq_xO
    (Coq_xO (Coq_xO (Coq_xO
    Coq_xH)))))))))))))))))))))))))))))))))))))))))))))))))))))))))) :: ((Npos
    (Coq_xO (Coq_xO (Coq_xO (Coq_xO (Coq_xO (Coq_xO (Coq_xO (Coq_xO (Coq_xO
    (Coq_xI (Coq_xO (Coq_xI (Coq_xO (Coq_xO (Coq_xI (Coq_xI (Coq_xO (Coq_xO
    (Coq_xO (Coq_xI (Coq_xO (Coq_xO (Coq_xO (Coq_xO (Coq_xO (Coq_xI (Coq_xO
    (Coq_xO (Coq_xI (Coq_xO (Coq_xO (Coq_xO (Coq_xO (Coq_xO (Coq_xO (Coq_xO
    (Coq_xO (Coq_xI (Coq_xO (Coq_xO (Coq_xO (Coq_xO (Coq_xO (Coq_xO (Coq_xO
    (Coq_xO (Coq_xO (Coq_xO (Coq_xO (Coq_xO (Coq_xO (Coq_xI (Coq_xO (Coq_xO
    Coq_xH))))))))))))))))))))))))))))))))))))))))))))))))))))))) :: ((Npos
    (Coq_xO (Coq_xO (Coq_xO (Coq_xI (Coq_xO (Coq_xO (Coq_xO (Coq_xO (Coq_xO
    (Coq_xO (Coq_xO (Coq_xO (Coq_xO (Coq_xI (Coq_xO (Coq_xO (Coq_xI (Coq_xO
    (Coq_xO (Coq_xO (Coq_xO (Coq_xO (Coq_xO (Coq_xO (Coq_xO (Coq_xO (Coq_xO
    (Coq_xI (Coq_xO (Coq_xO (Coq_xO (Coq_xO (Coq_xO (Coq_xO (Coq_xI (Coq_xO
    (Coq_xO (Coq_xO (Coq_xO (Coq_xO (Coq_xO (Coq_xO (Coq_xI (Coq_xO (Coq_xI
    (Coq_xO (Coq_xO (Coq_xO (Coq_xO (Coq_xO (Coq_xO (Coq_xI (Coq_xI (Coq_xO
    (Coq_xO (Coq_xO (Coq_xI (Coq_xI (Coq_xI
    Coq_xH)))))))))))))))))))))))))))))))))))))))))))))))))))))))))))) :: ((Npos
    (Coq_xI (Coq_xO (Coq_xO (Coq_xO (Coq_xO (Coq_xO (Coq_xO (Coq_xO (Coq_xO
    (Coq_xO (Coq_xO (Coq_xO (Coq_xO (Coq_xI (Coq_xO (Coq_xO (Coq_xO (Coq_xO
    (Coq_xO (Coq_xO (Coq_xI (Coq_xO (Coq_xO (Coq_xO (Coq_xO (Coq_xI (Coq_xO
    (Coq_xO (Coq_xO (Coq_xO (Coq_xO (Coq_xO (Coq_xO (Coq_xO (Coq_xO (Coq_xI
    (Coq_xO (Coq_xI (Coq_xO (Coq_xO (Coq_xO (Coq_xO (Coq_xO (Coq_xO (Coq_xO
    (Coq_xO (Coq_xO (Coq_xO (Coq_xO (Coq_xO (Coq_xI (Coq_xO (Coq_xO (Coq_xO
    (Coq_xO (Coq_xO (Coq_xO (Coq_xO (Coq_xO (Coq_xO
    Coq_xH))))))))))))))))))))))))))))))))))))))))))))))))))))))))))))) :: ((Npos
    (Coq_xI (Coq_xO (Coq_xO (Coq_xO (Coq_xI (Coq_xO (Coq_xO (Coq_xO (Coq_xO
    (Coq_xO (Coq_xO (Coq_xI (Coq_xO (Coq_xO (Coq_xO (Coq_xO (Coq_xO (Coq_xO
    (Coq_xO (Coq_xI (Coq_xO (Coq_xO (Coq_xO (Coq_xO (Coq_xO (Coq_xO (Coq_xO
    (Coq_xO (Coq_xO (Coq_xI (Coq_xO (Coq_xO (Coq_xO (Coq_xO (Coq_xO (Coq_xI
    (Coq_xO (Coq_xO (Coq_xO (Coq_xO (Coq_xO (Coq_xO (Coq_xO (Coq_xO (Coq_xO
    (Coq_xO (Coq_xO (Coq_xO (Coq_xI (Coq_xO (Coq_xO (Coq_xO (Coq_xO (Coq_xO
    (Coq_xI (Coq_xO (Coq_xO (Coq_xO (Coq_xO
    Coq_xH)))))))))))))))))))))))))))))))))))))))))))))))))))))))))))) :: ((Npos
    (Coq_xO (Coq_xO (Coq_xO (Coq_xI (Coq_xO (Coq_xO (Coq_xO (Coq_xO (Coq_xO
    (Coq_xO (Coq_xO (Coq_xO (Coq_xO (Coq_xI (Coq_xO (Coq_xO (Coq_xO (Coq_xO
    (Coq_xI (Coq_xO (Coq_xO (Coq_xI (Coq_xO (Coq_xI (Coq_xO (Coq_xO (Coq_xO
    (Coq_xO (Coq_xO (Coq_xO (Coq_xO (Coq_xO (Coq_xO (Coq_xI (Coq_xO (Coq_xO
    (Coq_xO (Coq_xO (Coq_xO (Coq_xO (Coq_xO (Coq_xO (Coq_xO (Coq_xO (Coq_xO
    (Coq_xI (Coq_xO (Coq_xO (Coq_xO (Coq_xO (Coq_xO (Coq_xO (Coq_xO (Coq_xO
    Coq_xH))))))))))))))))))))))))))))))))))))))))))))))))))))))) :: ((Npos
    (Coq_xO (Coq_xO (Coq_xO (Coq_xO (Coq_xO (Coq_xO (Coq_xO (Coq_xO (Coq_xO
    (Coq_xO (Coq_xO (Coq_xO (Coq_xO (Coq_xI (Coq_xO (Coq_xO (Coq_xO (Coq_xO
    (Coq_xI (Coq_xO (Coq_xO (Coq_xO (Coq_xO (Coq_xO (Coq_xO (Coq_xO (Coq_xI
    (Coq_xO (Coq_xI (Coq_xO (Coq_xI (Coq_xO (Coq_xO (Coq_xO (Coq_xO (Coq_xO
    (Coq_xO (Coq_xO (Coq_xO (Coq_xO (Coq_xO (Coq_xO (Coq_xO (Coq_xO (Coq_xO
    (Coq_xO (Coq_xO
    Coq_xH)))))))))))))))))))))))))))))))))))))))))))))))) :: ((Npos (Coq_xO
    (Coq_xO (Coq_xO (Coq_xO (Coq_xO (Coq_xO (Coq_xO (Coq_xO (Coq_xO (Coq_xO
    (Coq_xO (Coq_xO (Coq_xI (Coq_xO (Coq_xO (Coq_xI (Coq_xO (Coq_xO (Coq_xI
    (Coq_xI (Coq_xO (Coq_xO (Coq_xO (Coq_xO (Coq_xI (Coq_xO (Coq_xO (Coq_xO
    (Coq_xO (Coq_xO (Coq_xI (Coq_xO (Coq_xO (Coq_xO (Coq_xO (Coq_xO (Coq_xO
    (Coq_xO (Coq_xO (Coq_xO (Coq_xO (Coq_xO (Coq_xI (Coq_xO (Coq_xO (Coq_xO
    (Coq_xO (Coq_xO (Coq_xI (Coq_xO (Coq_xO (Coq_xO (Coq_xO (Coq_xO (Coq_xO
    (Coq_xO (Coq_xO (Coq_xO (Coq_xO (Coq_xI (Coq_xO (Coq_xO (Coq_xO
    Coq_xH)))))))))))))))))))))))))))))))))))))))))))))))))))))))))))))))) :: ((Npos
    (Coq_xO (Coq_xO (Coq_xO (Coq_xO (Coq_xI (Coq_xO (Coq_xO (Coq_xI (Coq_xO
    (Coq_xI (Coq_xO (Coq_xO (Coq_xO (Coq_xO (Coq_xI (Coq_xO (Coq_xO (Coq_xO
    (Coq_xO (Coq_xO (Coq_xI (Coq_xO (Coq_xO (Coq_xO (Coq_xO (Coq_xO (Coq_xO
    (Coq_xO (Coq_xI (Coq_xI (Coq_xI (Coq_xO (Coq_xO (Coq_xO (Coq_xI (Coq_xO
    (Coq_xO (Coq_xO (Coq_xO (Coq_xO (Coq_xO (Coq_xO (Coq_xI (Coq_xO (Coq_xO
    (Coq_xO (Coq_xO (Coq_xO (Coq_xO (Coq_xO (Coq_xO (Coq_xO (Coq_xO (Coq_xI
    (Coq_xO (Coq_xO (Coq_xI (Coq_xO
    Coq_xH))))))))))))))))))))))))))))))))))))))))))))))))))))))))))) :: ((Npos
    (Coq_xI (Coq_xO (Coq_xO (Coq_xO (Coq_xO (Coq_xO (Coq_xO (Coq_xI (Coq_xO
    (Coq_xO (Coq_xO (Coq_xO (Coq_xO (Coq_xO (Coq_xO (Coq_xO (Coq_xO (Coq_xO
    (Coq_xO (Coq_xO (Coq_xI (Coq_xO (Coq_xI (Coq_xO (Coq_xI (Coq_xO (Coq_xO
    (Coq_xO (Coq_xI (Coq_xO (Coq_xI (Coq_xO (Coq_xO (Coq_xO (Coq_xO (Coq_xO
    (Coq_xO (Coq_xO (Coq_xO (Coq_xO (Coq_xO (Coq_xO (Coq_xI (Coq_xO (Coq_xO
    (Coq_xO (Coq_xO (Coq_xO (Coq_xO (Coq_xO (Coq_xI (Coq_xO (Coq_xO (Coq_xO
    (Coq_xO (Coq_xO (Coq_xO (Coq_xO (Coq_xO (Coq_xO
    Coq_xH))))))))))))))))))))))))))))))))))))))))))))))))))))))))))))) :: ((Npos
    (Coq_xI (Coq_xO (Coq_xO (Coq_xO (Coq_xO (Coq_xI (Coq_xO (Coq_xO (Coq_xO
    (Coq_xO (Coq_xO (Coq_xO (Coq_xO (Coq_xO (Coq_xO (Coq_xO (Coq_xO (Coq_xO
    (Coq_xO (Coq_xI (Coq_xO (Coq_xO (Coq_xO (Coq_xO (Coq_xI (Coq_xI (Coq_xO
    (Coq_xO (Coq_xI (Coq_xI (Coq_xO (Coq_xO (Coq_xO (Coq_xO (Coq_xO (Coq_xI
    (Coq_xI (Coq_xO (Coq_xO (Coq_xO (Coq_xO (Coq_xO (Coq_xO (Coq_xI (Coq_xO
    (Coq_xO (Coq_xO (Coq_xO (Coq_xO (Coq_xI (Coq_xO (Coq_xO (Coq_xO (Coq_xO
    (Coq_xO (Coq_xO (Coq_xO (Coq_xO (Coq_xO (Coq_xO (Coq_xO
    Coq_xH)))))))))))))))))))))))))))))))))))))))))))))))))))))))))))))) :: ((Npos
    (Coq_xO (Coq_xI (Coq_xO (Coq_xO (Coq_xO (Coq_xO (Coq_xI (Coq_xO (Coq_xI
    (Coq_xO (Coq_xO (Coq_xO (Coq_xO (Coq_xO (Coq_xO (Coq_xO (Coq_xI (Coq_xO
    (Coq_xO (Coq_xO (Coq_xO (Coq_xO (Coq_xO (Coq_xO (Coq_xO (Coq_xO (Coq_xI
    (Coq_xI (Coq_xO (Coq_xO (Coq_xO (Coq_xO (Coq_xO (Coq_xO (Coq_xO (Coq_xO
    (Coq_xO (Coq_xO (Coq_xI (Coq_xI (Coq_xO (Coq_xO (Coq_xO (Coq_xO (Coq_xO
    (Coq_xO (Coq_xO (Coq_xO (Coq_xO (Coq_xO
    Coq_xH))))))))))))))))))))))))))))))))))))))))))))))))))) :: ((Npos
    (Coq_xO (Coq_xO (Coq_xO (Coq_xO (Coq_xO (Coq_xO (Coq_xO (Coq_xO (Coq_xO
    (Coq_xO (Coq_xO (Coq_xO (Coq_xO (Coq_xI (Coq_xO (Coq_xO (Coq_xO (Coq_xO
    (Coq_xO (Coq_xO (Coq_xO (Coq_xO (Coq_xO (Coq_xO (Coq_xO (Coq_xO (Coq_xI
    (Coq_xI (Coq_xO (Coq_xO (Coq_xO (Coq_xO (Coq_xO (Coq_xO (Coq_xO (Coq_xO
    (Coq_xO (Coq_xI (Coq_xO (Coq_xO (Coq_xO (Coq_xO (Coq_xO (Coq_xI (Coq_xO
    (Coq_xO (Coq_xO (Coq_xO (Coq_xO (Coq_xO (Coq_xI (Coq_xO (Coq_xI (Coq_xO
    (Coq_xO (Coq_xO (Coq_xO (Coq_xO (Coq_xI (Coq_xO (Coq_xI (Coq_xO (Coq_xO
    Coq_xH)))))))))))))))))))))))))))))))))))))))))))))))))))))))))))))))) :: ((Npos
    (Coq_xI (Coq_xO (Coq_xO (Coq_xO (Coq_xI (Coq_xO (Coq_xO (Coq_xO (Coq_xO
    (Coq_xO (Coq_xO (Coq_xO (Coq_xO (Coq_xI (Coq_xI (Coq_xO (Coq_xO (Coq_xO
    (Coq_xO (Coq_xO (Coq_xO (Coq_xO (Coq_xO (Coq_xI (Coq_xO (Coq_xO (Coq_xO
    (Coq_xO (Coq_xO (Coq_xO (Coq_xO (Coq_xO (Coq_xO (Coq_xO (Coq_xO (Coq_xO
    (Coq_xO (Coq_xO (Coq_xO (Coq_xO (Coq_xI (Coq_xO (Coq_xO (Coq_xO (Coq_xO
    (Coq_xO (Coq_xO (Coq_xI (Coq_xO (Coq_xO (Coq_xO (Coq_xI (Coq_xI (Coq_xO
    (Coq_xI (Coq_xO (Coq_xO (Coq_xI
    Coq_xH))))))))))))))))))))))))))))))))))))))))))))))))))))))))))) :: ((Npos
    (Coq_xO (Coq_xO (Coq_xO (Coq_xO (Coq_xO (Coq_xO (Coq_xO (Coq_xO (Coq_xO
    (Coq_xI (Coq_xO (Coq_xI (Coq_xO (Coq_xO (Coq_xO (Coq_xO (Coq_xO (Coq_xO
    (Coq_xI (Coq_xO (Coq_xO (Coq_xO (Coq_xI (Coq_xO (Coq_xO (Coq_xO (Coq_xO
    (Coq_xO (Coq_xO (Coq_xO (Coq_xI (Coq_xO (Coq_xO (Coq_xO (Coq_xO (Coq_xO
    (Coq_xI (Coq_xO (Coq_xO (Coq_xO (Coq_xI (Coq_xI (Coq_xI (Coq_xO (Coq_xO
    (Coq_xO (Coq_xO (Coq_xO (Coq_xO (Coq_xO (Coq_xO (Coq_xI (Coq_xO (Coq_xO
    (Coq_xO (Coq_xI
    Coq_xH))))))))))))))))))))))))))))))))))))))))))))))))))))))))) :: ((Npos
    (Coq_xO (Coq_xO (Coq_xO (Coq_xO (Coq_xO (Coq_xO (Coq_xO (Coq_xO (Coq_xO
    (Coq_xO (Coq_xI (Coq_xI (Coq_xI (Coq_xO (Coq_xO (Coq_xO (Coq_xI (Coq_xO
    (Coq_xO (Coq_xO (Coq_xO (Coq_xO (Coq_xO (Coq_xO (Coq_xO (Coq_xI (Coq_xO
    (Coq_xO (Coq_xO (Coq_xO (Coq_xO (Coq_xO (Coq_xO (Coq_xO (Coq_xO (Coq_xO
    (Coq_xO (Coq_xO (Coq_xI (Coq_xO (Coq_xO (Coq_xO (Coq_xO (Coq_xO (Coq_xO
    (Coq_xO (Coq_xI (Coq_xO (Coq_xO (Coq_xO (Coq_xO (Coq_xO (Coq_xO (Coq_xO
    (Coq_xO (Coq_xO (Coq_xO (Coq_xO (Coq_xO (Coq_xI (Coq_xO (Coq_xO
    Coq_xH))))))))))))))))))))))))))))))))))))))))))))))))))))))))))))))) :: ((Npos
    (Coq_xO (Coq_xO (Coq_xO (Coq_xO (Coq_xO (Coq_xO (Coq_xO (Coq_xO (Coq_xO
    (Coq_xI (Coq_xO (Coq_xO (Coq_xO (Coq_xO (Coq_xI (Coq_xO (Coq_xO (Coq_xO
    (Coq_xO (Coq_xO (Coq_xO (Coq_xO (Coq_xI (Coq_xO (Coq_xO (Coq_xO (Coq_xO
    (Coq_xO (Coq_xO (Coq_xO (Coq_xI (Coq_xO (Coq_xO (Coq_xO (Coq_xO (Coq_xO
    (Coq_xO (Coq_xI (Coq_xO (Coq_xO (Coq_xO (Coq_xO (Coq_xI (Coq_xO (Coq_xO
    (Coq_xO (Coq_xI (Coq_xO (Coq_xO (Coq_xO (Coq_xI (Coq_xO (Coq_xO (Coq_xO
    (Coq_xO (Coq_xO
    Coq_xH))))))))))))))))))))))))))))))))))))))))))))))))))))))))) :: ((Npos
    (Coq_xI (Coq_xO (Coq_xO (Coq_xO (Coq_xO (Coq_xI (Coq_xO (Coq_xO (Coq_xO
    (Coq_xO (Coq_xO (Coq_xO (Coq_xI (Coq_xO (Coq_xO (Coq_xO (Coq_xI (Coq_xO
    (Coq_xO (Coq_xI (Coq_xO (Coq_xO (Coq_xO (Coq_xO (Coq_xO (Coq_xI (Coq_xO
    (Coq_xO (Coq_xO (Coq_xO (Coq_xO (Coq_xO (Coq_xO (Coq_xI (Coq_xO (Coq_xO
    (Coq_xO (Coq_xO (Coq_xO (Coq_xO (Coq_xO (Coq_xO (Coq_xO (Coq_xI (Coq_xO
    (Coq_xO (Coq_xO (Coq_xO (Coq_xI (Coq_xO (Coq_xO (Coq_xO (Coq_xI (Coq_xO
    (Coq_xO (Coq_xO (Coq_xI (Coq_xO
    Coq_xH))))))))))))))))))))))))))))))))))))))))))))))))))))))))))) :: ((Npos
    (Coq_xO (Coq_xO (Coq_xO (Coq_xO (Coq_xO (Coq_xO (Coq_xO (Coq_xO (Coq_xO
    (Coq_xO (Coq_xI (Coq_xO (Coq_xO (Coq_xO (Coq_xO (Coq_xO (Coq_xO (Coq_xI
    (Coq_xO (Coq_xO (Coq_xI (Coq_xO (Coq_xO (Coq_xO (Coq_xI (Coq_xO (Coq_xO
    (Coq_xO (Coq_xO (Coq_xO (Coq_xO (Coq_xO (Coq_xO (Coq_xO (Coq_xI (Coq_xO
    (Coq_xO (Coq_xI (Coq_xO (Coq_xO (Coq_xO (Coq_xI (Coq_xO (Coq_xO (Coq_xO
    (Coq_xO (Coq_xO (Coq_xO (Coq_xO (Coq_xO
    Coq_xH))))))))))))))))))))))))))))))))))))))))))))))))))) :: ((Npos
    (Coq_xO (Coq_xO (Coq_xO (Coq_xO (Coq_xO (Coq_xI (Coq_xO (Coq_xO (Coq_xI
    (Coq_xO (Coq_xO (Coq_xO (Coq_xO (Coq_xO (Coq_xO (Coq_xO (Coq_xO (Coq_xO
    (Coq_xO (Coq_xI (Coq_xO (Coq_xO (Coq_xO (Coq_xO (Coq_xO (Coq_xO (Coq_xO
    (Coq_xO (Coq_xO (Coq_xO (Coq_xO (Coq_xO (Coq_xO (Coq_xO (Coq_xI (Coq_xO
    (Coq_xO (Coq_xO (Coq_xO (Coq_xO (Coq_xO (Coq_xO (Coq_xI (Coq_xO (Coq_xO
    (Coq_xO (Coq_xO (Coq_xO (Coq_xO (Coq_xO (Coq_xO (Coq_xO (Coq_xO (Coq_xO
    (Coq_xI (Coq_xI (Coq_xO (Coq_xO (Coq_xO (Coq_xO (Coq_xO (Coq_xO (Coq_xO
    Coq_xH)))))))))))))))))))))))))))))))))))))))))))))))))))))))))))))))) :: ((Npos
    (Coq_xO (Coq_xI (Coq_xO (Coq_xO (Coq_xO (Coq_xO (Coq_xO (Coq_xO (Coq_xO
    (Coq_xO (Coq_xO (Coq_xI (Coq_xO (Coq_xO (Coq_xO (Coq_xO (Coq_xO (Coq_xI
    (Coq_xO (Coq_xO (Coq_xO (Coq_xO (Coq_xO (Coq_xI (Coq_xO (Coq_xO (Coq_xO
    (Coq_xO (Coq_xO (Coq_xO (Coq_xI (Coq_xO (Coq_xO (Coq_xO (Coq_xO (Coq_xO
    (Coq_xO (Coq_xO (Coq_xO (Coq_xO (Coq_xI (Coq_xO (Coq_xO (Coq_xO (Coq_xO
    (Coq_xO (Coq_xO (Coq_xO (Coq_xO (Coq_xO (Coq_xO (Coq_xO (Coq_xO (Coq_xO
    (Coq_xI (Coq_xO (Coq_xO (Coq_xO (Coq_xO (Coq_xO (Coq_xO (Coq_xO (Coq_xO
    Coq_xH)))))))))))))))))))))))))))))))))))))))))))))))))))))))))))))))) :: ((Npos
    (Coq_xO (Coq_xO (Coq_xO (Coq_xO (Coq_xI (Coq_xO (Coq_xO (Coq_xI (Coq_xO
    (Coq_xO (Coq_xO (Coq_xO (Coq_xO (Coq_xO (Coq_xO (Coq_xO (Coq_xO (Coq_xI
    (Coq_xO (Coq_xO (Coq_xO (Coq_xO (Coq_xO (Coq_xO (Coq_xO (Coq_xO (Coq_xO
    (Coq_xO (Coq_xO (Coq_xO (Coq_xO (Coq_xO (Coq_xI (Coq_xI (Coq_xI (Coq_xO
    (Coq_xO (Coq_xO (Coq_xO (Coq_xO (Coq_xI (Coq_xO (Coq_xO (Coq_xO (Coq_xO
    (Coq_xO (Coq_xO (Coq_xI (Coq_xO (Coq_xO (Coq_xO (Coq_xO (Coq_xO (Coq_xO
    (Coq_xO (Coq_xI (Coq_xO (Coq_xO
    Coq_xH))))))))))))))))))))))))))))))))))))))))))))))))))))))))))) :: ((Npos
    (Coq_xO (Coq_xI (Coq_xO (Coq_xO (Coq_xO (Coq_xO (Coq_xI (Coq_xO (Coq_xO
    (Coq_xI (Coq_xO (Coq_xO (Coq_xO (Coq_xO (Coq_xO (Coq_xO (Coq_xO (Coq_xO
    (Coq_xI (Coq_xO (Coq_xO (Coq_xO (Coq_xO (Coq_xO (Coq_xO (Coq_xO (Coq_xO
    (Coq_xO (Coq_xO (Coq_xO (Coq_xO (Coq_xO (Coq_xO (Coq_xI (Coq_xI (Coq_xI
    (Coq_xO (Coq_xO (Coq_xO (Coq_xI (Coq_xO (Coq_xO (Coq_xO (Coq_xO (Coq_xO
    (Coq_xO (Coq_xO (Coq_xO (Coq_xO (Coq_xI (Coq_xO (Coq_xO (Coq_xO (Coq_xO
    (Coq_xO (Coq_xO
    Coq_xH))))))))))))))))))))))))))))))))))))))))))))))))))))))))) :: ((Npos
    (Coq_xO (Coq_xO (Coq_xO (Coq_xO (Coq_xO (Coq_xO (Coq_xO (Coq_xO (Coq_xI
    (Coq_xO (Coq_xO (Coq_xO (Coq_xO (Coq_xO (Coq_xO (Coq_xO (Coq_xI (Coq_xO
    (Coq_xI (Coq_xO (Coq_xO (Coq_xO (Coq_xO (Coq_xO (Coq_xO (Coq_xI (Coq_xO
    (Coq_xO (Coq_xO (Coq_xO (Coq_xO (Coq_xO (Coq_xO (Coq_xI (Coq_xO (Coq_xO
    (Coq_xI (Coq_xO (Coq_xI (Coq_xO (Coq_xO (Coq_xO (Coq_xO (Coq_xO (Coq_xO
    (Coq_xO (Coq_xO (Coq_xO (Coq_xI (Coq_xO (Coq_xO (Coq_xI (Coq_xO (Coq_xO
    (Coq_xO (Coq_xO (Coq_xO (Coq_xO (Coq_xO
    Coq_xH)))))))))))))))))))))))))))))))))))))))))))))))))))))))))))) :: ((Npos
    (Coq_xO (Coq_xO (Coq_xO (Coq_xO (Coq_xO (Coq_xO (Coq_xO (Coq_xI (Coq_xO
    (Coq_xO (Coq_xO (Coq_xO (Coq_xO (Coq_xO (Coq_xI (Coq_xO (Coq_xO (Coq_xO
    (Coq_xO (Coq_xO (Coq_xI (Coq_xO (Coq_xO (Coq_xO (Coq_xO (Coq_xO (Coq_xO
    (Coq_xO (Coq_xO (Coq_xI (Coq_xO (Coq_xO (Coq_xO (Coq_xI (Coq_xO (Coq_xO
    (Coq_xO (Coq_xO (Coq_xI (Coq_xO (Coq_xO (Coq_xI (Coq_xO (Coq_xO (Coq_xO
    (Coq_xO (Coq_xO (Coq_xO (Coq_xO (Coq_xI (Coq_xO (Coq_xO (Coq_xO (Coq_xO
    (Coq_xO (Coq_xO (Coq_xO (Coq_xO (Coq_xO (Coq_xO (Coq_xO (Coq_xO (Coq_xO
    Coq_xH)))))))))))))))))))))))))))))))))))))))))))))))))))))))))))))))) :: ((Npos
    (Coq_xO (Coq_xO (Coq_xO (Coq_xO (Coq_xO (Coq_xO (Coq_xO (Coq_xO (Coq_xO
    (Coq_xO (Coq_xO (Coq_xO (Coq_xO (Coq_xI (Coq_xO (Coq_xO (Coq_xO (Coq_xO
    (Coq_xI (Coq_xO (Coq_xI (Coq_xO (Coq_xO (Coq_xO (Coq_xO (Coq_xO (Coq_xI
    (Coq_xO (Coq_xO (Coq_xO (Coq_xO (Coq_xO (Coq_xO (Coq_xO (Coq_xO (Coq_xI
    (Coq_xO (Coq_xO (Coq_xO (Coq_xI (Coq_xO (Coq_xO (Coq_xO (Coq_xO (Coq_xO
    (Coq_xO (Coq_xO (Coq_xO (Coq_xI (Coq_xO (Coq_xO (Coq_xO (Coq_xI (Coq_xI
    (Coq_xO (Coq_xO (Coq_xO (Coq_xO
    Coq_xH))))))))))))))))))))))))))))))))))))))))))))))))))))))))))) :: ((Npos
    (Coq_xO (Coq_xO (Coq_xO (Coq_xO (Coq_xO (Coq_xO (Coq_xO (Coq_xO (Coq_xO
    (Coq_xO (Coq_xI (Coq_xO (Coq_xI (Coq_xO (Coq_xO (Coq_xO (Coq_xO (Coq_xO
    (Coq_xO (Coq_xI (Coq_xO (Coq_xO (Coq_xO (Coq_xO (Coq_xO (Coq_xI (Coq_xO
    (Coq_xO (Coq_xO (Coq_xO (Coq_xO (Coq_xO (Coq_xO (Coq_xO (Coq_xO (Coq_xI
    (Coq_xI (Coq_xO (Coq_xO (Coq_xO (Coq_xO (Coq_xO (Coq_xO (Coq_xO (Coq_xO
    (Coq_xO (Coq_xO (Coq_xO (Coq_xI (Coq_xO (Coq_xO (Coq_xI
    Coq_xH))))))))))))))))))))))))))))))))))))))))))))))))))))) :: ((Npos
    (Coq_xO (Coq_xO (Coq_xO (Coq_xO (Coq_xO (Coq_xO (Coq_xO (Coq_xI (Coq_xO
    (Coq_xO (Coq_xO (Coq_xO (Coq_xO (Coq_xO (Coq_xO (Coq_xO (Coq_xO (Coq_xO
    (Coq_xI (Coq_xO (Coq_xO (Coq_xO (Coq_xO (Coq_xO (Coq_xO (Coq_xO (Coq_xO
    (Coq_xI (Coq_xO (Coq_xO (Coq_xO (Coq_xO (Coq_xO (Coq_xI (Coq_xO (Coq_xO
    (Coq_xO (Coq_xO (Coq_xI (Coq_xO (Coq_xI (Coq_xO (Coq_xO (Coq_xO (Coq_xO
    (Coq_xO (Coq_xO (Coq_xO (Coq_xO (Coq_xO (Coq_xO (Coq_xO (Coq_xO (Coq_xO
    (Coq_xO (Coq_xO (Coq_xO
    Coq_xH)))))))))))))))))))))))))))))))))))))))))))))))))))))))))) :: ((Npos
    (Coq_xO (Coq_xO (Coq_xO (Coq_xO (Coq_xO (Coq_xO (Coq_xO (Coq_xO (Coq_xI
    (Coq_xO (Coq_xO (Coq_xO (Coq_xO (Coq_xO (Coq_xO (Coq_xO (Coq_xO (Coq_xO
    (Coq_xO (Coq_xO (Coq_xO (Coq_xI (Coq_xO (Coq_xO (Coq_xO (Coq_xO (Coq_xO
    (Coq_xI (Coq_xO (Coq_xO (Coq_xO (Coq_xO (Coq_xO (Coq_xO (Coq_xO (Coq_xO
    (Coq_xO (Coq_xI (Coq_xO (Coq_xO (Coq_xO (Coq_xO (Coq_xO (Coq_xI (Coq_xO
    (Coq_xO (Coq_xO (Coq_xO (Coq_xO (Coq_xO (Coq_xO (Coq_xI (Coq_xO (Coq_xO
    (Coq_xO (Coq_xO (Coq_xI (Coq_xI (Coq_xO (Coq_xO (Coq_xI
    Coq_xH)))))))))))))))))))))))))))))))))))))))))))))))))))))))))))))) :: ((Npos
    (Coq_xO (Coq_xO (Coq_xO (Coq_xO (Coq_xO (Coq_xI (Coq_xO (Coq_xO (Coq_xO
    (Coq_xO (Coq_xO (Coq_xO (Coq_xO (Coq_xO (Coq_xI (Coq_xI (Coq_xO (Coq_xO
    (Coq_xO (Coq_xO (Coq_xO (Coq_xO (Coq_xI (Coq_xO (Coq_xO (Coq_xO (Coq_xO
    (Coq_xO (Coq_xO (Coq_xO (Coq_xO (Coq_xO (Coq_xO (Coq_xO (Coq_xO (Coq_xO
    (Coq_xI (Coq_xO (Coq_xI (Coq_xO (Coq_xO (Coq_xO (Coq_xO (Coq_xO (Coq_xI
    (Coq_xO (Coq_xO (Coq_xO (Coq_xO (Coq_xO (Coq_xO (Coq_xO (Coq_xI (Coq_xO
    (Coq_xO (Coq_xO (Coq_xO (Coq_xO
    Coq_xH))))))))))))))))))))))))))))))))))))))))))))))))))))))))))) :: ((Npos
    (Coq_xO (Coq_xO (Coq_xO (Coq_xI (Coq_xO (Coq_xO (Coq_xO (Coq_xO (Coq_xI
    (Coq_xI (Coq_xO (Coq_xO (Coq_xO (Coq_xO (Coq_xO (Coq_xO (Coq_xI (Coq_xO
    (Coq_xO (Coq_xO (Coq_xO (Coq_xI (Coq_xO (Coq_xO (Coq_xO (Coq_xO (Coq_xI
    (Coq_xO (Coq_xO (Coq_xO (Coq_xO (Coq_xO (Coq_xO (Coq_xO (Coq_xI (Coq_xI
    (Coq_xO (Coq_xO (Coq_xO (Coq_xO (Coq_xO (Coq_xI (Coq_xO (Coq_xO (Coq_xO
    (Coq_xO (Coq_xO (Coq_xO (Coq_xO (Coq_xI (Coq_xO (Coq_xO (Coq_xI (Coq_xO
    (Coq_xO (Coq_xO (Coq_xO (Coq_xO (Coq_xO (Coq_xO (Coq_xO (Coq_xO
    Coq_xH))))))))))))))))))))))))))))))))))))))))))))))))))))))))))))))) :: ((Npos
    (Coq_xO (Coq_xO (Coq_xO (Coq_xO (Coq_xO (Coq_xO (Coq_xO (Coq_xI (Coq_xO
    (Coq_xO (Coq_xO (Coq_xO (Coq_xO (Coq_xO (Coq_xI (Coq_xO (Coq_xO (Coq_xO
    (Coq_xO (Coq_xO (Coq_xO (Coq_xO (Coq_xO (Coq_xO (Coq_xO (Coq_xI (Coq_xO
    (Coq_xO (Coq_xO (Coq_xO (Coq_xO (Coq_xO (Coq_xO (Coq_xI (Coq_xO (Coq_xO
    (Coq_xO (Coq_xI (Coq_xO (Coq_xI (Coq_xO (Coq_xO (Coq_xO (Coq_xO (Coq_xO
    (Coq_xI (Coq_xO (Coq_xO (Coq_xO (Coq_xI (Coq_xO (Coq_xO (Coq_xO (Coq_xO
    (Coq_xO (Coq_xI (Coq_xO (Coq_xO (Coq_xO (Coq_xO (Coq_xO
    Coq_xH)))))))))))))))))))))))))))))))))))))))))))))))))))))))))))))) :: ((Npos
    (Coq_xO (Coq_xO (Coq_xO (Coq_xO (Coq_xO (Coq_xO (Coq_xO (Coq_xO (Coq_xO
    (Coq_xO (Coq_xO (Coq_xO (Coq_xO (Coq_xI (Coq_xO (Coq_xO (Coq_xO (Coq_xO
    (Coq_xO (Coq_xI (Coq_xO (Coq_xO (Coq_xO (Coq_xO (Coq_xO (Coq_xO (Coq_xO
    (Coq_xO (Coq_xO (Coq_xI (Coq_xO (Coq_xO (Coq_xI (Coq_xO (Coq_xO (Coq_xO
    (Coq_xO (Coq_xO (Coq_xO (Coq_xO (Coq_xO (Coq_xO (Coq_xI (Coq_xO (Coq_xO
    (Coq_xO (Coq_xO (Coq_xO (Coq_xI (Coq_xO (Coq_xO (Coq_xO (Coq_xI (Coq_xO
    (Coq_xO (Coq_xO
    Coq_xH))))))))))))))))))))))))))))))))))))))))))))))))))))))))) :: ((Npos
    (Coq_xO (Coq_xO (Coq_xO (Coq_xO (Coq_xO (Coq_xO (Coq_xO (Coq_xO (Coq_xO
    (Coq_xI (Coq_xO (Coq_xI (Coq_xO (Coq_xO (Coq_xO (Coq_xO (Coq_xO (Coq_xO
    (Coq_xO (Coq_xI (Coq_xO (Coq_xI (Coq_xO (Coq_xO (Coq_xI (Coq_xO (Coq_xO
    (Coq_xO (Coq_xO (Coq_xO (Coq_xI (Coq_xO (Coq_xI (Coq_xO (Coq_xO (Coq_xO
    (Coq_xO (Coq_xO (Coq_xO (Coq_xO (Coq_xO (Coq_xO (Coq_xI (Coq_xO (Coq_xO
    (Coq_xO (Coq_xO (Coq_xO (Coq_xI (Coq_xI (Coq_xO (Coq_xO (Coq_xO (Coq_xO
    (Coq_xO (Coq_xO (Coq_xO (Coq_xO (Coq_xO (Coq_xI (Coq_xO (Coq_xI
    Coq_xH))))))))))))))))))))))))))))))))))))))))))))))))))))))))))))))) :: ((Npos
    (Coq_xO (Coq_xO (Coq_xO (Coq_xO (Coq_xO (Coq_xO (Coq_xO (Coq_xO (Coq_xO
    (Coq_xO (Coq_xO (Coq_xO (Coq_xO (Coq_xO (Coq_xO (Coq_xO (Coq_xI (Coq_xO
    (Coq_xO (Coq_xO (Coq_xO (Coq_xO (Coq_xI (Coq_xO (Coq_xO (Coq_xI (Coq_xO
    (Coq_xO (Coq_xO (Coq_xO (Coq_xO (Coq_xO (Coq_xO (Coq_xI (Coq_xO (Coq_xO
    (Coq_xO (Coq_xO (Coq_xI (Coq_xO (Coq_xO (Coq_xO (Coq_xO (Coq_xO (Coq_xO
    (Coq_xO (Coq_xO (Coq_xO (Coq_xI (Coq_xO (Coq_xO (Coq_xO (Coq_xO (Coq_xO
    (Coq_xO (Coq_xO (Coq_xI (Coq_xO (Coq_xO (Coq_xO (Coq_xO
    Coq_xH)))))))))))))))))))))))))))))))))))))))))))))))))))))))))))))) :: ((Npos
    (Coq_xO (Coq_xI (Coq_xO (Coq_xO (Coq_xO (Coq_xI (Coq_xO (Coq_xO (Coq_xO
    (Coq_xO (Coq_xO (Coq_xO (Coq_xO (Coq_xO (Coq_xO (Coq_xI (Coq_xO (Coq_xO
    (Coq_xO (Coq_xO (Coq_xI (Coq_xO (Coq_xO (Coq_xO (Coq_xI (Coq_xO (Coq_xO
    (Coq_xO (Coq_xO (Coq_xO (Coq_xI (Coq_xO (Coq_xO (Coq_xO (Coq_xO (Coq_xO
    (Coq_xO (Coq_xO (Coq_xO (Coq_xO (Coq_xO (Coq_xO (Coq_xO (Coq_xO (Coq_xO
    (Coq_xO (Coq_xO (Coq_xO (Coq_xO (Coq_xO (Coq_xO (Coq_xO (Coq_xO (Coq_xO
    (Coq_xO (Coq_xO (Coq_xO (Coq_xI (Coq_xO (Coq_xO (Coq_xO (Coq_xO (Coq_xO
    Coq_xH)))))))))))))))))))))))))))))))))))))))))))))))))))))))))))))))) :: ((Npos
    (Coq_xO (Coq_xO (Coq_xO (Coq_xO (Coq_xO (Coq_xO (Coq_xO (Coq_xO (Coq_xO
    (Coq_xO (Coq_xO (Coq_xO (Coq_xO (Coq_xO (Coq_xO (Coq_xI (Coq_xO (Coq_xO
    (Coq_xO (Coq_xI (Coq_xO (Coq_xO (Coq_xO (Coq_xO (Coq_xO (Coq_xI (Coq_xO
    (Coq_xO (Coq_xO (Coq_xO (Coq_xO (Coq_xI (Coq_xO (Coq_xO (Coq_xO (Coq_xO
    (Coq_xI (Coq_xO (Coq_xO (Coq_xO (Coq_xO
    Coq_xH)))))))))))))))))))))))))))))))))))))))))) :: ((Npos (Coq_xO
    (Coq_xO (Coq_xO (Coq_xO (Coq_xO (Coq_xO (Coq_xI (Coq_xO (Coq_xO (Coq_xO
    (Coq_xO (Coq_xO (Coq_xO (Coq_xO (Coq_xO (Coq_xO (Coq_xI (Coq_xO (Coq_xO
    (Coq_xO (Coq_xO (Coq_xO (Coq_xO (Coq_xO (Coq_xO (Coq_xO (Coq_xI (Coq_xO
    (Coq_xO (Coq_xO (Coq_xO (Coq_xO (Coq_xO (Coq_xI (Coq_xO (Coq_xO (Coq_xO
    (Coq_xO (Coq_xO (Coq_xO (Coq_xI (Coq_xO (Coq_xO (Coq_xO (Coq_xO (Coq_xO
    (Coq_xI (Coq_xO (Coq_xO
    Coq_xH)))))))))))))))))))))))))))))))))))))))))))))))))) :: ((Npos
    (Coq_xO (Coq_xO (Coq_xO (Coq_xO (Coq_xO (Coq_xO (Coq_xO (Coq_xO (Coq_xO
    (Coq_xO (Coq_xO (Coq_xO (Coq_xI (Coq_xO (Coq_xO (Coq_xI (Coq_xO (Coq_xO
    (Coq_xO (Coq_xO (Coq_xO (Coq_xO (Coq_xO (Coq_xI (Coq_xO (Coq_xO (Coq_xO
    (Coq_xO (Coq_xO (Coq_xO (Coq_xO (Coq_xO (Coq_xO (Coq_xO (Coq_xI (Coq_xO
    (Coq_xO (Coq_xO (Coq_xO (Coq_xO (Coq_xO (Coq_xO (Coq_xO (Coq_xO (Coq_xI
    (Coq_xO (Coq_xO (Coq_xO (Coq_xO (Coq_xO (Coq_xO (Coq_xO (Coq_xO (Coq_xO
    Coq_xH))))))))))))))))))))))))))))))))))))))))))))))))))))))) :: ((Npos
    (Coq_xO (Coq_xO (Coq_xI (Coq_xO (Coq_xI (Coq_xO (Coq_xO (Coq_xO (Coq_xO
    (Coq_xI (Coq_xO (Coq_xO (Coq_xO (Coq_xO (Coq_xO (Coq_xO (Coq_xO (Coq_xI
    (Coq_xO (Coq_xO (Coq_xO (Coq_xO (Coq_xO (Coq_xI (Coq_xO (Coq_xO (Coq_xO
    (Coq_xO (Coq_xO (Coq_xI (Coq_xO (Coq_xO (Coq_xO (Coq_xI (Coq_xO (Coq_xO
    (Coq_xO (Coq_xO (Coq_xO (Coq_xI (Coq_xO (Coq_xO (Coq_xO (Coq_xI (Coq_xO
    (Coq_xO (Coq_xO (Coq_xO (Coq_xO (Coq_xI (Coq_xO (Coq_xO (Coq_xO (Coq_xI
    (Coq_xO (Coq_xO (Coq_xO (Coq_xO (Coq_xO
    Coq_xH)))))))))))))))))))))))))))))))))))))))))))))))))))))))))))) :: ((Npos
    (Coq_xO (Coq_xO (Coq_xI (Coq_xO (Coq_xO (Coq_xO (Coq_xO (Coq_xO (Coq_xO
    (Coq_xO (Coq_xO (Coq_xO (Coq_xO (Coq_xI (Coq_xO (Coq_xO (Coq_xI (Coq_xO
    (Coq_xO (Coq_xO (Coq_xO (Coq_xO (Coq_xO (Coq_xO (Coq_xO (Coq_xO (Coq_xO
    (Coq_xO (Coq_xI (Coq_xO (Coq_xO (Coq_xI (Coq_xO (Coq_xO (Coq_xO (Coq_xO
    (Coq_xO (Coq_xO (Coq_xO (Coq_xI (Coq_xO (Coq_xO (Coq_xO (Coq_xO (Coq_xO
    (Coq_xO (Coq_xO (Coq_xI (Coq_xO (Coq_xO (Coq_xO (Coq_xO (Coq_xO (Coq_xO
    Coq_xH))))))))))))))))))))))))))))))))))))))))))))))))))))))) :: ((Npos
    (Coq_xI (Coq_xO (Coq_xO (Coq_xI (Coq_xO (Coq_xO (Coq_xI (Coq_xI (Coq_xO
    (Coq_xO (Coq_xO (Coq_xI (Coq_xI (Coq_xO (Coq_xO (Coq_xO (Coq_xO (Coq_xI
    (Coq_xO (Coq_xO (Coq_xO (Coq_xO (Coq_xO (Coq_xO (Coq_xO (Coq_xO (Coq_xI
    (Coq_xO (Coq_xO (Coq_xO (Coq_xO (Coq_xO (Coq_xO (Coq_xO (Coq_xI (Coq_xO
    (Coq_xO (Coq_xI (Coq_xO (Coq_xO (Coq_xO (Coq_xI (Coq_xO (Coq_xO (Coq_xO
    (Coq_xO (Coq_xO (Coq_xO (Coq_xI (Coq_xO (Coq_xO (Coq_xO (Coq_xI (Coq_xO
    (Coq_xO
    Coq_xH)))))))))))))))))))))))))))))))))))))))))))))))))))))))) :: ((Npos
    (Coq_xO (Coq_xO (Coq_xO (Coq_xI (Coq_xO (Coq_xO (Coq_xO (Coq_xO (Coq_xO
    (Coq_xO (Coq_xO (Coq_xO (Coq_xI (Coq_xO (Coq_xI (Coq_xO (Coq_xI (Coq_xO
    (Coq_xO (Coq_xO (Coq_xO (Coq_xO (Coq_xO (Coq_xO (Coq_xO (Coq_xI (Coq_xO
    (Coq_xO (Coq_xO (Coq_xI (Coq_xO (Coq_xO (Coq_xO (Coq_xO (Coq_xI (Coq_xO
    (Coq_xO (Coq_xO (Coq_xI (Coq_xO (Coq_xI (Coq_xO (Coq_xO (Coq_xO (Coq_xO
    (Coq_xO (Coq_xO (Coq_xI (Coq_xO (Coq_xI (Coq_xO (Coq_xO (Coq_xO (Coq_xO
    (Coq_xO (Coq_xO (Coq_xO (Coq_xO
    Coq_xH))))))))))))))))))))))))))))))))))))))))))))))))))))))))))) :: ((Npos
    (Coq_xO (Coq_xO (Coq_xO (Coq_xO (Coq_xI (Coq_xO (Coq_xO (Coq_xO (Coq_xO
    (Coq_xO (Coq_xI (Coq_xO (Coq_xO (Coq_xI (Coq_xO (Coq_xO (Coq_xO (Coq_xO
    (Coq_xI (Coq_xO (Coq_xO (Coq_xO (Coq_xO (Coq_xI (Coq_xO (Coq_xO (Coq_xI
    (Coq_xO (Coq_xO (Coq_xO (Coq_xO (Coq_xO (Coq_xO (Coq_xO (Coq_xO (Coq_xO
    (Coq_xO (Coq_xO (Coq_xI (Coq_xO (Coq_xI (Coq_xO (Coq_xO (Coq_xO (Coq_xO
    (Coq_xO (Coq_xO (Coq_xO (Coq_xO (Coq_xO (Coq_xO (Coq_xO (Coq_xI (Coq_xO
    (Coq_xO
    Coq_xH)))))))))))))))))))))))))))))))))))))))))))))))))))))))) :: ((Npos
    (Coq_xI (Coq_xO (Coq_xI (Coq_xO (Coq_xO (Coq_xO (Coq_xO (Coq_xO (Coq_xI
    (Coq_xO (Coq_xO (Coq_xO (Coq_xO (Coq_xO (Coq_xI (Coq_xO (Coq_xO (Coq_xO
    (Coq_xO (Coq_xO (Coq_xI (Coq_xI (Coq_xO (Coq_xO (Coq_xO (Coq_xI (Coq_xO
    (Coq_xO (Coq_xO (Coq_xO (Coq_xI (Coq_xO (Coq_xO (Coq_xO (Coq_xO (Coq_xO
    (Coq_xO (Coq_xO (Coq_xO (Coq_xO (Coq_xO (Coq_xO (Coq_xO (Coq_xO (Coq_xO
    (Coq_xO (Coq_xO (Coq_xO
    Coq_xH))))))))))))))))))))))))))))))))))))))))))))))))) :: ((Npos (Coq_xO
    (Coq_xO (Coq_xO (Coq_xO (Coq_xO (Coq_xO (Coq_xO (Coq_xO (Coq_xO (Coq_xI
    (Coq_xO (Coq_xI (Coq_xO (Coq_xI (Coq_xO (Coq_xO (Coq_xI (Coq_xO (Coq_xO
    (Coq_xO (Coq_xO (Coq_xO (Coq_xI (Coq_xO (Coq_xO (Coq_xO (Coq_xO (Coq_xO
    (Coq_xI (Coq_xI (Coq_xO (Coq_xO (Coq_xO (Coq_xO (Coq_xO (Coq_xI (Coq_xO
    (Coq_xO (Coq_xO (Coq_xI (Coq_xO (Coq_xO (Coq_xO (Coq_xO (Coq_xO (Coq_xO
    (Coq_xO (Coq_xO (Coq_xO (Coq_xO (Coq_xO (Coq_xO
    Coq_xH))))))))))))))))))))))))))))))))))))))))))))))))))))) :: ((Npos
    (Coq_xO (Coq_xO (Coq_xO (Coq_xI (Coq_xO (Coq_xO (Coq_xO (Coq_xO (Coq_xI
    (Coq_xO (Coq_xO (Coq_xI (Coq_xO (Coq_xO (Coq_xO (Coq_xI (Coq_xO (Coq_xO
    (Coq_xO (Coq_xO (Coq_xO (Coq_xO (Coq_xO (Coq_xO (Coq_xO (Coq_xO (Coq_xO
    (Coq_xO (Coq_xI (Coq_xO (Coq_xO (Coq_xI (Coq_xO (Coq_xO (Coq_xO (Coq_xO
    (Coq_xI (Coq_xO (Coq_xO (Coq_xO (Coq_xO (Coq_xO (Coq_xO (Coq_xI (Coq_xO
    (Coq_xO (Coq_xO (Coq_xO (Coq_xO (Coq_xO (Coq_xO (Coq_xO (Coq_xO (Coq_xI
    (Coq_xO (Coq_xO (Coq_xI (Coq_xO (Coq_xI (Coq_xO (Coq_xO
    Coq_xH)))))))))))))))))))))))))))))))))))))))))))))))))))))))))))))) :: ((Npos
    (Coq_xO (Coq_xO (Coq_xO (Coq_xO (Coq_xO (Coq_xO (Coq_xI (Coq_xO (Coq_xI
    (Coq_xO (Coq_xO (Coq_xO (Coq_xO (Coq_xO (Coq_xO (Coq_xO (Coq_xO (Coq_xI
    (Coq_xI (Coq_xO (Coq_xO (Coq_xI (Coq_xO (Coq_xI (Coq_xO (Coq_xO (Coq_xO
    (Coq_xO (Coq_xO (Coq_xI (Coq_xO (Coq_xI (Coq_xO (Coq_xO (Coq_xO (Coq_xO
    (Coq_xO (Coq_xO (Coq_xO (Coq_xO (Coq_xO (Coq_xO (Coq_xO (Coq_xO (Coq_xO
    (Coq_xI (Coq_xO (Coq_xO (Coq_xO (Coq_xO (Coq_xO (Coq_xO (Coq_xI (Coq_xO
    (Coq_xO (Coq_xO (Coq_xO (Coq_xO (Coq_xO (Coq_xO (Coq_xO (Coq_xO
    Coq_xH))))))))))))))))))))))))))))))))))))))))))))))))))))))))))))))) :: [])))))))))))))))))))))))))))))))))))))))))))))))))))))))))))))))

(** val rook_bits : coq_N list **)

let rook_bits =
  (Npos (Coq_xO (Coq_xO (Coq_xI Coq_xH)))) :: ((Npos (Coq_xI (Coq_xI (Coq_xO
    Coq_xH)))) :: ((Npos (Coq_xI (Coq_xI (Coq_xO Coq_xH)))) :: ((Npos (Coq_xI
    (Coq_xI (Coq_xO Coq_xH)))) :: ((Npos (Coq_xI (Coq_xI (Coq_xO
    Coq_xH)))) :: ((Npos (Coq_xI (Coq_xI (Coq_xO Coq_xH)))) :: ((Npos (Coq_xI
    (Coq_xI (Coq_xO Coq_xH)))) :: ((Npos (Coq_xO (Coq_xO (Coq_xI
    Coq_xH)))) :: ((Npos (Coq_xI (Coq_xI (Coq_xO Coq_xH)))) :: ((Npos (Coq_xO
    (Coq_xI (Coq_xO Coq_xH)))) :: ((Npos (Coq_xO (Coq_xI (Coq_xO
    Coq_xH)))) :: ((Npos (Coq_xO (Coq_xI (Coq_xO Coq_xH)))) :: ((Npos (Coq_xO
    (Coq_xI (Coq_xO Coq_xH)))) :: ((Npos (Coq_xO (Coq_xI (Coq_xO
    Coq_xH)))) :: ((Npos (Coq_xO (Coq_xI (Coq_xO Coq_xH)))) :: ((Npos (Coq_xI
    (Coq_xI (Coq_xO Coq_xH)))) :: ((Npos (Coq_xI (Coq_xI (Coq_xO
    Coq_xH)))) :: ((Npos (Coq_xO (Coq_xI (Coq_xO Coq_xH)))) :: ((Npos (Coq_xO
    (Coq_xI (Coq_xO Coq_xH)))) :: ((Npos (Coq_xO (Coq_xI (Coq_xO
    Coq_xH)))) :: ((Npos (Coq_xO (Coq_xI (Coq_xO Coq_xH)))) :: ((Npos (Coq_xO
    (Coq_xI (Coq_xO Coq_xH)))) :: ((Npos (Coq_xO (Coq_xI (Coq_xO
    Coq_xH)))) :: ((Npos (Coq_xI (Coq_xI (Coq_xO Coq_xH)))) :: ((Npos (Coq_xI
    (Coq_xI (Coq_xO Coq_xH)))) :: ((Npos (Coq_xO (Coq_xI (Coq_xO
    Coq_xH)))) :: ((Npos (Coq_xO (Coq_xI (Coq_xO Coq_xH)))) :: ((Npos (Coq_xO
    (Coq_xI (Coq_xO Coq_xH)))) :: ((Npos (Coq_xO (Coq_xI (Coq_xO
    Coq_xH)))) :: ((Npos (Coq_xO (Coq_xI (Coq_xO Coq_xH)))) :: ((Npos (Coq_xO
    (Coq_xI (Coq_xO Coq_xH)))) :: ((Npos (Coq_xI (Coq_xI (Coq_xO
    Coq_xH)))) :: ((Npos (Coq_xI (Coq_xI (Coq_xO Coq_xH)))) :: ((Npos (Coq_xO
    (Coq_xI (Coq_xO Coq_xH)))) :: ((Npos (Coq_xO (Coq_xI (Coq_xO
    Coq_xH)))) :: ((Npos (Coq_xO (Coq_xI (Coq_xO Coq_xH)))) :: ((Npos (Coq_xO
    (Coq_xI (Coq_xO Coq_xH)))) :: ((Npos (Coq_xO (Coq_xI (Coq_xO
    Coq_xH)))) :: ((Npos (Coq_xO (Coq_xI (Coq_xO Coq_xH)))) :: ((Npos (Coq_xI
    (Coq_xI (Coq_xO Coq_xH)))) :: ((Npos (Coq_xI (Coq_xI (Coq_xO
    Coq_xH)))) :: ((Npos (Coq_xO (Coq_xI (Coq_xO Coq_xH)))) :: ((Npos (Coq_xO
    (Coq_xI (Coq_xO Coq_xH)))) :: ((Npos (Coq_xO (Coq_xI (Coq_xO
    Coq_xH)))) :: ((Npos (Coq_xO (Coq_xI (Coq_xO Coq_xH)))) :: ((Npos (Coq_xO
    (Coq_xI (Coq_xO Coq_xH)))) :: ((Npos (Coq_xO (Coq_xI (Coq_xO
    Coq_xH)))) :: ((Npos (Coq_xI (Coq_xI (Coq_xO Coq_xH)))) :: ((Npos (Coq_xI
    (Coq_xI (Coq_xO Coq_xH)))) :: ((Npos (Coq_xO (Coq_xI (Coq_xO
    Coq_xH)))) :: ((Npos (Coq_xO (Coq_xI (Coq_xO Coq_xH)))) :: ((Npos (Coq_xO
    (Coq_xI (Coq_xO Coq_xH)))) :: ((Npos (Coq_xO (Coq_xI (Coq_xO
    Coq_xH)))) :: ((Npos (Coq_xO (Coq_xI (Coq_xO Coq_xH)))) :: ((Npos (Coq_xO
    (Coq_xI (Coq_xO Coq_xH)))) :: ((Npos (Coq_xI (Coq_xI (Coq_xO
    Coq_xH)))) :: ((Npos (Coq_xO (Coq_xO (Coq_xI Coq_xH)))) :: ((Npos (Coq_xI
    (Coq_xI (Coq_xO Coq_xH)))) :: ((Npos (Coq_xI (Coq_xI (Coq_xO
    Coq_xH)))) :: ((Npos (Coq_xI (Coq_xI (Coq_xO Coq_xH)))) :: ((Npos (Coq_xI
    (Coq_xI (Coq_xO Coq_xH)))) :: ((Npos (Coq_xI (Coq_xI (Coq_xO
    Coq_xH)))) :: ((Npos (Coq_xI (Coq_xI (Coq_xO Coq_xH)))) :: ((Npos (Coq_xO
    (Coq_xO (Coq_xI
    Coq_xH)))) :: [])))))))))))))))))))))))))))))))))))))))))))))))))))))))))))))))

(** val bishop_bits : coq_N list **)

let bishop_bits =
  (Npos (Coq_xO (Coq_xI Coq_xH))) :: ((Npos (Coq_xI (Coq_xO
    Coq_xH))) :: ((Npos (Coq_xI (Coq_xO Coq_xH))) :: ((Npos (Coq_xI (Coq_xO
    Coq_xH))) :: ((Npos (Coq_xI (Coq_xO Coq_xH))) :: ((Npos (Coq_xI (Coq_xO
    Coq_xH))) :: ((Npos (Coq_xI (Coq_xO Coq_xH))) :: ((Npos (Coq_xO (Coq_xI
    Coq_xH))) :: ((Npos (Coq_xI (Coq_xO Coq_xH))) :: ((Npos (Coq_xI (Coq_xO
    Coq_xH))) :: ((Npos (Coq_xI (Coq_xO Coq_xH))) :: ((Npos (Coq_xI (Coq_xO
    Coq_xH))) :: ((Npos (Coq_xI (Coq_xO Coq_xH))) :: ((Npos (Coq_xI (Coq_xO
    Coq_xH))) :: ((Npos (Coq_xI (Coq_xO Coq_xH))) :: ((Npos (Coq_xI (Coq_xO
    Coq_xH))) :: ((Npos (Coq_xI (Coq_xO Coq_xH))) :: ((Npos (Coq_xI (Coq_xO
    Coq_xH))) :: ((Npos (Coq_xI (Coq_xI Coq_xH))) :: ((Npos (Coq_xI (Coq_xI
    Coq_xH))) :: ((Npos (Coq_xI (Coq_xI Coq_xH))) :: ((Npos (Coq_xI (Coq_xI
    Coq_xH))) :: ((Npos (Coq_xI (Coq_xO Coq_xH))) :: ((Npos (Coq_xI (Coq_xO
    Coq_xH))) :: ((Npos (Coq_xI (Coq_xO Coq_xH))) :: ((Npos (Coq_xI (Coq_xO
    Coq_xH))) :: ((Npos (Coq_xI (Coq_xI Coq_xH))) :: ((Npos (Coq_xI (Coq_xO
    (Coq_xO Coq_xH)))) :: ((Npos (Coq_xI (Coq_xO (Coq_xO Coq_xH)))) :: ((Npos
    (Coq_xI (Coq_xI Coq_xH))) :: ((Npos (Coq_xI (Coq_xO Coq_xH))) :: ((Npos
    (Coq_xI (Coq_xO Coq_xH))) :: ((Npos (Coq_xI (Coq_xO Coq_xH))) :: ((Npos
    (Coq_xI (Coq_xO Coq_xH))) :: ((Npos (Coq_xI (Coq_xI Coq_xH))) :: ((Npos
    (Coq_xI (Coq_xO (Coq_xO Coq_xH)))) :: ((Npos (Coq_xI (Coq_xO (Coq_xO
    Coq_xH)))) :: ((Npos (Coq_xI (Coq_xI Coq_xH))) :: ((Npos (Coq_xI (Coq_xO
    Coq_xH))) :: ((Npos (Coq_xI (Coq_xO Coq_xH))) :: ((Npos (Coq_xI (Coq_xO
    Coq_xH))) :: ((Npos (Coq_xI (Coq_xO Coq_xH))) :: ((Npos (Coq_xI (Coq_xI
    Coq_xH))) :: ((Npos (Coq_xI (Coq_xI Coq_xH))) :: ((Npos (Coq_xI (Coq_xI
    Coq_xH))) :: ((Npos (Coq_xI (Coq_xI Coq_xH))) :: ((Npos (Coq_xI (Coq_xO
    Coq_xH))) :: ((Npos (Coq_xI (Coq_xO Coq_xH))) :: ((Npos (Coq_xI (Coq_xO
    Coq_xH))) :: ((Npos (Coq_xI (Coq_xO Coq_xH))) :: ((Npos (Coq_xI (Coq_xO
    Coq_xH))) :: ((Npos (Coq_xI (Coq_xO Coq_xH))) :: ((Npos (Coq_xI (Coq_xO
    Coq_xH))) :: ((Npos (Coq_xI (Coq_xO Coq_xH))) :: ((Npos (Coq_xI (Coq_xO
    Coq_xH))) :: ((Npos (Coq_xI (Coq_xO Coq_xH))) :: ((Npos (Coq_xO (Coq_xI
    Coq_xH))) :: ((Npos (Coq_xI (Coq_xO Coq_xH))) :: ((Npos (Coq_xI (Coq_xO
    Coq_xH))) :: ((Npos (Coq_xI (Coq_xO Coq_xH))) :: ((Npos (Coq_xI (Coq_xO
    Coq_xH))) :: ((Npos (Coq_xI (Coq_xO Coq_xH))) :: ((Npos (Coq_xI (Coq_xO
    Coq_xH))) :: ((Npos (Coq_xO (Coq_xI
    Coq_xH))) :: [])))))))))))))))))))))))))))))))))))))))))))))))))))))))))))))))

(** val magic_table_slots : coq_N **)

let magic_table_slots =
  Npos (Coq_xO (Coq_xO (Coq_xO (Coq_xO (Coq_xO (Coq_xO (Coq_xO (Coq_xO
    (Coq_xO (Coq_xO (Coq_xO (Coq_xO Coq_xH))))))))))))

(** val knight_offsets : (coq_Z * coq_Z) list **)

let knight_offsets =
  ((Zpos Coq_xH), (Zpos (Coq_xO Coq_xH))) :: (((Zpos (Coq_xO Coq_xH)), (Zpos
    Coq_xH)) :: (((Zpos (Coq_xO Coq_xH)), (Zneg Coq_xH)) :: (((Zpos Coq_xH),
    (Zneg (Coq_xO Coq_xH))) :: (((Zneg Coq_xH), (Zneg (Coq_xO
    Coq_xH))) :: (((Zneg (Coq_xO Coq_xH)), (Zneg Coq_xH)) :: (((Zneg (Coq_xO
    Coq_xH)), (Zpos Coq_xH)) :: (((Zneg Coq_xH), (Zpos (Coq_xO
    Coq_xH))) :: [])))))))

(** val king_offsets : (coq_Z * coq_Z) list **)

let king_offsets =
  ((Zpos Coq_xH), (Zpos Coq_xH)) :: (((Zpos Coq_xH), Z0) :: (((Zpos Coq_xH),
    (Zneg Coq_xH)) :: ((Z0, (Zneg Coq_xH)) :: (((Zneg Coq_xH), (Zneg
    Coq_xH)) :: (((Zneg Coq_xH), Z0) :: (((Zneg Coq_xH), (Zpos
    Coq_xH)) :: ((Z0, (Zpos Coq_xH)) :: [])))))))

(** val white_pawn_offsets : (coq_Z * coq_Z) list **)

let white_pawn_offsets =
  ((Zneg Coq_xH), (Zpos Coq_xH)) :: (((Zpos Coq_xH), (Zpos Coq_xH)) :: [])

(** val black_pawn_offsets : (coq_Z * coq_Z) list **)

let black_pawn_offsets =
  ((Zneg Coq_xH), (Zneg Coq_xH)) :: (((Zpos Coq_xH), (Zneg Coq_xH)) :: [])

(** val dir_offsets : (coq_Z * coq_Z) list **)

let dir_offsets =
  (Z0, (Zpos Coq_xH)) :: ((Z0, (Zneg Coq_xH)) :: (((Zpos Coq_xH),
    Z0) :: (((Zneg Coq_xH), Z0) :: (((Zpos Coq_xH), (Zpos Coq_xH)) :: (((Zneg
    Coq_xH), (Zpos Coq_xH)) :: (((Zpos Coq_xH), (Zneg Coq_xH)) :: (((Zneg
    Coq_xH), (Zneg Coq_xH)) :: [])))))))

(** val piece_offset : coq_N **)

let piece_offset =
  N0

(** val piece_mask : coq_N **)

let piece_mask =
  Npos (Coq_xI (Coq_xI (Coq_xI Coq_xH)))

(** val origin_offset : coq_N **)

let origin_offset =
  Npos (Coq_xO (Coq_xO Coq_xH))

(** val origin_mask : coq_N **)

let origin_mask =
  Npos (Coq_xO (Coq_xO (Coq_xO (Coq_xO (Coq_xI (Coq_xI (Coq_xI (Coq_xI
    (Coq_xI Coq_xH)))))))))

(** val dest_offset : coq_N **)

let dest_offset =
  Npos (Coq_xO (Coq_xI (Coq_xO Coq_xH)))

(** val dest_mask : coq_N **)

let dest_mask =
  Npos (Coq_xO (Coq_xO (Coq_xO (Coq_xO (Coq_xO (Coq_xO (Coq_xO (Coq_xO
    (Coq_xO (Coq_xO (Coq_xI (Coq_xI (Coq_xI (Coq_xI (Coq_xI
    Coq_xH)))))))))))))))

(** val capture_offset : coq_N **)

let capture_offset =
  Npos (Coq_xO (Coq_xO (Coq_xO (Coq_xO Coq_xH))))

(** val capture_mask : coq_N **)

let capture_mask =
  Npos (Coq_xO (Coq_xO (Coq_xO (Coq_xO (Coq_xO (Coq_xO (Coq_xO (Coq_xO
    (Coq_xO (Coq_xO (Coq_xO (Coq_xO (Coq_xO (Coq_xO (Coq_xO (Coq_xO (Coq_xI
    (Coq_xI (Coq_xI Coq_xH)))))))))))))))))))

(** val promotion_offset : coq_N **)

let promotion_offset =
  Npos (Coq_xO (Coq_xO (Coq_xI (Coq_xO Coq_xH))))

(** val promotion_mask : coq_N **)

let promotion_mask =
  Npos (Coq_xO (Coq_xO (Coq_xO (Coq_xO (Coq_xO (Coq_xO (Coq_xO (Coq_xO
    (Coq_xO (Coq_xO (Coq_xO (Coq_xO (Coq_xO (Coq_xO (Coq_xO (Coq_xO (Coq_xO
    (Coq_xO (Coq_xO (Coq_xO (Coq_xI (Coq_xI (Coq_xI
    Coq_xH)))))))))))))))))))))))

(** val en_passant_offset : coq_N **)

let en_passant_offset =
  Npos (Coq_xO (Coq_xO (Coq_xO (Coq_xI Coq_xH))))

(** val double_pawn_offset : coq_N **)

let double_pawn_offset =
  Npos (Coq_xI (Coq_xO (Coq_xO (Coq_xI Coq_xH))))

(** val castle_queenside_offset : coq_N **)

let castle_queenside_offset =
  Npos (Coq_xO (Coq_xI (Coq_xO (Coq_xI Coq_xH))))

(** val castle_kingside_offset : coq_N **)

let castle_kingside_offset =
  Npos (Coq_xI (Coq_xI (Coq_xO (Coq_xI Coq_xH))))

(** val color_offset : coq_N **)

let color_offset =
  Npos (Coq_xO (Coq_xO (Coq_xI (Coq_xI Coq_xH))))

(** val promotion_types : coq_N list **)

let promotion_types =
  (Npos (Coq_xI (Coq_xO Coq_xH))) :: ((Npos (Coq_xO (Coq_xO
    Coq_xH))) :: ((Npos (Coq_xI Coq_xH)) :: ((Npos (Coq_xO Coq_xH)) :: [])))
