open BinNat
open BinNums
open Bits
open Datatypes
open List
open MoveEnc
open Text
open Types

(** val starts_with : text -> text -> bool **)

let rec starts_with pre l =
  match pre with
  | [] -> true
  | p :: pt ->
    (match l with
     | [] -> false
     | c :: ct -> (&&) (N.eqb p c) (starts_with pt ct))

(** val promo_of_letter : coq_N -> piece option **)

let promo_of_letter c =
  if N.eqb c ch_Q
  then Some Queen
  else if N.eqb c ch_R
       then Some Rook
       else if N.eqb c ch_B
            then Some Bishop
            else if N.eqb c ch_N then Some Knight else None

(** val piece_of_letter : coq_N -> piece option **)

let piece_of_letter c =
  if N.eqb c ch_K
  then Some King
  else if N.eqb c ch_Q
       then Some Queen
       else if N.eqb c ch_R
            then Some Rook
            else if N.eqb c ch_B
                 then Some Bishop
                 else if N.eqb c ch_N
                      then Some Knight
                      else if N.eqb c ch_P then Some Pawn else None

(** val set_q_piece : mquery -> piece -> mquery **)

let set_q_piece q p =
  { q_piece = (Some p); q_orank = q.q_orank; q_ofile = q.q_ofile; q_drank =
    q.q_drank; q_dfile = q.q_dfile; q_promotion = q.q_promotion; q_castle =
    q.q_castle; q_capture = q.q_capture }

(** val set_q_orank : mquery -> coq_N -> mquery **)

let set_q_orank q r =
  { q_piece = q.q_piece; q_orank = (Some r); q_ofile = q.q_ofile; q_drank =
    q.q_drank; q_dfile = q.q_dfile; q_promotion = q.q_promotion; q_castle =
    q.q_castle; q_capture = q.q_capture }

(** val set_q_ofile : mquery -> coq_N -> mquery **)

let set_q_ofile q f =
  { q_piece = q.q_piece; q_orank = q.q_orank; q_ofile = (Some f); q_drank =
    q.q_drank; q_dfile = q.q_dfile; q_promotion = q.q_promotion; q_castle =
    q.q_castle; q_capture = q.q_capture }

(** val set_q_drank : mquery -> coq_N -> mquery **)

let set_q_drank q r =
  { q_piece = q.q_piece; q_orank = q.q_orank; q_ofile = q.q_ofile; q_drank =
    (Some r); q_dfile = q.q_dfile; q_promotion = q.q_promotion; q_castle =
    q.q_castle; q_capture = q.q_capture }

(** val set_q_dfile : mquery -> coq_N -> mquery **)

let set_q_dfile q f =
  { q_piece = q.q_piece; q_orank = q.q_orank; q_ofile = q.q_ofile; q_drank =
    q.q_drank; q_dfile = (Some f); q_promotion = q.q_promotion; q_castle =
    q.q_castle; q_capture = q.q_capture }

(** val set_q_promotion : mquery -> piece -> mquery **)

let set_q_promotion q p =
  { q_piece = q.q_piece; q_orank = q.q_orank; q_ofile = q.q_ofile; q_drank =
    q.q_drank; q_dfile = q.q_dfile; q_promotion = (Some p); q_castle =
    q.q_castle; q_capture = q.q_capture }

(** val set_q_capture : mquery -> bool -> mquery **)

let set_q_capture q c =
  { q_piece = q.q_piece; q_orank = q.q_orank; q_ofile = q.q_ofile; q_drank =
    q.q_drank; q_dfile = q.q_dfile; q_promotion = q.q_promotion; q_castle =
    q.q_castle; q_capture = (Some c) }

(** val q_castling : bool -> mquery **)

let q_castling kingside =
  { q_piece = None; q_orank = None; q_ofile = None; q_drank = None; q_dfile =
    None; q_promotion = None; q_castle = (Some kingside); q_capture = None }

(** val san_parse : text -> mquery option **)

let san_parse str =
  if starts_with (ch_O :: (ch_dash :: (ch_O :: (ch_dash :: (ch_O :: [])))))
       str
  then Some (q_castling false)
  else if starts_with (ch_O :: (ch_dash :: (ch_O :: []))) str
       then Some (q_castling true)
       else let r0 = rev str in
            let r1 =
              match r0 with
              | [] -> r0
              | c :: tl ->
                if (||) (N.eqb c ch_hash) (N.eqb c ch_plus) then tl else r0
            in
            let st2 =
              match r1 with
              | [] -> Some (r1, q_empty)
              | c :: tl ->
                if is_ascii_upper c
                then (match promo_of_letter c with
                      | Some p ->
                        let q = set_q_promotion q_empty p in
                        (match tl with
                         | [] -> Some (tl, q)
                         | e :: tl' ->
                           if N.eqb e ch_eq
                           then Some (tl', q)
                           else Some (tl, q))
                      | None -> None)
                else Some (r1, q_empty)
            in
            (match st2 with
             | Some p ->
               let (r2, q2) = p in
               let st3 =
                 match r2 with
                 | [] -> Some (r2, q2)
                 | c :: tl ->
                   if is_ascii_digit c
                   then if (&&) (N.leb ch_1 c) (N.leb c ch_8)
                        then Some (tl, (set_q_drank q2 (N.sub c ch_1)))
                        else None
                   else Some (r2, q2)
               in
               (match st3 with
                | Some p0 ->
                  let (r3, q3) = p0 in
                  let st4 =
                    match r3 with
                    | [] -> Some (r3, q3)
                    | c :: tl ->
                      if is_ascii_lower c
                      then if (&&) (N.leb ch_a c) (N.leb c ch_h)
                           then Some (tl, (set_q_dfile q3 (N.sub c ch_a)))
                           else None
                      else Some (r3, q3)
                  in
                  (match st4 with
                   | Some p1 ->
                     let (r4, q4) = p1 in
                     (match r4 with
                      | [] ->
                        let st6 =
                          match r4 with
                          | [] -> Some (r4, q4)
                          | c :: tl ->
                            if is_ascii_digit c
                            then if (&&) (N.leb ch_1 c) (N.leb c ch_8)
                                 then Some (tl,
                                        (set_q_orank q4 (N.sub c ch_1)))
                                 else None
                            else Some (r4, q4)
                        in
                        (match st6 with
                         | Some p2 ->
                           let (r6, q6) = p2 in
                           let st7 =
                             match r6 with
                             | [] -> Some (r6, q6)
                             | c :: tl ->
                               if is_ascii_lower c
                               then if (&&) (N.leb ch_a c) (N.leb c ch_h)
                                    then Some (tl,
                                           (set_q_ofile q6 (N.sub c ch_a)))
                                    else None
                               else Some (r6, q6)
                           in
                           (match st7 with
                            | Some p3 ->
                              let (r7, q7) = p3 in
                              let st8 =
                                match r7 with
                                | [] -> Some (r7, q7)
                                | c :: tl ->
                                  if is_ascii_upper c
                                  then (match piece_of_letter c with
                                        | Some p4 ->
                                          Some (tl, (set_q_piece q7 p4))
                                        | None -> None)
                                  else Some (r7, q7)
                              in
                              (match st8 with
                               | Some p4 ->
                                 let (r8, q8) = p4 in
                                 (match r8 with
                                  | [] ->
                                    Some
                                      (match q8.q_piece with
                                       | Some _ -> q8
                                       | None -> set_q_piece q8 Pawn)
                                  | _ :: _ -> None)
                               | None -> None)
                            | None -> None)
                         | None -> None)
                      | c :: tl ->
                        if N.eqb c ch_x
                        then let q5 = set_q_capture q4 true in
                             let st6 =
                               match tl with
                               | [] -> Some (tl, q5)
                               | c0 :: tl0 ->
                                 if is_ascii_digit c0
                                 then if (&&) (N.leb ch_1 c0) (N.leb c0 ch_8)
                                      then Some (tl0,
                                             (set_q_orank q5 (N.sub c0 ch_1)))
                                      else None
                                 else Some (tl, q5)
                             in
                             (match st6 with
                              | Some p2 ->
                                let (r6, q6) = p2 in
                                let st7 =
                                  match r6 with
                                  | [] -> Some (r6, q6)
                                  | c0 :: tl0 ->
                                    if is_ascii_lower c0
                                    then if (&&) (N.leb ch_a c0)
                                              (N.leb c0 ch_h)
                                         then Some (tl0,
                                                (set_q_ofile q6
                                                  (N.sub c0 ch_a)))
                                         else None
                                    else Some (r6, q6)
                                in
                                (match st7 with
                                 | Some p3 ->
                                   let (r7, q7) = p3 in
                                   let st8 =
                                     match r7 with
                                     | [] -> Some (r7, q7)
                                     | c0 :: tl0 ->
                                       if is_ascii_upper c0
                                       then (match piece_of_letter c0 with
                                             | Some p4 ->
                                               Some (tl0, (set_q_piece q7 p4))
                                             | None -> None)
                                       else Some (r7, q7)
                                   in
                                   (match st8 with
                                    | Some p4 ->
                                      let (r8, q8) = p4 in
                                      (match r8 with
                                       | [] ->
                                         Some
                                           (match q8.q_piece with
                                            | Some _ -> q8
                                            | None -> set_q_piece q8 Pawn)
                                       | _ :: _ -> None)
                                    | None -> None)
                                 | None -> None)
                              | None -> None)
                        else let st6 =
                               match r4 with
                               | [] -> Some (r4, q4)
                               | c0 :: tl0 ->
                                 if is_ascii_digit c0
                                 then if (&&) (N.leb ch_1 c0) (N.leb c0 ch_8)
                                      then Some (tl0,
                                             (set_q_orank q4 (N.sub c0 ch_1)))
                                      else None
                                 else Some (r4, q4)
                             in
                             (match st6 with
                              | Some p2 ->
                                let (r6, q6) = p2 in
                                let st7 =
                                  match r6 with
                                  | [] -> Some (r6, q6)
                                  | c0 :: tl0 ->
                                    if is_ascii_lower c0
                                    then if (&&) (N.leb ch_a c0)
                                              (N.leb c0 ch_h)
                                         then Some (tl0,
                                                (set_q_ofile q6
                                                  (N.sub c0 ch_a)))
                                         else None
                                    else Some (r6, q6)
                                in
                                (match st7 with
                                 | Some p3 ->
                                   let (r7, q7) = p3 in
                                   let st8 =
                                     match r7 with
                                     | [] -> Some (r7, q7)
                                     | c0 :: tl0 ->
                                       if is_ascii_upper c0
                                       then (match piece_of_letter c0 with
                                             | Some p4 ->
                                               Some (tl0, (set_q_piece q7 p4))
                                             | None -> None)
                                       else Some (r7, q7)
                                   in
                                   (match st8 with
                                    | Some p4 ->
                                      let (r8, q8) = p4 in
                                      (match r8 with
                                       | [] ->
                                         Some
                                           (match q8.q_piece with
                                            | Some _ -> q8
                                            | None -> set_q_piece q8 Pawn)
                                       | _ :: _ -> None)
                                    | None -> None)
                                 | None -> None)
                              | None -> None))
                   | None -> None)
                | None -> None)
             | None -> None)

(** val lan_write : coq_N -> text **)

let lan_write m =
  app (square_text (m_origin m))
    (app (square_text (m_dest m))
      (match m_promotion m with
       | Some p -> (to_lower (piece_letter p)) :: []
       | None -> []))

(** val peg_write : coq_N -> text **)

let peg_write m =
  if (||) (m_castle_q m) (m_castle_k m)
  then app (ch_O :: (ch_dash :: (ch_O :: [])))
         (if m_is_castle m false then ch_dash :: (ch_O :: []) else [])
  else app
         (if piece_eqb (m_piece m) Pawn
          then []
          else (piece_letter (m_piece m)) :: [])
         (app
           (if m_is_capture m
            then app
                   (if piece_eqb (m_piece m) Pawn
                    then (file_char (file_of (m_origin m))) :: []
                    else []) (ch_x :: [])
            else [])
           (app (square_text (m_dest m))
             (match m_promotion m with
              | Some p -> ch_eq :: ((piece_letter p) :: [])
              | None -> [])))

(** val take_bytes : text -> coq_N -> nat -> (text * text) option **)

let rec take_bytes l n = function
| O -> None
| S k ->
  if N.eqb n N0
  then Some ([], l)
  else (match l with
        | [] -> None
        | c :: tl ->
          if N.ltb n (utf8_len c)
          then None
          else (match take_bytes tl (N.sub n (utf8_len c)) k with
                | Some p -> let (a, b) = p in Some ((c :: a), b)
                | None -> None))

(** val uci_move_query : text -> mquery result **)

let uci_move_query tok =
  match take_bytes tok (Npos (Coq_xO Coq_xH)) (S (S (S O))) with
  | Some p ->
    let (o, rest) = p in
    (match parse_square o with
     | Some osq ->
       (match take_bytes rest (Npos (Coq_xO Coq_xH)) (S (S (S O))) with
        | Some p0 ->
          let (d, _) = p0 in
          (match parse_square d with
           | Some dsq ->
             let q =
               set_q_dfile
                 (set_q_drank
                   (set_q_ofile (set_q_orank q_empty (rank_of osq))
                     (file_of osq)) (rank_of dsq)) (file_of dsq)
             in
             (match nth_error tok (S (S (S (S O)))) with
              | Some p1 ->
                if N.eqb p1 ch_q
                then Ok (set_q_promotion q Queen)
                else if N.eqb p1 ch_r
                     then Ok (set_q_promotion q Rook)
                     else if N.eqb p1 ch_b
                          then Ok (set_q_promotion q Bishop)
                          else if N.eqb p1 ch_n
                               then Ok (set_q_promotion q Knight)
                               else Err
              | None -> Ok q)
           | None -> Err)
        | None -> Err)
     | None -> Err)
  | None -> Err
