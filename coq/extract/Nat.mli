open Datatypes

val add : nat -> nat -> nat
