(* Extraction of the executable model and specification to OCaml.  Only ExtrOcamlBasic's directives
   are in effect; nat, positive, N, Z stay the extracted Coq datatypes. *)
From WV Require Import Abs FenSpec Table Eval SanSpec Search Conc Uci Book GameValue.
Require Extraction.
Require ExtrOcamlBasic.
Extraction Language OCaml.
Set Extraction KeepSingleton.

Separate Extraction
  Bits.shift Bits.iter_ones Bits.offset Bits.first_one Bits.last_one Bits.count_ones
  Attacks.rook_attacks Attacks.bishop_attacks Attacks.queen_attacks Attacks.knight_attacks
  Attacks.king_attacks Attacks.pawn_attacks Attacks.walk_dirs Attacks.rook_dirs Attacks.bishop_dirs
  Attacks.blockers_from_index Attacks.rook_slide_masks Attacks.bishop_slide_masks Attacks.pattern
  Board.colored_attacks Board.colored_pawn_attacks Board.board_is_check Board.is_check Board.piece_at
  Board.attack_map Board.fresh Board.attack_map_pure
  MoveEnc.by_moving MoveEnc.by_capturing MoveEnc.by_promoting MoveEnc.by_capture_promoting
  MoveEnc.by_en_passant MoveEnc.by_castling MoveEnc.m_piece MoveEnc.m_origin MoveEnc.m_dest
  MoveEnc.m_capture MoveEnc.m_promotion MoveEnc.m_is_ep MoveEnc.m_is_double MoveEnc.m_castle_side
  MoveEnc.m_color MoveEnc.qtest MoveEnc.m_decodes
  MoveGen.apply_move MoveGen.pseudo_legal MoveGen.gen_legal MoveGen.perft MoveGen.resolve MoveGen.gen_panics
  Text.hash Text.hasher_of_stream Text.fen_write Text.fen_read Text.ep_capturable
  Notation.san_parse Notation.lan_write Notation.peg_write Notation.uci_move_query
  Rules.legal_moves Rules.apply Rules.perft Rules.king_attacked Rules.attacked Rules.legal_pos
  Rules.checkmate Rules.stalemate Rules.attacks_from Rules.pseudo_legal Rules.legal
  Abs.abs Abs.absm FenSpec.write
  GameValue.win GameValue.loss GameValue.keeps
  Book.game_entries Book.build Book.lookup Book.clean_tokens
  Uci.step Uci.run Uci.collect Uci.fresh Uci.tokens
  Search.analyze_iterative Search.analyze Search.quiesce Search.iter_moves
  Conc.analyze_iterativeM Conc.run_workers Conc.analyzeP
  SanSpec.spellings SanSpec.long_form SanSpec.illegal_pseudo_moves
  Eval.evaluate Eval.estimate Eval.heuristic Eval.mate_in_ply Eval.is_terminal
  Table.acc_find Table.acc_insert Table.acc_entries Table.acc_max_entries Table.empty_access Table.acc_run Table.spec_find Table.spec_step
  BinNat.N.of_nat BinNat.N.to_nat.
