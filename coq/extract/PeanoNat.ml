open Datatypes

module Nat =
 struct
  (** val eqb : nat -> nat -> bool **)

  let rec eqb n m =
    match n with
    | O -> (match m with
            | O -> true
            | S _ -> false)
    | S n' -> (match m with
               | O -> false
               | S m' -> eqb n' m')

  (** val leb : nat -> nat -> bool **)

  let rec leb n m =
    match n with
    | O -> true
    | S n' -> (match m with
               | O -> false
               | S m' -> leb n' m')
 end
