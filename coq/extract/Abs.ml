open BinNums
open Board
open MoveEnc
open Rules

(** val abs : state -> pos **)

let abs s =
  { p_at = (piece_at s.st_board); p_turn = s.st_turn; p_right =
    (castle_right s); p_ep = s.st_ep; p_half = s.st_half; p_full = s.st_full }

(** val absm : coq_N -> move **)

let absm m =
  { mv_from = (m_origin m); mv_to = (m_dest m); mv_promo = (m_promotion m) }
