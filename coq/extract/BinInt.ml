open BinNums
open BinPos
open Datatypes

module Z =
 struct
  (** val double : coq_Z -> coq_Z **)

  let double = function
  | Z0 -> Z0
  | Zpos p -> Zpos (Coq_xO p)
  | Zneg p -> Zneg (Coq_xO p)

  (** val succ_double : coq_Z -> coq_Z **)

  let succ_double = function
  | Z0 -> Zpos Coq_xH
  | Zpos p -> Zpos (Coq_xI p)
  | Zneg p -> Zneg (Pos.pred_double p)

  (** val pred_double : coq_Z -> coq_Z **)

  let pred_double = function
  | Z0 -> Zneg Coq_xH
  | Zpos p -> Zpos (Pos.pred_double p)
  | Zneg p -> Zneg (Coq_xI p)

  (** val pos_sub : positive -> positive -> coq_Z **)

  let rec pos_sub x y =
    match x with
    | Coq_xI p ->
      (match y with
       | Coq_xI q -> double (pos_sub p q)
       | Coq_xO q -> succ_double (pos_sub p q)
       | Coq_xH -> Zpos (Coq_xO p))
    | Coq_xO p ->
      (match y with
       | Coq_xI q -> pred_double (pos_sub p q)
       | Coq_xO q -> double (pos_sub p q)
       | Coq_xH -> Zpos (Pos.pred_double p))
    | Coq_xH ->
      (match y with
       | Coq_xI q -> Zneg (Coq_xO q)
       | Coq_xO q -> Zneg (Pos.pred_double q)
       | Coq_xH -> Z0)

  (** val add : coq_Z -> coq_Z -> coq_Z **)

  let add x y =
    match x with
    | Z0 -> y
    | Zpos x' ->
      (match y with
       | Z0 -> x
       | Zpos y' -> Zpos (Pos.add x' y')
       | Zneg y' -> pos_sub x' y')
    | Zneg x' ->
      (match y with
       | Z0 -> x
       | Zpos y' -> pos_sub y' x'
       | Zneg y' -> Zneg (Pos.add x' y'))

  (** val opp : coq_Z -> coq_Z **)

  let opp = function
  | Z0 -> Z0
  | Zpos x0 -> Zneg x0
  | Zneg x0 -> Zpos x0

  (** val sub : coq_Z -> coq_Z -> coq_Z **)

  let sub m n =
    add m (opp n)

  (** val mul : coq_Z -> coq_Z -> coq_Z **)

  let mul x y =
    match x with
    | Z0 -> Z0
    | Zpos x' ->
      (match y with
       | Z0 -> Z0
       | Zpos y' -> Zpos (Pos.mul x' y')
       | Zneg y' -> Zneg (Pos.mul x' y'))
    | Zneg x' ->
      (match y with
       | Z0 -> Z0
       | Zpos y' -> Zneg (Pos.mul x' y')
       | Zneg y' -> Zpos (Pos.mul x' y'))

  (** val compare : coq_Z -> coq_Z -> comparison **)

  let compare x y =
    match x with
    | Z0 -> (match y with
             | Z0 -> Eq
             | Zpos _ -> Lt
             | Zneg _ -> Gt)
    | Zpos x' -> (match y with
                  | Zpos y' -> Pos.compare x' y'
                  | _ -> Gt)
    | Zneg x' ->
      (match y with
       | Zneg y' -> coq_CompOpp (Pos.compare x' y')
       | _ -> Lt)

  (** val sgn : coq_Z -> coq_Z **)

  let sgn = function
  | Z0 -> Z0
  | Zpos _ -> Zpos Coq_xH
  | Zneg _ -> Zneg Coq_xH

  (** val leb : coq_Z -> coq_Z -> bool **)

  let leb x y =
    match compare x y with
    | Gt -> false
    | _ -> true

  (** val ltb : coq_Z -> coq_Z -> bool **)

  let ltb x y =
    match compare x y with
    | Lt -> true
    | _ -> false

  (** val eqb : coq_Z -> coq_Z -> bool **)

  let eqb x y =
    match x with
    | Z0 -> (match y with
             | Z0 -> true
             | _ -> false)
    | Zpos p -> (match y with
                 | Zpos q -> Pos.eqb p q
                 | _ -> false)
    | Zneg p -> (match y with
                 | Zneg q -> Pos.eqb p q
                 | _ -> false)

  (** val max : coq_Z -> coq_Z -> coq_Z **)

  let max n m =
    match compare n m with
    | Lt -> m
    | _ -> n

  (** val abs : coq_Z -> coq_Z **)

  let abs = function
  | Zneg p -> Zpos p
  | x -> x

  (** val to_nat : coq_Z -> nat **)

  let to_nat = function
  | Zpos p -> Pos.to_nat p
  | _ -> O

  (** val to_N : coq_Z -> coq_N **)

  let to_N = function
  | Zpos p -> Npos p
  | _ -> N0

  (** val of_N : coq_N -> coq_Z **)

  let of_N = function
  | N0 -> Z0
  | Npos p -> Zpos p
 end
