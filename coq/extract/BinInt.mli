open BinNums
open BinPos
open Datatypes

module Z :
 sig
  val double : coq_Z -> coq_Z

  val succ_double : coq_Z -> coq_Z

  val pred_double : coq_Z -> coq_Z

  val pos_sub : positive -> positive -> coq_Z

  val add : coq_Z -> coq_Z -> coq_Z

  val opp : coq_Z -> coq_Z

  val sub : coq_Z -> coq_Z -> coq_Z

  val mul : coq_Z -> coq_Z -> coq_Z

  val compare : coq_Z -> coq_Z -> comparison

  val sgn : coq_Z -> coq_Z

  val leb : coq_Z -> coq_Z -> bool

  val ltb : coq_Z -> coq_Z -> bool

  val eqb : coq_Z -> coq_Z -> bool

  val max : coq_Z -> coq_Z -> coq_Z

  val abs : coq_Z -> coq_Z

  val to_nat : coq_Z -> nat

  val to_N : coq_Z -> coq_N

  val of_N : coq_N -> coq_Z
 end
