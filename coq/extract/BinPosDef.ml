open BinNums

module Pos =
 struct
  type mask =
  | IsNul
  | IsPos of positive
  | IsNeg
 end
