open Attacks
open BinNat
open BinNums
open Bits
open List
open Types

(** val all_pieces : piece list **)

let all_pieces =
  Pawn :: (Knight :: (Bishop :: (Rook :: (Queen :: (King :: [])))))

(** val all_colors : color list **)

let all_colors =
  White :: (Black :: [])

type board = { wP : coq_N; wN : coq_N; wB : coq_N; wR : coq_N; wQ : coq_N;
               wK : coq_N; bP : coq_N; bN : coq_N; bB : coq_N; bR : coq_N;
               bQ : coq_N; bK : coq_N }

(** val empty_board : board **)

let empty_board =
  { wP = N0; wN = N0; wB = N0; wR = N0; wQ = N0; wK = N0; bP = N0; bN = N0;
    bB = N0; bR = N0; bQ = N0; bK = N0 }

(** val pocc : board -> color -> piece -> coq_N **)

let pocc b c p =
  match c with
  | White ->
    (match p with
     | PNone -> N0
     | Pawn -> b.wP
     | Knight -> b.wN
     | Bishop -> b.wB
     | Rook -> b.wR
     | Queen -> b.wQ
     | King -> b.wK)
  | Black ->
    (match p with
     | PNone -> N0
     | Pawn -> b.bP
     | Knight -> b.bN
     | Bishop -> b.bB
     | Rook -> b.bR
     | Queen -> b.bQ
     | King -> b.bK)

(** val pset : board -> color -> piece -> coq_N -> board **)

let pset b c p v =
  match c with
  | White ->
    (match p with
     | PNone -> b
     | Pawn ->
       { wP = v; wN = b.wN; wB = b.wB; wR = b.wR; wQ = b.wQ; wK = b.wK; bP =
         b.bP; bN = b.bN; bB = b.bB; bR = b.bR; bQ = b.bQ; bK = b.bK }
     | Knight ->
       { wP = b.wP; wN = v; wB = b.wB; wR = b.wR; wQ = b.wQ; wK = b.wK; bP =
         b.bP; bN = b.bN; bB = b.bB; bR = b.bR; bQ = b.bQ; bK = b.bK }
     | Bishop ->
       { wP = b.wP; wN = b.wN; wB = v; wR = b.wR; wQ = b.wQ; wK = b.wK; bP =
         b.bP; bN = b.bN; bB = b.bB; bR = b.bR; bQ = b.bQ; bK = b.bK }
     | Rook ->
       { wP = b.wP; wN = b.wN; wB = b.wB; wR = v; wQ = b.wQ; wK = b.wK; bP =
         b.bP; bN = b.bN; bB = b.bB; bR = b.bR; bQ = b.bQ; bK = b.bK }
     | Queen ->
       { wP = b.wP; wN = b.wN; wB = b.wB; wR = b.wR; wQ = v; wK = b.wK; bP =
         b.bP; bN = b.bN; bB = b.bB; bR = b.bR; bQ = b.bQ; bK = b.bK }
     | King ->
       { wP = b.wP; wN = b.wN; wB = b.wB; wR = b.wR; wQ = b.wQ; wK = v; bP =
         b.bP; bN = b.bN; bB = b.bB; bR = b.bR; bQ = b.bQ; bK = b.bK })
  | Black ->
    (match p with
     | PNone -> b
     | Pawn ->
       { wP = b.wP; wN = b.wN; wB = b.wB; wR = b.wR; wQ = b.wQ; wK = b.wK;
         bP = v; bN = b.bN; bB = b.bB; bR = b.bR; bQ = b.bQ; bK = b.bK }
     | Knight ->
       { wP = b.wP; wN = b.wN; wB = b.wB; wR = b.wR; wQ = b.wQ; wK = b.wK;
         bP = b.bP; bN = v; bB = b.bB; bR = b.bR; bQ = b.bQ; bK = b.bK }
     | Bishop ->
       { wP = b.wP; wN = b.wN; wB = b.wB; wR = b.wR; wQ = b.wQ; wK = b.wK;
         bP = b.bP; bN = b.bN; bB = v; bR = b.bR; bQ = b.bQ; bK = b.bK }
     | Rook ->
       { wP = b.wP; wN = b.wN; wB = b.wB; wR = b.wR; wQ = b.wQ; wK = b.wK;
         bP = b.bP; bN = b.bN; bB = b.bB; bR = v; bQ = b.bQ; bK = b.bK }
     | Queen ->
       { wP = b.wP; wN = b.wN; wB = b.wB; wR = b.wR; wQ = b.wQ; wK = b.wK;
         bP = b.bP; bN = b.bN; bB = b.bB; bR = b.bR; bQ = v; bK = b.bK }
     | King ->
       { wP = b.wP; wN = b.wN; wB = b.wB; wR = b.wR; wQ = b.wQ; wK = b.wK;
         bP = b.bP; bN = b.bN; bB = b.bB; bR = b.bR; bQ = b.bQ; bK = v })

(** val pset_bit : board -> color -> piece -> coq_N -> bool -> board **)

let pset_bit b c p s v =
  pset b c p (setb (pocc b c p) s v)

(** val colored_occ : board -> color -> coq_N **)

let colored_occ b c =
  fold_left (fun acc p -> N.coq_lor acc (pocc b c p)) all_pieces N0

(** val occupancy : board -> coq_N **)

let occupancy b =
  N.coq_lor (colored_occ b White) (colored_occ b Black)

(** val vacancy : board -> coq_N **)

let vacancy b =
  lnot64 (occupancy b)

(** val piece_at : board -> coq_N -> (color * piece) option **)

let piece_at b s =
  let find0 = fun c -> find (fun p -> test (pocc b c p) s) all_pieces in
  (match find0 White with
   | Some p -> Some (White, p)
   | None -> (match find0 Black with
              | Some p -> Some (Black, p)
              | None -> None))

(** val piece_attacks : color -> piece -> coq_N -> coq_N -> coq_N **)

let piece_attacks c p s occ =
  match p with
  | PNone -> N0
  | Pawn -> pawn_attacks (is_white c) s
  | Knight -> knight_attacks s
  | Bishop -> bishop_attacks s occ
  | Rook -> rook_attacks s occ
  | Queen -> queen_attacks s occ
  | King -> king_attacks s

(** val attacks_of_kind : board -> color -> piece -> coq_N **)

let attacks_of_kind b c p =
  fold_left (fun acc s -> N.coq_lor acc (piece_attacks c p s (occupancy b)))
    (iter_ones (pocc b c p)) N0

(** val colored_attacks : board -> color -> coq_N **)

let colored_attacks b c =
  N.coq_land
    (fold_left (fun acc p -> N.coq_lor acc (attacks_of_kind b c p))
      all_pieces N0) (lnot64 (colored_occ b c))

(** val colored_pawn_attacks : board -> color -> coq_N **)

let colored_pawn_attacks b c =
  N.coq_land (attacks_of_kind b c Pawn) (lnot64 (colored_occ b c))

(** val board_is_check : board -> color -> bool **)

let board_is_check b c =
  any (N.coq_land (pocc b c King) (colored_attacks b (opp c)))

type state = { st_board : board; st_turn : color; st_wk : bool; st_wq : 
               bool; st_bk : bool; st_bq : bool; st_ep : coq_N option;
               st_half : coq_N; st_full : coq_N }

(** val is_check : state -> bool **)

let is_check s =
  board_is_check s.st_board s.st_turn

(** val castle_right : state -> color -> bool -> bool **)

let castle_right s c kingside =
  match c with
  | White -> if kingside then s.st_wk else s.st_wq
  | Black -> if kingside then s.st_bk else s.st_bq

type cboard = { cb_board : board; cb_white : (coq_N * coq_N) option;
                cb_black : (coq_N * coq_N) option }

(** val fresh : board -> cboard **)

let fresh b =
  { cb_board = b; cb_white = None; cb_black = None }

(** val attack_map_pure : board -> color -> coq_N * coq_N **)

let attack_map_pure b c =
  ((colored_attacks b c), (colored_pawn_attacks b c))

(** val attack_map : cboard -> color -> (coq_N * coq_N) * cboard **)

let attack_map cb = function
| White ->
  (match cb.cb_white with
   | Some m -> (m, cb)
   | None ->
     let m = attack_map_pure cb.cb_board White in
     (m, { cb_board = cb.cb_board; cb_white = (Some m); cb_black =
     cb.cb_black }))
| Black ->
  (match cb.cb_black with
   | Some m -> (m, cb)
   | None ->
     let m = attack_map_pure cb.cb_board Black in
     (m, { cb_board = cb.cb_board; cb_white = cb.cb_white; cb_black = (Some
     m) }))
