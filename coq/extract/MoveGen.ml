open Attacks
open BinNat
open BinNums
open Bits
open Board
open Consts
open Datatypes
open List
open MoveEnc
open Nat
open Types

(** val forward_dr : color -> coq_Z **)

let forward_dr = function
| White -> Zpos Coq_xH
| Black -> Zneg Coq_xH

(** val backward_dr : color -> coq_Z **)

let backward_dr = function
| White -> Zneg Coq_xH
| Black -> Zpos Coq_xH

(** val own_backrank_mask : color -> coq_N **)

let own_backrank_mask = function
| White -> rank_mask (Npos (Coq_xI (Coq_xI Coq_xH)))
| Black -> rank_mask N0

(** val own_pawn_home_mask : color -> coq_N **)

let own_pawn_home_mask = function
| White -> rank_mask (Npos Coq_xH)
| Black -> rank_mask (Npos (Coq_xO (Coq_xI Coq_xH)))

(** val sat_add1 : coq_N -> coq_N **)

let sat_add1 n =
  if N.eqb n mask64 then n else N.add n (Npos Coq_xH)

(** val apply_move : state -> coq_N -> state option **)

let apply_move s m =
  let b = s.st_board in
  let c = s.st_turn in
  let o = opp c in
  let p = m_piece m in
  let b1 = pset_bit (pset_bit b c p (m_origin m) false) c p (m_dest m) true in
  let b2 =
    if m_is_ep m
    then (match s.st_ep with
          | Some t ->
            (match offset t Z0 (backward_dr c) with
             | Some cs -> Some (pset_bit b1 o Pawn cs false)
             | None -> None)
          | None -> None)
    else (match m_capture m with
          | Some cap -> Some (pset_bit b1 o cap (m_dest m) false)
          | None -> Some b1)
  in
  (match b2 with
   | Some b3 ->
     let b4 =
       match m_promotion m with
       | Some pr ->
         pset_bit (pset_bit b3 c p (m_dest m) false) c pr (m_dest m) true
       | None -> b3
     in
     let r = rank_of (m_origin m) in
     let b5 =
       if m_is_castle m true
       then pset_bit
              (pset_bit b4 c Rook
                (mk_square r (Npos (Coq_xI (Coq_xI Coq_xH)))) false) c Rook
              (mk_square r (Npos (Coq_xI (Coq_xO Coq_xH)))) true
       else if m_is_castle m false
            then pset_bit (pset_bit b4 c Rook (mk_square r N0) false) c Rook
                   (mk_square r (Npos (Coq_xI Coq_xH))) true
            else b4
     in
     let kingmove = piece_eqb p King in
     let wk0 = if (&&) kingmove (is_white c) then false else s.st_wk in
     let wq0 = if (&&) kingmove (is_white c) then false else s.st_wq in
     let bk0 = if (&&) kingmove (negb (is_white c)) then false else s.st_bk in
     let bq0 = if (&&) kingmove (negb (is_white c)) then false else s.st_bq in
     Some { st_board = b5; st_turn = o; st_wk =
     ((&&) wk0 (test (pocc b5 White Rook) (Npos (Coq_xI (Coq_xI Coq_xH)))));
     st_wq = ((&&) wq0 (test (pocc b5 White Rook) N0)); st_bk =
     ((&&) bk0
       (test (pocc b5 Black Rook) (Npos (Coq_xI (Coq_xI (Coq_xI (Coq_xI
         (Coq_xI Coq_xH)))))))); st_bq =
     ((&&) bq0
       (test (pocc b5 Black Rook) (Npos (Coq_xO (Coq_xO (Coq_xO (Coq_xI
         (Coq_xI Coq_xH)))))))); st_ep =
     (if m_is_double m then offset (m_dest m) Z0 (backward_dr c) else None);
     st_half =
     (if (||) (m_is_capture m) (piece_eqb p Pawn)
      then N0
      else sat_add1 s.st_half); st_full =
     (match c with
      | White -> s.st_full
      | Black -> sat_add1 s.st_full) }
   | None -> None)

(** val unwrap_sq : coq_N option -> coq_N **)

let unwrap_sq = function
| Some s -> s
| None -> N0

(** val cap_kind : board -> coq_N -> piece **)

let cap_kind b t =
  match piece_at b t with
  | Some p0 -> let (_, p) = p0 in p
  | None -> PNone

(** val pawn_moves : state -> coq_N list **)

let pawn_moves s =
  let b = s.st_board in
  let c = s.st_turn in
  let pawns = pocc b c Pawn in
  let fwd = forward_dr c in
  let bwd = backward_dr c in
  let opp_pieces = colored_occ b (opp c) in
  let positions = N.coq_land (shift pawns Z0 fwd) (vacancy b) in
  let promo_pos = N.coq_land positions (own_backrank_mask c) in
  let nonpromo_pos = N.coq_land positions (lnot64 (own_backrank_mask c)) in
  let pushes =
    map (fun t -> by_moving c Pawn (unwrap_sq (offset t Z0 bwd)) t)
      (iter_ones nonpromo_pos)
  in
  let promos =
    flat_map (fun t ->
      map (fun pr ->
        by_promoting c Pawn (unwrap_sq (offset t Z0 bwd)) t
          (match piece_of_N pr with
           | Some q -> q
           | None -> PNone)) promotion_types) (iter_ones promo_pos)
  in
  let home = N.coq_land pawns (own_pawn_home_mask c) in
  let step = fun x -> N.coq_land (shift x Z0 fwd) (vacancy b) in
  let dbl_pos = step (step home) in
  let doubles =
    map (fun t ->
      by_moving c Pawn
        (unwrap_sq (offset (unwrap_sq (offset t Z0 bwd)) Z0 bwd)) t)
      (iter_ones dbl_pos)
  in
  let captures = fun fo inv ->
    let attacks = shift (shift pawns Z0 fwd) fo Z0 in
    let with_promo =
      N.coq_land (N.coq_land attacks (own_backrank_mask c)) opp_pieces
    in
    let without_promo =
      N.coq_land (N.coq_land attacks (lnot64 (own_backrank_mask c)))
        opp_pieces
    in
    let with_ep =
      N.coq_land attacks (match s.st_ep with
                          | Some t -> just t
                          | None -> N0)
    in
    app
      (map (fun t ->
        by_capturing c Pawn (unwrap_sq (offset t inv bwd)) t (cap_kind b t))
        (iter_ones without_promo))
      (app
        (flat_map (fun t ->
          map (fun pr ->
            by_capture_promoting c Pawn (unwrap_sq (offset t inv bwd)) t
              (cap_kind b t)
              (match piece_of_N pr with
               | Some q -> q
               | None -> PNone)) promotion_types) (iter_ones with_promo))
        (match first_one with_ep with
         | Some t ->
           (by_en_passant c Pawn (unwrap_sq (offset t inv bwd)) t) :: []
         | None -> []))
  in
  app pushes
    (app promos
      (app doubles
        (app (captures (Zpos Coq_xH) (Zneg Coq_xH))
          (captures (Zneg Coq_xH) (Zpos Coq_xH)))))

(** val expand_moves : state -> coq_N -> coq_N -> piece -> coq_N list **)

let expand_moves s origin dests p =
  let b = s.st_board in
  let c = s.st_turn in
  map (fun t ->
    match piece_at b t with
    | Some p0 -> let (_, cap) = p0 in by_capturing c p origin t cap
    | None -> by_moving c p origin t) (iter_ones dests)

(** val knight_moves : state -> coq_N list **)

let knight_moves s =
  let b = s.st_board in
  let c = s.st_turn in
  flat_map (fun o ->
    expand_moves s o
      (N.coq_land (knight_attacks o)
        (N.coq_lor (colored_occ b (opp c)) (vacancy b))) Knight)
    (iter_ones (pocc b c Knight))

(** val castle_mask : coq_N list -> bool -> color -> coq_N **)

let castle_mask tbl kingside c =
  nth (add (if kingside then O else S (S O)) (if is_white c then O else S O))
    tbl N0

(** val king_moves : state -> coq_N list **)

let king_moves s =
  let b = s.st_board in
  let c = s.st_turn in
  let opp_att = colored_attacks b (opp c) in
  app
    (flat_map (fun o ->
      expand_moves s o
        (N.coq_land
          (N.coq_land (king_attacks o)
            (N.coq_lor (colored_occ b (opp c)) (vacancy b))) (lnot64 opp_att))
        King) (iter_ones (pocc b c King)))
    (flat_map (fun kingside ->
      if castle_right s c kingside
      then if (&&)
                (none
                  (N.coq_land (occupancy b)
                    (castle_mask castle_path_masks kingside c)))
                (none
                  (N.coq_land opp_att
                    (castle_mask castle_check_masks kingside c)))
           then (by_castling c kingside) :: []
           else []
      else []) (true :: (false :: [])))

(** val slider_moves :
    state -> piece -> (coq_N -> coq_N -> coq_N) -> coq_N list **)

let slider_moves s p att =
  let b = s.st_board in
  let c = s.st_turn in
  flat_map (fun o ->
    expand_moves s o
      (N.coq_land (att o (occupancy b)) (lnot64 (colored_occ b c))) p)
    (iter_ones (pocc b c p))

(** val pseudo_legal : state -> coq_N list **)

let pseudo_legal s =
  app (pawn_moves s)
    (app (knight_moves s)
      (app (king_moves s)
        (app (slider_moves s Bishop bishop_attacks)
          (app (slider_moves s Rook rook_attacks)
            (slider_moves s Queen queen_attacks)))))

(** val try_as_legal : state -> coq_N -> (coq_N * state) option **)

let try_as_legal s m =
  match apply_move s m with
  | Some n ->
    if none
         (N.coq_land (pocc n.st_board s.st_turn King)
           (colored_attacks n.st_board n.st_turn))
    then Some (m, n)
    else None
  | None -> None

(** val gen_panics : state -> bool **)

let gen_panics s =
  existsb (fun m -> match apply_move s m with
                    | Some _ -> false
                    | None -> true) (pseudo_legal s)

(** val filter_map : ('a1 -> 'a2 option) -> 'a1 list -> 'a2 list **)

let rec filter_map f = function
| [] -> []
| x :: tl ->
  (match f x with
   | Some y -> y :: (filter_map f tl)
   | None -> filter_map f tl)

(** val gen_legal : state -> (coq_N * state) list **)

let gen_legal s =
  filter_map (try_as_legal s) (pseudo_legal s)

(** val perft : nat -> state -> coq_N **)

let rec perft d s =
  match d with
  | O -> N0
  | S k ->
    (match k with
     | O -> N.of_nat (length (gen_legal s))
     | S _ ->
       fold_left (fun acc ms -> N.add acc (perft k (snd ms))) (gen_legal s) N0)

type resolve_result =
| ROk of state
| RAmbiguous
| RUnknown
| RIllegalEp

(** val resolve : state -> mquery list -> resolve_result **)

let rec resolve s = function
| [] -> ROk s
| q :: tl ->
  (match filter (fun ms -> qtest q (fst ms)) (gen_legal s) with
   | [] -> RUnknown
   | ms :: l ->
     (match l with
      | [] ->
        (match apply_move s (fst ms) with
         | Some n -> resolve n tl
         | None -> RIllegalEp)
      | _ :: _ -> RAmbiguous))
