open BinNat
open BinNums
open Bits
open Consts
open Datatypes
open FMapPositive
open List

val nthN : 'a1 list -> coq_N -> 'a1 -> 'a1

val ray_squares_fuel : nat -> coq_N -> coq_Z -> coq_Z -> coq_N list

val ray_squares : coq_N -> (coq_Z * coq_Z) -> coq_N list

val bb_of_list : coq_N list -> coq_N

val ray_bb : coq_N -> (coq_Z * coq_Z) -> coq_N

val dirN : coq_Z * coq_Z

val dirS : coq_Z * coq_Z

val dirE : coq_Z * coq_Z

val dirW : coq_Z * coq_Z

val dirNE : coq_Z * coq_Z

val dirNW : coq_Z * coq_Z

val dirSE : coq_Z * coq_Z

val dirSW : coq_Z * coq_Z

val rank_mask : coq_N -> coq_N

val file_mask : coq_N -> coq_N

val rook_slide_mask : coq_N -> coq_N

val bishop_slide_mask : coq_N -> coq_N

val blockers_aux : coq_N -> coq_N list -> coq_N -> coq_N -> coq_N

val blockers_from_index : coq_N -> coq_N -> coq_N

val cut_ray : coq_N -> coq_N -> coq_N -> (coq_Z * coq_Z) -> bool -> coq_N

val rook_attacks_unopt : coq_N -> coq_N -> coq_N

val bishop_attacks_unopt : coq_N -> coq_N -> coq_N

val magic_index : coq_N -> coq_N -> coq_N -> coq_N -> coq_N

val tkey : coq_N -> coq_N -> positive

val fill_square :
  nat -> coq_N -> coq_N -> coq_N -> coq_N -> coq_N -> (coq_N -> coq_N ->
  coq_N) -> coq_N PositiveMap.t -> coq_N PositiveMap.t

val build_table :
  coq_N list -> coq_N list -> (coq_N -> coq_N) -> (coq_N -> coq_N -> coq_N)
  -> coq_N PositiveMap.t

val rook_table : coq_N PositiveMap.t

val bishop_table : coq_N PositiveMap.t

val table_get : coq_N PositiveMap.t -> coq_N -> coq_N -> coq_N

val rook_slide_masks : coq_N list

val bishop_slide_masks : coq_N list

val rook_attacks : coq_N -> coq_N -> coq_N

val bishop_attacks : coq_N -> coq_N -> coq_N

val queen_attacks : coq_N -> coq_N -> coq_N

val pattern : coq_N -> (coq_Z * coq_Z) list -> coq_N

val knight_table : coq_N list

val king_table : coq_N list

val white_pawn_table : coq_N list

val black_pawn_table : coq_N list

val knight_attacks : coq_N -> coq_N

val king_attacks : coq_N -> coq_N

val pawn_attacks : bool -> coq_N -> coq_N

val walk : coq_N -> coq_N list -> coq_N list

val walk_dirs : coq_N -> coq_N -> (coq_Z * coq_Z) list -> coq_N

val rook_dirs : (coq_Z * coq_Z) list

val bishop_dirs : (coq_Z * coq_Z) list
