open Attacks
open BinNat
open BinNums
open Bits
open Board
open Datatypes
open Decimal
open List
open PeanoNat
open Types

type text = coq_N list

type hasher = { k_turn : coq_N list; k_piece : coq_N list;
                k_castle : coq_N list; k_ep : coq_N list }

val hasher_of_stream : coq_N list -> hasher

val piece_index : color -> piece -> coq_N

val hash_pieces : hasher -> board -> coq_N

val ep_capturable : state -> coq_N option

val hash : hasher -> state -> coq_N

val ch_space : coq_N

val ch_slash : coq_N

val ch_dash : coq_N

val ch_pipe : coq_N

val ch_0 : coq_N

val ch_1 : coq_N

val ch_8 : coq_N

val ch_9 : coq_N

val ch_a : coq_N

val ch_h : coq_N

val ch_z : coq_N

val ch_A : coq_N

val ch_Z : coq_N

val ch_w : coq_N

val ch_b : coq_N

val ch_x : coq_N

val ch_eq : coq_N

val ch_plus : coq_N

val ch_hash : coq_N

val ch_O : coq_N

val ch_K : coq_N

val ch_Q : coq_N

val ch_R : coq_N

val ch_B : coq_N

val ch_N : coq_N

val ch_P : coq_N

val ch_k : coq_N

val ch_q : coq_N

val ch_r : coq_N

val ch_n : coq_N

val ch_p : coq_N

val is_ascii_digit : coq_N -> bool

val is_ascii_upper : coq_N -> bool

val is_ascii_lower : coq_N -> bool

val is_ws : coq_N -> bool

val piece_letter : piece -> coq_N

val to_lower : coq_N -> coq_N

val to_upper : coq_N -> coq_N

val file_char : coq_N -> coq_N

val rank_char : coq_N -> coq_N

val square_text : coq_N -> text

val uint_digits : uint -> text

val dec_of_N : coq_N -> text

val parse_dec_aux : text -> coq_N -> coq_N option

val parse_usize : text -> coq_N option

val piece_char : color -> piece -> coq_N

val fen_rank_aux : board -> coq_N -> coq_N list -> coq_N -> text

val files8 : coq_N list

val ranks_desc : coq_N list

val fen_board : board -> text

val fen_write : state -> text

type 'a result =
| Ok of 'a
| Err
| Panic of coq_N

val site_fen_cursor_inc : coq_N

val site_fen_square_index : coq_N

val split_on : (coq_N -> bool) -> text -> text -> text list

val fen_piece_of_char : coq_N -> (color * piece) option

val is_placement_char : coq_N -> bool

val gate_placement : text -> bool

val gate_turn : text -> bool

val gate_castle : text -> bool

val gate_ep : text -> bool

val parse_placement : text -> coq_N -> board -> board result

val parse_castle : text -> (((bool * bool) * bool) * bool) option

val utf8_len : coq_N -> coq_N

val byte_len : text -> coq_N

val parse_square : text -> coq_N option

val fen_read : text -> state result
