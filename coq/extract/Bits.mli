open BinInt
open BinNat
open BinNums
open Datatypes
open List

val mask64 : coq_N

val trunc64 : coq_N -> coq_N

val shl64 : coq_N -> coq_N -> coq_N

val shr64 : coq_N -> coq_N -> coq_N

val lnot64 : coq_N -> coq_N

val mul64 : coq_N -> coq_N -> coq_N

val just : coq_N -> coq_N

val test : coq_N -> coq_N -> bool

val setb : coq_N -> coq_N -> bool -> coq_N

val any : coq_N -> bool

val none : coq_N -> bool

val ctz_pos : positive -> coq_N

val first_one : coq_N -> coq_N option

val last_one : coq_N -> coq_N option

val ones_pos : positive -> coq_N -> coq_N list

val iter_ones : coq_N -> coq_N list

val count_ones : coq_N -> coq_N

val file_of : coq_N -> coq_N

val rank_of : coq_N -> coq_N

val mk_square : coq_N -> coq_N -> coq_N

val offset : coq_N -> coq_Z -> coq_Z -> coq_N option

val file_a : coq_N

val file_h : coq_N

val iter_n : nat -> ('a1 -> 'a1) -> 'a1 -> 'a1

val shift : coq_N -> coq_Z -> coq_Z -> coq_N

val squares : coq_N list
