open BinNums
open Board
open MoveEnc
open Rules

val abs : state -> pos

val absm : coq_N -> move
