open BinNat
open BinNums

type color =
| White
| Black

type piece =
| PNone
| Pawn
| Knight
| Bishop
| Rook
| Queen
| King

(** val opp : color -> color **)

let opp = function
| White -> Black
| Black -> White

(** val color_eqb : color -> color -> bool **)

let color_eqb a b =
  match a with
  | White -> (match b with
              | White -> true
              | Black -> false)
  | Black -> (match b with
              | White -> false
              | Black -> true)

(** val piece_to_N : piece -> coq_N **)

let piece_to_N = function
| PNone -> N0
| Pawn -> Npos Coq_xH
| Knight -> Npos (Coq_xO Coq_xH)
| Bishop -> Npos (Coq_xI Coq_xH)
| Rook -> Npos (Coq_xO (Coq_xO Coq_xH))
| Queen -> Npos (Coq_xI (Coq_xO Coq_xH))
| King -> Npos (Coq_xO (Coq_xI Coq_xH))

(** val piece_of_N : coq_N -> piece option **)

let piece_of_N = function
| N0 -> Some PNone
| Npos p ->
  (match p with
   | Coq_xI p0 ->
     (match p0 with
      | Coq_xI _ -> None
      | Coq_xO p1 -> (match p1 with
                      | Coq_xH -> Some Queen
                      | _ -> None)
      | Coq_xH -> Some Bishop)
   | Coq_xO p0 ->
     (match p0 with
      | Coq_xI p1 -> (match p1 with
                      | Coq_xH -> Some King
                      | _ -> None)
      | Coq_xO p1 -> (match p1 with
                      | Coq_xH -> Some Rook
                      | _ -> None)
      | Coq_xH -> Some Knight)
   | Coq_xH -> Some Pawn)

(** val piece_eqb : piece -> piece -> bool **)

let piece_eqb a b =
  N.eqb (piece_to_N a) (piece_to_N b)

(** val is_white : color -> bool **)

let is_white = function
| White -> true
| Black -> false
