open BinNat
open BinNums
open Bits
open Bool
open Consts
open Datatypes
open List
open Nat
open Types

(** val mask32 : coq_N **)

let mask32 =
  Npos (Coq_xI (Coq_xI (Coq_xI (Coq_xI (Coq_xI (Coq_xI (Coq_xI (Coq_xI
    (Coq_xI (Coq_xI (Coq_xI (Coq_xI (Coq_xI (Coq_xI (Coq_xI (Coq_xI (Coq_xI
    (Coq_xI (Coq_xI (Coq_xI (Coq_xI (Coq_xI (Coq_xI (Coq_xI (Coq_xI (Coq_xI
    (Coq_xI (Coq_xI (Coq_xI (Coq_xI (Coq_xI
    Coq_xH)))))))))))))))))))))))))))))))

(** val store : coq_N -> coq_N -> coq_N -> coq_N -> coq_N **)

let store data off mask value =
  N.coq_lor data (N.coq_land (N.coq_land (N.shiftl value off) mask32) mask)

(** val load : coq_N -> coq_N -> coq_N -> coq_N **)

let load data off mask =
  N.coq_land (N.shiftr (N.coq_land data mask) off) (Npos (Coq_xI (Coq_xI
    (Coq_xI (Coq_xI (Coq_xI (Coq_xI (Coq_xI Coq_xH))))))))

(** val bit : coq_N -> coq_N -> bool **)

let bit data b =
  negb (N.eqb (N.coq_land data (N.shiftl (Npos Coq_xH) b)) N0)

(** val set_bit : coq_N -> coq_N -> bool -> coq_N **)

let set_bit data b = function
| true -> N.coq_lor data (N.shiftl (Npos Coq_xH) b)
| false -> N.ldiff data (N.shiftl (Npos Coq_xH) b)

(** val opt_piece_to_N : piece option -> coq_N **)

let opt_piece_to_N = function
| Some q -> piece_to_N q
| None -> N0

(** val abs_dist : coq_N -> coq_N -> coq_N **)

let abs_dist a b =
  if N.ltb a b then N.sub b a else N.sub a b

(** val by_moving : color -> piece -> coq_N -> coq_N -> coq_N **)

let by_moving c p o d =
  let b0 = store N0 piece_offset piece_mask (piece_to_N p) in
  let b1 = store b0 origin_offset origin_mask o in
  let b2 = store b1 dest_offset dest_mask d in
  let b3 = set_bit b2 color_offset (is_white c) in
  if (&&) (piece_eqb p Pawn)
       (N.ltb (Npos Coq_xH) (abs_dist (rank_of o) (rank_of d)))
  then set_bit b3 double_pawn_offset true
  else b3

(** val set_capture : coq_N -> piece option -> coq_N **)

let set_capture m cap =
  store m capture_offset capture_mask (opt_piece_to_N cap)

(** val set_promotion : coq_N -> piece option -> coq_N **)

let set_promotion m pr =
  store m promotion_offset promotion_mask (opt_piece_to_N pr)

(** val by_capturing : color -> piece -> coq_N -> coq_N -> piece -> coq_N **)

let by_capturing c p o d cap =
  set_capture (by_moving c p o d) (Some cap)

(** val by_promoting : color -> piece -> coq_N -> coq_N -> piece -> coq_N **)

let by_promoting c p o d pr =
  set_promotion (by_moving c p o d) (Some pr)

(** val by_capture_promoting :
    color -> piece -> coq_N -> coq_N -> piece -> piece -> coq_N **)

let by_capture_promoting c p o d cap pr =
  set_promotion (set_capture (by_moving c p o d) (Some cap)) (Some pr)

(** val by_en_passant : color -> piece -> coq_N -> coq_N -> coq_N **)

let by_en_passant c p o d =
  set_capture (set_bit (by_moving c p o d) en_passant_offset true) (Some Pawn)

(** val king_origin : color -> coq_N **)

let king_origin c =
  nth (if is_white c then O else S O) king_origins N0

(** val castle_dest : color -> bool -> coq_N **)

let castle_dest c kingside =
  nth (add (if is_white c then O else S (S O)) (if kingside then O else S O))
    castle_dests N0

(** val by_castling : color -> bool -> coq_N **)

let by_castling c kingside =
  let m = by_moving c King (king_origin c) (castle_dest c kingside) in
  let m1 = set_bit m castle_queenside_offset (negb kingside) in
  set_bit m1 castle_kingside_offset kingside

(** val m_piece_raw : coq_N -> coq_N **)

let m_piece_raw m =
  load m piece_offset piece_mask

(** val m_piece : coq_N -> piece **)

let m_piece m =
  match piece_of_N (m_piece_raw m) with
  | Some p -> p
  | None -> PNone

(** val m_origin : coq_N -> coq_N **)

let m_origin m =
  load m origin_offset origin_mask

(** val m_dest : coq_N -> coq_N **)

let m_dest m =
  load m dest_offset dest_mask

(** val m_capture : coq_N -> piece option **)

let m_capture m =
  let c = load m capture_offset capture_mask in
  if N.eqb c N0 then None else piece_of_N c

(** val m_promotion : coq_N -> piece option **)

let m_promotion m =
  let c = load m promotion_offset promotion_mask in
  if N.eqb c N0 then None else piece_of_N c

(** val m_is_ep : coq_N -> bool **)

let m_is_ep m =
  bit m en_passant_offset

(** val m_is_double : coq_N -> bool **)

let m_is_double m =
  bit m double_pawn_offset

(** val m_castle_q : coq_N -> bool **)

let m_castle_q m =
  bit m castle_queenside_offset

(** val m_castle_k : coq_N -> bool **)

let m_castle_k m =
  bit m castle_kingside_offset

(** val m_color : coq_N -> color **)

let m_color m =
  if bit m color_offset then White else Black

(** val m_is_capture : coq_N -> bool **)

let m_is_capture m =
  match m_capture m with
  | Some _ -> true
  | None -> false

(** val m_castle_side : coq_N -> bool option **)

let m_castle_side m =
  if m_castle_q m
  then Some false
  else if m_castle_k m then Some true else None

(** val m_is_castle : coq_N -> bool -> bool **)

let m_is_castle m kingside =
  match m_castle_side m with
  | Some k -> eqb k kingside
  | None -> false

(** val m_decodes : coq_N -> bool **)

let m_decodes m =
  match piece_of_N (m_piece_raw m) with
  | Some _ ->
    let c = load m capture_offset capture_mask in
    let p = load m promotion_offset promotion_mask in
    (&&)
      (if N.eqb c N0
       then true
       else (match piece_of_N c with
             | Some _ -> true
             | None -> false))
      (if N.eqb p N0
       then true
       else (match piece_of_N p with
             | Some _ -> true
             | None -> false))
  | None -> false

type mquery = { q_piece : piece option; q_orank : coq_N option;
                q_ofile : coq_N option; q_drank : coq_N option;
                q_dfile : coq_N option; q_promotion : piece option;
                q_castle : bool option; q_capture : bool option }

(** val q_empty : mquery **)

let q_empty =
  { q_piece = None; q_orank = None; q_ofile = None; q_drank = None; q_dfile =
    None; q_promotion = None; q_castle = None; q_capture = None }

(** val opt_test : 'a1 option -> ('a1 -> bool) -> bool **)

let opt_test o f =
  match o with
  | Some x -> f x
  | None -> true

(** val qtest : mquery -> coq_N -> bool **)

let qtest q m =
  (&&)
    ((&&)
      ((&&)
        ((&&)
          ((&&)
            ((&&)
              ((&&) (opt_test q.q_piece (fun p -> piece_eqb p (m_piece m)))
                (opt_test q.q_orank (fun r -> N.eqb r (rank_of (m_origin m)))))
              (opt_test q.q_ofile (fun f -> N.eqb f (file_of (m_origin m)))))
            (opt_test q.q_drank (fun r -> N.eqb r (rank_of (m_dest m)))))
          (opt_test q.q_dfile (fun f -> N.eqb f (file_of (m_dest m)))))
        (opt_test q.q_promotion (fun p ->
          piece_eqb p
            (match m_promotion m with
             | Some x -> x
             | None -> m_piece m))))
      (opt_test q.q_castle (fun k -> m_is_castle m k)))
    (opt_test q.q_capture (fun c -> eqb c (m_is_capture m)))
