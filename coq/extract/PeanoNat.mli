open Datatypes

module Nat :
 sig
  val eqb : nat -> nat -> bool

  val leb : nat -> nat -> bool
 end
