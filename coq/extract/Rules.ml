open BinInt
open BinNat
open BinNums
open Datatypes
open List
open PeanoNat
open Types

(** val sfile : coq_N -> coq_Z **)

let sfile s =
  Z.of_N (N.modulo s (Npos (Coq_xO (Coq_xO (Coq_xO Coq_xH)))))

(** val srank : coq_N -> coq_Z **)

let srank s =
  Z.of_N (N.div s (Npos (Coq_xO (Coq_xO (Coq_xO Coq_xH)))))

(** val on_board : coq_Z -> coq_Z -> bool **)

let on_board f r =
  (&&)
    ((&&) ((&&) (Z.leb Z0 f) (Z.leb f (Zpos (Coq_xI (Coq_xI Coq_xH)))))
      (Z.leb Z0 r)) (Z.leb r (Zpos (Coq_xI (Coq_xI Coq_xH))))

(** val sq_of : coq_Z -> coq_Z -> coq_N **)

let sq_of f r =
  Z.to_N (Z.add (Z.mul r (Zpos (Coq_xO (Coq_xO (Coq_xO Coq_xH))))) f)

type pos = { p_at : (coq_N -> (color * piece) option); p_turn : color;
             p_right : (color -> bool -> bool); p_ep : coq_N option;
             p_half : coq_N; p_full : coq_N }

(** val all_squares : coq_N list **)

let all_squares =
  map N.of_nat
    (seq O (S (S (S (S (S (S (S (S (S (S (S (S (S (S (S (S (S (S (S (S (S (S
      (S (S (S (S (S (S (S (S (S (S (S (S (S (S (S (S (S (S (S (S (S (S (S (S
      (S (S (S (S (S (S (S (S (S (S (S (S (S (S (S (S (S (S
      O)))))))))))))))))))))))))))))))))))))))))))))))))))))))))))))))))

(** val empty_at : pos -> coq_N -> bool **)

let empty_at p s =
  match p.p_at s with
  | Some _ -> false
  | None -> true

(** val has : pos -> coq_N -> color -> piece -> bool **)

let has p s c k =
  match p.p_at s with
  | Some p0 -> let (c', k') = p0 in (&&) (color_eqb c c') (piece_eqb k k')
  | None -> false

(** val colour_at : pos -> coq_N -> color -> bool **)

let colour_at p s c =
  match p.p_at s with
  | Some p0 -> let (c', _) = p0 in color_eqb c c'
  | None -> false

(** val fwd : color -> coq_Z **)

let fwd = function
| White -> Zpos Coq_xH
| Black -> Zneg Coq_xH

(** val clear_path :
    pos -> nat -> coq_Z -> coq_Z -> coq_Z -> coq_Z -> coq_Z -> coq_Z -> bool **)

let rec clear_path p fuel f r sf sr f' r' =
  match fuel with
  | O -> false
  | S k ->
    let nf = Z.add f sf in
    let nr = Z.add r sr in
    if (&&) (Z.eqb nf f') (Z.eqb nr r')
    then true
    else (&&) ((&&) (on_board nf nr) (empty_at p (sq_of nf nr)))
           (clear_path p k nf nr sf sr f' r')

(** val attacks_from : pos -> color -> piece -> coq_N -> coq_N -> bool **)

let attacks_from p c k from to0 =
  let df = Z.sub (sfile to0) (sfile from) in
  let dr = Z.sub (srank to0) (srank from) in
  let line =
    clear_path p (S (S (S (S (S (S (S O))))))) (sfile from) (srank from)
      (Z.sgn df) (Z.sgn dr) (sfile to0) (srank to0)
  in
  (match k with
   | PNone -> false
   | Pawn -> (&&) (Z.eqb (Z.abs df) (Zpos Coq_xH)) (Z.eqb dr (fwd c))
   | Knight ->
     (||)
       ((&&) (Z.eqb (Z.abs df) (Zpos Coq_xH))
         (Z.eqb (Z.abs dr) (Zpos (Coq_xO Coq_xH))))
       ((&&) (Z.eqb (Z.abs df) (Zpos (Coq_xO Coq_xH)))
         (Z.eqb (Z.abs dr) (Zpos Coq_xH)))
   | Bishop ->
     (&&) ((&&) (negb (Z.eqb df Z0)) (Z.eqb (Z.abs df) (Z.abs dr))) line
   | Rook ->
     (&&)
       ((&&) (negb ((&&) (Z.eqb df Z0) (Z.eqb dr Z0)))
         ((||) (Z.eqb df Z0) (Z.eqb dr Z0))) line
   | Queen ->
     (&&)
       ((&&) (negb ((&&) (Z.eqb df Z0) (Z.eqb dr Z0)))
         ((||) ((||) (Z.eqb df Z0) (Z.eqb dr Z0))
           (Z.eqb (Z.abs df) (Z.abs dr)))) line
   | King -> Z.eqb (Z.max (Z.abs df) (Z.abs dr)) (Zpos Coq_xH))

(** val attacked : pos -> color -> coq_N -> bool **)

let attacked p c t =
  existsb (fun f ->
    match p.p_at f with
    | Some p0 ->
      let (c', k) = p0 in (&&) (color_eqb c c') (attacks_from p c k f t)
    | None -> false) all_squares

(** val king_attacked : pos -> color -> bool **)

let king_attacked p c =
  existsb (fun s -> (&&) (has p s c King) (attacked p (opp c) s)) all_squares

type move = { mv_from : coq_N; mv_to : coq_N; mv_promo : piece option }

(** val home_rank : color -> coq_Z **)

let home_rank = function
| White -> Zpos Coq_xH
| Black -> Zpos (Coq_xO (Coq_xI Coq_xH))

(** val last_rank : color -> coq_Z **)

let last_rank = function
| White -> Zpos (Coq_xI (Coq_xI Coq_xH))
| Black -> Z0

(** val back_rank : color -> coq_Z **)

let back_rank = function
| White -> Z0
| Black -> Zpos (Coq_xI (Coq_xI Coq_xH))

(** val king_home : color -> coq_N **)

let king_home c =
  sq_of (Zpos (Coq_xO (Coq_xO Coq_xH))) (back_rank c)

(** val rook_home : color -> bool -> coq_N **)

let rook_home c kingside =
  sq_of (if kingside then Zpos (Coq_xI (Coq_xI Coq_xH)) else Z0) (back_rank c)

(** val is_promo_kind : piece -> bool **)

let is_promo_kind = function
| PNone -> false
| Pawn -> false
| King -> false
| _ -> true

(** val castle_ok : pos -> color -> bool -> bool **)

let castle_ok p c kingside =
  let r = back_rank c in
  (&&)
    ((&&)
      ((&&)
        ((&&) ((&&) (p.p_right c kingside) (has p (king_home c) c King))
          (has p (rook_home c kingside) c Rook))
        (if kingside
         then (&&) (empty_at p (sq_of (Zpos (Coq_xI (Coq_xO Coq_xH))) r))
                (empty_at p (sq_of (Zpos (Coq_xO (Coq_xI Coq_xH))) r))
         else (&&)
                ((&&) (empty_at p (sq_of (Zpos Coq_xH) r))
                  (empty_at p (sq_of (Zpos (Coq_xO Coq_xH)) r)))
                (empty_at p (sq_of (Zpos (Coq_xI Coq_xH)) r))))
      (negb (attacked p (opp c) (sq_of (Zpos (Coq_xO (Coq_xO Coq_xH))) r))))
    (if kingside
     then (&&)
            (negb
              (attacked p (opp c) (sq_of (Zpos (Coq_xI (Coq_xO Coq_xH))) r)))
            (negb
              (attacked p (opp c) (sq_of (Zpos (Coq_xO (Coq_xI Coq_xH))) r)))
     else (&&) (negb (attacked p (opp c) (sq_of (Zpos (Coq_xI Coq_xH)) r)))
            (negb (attacked p (opp c) (sq_of (Zpos (Coq_xO Coq_xH)) r))))

(** val is_castle_move : pos -> move -> bool option **)

let is_castle_move p m =
  let c = p.p_turn in
  if (&&) ((&&) (has p m.mv_from c King) (N.eqb m.mv_from (king_home c)))
       (Z.eqb (srank m.mv_to) (back_rank c))
  then if Z.eqb (sfile m.mv_to) (Zpos (Coq_xO (Coq_xI Coq_xH)))
       then Some true
       else if Z.eqb (sfile m.mv_to) (Zpos (Coq_xO Coq_xH))
            then Some false
            else None
  else None

(** val pseudo_legal : pos -> move -> bool **)

let pseudo_legal p m =
  let c = p.p_turn in
  let f = m.mv_from in
  let t = m.mv_to in
  (match p.p_at f with
   | Some p0 ->
     let (c', k) = p0 in
     (&&)
       ((&&) ((&&) (color_eqb c c') (negb (colour_at p t c)))
         (negb (N.eqb f t)))
       (match k with
        | PNone -> false
        | Pawn ->
          let df = Z.sub (sfile t) (sfile f) in
          let dr = Z.sub (srank t) (srank f) in
          (&&)
            ((||)
              ((||)
                ((||)
                  ((&&) ((&&) (Z.eqb df Z0) (Z.eqb dr (fwd c)))
                    (empty_at p t))
                  ((&&)
                    ((&&)
                      ((&&)
                        ((&&) (Z.eqb df Z0)
                          (Z.eqb dr (Z.mul (Zpos (Coq_xO Coq_xH)) (fwd c))))
                        (Z.eqb (srank f) (home_rank c)))
                      (empty_at p (sq_of (sfile f) (Z.add (srank f) (fwd c)))))
                    (empty_at p t)))
                ((&&)
                  ((&&) (Z.eqb (Z.abs df) (Zpos Coq_xH)) (Z.eqb dr (fwd c)))
                  (colour_at p t (opp c))))
              ((&&)
                ((&&)
                  ((&&) (Z.eqb (Z.abs df) (Zpos Coq_xH)) (Z.eqb dr (fwd c)))
                  (empty_at p t))
                (match p.p_ep with
                 | Some e -> N.eqb e t
                 | None -> false)))
            (if Z.eqb (srank t) (last_rank c)
             then (match m.mv_promo with
                   | Some k' -> is_promo_kind k'
                   | None -> false)
             else (match m.mv_promo with
                   | Some _ -> false
                   | None -> true))
        | King ->
          (match m.mv_promo with
           | Some _ -> false
           | None ->
             (||) (attacks_from p c King f t)
               (match is_castle_move p m with
                | Some side -> castle_ok p c side
                | None -> false))
        | _ ->
          (match m.mv_promo with
           | Some _ -> false
           | None -> attacks_from p c k f t))
   | None -> false)

(** val apply : pos -> move -> pos **)

let apply p m =
  let c = p.p_turn in
  let f = m.mv_from in
  let t = m.mv_to in
  let k = match p.p_at f with
          | Some p0 -> let (_, k) = p0 in k
          | None -> PNone
  in
  let is_pawn = piece_eqb k Pawn in
  let is_king = piece_eqb k King in
  let capture = negb (empty_at p t) in
  let ep_capture =
    (&&) ((&&) is_pawn (negb (Z.eqb (sfile f) (sfile t)))) (empty_at p t)
  in
  let ep_victim = sq_of (sfile t) (srank f) in
  let castle =
    if (&&) is_king
         (Z.eqb (Z.abs (Z.sub (sfile t) (sfile f))) (Zpos (Coq_xO Coq_xH)))
    then Some (Z.eqb (sfile t) (Zpos (Coq_xO (Coq_xI Coq_xH))))
    else None
  in
  let placed = match m.mv_promo with
               | Some k' -> k'
               | None -> k in
  let at' = fun s ->
    if N.eqb s t
    then Some (c, placed)
    else if N.eqb s f
         then None
         else if (&&) ep_capture (N.eqb s ep_victim)
              then None
              else (match castle with
                    | Some side ->
                      if N.eqb s (rook_home c side)
                      then None
                      else if N.eqb s
                                (sq_of
                                  (if side
                                   then Zpos (Coq_xI (Coq_xO Coq_xH))
                                   else Zpos (Coq_xI Coq_xH)) (back_rank c))
                           then Some (c, Rook)
                           else p.p_at s
                    | None -> p.p_at s)
  in
  let right' = fun c0 side ->
    (&&)
      ((&&) ((&&) (p.p_right c0 side) (negb ((&&) is_king (color_eqb c c0))))
        (negb (N.eqb f (rook_home c0 side))))
      (negb (N.eqb t (rook_home c0 side)))
  in
  { p_at = at'; p_turn = (opp c); p_right = right'; p_ep =
  (if (&&) is_pawn
        (Z.eqb (Z.abs (Z.sub (srank t) (srank f))) (Zpos (Coq_xO Coq_xH)))
   then Some (sq_of (sfile f) (Z.add (srank f) (fwd c)))
   else None); p_half =
  (if (||) ((||) is_pawn capture) ep_capture
   then N0
   else N.add p.p_half (Npos Coq_xH)); p_full =
  (match c with
   | White -> p.p_full
   | Black -> N.add p.p_full (Npos Coq_xH)) }

(** val legal : pos -> move -> bool **)

let legal p m =
  (&&) (pseudo_legal p m) (negb (king_attacked (apply p m) p.p_turn))

(** val promo_options : piece option list **)

let promo_options =
  None :: ((Some Queen) :: ((Some Rook) :: ((Some Bishop) :: ((Some
    Knight) :: []))))

(** val legal_moves : pos -> move list **)

let legal_moves p =
  flat_map (fun f ->
    match p.p_at f with
    | Some p0 ->
      let (c, _) = p0 in
      if color_eqb c p.p_turn
      then flat_map (fun t ->
             flat_map (fun pr ->
               let m = { mv_from = f; mv_to = t; mv_promo = pr } in
               if legal p m then m :: [] else []) promo_options) all_squares
      else []
    | None -> []) all_squares

(** val perft : nat -> pos -> coq_N **)

let rec perft d p =
  match d with
  | O -> N0
  | S k ->
    (match k with
     | O -> N.of_nat (length (legal_moves p))
     | S _ ->
       fold_left (fun acc m -> N.add acc (perft k (apply p m)))
         (legal_moves p) N0)

(** val checkmate : pos -> bool **)

let checkmate p =
  match legal_moves p with
  | [] -> king_attacked p p.p_turn
  | _ :: _ -> false

(** val stalemate : pos -> bool **)

let stalemate p =
  match legal_moves p with
  | [] -> negb (king_attacked p p.p_turn)
  | _ :: _ -> false

(** val count_pieces : pos -> color -> piece -> nat **)

let count_pieces p c k =
  length (filter (fun s -> has p s c k) all_squares)

(** val legal_pos : pos -> bool **)

let legal_pos p =
  (&&)
    ((&&)
      ((&&)
        ((&&)
          ((&&) (Nat.eqb (count_pieces p White King) (S O))
            (Nat.eqb (count_pieces p Black King) (S O)))
          (negb (king_attacked p (opp p.p_turn))))
        (forallb (fun s ->
          (||)
            (negb
              ((||) (Z.eqb (srank s) Z0)
                (Z.eqb (srank s) (Zpos (Coq_xI (Coq_xI Coq_xH))))))
            (negb ((||) (has p s White Pawn) (has p s Black Pawn))))
          all_squares))
      (forallb (fun c ->
        forallb (fun side ->
          (||) (negb (p.p_right c side))
            ((&&) (has p (king_home c) c King)
              (has p (rook_home c side) c Rook))) (true :: (false :: [])))
        (White :: (Black :: []))))
    (match p.p_ep with
     | Some t ->
       let c = p.p_turn in
       (&&)
         ((&&)
           ((&&)
             (Z.eqb (srank t)
               (if is_white c
                then Zpos (Coq_xI (Coq_xO Coq_xH))
                else Zpos (Coq_xO Coq_xH))) (empty_at p t))
           (empty_at p (sq_of (sfile t) (Z.add (srank t) (fwd c)))))
         (has p (sq_of (sfile t) (Z.sub (srank t) (fwd c))) (opp c) Pawn)
     | None -> true)
