
(** val negb : bool -> bool **)

let negb = function
| true -> false
| false -> true

type nat =
| O
| S of nat

(** val fst : ('a1 * 'a2) -> 'a1 **)

let fst = function
| (x, _) -> x

(** val snd : ('a1 * 'a2) -> 'a2 **)

let snd = function
| (_, y) -> y

(** val length : 'a1 list -> nat **)

let rec length = function
| [] -> O
| _ :: l' -> S (length l')

(** val app : 'a1 list -> 'a1 list -> 'a1 list **)

let rec app l m =
  match l with
  | [] -> m
  | a :: l1 -> a :: (app l1 m)

type comparison =
| Eq
| Lt
| Gt

(** val coq_CompOpp : comparison -> comparison **)

let coq_CompOpp = function
| Eq -> Eq
| Lt -> Gt
| Gt -> Lt
