open BinNums
open BinPos
open Datatypes
open Decimal

module N :
 sig
  val succ_double : coq_N -> coq_N

  val double : coq_N -> coq_N

  val succ : coq_N -> coq_N

  val succ_pos : coq_N -> positive

  val add : coq_N -> coq_N -> coq_N

  val sub : coq_N -> coq_N -> coq_N

  val mul : coq_N -> coq_N -> coq_N

  val compare : coq_N -> coq_N -> comparison

  val eqb : coq_N -> coq_N -> bool

  val leb : coq_N -> coq_N -> bool

  val ltb : coq_N -> coq_N -> bool

  val div2 : coq_N -> coq_N

  val log2 : coq_N -> coq_N

  val pos_div_eucl : positive -> coq_N -> coq_N * coq_N

  val div_eucl : coq_N -> coq_N -> coq_N * coq_N

  val div : coq_N -> coq_N -> coq_N

  val modulo : coq_N -> coq_N -> coq_N

  val coq_lor : coq_N -> coq_N -> coq_N

  val coq_land : coq_N -> coq_N -> coq_N

  val ldiff : coq_N -> coq_N -> coq_N

  val coq_lxor : coq_N -> coq_N -> coq_N

  val shiftl : coq_N -> coq_N -> coq_N

  val shiftr : coq_N -> coq_N -> coq_N

  val testbit : coq_N -> coq_N -> bool

  val to_nat : coq_N -> nat

  val of_nat : nat -> coq_N

  val to_uint : coq_N -> uint
 end
