open BinInt
open BinNat
open BinNums
open Datatypes
open List
open PeanoNat
open Types

val sfile : coq_N -> coq_Z

val srank : coq_N -> coq_Z

val on_board : coq_Z -> coq_Z -> bool

val sq_of : coq_Z -> coq_Z -> coq_N

type pos = { p_at : (coq_N -> (color * piece) option); p_turn : color;
             p_right : (color -> bool -> bool); p_ep : coq_N option;
             p_half : coq_N; p_full : coq_N }

val all_squares : coq_N list

val empty_at : pos -> coq_N -> bool

val has : pos -> coq_N -> color -> piece -> bool

val colour_at : pos -> coq_N -> color -> bool

val fwd : color -> coq_Z

val clear_path :
  pos -> nat -> coq_Z -> coq_Z -> coq_Z -> coq_Z -> coq_Z -> coq_Z -> bool

val attacks_from : pos -> color -> piece -> coq_N -> coq_N -> bool

val attacked : pos -> color -> coq_N -> bool

val king_attacked : pos -> color -> bool

type move = { mv_from : coq_N; mv_to : coq_N; mv_promo : piece option }

val home_rank : color -> coq_Z

val last_rank : color -> coq_Z

val back_rank : color -> coq_Z

val king_home : color -> coq_N

val rook_home : color -> bool -> coq_N

val is_promo_kind : piece -> bool

val castle_ok : pos -> color -> bool -> bool

val is_castle_move : pos -> move -> bool option

val pseudo_legal : pos -> move -> bool

val apply : pos -> move -> pos

val legal : pos -> move -> bool

val promo_options : piece option list

val legal_moves : pos -> move list

val perft : nat -> pos -> coq_N

val checkmate : pos -> bool

val stalemate : pos -> bool

val count_pieces : pos -> color -> piece -> nat

val legal_pos : pos -> bool
