open BinNums

module PositiveMap =
 struct
  type key = positive

  type 'a tree =
  | Leaf
  | Node of 'a tree * 'a option * 'a tree

  type 'a t = 'a tree

  (** val empty : 'a1 t **)

  let empty =
    Leaf

  (** val find : key -> 'a1 t -> 'a1 option **)

  let rec find i = function
  | Leaf -> None
  | Node (l, o, r) ->
    (match i with
     | Coq_xI ii -> find ii r
     | Coq_xO ii -> find ii l
     | Coq_xH -> o)

  (** val add : key -> 'a1 -> 'a1 t -> 'a1 t **)

  let rec add i v = function
  | Leaf ->
    (match i with
     | Coq_xI ii -> Node (Leaf, None, (add ii v Leaf))
     | Coq_xO ii -> Node ((add ii v Leaf), None, Leaf)
     | Coq_xH -> Node (Leaf, (Some v), Leaf))
  | Node (l, o, r) ->
    (match i with
     | Coq_xI ii -> Node (l, o, (add ii v r))
     | Coq_xO ii -> Node ((add ii v l), o, r)
     | Coq_xH -> Node (l, (Some v), r))
 end
