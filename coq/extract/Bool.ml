
(** val eqb : bool -> bool -> bool **)

let eqb b1 b2 =
  if b1 then b2 else if b2 then false else true
