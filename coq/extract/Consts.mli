open BinNums

val rank_masks : coq_N list

val file_masks : coq_N list

val castle_path_masks : coq_N list

val castle_check_masks : coq_N list

val king_origins : coq_N list

val castle_dests : coq_N list

val rook_magics : coq_N list

val bishop_magics : coq_N list

val rook_bits : coq_N list

val bishop_bits : coq_N list

val magic_table_slots : coq_N

val knight_offsets : (coq_Z * coq_Z) list

val king_offsets : (coq_Z * coq_Z) list

val white_pawn_offsets : (coq_Z * coq_Z) list

val black_pawn_offsets : (coq_Z * coq_Z) list

val dir_offsets : (coq_Z * coq_Z) list

val piece_offset : coq_N

val piece_mask : coq_N

val origin_offset : coq_N

val origin_mask : coq_N

val dest_offset : coq_N

val dest_mask : coq_N

val capture_offset : coq_N

val capture_mask : coq_N

val promotion_offset : coq_N

val promotion_mask : coq_N

val en_passant_offset : coq_N

val double_pawn_offset : coq_N

val castle_queenside_offset : coq_N

val castle_kingside_offset : coq_N

val color_offset : coq_N

val promotion_types : coq_N list
