open Attacks
open BinNat
open BinNums
open Bits
open List
open Types

val all_pieces : piece list

val all_colors : color list

type board = { wP : coq_N; wN : coq_N; wB : coq_N; wR : coq_N; wQ : coq_N;
               wK : coq_N; bP : coq_N; bN : coq_N; bB : coq_N; bR : coq_N;
               bQ : coq_N; bK : coq_N }

val empty_board : board

val pocc : board -> color -> piece -> coq_N

val pset : board -> color -> piece -> coq_N -> board

val pset_bit : board -> color -> piece -> coq_N -> bool -> board

val colored_occ : board -> color -> coq_N

val occupancy : board -> coq_N

val vacancy : board -> coq_N

val piece_at : board -> coq_N -> (color * piece) option

val piece_attacks : color -> piece -> coq_N -> coq_N -> coq_N

val attacks_of_kind : board -> color -> piece -> coq_N

val colored_attacks : board -> color -> coq_N

val colored_pawn_attacks : board -> color -> coq_N

val board_is_check : board -> color -> bool

type state = { st_board : board; st_turn : color; st_wk : bool; st_wq : 
               bool; st_bk : bool; st_bq : bool; st_ep : coq_N option;
               st_half : coq_N; st_full : coq_N }

val is_check : state -> bool

val castle_right : state -> color -> bool -> bool

type cboard = { cb_board : board; cb_white : (coq_N * coq_N) option;
                cb_black : (coq_N * coq_N) option }

val fresh : board -> cboard

val attack_map_pure : board -> color -> coq_N * coq_N

val attack_map : cboard -> color -> (coq_N * coq_N) * cboard
