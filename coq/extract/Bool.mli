
val eqb : bool -> bool -> bool
