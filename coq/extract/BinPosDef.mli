open BinNums

module Pos :
 sig
  type mask =
  | IsNul
  | IsPos of positive
  | IsNeg
 end
