
type uint =
| Nil
| D0 of uint
| D1 of uint
| D2 of uint
| D3 of uint
| D4 of uint
| D5 of uint
| D6 of uint
| D7 of uint
| D8 of uint
| D9 of uint

(** val revapp : uint -> uint -> uint **)

let rec revapp d d' =
  match d with
  | Nil -> d'
  | D0 d0 -> revapp d0 (D0 d')
  | D1 d0 -> revapp d0 (D1 d')
  | D2 d0 -> revapp d0 (D2 d')
  | D3 d0 -> revapp d0 (D3 d')
  | D4 d0 -> revapp d0 (D4 d')
  | D5 d0 -> revapp d0 (D5 d')
  | D6 d0 -> revapp d0 (D6 d')
  | D7 d0 -> revapp d0 (D7 d')
  | D8 d0 -> revapp d0 (D8 d')
  | D9 d0 -> revapp d0 (D9 d')

(** val rev : uint -> uint **)

let rev d =
  revapp d Nil

module Little =
 struct
  (** val double : uint -> uint **)

  let rec double = function
  | Nil -> Nil
  | D0 d0 -> D0 (double d0)
  | D1 d0 -> D2 (double d0)
  | D2 d0 -> D4 (double d0)
  | D3 d0 -> D6 (double d0)
  | D4 d0 -> D8 (double d0)
  | D5 d0 -> D0 (succ_double d0)
  | D6 d0 -> D2 (succ_double d0)
  | D7 d0 -> D4 (succ_double d0)
  | D8 d0 -> D6 (succ_double d0)
  | D9 d0 -> D8 (succ_double d0)

  (** val succ_double : uint -> uint **)

  and succ_double = function
  | Nil -> D1 Nil
  | D0 d0 -> D1 (double d0)
  | D1 d0 -> D3 (double d0)
  | D2 d0 -> D5 (double d0)
  | D3 d0 -> D7 (double d0)
  | D4 d0 -> D9 (double d0)
  | D5 d0 -> D1 (succ_double d0)
  | D6 d0 -> D3 (succ_double d0)
  | D7 d0 -> D5 (succ_double d0)
  | D8 d0 -> D7 (succ_double d0)
  | D9 d0 -> D9 (succ_double d0)
 end
