open BinInt
open BinNat
open BinNums
open Datatypes
open List

(** val mask64 : coq_N **)

let mask64 =
  Npos (Coq_xI (Coq_xI (Coq_xI (Coq_xI (Coq_xI (Coq_xI (Coq_xI (Coq_xI
    (Coq_xI (Coq_xI (Coq_xI (Coq_xI (Coq_xI (Coq_xI (Coq_xI (Coq_xI (Coq_xI
    (Coq_xI (Coq_xI (Coq_xI (Coq_xI (Coq_xI (Coq_xI (Coq_xI (Coq_xI (Coq_xI
    (Coq_xI (Coq_xI (Coq_xI (Coq_xI (Coq_xI (Coq_xI (Coq_xI (Coq_xI (Coq_xI
    (Coq_xI (Coq_xI (Coq_xI (Coq_xI (Coq_xI (Coq_xI (Coq_xI (Coq_xI (Coq_xI
    (Coq_xI (Coq_xI (Coq_xI (Coq_xI (Coq_xI (Coq_xI (Coq_xI (Coq_xI (Coq_xI
    (Coq_xI (Coq_xI (Coq_xI (Coq_xI (Coq_xI (Coq_xI (Coq_xI (Coq_xI (Coq_xI
    (Coq_xI
    Coq_xH)))))))))))))))))))))))))))))))))))))))))))))))))))))))))))))))

(** val trunc64 : coq_N -> coq_N **)

let trunc64 b =
  N.coq_land b mask64

(** val shl64 : coq_N -> coq_N -> coq_N **)

let shl64 b k =
  trunc64 (N.shiftl b k)

(** val shr64 : coq_N -> coq_N -> coq_N **)

let shr64 =
  N.shiftr

(** val lnot64 : coq_N -> coq_N **)

let lnot64 b =
  N.coq_lxor b mask64

(** val mul64 : coq_N -> coq_N -> coq_N **)

let mul64 a b =
  trunc64 (N.mul a b)

(** val just : coq_N -> coq_N **)

let just s =
  N.shiftl (Npos Coq_xH) s

(** val test : coq_N -> coq_N -> bool **)

let test =
  N.testbit

(** val setb : coq_N -> coq_N -> bool -> coq_N **)

let setb b s = function
| true -> N.coq_lor b (just s)
| false -> N.ldiff b (just s)

(** val any : coq_N -> bool **)

let any b =
  negb (N.eqb b N0)

(** val none : coq_N -> bool **)

let none b =
  N.eqb b N0

(** val ctz_pos : positive -> coq_N **)

let rec ctz_pos = function
| Coq_xO q -> N.succ (ctz_pos q)
| _ -> N0

(** val first_one : coq_N -> coq_N option **)

let first_one = function
| N0 -> None
| Npos p -> Some (ctz_pos p)

(** val last_one : coq_N -> coq_N option **)

let last_one b = match b with
| N0 -> None
| Npos _ -> Some (N.log2 b)

(** val ones_pos : positive -> coq_N -> coq_N list **)

let rec ones_pos p i =
  match p with
  | Coq_xI q -> i :: (ones_pos q (N.succ i))
  | Coq_xO q -> ones_pos q (N.succ i)
  | Coq_xH -> i :: []

(** val iter_ones : coq_N -> coq_N list **)

let iter_ones = function
| N0 -> []
| Npos p -> ones_pos p N0

(** val count_ones : coq_N -> coq_N **)

let count_ones b =
  N.of_nat (length (iter_ones b))

(** val file_of : coq_N -> coq_N **)

let file_of s =
  N.modulo s (Npos (Coq_xO (Coq_xO (Coq_xO Coq_xH))))

(** val rank_of : coq_N -> coq_N **)

let rank_of s =
  N.div s (Npos (Coq_xO (Coq_xO (Coq_xO Coq_xH))))

(** val mk_square : coq_N -> coq_N -> coq_N **)

let mk_square r f =
  N.add (N.mul r (Npos (Coq_xO (Coq_xO (Coq_xO Coq_xH))))) f

(** val offset : coq_N -> coq_Z -> coq_Z -> coq_N option **)

let offset s df dr =
  let f = Z.add (Z.of_N (file_of s)) df in
  let r = Z.add (Z.of_N (rank_of s)) dr in
  if (||)
       ((||) ((||) (Z.ltb f Z0) (Z.ltb (Zpos (Coq_xI (Coq_xI Coq_xH))) f))
         (Z.ltb r Z0)) (Z.ltb (Zpos (Coq_xI (Coq_xI Coq_xH))) r)
  then None
  else Some (mk_square (Z.to_N r) (Z.to_N f))

(** val file_a : coq_N **)

let file_a =
  Npos (Coq_xI (Coq_xO (Coq_xO (Coq_xO (Coq_xO (Coq_xO (Coq_xO (Coq_xO
    (Coq_xI (Coq_xO (Coq_xO (Coq_xO (Coq_xO (Coq_xO (Coq_xO (Coq_xO (Coq_xI
    (Coq_xO (Coq_xO (Coq_xO (Coq_xO (Coq_xO (Coq_xO (Coq_xO (Coq_xI (Coq_xO
    (Coq_xO (Coq_xO (Coq_xO (Coq_xO (Coq_xO (Coq_xO (Coq_xI (Coq_xO (Coq_xO
    (Coq_xO (Coq_xO (Coq_xO (Coq_xO (Coq_xO (Coq_xI (Coq_xO (Coq_xO (Coq_xO
    (Coq_xO (Coq_xO (Coq_xO (Coq_xO (Coq_xI (Coq_xO (Coq_xO (Coq_xO (Coq_xO
    (Coq_xO (Coq_xO (Coq_xO
    Coq_xH))))))))))))))))))))))))))))))))))))))))))))))))))))))))

(** val file_h : coq_N **)

let file_h =
  Npos (Coq_xO (Coq_xO (Coq_xO (Coq_xO (Coq_xO (Coq_xO (Coq_xO (Coq_xI
    (Coq_xO (Coq_xO (Coq_xO (Coq_xO (Coq_xO (Coq_xO (Coq_xO (Coq_xI (Coq_xO
    (Coq_xO (Coq_xO (Coq_xO (Coq_xO (Coq_xO (Coq_xO (Coq_xI (Coq_xO (Coq_xO
    (Coq_xO (Coq_xO (Coq_xO (Coq_xO (Coq_xO (Coq_xI (Coq_xO (Coq_xO (Coq_xO
    (Coq_xO (Coq_xO (Coq_xO (Coq_xO (Coq_xI (Coq_xO (Coq_xO (Coq_xO (Coq_xO
    (Coq_xO (Coq_xO (Coq_xO (Coq_xI (Coq_xO (Coq_xO (Coq_xO (Coq_xO (Coq_xO
    (Coq_xO (Coq_xO (Coq_xI (Coq_xO (Coq_xO (Coq_xO (Coq_xO (Coq_xO (Coq_xO
    (Coq_xO
    Coq_xH)))))))))))))))))))))))))))))))))))))))))))))))))))))))))))))))

(** val iter_n : nat -> ('a1 -> 'a1) -> 'a1 -> 'a1 **)

let rec iter_n n f x =
  match n with
  | O -> x
  | S k -> iter_n k f (f x)

(** val shift : coq_N -> coq_Z -> coq_Z -> coq_N **)

let shift b df dr =
  let b1 =
    if Z.ltb Z0 dr
    then shl64 b (Z.to_N (Z.mul dr (Zpos (Coq_xO (Coq_xO (Coq_xO Coq_xH))))))
    else if Z.ltb dr Z0
         then shr64 b
                (Z.to_N
                  (Z.mul (Z.opp dr) (Zpos (Coq_xO (Coq_xO (Coq_xO Coq_xH))))))
         else b
  in
  if Z.ltb Z0 df
  then iter_n (Z.to_nat df) (fun x ->
         shl64 (N.coq_land x (lnot64 file_h)) (Npos Coq_xH)) b1
  else if Z.ltb df Z0
       then iter_n (Z.to_nat (Z.opp df)) (fun x ->
              shr64 (N.coq_land x (lnot64 file_a)) (Npos Coq_xH)) b1
       else b1

(** val squares : coq_N list **)

let squares =
  map N.of_nat
    (seq O (S (S (S (S (S (S (S (S (S (S (S (S (S (S (S (S (S (S (S (S (S (S
      (S (S (S (S (S (S (S (S (S (S (S (S (S (S (S (S (S (S (S (S (S (S (S (S
      (S (S (S (S (S (S (S (S (S (S (S (S (S (S (S (S (S (S
      O)))))))))))))))))))))))))))))))))))))))))))))))))))))))))))))))))
