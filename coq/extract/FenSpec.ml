open BinNat
open BinNums
open Datatypes
open Decimal
open List
open Rules
open Types

(** val letter : color -> piece -> coq_N **)

let letter c k =
  let u =
    match k with
    | PNone -> Npos (Coq_xI (Coq_xI (Coq_xI (Coq_xI (Coq_xI Coq_xH)))))
    | Pawn ->
      Npos (Coq_xO (Coq_xO (Coq_xO (Coq_xO (Coq_xI (Coq_xO Coq_xH))))))
    | Knight ->
      Npos (Coq_xO (Coq_xI (Coq_xI (Coq_xI (Coq_xO (Coq_xO Coq_xH))))))
    | Bishop ->
      Npos (Coq_xO (Coq_xI (Coq_xO (Coq_xO (Coq_xO (Coq_xO Coq_xH))))))
    | Rook ->
      Npos (Coq_xO (Coq_xI (Coq_xO (Coq_xO (Coq_xI (Coq_xO Coq_xH))))))
    | Queen ->
      Npos (Coq_xI (Coq_xO (Coq_xO (Coq_xO (Coq_xI (Coq_xO Coq_xH))))))
    | King ->
      Npos (Coq_xI (Coq_xI (Coq_xO (Coq_xI (Coq_xO (Coq_xO Coq_xH))))))
  in
  (match c with
   | White -> u
   | Black ->
     N.add u (Npos (Coq_xO (Coq_xO (Coq_xO (Coq_xO (Coq_xO Coq_xH)))))))

(** val digits_of_uint : uint -> coq_N list **)

let rec digits_of_uint = function
| Nil -> []
| D0 r ->
  (Npos (Coq_xO (Coq_xO (Coq_xO (Coq_xO (Coq_xI
    Coq_xH)))))) :: (digits_of_uint r)
| D1 r ->
  (Npos (Coq_xI (Coq_xO (Coq_xO (Coq_xO (Coq_xI
    Coq_xH)))))) :: (digits_of_uint r)
| D2 r ->
  (Npos (Coq_xO (Coq_xI (Coq_xO (Coq_xO (Coq_xI
    Coq_xH)))))) :: (digits_of_uint r)
| D3 r ->
  (Npos (Coq_xI (Coq_xI (Coq_xO (Coq_xO (Coq_xI
    Coq_xH)))))) :: (digits_of_uint r)
| D4 r ->
  (Npos (Coq_xO (Coq_xO (Coq_xI (Coq_xO (Coq_xI
    Coq_xH)))))) :: (digits_of_uint r)
| D5 r ->
  (Npos (Coq_xI (Coq_xO (Coq_xI (Coq_xO (Coq_xI
    Coq_xH)))))) :: (digits_of_uint r)
| D6 r ->
  (Npos (Coq_xO (Coq_xI (Coq_xI (Coq_xO (Coq_xI
    Coq_xH)))))) :: (digits_of_uint r)
| D7 r ->
  (Npos (Coq_xI (Coq_xI (Coq_xI (Coq_xO (Coq_xI
    Coq_xH)))))) :: (digits_of_uint r)
| D8 r ->
  (Npos (Coq_xO (Coq_xO (Coq_xO (Coq_xI (Coq_xI
    Coq_xH)))))) :: (digits_of_uint r)
| D9 r ->
  (Npos (Coq_xI (Coq_xO (Coq_xO (Coq_xI (Coq_xI
    Coq_xH)))))) :: (digits_of_uint r)

(** val decimal : coq_N -> coq_N list **)

let decimal n =
  digits_of_uint (N.to_uint n)

(** val rank_text : (color * piece) option list -> coq_N -> coq_N list **)

let rec rank_text cells run =
  match cells with
  | [] -> if N.eqb run N0 then [] else decimal run
  | o :: tl ->
    (match o with
     | Some p ->
       let (c, k) = p in
       app (if N.eqb run N0 then [] else decimal run)
         ((letter c k) :: (rank_text tl N0))
     | None -> rank_text tl (N.add run (Npos Coq_xH)))

(** val rank_cells : pos -> coq_Z -> (color * piece) option list **)

let rank_cells p r =
  map (fun f -> p.p_at (sq_of f r)) (Z0 :: ((Zpos Coq_xH) :: ((Zpos (Coq_xO
    Coq_xH)) :: ((Zpos (Coq_xI Coq_xH)) :: ((Zpos (Coq_xO (Coq_xO
    Coq_xH))) :: ((Zpos (Coq_xI (Coq_xO Coq_xH))) :: ((Zpos (Coq_xO (Coq_xI
    Coq_xH))) :: ((Zpos (Coq_xI (Coq_xI Coq_xH))) :: []))))))))

(** val placement : pos -> coq_N list **)

let placement p =
  app (rank_text (rank_cells p (Zpos (Coq_xI (Coq_xI Coq_xH)))) N0)
    (app ((Npos (Coq_xI (Coq_xI (Coq_xI (Coq_xI (Coq_xO Coq_xH)))))) :: [])
      (app (rank_text (rank_cells p (Zpos (Coq_xO (Coq_xI Coq_xH)))) N0)
        (app ((Npos (Coq_xI (Coq_xI (Coq_xI (Coq_xI (Coq_xO
          Coq_xH)))))) :: [])
          (app (rank_text (rank_cells p (Zpos (Coq_xI (Coq_xO Coq_xH)))) N0)
            (app ((Npos (Coq_xI (Coq_xI (Coq_xI (Coq_xI (Coq_xO
              Coq_xH)))))) :: [])
              (app
                (rank_text (rank_cells p (Zpos (Coq_xO (Coq_xO Coq_xH)))) N0)
                (app ((Npos (Coq_xI (Coq_xI (Coq_xI (Coq_xI (Coq_xO
                  Coq_xH)))))) :: [])
                  (app (rank_text (rank_cells p (Zpos (Coq_xI Coq_xH))) N0)
                    (app ((Npos (Coq_xI (Coq_xI (Coq_xI (Coq_xI (Coq_xO
                      Coq_xH)))))) :: [])
                      (app
                        (rank_text (rank_cells p (Zpos (Coq_xO Coq_xH))) N0)
                        (app ((Npos (Coq_xI (Coq_xI (Coq_xI (Coq_xI (Coq_xO
                          Coq_xH)))))) :: [])
                          (app (rank_text (rank_cells p (Zpos Coq_xH)) N0)
                            (app ((Npos (Coq_xI (Coq_xI (Coq_xI (Coq_xI
                              (Coq_xO Coq_xH)))))) :: [])
                              (rank_text (rank_cells p Z0) N0))))))))))))))

(** val square_name : coq_N -> coq_N list **)

let square_name s =
  (N.add (Npos (Coq_xI (Coq_xO (Coq_xO (Coq_xO (Coq_xO (Coq_xI Coq_xH)))))))
    (N.modulo s (Npos (Coq_xO (Coq_xO (Coq_xO Coq_xH)))))) :: ((N.add (Npos
                                                                 (Coq_xI
                                                                 (Coq_xO
                                                                 (Coq_xO
                                                                 (Coq_xO
                                                                 (Coq_xI
                                                                 Coq_xH))))))
                                                                 (N.div s
                                                                   (Npos
                                                                   (Coq_xO
                                                                   (Coq_xO
                                                                   (Coq_xO
                                                                   Coq_xH)))))) :: [])

(** val rights_text : pos -> coq_N list **)

let rights_text p =
  let t =
    app
      (if p.p_right White true
       then (Npos (Coq_xI (Coq_xI (Coq_xO (Coq_xI (Coq_xO (Coq_xO
              Coq_xH))))))) :: []
       else [])
      (app
        (if p.p_right White false
         then (Npos (Coq_xI (Coq_xO (Coq_xO (Coq_xO (Coq_xI (Coq_xO
                Coq_xH))))))) :: []
         else [])
        (app
          (if p.p_right Black true
           then (Npos (Coq_xI (Coq_xI (Coq_xO (Coq_xI (Coq_xO (Coq_xI
                  Coq_xH))))))) :: []
           else [])
          (if p.p_right Black false
           then (Npos (Coq_xI (Coq_xO (Coq_xO (Coq_xO (Coq_xI (Coq_xI
                  Coq_xH))))))) :: []
           else [])))
  in
  (match t with
   | [] -> (Npos (Coq_xI (Coq_xO (Coq_xI (Coq_xI (Coq_xO Coq_xH)))))) :: []
   | _ :: _ -> t)

(** val write : pos -> coq_N list **)

let write p =
  app (placement p)
    (app ((Npos (Coq_xO (Coq_xO (Coq_xO (Coq_xO (Coq_xO Coq_xH)))))) :: [])
      (app
        ((match p.p_turn with
          | White ->
            Npos (Coq_xI (Coq_xI (Coq_xI (Coq_xO (Coq_xI (Coq_xI Coq_xH))))))
          | Black ->
            Npos (Coq_xO (Coq_xI (Coq_xO (Coq_xO (Coq_xO (Coq_xI Coq_xH))))))) :: [])
        (app ((Npos (Coq_xO (Coq_xO (Coq_xO (Coq_xO (Coq_xO
          Coq_xH)))))) :: [])
          (app (rights_text p)
            (app ((Npos (Coq_xO (Coq_xO (Coq_xO (Coq_xO (Coq_xO
              Coq_xH)))))) :: [])
              (app
                (match p.p_ep with
                 | Some t -> square_name t
                 | None ->
                   (Npos (Coq_xI (Coq_xO (Coq_xI (Coq_xI (Coq_xO
                     Coq_xH)))))) :: [])
                (app ((Npos (Coq_xO (Coq_xO (Coq_xO (Coq_xO (Coq_xO
                  Coq_xH)))))) :: [])
                  (app (decimal p.p_half)
                    (app ((Npos (Coq_xO (Coq_xO (Coq_xO (Coq_xO (Coq_xO
                      Coq_xH)))))) :: []) (decimal p.p_full))))))))))
