open Attacks
open BinNat
open BinNums
open Bits
open Board
open Consts
open Datatypes
open List
open MoveEnc
open Nat
open Types

val forward_dr : color -> coq_Z

val backward_dr : color -> coq_Z

val own_backrank_mask : color -> coq_N

val own_pawn_home_mask : color -> coq_N

val sat_add1 : coq_N -> coq_N

val apply_move : state -> coq_N -> state option

val unwrap_sq : coq_N option -> coq_N

val cap_kind : board -> coq_N -> piece

val pawn_moves : state -> coq_N list

val expand_moves : state -> coq_N -> coq_N -> piece -> coq_N list

val knight_moves : state -> coq_N list

val castle_mask : coq_N list -> bool -> color -> coq_N

val king_moves : state -> coq_N list

val slider_moves : state -> piece -> (coq_N -> coq_N -> coq_N) -> coq_N list

val pseudo_legal : state -> coq_N list

val try_as_legal : state -> coq_N -> (coq_N * state) option

val gen_panics : state -> bool

val filter_map : ('a1 -> 'a2 option) -> 'a1 list -> 'a2 list

val gen_legal : state -> (coq_N * state) list

val perft : nat -> state -> coq_N

type resolve_result =
| ROk of state
| RAmbiguous
| RUnknown
| RIllegalEp

val resolve : state -> mquery list -> resolve_result
