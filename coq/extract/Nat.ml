open Datatypes

(** val add : nat -> nat -> nat **)

let rec add n m =
  match n with
  | O -> m
  | S p -> S (add p m)
