open BinNums
open BinPosDef
open Datatypes
open Decimal
open Nat

module Pos =
 struct
  (** val succ : positive -> positive **)

  let rec succ = function
  | Coq_xI p -> Coq_xO (succ p)
  | Coq_xO p -> Coq_xI p
  | Coq_xH -> Coq_xO Coq_xH

  (** val add : positive -> positive -> positive **)

  let rec add x y =
    match x with
    | Coq_xI p ->
      (match y with
       | Coq_xI q -> Coq_xO (add_carry p q)
       | Coq_xO q -> Coq_xI (add p q)
       | Coq_xH -> Coq_xO (succ p))
    | Coq_xO p ->
      (match y with
       | Coq_xI q -> Coq_xI (add p q)
       | Coq_xO q -> Coq_xO (add p q)
       | Coq_xH -> Coq_xI p)
    | Coq_xH ->
      (match y with
       | Coq_xI q -> Coq_xO (succ q)
       | Coq_xO q -> Coq_xI q
       | Coq_xH -> Coq_xO Coq_xH)

  (** val add_carry : positive -> positive -> positive **)

  and add_carry x y =
    match x with
    | Coq_xI p ->
      (match y with
       | Coq_xI q -> Coq_xI (add_carry p q)
       | Coq_xO q -> Coq_xO (add_carry p q)
       | Coq_xH -> Coq_xI (succ p))
    | Coq_xO p ->
      (match y with
       | Coq_xI q -> Coq_xO (add_carry p q)
       | Coq_xO q -> Coq_xI (add p q)
       | Coq_xH -> Coq_xO (succ p))
    | Coq_xH ->
      (match y with
       | Coq_xI q -> Coq_xI (succ q)
       | Coq_xO q -> Coq_xO (succ q)
       | Coq_xH -> Coq_xI Coq_xH)

  (** val pred_double : positive -> positive **)

  let rec pred_double = function
  | Coq_xI p -> Coq_xI (Coq_xO p)
  | Coq_xO p -> Coq_xI (pred_double p)
  | Coq_xH -> Coq_xH

  (** val pred_N : positive -> coq_N **)

  let pred_N = function
  | Coq_xI p -> Npos (Coq_xO p)
  | Coq_xO p -> Npos (pred_double p)
  | Coq_xH -> N0

  type mask = Pos.mask =
  | IsNul
  | IsPos of positive
  | IsNeg

  (** val succ_double_mask : mask -> mask **)

  let succ_double_mask = function
  | IsNul -> IsPos Coq_xH
  | IsPos p -> IsPos (Coq_xI p)
  | IsNeg -> IsNeg

  (** val double_mask : mask -> mask **)

  let double_mask = function
  | IsPos p -> IsPos (Coq_xO p)
  | x0 -> x0

  (** val double_pred_mask : positive -> mask **)

  let double_pred_mask = function
  | Coq_xI p -> IsPos (Coq_xO (Coq_xO p))
  | Coq_xO p -> IsPos (Coq_xO (pred_double p))
  | Coq_xH -> IsNul

  (** val sub_mask : positive -> positive -> mask **)

  let rec sub_mask x y =
    match x with
    | Coq_xI p ->
      (match y with
       | Coq_xI q -> double_mask (sub_mask p q)
       | Coq_xO q -> succ_double_mask (sub_mask p q)
       | Coq_xH -> IsPos (Coq_xO p))
    | Coq_xO p ->
      (match y with
       | Coq_xI q -> succ_double_mask (sub_mask_carry p q)
       | Coq_xO q -> double_mask (sub_mask p q)
       | Coq_xH -> IsPos (pred_double p))
    | Coq_xH -> (match y with
                 | Coq_xH -> IsNul
                 | _ -> IsNeg)

  (** val sub_mask_carry : positive -> positive -> mask **)

  and sub_mask_carry x y =
    match x with
    | Coq_xI p ->
      (match y with
       | Coq_xI q -> succ_double_mask (sub_mask_carry p q)
       | Coq_xO q -> double_mask (sub_mask p q)
       | Coq_xH -> IsPos (pred_double p))
    | Coq_xO p ->
      (match y with
       | Coq_xI q -> double_mask (sub_mask_carry p q)
       | Coq_xO q -> succ_double_mask (sub_mask_carry p q)
       | Coq_xH -> double_pred_mask p)
    | Coq_xH -> IsNeg

  (** val mul : positive -> positive -> positive **)

  let rec mul x y =
    match x with
    | Coq_xI p -> add y (Coq_xO (mul p y))
    | Coq_xO p -> Coq_xO (mul p y)
    | Coq_xH -> y

  (** val iter : ('a1 -> 'a1) -> 'a1 -> positive -> 'a1 **)

  let rec iter f x = function
  | Coq_xI n' -> f (iter f (iter f x n') n')
  | Coq_xO n' -> iter f (iter f x n') n'
  | Coq_xH -> f x

  (** val size : positive -> positive **)

  let rec size = function
  | Coq_xI p0 -> succ (size p0)
  | Coq_xO p0 -> succ (size p0)
  | Coq_xH -> Coq_xH

  (** val compare_cont : comparison -> positive -> positive -> comparison **)

  let rec compare_cont r x y =
    match x with
    | Coq_xI p ->
      (match y with
       | Coq_xI q -> compare_cont r p q
       | Coq_xO q -> compare_cont Gt p q
       | Coq_xH -> Gt)
    | Coq_xO p ->
      (match y with
       | Coq_xI q -> compare_cont Lt p q
       | Coq_xO q -> compare_cont r p q
       | Coq_xH -> Gt)
    | Coq_xH -> (match y with
                 | Coq_xH -> r
                 | _ -> Lt)

  (** val compare : positive -> positive -> comparison **)

  let compare =
    compare_cont Eq

  (** val eqb : positive -> positive -> bool **)

  let rec eqb p q =
    match p with
    | Coq_xI p0 -> (match q with
                    | Coq_xI q0 -> eqb p0 q0
                    | _ -> false)
    | Coq_xO p0 -> (match q with
                    | Coq_xO q0 -> eqb p0 q0
                    | _ -> false)
    | Coq_xH -> (match q with
                 | Coq_xH -> true
                 | _ -> false)

  (** val coq_Nsucc_double : coq_N -> coq_N **)

  let coq_Nsucc_double = function
  | N0 -> Npos Coq_xH
  | Npos p -> Npos (Coq_xI p)

  (** val coq_Ndouble : coq_N -> coq_N **)

  let coq_Ndouble = function
  | N0 -> N0
  | Npos p -> Npos (Coq_xO p)

  (** val coq_lor : positive -> positive -> positive **)

  let rec coq_lor p q =
    match p with
    | Coq_xI p0 ->
      (match q with
       | Coq_xI q0 -> Coq_xI (coq_lor p0 q0)
       | Coq_xO q0 -> Coq_xI (coq_lor p0 q0)
       | Coq_xH -> p)
    | Coq_xO p0 ->
      (match q with
       | Coq_xI q0 -> Coq_xI (coq_lor p0 q0)
       | Coq_xO q0 -> Coq_xO (coq_lor p0 q0)
       | Coq_xH -> Coq_xI p0)
    | Coq_xH -> (match q with
                 | Coq_xO q0 -> Coq_xI q0
                 | _ -> q)

  (** val coq_land : positive -> positive -> coq_N **)

  let rec coq_land p q =
    match p with
    | Coq_xI p0 ->
      (match q with
       | Coq_xI q0 -> coq_Nsucc_double (coq_land p0 q0)
       | Coq_xO q0 -> coq_Ndouble (coq_land p0 q0)
       | Coq_xH -> Npos Coq_xH)
    | Coq_xO p0 ->
      (match q with
       | Coq_xI q0 -> coq_Ndouble (coq_land p0 q0)
       | Coq_xO q0 -> coq_Ndouble (coq_land p0 q0)
       | Coq_xH -> N0)
    | Coq_xH -> (match q with
                 | Coq_xO _ -> N0
                 | _ -> Npos Coq_xH)

  (** val ldiff : positive -> positive -> coq_N **)

  let rec ldiff p q =
    match p with
    | Coq_xI p0 ->
      (match q with
       | Coq_xI q0 -> coq_Ndouble (ldiff p0 q0)
       | Coq_xO q0 -> coq_Nsucc_double (ldiff p0 q0)
       | Coq_xH -> Npos (Coq_xO p0))
    | Coq_xO p0 ->
      (match q with
       | Coq_xI q0 -> coq_Ndouble (ldiff p0 q0)
       | Coq_xO q0 -> coq_Ndouble (ldiff p0 q0)
       | Coq_xH -> Npos p)
    | Coq_xH -> (match q with
                 | Coq_xO _ -> Npos Coq_xH
                 | _ -> N0)

  (** val coq_lxor : positive -> positive -> coq_N **)

  let rec coq_lxor p q =
    match p with
    | Coq_xI p0 ->
      (match q with
       | Coq_xI q0 -> coq_Ndouble (coq_lxor p0 q0)
       | Coq_xO q0 -> coq_Nsucc_double (coq_lxor p0 q0)
       | Coq_xH -> Npos (Coq_xO p0))
    | Coq_xO p0 ->
      (match q with
       | Coq_xI q0 -> coq_Nsucc_double (coq_lxor p0 q0)
       | Coq_xO q0 -> coq_Ndouble (coq_lxor p0 q0)
       | Coq_xH -> Npos (Coq_xI p0))
    | Coq_xH ->
      (match q with
       | Coq_xI q0 -> Npos (Coq_xO q0)
       | Coq_xO q0 -> Npos (Coq_xI q0)
       | Coq_xH -> N0)

  (** val shiftl : positive -> coq_N -> positive **)

  let shiftl p = function
  | N0 -> p
  | Npos n0 -> iter (fun x -> Coq_xO x) p n0

  (** val testbit : positive -> coq_N -> bool **)

  let rec testbit p n =
    match p with
    | Coq_xI p0 ->
      (match n with
       | N0 -> true
       | Npos n0 -> testbit p0 (pred_N n0))
    | Coq_xO p0 ->
      (match n with
       | N0 -> false
       | Npos n0 -> testbit p0 (pred_N n0))
    | Coq_xH -> (match n with
                 | N0 -> true
                 | Npos _ -> false)

  (** val iter_op : ('a1 -> 'a1 -> 'a1) -> positive -> 'a1 -> 'a1 **)

  let rec iter_op op p a =
    match p with
    | Coq_xI p0 -> op a (iter_op op p0 (op a a))
    | Coq_xO p0 -> iter_op op p0 (op a a)
    | Coq_xH -> a

  (** val to_nat : positive -> nat **)

  let to_nat x =
    iter_op Nat.add x (S O)

  (** val of_succ_nat : nat -> positive **)

  let rec of_succ_nat = function
  | O -> Coq_xH
  | S x -> succ (of_succ_nat x)

  (** val to_little_uint : positive -> uint **)

  let rec to_little_uint = function
  | Coq_xI p0 -> Little.succ_double (to_little_uint p0)
  | Coq_xO p0 -> Little.double (to_little_uint p0)
  | Coq_xH -> D1 Nil

  (** val to_uint : positive -> uint **)

  let to_uint p =
    rev (to_little_uint p)
 end
