open Datatypes

val nth : nat -> 'a1 list -> 'a1 -> 'a1

val nth_error : 'a1 list -> nat -> 'a1 option

val rev : 'a1 list -> 'a1 list

val map : ('a1 -> 'a2) -> 'a1 list -> 'a2 list

val flat_map : ('a1 -> 'a2 list) -> 'a1 list -> 'a2 list

val fold_left : ('a1 -> 'a2 -> 'a1) -> 'a2 list -> 'a1 -> 'a1

val existsb : ('a1 -> bool) -> 'a1 list -> bool

val forallb : ('a1 -> bool) -> 'a1 list -> bool

val filter : ('a1 -> bool) -> 'a1 list -> 'a1 list

val find : ('a1 -> bool) -> 'a1 list -> 'a1 option

val firstn : nat -> 'a1 list -> 'a1 list

val skipn : nat -> 'a1 list -> 'a1 list

val seq : nat -> nat -> nat list
