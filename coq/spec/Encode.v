(* The canonical packed move for a rules-level move in a given state: the attributes a generated move
   must carry (moving kind and colour, captured kind, promotion, en-passant flag, castling side,
   double-step flag) are BY DEFINITION those computed here from the board.  The refinement theorems
   say that the generator produces exactly { enc_move s mv | mv legal }. *)
From WV Require Export Wf.
Open Scope N_scope.

(* extensional equality of rules-level positions (no functional extensionality is assumed) *)
Definition pos_eq (p q : pos) : Prop :=
  (forall s, p_at p s = p_at q s) /\ p_turn p = p_turn q /\
  (forall c k, p_right p c k = p_right q c k) /\ p_ep p = p_ep q /\
  p_half p = p_half q /\ p_full p = p_full q.

Definition kind_on (b : board) (s : N) : option piece :=
  match piece_at b s with Some (_, k) => Some k | None => None end.

Definition enc_move (s : state) (mv : move) : N :=
  let b := st_board s in
  let c := st_turn s in
  let f := mv_from mv in
  let t := mv_to mv in
  match kind_on b f with
  | Some King =>
      if (file_of f + 2 =? file_of t) && (rank_of f =? rank_of t) then by_castling c true
      else if (file_of t + 2 =? file_of f) && (rank_of f =? rank_of t) then by_castling c false
      else set_capture (by_moving c King f t) (kind_on b t)
  | Some Pawn =>
      if negb (file_of f =? file_of t) && (match kind_on b t with None => true | Some _ => false end)
      then by_en_passant c Pawn f t
      else set_promotion (set_capture (by_moving c Pawn f t) (kind_on b t)) (mv_promo mv)
  | Some k => set_capture (by_moving c k f t) (kind_on b t)
  | None => 0
  end.

(* what the generator's pseudo-legal list contains, at the rules level: the FIDE pseudo-legal moves,
   except that plain king steps onto a square in the opponent's attack set are already left out
   (squares holding an opposing piece are never in that set, so captures of defended pieces stay in
   and are rejected later by the legality filter) *)
Definition king_step_prefiltered (p : pos) (mv : move) : bool :=
  let c := p_turn p in
  has p (mv_from mv) c King
  && attacks_from p c King (mv_from mv) (mv_to mv)
  && attacked p (opp c) (mv_to mv) && negb (colour_at p (mv_to mv) (opp c)).

Definition gen_pseudo (p : pos) (mv : move) : bool :=
  Rules.pseudo_legal p mv && negb (king_step_prefiltered p mv).
