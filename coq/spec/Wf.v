(* Well-formedness predicates shared by the theorems: arbitrary placements (WfBoard), arbitrary states
   (WfState) and "every legal chess position" (LegalPos = WfState + Rules.legal_pos of the abstraction). *)
From WV Require Export Abs.
Open Scope N_scope.

Definition all_slots (b : board) : list N :=
  [wP b; wN b; wB b; wR b; wQ b; wK b; bP b; bN b; bB b; bR b; bQ b; bK b].

Fixpoint pairwise_disjoint (l : list N) : bool :=
  match l with
  | [] => true
  | x :: tl => forallb (fun y => N.land x y =? 0) tl && pairwise_disjoint tl
  end.

(* sixteen-slot piece map of the code: the twelve real slots are below 2^64 and pairwise disjoint
   (the two Piece::None slots are always empty and are not modelled) *)
Definition wf_boardb (b : board) : bool :=
  forallb (fun x => x <? two64) (all_slots b) && pairwise_disjoint (all_slots b).
Definition WfBoard (b : board) : Prop := wf_boardb b = true.

Definition wf_stateb (s : state) : bool :=
  wf_boardb (st_board s)
  && (match st_ep s with Some t => t <? 64 | None => true end)
  && (st_half s <? two64) && (st_full s <? two64).
Definition WfState (s : state) : Prop := wf_stateb s = true.

(* a rules-level position that only carries a placement (for statements about attack sets) *)
Definition pos_of_board (b : board) : pos :=
  mkPos (piece_at b) White (fun _ _ => false) None 0 0.

Definition legal_posb (s : state) : bool := wf_stateb s && Rules.legal_pos (abs s).
Definition LegalPos (s : state) : Prop := legal_posb s = true.

(* the guard under which usize + 1 does not saturate *)
Definition clock_ok (s : state) : Prop := st_half s < mask64 /\ st_full s < mask64.
