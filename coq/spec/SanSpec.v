(* An independent SAN writer on the rules-level position: every admissible spelling of a legal move
   (piece letter, any unambiguous origin disambiguation from the minimal one up to the full square,
   capture mark, '=Q' or 'Q' promotion suffix, optional '+' / '#', O-O / O-O-O), and the fully qualified
   spelling of a pseudo-legal but illegal move (negative cases).  Text = list of code points. *)
From WV Require Export Rules.
Open Scope N_scope.

Definition kind_letter (k : piece) : list N :=
  match k with Knight => [78] | Bishop => [66] | Rook => [82] | Queen => [81] | King => [75] | _ => [] end.
Definition promo_letter (k : piece) : N :=
  match k with Knight => 78 | Bishop => 66 | Rook => 82 | _ => 81 end.
Definition file_ch (s : N) : N := 97 + s mod 8.
Definition rank_ch (s : N) : N := 49 + s / 8.
Definition sq_text (s : N) : list N := [file_ch s; rank_ch s].

Definition kind_at (p : pos) (s : N) : piece := match p_at p s with Some (_, k) => k | None => PNone end.
Definition is_capture (p : pos) (m : move) : bool :=
  negb (empty_at p (mv_to m))
  || (piece_eqb (kind_at p (mv_from m)) Pawn && negb (N.eqb (mv_from m mod 8) (mv_to m mod 8))).
Definition castle_of (p : pos) (m : move) : option bool :=
  if piece_eqb (kind_at p (mv_from m)) King then
    if N.eqb (mv_from m + 2) (mv_to m) then Some true
    else if N.eqb (mv_to m + 2) (mv_from m) then Some false else None
  else None.

Definition opt_piece_eqb (a b : option piece) : bool :=
  match a, b with Some x, Some y => piece_eqb x y | None, None => true | _, _ => false end.

(* the legal moves a spelling with origin hint (use_file, use_rank) could denote: same kind, same
   destination, same promotion, origin agreeing with the hint *)
Definition rivals (p : pos) (m : move) (use_file use_rank : bool) : list move :=
  filter (fun m' =>
    piece_eqb (kind_at p (mv_from m')) (kind_at p (mv_from m))
    && N.eqb (mv_to m') (mv_to m) && opt_piece_eqb (mv_promo m') (mv_promo m)
    && (negb use_file || N.eqb (mv_from m' mod 8) (mv_from m mod 8))
    && (negb use_rank || N.eqb (mv_from m' / 8) (mv_from m / 8))) (legal_moves p).

Definition unambiguous (p : pos) (m : move) (uf ur : bool) : bool :=
  match rivals p m uf ur with [_] => true | _ => false end.

Definition check_mark (p : pos) (m : move) : list (list N) :=
  let n := apply p m in
  if king_attacked n (p_turn n) then
    (match legal_moves n with [] => [[]; [35]] | _ => [[]; [43]] end)
  else [[]].

Definition promo_suffixes (m : move) : list (list N) :=
  match mv_promo m with Some k => [[61; promo_letter k]; [promo_letter k]] | None => [[]] end.

Definition hint_text (m : move) (uf ur : bool) : list N :=
  (if uf then [file_ch (mv_from m)] else []) ++ (if ur then [rank_ch (mv_from m)] else []).

(* all admissible spellings of the legal move m *)
Definition spellings (p : pos) (m : move) : list (list N) :=
  match castle_of p m with
  | Some side =>
      let base := if side then [79; 45; 79] else [79; 45; 79; 45; 79] in
      map (fun c => base ++ c) (check_mark p m)
  | None =>
      let k := kind_at p (mv_from m) in
      let cap := is_capture p m in
      let pawn := piece_eqb k Pawn in
      let hints := if pawn then (if cap then [(true, false)] else [(false, false)])
                   else [(false, false); (true, false); (false, true); (true, true)] in
      let caps := if cap then (if pawn then [[120]] else [[120]; []]) else [[]] in
      flat_map (fun h =>
        if unambiguous p m (fst h) (snd h) then
          flat_map (fun cm => flat_map (fun ps => map (fun ck =>
            kind_letter k ++ hint_text m (fst h) (snd h) ++ cm ++ sq_text (mv_to m) ++ ps ++ ck)
            (check_mark p m)) (promo_suffixes m)) caps
        else []) hints
  end.

(* the fully qualified spelling of any move (used for pseudo-legal but illegal moves) *)
Definition long_form (p : pos) (m : move) : list N :=
  let k := kind_at p (mv_from m) in
  kind_letter k ++ sq_text (mv_from m) ++ (if is_capture p m then [120] else []) ++ sq_text (mv_to m)
  ++ match mv_promo m with Some k' => [61; promo_letter k'] | None => [] end.

Definition illegal_pseudo_moves (p : pos) : list move :=
  flat_map (fun f =>
    if colour_at p f (p_turn p) then
      flat_map (fun t => flat_map (fun pr =>
        let m := mkMove f t pr in
        if pseudo_legal p m && negb (legal p m) then
          (match castle_of p m with Some _ => [] | None => [m] end) else []) promo_options) all_squares
    else []) all_squares.
