(* abstraction from the implementation model's state / packed move to the rules specification *)
From WV Require Export Notation Rules.
Open Scope N_scope.

Definition abs (s : state) : pos :=
  mkPos (piece_at (st_board s)) (st_turn s) (castle_right s) (st_ep s) (st_half s) (st_full s).
Definition absm (m : N) : move := mkMove (m_origin m) (m_dest m) (m_promotion m).
