(* The rules of chess, written from the FIDE Laws on a square -> piece map with coordinate
   arithmetic.  No bitboards, attack tables or packed moves.  This is the oracle: the theorems relate
   the implementation model to it, and the violation search runs the real code against it.
   Squares are numbered 0..63, file = s mod 8 (a..h), rank = s / 8 (1..8). *)
From WV Require Export Types.
Open Scope Z_scope.

Definition sfile (s : N) : Z := Z.of_N (s mod 8).
Definition srank (s : N) : Z := Z.of_N (s / 8).
Definition on_board (f r : Z) : bool := (0 <=? f) && (f <=? 7) && (0 <=? r) && (r <=? 7).
Definition sq_of (f r : Z) : N := Z.to_N (r * 8 + f).

Record pos := mkPos {
  p_at : N -> option (color * piece);
  p_turn : color;
  p_right : color -> bool -> bool;       (* colour, king side? *)
  p_ep : option N;
  p_half : N;
  p_full : N }.

Definition all_squares : list N := map N.of_nat (seq 0 64).

Definition empty_at (p : pos) (s : N) : bool := match p_at p s with None => true | Some _ => false end.
Definition has (p : pos) (s : N) (c : color) (k : piece) : bool :=
  match p_at p s with Some (c', k') => color_eqb c c' && piece_eqb k k' | None => false end.
Definition colour_at (p : pos) (s : N) (c : color) : bool :=
  match p_at p s with Some (c', _) => color_eqb c c' | None => false end.

Definition fwd (c : color) : Z := match c with White => 1 | Black => -1 end.

(* all squares strictly between (f,r) and (f',r') along the step (sf,sr) are empty *)
Fixpoint clear_path (p : pos) (fuel : nat) (f r sf sr f' r' : Z) : bool :=
  match fuel with
  | O => false
  | S k => let nf := f + sf in let nr := r + sr in
           if (nf =? f') && (nr =? r') then true
           else on_board nf nr && empty_at p (sq_of nf nr) && clear_path p k nf nr sf sr f' r'
  end.

(* Art. 3: does a piece of colour c and kind k standing on [from] attack [to]? *)
Definition attacks_from (p : pos) (c : color) (k : piece) (from to : N) : bool :=
  let df := sfile to - sfile from in
  let dr := srank to - srank from in
  let line := clear_path p 7 (sfile from) (srank from) (Z.sgn df) (Z.sgn dr) (sfile to) (srank to) in
  match k with
  | Pawn => (Z.abs df =? 1) && (dr =? fwd c)
  | Knight => ((Z.abs df =? 1) && (Z.abs dr =? 2)) || ((Z.abs df =? 2) && (Z.abs dr =? 1))
  | King => (Z.max (Z.abs df) (Z.abs dr) =? 1)
  | Rook => negb ((df =? 0) && (dr =? 0)) && ((df =? 0) || (dr =? 0)) && line
  | Bishop => negb (df =? 0) && (Z.abs df =? Z.abs dr) && line
  | Queen => negb ((df =? 0) && (dr =? 0)) && ((df =? 0) || (dr =? 0) || (Z.abs df =? Z.abs dr)) && line
  | PNone => false
  end.

(* square t is attacked by some piece of colour c *)
Definition attacked (p : pos) (c : color) (t : N) : bool :=
  existsb (fun f => match p_at p f with
                    | Some (c', k) => color_eqb c c' && attacks_from p c k f t
                    | None => false end) all_squares.

Definition king_attacked (p : pos) (c : color) : bool :=
  existsb (fun s => has p s c King && attacked p (opp c) s) all_squares.

(* a move: origin, destination, promotion kind *)
Record move := mkMove { mv_from : N; mv_to : N; mv_promo : option piece }.

Definition home_rank (c : color) : Z := match c with White => 1 | Black => 6 end.
Definition last_rank (c : color) : Z := match c with White => 7 | Black => 0 end.
Definition back_rank (c : color) : Z := match c with White => 0 | Black => 7 end.
Definition king_home (c : color) : N := sq_of 4 (back_rank c).
Definition rook_home (c : color) (kingside : bool) : N := sq_of (if kingside then 7 else 0) (back_rank c).

Definition is_promo_kind (k : piece) : bool :=
  match k with Queen | Rook | Bishop | Knight => true | _ => false end.

(* castling, Art. 3.8.2 *)
Definition castle_ok (p : pos) (c : color) (kingside : bool) : bool :=
  let r := back_rank c in
  p_right p c kingside
  && has p (king_home c) c King && has p (rook_home c kingside) c Rook
  && (if kingside then empty_at p (sq_of 5 r) && empty_at p (sq_of 6 r)
      else empty_at p (sq_of 1 r) && empty_at p (sq_of 2 r) && empty_at p (sq_of 3 r))
  && negb (attacked p (opp c) (sq_of 4 r))
  && (if kingside then negb (attacked p (opp c) (sq_of 5 r)) && negb (attacked p (opp c) (sq_of 6 r))
      else negb (attacked p (opp c) (sq_of 3 r)) && negb (attacked p (opp c) (sq_of 2 r))).

Definition is_castle_move (p : pos) (m : move) : option bool :=
  let c := p_turn p in
  if has p (mv_from m) c King && (N.eqb (mv_from m) (king_home c)) && (srank (mv_to m) =? back_rank c) then
    if sfile (mv_to m) =? 6 then Some true else if sfile (mv_to m) =? 2 then Some false else None
  else None.

Definition pseudo_legal (p : pos) (m : move) : bool :=
  let c := p_turn p in
  let f := mv_from m in let t := mv_to m in
  match p_at p f with
  | Some (c', k) =>
      color_eqb c c' && negb (colour_at p t c) && negb (N.eqb f t) &&
      match k with
      | Pawn =>
          let df := sfile t - sfile f in let dr := srank t - srank f in
          ((* push *)      ((df =? 0) && (dr =? fwd c) && empty_at p t)
           (* double *) || ((df =? 0) && (dr =? 2 * fwd c) && (srank f =? home_rank c)
                            && empty_at p (sq_of (sfile f) (srank f + fwd c)) && empty_at p t)
           (* capture *)|| ((Z.abs df =? 1) && (dr =? fwd c) && colour_at p t (opp c))
           (* e.p. *)   || ((Z.abs df =? 1) && (dr =? fwd c) && empty_at p t
                            && match p_ep p with Some e => N.eqb e t | None => false end))
          && (if srank t =? last_rank c
              then match mv_promo m with Some k' => is_promo_kind k' | None => false end
              else match mv_promo m with None => true | Some _ => false end)
      | King =>
          match mv_promo m with Some _ => false | None =>
            attacks_from p c King f t
            || match is_castle_move p m with Some side => castle_ok p c side | None => false end
          end
      | PNone => false
      | _ => match mv_promo m with Some _ => false | None => attacks_from p c k f t end
      end
  | None => false
  end.

(* the position after a move, Art. 3 and the FEN bookkeeping *)
Definition apply (p : pos) (m : move) : pos :=
  let c := p_turn p in
  let f := mv_from m in let t := mv_to m in
  let k := match p_at p f with Some (_, k) => k | None => PNone end in
  let is_pawn := piece_eqb k Pawn in
  let is_king := piece_eqb k King in
  let capture := negb (empty_at p t) in
  let ep_capture := is_pawn && negb (sfile f =? sfile t) && empty_at p t in
  let ep_victim := sq_of (sfile t) (srank f) in
  let castle := if is_king && (Z.abs (sfile t - sfile f) =? 2) then Some (sfile t =? 6) else None in
  let placed := match mv_promo m with Some k' => k' | None => k end in
  let at' (s : N) : option (color * piece) :=
    if N.eqb s t then Some (c, placed)
    else if N.eqb s f then None
    else if ep_capture && N.eqb s ep_victim then None
    else match castle with
         | Some side =>
             if N.eqb s (rook_home c side) then None
             else if N.eqb s (sq_of (if side then 5 else 3) (back_rank c)) then Some (c, Rook)
             else p_at p s
         | None => p_at p s
         end in
  let right' (c0 : color) (side : bool) : bool :=
    p_right p c0 side
    && negb (is_king && color_eqb c c0)                          (* the king of that colour moved *)
    && negb (N.eqb f (rook_home c0 side))                        (* the rook left its corner *)
    && negb (N.eqb t (rook_home c0 side)) in                     (* something landed on the corner *)
  mkPos at' (opp c) right'
        (if is_pawn && (Z.abs (srank t - srank f) =? 2) then Some (sq_of (sfile f) (srank f + fwd c)) else None)
        (if is_pawn || capture || ep_capture then 0%N else (p_half p + 1)%N)
        (match c with Black => (p_full p + 1)%N | White => p_full p end).

Definition legal (p : pos) (m : move) : bool :=
  pseudo_legal p m && negb (king_attacked (apply p m) (p_turn p)).

Definition promo_options : list (option piece) := [None; Some Queen; Some Rook; Some Bishop; Some Knight].

Definition legal_moves (p : pos) : list move :=
  flat_map (fun f =>
    match p_at p f with
    | Some (c, _) =>
        if color_eqb c (p_turn p) then
          flat_map (fun t => flat_map (fun pr => let m := mkMove f t pr in if legal p m then [m] else [])
                                      promo_options) all_squares
        else []
    | None => []
    end) all_squares.

(* leaves at exactly depth d, with the convention of the code's perft walk (0 at depth 0) *)
Fixpoint perft (d : nat) (p : pos) : N :=
  match d with
  | O => 0%N
  | S O => N.of_nat (length (legal_moves p))
  | S k => fold_left (fun acc m => (acc + perft k (apply p m))%N) (legal_moves p) 0%N
  end.

Definition checkmate (p : pos) : bool :=
  match legal_moves p with [] => king_attacked p (p_turn p) | _ => false end.
Definition stalemate (p : pos) : bool :=
  match legal_moves p with [] => negb (king_attacked p (p_turn p)) | _ => false end.

(* "every legal chess position" of the property texts, as a boolean predicate *)
Definition count_pieces (p : pos) (c : color) (k : piece) : nat :=
  length (filter (fun s => has p s c k) all_squares).

Definition legal_pos (p : pos) : bool :=
  (count_pieces p White King =? 1)%nat && (count_pieces p Black King =? 1)%nat
  && negb (king_attacked p (opp (p_turn p)))
  && forallb (fun s => negb ((srank s =? 0) || (srank s =? 7)) || negb (has p s White Pawn || has p s Black Pawn)) all_squares
  && forallb (fun c => forallb (fun side =>
        negb (p_right p c side) || (has p (king_home c) c King && has p (rook_home c side) c Rook)) [true; false])
       [White; Black]
  && match p_ep p with
     | None => true
     | Some t =>
         let c := p_turn p in            (* the side that may capture; the pawn that moved is opp c *)
         (srank t =? (if is_white c then 5 else 2))
         && empty_at p t
         && empty_at p (sq_of (sfile t) (srank t + fwd c))                (* the square it came from *)
         && has p (sq_of (sfile t) (srank t - fwd c)) (opp c) Pawn        (* the pawn that double-stepped *)
     end.
