(* An independent canonical FEN writer on the rules-level position (ranks 8..1, merged empty runs,
   KQkq order or '-', square or '-', both counters in decimal without leading zeros). *)
From WV Require Export Rules.
From Coq Require Import DecimalString DecimalN Ascii String.
Open Scope N_scope.

Definition letter (c : color) (k : piece) : N :=
  let u := match k with Pawn => 80 | Knight => 78 | Bishop => 66 | Rook => 82 | Queen => 81 | King => 75 | PNone => 63 end in
  match c with White => u | Black => u + 32 end.

Fixpoint digits_of_uint (u : Decimal.uint) : list N :=
  match u with
  | Decimal.Nil => []
  | Decimal.D0 r => 48 :: digits_of_uint r | Decimal.D1 r => 49 :: digits_of_uint r
  | Decimal.D2 r => 50 :: digits_of_uint r | Decimal.D3 r => 51 :: digits_of_uint r
  | Decimal.D4 r => 52 :: digits_of_uint r | Decimal.D5 r => 53 :: digits_of_uint r
  | Decimal.D6 r => 54 :: digits_of_uint r | Decimal.D7 r => 55 :: digits_of_uint r
  | Decimal.D8 r => 56 :: digits_of_uint r | Decimal.D9 r => 57 :: digits_of_uint r
  end.
Definition decimal (n : N) : list N := digits_of_uint (N.to_uint n).

(* one rank, files a..h: run-length encode the empty squares *)
Fixpoint rank_text (cells : list (option (color * piece))) (run : N) : list N :=
  match cells with
  | [] => if run =? 0 then [] else decimal run
  | None :: tl => rank_text tl (run + 1)
  | Some (c, k) :: tl => (if run =? 0 then [] else decimal run) ++ letter c k :: rank_text tl 0
  end.

Definition rank_cells (p : pos) (r : Z) : list (option (color * piece)) :=
  map (fun f => p_at p (sq_of f r)) [0; 1; 2; 3; 4; 5; 6; 7]%Z.

Definition placement (p : pos) : list N :=
  rank_text (rank_cells p 7) 0 ++ [47] ++ rank_text (rank_cells p 6) 0 ++ [47] ++
  rank_text (rank_cells p 5) 0 ++ [47] ++ rank_text (rank_cells p 4) 0 ++ [47] ++
  rank_text (rank_cells p 3) 0 ++ [47] ++ rank_text (rank_cells p 2) 0 ++ [47] ++
  rank_text (rank_cells p 1) 0 ++ [47] ++ rank_text (rank_cells p 0) 0.

Definition square_name (s : N) : list N := [97 + s mod 8; 49 + s / 8].

Definition rights_text (p : pos) : list N :=
  let t := (if p_right p White true then [75] else []) ++ (if p_right p White false then [81] else [])
        ++ (if p_right p Black true then [107] else []) ++ (if p_right p Black false then [113] else []) in
  match t with [] => [45] | _ => t end.

Definition write (p : pos) : list N :=
  placement p ++ [32] ++ [match p_turn p with White => 119 | Black => 98 end] ++ [32]
  ++ rights_text p ++ [32]
  ++ (match p_ep p with None => [45] | Some t => square_name t end) ++ [32]
  ++ decimal (p_half p) ++ [32] ++ decimal (p_full p).
