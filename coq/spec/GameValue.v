(* Forced mate at the rules level (the oracle of C06/C17): win n p = the side to move can force checkmate within n
   plies; loss n p = the side to move is checkmated now or cannot avoid being checkmated within n plies. *)
From WV Require Export Rules.

Fixpoint loss (n : nat) (p : pos) : bool :=
  match legal_moves p with
  | [] => king_attacked p (p_turn p)                       (* checkmate now (stalemate is not a loss) *)
  | ms => match n with
          | S (S k) => forallb (fun m => existsb (fun m' => loss k (apply (apply p m) m')) (legal_moves (apply p m))) ms
          | _ => false
          end
  end.

Definition win (n : nat) (p : pos) : bool :=
  match n with
  | O => false
  | S k => existsb (fun m => loss k (apply p m)) (legal_moves p)
  end.

(* a move keeps the forced mate: after it the opponent is lost within n plies *)
Definition keeps (n : nat) (p : pos) (m : move) : bool := loss n (apply p m).

(* Prop-level reading *)
Inductive Loss : nat -> pos -> Prop :=
  | Loss_now : forall n p, legal_moves p = [] -> king_attacked p (p_turn p) = true -> Loss n p
  | Loss_step : forall n p, legal_moves p <> [] ->
      (forall m, In m (legal_moves p) -> Win (S n) (apply p m)) -> Loss (S (S n)) p
with Win : nat -> pos -> Prop :=
  | Win_step : forall n p m, In m (legal_moves p) -> Loss n (apply p m) -> Win (S n) p.
