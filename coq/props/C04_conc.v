(* Property C04, the clause "No position crashes the search", for any number of workers under every
   schedule (model/Conc.v; see props/C03_conc.v for the layer).

   The n-worker model has explicit outcomes for every place where the Rust can panic (WPanic site: the two
   usize subtractions at the probe, by_performing_move(..).unwrap(), the evaluator's king lookup) and for
   running out of the structural fuel (WFuel).  The theorems say that neither is reachable, whatever the
   other workers do to the shared table in between, provided every entry found satisfies depth <= max_depth
   (which every insert establishes strictly):
     R_safe h e = e_depth e <= e_maxdepth e          G_safe h e = e_depth e < e_maxdepth e
     Q_safe r   = r is a value (not WPanic, not WFuel)
   Not covered here: cancellation (this layer has none; the one-worker theorems C04_stop_bound* cover the
   poll logic, and each worker polls its own node counter), wall-clock time, the thread pool. *)
From Coq Require Import NArith ZArith List Bool.
From WV Require Import Types Bits Attacks Board MoveEnc MoveGen Text Table Eval Search Conc Wf.
From WV Require Import SearchBase SearchProofs SearchSafety SearchTop ConcSeq ConcRG ConcLegal ConcSafe.
Import ListNotations.
Open Scope N_scope.

(* one worker's call never panics and never runs out of fuel, whatever the table answers within the rely *)
Theorem C04_conc_worker_safe : forall hs history jit fuel s md cd ce a b prio st,
  LegalPos s -> cd <= md -> (N.to_nat (md - cd) < fuel)%nat ->
  (forall pm, prio = Some pm -> In pm (MoveGen.legal_moves s)) ->
  sat R_safe G_safe Q_safe (analyzeP hs history jit fuel s md cd ce a b prio st).
Proof. exact analyzeP_safe. Qed.
Print Assumptions C04_conc_worker_safe.

(* the workers of one iteration, EVERY schedule: all of them return values, the table invariants survive *)
Theorem C04_conc_workers_safe : forall hs jit_of workers depth s history bm tt sched,
  HashFaithful hs -> LegalPos s -> TAll hs tt -> (forall m, bm = Some m -> In m (MoveGen.legal_moves s)) ->
  let '(rs, tt', _) := run_workers sched (map (worker_prog hs jit_of depth s history bm) (seq 0 workers)) tt in
  Forall Q_safe rs /\ TAll hs tt' /\ length rs = workers.
Proof. exact run_workers_safe. Qed.
Print Assumptions C04_conc_workers_safe.

(* the whole n-worker search ends normally (outcome 0) and hands back a table that can seed the next one *)
Theorem C04_conc_iterative_safe : forall hs jit_of workers iters s history tt sched,
  HashFaithful hs -> LegalPos s -> tt_ok tt -> TInv hs tt -> TEntriesOk tt ->
  let r := analyze_iterativeM hs jit_of workers iters s history tt sched in
  m_outcome r = 0 /\ tt_ok (m_tt r) /\ TInv hs (m_tt r) /\ TEntriesOk (m_tt r).
Proof. exact iterativeM_safe. Qed.
Print Assumptions C04_conc_iterative_safe.

(* non-vacuity: the example run of props/C03_conc.v (three workers, three iterations, interleaved schedule)
   starts from a table satisfying the premises and ends with outcome 0 *)
Example C04_conc_example :
  let hx := hasher_of_stream (map N.of_nat (seq 1 1038)) in
  let kk := mkState (mkBoard 0 0 0 0 0 16 0 0 0 0 0 (N.shiftl 16 56)) White false false false false None 0 1 in
  let r := analyze_iterativeM hx (fun _ _ _ => 0%Z) 3 2 kk [] (empty_access 2 4) [1; 2; 0; 1; 1; 2; 0; 0; 2; 1; 5; 7; 3] in
  legal_posb kk = true /\ m_outcome r = 0 /\ (2 <=? length (m_events r))%nat = true.
Proof. vm_compute. repeat split. Qed.
