(* Property C19: determinism of the single-worker search.
   "With one worker, the run (events, node count, node trace) is a function of the position, the seed-derived
    streams and the depth."

   Model: model/Search.v; a Gallina function is deterministic by construction, so the content is WHICH part
   of the jitter stream the result depends on: pointwise-equal streams give equal runs (no functional
   extensionality is assumed), the stream index of the worker only grows, and a run that ends with index
   w_jidx <= bound has read the stream only below bound.  Definitions (proofs/SearchDet.v):
     jmono w r       = if r carries a worker state w' then w_jidx w <= w_jidx w'
     jbounded b r    = r carries a worker state w' and w_jidx w' <= b  (false for SPanic/SFuel) *)
From Coq Require Import NArith ZArith List Bool.
From WV Require Import Types Bits Attacks Board MoveEnc MoveGen Text Table Eval Search Wf.
From WV Require Import SearchBase SearchDet.
Import ListNotations.
Import WV.Bits.
Open Scope N_scope.

Theorem C19_ext : forall hs history jit jit' cancel, (forall i, jit i = jit' i) ->
  forall fuel s maxd cur ext a b prio w,
  analyze hs history jit cancel fuel s maxd cur ext a b prio w =
  analyze hs history jit' cancel fuel s maxd cur ext a b prio w.
Proof. exact analyze_ext. Qed.
Print Assumptions C19_ext.

Theorem C19_ext_iterative : forall hs jit_of jit_of' cancel iters s history tt,
  (forall d i, jit_of d i = jit_of' d i) ->
  analyze_iterative hs jit_of cancel iters s history tt = analyze_iterative hs jit_of' cancel iters s history tt.
Proof. exact analyze_iterative_ext. Qed.
Print Assumptions C19_ext_iterative.

(* events, node count, trace (and outcome, table) are determined by
   (hasher, streams up to pointwise equality, cancellation point, iterations, position, history, table) *)
Theorem C19_single_worker_deterministic : forall hs jit_of jit_of' cancel iters s history tt,
  (forall d i, jit_of d i = jit_of' d i) ->
  let r := analyze_iterative hs jit_of cancel iters s history tt in
  let r' := analyze_iterative hs jit_of' cancel iters s history tt in
  r_events r = r_events r' /\ r_gnodes r = r_gnodes r' /\ r_trace r = r_trace r' /\
  r_outcome r = r_outcome r' /\ r_tt r = r_tt r'.
Proof. exact single_worker_deterministic. Qed.
Print Assumptions C19_single_worker_deterministic.

(* the stream index never decreases *)
Theorem C19_jitter_index_monotone : forall hs history jit cancel fuel s maxd cur ext a b prio w,
  match analyze hs history jit cancel fuel s maxd cur ext a b prio w with
  | SVal _ w' => w_jidx w <= w_jidx w'
  | SInterrupt w' => w_jidx w <= w_jidx w'
  | _ => True
  end.
Proof. exact analyze_jmono. Qed.
Print Assumptions C19_jitter_index_monotone.

(* the stream is only read below the final index: a stream that agrees with jit below bound gives the same
   run whenever the run under jit ends with w_jidx <= bound *)
Theorem C19_jitter_prefix : forall hs history jit jit' cancel bound,
  (forall i, i < bound -> jit i = jit' i) ->
  forall fuel s maxd cur ext a b prio w,
  match analyze hs history jit cancel fuel s maxd cur ext a b prio w with
  | SVal _ w' => w_jidx w' <= bound
  | SInterrupt w' => w_jidx w' <= bound
  | _ => False
  end ->
  analyze hs history jit' cancel fuel s maxd cur ext a b prio w =
  analyze hs history jit cancel fuel s maxd cur ext a b prio w.
Proof. exact analyze_prefix. Qed.
Print Assumptions C19_jitter_prefix.

(* non-vacuity.  Kings e1/e8, depth 2 from an empty table under the constant stream 0: value 0, fifteen
   nodes, thirty stream values consumed.  A stream that differs from index 30 on gives the same result (as
   C19_jitter_prefix says); a stream that differs at index 1 visits the children in another order. *)
Example C19_example :
  let hx := hasher_of_stream (map N.of_nat (seq 1 1038)) in
  let kk := mkState (mkBoard 0 0 0 0 0 16 0 0 0 0 0 (N.shiftl 16 56)) White false false false false None 0 1 in
  let w0 := mkW (empty_access 2 4) 0 0 0 false [] in
  let run jit := analyze hx [] jit None 3 kk 2 0 0 (- mate_in_ply 0)%Z (mate_in_ply 0) None w0 in
  let hashes r := match r with SVal _ w => map (fun x => fst (fst (fst (fst x)))) (w_trace w) | _ => [] end in
  match run (fun _ => 0%Z) with SVal v w => v = 0%Z /\ w_jidx w = 30 /\ w_nodes w = 15 | _ => False end /\
  run (fun i => if i <? 30 then 0%Z else 9%Z) = run (fun _ => 0%Z) /\
  hashes (run (fun _ => 0%Z)) = [857; 1002; 825; 906; 985; 874; 937; 794; 793; 825; 921; 905; 953; 778; 921] /\
  hashes (run (fun i => if i =? 1 then (-10)%Z else 9%Z)) =
    [825; 906; 857; 1002; 985; 874; 937; 794; 793; 825; 921; 905; 953; 778; 921].
Proof. vm_compute. repeat split. Qed.
