(* C14, FEN part: the FEN reader never reaches a panic site, on all lists of code points. *)
From WV Require Import Text Wf FenBase.
Open Scope N_scope.

Theorem C14_fen_total : forall str k, fen_read str <> Panic k.
Proof. exact fen_total. Qed.
Print Assumptions C14_fen_total.

(* the two panic sites (checked `location_index += 1` on u8, board index >= 64) are unreachable from
   every cursor value: a piece is only placed when the cursor is <= 63.  No invariant on the cursor is
   needed; the u8-range form asked for is the instance below. *)
Theorem C14_placement_total_any : forall l loc b k, parse_placement l loc b <> Panic k.
Proof. exact placement_total. Qed.
Print Assumptions C14_placement_total_any.

Theorem C14_placement_total : forall l loc b k, loc <= 255 -> parse_placement l loc b <> Panic k.
Proof. exact placement_total_u8. Qed.
Print Assumptions C14_placement_total.

(* Non-vacuity: the two inputs that aim at the panic sites are rejected with Err:
   thirty-two '8's in the first rank (cursor would pass 255), and a piece after 64 empty squares
   ("88888888K/8/8/8/8/8/8/8 w - - 0 1", cursor = 64) *)
Example C14_ex_cursor_overflow :
  fen_read (repeat 56 32 ++ [47; 56; 47; 56; 47; 56; 47; 56; 47; 56; 47; 56; 47; 56; 32; 119; 32; 45; 32; 45; 32; 48; 32; 49]) = Err
  /\ parse_placement (repeat 56 32) 0 empty_board = Err
  /\ parse_placement (repeat 56 31) 0 empty_board = Ok empty_board.
Proof. vm_compute. repeat split. Qed.

Example C14_ex_square_64 :
  fen_read [56; 56; 56; 56; 56; 56; 56; 56; 75; 47; 56; 47; 56; 47; 56; 47; 56; 47; 56; 47; 56; 47; 56;
            32; 119; 32; 45; 32; 45; 32; 48; 32; 49] = Err
  /\ parse_placement [56; 56; 56; 56; 56; 56; 56; 56; 75] 0 empty_board = Err
  /\ parse_placement [56; 56; 56; 56; 56; 56; 56; 55; 75] 0 empty_board
     = Ok (pset_bit empty_board White King 7 true).
Proof. vm_compute. repeat split. Qed.
