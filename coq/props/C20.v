(* C20: the packed 32-bit move.  [build] (defined in proofs/MoveEncProofs.v) is
     build c p o d cap pro = set_promotion (set_capture (by_moving c p o d) cap) pro
   and by_moving / by_capturing / by_promoting / by_capture_promoting are its instances. *)
From WV Require Import MoveEnc MoveEncProofs.
Open Scope N_scope.

Theorem C20_build_by_moving : forall c p o d, build c p o d None None = by_moving c p o d.
Proof. exact build_by_moving. Qed.
Print Assumptions C20_build_by_moving.

Theorem C20_build_by_capturing : forall c p o d k,
  build c p o d (Some k) None = by_capturing c p o d k.
Proof. exact build_by_capturing. Qed.
Print Assumptions C20_build_by_capturing.

Theorem C20_build_by_promoting : forall c p o d k,
  build c p o d None (Some k) = by_promoting c p o d k.
Proof. exact build_by_promoting. Qed.
Print Assumptions C20_build_by_promoting.

Theorem C20_build_by_capture_promoting : forall c p o d k q,
  build c p o d (Some k) (Some q) = by_capture_promoting c p o d k q.
Proof. exact build_by_capture_promoting. Qed.
Print Assumptions C20_build_by_capture_promoting.

Theorem C20_layout_disjoint :
  pairwise_disjoint layout_masks = true /\
  piece_mask = N.shiftl (N.ones 4) piece_offset /\
  origin_mask = N.shiftl (N.ones 6) origin_offset /\
  dest_mask = N.shiftl (N.ones 6) dest_offset /\
  capture_mask = N.shiftl (N.ones 4) capture_offset /\
  promotion_mask = N.shiftl (N.ones 4) promotion_offset /\
  forallb (fun x => x <? 2 ^ 29) layout_masks = true.
Proof. exact layout_disjoint. Qed.
Print Assumptions C20_layout_disjoint.

Theorem C20_roundtrip : forall c p o d cap pro,
  p <> PNone -> o < 64 -> d < 64 -> cap <> Some PNone -> pro <> Some PNone ->
  let m := build c p o d cap pro in
  m_piece m = p /\ m_color m = c /\ m_origin m = o /\ m_dest m = d /\
  m_capture m = cap /\ m_promotion m = pro /\ m_is_ep m = false /\ m_castle_side m = None /\
  m_is_double m = (piece_eqb p Pawn && (1 <? abs_dist (rank_of o) (rank_of d))) /\ m_decodes m = true.
Proof. exact roundtrip. Qed.
Print Assumptions C20_roundtrip.

Theorem C20_en_passant : forall c o d, o < 64 -> d < 64 ->
  let m := by_en_passant c Pawn o d in
  m_piece m = Pawn /\ m_color m = c /\ m_origin m = o /\ m_dest m = d /\ m_capture m = Some Pawn /\
  m_promotion m = None /\ m_is_ep m = true /\ m_castle_side m = None.
Proof. exact en_passant_fields. Qed.
Print Assumptions C20_en_passant.

Theorem C20_castle : forall c k,
  let m := by_castling c k in
  m_piece m = King /\ m_color m = c /\ m_origin m = king_origin c /\ m_dest m = castle_dest c k /\
  m_capture m = None /\ m_promotion m = None /\ m_is_ep m = false /\ m_castle_side m = Some k /\ m_is_double m = false.
Proof. exact castle_fields. Qed.
Print Assumptions C20_castle.

Theorem C20_injective : forall c p o d cap pro c' p' o' d' cap' pro',
  p <> PNone -> o < 64 -> d < 64 -> cap <> Some PNone -> pro <> Some PNone ->
  p' <> PNone -> o' < 64 -> d' < 64 -> cap' <> Some PNone -> pro' <> Some PNone ->
  build c p o d cap pro = build c' p' o' d' cap' pro' ->
  c = c' /\ p = p' /\ o = o' /\ d = d' /\ cap = cap' /\ pro = pro'.
Proof. exact build_injective. Qed.
Print Assumptions C20_injective.

Theorem C20_distinct_kinds :
  forall c p o d cap pro c2 o2 d2, p <> PNone -> o < 64 -> d < 64 -> cap <> Some PNone -> pro <> Some PNone -> o2 < 64 -> d2 < 64 ->
    build c p o d cap pro <> by_en_passant c2 Pawn o2 d2 /\
    (forall c3 k, build c p o d cap pro <> by_castling c3 k /\ by_en_passant c2 Pawn o2 d2 <> by_castling c3 k).
Proof. exact distinct_kinds. Qed.
Print Assumptions C20_distinct_kinds.

(* the range hypotheses are not needed for the bounds (every store is masked); they are kept
   because the statement is fixed *)
Theorem C20_raw_bound : forall c p o d cap pro, o < 64 -> d < 64 -> build c p o d cap pro < 2^29.
Proof. exact (fun c p o d cap pro _ _ => build_lt c p o d cap pro). Qed.
Print Assumptions C20_raw_bound.

Theorem C20_raw_bound_ep : forall c o d, o < 64 -> d < 64 -> by_en_passant c Pawn o d < 2^29.
Proof. exact (fun c o d _ _ => en_passant_lt c Pawn o d). Qed.
Print Assumptions C20_raw_bound_ep.

Theorem C20_raw_bound_castle : forall c k, by_castling c k < 2^29.
Proof. exact castle_lt. Qed.
Print Assumptions C20_raw_bound_castle.

(* non-vacuity: a black pawn capture-promotion b2xa1=Q, and a white double push e2e4 *)
Example C20_ex_capture_promotion :
  let m := build Black Pawn 9 0 (Some Rook) (Some Queen) in
  Pawn <> PNone /\ 9 < 64 /\ 0 < 64 /\ Some Rook <> Some PNone /\ Some Queen <> Some PNone /\
  m = 5505169 /\ m = by_capture_promoting Black Pawn 9 0 Rook Queen /\
  m_piece m = Pawn /\ m_color m = Black /\ m_origin m = 9 /\ m_dest m = 0 /\
  m_capture m = Some Rook /\ m_promotion m = Some Queen /\ m_is_double m = false.
Proof. vm_compute. repeat split; discriminate. Qed.

Example C20_ex_double_push :
  let m := build White Pawn 12 28 None None in
  m = 302018753 /\ m_is_double m = true /\ m_color m = White /\ m_origin m = 12 /\ m_dest m = 28 /\
  m <> by_en_passant White Pawn 36 43 /\ m <> by_castling White true.
Proof. vm_compute. repeat split; discriminate. Qed.
