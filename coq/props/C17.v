(* Property C17: repetition handling in the search.
   "Any line of a later search that re-enters a recorded position is valued as a draw."

   Model: model/Search.v.  `history` is the list of recorded position hashes (StateHistory keys);
   in_history history h = existsb (N.eqb h) history.  The test is made at every node below the root
   (cur > 0), after the node has been counted and traced and before the table probe; the root itself is
   recorded by analyze_iterative before the first iteration and is exempt from the test.
   Definitions used in the statements (proofs/SearchBase.v, proofs/SearchProofs.v):
     root_history hs s history = if the root hash is already recorded then history else hash :: history
     with_trace w x            = w with x pushed on the node trace
     node_continue hs jit rec s maxd cur ext a b prio w1
                               = what a node does after the history test (table probe, then quiescence
                                 or the move loop with `rec` as the recursive call) *)
From Coq Require Import NArith ZArith List Bool.
From WV Require Import Types Bits Attacks Board MoveEnc MoveGen Text Table Eval Search Wf.
From WV Require Import SearchBase SearchProofs.
Import ListNotations.
Import WV.Bits.
Open Scope N_scope.

(* a node below the root whose position is recorded returns EVEN at once: the node is counted and traced,
   the table is neither read nor written, no move is generated *)
Theorem C17_history_draw : forall hs history jit cancel fuel s maxd cur ext a b prio w,
  (0 < cur)%N -> in_history history (hash hs s) = true -> snd (enter_node cancel w) = false ->
  analyze hs history jit cancel (S fuel) s maxd cur ext a b prio w =
  SVal EVEN (mkW (w_tt w) (w_jidx w) (w_nodes w + 1) (w_gnodes w + 1)
                 (w_flag w || match cancel with Some c => (c <=? w_gnodes w + 1)%N | None => false end)
                 ((hash hs s, cur, maxd, a, b) :: w_trace w)).
Proof. exact history_draw. Qed.
Print Assumptions C17_history_draw.

(* the root hash is in the history used by every iteration (and everything recorded before stays) *)
Theorem C17_root_recorded : forall hs jit_of cancel iters s history tt,
  analyze_iterative hs jit_of cancel iters s history tt =
    iterate hs jit_of cancel iters 0 s (root_history hs s history) tt 0
            (match cancel with Some 0%N => true | _ => false end) [] 0 NEG_INF None [] /\
  in_history (root_history hs s history) (hash hs s) = true /\
  (forall h, in_history history h = true -> in_history (root_history hs s history) h = true) /\
  r_history (analyze_iterative hs jit_of cancel iters s history tt) = root_history hs s history.
Proof. exact root_recorded. Qed.
Print Assumptions C17_root_recorded.

(* at the root (cur = 0) the history test is skipped, whatever the history contains *)
Theorem C17_root_not_drawn : forall hs history jit cancel fuel s maxd ext a b prio w,
  snd (enter_node cancel w) = false ->
  analyze hs history jit cancel (S fuel) s maxd 0 ext a b prio w =
  node_continue hs jit (analyze hs history jit cancel fuel) s maxd 0 ext a b prio
    (with_trace (fst (enter_node cancel w)) (hash hs s, 0, maxd, a, b)).
Proof. exact root_not_drawn. Qed.
Print Assumptions C17_root_not_drawn.

(* non-vacuity.  hx: a small concrete hasher; kk: kings e1/e8, White to move (hash 921).
   With the root hash recorded, a node at depth 1 on kk is a draw and leaves the table alone; the same
   position searched as the root (one iteration, root hash recorded by analyze_iterative itself) is not:
   six nodes, best line Ke1-e2. *)
Example C17_example :
  let hx := hasher_of_stream (map N.of_nat (seq 1 1038)) in
  let kk := mkState (mkBoard 0 0 0 0 0 16 0 0 0 0 0 (N.shiftl 16 56)) White false false false false None 0 1 in
  let tt := empty_access 2 4 in
  let w0 := mkW tt 0 0 0 false [] in
  hash hx kk = 921 /\ in_history [921] (hash hx kk) = true /\ snd (enter_node None w0) = false /\
  analyze hx [921] (fun _ => 0%Z) None 1 kk 5 1 0 (-7)%Z 7%Z None w0 =
    SVal 0%Z (mkW tt 0 1 1 false [(921, 1, 5, (-7)%Z, 7%Z)]) /\
  let r := analyze_iterative hx (fun _ _ => 0%Z) None 1 kk [921] tt in
  r_events r = [EvProgress 1 6; EvBest 23 [268448838]] /\ r_history r = [921] /\ r_outcome r = 0.
Proof. vm_compute. repeat split. Qed.
