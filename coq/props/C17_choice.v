(* Property C17, the clause "... the search still reports a winning terminal evaluation and DOES NOT CHOOSE THE
   REPEATING MOVE".

   Model: model/Search.v, one worker, no cancellation.  A line reported with a winning terminal evaluation never
   starts with a move into a recorded position: such a move makes the child return EVEN = 0 at once, so it can
   neither raise alpha to a value >= POS_INF nor cut off at beta; the entry the root stores carries the move that
   did; nothing below the root stores under the root hash (it is recorded), and a root entry used by the probe is
   covered by the invariant RInv (every entry under the root hash with an evaluation >= POS_INF stores a move
   whose successor is not recorded), which the empty table satisfies.  No premise on scores, none on the hasher.
   That a winning terminal evaluation IS reported when another first move also mates is the completeness theorem
   C06_complete_history (its premise HistFree speaks about the recorded positions). *)
From Coq Require Import NArith ZArith List Bool.
From WV Require Import Types Bits Board MoveGen Text Table Eval Search Wf.
From WV Require Import SearchBase SearchProofs HistoryChoice.
Import ListNotations.
Import WV.Bits.
Open Scope Z_scope.

Theorem C17_repeating_move_not_chosen : forall hs jit_of iters s history nt nb ev mv tl,
  LegalPos s -> (0 < nt)%nat -> (0 < nb)%nat ->
  let r := analyze_iterative hs jit_of None iters s history (empty_access nt nb) in
  In (EvBest ev (mv :: tl)) (r_events r) -> POS_INF <= ev ->
  forall ns, apply_move s mv = Some ns -> in_history (root_history hs s history) (hash hs ns) = false.
Proof. exact repeating_move_not_chosen. Qed.
Print Assumptions C17_repeating_move_not_chosen.

(* reused memory, under the invariant on the entries stored under the root hash *)
Theorem C17_repeating_move_not_chosen_table : forall hs jit_of iters s history tt ev mv tl,
  LegalPos s -> tt_ok tt -> RInv hs (root_history hs s history) s tt ->
  let r := analyze_iterative hs jit_of None iters s history tt in
  In (EvBest ev (mv :: tl)) (r_events r) -> POS_INF <= ev ->
  forall ns, apply_move s mv = Some ns -> in_history (root_history hs s history) (hash hs ns) = false.
Proof. exact repeating_move_not_chosen_table. Qed.
Print Assumptions C17_repeating_move_not_chosen_table.

Theorem C17_repeating_move_not_chosen_history : forall hs jit_of iters s history nt nb ev mv tl,
  LegalPos s -> (0 < nt)%nat -> (0 < nb)%nat ->
  let r := analyze_iterative hs jit_of None iters s history (empty_access nt nb) in
  In (EvBest ev (mv :: tl)) (r_events r) -> POS_INF <= ev ->
  forall ns, apply_move s mv = Some ns ->
  in_history history (hash hs ns) = false /\ hash hs ns <> hash hs s.
Proof. exact repeating_move_not_chosen_history. Qed.
Print Assumptions C17_repeating_move_not_chosen_history.
