(* Property C06, soundness half, the clause "for every ... worker count and interleaving".

   Model: model/Conc.v (n lazy-SMP workers on one shared table under an explicit schedule; see props/C03_conc.v).
   The theorems below are the rely/guarantee instance for mate scores (proofs/ConcSound.v):
     R_snd P hs h e = every position of the region P with hash h makes e's score claim true and e's move legal
     G_snd P hs h e = some position of the region with hash h does (what a worker inserts)
     Q_snd s a b r  = a returned value v >= POS_INF above the window's alpha means the side to move has a forced
                      mate (Won s), v <= NEG_INF below beta means it is being mated (Lost s)
   Residues, as in props/C06.v: no hash collision among the positions of the region (HashRuleOn), and the
   heuristic score of a position with a legal move is not a terminal score (HeurNTOn; discharged for at most ten
   men, shown necessary by C06_violation_unbounded_material).  Unlike the one-worker theorems no NoUpper premise is
   needed: the n-worker layer has no cancellation path, so a root entry of unknown kind is never reported. *)
From Coq Require Import NArith ZArith List Bool.
From WV Require Import Types Bits Attacks Board MoveEnc MoveGen Text Table Eval Search Conc Wf.
From WV Require Import Rules Abs GameValue.
From WV Require Import SearchBase SearchProofs SearchMen MateValue MateSound MateRegion ConcSeq ConcRG ConcSound ConcSoundRegion.
Import ListNotations.
Open Scope Z_scope.

(* one worker's call, whatever the other workers do to the table in between *)
Theorem C06_conc_sound_call : forall hs P, HashRuleOn P hs -> Region P -> HeurNTOn P ->
  forall history jit fuel s md cd ce a b prio st,
  P s -> a < b -> (forall pm, prio = Some pm -> In pm (MoveGen.legal_moves s)) ->
  sat (R_snd P hs) (G_snd P hs) (Q_snd s a b) (analyzeP hs history jit fuel s md cd ce a b prio st).
Proof. exact soundM_call. Qed.
Print Assumptions C06_conc_sound_call.

(* the workers of one iteration under EVERY schedule: every returned value is sound, the table stays sound *)
Theorem C06_conc_sound_workers : forall hs P, HashRuleOn P hs -> Region P -> HeurNTOn P ->
  forall jit_of depth s history bm workers sched tt,
  P s -> TOk P hs tt -> (forall m, bm = Some m -> In m (MoveGen.legal_moves s)) ->
  let '(rs, tt', _) := run_workers sched (map (worker_prog hs jit_of depth s history bm) (seq 0 workers)) tt in
  Forall (Q_snd s (- mate_in_ply 0) (mate_in_ply 0)) rs /\ TOk P hs tt' /\ length rs = workers.
Proof. exact soundM_workers. Qed.
Print Assumptions C06_conc_sound_workers.

(* the whole n-worker search: a reported winning terminal evaluation means a forced mate *)
Theorem C06_conc_sound : forall hs P, HashRuleOn P hs -> Region P -> HeurNTOn P ->
  forall jit_of workers iters s history tt sched, P s -> TOk P hs tt ->
  let r := analyze_iterativeM hs jit_of workers iters s history tt sched in
  (forall ev line, In (EvBest ev line) (m_events r) -> POS_INF <= ev -> Won s) /\ TOk P hs (m_tt r).
Proof. exact soundM_iterative. Qed.
Print Assumptions C06_conc_sound.

Theorem C06_conc_sound_reach : forall hs s, LegalPos s -> HashRuleOn (Reach s) hs -> HeurNTOn (Reach s) ->
  forall jit_of workers iters history tt sched, TOk (Reach s) hs tt ->
  let r := analyze_iterativeM hs jit_of workers iters s history tt sched in
  (forall ev line, In (EvBest ev line) (m_events r) -> POS_INF <= ev -> exists n, Win n (abs s)) /\
  TOk (Reach s) hs (m_tt r).
Proof. exact soundM_iterative_reach. Qed.
Print Assumptions C06_conc_sound_reach.

(* at most ten men: only the no-collision residue is left *)
Theorem C06_conc_sound_small_men : forall hs, HashRuleOn SmallMen hs ->
  forall jit_of workers iters s history tt sched, LegalPos s -> (men s <= 10)%nat -> TOk SmallMen hs tt ->
  let r := analyze_iterativeM hs jit_of workers iters s history tt sched in
  (forall ev line, In (EvBest ev line) (m_events r) -> POS_INF <= ev -> exists n, Win n (abs s)) /\
  TOk SmallMen hs (m_tt r).
Proof. exact small_men_soundM. Qed.
Print Assumptions C06_conc_sound_small_men.

Theorem C06_conc_sound_small_root : forall hs s, LegalPos s -> (men s <= 10)%nat -> HashRuleOn (Reach s) hs ->
  forall jit_of workers iters history tt sched, TOk (Reach s) hs tt ->
  let r := analyze_iterativeM hs jit_of workers iters s history tt sched in
  (forall ev line, In (EvBest ev line) (m_events r) -> POS_INF <= ev -> exists n, Win n (abs s)) /\
  TOk (Reach s) hs (m_tt r).
Proof. exact small_root_soundM. Qed.
Print Assumptions C06_conc_sound_small_root.

(* non-vacuity: K+Q v K with a mate in one, two workers, interleaved schedule: a winning terminal evaluation
   (10900) IS reported in the first iteration, so the conclusion is exercised. *)
Example C06_conc_example :
  let hx := hasher_of_stream (map N.of_nat (seq 1 1038)) in
  (* White K c6 (42), Q b6 (41); Black K a8 (56); White to move: Qb6-b7 mate *)
  let p := mkState (mkBoard 0 0 0 0 (N.shiftl 1 41) (N.shiftl 1 42) 0 0 0 0 0 (N.shiftl 1 56)) White false false false false None 0 1 in
  let r := analyze_iterativeM hx (fun _ _ _ => 0) 2 2 p [] (empty_access 2 4) [1; 0; 1; 1; 0; 0; 1; 0; 1; 1; 1; 0]%N in
  legal_posb p = true /\ Nat.leb (men p) 10 = true /\ m_outcome r = 0%N /\
  existsb (fun e => match e with EvBest ev _ => POS_INF <=? ev | _ => false end) (m_events r) = true.
Proof. vm_compute. repeat split; try reflexivity. Qed.
