(* Property C01: for every legal chess position the generator returns exactly the legal moves of the
   rules (Rules.legal_moves on the abstraction), each exactly once, each carrying the right attributes
   (enc_move s mv is BY DEFINITION, spec/Encode.v, the packed move with the moving kind and colour, captured
   kind, promotion, e.p. flag, castling side and double-step flag computed from the board;
   C01_attributes spells the attributes out with the accessors), and perft agrees at every depth. *)
From WV Require Import Types Bits Attacks Board MoveEnc MoveGen Rules Abs Wf Encode.
From WV Require Import GenLegal GenCount GenAttrs.
Import WV.Bits.
Open Scope N_scope.

Theorem C01_movegen_exact : forall s, LegalPos s ->
  NoDup (MoveGen.legal_moves s) /\
  (forall m, In m (MoveGen.legal_moves s) <->
             exists mv, In mv (Rules.legal_moves (abs s)) /\ m = enc_move s mv) /\
  (forall m, In m (MoveGen.legal_moves s) ->
             In (absm m) (Rules.legal_moves (abs s)) /\ m = enc_move s (absm m)).
Proof. exact movegen_exact. Qed.
Print Assumptions C01_movegen_exact.

(* the pseudo-legal stage: the FIDE pseudo-legal moves minus the king steps into the opponent's attack
   set (gen_pseudo, spec/Encode.v), without repetition *)
Theorem C01_pseudo_legal_exact : forall s m, LegalPos s ->
  (In m (MoveGen.pseudo_legal s) <->
   exists mv, mv_from mv < 64 /\ mv_to mv < 64 /\ gen_pseudo (abs s) mv = true /\ m = enc_move s mv).
Proof. exact pseudo_legal_spec. Qed.
Print Assumptions C01_pseudo_legal_exact.

Theorem C01_pseudo_legal_NoDup : forall s, LegalPos s -> NoDup (MoveGen.pseudo_legal s).
Proof. exact pseudo_legal_NoDup. Qed.
Print Assumptions C01_pseudo_legal_NoDup.

(* the unwrap of by_performing_move inside try_as_legal_move cannot fail on a generated move *)
Theorem C01_no_panic : forall s, LegalPos s -> gen_panics s = false.
Proof. exact gen_no_panic. Qed.
Print Assumptions C01_no_panic.

Theorem C01_attributes : forall s m, LegalPos s -> In m (MoveGen.legal_moves s) ->
  let mv := absm m in
  let b := st_board s in
  m_origin m = mv_from mv /\ m_dest m = mv_to mv /\ m_promotion m = mv_promo mv /\
  m_origin m < 64 /\ m_dest m < 64 /\
  m_color m = st_turn s /\
  Some (m_piece m) = kind_on b (m_origin m) /\
  (m_is_ep m = true <->
     (m_piece m = Pawn /\ file_of (m_origin m) <> file_of (m_dest m) /\ kind_on b (m_dest m) = None)) /\
  m_capture m = (if m_is_ep m then Some Pawn else kind_on b (m_dest m)) /\
  (forall side, m_castle_side m = Some side <->
     (m_piece m = King /\
      if side then file_of (m_dest m) = file_of (m_origin m) + 2
      else file_of (m_origin m) = file_of (m_dest m) + 2)) /\
  (forall side, m_castle_side m = Some side ->
     m_origin m = king_home (st_turn s) /\ m_dest m = castle_dest (st_turn s) side) /\
  (m_is_double m = true <->
     (m_piece m = Pawn /\ abs_dist (rank_of (m_origin m)) (rank_of (m_dest m)) = 2)).
Proof. exact attributes. Qed.
Print Assumptions C01_attributes.

Theorem C01_same_count : forall s, LegalPos s ->
  length (MoveGen.legal_moves s) = length (Rules.legal_moves (abs s)).
Proof. exact same_count. Qed.
Print Assumptions C01_same_count.

Theorem C01_perft : forall d s, LegalPos s -> MoveGen.perft d s = Rules.perft d (abs s).
Proof. exact perft_exact. Qed.
Print Assumptions C01_perft.

(* non-vacuity: White Ke1 Pa2 Pe5 Pg7, Black Ke8 Pb3 Pd5 Ph7, White to move, e.p. target d6.
   14 legal moves: a3, e6, g8=Q/R/B/N, a4 (double step), axb3, exd6 e.p., Kd1 Kf1 Kd2 Ke2 Kf2.
   The model side is evaluated by vm_compute, the rules side by lazy (Rules.legal is a conjunction whose
   second half, the king-safety test on the successor, is only needed for pseudo-legal moves). *)
Example C01_example_model :
  let s := mkState (mkBoard 18014467228958976 0 0 0 0 16 36028831378833408 0 0 0 0 1152921504606846976)
                   White false false false false (Some 43) 0 10 in
  legal_posb s = true /\
  MoveGen.legal_moves s =
    [268451969; 268481089; 273742689; 272694113; 271645537; 270596961; 302014593; 268518529; 285322817;
     268438598; 268440646; 268446790; 268447814; 268448838] /\
  map (fun m => (m_piece m, m_origin m, m_dest m, m_capture m, m_promotion m, m_is_ep m, m_is_double m))
      (MoveGen.legal_moves s) =
    [(Pawn, 8, 16, None, None, false, false); (Pawn, 36, 44, None, None, false, false);
     (Pawn, 54, 62, None, Some Queen, false, false); (Pawn, 54, 62, None, Some Rook, false, false);
     (Pawn, 54, 62, None, Some Bishop, false, false); (Pawn, 54, 62, None, Some Knight, false, false);
     (Pawn, 8, 24, None, None, false, true); (Pawn, 8, 17, Some Pawn, None, false, false);
     (Pawn, 36, 43, Some Pawn, None, true, false);
     (King, 4, 3, None, None, false, false); (King, 4, 5, None, None, false, false);
     (King, 4, 11, None, None, false, false); (King, 4, 12, None, None, false, false);
     (King, 4, 13, None, None, false, false)] /\
  MoveGen.perft 2 s = 105 /\ MoveGen.perft 3 s = 1393.
Proof. vm_compute. repeat split. Qed.

Example C01_example_rules :
  let s := mkState (mkBoard 18014467228958976 0 0 0 0 16 36028831378833408 0 0 0 0 1152921504606846976)
                   White false false false false (Some 43) 0 10 in
  Rules.legal_moves (abs s) =
    [mkMove 4 3 None; mkMove 4 5 None; mkMove 4 11 None; mkMove 4 12 None; mkMove 4 13 None;
     mkMove 8 16 None; mkMove 8 17 None; mkMove 8 24 None; mkMove 36 43 None; mkMove 36 44 None;
     mkMove 54 62 (Some Queen); mkMove 54 62 (Some Rook); mkMove 54 62 (Some Bishop);
     mkMove 54 62 (Some Knight)] /\
  map (enc_move s) (Rules.legal_moves (abs s)) =
    [268438598; 268440646; 268446790; 268447814; 268448838; 268451969; 268518529; 302014593; 285322817;
     268481089; 273742689; 272694113; 271645537; 270596961] /\
  Rules.perft 2 (abs s) = 105.
Proof. lazy. repeat split. Qed.
