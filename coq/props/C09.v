(* Property C09: attack tables.  Magic-table lookups equal the geometric ray walk for every square and
   every occupancy; leaper tables equal their fixed offset patterns; BitBoard::shift never wraps. *)
From WV Require Import Bits Attacks BitsProofs AttacksProofs AttacksSliders.
Open Scope N_scope.

Theorem C09_rook : forall s occ, s < 64 -> occ < 2^64 ->
  rook_attacks s occ = walk_dirs occ s rook_dirs.
Proof. exact rook_attacks_walk. Qed.
Print Assumptions C09_rook.

Theorem C09_bishop : forall s occ, s < 64 -> occ < 2^64 ->
  bishop_attacks s occ = walk_dirs occ s bishop_dirs.
Proof. exact bishop_attacks_walk. Qed.
Print Assumptions C09_bishop.

Theorem C09_queen : forall s occ, s < 64 -> occ < 2^64 ->
  queen_attacks s occ = N.lor (walk_dirs occ s rook_dirs) (walk_dirs occ s bishop_dirs).
Proof. exact queen_attacks_walk. Qed.
Print Assumptions C09_queen.

Theorem C09_leapers : forall s t, s < 64 -> t < 64 ->
  (test (knight_attacks s) t = true <-> exists d, In d knight_offsets /\ offset s (fst d) (snd d) = Some t) /\
  (test (king_attacks s) t = true <-> exists d, In d king_offsets /\ offset s (fst d) (snd d) = Some t) /\
  (test (pawn_attacks true s) t = true <-> exists d, In d white_pawn_offsets /\ offset s (fst d) (snd d) = Some t) /\
  (test (pawn_attacks false s) t = true <-> exists d, In d black_pawn_offsets /\ offset s (fst d) (snd d) = Some t).
Proof. exact leapers_spec. Qed.
Print Assumptions C09_leapers.

(* every set bit of the leaper tables is on the board *)
Theorem C09_leapers_on_board : forall s t, s < 64 ->
  test (knight_attacks s) t = true \/ test (king_attacks s) t = true \/
  test (pawn_attacks true s) t = true \/ test (pawn_attacks false s) t = true -> t < 64.
Proof. exact leapers_on_board. Qed.
Print Assumptions C09_leapers_on_board.

Theorem C09_shift : forall b df dr s, b < 2^64 -> (-2 <= df <= 2)%Z -> (-2 <= dr <= 2)%Z -> s < 64 ->
  (test (shift b df dr) s = true <-> exists s0, s0 < 64 /\ test b s0 = true /\ offset s0 df dr = Some s).
Proof. exact shift_spec. Qed.
Print Assumptions C09_shift.

(* stronger: the same characterisation without any bound on (df,dr) *)
Theorem C09_shift_any : forall b df dr s, b < 2^64 -> s < 64 ->
  (test (shift b df dr) s = true <-> exists s0, s0 < 64 /\ test b s0 = true /\ offset s0 df dr = Some s).
Proof. exact shift_spec_any. Qed.
Print Assumptions C09_shift_any.

Theorem C09_shift_lt : forall b df dr, b < 2^64 -> shift b df dr < 2^64.
Proof. exact shift_lt. Qed.
Print Assumptions C09_shift_lt.

Theorem C09_offset_geometry : forall s df dr t, s < 64 -> offset s df dr = Some t ->
  t < 64 /\ Z.of_N (file_of t) = (Z.of_N (file_of s) + df)%Z /\ Z.of_N (rank_of t) = (Z.of_N (rank_of s) + dr)%Z.
Proof. exact offset_geometry. Qed.
Print Assumptions C09_offset_geometry.

Theorem C09_walk_geometry : forall occ s t d, s < 64 -> t < 64 -> In d (rook_dirs ++ bishop_dirs) ->
  (In t (walk occ (ray_squares s d)) <->
   exists n, (1 <= n <= 7)%Z /\ offset s (n * fst d) (n * snd d) = Some t /\
     forall k, (1 <= k < n)%Z -> forall u, offset s (k * fst d) (k * snd d) = Some u -> test occ u = false).
Proof. exact walk_geometry. Qed.
Print Assumptions C09_walk_geometry.

(* the reference bitboard has exactly the walked squares set *)
Theorem C09_walk_dirs_test : forall occ s dirs t,
  test (walk_dirs occ s dirs) t = true <-> exists d, In d dirs /\ In t (walk occ (ray_squares s d)).
Proof. exact walk_dirs_test. Qed.
Print Assumptions C09_walk_dirs_test.

(* non-vacuity: queen on d4 (27) in the initial-position occupancy 0xFFFF00000000FFFF *)
Example C09_example_queen :
  27 < 64 /\ 18446462598732906495 < 2^64 /\
  queen_attacks 27 18446462598732906495 = 20593977193146880 /\
  map (fun d => walk 18446462598732906495 (ray_squares 27 d)) (rook_dirs ++ bishop_dirs) =
    [[35; 43; 51]; [19; 11]; [28; 29; 30; 31]; [26; 25; 24]; [36; 45; 54]; [34; 41; 48]; [20; 13]; [18; 9]].
Proof. vm_compute. repeat split; reflexivity. Qed.

(* non-vacuity: shifting the initial occupancy 0xFFFF00000000FFFF by (-1,+2) gives 0x7F7F0000 (the file-a
   squares do not wrap to file h, ranks 7-8 fall off the top); shifting file h east yields nothing;
   knight on h1 (7) attacks f2 (13) and g3 (22) only; white pawn on a2 (8) attacks b3 (17) only *)
Example C09_example_shift_leaper :
  shift 18446462598732906495 (-1) 2 = 2139029504 /\ shift file_h 1 0 = 0 /\
  shift file_h (-2) 1 = 2314885530818453504 /\ knight_attacks 7 = 4202496 /\ pawn_attacks true 8 = 131072.
Proof. vm_compute. repeat split; reflexivity. Qed.
