(* Property C17 for several workers under every schedule (model/Conc.v).
   - C17_conc_history_draw: a node below the root whose hash is recorded returns the draw score at once, without a
     single table operation, in every worker.
   - The invariant of props/C17_choice.v on the entries stored under the root hash (an entry with an evaluation
     >= POS_INF stores a move whose successor is NOT recorded) is a rely/guarantee invariant of the shared table:
     C17_conc_workers (one iteration, every schedule), C17_conc_last_report (the whole run: the last reported line
     starts with the move of the root entry of the returned table, and if that entry carries a winning terminal
     evaluation the move does not lead into a recorded position).
   The unconditional one-worker statement ("ev >= POS_INF reported -> first move not into a recorded position") does
   not carry over: the reported evaluation is the max over the workers while the line is read from the root entry
   found after the join, which may be a shallower worker's (C06_conc_first_move_witness). *)
From Coq Require Import NArith ZArith List Bool.
From WV Require Import Types Bits Attacks Board MoveEnc MoveGen Text Table Eval Search Conc Wf.
From WV Require Import SearchBase SearchProofs ConcSeq ConcRG HistoryChoice ConcHistory.
Import ListNotations.
Import WV.Bits.
Open Scope Z_scope.

Theorem C17_conc_history_draw : forall hs history jit fuel s md cd ce a b prio st,
  (0 < cd)%N -> in_history history (hash hs s) = true ->
  analyzeP hs history jit (S fuel) s md cd ce a b prio st = Ret (WVal EVEN (mkL (l_jidx st) (l_nodes st + 1))).
Proof. exact history_drawP. Qed.
Print Assumptions C17_conc_history_draw.

Theorem C17_conc_invariant_is_RInv : forall hs history s0 tt,
  TabR (R_hist hs history s0) tt <-> tt_ok tt /\ RInv hs history s0 tt.
Proof. exact TabR_RInv. Qed.
Print Assumptions C17_conc_invariant_is_RInv.

Theorem C17_conc_workers : forall hs history s0, in_history history (hash hs s0) = true ->
  forall jit_of depth bm workers sched tt,
  TabR (R_hist hs history s0) tt ->
  let '(rs, tt', _) := run_workers sched (map (worker_prog hs jit_of depth s0 history bm) (seq 0 workers)) tt in
  TabR (R_hist hs history s0) tt' /\
  (forall fuel mv tl e, iter_moves hs fuel tt' s0 0 depth = mv :: tl ->
     acc_find tt' (hash hs s0) = Some e -> POS_INF <= e_eval e -> Qs hs history s0 mv).
Proof. exact histM_workers. Qed.
Print Assumptions C17_conc_workers.

Theorem C17_conc_last_report : forall hs jit_of workers iters s history nt nb sched, (0 < nt)%nat -> (0 < nb)%nat ->
  let r := analyze_iterativeM hs jit_of workers iters s history (empty_access nt nb) sched in
  TabR (R_hist hs (root_history hs s history) s) (m_tt r) /\
  (forall evs ev mv tl, m_events r = evs ++ [EvBest ev (mv :: tl)] ->
     exists e, acc_find (m_tt r) (hash hs s) = Some e /\ e_move e = mv /\
       (POS_INF <= e_eval e ->
        forall ns, apply_move s mv = Some ns -> in_history (root_history hs s history) (hash hs ns) = false)).
Proof. exact iterativeM_hist_fresh. Qed.
Print Assumptions C17_conc_last_report.
