(* The binary32 arithmetic of the evaluator model (model/F32.v, used by C05 and C13) IS IEEE round-to-nearest-even
   at precision 24, in the sense of the Flocq library: every operation returns the correctly rounded value of the
   exact rational result (FLX format: 24-bit significand, unbounded exponent; equal to the binary32 format FLT with
   emin = -149 wherever the result is normal: C13_f32_rnd_FLT; overflow to infinity is outside both, as the comment
   in F32.v says, and outside the range the evaluator reaches).
   Until this file F32.v was tied to IEEE semantics only by exact agreement of integer scores with the Rust code.
   AXIOMS: these theorems depend on the standard library's real-number axioms, through Flocq and Reals:
   ClassicalDedekindReals.sig_forall_dec, ClassicalDedekindReals.sig_not_dec,
   FunctionalExtensionality.functional_extensionality_dep, Classical_Prop.classic.  They are allow-listed by name
   for exactly the theorems of this file (tools/wvlib.py ALLOWED_AXIOMS); no other property theorem depends on them,
   and the evaluator theorems of C05 / C13 do not use this file. *)
From Coq Require Import ZArith Reals.
From Flocq Require Import Core.
From WV Require Import F32 F32Flocq.
Open Scope Z_scope.

Theorem C13_f32_rnd_mag : forall n d, 0 < n -> 0 < d ->
  let '(m, e) := rnd_mag n d in
  (IZR m * bpow radix2 e)%R = round radix2 (FLX_exp 24) ZnearestE (IZR n / IZR d)%R.
Proof. exact rnd_mag_correct. Qed.
Print Assumptions C13_f32_rnd_mag.

Theorem C13_f32_rnd : forall a b, 0 < b -> let x := rnd a b in
  (IZR (fm x) * bpow radix2 (fe x))%R = round radix2 (FLX_exp 24) ZnearestE (IZR a / IZR b)%R.
Proof. exact rnd_correct. Qed.
Print Assumptions C13_f32_rnd.

Theorem C13_f32_rnd_FLT : forall a b, 0 < b -> (bpow radix2 (-149 + 24 - 1) <= Rabs (IZR a / IZR b))%R ->
  value (rnd a b) = round radix2 (FLT_exp (-149) 24) ZnearestE (IZR a / IZR b)%R.
Proof. exact rnd_correct_FLT. Qed.
Print Assumptions C13_f32_rnd_FLT.

Theorem C13_f32_mul : forall x y, value (f_mul x y) = round radix2 (FLX_exp 24) ZnearestE (value x * value y)%R.
Proof. exact f_mul_correct. Qed.
Print Assumptions C13_f32_mul.

Theorem C13_f32_add : forall x y, value (f_add x y) = round radix2 (FLX_exp 24) ZnearestE (value x + value y)%R.
Proof. exact f_add_correct. Qed.
Print Assumptions C13_f32_add.

Theorem C13_f32_sub : forall x y, value (f_sub x y) = round radix2 (FLX_exp 24) ZnearestE (value x - value y)%R.
Proof. exact f_sub_correct. Qed.
Print Assumptions C13_f32_sub.

Theorem C13_f32_div : forall x y, fm y <> 0 -> value (f_div x y) = round radix2 (FLX_exp 24) ZnearestE (value x / value y)%R.
Proof. exact f_div_correct. Qed.
Print Assumptions C13_f32_div.

Theorem C13_f32_of_Z : forall z, value (f_of_Z z) = round radix2 (FLX_exp 24) ZnearestE (IZR z).
Proof. exact f_of_Z_correct. Qed.
Print Assumptions C13_f32_of_Z.

Theorem C13_f32_of_dec : forall q, 0 < snd q -> value (f_of_dec q) = round radix2 (FLX_exp 24) ZnearestE (IZR (fst q) / IZR (snd q))%R.
Proof. exact f_of_dec_correct. Qed.
Print Assumptions C13_f32_of_dec.
