(* Property C02: make-move.  For every legal position and every generated move the successor computed by
   apply_move (State::by_performing_move) is the rules' successor of the abstraction (placement, side to
   move, castling rights, e.p. target, both counters), it is again a legal position, and this extends to
   whole histories and to the resolution of coordinate queries (State::by_performing_moves).
   apply_sat (proofs/ApplyProofs.v) is Rules.apply with the two counters incremented by
   usize::saturating_add; under clock_ok (counters below usize::MAX) it coincides with Rules.apply. *)
From WV Require Import Types Bits Attacks Board MoveEnc MoveGen Rules Abs Wf Encode.
From WV Require Import PosEq ApplyProofs PlayProofs GenLegal GenCount GenAttrs GenResolve.
Import WV.Bits.
Open Scope N_scope.

Theorem C02_apply_exact : forall s m s', LegalPos s -> clock_ok s -> In (m, s') (gen_legal s) ->
  apply_move s m = Some s' /\ pos_eq (abs s') (Rules.apply (abs s) (absm m)) /\ LegalPos s'.
Proof. exact apply_exact. Qed.
Print Assumptions C02_apply_exact.

Theorem C02_apply_saturating : forall s m s', LegalPos s -> In (m, s') (gen_legal s) ->
  apply_move s m = Some s' /\ pos_eq (abs s') (apply_sat (abs s) (absm m)) /\ LegalPos s'.
Proof. exact apply_saturating. Qed.
Print Assumptions C02_apply_saturating.

(* the generated pairs are exactly (canonical encoding of a legal move, its successor) *)
Theorem C02_gen_legal_exact : forall s m s', LegalPos s ->
  (In (m, s') (gen_legal s) <->
   exists mv, In mv (Rules.legal_moves (abs s)) /\ m = enc_move s mv /\ apply_move s m = Some s').
Proof. exact gen_legal_spec. Qed.
Print Assumptions C02_gen_legal_exact.

(* histories: plays s mvs s' (proofs/PlayProofs.v) = each move of mvs is Rules-legal in turn and is played
   through apply_move on its canonical encoding *)
Theorem C02_histories : forall s mvs s', LegalPos s -> plays s mvs s' ->
  st_half s + N.of_nat (length mvs) <= mask64 -> st_full s + N.of_nat (length mvs) <= mask64 ->
  LegalPos s' /\ pos_eq (abs s') (fold_left Rules.apply mvs (abs s)).
Proof. exact plays_refines. Qed.
Print Assumptions C02_histories.

Theorem C02_histories_saturating : forall s mvs s', LegalPos s -> plays s mvs s' ->
  LegalPos s' /\ pos_eq (abs s') (fold_left apply_sat mvs (abs s)).
Proof. exact plays_sat. Qed.
Print Assumptions C02_histories_saturating.

(* the same for histories made of generated (move, successor) pairs (gen_plays, proofs/GenAttrs.v) *)
Theorem C02_histories_generated : forall s ms s', LegalPos s -> gen_plays s ms s' ->
  st_half s + N.of_nat (length ms) <= mask64 -> st_full s + N.of_nat (length ms) <= mask64 ->
  LegalPos s' /\ pos_eq (abs s') (fold_left Rules.apply (map absm ms) (abs s)).
Proof. exact histories_gen. Qed.
Print Assumptions C02_histories_generated.

(* every Rules-legal line can be played *)
Theorem C02_histories_total : forall mvs s, LegalPos s -> legal_seq (abs s) mvs -> exists s', plays s mvs s'.
Proof. exact plays_total. Qed.
Print Assumptions C02_histories_total.

(* one step of by_performing_moves; coord_query q (proofs/GenCount.v): origin rank/file and destination
   rank/file set, piece / castle / capture unset, promotion optional *)
Theorem C02_resolve : forall s q, LegalPos s -> coord_query q ->
  match resolve s [q] with
  | ROk s' => exists m, In (m, s') (gen_legal s) /\ qtest q m = true /\
                        (forall m', In m' (MoveGen.legal_moves s) -> qtest q m' = true -> m' = m)
  | RUnknown => forall m, In m (MoveGen.legal_moves s) -> qtest q m = false
  | RAmbiguous => exists m1 m2, m1 <> m2 /\ In m1 (MoveGen.legal_moves s) /\ In m2 (MoveGen.legal_moves s) /\
                                qtest q m1 = true /\ qtest q m2 = true
  | RIllegalEp => False
  end.
Proof. exact resolve_coord. Qed.
Print Assumptions C02_resolve.

(* the hypothesis coord_query is not needed *)
Theorem C02_resolve_any : forall s q, LegalPos s ->
  match resolve s [q] with
  | ROk s' => exists m, In (m, s') (gen_legal s) /\ qtest q m = true /\
                        (forall m', In m' (MoveGen.legal_moves s) -> qtest q m' = true -> m' = m)
  | RUnknown => forall m, In m (MoveGen.legal_moves s) -> qtest q m = false
  | RAmbiguous => exists m1 m2, m1 <> m2 /\ In m1 (MoveGen.legal_moves s) /\ In m2 (MoveGen.legal_moves s) /\
                                qtest q m1 = true /\ qtest q m2 = true
  | RIllegalEp => False
  end.
Proof. exact resolve_one. Qed.
Print Assumptions C02_resolve_any.

(* completeness for the UCI front end: the coordinate query of a legal move (query_of mv, proofs/GenResolve.v:
   origin rank/file, destination rank/file, promotion) is never Unknown or Ambiguous and resolves to the
   successor of that move *)
Theorem C02_resolve_move : forall s mv, LegalPos s -> In mv (Rules.legal_moves (abs s)) ->
  coord_query (query_of mv) /\
  exists s', apply_move s (enc_move s mv) = Some s' /\ resolve s [query_of mv] = ROk s' /\
             LegalPos s' /\ pos_eq (abs s') (apply_sat (abs s) mv).
Proof. exact (fun s mv HL Hin => conj (query_of_coord mv) (resolve_move s mv HL Hin)). Qed.
Print Assumptions C02_resolve_move.

(* non-vacuity.  Same position as in C01 (White Ke1 Pa2 Pe5 Pg7, Black Ke8 Pb3 Pd5 Ph7, e.p. target d6):
   the en-passant capture e5xd6 is the ninth generated pair; its successor has the black pawn d5 removed;
   "e5d6" resolves to it, "g7g8" is ambiguous (four promotions), "g7g8n" is unique, "a2a5" is unknown. *)
Example C02_example :
  let s := mkState (mkBoard 18014467228958976 0 0 0 0 16 36028831378833408 0 0 0 0 1152921504606846976)
                   White false false false false (Some 43) 0 10 in
  let s' := mkState (mkBoard 18023194602504448 0 0 0 0 16 36028797019095040 0 0 0 0 1152921504606846976)
                    Black false false false false None 0 10 in
  let sn := mkState (mkBoard 68719476992 4611686018427387904 0 0 0 16 36028831378833408 0 0 0 0 1152921504606846976)
                    Black false false false false None 0 10 in
  legal_posb s = true /\ st_half s <? mask64 = true /\ st_full s <? mask64 = true /\
  nth_error (gen_legal s) 8 = Some (285322817, s') /\ absm 285322817 = mkMove 36 43 None /\
  apply_move s 285322817 = Some s' /\ legal_posb s' = true /\
  resolve s [mkQuery None (Some 4) (Some 4) (Some 5) (Some 3) None None None] = ROk s' /\
  resolve s [mkQuery None (Some 6) (Some 6) (Some 7) (Some 6) None None None] = RAmbiguous /\
  resolve s [mkQuery None (Some 6) (Some 6) (Some 7) (Some 6) (Some Knight) None None] = ROk sn /\
  resolve s [mkQuery None (Some 1) (Some 0) (Some 4) (Some 0) None None None] = RUnknown.
Proof. vm_compute. repeat split. Qed.

Example C02_example_rules :
  let s := mkState (mkBoard 18014467228958976 0 0 0 0 16 36028831378833408 0 0 0 0 1152921504606846976)
                   White false false false false (Some 43) 0 10 in
  let s' := mkState (mkBoard 18023194602504448 0 0 0 0 16 36028797019095040 0 0 0 0 1152921504606846976)
                    Black false false false false None 0 10 in
  let p' := Rules.apply (abs s) (mkMove 36 43 None) in
  map (p_at (abs s')) all_squares = map (p_at p') all_squares /\
  p_turn (abs s') = p_turn p' /\ p_ep (abs s') = p_ep p' /\ p_half (abs s') = p_half p' /\
  p_full (abs s') = p_full p' /\
  map (fun c => map (p_right (abs s') c) [true; false]) [White; Black] =
  map (fun c => map (p_right p' c) [true; false]) [White; Black] /\
  p_at p' 35 = None /\ p_at p' 43 = Some (White, Pawn).
Proof. lazy. repeat split. Qed.

(* a fifteen-ply history with double steps, an en-passant capture, both castlings and a
   capture-promotion (defined and checked in proofs/PlayProofs.v) *)
Example C02_histories_example :
  plays start_state demo_line demo_end /\ LegalPos demo_end /\
  pos_eq (abs demo_end) (fold_left Rules.apply demo_line (abs start_state)).
Proof. exact demo_refines. Qed.
