(* Property C03, the clause "at least one such report is made before the search ends".

   Model: model/Search.v (one worker, no cancellation: a search cancelled before its first iteration completes
   reports only if a root entry exists, see C04).  From a fresh table the first iteration (depth 0, max depth 1,
   window (-11000, 11000)) searches the first legal move, its value raises alpha, and the root entry is the LAST
   table operation of the iteration; hence the line read from the table is non-empty and EvBest is emitted.
   This needs the static scores of the positions below the root to lie strictly inside (-11000, 11000):
     HeurInside P = every position of P that has a legal move has |heuristic| < 11000 (from the side to move)
     Below s      = the positions reachable from a successor of s
   The premise is discharged for at most ten men, follows from the C06 residue HeurNTOn, and CANNOT be dropped
   (C03_reports_premise_needed: a LegalPos with 8 white queens and 39 white pawns against a lone king, five legal
   moves, whose run ends normally with the single event EvProgress 1 6: the material caveat of C05/C06 again -
   LegalPos does not bound promoted material, and such a position is not reachable by play).
   The n-worker layer: props/C06_conc_complete.v explains why "a line is always there" is not a theorem for
   several workers (NoLineM). *)
From Coq Require Import NArith ZArith List Bool.
From WV Require Import Types Bits Attacks Board MoveEnc MoveGen Text Table Eval Search Wf.
From WV Require Import SearchBase SearchProofs SearchSafety MateSound MateRegion SearchReports.
Import ListNotations.
Open Scope Z_scope.

Theorem C03_reports_fresh : forall hs jit_of iters s history nt nb,
  HeurInside (Below s) -> LegalPos s -> gen_legal s <> [] -> (1 <= iters)%nat -> (0 < nt)%nat -> (0 < nb)%nat ->
  let r := analyze_iterative hs jit_of None iters s history (empty_access nt nb) in
  exists ev line, In (EvBest ev line) (r_events r) /\ line <> [].
Proof. exact reports_fresh. Qed.
Print Assumptions C03_reports_fresh.

(* reused memory: any table whose values are in range and which holds no usable entry under the root hash *)
Theorem C03_reports_table : forall hs jit_of iters s history tt,
  HeurInside (Below s) -> LegalPos s -> gen_legal s <> [] -> (1 <= iters)%nat ->
  tt_ok tt -> TEntriesOk tt -> TIn tt -> NoUse tt (hash hs s) 1 0 ->
  let r := analyze_iterative hs jit_of None iters s history tt in
  exists ev line, In (EvBest ev line) (r_events r) /\ line <> [].
Proof. exact reports_table. Qed.
Print Assumptions C03_reports_table.

Theorem C03_reports_fresh_small : forall hs jit_of iters s history nt nb,
  LegalPos s -> (men s <= 10)%nat -> gen_legal s <> [] -> (1 <= iters)%nat -> (0 < nt)%nat -> (0 < nb)%nat ->
  let r := analyze_iterative hs jit_of None iters s history (empty_access nt nb) in
  exists ev line, In (EvBest ev line) (r_events r) /\ line <> [].
Proof. exact reports_fresh_small. Qed.
Print Assumptions C03_reports_fresh_small.

Theorem C03_reports_fresh_reach : forall hs jit_of iters s history nt nb,
  HeurNTOn (Reach s) -> LegalPos s -> gen_legal s <> [] -> (1 <= iters)%nat -> (0 < nt)%nat -> (0 < nb)%nat ->
  let r := analyze_iterative hs jit_of None iters s history (empty_access nt nb) in
  exists ev line, In (EvBest ev line) (r_events r) /\ line <> [].
Proof. exact reports_fresh_reach. Qed.
Print Assumptions C03_reports_fresh_reach.

Theorem C03_reports_premise_needed :
  ~ (forall hs jit_of iters s history nt nb,
       LegalPos s -> gen_legal s <> [] -> (1 <= iters)%nat -> (0 < nt)%nat -> (0 < nb)%nat ->
       let r := analyze_iterative hs jit_of None iters s history (empty_access nt nb) in
       exists ev line, In (EvBest ev line) (r_events r) /\ line <> []).
Proof. exact heur_inside_needed. Qed.
Print Assumptions C03_reports_premise_needed.
