(* C14: malformed text never crashes the parsers.  The FEN theorems live in C14_fen.v; re-exported here. *)
From WV Require Export C14_fen.
From WV Require Import Notation.

Theorem C14_fen_never_panics : forall str k, fen_read str <> Panic k.
Proof. exact C14_fen_total. Qed.
Print Assumptions C14_fen_never_panics.

Theorem C14_placement_never_panics : forall l loc b k, parse_placement l loc b <> Panic k.
Proof. exact C14_placement_total_any. Qed.
Print Assumptions C14_placement_never_panics.
