(* Property C05: the static evaluator returns the mate score for the given ply (negative for the side to
   move, positive from the opponent's perspective) for every position where the side to move is in check
   and has no legal move, returns exactly zero for every stalemate, and returns a non-terminal score for
   every position that has a legal move.  Mate scores are at least the terminal threshold and never
   increase with ply.
   evaluate / heuristic / mate_in_ply / is_terminal: model/Eval.v (bit-exact binary32, model/F32.v). *)
From WV Require Import Types Bits Attacks Board MoveEnc MoveGen Rules Abs Wf Encode Eval.
From WV Require Import EvalF32 EvalShortcut EvalProofs.
Import WV.Bits.
Open Scope Z_scope.

Theorem C05_mate : forall s p d, LegalPos s -> gen_legal s = [] -> is_check s = true ->
  evaluate s p d = EVal (if color_eqb (st_turn s) p then - mate_in_ply d else mate_in_ply d).
Proof. exact eval_mate. Qed.
Print Assumptions C05_mate.

Theorem C05_stalemate : forall s p d, LegalPos s -> gen_legal s = [] -> is_check s = false ->
  evaluate s p d = EVal EVEN.
Proof. exact eval_stalemate. Qed.
Print Assumptions C05_stalemate.

(* king.first_square().unwrap() cannot fail *)
Theorem C05_no_king_panic : forall s p d, LegalPos s -> evaluate s p d <> EPanic.
Proof. exact eval_no_panic. Qed.
Print Assumptions C05_no_king_panic.

(* a position with a legal move is never given the mate/stalemate branch *)
Theorem C05_has_move_heuristic : forall s p d, LegalPos s -> gen_legal s <> [] ->
  evaluate s p d = EVal (heuristic (st_board s) p).
Proof. exact eval_has_move. Qed.
Print Assumptions C05_has_move_heuristic.

(* the shortcut of the evaluator (king not in check with an empty, unattacked neighbour square => not
   terminal, without generating moves) is sound: that king step is a legal move of the rules *)
Theorem C05_shortcut : forall s ksq t, LegalPos s ->
  first_one (pocc (st_board s) (st_turn s) King) = Some ksq ->
  is_check s = false ->
  test (N.land (N.land (king_attacks ksq) (lnot64 (occupancy (st_board s))))
               (lnot64 (colored_attacks (st_board s) (opp (st_turn s))))) t = true ->
  In (mkMove ksq t None) (Rules.legal_moves (abs s)).
Proof. exact shortcut_legal_move. Qed.
Print Assumptions C05_shortcut.

(* the same three cases with the hypotheses stated on the rules *)
Theorem C05_rules_level : forall s p d, LegalPos s ->
  (Rules.checkmate (abs s) = true ->
     evaluate s p d = EVal (if color_eqb (st_turn s) p then - mate_in_ply d else mate_in_ply d)) /\
  (Rules.stalemate (abs s) = true -> evaluate s p d = EVal EVEN) /\
  (Rules.legal_moves (abs s) <> [] -> evaluate s p d = EVal (heuristic (st_board s) p)).
Proof.
  exact (fun s p d HL => conj (eval_checkmate_rules s p d HL)
                        (conj (eval_stalemate_rules s p d HL) (eval_has_move_rules s p d HL))).
Qed.
Print Assumptions C05_rules_level.

(* the three cases are exhaustive and exclusive *)
Theorem C05_cases : forall s, LegalPos s ->
  (Rules.checkmate (abs s) = true /\ Rules.stalemate (abs s) = false /\ Rules.legal_moves (abs s) = []) \/
  (Rules.checkmate (abs s) = false /\ Rules.stalemate (abs s) = true /\ Rules.legal_moves (abs s) = []) \/
  (Rules.checkmate (abs s) = false /\ Rules.stalemate (abs s) = false /\ Rules.legal_moves (abs s) <> []).
Proof. exact eval_cases. Qed.
Print Assumptions C05_cases.

(* mate scores: at least the terminal threshold for every ply (including the plies >= 2^31 where
   `ply as i32` wraps), classified as terminal, non-increasing in the ply below 2^31 *)
Theorem C05_mate_scores : forall d,
  POS_INF <= mate_in_ply d /\ - mate_in_ply d <= NEG_INF /\
  is_terminal (mate_in_ply d) = true /\ is_terminal (- mate_in_ply d) = true /\
  (forall d', (d <= d')%N -> (d' < 2147483648)%N -> mate_in_ply d' <= mate_in_ply d) /\
  ((d < 2147483648)%N -> mate_in_ply d = POS_INF + one_pawn * Z.max (mate_bonus_plies - Z.of_N d) 0).
Proof. exact mate_scores. Qed.
Print Assumptions C05_mate_scores.
