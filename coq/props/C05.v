(* Property C05: the static evaluator returns the mate score for the given ply (negative for the side to
   move, positive from the opponent's perspective) for every position where the side to move is in check
   and has no legal move, returns exactly zero for every stalemate, and returns a non-terminal score for
   every position that has a legal move.  Mate scores are at least the terminal threshold and never
   increase with ply.
   evaluate / heuristic / mate_in_ply / is_terminal: model/Eval.v (bit-exact binary32, model/F32.v). *)
From WV Require Import Types Bits Attacks Board MoveEnc MoveGen Rules Abs Wf Encode Eval.
From WV Require Import EvalF32 EvalShortcut EvalProofs EvalMirror EvalBound.
Import WV.Bits.
Open Scope Z_scope.

Theorem C05_mate : forall s p d, LegalPos s -> gen_legal s = [] -> is_check s = true ->
  evaluate s p d = EVal (if color_eqb (st_turn s) p then - mate_in_ply d else mate_in_ply d).
Proof. exact eval_mate. Qed.
Print Assumptions C05_mate.

Theorem C05_stalemate : forall s p d, LegalPos s -> gen_legal s = [] -> is_check s = false ->
  evaluate s p d = EVal EVEN.
Proof. exact eval_stalemate. Qed.
Print Assumptions C05_stalemate.

(* king.first_square().unwrap() cannot fail *)
Theorem C05_no_king_panic : forall s p d, LegalPos s -> evaluate s p d <> EPanic.
Proof. exact eval_no_panic. Qed.
Print Assumptions C05_no_king_panic.

(* a position with a legal move is never given the mate/stalemate branch *)
Theorem C05_has_move_heuristic : forall s p d, LegalPos s -> gen_legal s <> [] ->
  evaluate s p d = EVal (heuristic (st_board s) p).
Proof. exact eval_has_move. Qed.
Print Assumptions C05_has_move_heuristic.

(* the shortcut of the evaluator (king not in check with an empty, unattacked neighbour square => not
   terminal, without generating moves) is sound: that king step is a legal move of the rules *)
Theorem C05_shortcut : forall s ksq t, LegalPos s ->
  first_one (pocc (st_board s) (st_turn s) King) = Some ksq ->
  is_check s = false ->
  test (N.land (N.land (king_attacks ksq) (lnot64 (occupancy (st_board s))))
               (lnot64 (colored_attacks (st_board s) (opp (st_turn s))))) t = true ->
  In (mkMove ksq t None) (Rules.legal_moves (abs s)).
Proof. exact shortcut_legal_move. Qed.
Print Assumptions C05_shortcut.

(* the same three cases with the hypotheses stated on the rules *)
Theorem C05_rules_level : forall s p d, LegalPos s ->
  (Rules.checkmate (abs s) = true ->
     evaluate s p d = EVal (if color_eqb (st_turn s) p then - mate_in_ply d else mate_in_ply d)) /\
  (Rules.stalemate (abs s) = true -> evaluate s p d = EVal EVEN) /\
  (Rules.legal_moves (abs s) <> [] -> evaluate s p d = EVal (heuristic (st_board s) p)).
Proof.
  exact (fun s p d HL => conj (eval_checkmate_rules s p d HL)
                        (conj (eval_stalemate_rules s p d HL) (eval_has_move_rules s p d HL))).
Qed.
Print Assumptions C05_rules_level.

(* the three cases are exhaustive and exclusive *)
Theorem C05_cases : forall s, LegalPos s ->
  (Rules.checkmate (abs s) = true /\ Rules.stalemate (abs s) = false /\ Rules.legal_moves (abs s) = []) \/
  (Rules.checkmate (abs s) = false /\ Rules.stalemate (abs s) = true /\ Rules.legal_moves (abs s) = []) \/
  (Rules.checkmate (abs s) = false /\ Rules.stalemate (abs s) = false /\ Rules.legal_moves (abs s) <> []).
Proof. exact eval_cases. Qed.
Print Assumptions C05_cases.

(* mate scores: at least the terminal threshold for every ply (including the plies >= 2^31 where
   `ply as i32` wraps), classified as terminal, non-increasing in the ply below 2^31 *)
Theorem C05_mate_scores : forall d,
  POS_INF <= mate_in_ply d /\ - mate_in_ply d <= NEG_INF /\
  is_terminal (mate_in_ply d) = true /\ is_terminal (- mate_in_ply d) = true /\
  (forall d', (d <= d')%N -> (d' < 2147483648)%N -> mate_in_ply d' <= mate_in_ply d) /\
  ((d < 2147483648)%N -> mate_in_ply d = POS_INF + one_pawn * Z.max (mate_bonus_plies - Z.of_N d) 0).
Proof. exact mate_scores. Qed.
Print Assumptions C05_mate_scores.

(* "returns a non-terminal score for every position that has a legal move".
   FULL STATEMENT (FALSE in the model, see C05_nonterminal_counterexample below):
     forall s p d, LegalPos s -> gen_legal s <> [] -> exists v, evaluate s p d = EVal v /\ is_terminal v = false.
   What holds: the positional part of the heuristic is bounded by B_pos = 2516 centipawns when each side
   has at most 16 men (color_count, the evaluator's own count) and at most one king, so the score is
   non-terminal as soon as the material term |term_worths b p - term_worths b (opp p)| is at most 7483
   (with one king each this is the usual balance 100 dP + 300 dN + 350 dB + 500 dR + 900 dQ). *)
Theorem C05_nonterminal_bound_partial : forall b p, WfBoard b ->
  (forall c, color_count b c <= 16) -> (forall c, count b c King <= 1) ->
  Z.abs (heuristic b p) <= Z.abs (term_worths b p - term_worths b (opp p)) + 2516 /\
  (Z.abs (term_worths b p - term_worths b (opp p)) <= 7483 -> is_terminal (heuristic b p) = false).
Proof.
  exact (fun b p Hwf Hmen Hk => conj (heuristic_bound b p Hwf Hmen Hk) (heuristic_nonterminal b p Hwf Hmen Hk)).
Qed.
Print Assumptions C05_nonterminal_bound_partial.

Theorem C05_nonterminal_partial : forall s p d, LegalPos s -> gen_legal s <> [] ->
  (forall c, color_count (st_board s) c <= 16) ->
  Z.abs (term_worths (st_board s) p - term_worths (st_board s) (opp p)) <= 7483 ->
  exists v, evaluate s p d = EVal v /\ is_terminal v = false.
Proof. exact eval_nonterminal. Qed.
Print Assumptions C05_nonterminal_partial.

Theorem C05_material_balance : forall b p, count b p King = count b (opp p) King ->
  term_worths b p - term_worths b (opp p) =
  100 * (count b p Pawn - count b (opp p) Pawn) + 300 * (count b p Knight - count b (opp p) Knight)
  + 350 * (count b p Bishop - count b (opp p) Bishop) + 500 * (count b p Rook - count b (opp p) Rook)
  + 900 * (count b p Queen - count b (opp p) Queen).
Proof. exact material_balance. Qed.
Print Assumptions C05_material_balance.

(* non-vacuity and the counterexample (one vm_compute: the magic tables are rebuilt once).
   mate : White Kg1 Re8, Black Kh8 Pg7 Ph7, Black to move: back-rank mate, -11000 / +11000 at ply 0,
          -10700 at ply 3, 10000 from ply 10 on.
   stale: White Ka6 Pa7, Black Ka8, Black to move: stalemate, 0.
   mid  : the position of C01 (14 legal moves): heuristic 36 / -36, not terminal.
   big  : White Ke1 Qb1 Qc1 Qd1 Qf1 Qg1 Qb2 Qc2 Qd2 Qe2 Rf2 Rh2 Bb3 Bc3 Nd3 Ne3, Black Ka8, White to move
          ("k7/8/8/8/8/1BBNN3/1QQQQR1R/1QQQKQQ1 w - - 0 60"): a legal position with 56 legal moves whose
          static score 10388 is >= POS_INF, i.e. classified terminal although it is neither mate nor
          stalemate.  The material term alone is 10400 > POS_INF. *)
Example C05_example :
  let mate := mkState (mkBoard 0 0 0 1152921504606846976 0 64 54043195528445952 0 0 0 0 9223372036854775808)
                      Black false false false false None 0 1 in
  let stale := mkState (mkBoard 281474976710656 0 0 0 0 1099511627776 0 0 0 0 0 72057594037927936)
                       Black false false false false None 0 1 in
  let mid := mkState (mkBoard 18014467228958976 0 0 0 0 16 36028831378833408 0 0 0 0 1152921504606846976)
                     White false false false false (Some 43%N) 0 10 in
  let big := mkState (mkBoard 0 1572864 393216 40960 7790 16 0 0 0 0 0 72057594037927936)
                     White false false false false None 0 60 in
  (legal_posb mate = true /\ gen_legal mate = [] /\ is_check mate = true /\
   evaluate mate Black 0 = EVal (-11000) /\ evaluate mate White 0 = EVal 11000 /\
   evaluate mate Black 3 = EVal (-10700) /\ evaluate mate White 12 = EVal 10000) /\
  (legal_posb stale = true /\ gen_legal stale = [] /\ is_check stale = false /\
   evaluate stale Black 0 = EVal 0 /\ evaluate stale White 7 = EVal 0) /\
  (legal_posb mid = true /\ length (gen_legal mid) = 14%nat /\
   evaluate mid White 0 = EVal 36 /\ evaluate mid Black 0 = EVal (-36) /\
   is_terminal (heuristic (st_board mid) White) = false /\
   color_count (st_board mid) White = 4 /\ color_count (st_board mid) Black = 4 /\
   term_worths (st_board mid) White - term_worths (st_board mid) Black = 0) /\
  (legal_posb big = true /\ length (gen_legal big) = 56%nat /\ is_check big = false /\
   evaluate big White 0 = EVal 10388 /\ evaluate big Black 0 = EVal (-10388) /\
   is_terminal (heuristic (st_board big) White) = true /\
   color_count (st_board big) White = 16 /\ color_count (st_board big) Black = 1 /\
   term_worths (st_board big) White - term_worths (st_board big) Black = 10400).
Proof. vm_compute. repeat split. Qed.

(* the counterexample as a refutation of the full third clause *)
Theorem C05_nonterminal_counterexample :
  ~ (forall s p d, LegalPos s -> gen_legal s <> [] ->
       exists v, evaluate s p d = EVal v /\ is_terminal v = false).
Proof. exact nonterminal_counterexample. Qed.
Print Assumptions C05_nonterminal_counterexample.

(* the rules side of the two terminal examples (lazy: the king-safety test of Rules.legal is only
   evaluated for pseudo-legal moves) *)
Example C05_example_rules :
  let mate := mkState (mkBoard 0 0 0 1152921504606846976 0 64 54043195528445952 0 0 0 0 9223372036854775808)
                      Black false false false false None 0 1 in
  let stale := mkState (mkBoard 281474976710656 0 0 0 0 1099511627776 0 0 0 0 0 72057594037927936)
                       Black false false false false None 0 1 in
  Rules.checkmate (abs mate) = true /\ Rules.stalemate (abs mate) = false /\
  Rules.stalemate (abs stale) = true /\ Rules.checkmate (abs stale) = false.
Proof. lazy. repeat split. Qed.
