(* Property C04: the search terminates, stops when told to, and reaches none of its panic sites.
   "From every legal position the search terminates at every depth limit, returns when cancelled, reports
    a terminal root as terminal, and none of the unwraps/subtractions on its path can fail."

   Model: model/Search.v.  analyze = analyze_recursive with structural fuel (SFuel when it runs out), the
   places where the Rust can panic are SPanic sites (20: max_depth - current_depth, 21: entry.max_depth -
   entry.depth, 22: by_performing_move(..).unwrap(), 23: king square unwrap in the evaluator); quiesce has
   fuel men + 1.  Definitions used in the statements (proofs/SearchSafety.v, proofs/SearchTop.v):
     EvalTotal            = forall s p d, LegalPos s -> evaluate s p d <> EPanic      (proved: C05)
     CaptureMen           = along a generated capture the number of men decreases     (proved here)
     TEntriesOk tt        = every entry found in tt has depth <= max depth
     tt_ok, TInv, HashFaithful: see props/C03.v
     next_poll n          = (n / poll_period + 1) * poll_period   the next multiple of poll_period above n
     cinv c w             = c <= w_gnodes w -> w_flag w = true    (cancel_at = Some c has been honoured)
     stop_target c w      = the least multiple of poll_period that is >= w_nodes w + max 1 (c - w_gnodes w) *)
From Coq Require Import NArith ZArith List Bool.
From WV Require Import Types Bits Attacks Board MoveEnc MoveGen Text Table Eval Search Wf.
From WV Require Import SearchBase SearchProofs SearchSafety SearchMen SearchTop EvalProofs.
Import ListNotations.
Import WV.Bits.
Open Scope N_scope.

(* ---- the two facts about the position the fuel and panic arguments rest on ---- *)

Theorem C04_eval_total : forall s p d, LegalPos s -> evaluate s p d <> EPanic.
Proof. exact eval_no_panic. Qed.
Print Assumptions C04_eval_total.

Theorem C04_capture_men : forall s m ns, LegalPos s -> In (m, ns) (gen_legal s) ->
  m_is_capture m = true -> (men ns < men s)%nat.
Proof. exact capture_men. Qed.
Print Assumptions C04_capture_men.

(* ---- termination: the structural fuel is never exhausted ---- *)

Theorem C04_quiesce_total : forall s depth alpha beta, LegalPos s ->
  exists v, quiesce (S (men s)) s depth alpha beta = QVal v.
Proof. exact (quiesce_total eval_no_panic). Qed.
Print Assumptions C04_quiesce_total.

Theorem C04_no_fuel : forall hs history jit cancel fuel s maxd cur ext a b prio w,
  LegalPos s -> (forall pm, prio = Some pm -> In pm (MoveGen.legal_moves s)) ->
  (N.to_nat (maxd - cur) < fuel)%nat ->
  analyze hs history jit cancel fuel s maxd cur ext a b prio w <> SFuel.
Proof. exact (fun hs history jit cancel => analyze_no_fuel hs history jit cancel quiesce_fuel_ok). Qed.
Print Assumptions C04_no_fuel.

(* ---- no panic site is reachable ---- *)

Theorem C04_no_panic : forall hs history jit cancel fuel s maxd cur ext a b prio w site,
  tt_ok (w_tt w) -> TEntriesOk (w_tt w) -> LegalPos s -> (cur <= maxd)%N ->
  (forall pm, prio = Some pm -> In pm (MoveGen.legal_moves s)) ->
  analyze hs history jit cancel fuel s maxd cur ext a b prio w <> SPanic site.
Proof. exact (fun hs history jit cancel => analyze_no_panic hs history jit cancel eval_no_panic). Qed.
Print Assumptions C04_no_panic.

Theorem C04_analyze_safe : forall hs history jit cancel fuel s maxd cur ext a b prio w,
  tt_ok (w_tt w) -> TEntriesOk (w_tt w) -> LegalPos s -> (cur <= maxd)%N ->
  (N.to_nat (maxd - cur) < fuel)%nat ->
  (forall pm, prio = Some pm -> In pm (MoveGen.legal_moves s)) ->
  match analyze hs history jit cancel fuel s maxd cur ext a b prio w with
  | SVal _ w' => tt_ok (w_tt w') /\ TEntriesOk (w_tt w')
  | SInterrupt w' => tt_ok (w_tt w') /\ TEntriesOk (w_tt w')
  | _ => False
  end.
Proof. exact (analyze_safe eval_no_panic). Qed.
Print Assumptions C04_analyze_safe.

(* the whole run: finished (0) or interrupted (1), never a panic (100 + site) or out of fuel (2); the table
   handed back satisfies the hypotheses again.  HashFaithful is needed because the prioritised move of the
   next iteration is read from the table without a legality check. *)
Theorem C04_iterative_safe : forall hs jit_of cancel iters s history tt,
  HashFaithful hs -> LegalPos s -> tt_ok tt -> TInv hs tt -> TEntriesOk tt ->
  let r := analyze_iterative hs jit_of cancel iters s history tt in
  (r_outcome r = 0 \/ r_outcome r = 1) /\ tt_ok (r_tt r) /\ TInv hs (r_tt r) /\ TEntriesOk (r_tt r).
Proof. exact (iterative_safe eval_no_panic). Qed.
Print Assumptions C04_iterative_safe.

(* ---- the terminal root ---- *)

Theorem C04_terminal_root : forall hs jit_of cancel iters s history tt,
  LegalPos s -> gen_legal s = [] -> acc_find tt (hash hs s) = None ->
  let r := analyze_iterative hs jit_of cancel (S iters) s history tt in
  r_outcome r = 0 /\ r_events r = [EvProgress 1 1] /\ r_tt r = tt /\ r_gnodes r = 1.
Proof. exact (terminal_root eval_no_panic). Qed.
Print Assumptions C04_terminal_root.

(* ---- stopping ---- *)

(* a node entry whose incremented counter is a multiple of poll_period interrupts as soon as the flag is,
   or becomes, set *)
Theorem C04_stop_bound : forall cancel w,
  (w_flag w = true \/ exists c, cancel = Some c /\ (c <= w_gnodes w + 1)%N) ->
  ((w_nodes w + 1) mod poll_period = 0)%N ->
  snd (enter_node cancel w) = true /\ w_flag (fst (enter_node cancel w)) = true.
Proof. exact enter_node_interrupts. Qed.
Print Assumptions C04_stop_bound.

(* with the flag set, analyze enters nodes only up to the next multiple of poll_period and interrupts there *)
Theorem C04_stop_bound_nodes : forall hs history jit cancel fuel s maxd cur ext a b prio w,
  w_flag w = true ->
  match analyze hs history jit cancel fuel s maxd cur ext a b prio w with
  | SVal _ w' => w_flag w' = true /\ w_nodes w <= w_nodes w' /\ w_nodes w' < next_poll (w_nodes w)
  | SInterrupt w' => w_flag w' = true /\ w_nodes w' = next_poll (w_nodes w)
  | _ => True
  end.
Proof. exact stop_bound. Qed.
Print Assumptions C04_stop_bound_nodes.

(* the same when the flag is set in the middle of the call by cancel_at = Some c *)
Theorem C04_stop_bound_cancel : forall c hs history jit fuel s maxd cur ext a b prio w,
  cinv c w ->
  match analyze hs history jit (Some c) fuel s maxd cur ext a b prio w with
  | SVal _ w' => cinv c w' /\ w_nodes w <= w_nodes w' /\ w_nodes w' < stop_target c w /\
                 w_gnodes w' + w_nodes w = w_gnodes w + w_nodes w'
  | SInterrupt w' => w_flag w' = true /\ w_nodes w < w_nodes w' /\ w_nodes w' <= stop_target c w /\
                     w_gnodes w' + w_nodes w = w_gnodes w + w_nodes w'
  | _ => True
  end.
Proof. exact stop_bound_cancel. Qed.
Print Assumptions C04_stop_bound_cancel.

(* fewer than poll_period node entries after the c-th one of the run *)
Theorem C04_stop_bound_cancel_gnodes : forall c hs history jit fuel s maxd cur ext a b prio w,
  cinv c w -> w_gnodes w < c ->
  match analyze hs history jit (Some c) fuel s maxd cur ext a b prio w with
  | SVal _ w' => w_gnodes w' < c + poll_period
  | SInterrupt w' => w_gnodes w' < c + poll_period
  | _ => True
  end.
Proof. exact stop_bound_cancel_gnodes. Qed.
Print Assumptions C04_stop_bound_cancel_gnodes.

(* an interrupt is never converted into a value: the state an interrupted call hands back is exactly the
   state produced by the polling node entry that raised it *)
Theorem C04_interrupt_propagates : forall hs history jit cancel fuel s maxd cur ext a b prio w w',
  analyze hs history jit cancel fuel s maxd cur ext a b prio w = SInterrupt w' ->
  exists w0, enter_node cancel w0 = (w', true) /\ w_nodes w <= w_nodes w0 /\ w_flag w' = true.
Proof. exact analyze_interrupt_propagates. Qed.
Print Assumptions C04_interrupt_propagates.

Theorem C04_loop_interrupt_propagates : forall (rec : rec_t) s h md cd ce ext beta1 prev m tl alpha best kind w ns w',
  apply_move s m = Some ns -> king_hit s ns = false ->
  rec ns (md + ext) (cd + 1 + ext) (ce + ext) (- beta1)%Z (- alpha)%Z None w = SInterrupt w' ->
  loop_body rec s h md cd ce ext beta1 prev (m :: tl) alpha best kind w = SInterrupt w'.
Proof. exact loop_interrupt_propagates. Qed.
Print Assumptions C04_loop_interrupt_propagates.

(* with the flag set, no further iteration starts (outcome 1) *)
Theorem C04_iteration_stop : forall hs jit_of cancel k depth s history tt gnodes trace nt be bm acc,
  (0 < depth)%N ->
  iterate hs jit_of cancel (S k) depth s history tt gnodes true trace nt be bm acc =
  mkRun (rev acc) tt history gnodes trace 1.
Proof. exact iteration_stop. Qed.
Print Assumptions C04_iteration_stop.

(* non-vacuity.  stale: Black Ka8 to move, White Qb6 Kc7 - stalemate: a legal position without legal moves;
   three iterations allowed, one node searched, no best move, outcome 0.
   kk: kings e1/e8; with cancel_at = Some 3 the flag is set by the third node, the first iteration (six
   nodes, no poll) completes and the second does not start: outcome 1.  Without cancellation three
   iterations finish with outcome 0. *)
Example C04_example :
  let hx := hasher_of_stream (map N.of_nat (seq 1 1038)) in
  let stale := mkState (mkBoard 0 0 0 0 (N.shiftl 1 41) (N.shiftl 1 50) 0 0 0 0 0 (N.shiftl 1 56))
                       Black false false false false None 0 1 in
  let kk := mkState (mkBoard 0 0 0 0 0 16 0 0 0 0 0 (N.shiftl 16 56)) White false false false false None 0 1 in
  let tt := empty_access 2 4 in
  legal_posb stale = true /\ gen_legal stale = [] /\ acc_find tt (hash hx stale) = None /\
  (let r := analyze_iterative hx (fun _ _ => 0%Z) None 3 stale [] tt in
   r_events r = [EvProgress 1 1] /\ r_outcome r = 0 /\ r_gnodes r = 1) /\
  (let r := analyze_iterative hx (fun _ _ => 0%Z) (Some 3) 3 kk [] tt in
   r_events r = [EvProgress 1 6; EvBest 23 [268448838]] /\ r_outcome r = 1 /\ r_gnodes r = 6) /\
  (let r := analyze_iterative hx (fun _ _ => 0%Z) None 3 kk [] tt in
   r_outcome r = 0 /\ length (r_events r) = 6%nat) /\
  men kk = 2%nat.
Proof. vm_compute. repeat split. Qed.
