(* Property C07, "every go on a position that has a legal move is answered by exactly one bestmove ... when the
   depth limit is reached, the time is up, or the next stop/go/position/quit arrives", at the level of the threads
   and channels around one search (model/Control.v; see props/C04_control.v for the model and its tie).
   The session model Uci.v (props/C07.v) treats a running search as abstract and records OCollected when a command
   collects it; these theorems are what stands behind that abstraction: in every interleaving of the search thread,
   the control thread, the timer, the writer and the command loop, the writer prints exactly one bestmove, after the
   search thread has ended, and a collecting command always gets through. *)
From Coq Require Import List Bool Arith.
From WV Require Import Control ControlProofs.
Import ListNotations.

Theorem C07_control_one_bestmove_per_go : forall limited extra, extra <= 3 ->
  forall st, Reachable limited extra st ->
  (c_best st <= 1 /\ (c_best st = 1 -> c_s st = SDone)) /\
  (step_sys limited st = [] -> c_best st = 1).
Proof.
  intros limited extra Hx st HR. split; [exact (bestmove_at_most_once limited extra Hx st HR)|].
  intros E. pose proof (quiet_is_settled limited extra Hx st HR E) as H. unfold settled in H.
  destruct (c_s st); try discriminate H. destruct (c_c st); try discriminate H.
  apply andb_prop in H. destruct H as [_ H]. apply Nat.eqb_eq. exact H.
Qed.
Print Assumptions C07_control_one_bestmove_per_go.

Theorem C07_control_collecting_command_gets_through : forall limited extra, extra <= 3 ->
  forall st, Reachable limited extra st -> collecting st = true -> step_all limited st <> [].
Proof. exact collection_progresses. Qed.
Print Assumptions C07_control_collecting_command_gets_through.
