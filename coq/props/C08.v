(* Property C08: the Zobrist hash.
   "Two positions with the same piece placement, side to move, castling rights and en-passant target
    always hash equal, however they were reached and whatever their move counters are.  Two positions
    that differ in placement, in side to move, in castling rights, or in an en-passant capture being
    available hash differently (up to 64-bit chance).  Consequently the search memory and the opening
    book, which are keyed by this hash, never hand a position an answer computed for a position with
    different legal moves."

   Model: model/Text.v (hasher, hash_pieces, ep_capturable, hash).  Definitions used in the statements
   (proofs/HashProofs.v):
     rulekey s            = (st_board s, st_turn s, (st_wk s, st_wq s, st_bk s, st_bq s), ep_capturable s)
                            placement, side to move, the four rights, the CAPTURABLE en-passant target
     feature              FPiece sq c p | FTurn c | FCastle c kingside | FEp file
     key_of h f           the table entry of hasher h for feature f (k_piece[sq*16+piece_index c p],
                          k_turn[side], k_castle[2*colour+side], k_ep[file])
     features s           FPiece for every set bit of every slot (colour, kind incl. the empty PNone slot),
                          FTurn (st_turn s), FCastle for each right held, FEp (file_of t) when
                          ep_capturable s = Some t
     ep_rank_ok s         an en-passant target, when present, is on rank index 5 (White to move) / 2 (Black
                          to move); true in every legal position, not implied by WfState.  Needed because
                          the hash keys the target by its FILE only (see C08_example_ep_rank_needed)
     valid_feature f      f is in range of the tables: FPiece sq _ _ with sq < 64, FEp fl with fl < 8
     feature_diff s1 s2   the features that occur in exactly one of features s1, features s2
     XorIndependent n h   no non-empty duplicate-free list of at most n in-range features has keys
                          (under h) that xor to 0.  This is the named residue "64-bit chance"; it is a
                          hypothesis on the seed.  It carries a length bound because without one it is
                          unsatisfiable for 64-bit keys (910 in-range features, GF(2)^64 has dimension 64),
                          and without the in-range restriction it is false for every hasher
                          (HashProofs.unrestricted_independence_unsatisfiable). *)
From Coq Require Import NArith ZArith List Bool.
From WV Require Import Text Wf HashProofs.
Import ListNotations.
Open Scope N_scope.

(* ---- equal rule keys hash equal ---- *)

Theorem C08_same_key_same_hash : forall h s1 s2, rulekey s1 = rulekey s2 -> hash h s1 = hash h s2.
Proof. exact same_key_same_hash. Qed.
Print Assumptions C08_same_key_same_hash.

Theorem C08_counters_and_path_irrelevant : forall h b t wk wq bk bq ep h1 f1 h2 f2,
  hash h (mkState b t wk wq bk bq ep h1 f1) = hash h (mkState b t wk wq bk bq ep h2 f2).
Proof. exact counters_and_path_irrelevant. Qed.
Print Assumptions C08_counters_and_path_irrelevant.

Theorem C08_uncapturable_ep_irrelevant : forall h s ep',
  ep_capturable s = None ->
  ep_capturable (mkState (st_board s) (st_turn s) (st_wk s) (st_wq s) (st_bk s) (st_bq s) ep' (st_half s) (st_full s)) = None ->
  hash h (mkState (st_board s) (st_turn s) (st_wk s) (st_wq s) (st_bk s) (st_bq s) ep' (st_half s) (st_full s)) = hash h s.
Proof. exact uncapturable_ep_irrelevant. Qed.
Print Assumptions C08_uncapturable_ep_irrelevant.

(* ---- feature form: the hash is the xor of the keys of a duplicate-free feature list that is, as a
        set, equivalent to the rule key ---- *)

Theorem C08_feature_form : forall h s, hash h s = fold_right N.lxor 0 (map (key_of h) (features s)).
Proof. exact feature_form. Qed.
Print Assumptions C08_feature_form.

(* holds for every state (WfState is not needed) *)
Theorem C08_features_nodup : forall s, NoDup (features s).
Proof. exact features_NoDup. Qed.
Print Assumptions C08_features_nodup.

(* collisions are never structural: the feature sets differ exactly when the rule keys differ
   (WfState is not needed; ep_rank_ok is) *)
Theorem C08_features_iff_rulekey : forall s1 s2, ep_rank_ok s1 = true -> ep_rank_ok s2 = true ->
  ((forall f, In f (features s1) <-> In f (features s2)) <-> rulekey s1 = rulekey s2).
Proof. exact features_iff_rulekey_gen. Qed.
Print Assumptions C08_features_iff_rulekey.

(* the features of a well-formed state are table entries, not out-of-range defaults *)
Theorem C08_features_in_range : forall s, WfState s -> Forall valid_feature (features s).
Proof. exact features_valid. Qed.
Print Assumptions C08_features_in_range.

(* ---- separation up to 64-bit chance, made exact ---- *)

Theorem C08_separates : forall n h s1 s2, XorIndependent n h -> WfState s1 -> WfState s2 ->
  ep_rank_ok s1 = true -> ep_rank_ok s2 = true ->
  (length (feature_diff s1 s2) <= n)%nat ->
  rulekey s1 <> rulekey s2 -> hash h s1 <> hash h s2.
Proof. exact separates. Qed.
Print Assumptions C08_separates.

Theorem C08_separates_total : forall h s1 s2,
  XorIndependent (length (features s1) + length (features s2)) h -> WfState s1 -> WfState s2 ->
  ep_rank_ok s1 = true -> ep_rank_ok s2 = true ->
  rulekey s1 <> rulekey s2 -> hash h s1 <> hash h s2.
Proof. exact separates_total. Qed.
Print Assumptions C08_separates_total.

(* the hypothesis-free form: a collision between different rule keys IS an xor relation among the keys of
   the features on which the two states differ *)
Theorem C08_collision_is_xor_relation : forall h s1 s2, WfState s1 -> WfState s2 ->
  ep_rank_ok s1 = true -> ep_rank_ok s2 = true ->
  rulekey s1 <> rulekey s2 -> hash h s1 = hash h s2 ->
  exists l, NoDup l /\ l <> [] /\ Forall valid_feature l /\
            (forall f, In f l <-> (In f (features s1) /\ ~ In f (features s2)) \/ (In f (features s2) /\ ~ In f (features s1))) /\
            (length l <= length (features s1) + length (features s2))%nat /\
            fold_right N.lxor 0 (map (key_of h) l) = 0.
Proof. exact collision_is_xor_relation. Qed.
Print Assumptions C08_collision_is_xor_relation.

(* ---- "consequently": the moves offered depend on the rule key only (the successor states carry the
        counters, hence map fst).  WfState is needed: counterexample in the comment before
        HashProofs.same_key_same_moves. ---- *)

Theorem C08_same_key_same_moves : forall s1 s2, WfState s1 -> WfState s2 ->
  rulekey s1 = rulekey s2 -> map fst (MoveGen.gen_legal s1) = map fst (MoveGen.gen_legal s2).
Proof. exact same_key_same_moves. Qed.
Print Assumptions C08_same_key_same_moves.

(* ---- non-vacuity ---- *)

(* hx: a concrete hasher drawn from the stream n * 0x9E3779B97F4A7C15 mod 2^64, n = 1..1038.
   bx: the position after 1. e4.
   s1, s2: bx with target e3 (20, not attacked by a black pawn) at move 1, and bx without target at move 33
   with half-move clock 7: different states, equal rule key, equal hash.
   s8, s9: kings e1/e8, white pawn e4, black pawn a7, Black to move, with the (uncapturable) target e3 and
   without it, at different counters: the same seven moves. *)
Example C08_example_equal :
  let hx := hasher_of_stream (map (fun n => (N.of_nat n * 11400714819323198485) mod two64) (seq 1 hasher_stream_len)) in
  let bx := mkBoard 268496640 66 36 129 8 16
              (N.shiftl 255 48) (N.shiftl 66 56) (N.shiftl 36 56) (N.shiftl 129 56) (N.shiftl 8 56) (N.shiftl 16 56) in
  let s1 := mkState bx Black true true true true (Some 20) 0 1 in
  let s2 := mkState bx Black true true true true None 7 33 in
  let b := mkBoard (N.shiftl 1 28) 0 0 0 0 16 (N.shiftl 1 48) 0 0 0 0 (N.shiftl 16 56) in
  let s8 := mkState b Black false false false false (Some 20) 0 1 in
  let s9 := mkState b Black false false false false None 12 40 in
  (WfState s1 /\ WfState s2 /\ ep_rank_ok s1 = true /\ ep_rank_ok s2 = true /\
   s1 <> s2 /\ ep_capturable s1 = None /\ rulekey s1 = rulekey s2 /\
   length (features s1) = 37%nat /\
   hash hx s1 = 10197941443917808342 /\ hash hx s2 = 10197941443917808342) /\
  (WfState s8 /\ WfState s9 /\ rulekey s8 = rulekey s9 /\
   map fst (MoveGen.gen_legal s8) = map fst (MoveGen.gen_legal s9) /\
   length (MoveGen.gen_legal s8) = 7%nat).
Proof. vm_compute. repeat split; try reflexivity. discriminate. Qed.

(* s1, s3: dropping one castling right changes the feature list by exactly that feature, and the hash by
   its key.
   s4, s5 (why ep_rank_ok is a hypothesis): White to move, white pawns d2 and d4; the targets e3 (20) and
   e5 (36) are both "capturable" and lie on the same file, so the two well-formed (but illegal) states
   have different rule keys, the same features and the same hash. *)
Example C08_example_differ :
  let hx := hasher_of_stream (map (fun n => (N.of_nat n * 11400714819323198485) mod two64) (seq 1 hasher_stream_len)) in
  let bx := mkBoard 268496640 66 36 129 8 16
              (N.shiftl 255 48) (N.shiftl 66 56) (N.shiftl 36 56) (N.shiftl 129 56) (N.shiftl 8 56) (N.shiftl 16 56) in
  let s1 := mkState bx Black true true true true (Some 20) 0 1 in
  let s3 := mkState bx Black false true true true (Some 20) 0 1 in
  let b := mkBoard (N.shiftl 1 11 + N.shiftl 1 27) 0 0 0 0 16 0 0 0 0 0 (N.shiftl 16 56) in
  let s4 := mkState b White false false false false (Some 20) 0 1 in
  let s5 := mkState b White false false false false (Some 36) 0 1 in
  (WfState s3 /\ ep_rank_ok s3 = true /\ rulekey s1 <> rulekey s3 /\
   feature_diff s1 s3 = [FCastle White true] /\
   hash hx s3 = 3822164788897336041 /\
   N.lxor (hash hx s1) (hash hx s3) = key_of hx (FCastle White true)) /\
  (WfState s4 /\ WfState s5 /\ ep_rank_ok s4 = false /\ ep_rank_ok s5 = false /\
   rulekey s4 <> rulekey s5 /\ features s4 = features s5 /\ hash hx s4 = hash hx s5).
Proof. vm_compute. repeat split; try reflexivity; discriminate. Qed.
