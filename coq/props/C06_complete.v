(* Property C06, second half (completeness of mate finding):
   "From a fresh search memory, if the side to move can force mate within n plies, a search limited to depth
    d >= n reports a winning terminal evaluation."

   Model: model/Search.v (analyze = analyze_recursive for one worker, iterate / analyze_iterative; the depth limit d
   is the number of iterations, iteration i searches to max_depth i), model/Eval.v (POS_INF = 10000, NEG_INF = -10000,
   mate_in_ply).  Oracle: spec/GameValue.v (win n p / loss n p; see props/C06.v for Win / Loss).
   Definitions used in the statements (proofs/MateComplete.v, proofs/MateSound.v, proofs/MateRegion.v):
     remd md cd          N.to_nat (md - cd): the remaining depth of a call
     HistFree P hs history n
                         no position of P whose hash is a recorded hash (in_history) is won within n plies or lost
                         within n plies.  A node below the root whose hash is recorded is scored 0 WITHOUT being
                         searched, so a mate that runs through a recorded position is not found; the premise cannot be
                         dropped (C06_history_premise_needed: a forced mate in 3 plies that the depth-3 run does not
                         report because the two positions after two plies are recorded).  For the run from the empty
                         history only the root hash is recorded, and the premise is PROVED for the exact mate distance
                         (a shortest mate never returns to the root): C06_complete has no such premise.
     TC hs P Hn tt       the table invariant of completeness: tt_ok tt, no UpperBound entry, and for every entry e
                         found under the hash of a position s of P, with r = e_maxdepth e - e_depth e:
                           s won within min(r, Hn + 1) plies -> e is Exact -> POS_INF <= e_eval e
                           s lost within min(r, Hn) plies    -> e_eval e <= NEG_INF
                         (LowerBound entries of won positions may hold any value: they only raise alpha or fail high).
     RS Hs X tt          every entry under a hash h with Hs h has remaining depth < X
     TOk P hs tt         the table invariant of soundness (props/C06.v)
     Found r             r_outcome r = 0 /\ exists ev line, In (EvBest ev line) (r_events r) /\ POS_INF <= ev
   RESIDUES (explicit premises): HashRuleOn P hs (no hash collision inside the region P; C08), Region P, and for
   the iterative theorems HeurNTOn P (the material caveat of C05, used through the soundness half to show that every
   iteration leaves a root entry, i.e. a non-empty line; it is discharged on SmallMen / Reach of a small root).

   What a call guarantees (C06_complete_call), window (a, b), remaining depth R:
     position won within n <= R plies   ==> value >= POS_INF, or value >= b (fail high);
     position lost within k <= R plies  ==> value <= NEG_INF, or value <= a (fail low).
   Mate scores of different plies are mixed by the search (table entries keep the ply they were computed at), but
   only the region they lie in matters. *)
From Coq Require Import NArith ZArith List Bool.
From WV Require Import Types Bits Board MoveGen Text Table Eval Search Rules Abs Wf GameValue.
From WV Require Import HashProofs SearchProofs SearchSafety MateValue MateSound MateRegion MateComplete MateCompleteEx.
Import ListNotations.
Import WV.Bits.
Open Scope Z_scope.

(* no position is both won and lost; every forced mate has an exact distance *)
Theorem C06_won_not_lost : forall s, Won s -> Lost s -> False.
Proof. exact won_not_lost. Qed.
Print Assumptions C06_won_not_lost.

Theorem C06_mate_distance : forall n p, win n p = true ->
  exists n0, (n0 <= n)%nat /\ win n0 p = true /\ win (n0 - 1) p = false.
Proof. exact min_win. Qed.
Print Assumptions C06_mate_distance.

(* ---- one call of analyze_recursive ---- *)

Theorem C06_complete_call : forall hs P, HashRuleOn P hs -> Region P ->
  forall history Hn, HistFree P hs history Hn ->
  forall jit cancel fuel s md cd ce a b prio w,
  P s -> a < b -> TC hs P Hn (w_tt w) -> (forall pm, prio = Some pm -> In pm (MoveGen.legal_moves s)) ->
  match analyze hs history jit cancel fuel s md cd ce a b prio w with
  | SVal v w' =>
      TC hs P Hn (w_tt w') /\
      (forall n, win n (abs s) = true -> (n <= remd md cd)%nat -> (n <= S Hn)%nat ->
         cd = 0%N \/ in_history history (hash hs s) = false -> POS_INF <= v \/ b <= v) /\
      (forall k, loss k (abs s) = true -> (k <= remd md cd)%nat -> (k <= Hn)%nat -> v <= NEG_INF \/ v <= a)
  | SInterrupt w' => TC hs P Hn (w_tt w')
  | _ => True
  end.
Proof. exact complete_call. Qed.
Print Assumptions C06_complete_call.

Theorem C06_complete_empty_table : forall hs P Hn nt nb, (0 < nt)%nat -> (0 < nb)%nat -> TC hs P Hn (empty_access nt nb).
Proof. exact TC_empty. Qed.
Print Assumptions C06_complete_empty_table.

(* ---- the whole iterative run, from a fresh memory and the empty history ---- *)

Theorem C06_complete : forall hs P, HashRuleOn P hs -> Region P -> HeurNTOn P ->
  forall jit_of d s n nt nb, P s -> (0 < nt)%nat -> (0 < nb)%nat ->
  win n (abs s) = true -> (n <= d)%nat ->
  let r := analyze_iterative hs jit_of None d s [] (empty_access nt nb) in
  r_outcome r = 0%N /\ exists ev line, In (EvBest ev line) (r_events r) /\ POS_INF <= ev.
Proof. exact complete_iterative. Qed.
Print Assumptions C06_complete.

(* any recorded history that keeps clear of the mate, fresh memory *)
Theorem C06_complete_history : forall hs P, HashRuleOn P hs -> Region P -> HeurNTOn P ->
  forall jit_of d s n history nt nb, P s -> (0 < nt)%nat -> (0 < nb)%nat ->
  win n (abs s) = true -> (n <= d)%nat ->
  HistFree P hs (root_history hs s history) (n - 1) ->
  let r := analyze_iterative hs jit_of None d s history (empty_access nt nb) in
  r_outcome r = 0%N /\ exists ev line, In (EvBest ev line) (r_events r) /\ POS_INF <= ev.
Proof. exact complete_iterative_hist. Qed.
Print Assumptions C06_complete_history.

(* any table satisfying the invariants (in particular: no usable entry under a recorded hash) *)
Theorem C06_complete_table : forall hs P, HashRuleOn P hs -> Region P -> HeurNTOn P ->
  forall jit_of d s n history tt, P s -> win n (abs s) = true -> (n <= d)%nat ->
  HistFree P hs (root_history hs s history) (n - 1) ->
  TOk P hs tt -> TC hs P (n - 1) tt -> RS (HsOf (root_history hs s history)) 1 tt -> TEntriesOk tt ->
  let r := analyze_iterative hs jit_of None d s history tt in
  r_outcome r = 0%N /\ exists ev line, In (EvBest ev line) (r_events r) /\ POS_INF <= ev.
Proof. exact complete_iterative_table. Qed.
Print Assumptions C06_complete_table.

(* ---- instances of the region: at most ten men, the only residue is the absence of collisions ---- *)

Theorem C06_complete_small_root : forall hs s, LegalPos s -> (men s <= 10)%nat -> HashRuleOn (Reach s) hs ->
  forall jit_of d n nt nb, (0 < nt)%nat -> (0 < nb)%nat -> win n (abs s) = true -> (n <= d)%nat ->
  let r := analyze_iterative hs jit_of None d s [] (empty_access nt nb) in
  r_outcome r = 0%N /\ exists ev line, In (EvBest ev line) (r_events r) /\ POS_INF <= ev.
Proof. exact complete_small_root. Qed.
Print Assumptions C06_complete_small_root.

Theorem C06_complete_small_men : forall hs, HashRuleOn SmallMen hs ->
  forall jit_of d s n nt nb, LegalPos s -> (men s <= 10)%nat -> (0 < nt)%nat -> (0 < nb)%nat ->
  win n (abs s) = true -> (n <= d)%nat ->
  let r := analyze_iterative hs jit_of None d s [] (empty_access nt nb) in
  r_outcome r = 0%N /\ exists ev line, In (EvBest ev line) (r_events r) /\ POS_INF <= ev.
Proof. exact complete_small_men. Qed.
Print Assumptions C06_complete_small_men.

(* ---- non-vacuity: kr2 = White Kf6 Ra1, Black Kh8, White to move ("7k/8/5K2/8/8/8/8/R7 w - - 0 1"): a legal
        position with three men, mate in exactly three plies; the depth-3 run from the empty table reports 10700 ---- *)
Example C06_complete_example :
  (legal_posb kr2 = true /\ men kr2 = 3%nat /\ win 3 (abs kr2) = true /\ win 2 (abs kr2) = false) /\
  (let r := analyze_iterative hx (fun _ _ => 0) None 3 kr2 [] (empty_access 2 4) in
   r_outcome r = 0%N /\
   r_events r = [EvProgress 1 22; EvBest 620 [268473046%N]; EvProgress 2 68; EvBest 588 [268473046%N; 56310%N];
                 EvProgress 3 472; EvBest 10700 [268490454%N]] /\
   (POS_INF <=? 10700) = true).
Proof. exact (conj kr2_facts kr2_found). Qed.

(* ---- the history premise cannot be dropped: same root, the hashes of the two positions after 1.Kf7 Kh7 and
        1.Kg6 Kg8 (each a mate in one) recorded in the history: the depth-3 run ends normally and reports no
        terminal evaluation, although win 3 (abs kr2) = true ---- *)
Example C06_history_premise_needed :
  let r := analyze_iterative hx (fun _ _ => 0) None 3 kr2 [hash hx kr2_p1; hash hx kr2_p2] (empty_access 2 4) in
  (legal_posb kr2_p1 = true /\ legal_posb kr2_p2 = true /\ win 1 (abs kr2_p1) = true /\ win 1 (abs kr2_p2) = true) /\
  r_outcome r = 0%N /\
  r_events r = [EvProgress 1 22; EvBest 620 [268473046%N]; EvProgress 2 68; EvBest 588 [268473046%N; 56310%N];
                EvProgress 3 414; EvBest 600 [268484612%N; 64502%N; 268473046%N]] /\
  (POS_INF <=? 620) = false /\ (POS_INF <=? 588) = false /\ (POS_INF <=? 600) = false.
Proof. exact kr2_history_blocks. Qed.
