(* Property C03: the moves the search reports are legal.
   "Every principal line reported by the search is a sequence of legal moves from the searched position."

   Model: model/Search.v.  The line is rebuilt by iter_moves, which walks the transposition table from the
   root and applies the stored moves WITHOUT a legality check; its legality therefore rests on an invariant
   of the table.  Definitions used in the statements (proofs/SearchProofs.v, proofs/TableProofs.v):
     tt_ok tt          = exists nt nb > 0 with TableProofs.acc_ok nt nb tt: nt sub-tables of nb buckets of
                         bucket_size slots, occupied slots form a prefix, keys distinct and routed to their
                         bucket (holds of empty_access nt nb, preserved by acc_insert)
     TInv hs tt        = every entry found under the hash of a legal position stores a legal move of it
     HashFaithful hs   = THE NAMED RESIDUE: legal positions with equal hash offer the same legal moves
                         (no harmful collision).  By C08 it follows from injectivity of the hash on rule
                         keys (C03_hash_faithful_of_injective); it is false for an arbitrary hasher, and
                         without it the Rust code can report - and then play - a move of a different
                         position stored under a colliding key.
     legal_line s l    = the moves of l are, in turn, generated legal moves, played through apply_move *)
From Coq Require Import NArith ZArith List Bool.
From WV Require Import Types Bits Attacks Board MoveEnc MoveGen Text Table Eval Search Wf.
From WV Require Import HashProofs SearchBase SearchProofs.
Import ListNotations.
Import WV.Bits.
Open Scope N_scope.

(* find after insert: the inserted entry (same key) or an entry that was there before *)
Theorem C03_acc_find_insert_cases : forall a k e k2 x, tt_ok a ->
  acc_find (acc_insert a k e) k2 = Some x -> (k2 = k /\ x = e) \/ (k2 <> k /\ acc_find a k2 = Some x).
Proof. exact acc_find_insert_cases. Qed.
Print Assumptions C03_acc_find_insert_cases.

Theorem C03_tt_ok_insert : forall a k e, tt_ok a -> tt_ok (acc_insert a k e).
Proof. exact tt_ok_insert. Qed.
Print Assumptions C03_tt_ok_insert.

(* THE INVARIANT PRINCIPLE.  A predicate on the table that survives every insertion of
   (hash of a legal position, entry whose move is a generated legal move of it, depth below max depth)
   survives analyze_recursive, whether it returns a value or is interrupted. *)
Theorem C03_invariant_principle : forall hs (I : access -> Prop),
  (forall tt s m k c md e, I tt -> LegalPos s -> In m (MoveGen.legal_moves s) -> (c < md)%N ->
     I (acc_insert tt (hash hs s) (mkEntry k m c md e))) ->
  forall history jit cancel fuel s maxd cur ext a b prio w,
  I (w_tt w) -> LegalPos s -> (forall pm, prio = Some pm -> In pm (MoveGen.legal_moves s)) ->
  match analyze hs history jit cancel fuel s maxd cur ext a b prio w with
  | SVal _ w' => I (w_tt w')
  | SInterrupt w' => I (w_tt w')
  | _ => True
  end.
Proof. exact analyze_invariant. Qed.
Print Assumptions C03_invariant_principle.

(* the insert step for TInv *)
Theorem C03_table_insert : forall hs, HashFaithful hs ->
  forall tt s m k c md e, tt_ok tt /\ TInv hs tt -> LegalPos s -> In m (MoveGen.legal_moves s) -> (c < md)%N ->
  tt_ok (acc_insert tt (hash hs s) (mkEntry k m c md e)) /\
  TInv hs (acc_insert tt (hash hs s) (mkEntry k m c md e)).
Proof. exact TGood_insert. Qed.
Print Assumptions C03_table_insert.

Theorem C03_empty_table : forall hs nt nb, (0 < nt)%nat -> (0 < nb)%nat ->
  tt_ok (empty_access nt nb) /\ TInv hs (empty_access nt nb).
Proof. exact TGood_empty. Qed.
Print Assumptions C03_empty_table.

(* the table invariant is preserved by one call of analyze_recursive *)
Theorem C03_table_inv : forall hs history jit cancel fuel s maxd cur ext a b prio w,
  HashFaithful hs -> tt_ok (w_tt w) -> TInv hs (w_tt w) -> LegalPos s ->
  (forall pm, prio = Some pm -> In pm (MoveGen.legal_moves s)) ->
  match analyze hs history jit cancel fuel s maxd cur ext a b prio w with
  | SVal _ w' => tt_ok (w_tt w') /\ TInv hs (w_tt w')
  | SInterrupt w' => tt_ok (w_tt w') /\ TInv hs (w_tt w')
  | _ => True
  end.
Proof. exact table_inv. Qed.
Print Assumptions C03_table_inv.

(* a line read off a table satisfying the invariant is a legal line (no hypothesis on the hasher) *)
Theorem C03_lines_legal : forall hs fuel tt s idx maxd,
  TInv hs tt -> LegalPos s -> legal_line s (iter_moves hs fuel tt s idx maxd).
Proof. exact lines_legal. Qed.
Print Assumptions C03_lines_legal.

(* every reported line is non-empty and legal, and the table handed back satisfies the invariant again,
   so the statement composes over any chain of searches that reuse the table *)
Theorem C03_events_legal : forall hs jit_of cancel iters s history tt,
  HashFaithful hs -> LegalPos s -> tt_ok tt -> TInv hs tt ->
  let r := analyze_iterative hs jit_of cancel iters s history tt in
  (forall ev line, In (EvBest ev line) (r_events r) -> line <> [] /\ legal_line s line) /\
  tt_ok (r_tt r) /\ TInv hs (r_tt r).
Proof. exact events_legal. Qed.
Print Assumptions C03_events_legal.

Theorem C03_hash_faithful_of_injective : forall hs,
  (forall s1 s2, LegalPos s1 -> LegalPos s2 -> hash hs s1 = hash hs s2 -> rulekey s1 = rulekey s2) ->
  HashFaithful hs.
Proof. exact hash_injective_faithful. Qed.
Print Assumptions C03_hash_faithful_of_injective.

(* non-vacuity.  Kings e1/e8, White to move, two iterations from an empty table (2 sub-tables of 4
   buckets): two lines are reported, Ke1-e2 and Ke1-e2 Ke8-e7; both are played through apply_move and each
   move is in the generated legal list of the position it is played in. *)
Example C03_example :
  let hx := hasher_of_stream (map N.of_nat (seq 1 1038)) in
  let kk := mkState (mkBoard 0 0 0 0 0 16 0 0 0 0 0 (N.shiftl 16 56)) White false false false false None 0 1 in
  let r := analyze_iterative hx (fun _ _ => 0%Z) None 2 kk [] (empty_access 2 4) in
  legal_posb kk = true /\
  r_events r = [EvProgress 1 6; EvBest 23 [268448838]; EvProgress 2 22; EvBest 0 [268448838; 55238]] /\
  r_outcome r = 0 /\
  existsb (N.eqb 268448838) (MoveGen.legal_moves kk) = true /\
  match apply_move kk 268448838 with
  | Some n => legal_posb n && existsb (N.eqb 55238) (MoveGen.legal_moves n) &&
              match apply_move n 55238 with Some n2 => legal_posb n2 | None => false end
  | None => false
  end = true.
Proof. vm_compute. repeat split. Qed.

(* the residue cannot be dropped.  hx draws its keys from 1..1038, so different positions collide (the
   rule keys are NOT separated).  Five iterations from the same position and an empty table: the fifth
   reported line repeats the move Ke1-d2 as its fifth move, in a position where the king is no longer on e1;
   the run itself finishes normally (outcome 0).  legal_lineb is the boolean test of legal_line. *)
Theorem C03_legal_lineb_complete : forall l s, legal_line s l -> legal_lineb s l = true.
Proof. exact legal_lineb_complete. Qed.
Print Assumptions C03_legal_lineb_complete.

Example C03_collision_counterexample :
  let hx := hasher_of_stream (map N.of_nat (seq 1 1038)) in
  let kk := mkState (mkBoard 0 0 0 0 0 16 0 0 0 0 0 (N.shiftl 16 56)) White false false false false None 0 1 in
  let r := analyze_iterative hx (fun _ _ => 0%Z) None 5 kk [] (empty_access 2 4) in
  r_outcome r = 0 /\
  last (r_events r) (EvProgress 0 0) = EvBest 0 [268446790; 55238; 268456118; 45910; 268446790] /\
  ~ legal_line kk [268446790; 55238; 268456118; 45910; 268446790].
Proof.
  split; [vm_compute; reflexivity|]. split; [vm_compute; reflexivity|].
  apply legal_lineb_false. vm_compute. reflexivity.
Qed.
