(* The parameter invariants of every call of analyze_recursive that a search from the root can make, which the
   call-level correspondence stream (harness / model command `node`) respects when it feeds parameters directly:
     extensions used <= extension cap (16), extensions used <= current depth <= maximal depth.
   The root call (0 of 0 at depth 0, maximal depth >= 0) satisfies them, and the parameters handed to a child -
   maximal depth + e, current depth + 1 + e, extensions + e, where e = 1 exactly when the node is in check and the
   cap has not been reached, and a child is only searched when current depth < maximal depth - satisfy them again. *)
From Coq Require Import NArith ZArith List Bool Lia.
From WV Require Import Types Bits Attacks Board MoveEnc MoveGen Text Table Eval Search.
From WV Require Import SearchBase.
Open Scope N_scope.

Definition ParamInv (md cd ce : N) : Prop := ce <= extension_cap /\ ce <= cd /\ cd <= md.

Theorem C04_params_root : forall md, ParamInv md 0 0.
Proof. intros md. unfold ParamInv. repeat split; lia. Qed.
Print Assumptions C04_params_root.

Theorem C04_params_child : forall s md cd ce, ParamInv md cd ce -> cd < md ->
  ParamInv (md + node_ext s ce) (cd + 1 + node_ext s ce) (ce + node_ext s ce).
Proof.
  intros s md cd ce (H1 & H2 & H3) Hlt. unfold ParamInv, node_ext.
  destruct (ce <? extension_cap) eqn:E.
  - apply N.ltb_lt in E. destruct (is_check s); repeat split; lia.
  - repeat split; lia.
Qed.
Print Assumptions C04_params_child.

(* the child parameters of the model's move loop are exactly these (loop_body passes max_depth + ext etc.) *)
Theorem C04_params_child_remaining : forall s md cd ce, cd < md ->
  (md + node_ext s ce) - (cd + 1 + node_ext s ce) = md - cd - 1.
Proof. intros s md cd ce H. lia. Qed.
Print Assumptions C04_params_child_remaining.
