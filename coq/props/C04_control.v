(* Property C04, the clauses "a Stop request sent at any moment (before the first node, in any iteration, after
   completion, repeatedly) makes the search thread return its artifact ...; dropping the event receiver does not
   disturb it", and property C07's "exactly one bestmove per go ... when the depth limit is reached, the time is up,
   or the next stop/go/position/quit arrives", at the level of the THREADS AND CHANNELS around one search.

   Model: model/Control.v, a finite transition system for the search thread, the control thread, the timer, the
   writer (which prints `bestmove` when the status channel closes) and the collecting caller, with the control
   channel, the cancellation flag and the status channel as Searcher::analyze / Search::spawn / wait_cancel use
   them.  Every interleaving of the threads is a run.  The search itself is abstract: it ends by itself when it is
   depth-limited and it ends once the flag is set (the contract proved in C04_stop_bound*: within POLL_PERIOD node
   entries, no further iteration).  Both channels are unbounded, so no send ever blocks; a send to a dropped
   receiver is an ignored error and has no effect on any other thread, which is why "the caller dropped the event
   receiver" is not even a state component.
   The reachable states are enumerated by saturation inside Coq; the enumeration is proved closed under all
   transitions (reach_complete), so the statements hold of EVERY reachable state of EVERY run, of any length
   (limited / unlimited search, the caller sending up to three further Stops at arbitrary moments - the bound
   is in the statements).
   Tie to the code: the shape the model was written against (two unbounded channels, who spawns, sends, receives,
   joins) is re-read from searcher.rs / uci.rs on every run (inventory control_shape) and compared; the
   process-level streams send Stop at seeded instants, twice, with the receiver dropped, after completion. *)
From Coq Require Import List Bool Arith.
From WV Require Import Control ControlProofs.
Import ListNotations.

(* every transition decreases a rank: no run is longer than the rank of its first state (at most 13 steps) *)
Theorem C04_control_runs_finite : forall limited extra, extra <= 3 ->
  forall st tl, Reachable limited extra st -> Run limited st tl -> length tl <= rank st.
Proof. exact runs_are_short. Qed.
Print Assumptions C04_control_runs_finite.

(* when the engine's own threads have nothing left to do - whatever the caller did or did not do - the search
   thread, the control thread, the timer and the writer have ended and EXACTLY ONE bestmove has been printed *)
Theorem C04_control_quiescent_is_settled : forall limited extra, extra <= 3 ->
  forall st, Reachable limited extra st -> step_sys limited st = [] -> settled st = true.
Proof. exact quiet_is_settled. Qed.
Print Assumptions C04_control_quiescent_is_settled.

(* a run that cannot be continued at all has, in addition, handed the artifact to the caller *)
Theorem C04_control_final_is_collected : forall limited extra, extra <= 3 ->
  forall st, Reachable limited extra st -> step_all limited st = [] -> settled st = true /\ c_u st = UDone.
Proof. exact final_is_collected. Qed.
Print Assumptions C04_control_final_is_collected.

(* a collection in progress (wait_cancel: Stop sent, joining) is never stuck, at whatever moment it started:
   before the first node, in any iteration, after completion, after further Stops *)
Theorem C04_control_collection_progresses : forall limited extra, extra <= 3 ->
  forall st, Reachable limited extra st -> collecting st = true -> step_all limited st <> [].
Proof. exact collection_progresses. Qed.
Print Assumptions C04_control_collection_progresses.

(* never two bestmove lines for one go, and none before the search thread has ended *)
Theorem C04_control_bestmove_once : forall limited extra, extra <= 3 ->
  forall st, Reachable limited extra st -> c_best st <= 1 /\ (c_best st = 1 -> c_s st = SDone).
Proof. exact bestmove_at_most_once. Qed.
Print Assumptions C04_control_bestmove_once.

(* non-vacuity: 182 / 107 reachable states (limited / unlimited, two further Stops), among them the state
   reached by "Stop before the first node" and the state where everything has ended without the caller *)
Example C04_control_example :
  length (reach true 2) = 182 /\ length (reach false 2) = 107 /\
  mem (mkC SRun false CRecv true false false 0 USent 2) (reach false 2) = true /\
  mem (mkC SDone true CDone false true true 1 UIdle 2) (reach false 2) = true /\
  mem (mkC SDone false CDone false true true 1 UIdle 0) (reach true 0) = false.
Proof. vm_compute. repeat split. Qed.
