(* Property C06, the clause "the reported first move keeps it", for several workers (model/Conc.v).

   What holds under EVERY schedule (proofs/ConcFirstMove.v): the strengthened table invariant TOk2 of
   props/C06_first_move.v - an entry that is not an UpperBound and carries an evaluation >= POS_INF stores a
   generated legal move whose successor is Lost - is a rely/guarantee invariant of the shared table
   (C06_conc_first_move_workers, C06_conc_first_move_table), and every reported line starts with the move of an
   entry that was correct for the root (C06_conc_first_move_heads).  Hence: IF the root entry that the line is read
   from carries a winning terminal evaluation, the reported first move keeps the mate.
   What does NOT hold, and why (the candidate F7 of DESIGN.md section 9, now exhibited in the model): the reported
   evaluation is the MAX over the workers, the line is read from the shared table after the join, and the root entry
   may be the last write of a worker that searched one ply less and saw no mate.  C06_conc_first_move_witness is
   such a run: K+R v K, two workers, a 1x1 table, a schedule in which worker 1 writes the root entry last: the run
   reports 10700 (worker 0: mate in 3 plies) with the first move of worker 1's entry, whose evaluation is 600.
   That move does not keep the REPORTED mate in 3 (loss 2 of its successor is false; evaluated outside this file,
   two minutes in `lazy`), although in K+R v K it still keeps some longer forced mate, so it is not yet a violation
   of the property as worded.  On the real code this is looked for under forced schedules of exactly this shape and
   under real threads by the solver (stream of C06); none has been found. *)
From Coq Require Import NArith ZArith List Bool.
From WV Require Import Types Bits Attacks Board MoveEnc MoveGen Text Table Eval Search Conc Wf.
From WV Require Import Rules Abs GameValue.
From WV Require Import SearchBase SearchProofs MateValue MateSound MateRegion MateFirstMove.
From WV Require Import ConcSeq ConcRG ConcSound ConcFirstMove.
Import ListNotations.
Open Scope Z_scope.

Theorem C06_conc_first_move_workers : forall hs P, HashRuleOn P hs -> Region P -> HeurNTOn P ->
  forall jit_of depth s history bm workers sched tt,
  P s -> TOk2 P hs tt -> (forall m, bm = Some m -> In m (MoveGen.legal_moves s)) ->
  let '(rs, tt', _) := run_workers sched (map (worker_prog hs jit_of depth s history bm) (seq 0 workers)) tt in
  TOk2 P hs tt' /\ Forall (Q_snd s (- mate_in_ply 0) (mate_in_ply 0)) rs /\
  (forall fuel mv tl e, iter_moves hs fuel tt' s 0 depth = mv :: tl ->
     acc_find tt' (hash hs s) = Some e -> POS_INF <= e_eval e -> e_kind e <> UpperBound -> Keeps s mv).
Proof. exact first_moveM_workers. Qed.
Print Assumptions C06_conc_first_move_workers.

Theorem C06_conc_first_move_table : forall hs P, HashRuleOn P hs -> Region P -> HeurNTOn P ->
  forall jit_of workers iters s history tt sched, P s -> TOk2 P hs tt ->
  let r := analyze_iterativeM hs jit_of workers iters s history tt sched in
  (forall ev line, In (EvBest ev line) (m_events r) -> POS_INF <= ev -> Won s) /\ TOk2 P hs (m_tt r).
Proof. exact first_moveM_table. Qed.
Print Assumptions C06_conc_first_move_table.

Theorem C06_conc_first_move_heads : forall hs P, HashRuleOn P hs -> Region P -> HeurNTOn P ->
  forall jit_of workers iters s history tt sched, P s -> TOk2 P hs tt ->
  let r := analyze_iterativeM hs jit_of workers iters s history tt sched in
  forall ev mv tl, In (EvBest ev (mv :: tl)) (m_events r) ->
    exists e, e_move e = mv /\ In mv (MoveGen.legal_moves s) /\
              (POS_INF <= e_eval e -> e_kind e <> UpperBound -> Keeps s mv).
Proof. exact first_moveM_heads. Qed.
Print Assumptions C06_conc_first_move_heads.

(* the witness: reported evaluation of worker 0, line of worker 1 *)
Theorem C06_conc_first_move_witness :
  let run := analyze_iterativeM fm_hx (fun _ _ _ => 0) 2 3 fm_kr2 [] (empty_access 1 1) in
  let r := run (repeat 0%N 169 ++ repeat 1%N 46) in
  let r0 := run [] in
  (bests (m_events r), acc_find (m_tt r) (hash fm_hx fm_kr2), m_outcome r, m_sched r) =
    ([EvBest 620 [268473046%N]; EvBest 588 [268473046%N; 56310%N]; EvBest 10700 [268484612%N]],
     Some (mkEntry Exact 268484612%N 0%N 2%N 600), 0%N, []) /\
  (bests (m_events r0), acc_find (m_tt r0) (hash fm_hx fm_kr2), m_outcome r0) =
    ([EvBest 620 [268473046%N]; EvBest 588 [268473046%N; 56310%N]; EvBest 10700 [268490454%N]],
     Some (mkEntry Exact 268490454%N 0%N 3%N 10700), 0%N) /\
  (POS_INF <=? 10700) = true /\ (600 <? POS_INF) = true.
Proof. exact fm_kr2_line_of_other_worker. Qed.
Print Assumptions C06_conc_first_move_witness.
