(* C11: FEN text and positions round-trip (model/Text.v fen_write / fen_read; spec/FenSpec.v write). *)
From WV Require Import Text Wf FenSpec FenBase FenBoard FenProofs.
Open Scope N_scope.

(* every well-formed state, hence every position reached by play, written and read back is the same state *)
Theorem C11_read_write : forall s, WfState s -> fen_read (fen_write s) = Ok s.
Proof. exact read_write. Qed.
Print Assumptions C11_read_write.

Theorem C11_reader_wf : forall str s, fen_read str = Ok s -> WfState s.
Proof. exact reader_wf. Qed.
Print Assumptions C11_reader_wf.

(* the independent canonical writer on the rules-level position produces the same text *)
Theorem C11_spec_writer_agrees : forall s, WfState s -> FenSpec.write (abs s) = fen_write s.
Proof. exact spec_writer_agrees. Qed.
Print Assumptions C11_spec_writer_agrees.

Definition canonical_fen (str : text) : Prop := exists s0, WfState s0 /\ str = FenSpec.write (abs s0).

Theorem C11_write_read : forall str s, canonical_fen str -> fen_read str = Ok s -> fen_write s = str.
Proof. exact write_read. Qed.
Print Assumptions C11_write_read.

Theorem C11_same_position : forall s, WfState s -> exists s', fen_read (fen_write s) = Ok s' /\ s' = s.
Proof. exact same_position. Qed.
Print Assumptions C11_same_position.

(* hence same legal moves and hash (and evaluation): they are functions of the state *)
Theorem C11_same_position_observables : forall s, WfState s ->
  exists s', fen_read (fen_write s) = Ok s' /\
             (forall h, hash h s' = hash h s) /\ gen_legal s' = gen_legal s.
Proof. exact same_position_observables. Qed.
Print Assumptions C11_same_position_observables.

Theorem C11_idempotent : forall str s, fen_read str = Ok s -> fen_read (fen_write s) = Ok s.
Proof. exact idempotent. Qed.
Print Assumptions C11_idempotent.

(* Non-vacuity 1: the start position, "rnbqkbnr/pppppppp/8/8/8/8/PPPPPPPP/RNBQKBNR w KQkq - 0 1" *)
Example C11_ex_start :
  let s := mkState (mkBoard 65280 66 36 129 8 16 71776119061217280 4755801206503243776 2594073385365405696
                            9295429630892703744 576460752303423488 1152921504606846976)
                   White true true true true None 0 1 in
  let str := [114; 110; 98; 113; 107; 98; 110; 114; 47; 112; 112; 112; 112; 112; 112; 112; 112; 47; 56; 47; 56;
              47; 56; 47; 56; 47; 80; 80; 80; 80; 80; 80; 80; 80; 47; 82; 78; 66; 81; 75; 66; 78; 82; 32; 119; 32;
              75; 81; 107; 113; 32; 45; 32; 48; 32; 49] in
  WfState s /\ fen_write s = str /\ FenSpec.write (abs s) = str /\ fen_read str = Ok s.
Proof. vm_compute. repeat split. Qed.

(* Non-vacuity 2: en-passant square f3, rights "Kq", both counters 2^64-1:
   "rnbqkbnr/pppp1ppp/8/8/4pP2/8/PPPPP1PP/RNBQKBNR b Kq f3 18446744073709551615 18446744073709551615" *)
Example C11_ex_ep_max :
  let s := mkState (mkBoard 536928000 66 36 129 8 16 67272519702282240 4755801206503243776 2594073385365405696
                            9295429630892703744 576460752303423488 1152921504606846976)
                   Black true false false true (Some 21) 18446744073709551615 18446744073709551615 in
  let str := [114; 110; 98; 113; 107; 98; 110; 114; 47; 112; 112; 112; 112; 49; 112; 112; 112; 47; 56; 47; 56;
              47; 52; 112; 80; 50; 47; 56; 47; 80; 80; 80; 80; 80; 49; 80; 80; 47; 82; 78; 66; 81; 75; 66; 78; 82;
              32; 98; 32; 75; 113; 32; 102; 51; 32;
              49; 56; 52; 52; 54; 55; 52; 52; 48; 55; 51; 55; 48; 57; 53; 53; 49; 54; 49; 53; 32;
              49; 56; 52; 52; 54; 55; 52; 52; 48; 55; 51; 55; 48; 57; 53; 53; 49; 54; 49; 53] in
  WfState s /\ fen_write s = str /\ FenSpec.write (abs s) = str /\ fen_read str = Ok s /\ canonical_fen str.
Proof.
  intros s str.
  split; [vm_compute; reflexivity|]. split; [vm_compute; reflexivity|].
  split; [vm_compute; reflexivity|]. split; [vm_compute; reflexivity|].
  exists s. split; vm_compute; reflexivity.
Qed.
