(* Property C14 at the level of the UCI loop (model/Uci.v, which mirrors Client::exec arm by arm):
   "An arbitrary input line (unknown command, truncated or over-long move token, non-ASCII text, bad numbers,
    bad FEN) leaves the UCI process alive and still answering isready."
   Lines are arbitrary lists of code points.  The only parsers the loop calls are the FEN reader and the
   coordinate-move token parser; number tokens go through parse_i32 / parse_usize_tok, which return options.
   Whether the Rust handlers have further panic sites (index, slice, unwrap, arithmetic) is a source-shape fact:
   the translator's inventory of such sites in uci.rs / notation.rs is compared on every run with the list the
   model was written against, and the process-level stream feeds malformed lines to the real binary. *)
From WV Require Import Types Bits Attacks Board MoveEnc MoveGen Rules Abs Wf Encode Text Notation Uci.
From WV Require Import FenBase UciProofs UciTotal.
From Coq Require Import List NArith.
Import ListNotations.
Open Scope N_scope.

Theorem C14_uci_token_never_panics : forall tok k, uci_move_query tok <> Panic k.
Proof. exact uci_token_total. Qed.
Print Assumptions C14_uci_token_never_panics.

Theorem C14_position_parsers_never_panic : forall (fen_text : text) (moves : list text) k,
  fen_read fen_text <> Panic k /\ Forall (fun r => r <> Panic k) (map uci_move_query moves).
Proof. exact position_parsers_total. Qed.
Print Assumptions C14_position_parsers_never_panic.

Theorem C14_line_keeps_alive : forall start in_book s line,
  (snd (Uci.step start in_book s line) = false -> is_quit line) /\
  forall l2 args, tokens l2 = t_isready :: args ->
    Uci.step start in_book (fst (fst (Uci.step start in_book s line))) l2 =
    (fst (fst (Uci.step start in_book s line)), [OReadyOk], true).
Proof. exact line_keeps_alive. Qed.
Print Assumptions C14_line_keeps_alive.

Theorem C14_lines_keep_alive : forall start in_book lines s, (forall l, In l lines -> ~ is_quit l) ->
  snd (steps start in_book s lines) = true /\
  forall l2 args, tokens l2 = t_isready :: args ->
    Uci.step start in_book (fst (fst (steps start in_book s lines))) l2 =
    (fst (fst (steps start in_book s lines)), [OReadyOk], true).
Proof. exact lines_keep_alive. Qed.
Print Assumptions C14_lines_keep_alive.

(* non-vacuity: a truncated move token, a token cut inside a two-byte character (e2e4 followed by U+00E9), an
   over-long token and a token of four non-ASCII characters are all rejected with Err (not Panic); the line
   "position startpos moves e2" keeps the session going and isready is answered *)
Example C14_uci_examples :
  uci_move_query [101; 50] = Err /\ uci_move_query [101; 50; 101; 52; 233] = Err /\
  uci_move_query [101; 50; 101; 52; 113; 113; 113] = Ok (set_q_promotion (set_q_dfile (set_q_drank (set_q_ofile (set_q_orank q_empty 1) 4) 3) 4) Queen) /\
  uci_move_query [233; 233; 233; 233] = Err.
Proof. vm_compute. repeat split. Qed.
