(* Property C06, first half, the clause "... and the reported first move keeps it [the forced mate]".

   Model: model/Search.v, one worker (any cancellation).  The table invariant of props/C06.v is strengthened:
     KeepsOk e s = an entry that is not an UpperBound and carries an evaluation >= POS_INF stores a move that is a
                   generated legal move of s whose successor is Lost (the opponent is being mated)
     TOk2 P hs tt = TOk P hs tt with KeepsOk added to every entry found under the hash of a position of P
   Both inserts of analyze_recursive establish it (a cut-off at beta1 >= POS_INF, and the last move that raised alpha
   to a value >= POS_INF, have a child value <= NEG_INF inside the child's window, so the child is Lost); the empty
   table satisfies it.  The reported line is read from the table AFTER the iteration, while the reported
   evaluation is the value the root call returned: the proof shows that the root entry found afterwards carries an
   evaluation >= POS_INF whenever the call returned one (the root hash is recorded in the history before the first
   iteration, so no node below the root ever stores under it; a root entry used by the probe is either still there
   or gone, and if it is gone no line is reported).
   Residues as in props/C06.v (HashRuleOn, Region, HeurNTOn; discharged for at most ten men).  Several workers:
   another worker may store under the root key after the reporting worker has finished, so this argument does not
   carry over (candidate F7 of DESIGN.md section 9); there the first move is decided per run by the solver, under
   forced and real schedules. *)
From Coq Require Import NArith ZArith List Bool.
From WV Require Import Types Bits Board MoveGen Text Table Eval Search Rules Abs Wf GameValue.
From WV Require Import HashProofs SearchProofs MateValue MateSound MateRegion MateFirstMove.
Import ListNotations.
Import WV.Bits.
Open Scope Z_scope.

Theorem C06_first_move_keeps : forall hs P, HashRuleOn P hs -> Region P -> HeurNTOn P ->
  forall jit_of cancel iters s history tt, P s -> TOk2 P hs tt -> NoUpper tt ->
  let r := analyze_iterative hs jit_of cancel iters s history tt in
  (forall ev mv tl, In (EvBest ev (mv :: tl)) (r_events r) -> POS_INF <= ev ->
     exists ns, In (mv, ns) (gen_legal s) /\ Lost ns) /\
  TOk2 P hs (r_tt r) /\ NoUpper (r_tt r).
Proof. exact keeps_iterative. Qed.
Print Assumptions C06_first_move_keeps.

(* both clauses of the first half of C06, rules-level reading *)
Theorem C06_sound_and_first_move : forall hs P, HashRuleOn P hs -> Region P -> HeurNTOn P ->
  forall jit_of cancel iters s history tt, P s -> TOk2 P hs tt -> NoUpper tt ->
  let r := analyze_iterative hs jit_of cancel iters s history tt in
  (forall ev mv tl, In (EvBest ev (mv :: tl)) (r_events r) -> POS_INF <= ev ->
     (exists n, Win n (abs s)) /\
     exists ns, In (mv, ns) (gen_legal s) /\ In mv (MoveGen.legal_moves s) /\ exists n, Loss n (abs ns)) /\
  TOk2 P hs (r_tt r) /\ NoUpper (r_tt r).
Proof. exact sound_and_keeps_iterative. Qed.
Print Assumptions C06_sound_and_first_move.

Theorem C06_first_move_invariant_empty : forall P hs nt nb, (0 < nt)%nat -> (0 < nb)%nat -> TOk2 P hs (empty_access nt nb).
Proof. exact TOk2_empty. Qed.
Print Assumptions C06_first_move_invariant_empty.

Theorem C06_first_move_invariant_stronger : forall P hs tt, TOk2 P hs tt -> TOk P hs tt.
Proof. exact TOk_of_TOk2. Qed.
Print Assumptions C06_first_move_invariant_stronger.

(* at most ten men, fresh memory: the only residue is the absence of collisions among reachable positions *)
Theorem C06_first_move_small_root_fresh : forall hs s, LegalPos s -> (men s <= 10)%nat -> HashRuleOn (Reach s) hs ->
  forall jit_of cancel iters history nt nb, (0 < nt)%nat -> (0 < nb)%nat ->
  let r := analyze_iterative hs jit_of cancel iters s history (empty_access nt nb) in
  forall ev mv tl, In (EvBest ev (mv :: tl)) (r_events r) -> POS_INF <= ev ->
    (exists n, Win n (abs s)) /\ exists ns, In (mv, ns) (gen_legal s) /\ exists n, Loss n (abs ns).
Proof. exact small_root_keeps_fresh. Qed.
Print Assumptions C06_first_move_small_root_fresh.

Theorem C06_first_move_small_men : forall hs, HashRuleOn SmallMen hs ->
  forall jit_of cancel iters s history tt, LegalPos s -> (men s <= 10)%nat -> TOk2 SmallMen hs tt -> NoUpper tt ->
  let r := analyze_iterative hs jit_of cancel iters s history tt in
  (forall ev mv tl, In (EvBest ev (mv :: tl)) (r_events r) -> POS_INF <= ev ->
     exists ns, In (mv, ns) (gen_legal s) /\ exists n, Loss n (abs ns)) /\
  TOk2 SmallMen hs (r_tt r) /\ NoUpper (r_tt r).
Proof. exact small_men_keeps. Qed.
Print Assumptions C06_first_move_small_men.
