(* Property C13: the static score of a position from White's perspective is exactly the negation of its
   score from Black's perspective, and mirroring a position (flip ranks, swap colours, side to move,
   castling rights and en-passant square) gives exactly the same score from the mirrored perspective. *)
From WV Require Import Types Bits Attacks Board MoveEnc MoveGen Rules Abs Wf Encode Eval.
From WV Require Import EvalF32 EvalShortcut EvalProofs.
Import WV.Bits.
Open Scope Z_scope.

Theorem C13_negation : forall s d v, WfState s ->
  (evaluate s White d = EVal v <-> evaluate s Black d = EVal (- v)) /\
  (evaluate s White d = EPanic <-> evaluate s Black d = EPanic).
Proof. exact eval_negation. Qed.
Print Assumptions C13_negation.

Theorem C13_heuristic_odd : forall b p, WfBoard b -> heuristic b (opp p) = - heuristic b p.
Proof. exact heuristic_odd. Qed.
Print Assumptions C13_heuristic_odd.
