(* Property C13: the static score of a position from White's perspective is exactly the negation of its
   score from Black's perspective, and mirroring a position (flip ranks, swap colours, side to move,
   castling rights and en-passant square) gives exactly the same score from the mirrored perspective.
   mirror_bb / mirror_board / mirror_state: proofs/EvalMirror.v (every set bit s of every slot moves to
   flip_rank s, White and Black slots are exchanged, the side to move and the castling rights are exchanged,
   the e.p. square is flipped). *)
From WV Require Import Types Bits Attacks Board MoveEnc MoveGen Rules Abs Wf Encode Eval.
From WV Require Import EvalF32 EvalShortcut EvalProofs EvalMirror EvalMirrorRules.
Import WV.Bits.
Open Scope Z_scope.

(* exact negation, for every well-formed state (terminal and heuristic branch), and the unwrap panic is
   perspective independent *)
Theorem C13_negation : forall s d v, WfState s ->
  (evaluate s White d = EVal v <-> evaluate s Black d = EVal (- v)) /\
  (evaluate s White d = EPanic <-> evaluate s Black d = EPanic).
Proof. exact eval_negation. Qed.
Print Assumptions C13_negation.

Theorem C13_negation_persp : forall s p d, WfBoard (st_board s) ->
  match evaluate s p d with
  | EVal v => evaluate s (opp p) d = EVal (- v)
  | EPanic => evaluate s (opp p) d = EPanic
  end.
Proof. exact evaluate_opp. Qed.
Print Assumptions C13_negation_persp.

Theorem C13_heuristic_odd : forall b p, WfBoard b -> heuristic b (opp p) = - heuristic b p.
Proof. exact heuristic_odd. Qed.
Print Assumptions C13_heuristic_odd.

(* mirror, heuristic part.  The hypothesis "at most one king per colour" is needed: the king-to-edge
   term reads king.first_square(), and with two kings of one colour on different ranks the lowest square
   is a different king after the flip.  Every legal position satisfies it (C13_mirror_heuristic_legal). *)
Theorem C13_mirror_heuristic : forall b p, WfBoard b -> (forall c, count b c King <= 1) ->
  heuristic (mirror_board b) (opp p) = heuristic b p.
Proof. exact mirror_heuristic. Qed.
Print Assumptions C13_mirror_heuristic.

Theorem C13_mirror_heuristic_legal : forall s p, LegalPos s ->
  heuristic (st_board (mirror_state s)) (opp p) = heuristic (st_board s) p.
Proof. exact mirror_heuristic_legal. Qed.
Print Assumptions C13_mirror_heuristic_legal.

(* the mirror image is again a well-formed placement / state *)
Theorem C13_mirror_wf : forall s, WfState s -> WfState (mirror_state s).
Proof. exact mirror_wf_state. Qed.
Print Assumptions C13_mirror_wf.

(* the mirror image of a legal position is a legal position *)
Theorem C13_mirror_legal : forall s, LegalPos s -> LegalPos (mirror_state s).
Proof. exact mirror_legal. Qed.
Print Assumptions C13_mirror_legal.

(* mirror, the whole evaluator (mate / stalemate / heuristic branch): by the symmetry of the rules
   (proofs/EvalMirrorRules.v: Rules.legal, Rules.legal_pos and king_attacked commute with the mirror image)
   together with C01 (generator = rules) and C10 (check flag = rules) *)
Theorem C13_mirror : forall s p d, LegalPos s -> evaluate (mirror_state s) (opp p) d = evaluate s p d.
Proof. exact evaluate_mirror. Qed.
Print Assumptions C13_mirror.

Theorem C13_mirror_movegen : forall s, LegalPos s ->
  (gen_legal (mirror_state s) = [] <-> gen_legal s = []) /\ is_check (mirror_state s) = is_check s.
Proof.
  exact (fun s HL => conj (gen_legal_nil_mirror s HL) (is_check_mirror s (proj1 (legal_pos_wf s HL)))).
Qed.
Print Assumptions C13_mirror_movegen.

(* non-vacuity (one vm_compute).
   asym : White Ke1 Qd1 Ra1 Nf3 Pa2 Pe4, Black Kg8 Rf8 Bb7 Pg7 Ph6 (placement only): +850 / -850, and the
          mirrored placement gives -850 / +850.
   mid  : the position of C01 (White to move, e.p. target d6): +36 for White; its mirror image (Black to
          move, e.p. target d3) gives +36 for Black.
   mate : back-rank mate of Black (C05); the mirror image is the back-rank mate of White. *)
Example C13_example :
  let asym := mkBoard 268435712 2097152 0 1 8 16 18155135997837312 0 562949953421312 2305843009213693952 0
                      4611686018427387904 in
  let mid := mkState (mkBoard 18014467228958976 0 0 0 0 16 36028831378833408 0 0 0 0 1152921504606846976)
                     White false false false false (Some 43%N) 0 10 in
  let mate := mkState (mkBoard 0 0 0 1152921504606846976 0 64 54043195528445952 0 0 0 0 9223372036854775808)
                      Black false false false false None 0 1 in
  (wf_boardb asym = true /\ heuristic asym White = 850 /\ heuristic asym Black = -850 /\
   heuristic (mirror_board asym) Black = 850 /\ heuristic (mirror_board asym) White = -850) /\
  (legal_posb mid = true /\ legal_posb (mirror_state mid) = true /\
   mirror_state mid = mkState (mkBoard 2199157506048 0 0 0 0 16 281475245162496 0 0 0 0 1152921504606846976)
                              Black false false false false (Some 19%N) 0 10 /\
   evaluate mid White 0 = EVal 36 /\ evaluate mid Black 0 = EVal (-36) /\
   evaluate (mirror_state mid) Black 0 = EVal 36 /\ evaluate (mirror_state mid) White 0 = EVal (-36)) /\
  (legal_posb (mirror_state mate) = true /\ st_turn (mirror_state mate) = White /\
   evaluate mate Black 0 = EVal (-11000) /\ evaluate (mirror_state mate) White 0 = EVal (-11000) /\
   evaluate (mirror_state mate) Black 0 = EVal 11000).
Proof. vm_compute. repeat split. Qed.
