(* Property C13: the static score of a position from White's perspective is exactly the negation of its
   score from Black's perspective, and mirroring a position (flip ranks, swap colours, side to move,
   castling rights and en-passant square) gives exactly the same score from the mirrored perspective.
   mirror_bb / mirror_board / mirror_state: proofs/EvalMirror.v (every set bit s of every slot moves to
   flip_rank s, White and Black slots are exchanged, the side to move and the castling rights are exchanged,
   the e.p. square is flipped). *)
From WV Require Import Types Bits Attacks Board MoveEnc MoveGen Rules Abs Wf Encode Eval.
From WV Require Import EvalF32 EvalShortcut EvalProofs EvalMirror.
Import WV.Bits.
Open Scope Z_scope.

(* exact negation, for every well-formed state (terminal and heuristic branch), and the unwrap panic is
   perspective independent *)
Theorem C13_negation : forall s d v, WfState s ->
  (evaluate s White d = EVal v <-> evaluate s Black d = EVal (- v)) /\
  (evaluate s White d = EPanic <-> evaluate s Black d = EPanic).
Proof. exact eval_negation. Qed.
Print Assumptions C13_negation.

Theorem C13_negation_persp : forall s p d, WfBoard (st_board s) ->
  match evaluate s p d with
  | EVal v => evaluate s (opp p) d = EVal (- v)
  | EPanic => evaluate s (opp p) d = EPanic
  end.
Proof. exact evaluate_opp. Qed.
Print Assumptions C13_negation_persp.

Theorem C13_heuristic_odd : forall b p, WfBoard b -> heuristic b (opp p) = - heuristic b p.
Proof. exact heuristic_odd. Qed.
Print Assumptions C13_heuristic_odd.

(* mirror, heuristic part.  The hypothesis "at most one king per colour" is needed: the king-to-edge
   term reads king.first_square(), and with two kings of one colour on different ranks the lowest square
   is a different king after the flip.  Every legal position satisfies it (C13_mirror_heuristic_legal). *)
Theorem C13_mirror_heuristic : forall b p, WfBoard b -> (forall c, count b c King <= 1) ->
  heuristic (mirror_board b) (opp p) = heuristic b p.
Proof. exact mirror_heuristic. Qed.
Print Assumptions C13_mirror_heuristic.

Theorem C13_mirror_heuristic_legal : forall s p, LegalPos s ->
  heuristic (st_board (mirror_state s)) (opp p) = heuristic (st_board s) p.
Proof. exact mirror_heuristic_legal. Qed.
Print Assumptions C13_mirror_heuristic_legal.

(* the mirror image is again a well-formed placement / state *)
Theorem C13_mirror_wf : forall s, WfState s -> WfState (mirror_state s).
Proof. exact mirror_wf_state. Qed.
Print Assumptions C13_mirror_wf.
