(* Property C18: ucinewgame.  "After ucinewgame nothing of earlier games survives: no running search, no
   kept artifact (search memory, remembered root positions); what follows is what a fresh process set to the
   current position would do."

   Model: model/Uci.v (session = current position, running search, kept artifact; step / run / collect).
   Definitions used in the statements (proofs/UciProofs.v):
     is_quit line        tokens line = "quit" :: _
     steps s lines       the commands of a history run from session s WITHOUT the final collection:
                         (session after, outputs, loop still running?)
     Uci.fresh p         mkSession p None None: the session of a newly started process, at position p
     rpos s              the position of the running search of s, if any
     quiet o             o is none of OBookMove / OSearchStarted / OCollected / OExit
   All statements hold for arbitrary start position, book predicate, session and command texts. *)
From WV Require Import Types Bits MoveGen Text Notation Uci.
From WV Require Import PlayProofs UciProofs.
From Coq Require Import List.
Import ListNotations.
Import WV.Bits.
Open Scope N_scope.

Theorem C18_clean : forall start in_book s line (args : list text),
  tokens line = t_ucinewgame :: args ->
  let '(s', _, _) := Uci.step start in_book s line in
  s_running s' = None /\ s_artifact s' = None /\ s_pos s' = s_pos s.
Proof. exact ucinewgame_clean. Qed.
Print Assumptions C18_clean.

(* exactly: the session becomes the fresh session of the current position; the only output is the collection
   of a running search (whose single bestmove is thereby accounted for) *)
Theorem C18_step : forall start in_book s line (args : list text),
  tokens line = t_ucinewgame :: args ->
  Uci.step start in_book s line = (Uci.fresh (s_pos s), snd (collect s), true).
Proof. exact step_ucinewgame. Qed.
Print Assumptions C18_step.

(* histories compose: a history without quit, then more input *)
Theorem C18_run_app : forall start in_book hist s rest, (forall l, In l hist -> ~ is_quit l) ->
  Uci.run start in_book s (hist ++ rest) =
  (fst (Uci.run start in_book (fst (fst (steps start in_book s hist))) rest),
   snd (fst (steps start in_book s hist)) ++ snd (Uci.run start in_book (fst (fst (steps start in_book s hist))) rest)).
Proof. exact run_app. Qed.
Print Assumptions C18_run_app.

(* after ANY history (from any session s) that ends with ucinewgame and contains no quit, the session is
   Uci.fresh p for the position p reached by the history, and the rest of the input produces the final
   session and the outputs that a fresh session at p produces *)
Theorem C18_same_as_fresh : forall start in_book s hist l (args : list text) rest,
  (forall x, In x hist -> ~ is_quit x) -> tokens l = t_ucinewgame :: args ->
  let p := s_pos (fst (fst (steps start in_book s hist))) in
  fst (fst (steps start in_book s (hist ++ [l]))) = Uci.fresh p /\
  Uci.run start in_book s ((hist ++ [l]) ++ rest) =
  (fst (Uci.run start in_book (Uci.fresh p) rest),
   snd (fst (steps start in_book s (hist ++ [l]))) ++ snd (Uci.run start in_book (Uci.fresh p) rest)).
Proof. exact same_as_fresh. Qed.
Print Assumptions C18_same_as_fresh.

(* the next search starts without an artifact ... *)
Theorem C18_next_search_has_no_artifact : forall start in_book p line (args : list text),
  tokens line = t_go :: args -> in_book p = false ->
  exists d mt o2, forallb quiet o2 = true /\
    Uci.step start in_book (Uci.fresh p) line =
    (mkSession p (Some (p, d, mt)) None, o2 ++ [OSearchStarted p false], true).
Proof. exact go_after_newgame. Qed.
Print Assumptions C18_next_search_has_no_artifact.

(* ... whereas without ucinewgame a search started while/after another search ran inherits its artifact
   (so the statement above is not vacuous) *)
Theorem C18_contrast_artifact_kept : forall start in_book s line (args : list text) p0,
  tokens line = t_go :: args -> in_book (s_pos s) = false -> rpos s = Some p0 ->
  exists d mt o2 roots, forallb quiet o2 = true /\
    Uci.step start in_book s line =
    (mkSession (s_pos s) (Some (s_pos s, d, mt)) (Some (mkArt (p0 :: roots))),
     OCollected p0 :: o2 ++ [OSearchStarted (s_pos s) true], true).
Proof. exact go_after_collected. Qed.
Print Assumptions C18_contrast_artifact_kept.

(* Non-vacuity: "go", "ucinewgame", "go" against "go", "stop", "go" (no book): the second search starts
   without / with the artifact of the first. *)
Example C18_example :
  let p := start_state in
  let nobook := fun _ : state => false in
  snd (Uci.run p nobook (Uci.fresh p) [t_go; t_ucinewgame; t_go]) =
    [OSearchStarted p false; OCollected p; OSearchStarted p false; OCollected p; OExit] /\
  snd (Uci.run p nobook (Uci.fresh p) [t_go; t_stop; t_go]) =
    [OSearchStarted p false; OCollected p; OSearchStarted p true; OCollected p; OExit] /\
  fst (fst (steps p nobook (Uci.fresh p) [t_go; t_stop; t_go; t_ucinewgame])) = Uci.fresh p.
Proof. vm_compute. repeat split. Qed.
