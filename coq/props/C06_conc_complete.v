(* Property C06, completeness half, for any number of workers under every schedule (model/Conc.v).

   What is proved (proofs/ConcComplete.v, ConcCompleteTop.v):
   - C06_conc_complete_call: the call-level completeness guarantee of one worker holds whatever the other workers
     do to the shared table in between, as long as every entry it finds satisfies the completeness invariant
     (rely R_cmp = TC entry by entry) - and every entry it inserts satisfies it again (guarantee G_cmp):
       position won within n <= remaining depth plies  ==> value >= POS_INF, or value >= beta (fail high);
       position lost within k <= remaining depth plies ==> value <= NEG_INF, or value <= alpha (fail low).
   - C06_conc_complete_workers: in EVERY schedule of the workers of one iteration, worker 0 (which always has the
     full depth and the full window) returns a winning terminal value when the root is won within depth + 1 plies.
   - C06_conc_complete_fresh: from a fresh memory, if the side to move can force mate within n <= d plies, the
     n-worker run limited to depth d ends normally and EITHER its last event is a report with a winning terminal
     evaluation (FoundM: the run stopped there) OR its last iteration had no line to report (NoLineM).
   THE RESIDUE NoLineM is real for this engine: the line is read out of the shared table after the workers have
   joined, and with several workers the root entry can have been displaced from a full bucket by another worker's
   later insert, or the last worker to finish can have failed low on a bound another worker stored; then
   `analyze_iterative` ends silently ("No line means no legal moves").  The one-worker theorem (props/C06_complete.v)
   has no such case because the root store is the last table operation of the iteration.  It is a statement about
   the order of operations, which `sat` does not express; on the real code it is looked for by the forced-schedule
   and real-thread streams (1x1 tables included) and has not been observed. *)
From Coq Require Import NArith ZArith List Bool.
From WV Require Import Types Bits Attacks Board MoveEnc MoveGen Text Table Eval Search Conc Wf.
From WV Require Import Rules Abs GameValue.
From WV Require Import SearchBase SearchProofs MateValue MateSound MateRegion MateComplete.
From WV Require Import ConcSeq ConcRG ConcSound ConcComplete ConcCompleteTop.
Import ListNotations.
Open Scope Z_scope.

Theorem C06_conc_complete_call : forall hs P, HashRuleOn P hs -> Region P ->
  forall history Hn, HistFree P hs history Hn ->
  forall jit fuel s md cd ce a b prio st,
  P s -> a < b -> (forall pm, prio = Some pm -> In pm (MoveGen.legal_moves s)) ->
  sat (R_cmp hs P Hn) (G_cmp hs P Hn) (Q_cmp hs history Hn s md cd a b)
      (analyzeP hs history jit fuel s md cd ce a b prio st).
Proof. exact completeM_call. Qed.
Print Assumptions C06_conc_complete_call.

(* the rely is exactly the table invariant of the one-worker completeness theorem *)
Theorem C06_conc_complete_table_inv : forall hs P Hn tt,
  TabR (R_cmp hs P Hn) tt <-> TC hs P Hn tt.
Proof. exact TabR_TC. Qed.
Print Assumptions C06_conc_complete_table_inv.

Theorem C06_conc_complete_workers : forall hs P, HashRuleOn P hs -> Region P ->
  forall history Hn, HistFree P hs history Hn ->
  forall jit_of depth s bm workers sched tt,
  P s -> TC hs P Hn tt -> (forall m, bm = Some m -> In m (MoveGen.legal_moves s)) ->
  let '(rs, tt', _) := run_workers sched (map (worker_prog hs jit_of depth s history bm) (seq 0 workers)) tt in
  TC hs P Hn tt' /\ length rs = workers /\
  (forall n, win n (abs s) = true -> (n <= N.to_nat depth + 1)%nat -> (n <= S Hn)%nat -> (0 < workers)%nat ->
     forall v l, nth_error rs 0 = Some (WVal v l) -> POS_INF <= v) /\
  (forall k, loss k (abs s) = true -> (k <= N.to_nat depth + 1)%nat -> (k <= Hn)%nat -> (0 < workers)%nat ->
     forall v l, nth_error rs 0 = Some (WVal v l) -> v <= NEG_INF).
Proof. exact completeM_workers. Qed.
Print Assumptions C06_conc_complete_workers.

Theorem C06_conc_complete_fresh : forall hs P, HashFaithful hs -> HashRuleOn P hs -> Region P -> HeurNTOn P ->
  forall jit_of workers d s n nt nb sched,
  P s -> (0 < workers)%nat -> (0 < nt)%nat -> (0 < nb)%nat -> win n (abs s) = true -> (n <= d)%nat ->
  let r := analyze_iterativeM hs jit_of workers d s [] (empty_access nt nb) sched in
  m_outcome r = 0%N /\ (FoundM r \/ NoLineM r).
Proof. exact completeM_fresh. Qed.
Print Assumptions C06_conc_complete_fresh.

Theorem C06_conc_complete_fresh_small_men : forall hs, HashFaithful hs -> HashRuleOn SmallMen hs ->
  forall jit_of workers d s n nt nb sched,
  LegalPos s -> (men s <= 10)%nat -> (0 < workers)%nat -> (0 < nt)%nat -> (0 < nb)%nat ->
  win n (abs s) = true -> (n <= d)%nat ->
  let r := analyze_iterativeM hs jit_of workers d s [] (empty_access nt nb) sched in
  m_outcome r = 0%N /\ (FoundM r \/ NoLineM r).
Proof. exact completeM_fresh_small_men. Qed.
Print Assumptions C06_conc_complete_fresh_small_men.

Theorem C06_conc_found_reported : forall r, FoundM r ->
  exists ev line, In (EvBest ev line) (m_events r) /\ POS_INF <= ev.
Proof. exact FoundM_In. Qed.
Print Assumptions C06_conc_found_reported.

(* non-vacuity: the mate in one of props/C06_conc.v (Qb6-b7#; `win 1 (abs p) = true` holds but takes minutes in
   vm_compute over the closure-based rules position, so it is not re-evaluated here), two workers, interleaved
   schedule: the run ends with the report of a winning terminal evaluation (FoundM, not NoLineM) *)
Example C06_conc_complete_example :
  let hx := hasher_of_stream (map N.of_nat (seq 1 1038)) in
  let p := mkState (mkBoard 0 0 0 0 (N.shiftl 1 41) (N.shiftl 1 42) 0 0 0 0 0 (N.shiftl 1 56)) White false false false false None 0 1 in
  let r := analyze_iterativeM hx (fun _ _ _ => 0) 2 2 p [] (empty_access 2 4) [1; 0; 1; 1; 0; 0; 1; 0; 1; 1; 1; 0]%N in
  legal_posb p = true /\ m_outcome r = 0%N /\
  match last (m_events r) (EvProgress 0 0) with EvBest ev _ => POS_INF <=? ev | _ => false end = true.
Proof. vm_compute. repeat split. Qed.
