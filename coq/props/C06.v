(* Property C06, first half (soundness of mate claims):
   "If a search reports a winning terminal evaluation for the side to move, that side really has a forced
    checkmate from the searched position."
   (Completeness - a forced mate within n plies is found at depth >= n - is not part of this file.)

   Model: model/Search.v (analyze = analyze_recursive: fail-hard negamax with table probe / insert, check
   extension, history draws; quiesce; iterate / analyze_iterative), model/Eval.v (evaluate, mate_in_ply,
   POS_INF = 10000, NEG_INF = -10000).  Oracle: spec/GameValue.v over spec/Rules.v:
     win n p / loss n p   boolean fixpoints: the side to move of p can force checkmate within n plies / is
                          checkmated now or cannot avoid being checkmated within n plies;
     Win n p / Loss n p   the same, inductively (C06_win_iff_Win, C06_loss_iff_Loss).
   Definitions used in the statements (proofs/MateValue.v, proofs/MateSound.v, proofs/MateRegion.v):
     Won s  := exists n, win n (abs s) = true        Lost s := exists n, loss n (abs s) = true
     ScoreOkU e s   what a table entry e may claim of a position s with its key:
                      POS_INF <= e_eval e -> e_kind e is Exact or LowerBound -> Won s
                      e_eval e <= NEG_INF -> e_kind e is Exact or UpperBound -> Lost s
     EntryOk e s    ScoreOkU e s /\ the stored move is a generated legal move of s (C03's invariant; it is needed
                    because the root entry's move is searched first, unchecked, in the next iteration)
     TOk P hs tt    tt_ok tt (shape, C03/C15) /\ every entry found under the hash of a position of P is EntryOk for it
     NoUpper tt     no entry of kind UpperBound (needed only for the events of an INTERRUPTED iteration, which
                    report the root entry's value whatever its kind; the search never writes such an entry:
                    C06_no_upper_bound)
     Region P       P is a set of legal positions closed under generated legal moves
   RESIDUES (explicit premises of the theorems):
     HashRuleOn P hs   positions of P with equal hash have equal rule keys (C08: placement, side, rights,
                       capturable e.p. target).  No collision; it cannot be dropped (a colliding entry's mate score
                       would be reported for another position).
     HeurNTOn P        on P, the heuristic score of a position that has a legal move is not a terminal score
                       (|score| < 10000).  This is the material caveat of C05.  Its GLOBAL form (P = all legal
                       positions, HeurNonTerminal) is FALSE (C06_heur_global_false: K+9Q+2R+2B+2N v K evaluates
                       to 10388), i.e. on such positions the model (and the Rust code) does report "mate" for a
                       position that is merely won on material: the property C06 is violated there
                       (C06_violation_unbounded_material exhibits a legal position, with 39 white pawns, where the
                       search reports mate for a side that has no forced mate), and the theorems are therefore
                       stated relative to a region.  The residue is discharged outright on
                       SmallMen (at most ten men on the board): C06_small_men_region / _heur, C06_sound_small_root.
   The side conditions a < r, r < b of C06_sound_call are what make fail-hard clamping sound: a value returned
   at or outside the window bound claims nothing on that side. *)
From Coq Require Import NArith ZArith List Bool.
From WV Require Import Types Bits Board MoveGen Text Table Eval Search Rules Abs Wf GameValue.
From WV Require Import HashProofs SearchProofs MateValue MateSound MateRegion.
Import ListNotations.
Import WV.Bits.
Open Scope Z_scope.

(* ---- the oracle ---- *)

Theorem C06_win_iff_Win : forall n p, win n p = true <-> Win n p.
Proof. exact win_iff_Win. Qed.
Print Assumptions C06_win_iff_Win.

Theorem C06_loss_iff_Loss : forall n p, loss n p = true <-> Loss n p.
Proof. exact loss_iff_Loss. Qed.
Print Assumptions C06_loss_iff_Loss.

Theorem C06_won_iff_Win : forall s, Won s <-> exists n, Win n (abs s).
Proof. exact Won_iff_Win. Qed.
Print Assumptions C06_won_iff_Win.

(* forced mates are a matter of the rule key only: a table entry may speak for every position with its key *)
Theorem C06_same_key_won : forall s1 s2, LegalPos s1 -> LegalPos s2 -> rulekey s1 = rulekey s2 -> Won s1 -> Won s2.
Proof. exact same_key_won. Qed.
Print Assumptions C06_same_key_won.

Theorem C06_same_key_lost : forall s1 s2, LegalPos s1 -> LegalPos s2 -> rulekey s1 = rulekey s2 -> Lost s1 -> Lost s2.
Proof. exact same_key_lost. Qed.
Print Assumptions C06_same_key_lost.

(* one ply, through the generated successors *)
Theorem C06_won_of_child_lost : forall s m ns, LegalPos s -> In (m, ns) (gen_legal s) -> Lost ns -> Won s.
Proof. exact won_of_child_lost. Qed.
Print Assumptions C06_won_of_child_lost.

Theorem C06_lost_of_children_won : forall s, LegalPos s -> gen_legal s <> [] ->
  (forall m ns, In (m, ns) (gen_legal s) -> Won ns) -> Lost s.
Proof. exact lost_of_children_won. Qed.
Print Assumptions C06_lost_of_children_won.

(* ---- quiescence ---- *)

Theorem C06_sound_quiesce : forall P, Region P -> HeurNTOn P ->
  forall fuel s depth a b r, P s -> a < b -> quiesce fuel s depth a b = QVal r ->
  (POS_INF <= r -> a < r -> Won s) /\ (r <= NEG_INF -> r < b -> Lost s).
Proof. exact sound_quiesce. Qed.
Print Assumptions C06_sound_quiesce.

(* ---- one call of analyze_recursive: the value, and the table invariant (also when interrupted) ---- *)

Theorem C06_sound_call : forall hs P, HashRuleOn P hs -> Region P -> HeurNTOn P ->
  forall history jit cancel fuel s maxd cur ext a b prio w,
  P s -> a < b -> TOk P hs (w_tt w) -> (forall pm, prio = Some pm -> In pm (MoveGen.legal_moves s)) ->
  match analyze hs history jit cancel fuel s maxd cur ext a b prio w with
  | SVal r w' => (POS_INF <= r -> a < r -> Won s) /\ (r <= NEG_INF -> r < b -> Lost s) /\ TOk P hs (w_tt w')
  | SInterrupt w' => TOk P hs (w_tt w')
  | _ => True
  end.
Proof. exact sound_call. Qed.
Print Assumptions C06_sound_call.

(* ---- the whole iterative run: every reported winning terminal evaluation is a real forced mate; the invariants
        hold of the returned artifact, so the statement composes over any chain of searches reusing it ---- *)

Theorem C06_sound : forall hs P, HashRuleOn P hs -> Region P -> HeurNTOn P ->
  forall jit_of cancel iters s history tt, P s -> TOk P hs tt -> NoUpper tt ->
  let r := analyze_iterative hs jit_of cancel iters s history tt in
  (forall ev line, In (EvBest ev line) (r_events r) -> POS_INF <= ev -> Won s) /\
  TOk P hs (r_tt r) /\ NoUpper (r_tt r).
Proof. exact sound_iterative. Qed.
Print Assumptions C06_sound.

Theorem C06_empty_table : forall P hs nt nb, (0 < nt)%nat -> (0 < nb)%nat ->
  TOk P hs (empty_access nt nb) /\ NoUpper (empty_access nt nb).
Proof. intros P hs nt nb H1 H2. exact (conj (TOk_empty P hs nt nb H1 H2) (NoUpper_empty nt nb H1 H2)). Qed.
Print Assumptions C06_empty_table.

(* ---- the search never writes an UpperBound entry (the final insert happens only when best = Some _, which
        forces kind = Exact; the cutoff insert is LowerBound).  No residue. ---- *)

Theorem C06_no_upper_bound : forall hs history jit cancel fuel s maxd cur ext a b prio w,
  tt_ok (w_tt w) -> NoUpper (w_tt w) ->
  match analyze hs history jit cancel fuel s maxd cur ext a b prio w with
  | SVal _ w' => tt_ok (w_tt w') /\ NoUpper (w_tt w')
  | SInterrupt w' => tt_ok (w_tt w') /\ NoUpper (w_tt w')
  | _ => True
  end.
Proof. exact no_upper_bound. Qed.
Print Assumptions C06_no_upper_bound.

Theorem C06_no_upper_bound_iterative : forall hs jit_of cancel iters s history tt,
  tt_ok tt -> NoUpper tt ->
  tt_ok (r_tt (analyze_iterative hs jit_of cancel iters s history tt)) /\
  NoUpper (r_tt (analyze_iterative hs jit_of cancel iters s history tt)).
Proof. exact no_upper_bound_iterative. Qed.
Print Assumptions C06_no_upper_bound_iterative.

(* ---- instances of the region ---- *)

(* the positions reachable from the root *)
Theorem C06_sound_reach : forall hs s, LegalPos s -> HashRuleOn (Reach s) hs -> HeurNTOn (Reach s) ->
  forall jit_of cancel iters history tt, TOk (Reach s) hs tt -> NoUpper tt ->
  let r := analyze_iterative hs jit_of cancel iters s history tt in
  (forall ev line, In (EvBest ev line) (r_events r) -> POS_INF <= ev -> exists n, Win n (abs s)) /\
  TOk (Reach s) hs (r_tt r) /\ NoUpper (r_tt r).
Proof. exact sound_iterative_reach. Qed.
Print Assumptions C06_sound_reach.

(* at most ten men: the heuristic caveat is discharged *)
Theorem C06_men_step : forall s m ns, LegalPos s -> In (m, ns) (gen_legal s) -> (men ns <= men s)%nat.
Proof. exact men_step. Qed.
Print Assumptions C06_men_step.

Theorem C06_small_men_region : Region SmallMen.
Proof. exact SmallMen_region. Qed.
Print Assumptions C06_small_men_region.

Theorem C06_small_men_heur : HeurNTOn SmallMen.
Proof. exact SmallMen_heur. Qed.
Print Assumptions C06_small_men_heur.

Theorem C06_sound_small_root : forall hs s, LegalPos s -> (men s <= 10)%nat -> HashRuleOn (Reach s) hs ->
  forall jit_of cancel iters history tt, TOk (Reach s) hs tt -> NoUpper tt ->
  let r := analyze_iterative hs jit_of cancel iters s history tt in
  (forall ev line, In (EvBest ev line) (r_events r) -> POS_INF <= ev -> exists n, Win n (abs s)) /\
  TOk (Reach s) hs (r_tt r) /\ NoUpper (r_tt r).
Proof. exact small_root_sound. Qed.
Print Assumptions C06_sound_small_root.

Theorem C06_sound_small_men : forall hs, HashRuleOn SmallMen hs ->
  forall jit_of cancel iters s history tt, LegalPos s -> (men s <= 10)%nat -> TOk SmallMen hs tt -> NoUpper tt ->
  let r := analyze_iterative hs jit_of cancel iters s history tt in
  (forall ev line, In (EvBest ev line) (r_events r) -> POS_INF <= ev -> exists n, Win n (abs s)) /\
  TOk SmallMen hs (r_tt r) /\ NoUpper (r_tt r).
Proof. exact small_men_sound. Qed.
Print Assumptions C06_sound_small_men.

(* ---- the task's literal form (global residues; ScoreOk / TScore say nothing of UpperBound entries, so NoUpper is
        required of the table; TInv is C03's stored-move invariant).  They are the instances P := LegalPos; their
        premise HeurNonTerminal is refutable, so they are formally vacuous and kept for reference only. ---- *)

Theorem C06_heur_global_false : ~ HeurNonTerminal.
Proof. exact heur_global_false. Qed.
Print Assumptions C06_heur_global_false.

Theorem C06_sound_call_literal : forall hs, HashRule hs -> HeurNonTerminal ->
  forall history jit cancel fuel s maxd cur ext a b prio w r w',
  tt_ok (w_tt w) -> TScore hs (w_tt w) -> NoUpper (w_tt w) -> TInv hs (w_tt w) ->
  LegalPos s -> a < b -> (forall pm, prio = Some pm -> In pm (MoveGen.legal_moves s)) ->
  analyze hs history jit cancel fuel s maxd cur ext a b prio w = SVal r w' ->
  (POS_INF <= r -> a < r -> Won s) /\ (r <= NEG_INF -> r < b -> Lost s) /\
  tt_ok (w_tt w') /\ TScore hs (w_tt w') /\ NoUpper (w_tt w') /\ TInv hs (w_tt w').
Proof. exact sound_call_literal. Qed.
Print Assumptions C06_sound_call_literal.

Theorem C06_sound_literal : forall hs, HashRule hs -> HeurNonTerminal ->
  forall jit_of cancel iters s history tt,
  LegalPos s -> tt_ok tt -> TScore hs tt -> NoUpper tt -> TInv hs tt ->
  let r := analyze_iterative hs jit_of cancel iters s history tt in
  (forall ev line, In (EvBest ev line) (r_events r) -> POS_INF <= ev -> Won s) /\
  tt_ok (r_tt r) /\ TScore hs (r_tt r) /\ NoUpper (r_tt r) /\ TInv hs (r_tt r).
Proof. exact sound_iterative_literal. Qed.
Print Assumptions C06_sound_literal.

(* ---- the heuristic residue cannot be dropped: A VIOLATION OF C06 on a legal position (LegalPos does not bound the
        number of men).  MateRegion.wall: White K h1, Q a8..h8 and 39 pawns, every white man frozen except the pawn
        c3; Black K a2, R b2, pawns b3 f2.  White's only legal move is c3-c4, after which Black can leave White
        without a legal move (..Rb1 mate), so White has no forced mate; but the static score of that position is
        a terminal value (-10920 for Black) and the depth-1 search from the empty table reports 10920 >= POS_INF. ---- *)

Theorem C06_violation_unbounded_material :
  let hx := hasher_of_stream (map N.of_nat (seq 1 1038)) in
  let r := analyze_iterative hx (fun _ _ => 0) None 1 wall [] (empty_access 2 4) in
  LegalPos wall /\ r_events r = [EvProgress 1%N 2%N; EvBest 10920 [268462369%N]] /\ POS_INF <= 10920 /\ ~ Won wall.
Proof. exact wall_violation. Qed.
Print Assumptions C06_violation_unbounded_material.

(* ---- non-vacuity: K g6, R a1 v K h8, White to move: the depth-1 search reports mate (10900 >= POS_INF) with
        the line Ra8, and White does have a forced mate in one by the rules; the position is in SmallMen ---- *)

Example C06_example_mate_in_one :
  let hx := hasher_of_stream (map N.of_nat (seq 1 1038)) in
  let kr := mkState (mkBoard 0 0 0 1 0 (N.shiftl 1 46) 0 0 0 0 0 (N.shiftl 1 63))%N White false false false false None 0%N 1%N in
  let r := analyze_iterative hx (fun _ _ => 0) None 3 kr [] (empty_access 2 4) in
  legal_posb kr = true /\ men kr = 3%nat /\
  r_events r = [EvProgress 1%N 21%N; EvBest 10900 [268492804%N]] /\ r_outcome r = 0%N /\
  (POS_INF <=? 10900) = true /\
  win 1 (abs kr) = true /\ win 0 (abs kr) = false.
Proof.
  split; [lazy; reflexivity|]. split; [vm_compute; reflexivity|]. split; [vm_compute; reflexivity|].
  split; [vm_compute; reflexivity|]. split; [reflexivity|]. split; [lazy; reflexivity|reflexivity].
Qed.
