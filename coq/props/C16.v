(* Property C16: the opening book.
   "The book offers a position exactly the moves that were recorded, during the build, for positions with the
    same hash among the first ten plies of the book games; each recorded move is a legal move of the position
    it was recorded for; hence (up to hash collisions between positions with different legal moves) every
    move the book offers is legal in the position it is offered for, whatever history led to it."

   Model: model/Book.v (clean_tokens, parse_moves, game_entries, build, book_find / book_append, lookup).
   Definitions used in the statements (proofs/BookProofs.v):
     BInv hs b             every move stored in b under key h is a legal move of some legal position with hash h
     HashFaithful hs       legal positions with equal hash have equal legal-move lists: the named
                           no-collision residue (a hypothesis on the seed)
     HashSeparates hs      legal positions with equal hash have equal rule keys (HashProofs.rulekey, C08);
                           implies HashFaithful
     walk hs s toks es     the scan as a relation: each token is SAN-parsed and answered by the FIRST generated
                           legal move passing the query; es = the entries (hash of the position BEFORE the move,
                           move), in order
     recorded hs start games h m     some game g of games has game_entries g = Some es with (h, m) in es
     found b h             the moves stored under h ([] if none);  append_all es b = the fold of book_append *)
From WV Require Import Types Bits MoveGen Wf Text Notation Book.
From WV Require Import PlayProofs HashProofs BookProofs.
From Coq Require Import List.
Import ListNotations.
Import WV.Bits.
Open Scope N_scope.

(* ---- book algebra ---- *)

Theorem C16_book_find_append : forall b h m h',
  book_find (book_append b h m) h' = if h =? h' then Some (add_move (found b h) m) else book_find b h'.
Proof. exact book_find_append. Qed.
Print Assumptions C16_book_find_append.

Theorem C16_add_move_In : forall ms m x, In x (add_move ms m) <-> x = m \/ In x ms.
Proof. exact add_move_In. Qed.
Print Assumptions C16_add_move_In.

Theorem C16_found_append_all : forall es b h x,
  In x (found (append_all es b) h) <-> In (h, x) es \/ In x (found b h).
Proof. exact found_append_all_In. Qed.
Print Assumptions C16_found_append_all.

(* ---- the build keeps the invariant ---- *)

Theorem C16_build_inv : forall hs start games b b', LegalPos start -> BInv hs b ->
  build hs start games b = Some b' -> BInv hs b'.
Proof. exact build_inv. Qed.
Print Assumptions C16_build_inv.

(* ---- offered moves are legal, whatever history led to s ---- *)

Theorem C16_offers_legal : forall hs start games b s ms m, LegalPos start -> HashFaithful hs ->
  build hs start games [] = Some b -> LegalPos s -> lookup hs b s = Some ms -> In m ms ->
  In m (MoveGen.legal_moves s).
Proof. exact offers_legal. Qed.
Print Assumptions C16_offers_legal.

Theorem C16_separates_faithful : forall hs, HashSeparates hs -> HashFaithful hs.
Proof. exact separates_faithful. Qed.
Print Assumptions C16_separates_faithful.

(* ---- exactness: the book offers exactly the recorded moves of that hash ---- *)

Theorem C16_offers_recorded : forall hs start games b s, build hs start games [] = Some b ->
  (forall ms m, lookup hs b s = Some ms -> (In m ms <-> recorded hs start games (hash hs s) m)) /\
  (lookup hs b s = None <-> forall m, ~ recorded hs start games (hash hs s) m).
Proof. exact offers_recorded. Qed.
Print Assumptions C16_offers_recorded.

(* a recorded entry is the i-th entry, i < 10, of its game, recorded for a legal position s_i in which the
   move is legal *)
Theorem C16_recorded_indexed : forall hs start games h m, LegalPos start -> recorded hs start games h m ->
  exists g es i si, In g games /\ game_entries hs start g = Some es /\ (i < 10)%nat /\
    nth_error es i = Some (h, m) /\ LegalPos si /\ h = hash hs si /\ In m (MoveGen.legal_moves si).
Proof. exact recorded_indexed. Qed.
Print Assumptions C16_recorded_indexed.

Theorem C16_offers_indexed : forall hs start games b s ms m, LegalPos start ->
  build hs start games [] = Some b -> lookup hs b s = Some ms -> In m ms ->
  exists g es i si, In g games /\ game_entries hs start g = Some es /\ (i < 10)%nat /\
    nth_error es i = Some (hash hs si, m) /\ LegalPos si /\ hash hs si = hash hs s /\
    In m (MoveGen.legal_moves si).
Proof. exact offers_indexed. Qed.
Print Assumptions C16_offers_indexed.

(* ---- at most ten entries per game: those of the first ten plies, in order ---- *)

Theorem C16_first_ten : forall hs start toks es, game_entries hs start toks = Some es ->
  (length es <= 10)%nat /\ length es = Nat.min 10 (length (clean_tokens toks)) /\
  walk hs start (firstn 10 (clean_tokens toks)) es.
Proof. exact first_ten. Qed.
Print Assumptions C16_first_ten.

(* the i-th entry of a walk: position, token, query, the chosen move is legal and passes the query *)
Theorem C16_walk_nth : forall hs s toks es, walk hs s toks es -> LegalPos s ->
  forall i h m, nth_error es i = Some (h, m) ->
  exists si t q n, LegalPos si /\ h = hash hs si /\ nth_error toks i = Some t /\ san_parse t = Some q /\
                   find (fun ms => qtest q (fst ms)) (gen_legal si) = Some (m, n) /\
                   In m (MoveGen.legal_moves si) /\ qtest q m = true.
Proof. exact walk_nth. Qed.
Print Assumptions C16_walk_nth.

(* ---- non-vacuity ---- *)

(* "1. e4 e5 2. Nf3 Nc6 1/2-1/2 12.e4": results and move numbers dropped, "12.e4" cut after the dot *)
Example C16_example_clean :
  clean_tokens [[49; 46]; [101; 52]; [101; 53]; [50; 46]; [78; 102; 51]; [78; 99; 54]; t_draw; [49; 50; 46; 101; 52]]
  = [[101; 52]; [101; 53]; [78; 102; 51]; [78; 99; 54]; [101; 52]].
Proof. vm_compute. reflexivity. Qed.

(* a one-game book "1. e4": one entry, keyed by the hash of the start position, offered for it *)
Example C16_example_build :
  let hx := hasher_of_stream (map (fun n => (N.of_nat n * 11400714819323198485) mod two64) (seq 1 hasher_stream_len)) in
  let e4 := 302018753 in
  let b := [(hash hx start_state, [e4])] in
  LegalPos start_state /\
  build hx start_state [[[49; 46]; [101; 52]]] [] = Some b /\ lookup hx b start_state = Some [e4] /\
  lan_write e4 = [101; 50; 101; 52].
Proof. vm_compute. repeat split. Qed.
