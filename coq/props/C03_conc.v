(* Property C03, the clause "whatever the ... number of worker threads and their interleaving".

   Model: model/Conc.v.  analyze_recursive is written as a PROGRAM over its two shared effects
   (TranspositionTableAccess::find and ::insert); n such programs (one per lazy-SMP worker, as
   analyze_iterative builds them: worker i searches to depth - (i mod 2) + 1, only worker 0 gets the
   prioritised move, own jitter stream each) are served by run_workers in the order a SCHEDULE dictates:
   entry c serves the (c mod m)-th of the m unfinished workers; when the schedule is used up the remaining
   workers finish one after the other.  Every interleaving of the workers' table operations is a schedule.
   The real code is run under the same schedules through the yield-point hook and compared event by event
   and table entry by table entry (stream C03 "msearch").

     sat R G Q p  = whatever `find` answers, provided every entry it returns under key h satisfies R h:
                    every entry p inserts under key h satisfies G h, and p's result satisfies Q
     TabR R tt    = tt is well formed and every entry found in it satisfies R
     G_leg / R_leg = "a legal move of a legal position stored under that position's hash" as guarantee /
                    "a legal move of every legal position with that hash" as rely (= TInv entry by entry) *)
From Coq Require Import NArith ZArith List Bool.
From WV Require Import Types Bits Attacks Board MoveEnc MoveGen Text Table Eval Search Conc Wf.
From WV Require Import SearchBase SearchProofs ConcSeq ConcRG ConcLegal ConcIter.
Import ListNotations.
Open Scope N_scope.

(* the rely/guarantee rule: ANY schedule, ANY number of workers *)
Theorem C03_conc_rely_guarantee : forall (A : Type) (R G : N -> entry -> Prop) (Q : A -> Prop),
  (forall h e, G h e -> R h e) ->
  forall sched (ws : list (prog A)) tt, Forall (sat R G Q) ws -> TabR R tt ->
  let '(rs, tt', _) := run_workers sched ws tt in
  Forall Q rs /\ TabR R tt' /\ length rs = length ws.
Proof. intros A R G Q H. exact (run_workers_sat R G Q H). Qed.
Print Assumptions C03_conc_rely_guarantee.

(* whatever the table answers, a worker only ever stores legal moves of legal positions *)
Theorem C03_conc_worker_emits_legal : forall hs history jit fuel s md cd ce a b prio st,
  LegalPos s -> (forall pm, prio = Some pm -> In pm (MoveGen.legal_moves s)) ->
  sat Rtrue (G_leg hs) (fun _ : pres => True) (analyzeP hs history jit fuel s md cd ce a b prio st).
Proof. exact analyzeP_emits. Qed.
Print Assumptions C03_conc_worker_emits_legal.

(* every line reported by the n-worker search is non-empty and legal, under every schedule, and the
   table handed back satisfies the invariant again (so the statement composes over reused memory) *)
Theorem C03_conc_events_legal : forall hs jit_of workers iters s history tt sched,
  HashFaithful hs -> LegalPos s -> tt_ok tt -> TInv hs tt ->
  let r := analyze_iterativeM hs jit_of workers iters s history tt sched in
  (forall ev line, In (EvBest ev line) (m_events r) -> line <> [] /\ legal_line s line) /\
  tt_ok (m_tt r) /\ TInv hs (m_tt r).
Proof. exact eventsM_legal. Qed.
Print Assumptions C03_conc_events_legal.

(* one worker of the concurrent layer IS the one-worker model (whose events, node counts and node traces
   are compared exactly with the code): same value, same counters, same table *)
Theorem C03_conc_one_worker_call : forall hs history jit fuel ns md cd ce a b prio w, w_flag w = false ->
  agrees (analyze hs history jit None fuel ns md cd ce a b prio w)
         (run_seq (analyzeP hs history jit fuel ns md cd ce a b prio (lst w)) (w_tt w)).
Proof. intros hs history jit fuel. exact (analyzeP_seq hs history jit fuel). Qed.
Print Assumptions C03_conc_one_worker_call.

Theorem C03_conc_one_worker_run : forall hs jit_of iters s history tt sched,
  let r := analyze_iterative hs (fun d => jit_of d 0) None iters s history tt in
  let m := analyze_iterativeM hs jit_of 1 iters s history tt sched in
  m_events m = r_events r /\ m_tt m = r_tt r /\ m_history m = r_history r /\ m_outcome m = r_outcome r.
Proof. exact analyze_iterativeM_single. Qed.
Print Assumptions C03_conc_one_worker_run.

(* non-vacuity.  Kings e1/e8, White to move, three workers, three iterations from an empty table, under a
   schedule that alternates between the workers and under the empty schedule (workers one after the other):
   lines are reported and they are legal by computation. *)
Example C03_conc_example :
  let hx := hasher_of_stream (map N.of_nat (seq 1 1038)) in
  let kk := mkState (mkBoard 0 0 0 0 0 16 0 0 0 0 0 (N.shiftl 16 56)) White false false false false None 0 1 in
  let r1 := analyze_iterativeM hx (fun _ _ _ => 0%Z) 3 3 kk [] (empty_access 2 4) [1; 2; 0; 1; 1; 2; 0; 0; 2; 1; 5; 7; 3; 2; 1; 0; 4] in
  let r2 := analyze_iterativeM hx (fun _ _ _ => 0%Z) 3 3 kk [] (empty_access 2 4) [] in
  legal_posb kk = true /\ m_outcome r1 = 0 /\ m_outcome r2 = 0 /\
  forallb (fun e => match e with EvBest _ line => legal_lineb kk line && negb (Nat.eqb (length line) 0) | _ => true end)
          (m_events r1 ++ m_events r2) = true /\
  (3 <=? length (m_events r1))%nat = true.
Proof. vm_compute. repeat split. Qed.
