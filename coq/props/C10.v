(* Property C10: for every position and colour, the reported attack set is exactly the union of the
   attack sets of its pieces on the current board minus its own squares, the pawn-only set likewise,
   a side is in check exactly when its king stands on a square attacked by the opponent, and the
   answers do not depend on the order of the queries or on cloning (the OnceCell cache is pure).
   Reference: Rules.attacks_from / attacked / king_attacked (coordinate geometry, no bitboards). *)
From WV Require Import Types Bits Attacks Board Rules Abs Wf BoardProofs.
Open Scope N_scope.

(* with disjoint slots the first-match scan of Board::piece_at is the unique occupant *)
Theorem C10_piece_at : forall b s c k, WfBoard b -> s < 64 ->
  (piece_at b s = Some (c, k) <-> k <> PNone /\ test (pocc b c k) s = true).
Proof. exact (fun b s c k Hwf _ => piece_at_spec b s c k Hwf). Qed.
Print Assumptions C10_piece_at.

Theorem C10_piece_at_none : forall b s, piece_at b s = None <-> test (occupancy b) s = false.
Proof. exact piece_at_none_occ. Qed.
Print Assumptions C10_piece_at_none.

Theorem C10_attacks : forall b c t, WfBoard b -> t < 64 ->
  (test (colored_attacks b c) t = true <->
     (exists f k, f < 64 /\ piece_at b f = Some (c, k) /\
                  Rules.attacks_from (pos_of_board b) c k f t = true)
     /\ Rules.colour_at (pos_of_board b) t c = false).
Proof. exact colored_attacks_spec. Qed.
Print Assumptions C10_attacks.

Theorem C10_pawn_attacks : forall b c t, WfBoard b -> t < 64 ->
  (test (colored_pawn_attacks b c) t = true <->
     (exists f, f < 64 /\ piece_at b f = Some (c, Pawn) /\
                Rules.attacks_from (pos_of_board b) c Pawn f t = true)
     /\ Rules.colour_at (pos_of_board b) t c = false).
Proof. exact colored_pawn_attacks_spec. Qed.
Print Assumptions C10_pawn_attacks.

(* the form used by the move-generation proofs *)
Theorem C10_attacked : forall b c t, WfBoard b -> t < 64 ->
  (Rules.attacked (pos_of_board b) c t = true <->
   (exists f k, f < 64 /\ piece_at b f = Some (c, k) /\
                Rules.attacks_from (pos_of_board b) c k f t = true)).
Proof. exact (fun b c t _ _ => attacked_spec b c t). Qed.
Print Assumptions C10_attacked.

(* one piece: table lookup on the current occupancy = the rules' attack relation (sliders included) *)
Theorem C10_piece_attacks : forall b c k f t, f < 64 -> t < 64 ->
  (test (piece_attacks c k f (occupancy b)) t = true <->
   Rules.attacks_from (pos_of_board b) c k f t = true).
Proof. exact piece_attacks_spec. Qed.
Print Assumptions C10_piece_attacks.

Theorem C10_is_check : forall b c, WfBoard b ->
  (board_is_check b c = true <-> Rules.king_attacked (pos_of_board b) c = true).
Proof. exact is_check_spec. Qed.
Print Assumptions C10_is_check.

(* no bit outside the board *)
Theorem C10_attacks_lt : forall b c, WfBoard b -> colored_attacks b c < 2 ^ 64.
Proof. exact colored_attacks_lt. Qed.
Print Assumptions C10_attacks_lt.

Theorem C10_pawn_attacks_lt : forall b c, WfBoard b -> colored_pawn_attacks b c < 2 ^ 64.
Proof. exact colored_pawn_attacks_lt. Qed.
Print Assumptions C10_pawn_attacks_lt.

(* the OnceCell cache is pure: whatever the sequence of queries, clones and switches to the clone
   (cop, cstep, run_queries, pure_answer are defined in proofs/BoardProofs.v on top of Board.attack_map;
   is_check goes through attack_map of the opposite colour), every answer equals the pure function of b *)
Theorem C10_cache : forall b ops,
  run_queries ops (fresh b) (fresh b) = map (pure_answer b) ops.
Proof. exact run_queries_pure. Qed.
Print Assumptions C10_cache.

(* same from any pair of objects whose cells are empty or hold attack_map_pure of the board *)
Theorem C10_cache_gen : forall b ops cur saved, cache_ok b cur -> cache_ok b saved ->
  run_queries ops cur saved = map (pure_answer b) ops.
Proof. exact run_queries_pure_gen. Qed.
Print Assumptions C10_cache_gen.

(* the attack predicates of the rules only read the placement: statements about states transfer *)
Theorem C10_abs_transfer : forall s,
  Rules.attacks_from (abs s) = Rules.attacks_from (pos_of_board (st_board s)) /\
  Rules.attacked (abs s) = Rules.attacked (pos_of_board (st_board s)) /\
  Rules.king_attacked (abs s) = Rules.king_attacked (pos_of_board (st_board s)) /\
  Rules.colour_at (abs s) = Rules.colour_at (pos_of_board (st_board s)) /\
  Rules.empty_at (abs s) = Rules.empty_at (pos_of_board (st_board s)) /\
  Rules.has (abs s) = Rules.has (pos_of_board (st_board s)).
Proof. exact abs_transfer. Qed.
Print Assumptions C10_abs_transfer.

(* non-vacuity (one vm_compute: the magic tables are rebuilt once).
   Board 1: White Ke1 Re2 Bc1 Pd2 Pa7, Black Kg8 Re8 Qa5 Nb3 Pb7 Pg7 Ph7.  The rook e2 is pinned by the
   rook e8 (e2 is attacked, e1 behind it is not), the queen a5 is blocked by the pawn d2 on the a5-e1
   diagonal; removing either blocker gives check.  The cache run mixes queries, a clone and a switch.
   Board 2 (irregular, allowed by WfBoard): two white kings e1 e3, a white pawn on a1, a black pawn
   f4 and no black king: White is in check (pawn f4 attacks e3), Black is not. *)
Example C10_example :
  let b := mkBoard 281474976712704 0 4 4096 0 16
                   54606145481867264 131072 0 1152921504606846976 4294967296 4611686018427387904 in
  let b2 := mkBoard 1 0 0 0 0 1048592 536870912 0 0 0 0 0 in
  wf_boardb b = true /\ piece_at b 12 = Some (White, Rook) /\ piece_at b 13 = None /\
  colored_attacks b Black = 12625269801151174917 /\ colored_pawn_attacks b Black = 251788162760704 /\
  colored_attacks b White = 1301557953485464104 /\ colored_pawn_attacks b White = 144115188077166592 /\
  board_is_check b White = false /\ Rules.king_attacked (pos_of_board b) White = false /\
  board_is_check (pset_bit b White Rook 12 false) White = true /\
  Rules.king_attacked (pos_of_board (pset_bit b White Rook 12 false)) White = true /\
  board_is_check (pset_bit b White Pawn 11 false) White = true /\
  Rules.king_attacked (pos_of_board (pset_bit b White Pawn 11 false)) White = true /\
  map (test (colored_attacks b Black)) [4; 12; 11; 2] = [false; true; true; true] /\
  map (Rules.attacked (pos_of_board b) Black) [4; 12; 11; 2] = [false; true; true; true] /\
  Rules.attacks_from (pos_of_board b) Black Rook 60 12 = true /\
  Rules.attacks_from (pos_of_board b) Black Rook 60 4 = false /\
  Rules.attacks_from (pos_of_board b) Black Queen 32 11 = true /\
  Rules.attacks_from (pos_of_board b) Black Queen 32 4 = false /\
  run_queries [QIsCheck White; QAttacks Black; QClone; QPawnAttacks Black; QSwitchToClone;
               QAttacks Black; QIsCheck Black; QPawnAttacks White] (fresh b) (fresh b) =
    [AnsBool false; AnsBB 12625269801151174917; AnsUnit; AnsBB 251788162760704; AnsUnit;
     AnsBB 12625269801151174917; AnsBool false; AnsBB 144115188077166592] /\
  wf_boardb b2 = true /\ piece_at b2 20 = Some (White, King) /\ piece_at b2 0 = Some (White, Pawn) /\
  colored_attacks b2 White = 942160424 /\ colored_pawn_attacks b2 White = 512 /\
  colored_attacks b2 Black = 5242880 /\
  board_is_check b2 White = true /\ Rules.king_attacked (pos_of_board b2) White = true /\
  board_is_check b2 Black = false /\ Rules.king_attacked (pos_of_board b2) Black = false.
Proof. vm_compute. repeat split; reflexivity. Qed.
