(* Property C15: the transposition table.
   "A lookup by key returns either nothing or the most recent entry stored under exactly that key -
    never an entry stored under another key - and an entry stays retrievable until displaced by later
    insertions into its full bucket.  The reported entry count equals the number of occupied slots
    and never exceeds capacity.  These hold when many threads insert and look up concurrently."

   Model: model/Table.v.  Definitions used in the statements (proofs/TableProofs.v):
     reach nt nb ops      = fst (acc_run (empty_access nt nb) ops)     the table after running ops
     keys b               the keys stored in bucket b, in slot order
     acc_bucket a k       the bucket key k is routed to (sub-table k mod nt, bucket k mod nb)
     victim_key a k' e'   Some k  iff inserting (k',e') into a falls through the scan of its bucket
                          (a Replaced write) and overwrites the slot holding key k; None otherwise
     occupied a           number of Some slots over all buckets of all sub-tables
     sumN f l, occ b      sum of f over l (in N); number of Some slots of bucket b
     Interleave ts ops    ops is an interleaving of the per-thread operation lists ts *)
From Coq Require Import NArith ZArith List Lia.
From WV Require Import Table TableProofs.
Import ListNotations.
Open Scope N_scope.

(* The invariant of every reachable table: nt sub-tables of nb buckets of bucket_size slots; in every
   bucket the occupied slots form a prefix, the stored keys are pairwise distinct, and a key stored in
   sub-table i, bucket j satisfies k mod nt = i and k mod nb = j. *)
Theorem C15_bucket_inv : forall nt nb ops,
  (0 < nt)%nat -> (0 < nb)%nat ->
  length (reach nt nb ops) = nt /\
  forall i, (i < nt)%nat ->
    let t := nth i (reach nt nb ops) (mkTable [] 0) in
    length (t_buckets t) = nb /\
    forall j, (j < nb)%nat ->
      let b := nth j (t_buckets t) [] in
      length b = N.to_nat bucket_size /\
      exists (es : list (N * entry)) (n : nat),
        b = map Some es ++ repeat None n /\
        NoDup (map fst es) /\
        forall k x, In (k, x) es ->
          N.to_nat (k mod N.of_nat nt) = i /\ N.to_nat (k mod N.of_nat nb) = j.
Proof. exact bucket_inv_reach. Qed.
Print Assumptions C15_bucket_inv.

(* A lookup returns nothing or the most recent entry stored under exactly that key
   (spec_step conses the inserts, so spec_find on the folded list is the latest write to k). *)
Theorem C15_find_sound : forall nt nb ops k e,
  (0 < nt)%nat -> (0 < nb)%nat ->
  acc_find (reach nt nb ops) k = Some e -> spec_find (fold_left spec_step ops []) k = Some e.
Proof. exact find_sound_reach. Qed.
Print Assumptions C15_find_sound.

(* The same for every lookup answered in the course of a run: the output recorded at the position
   of a TFind k is the lookup in the table reached by the preceding operations, and it is None or
   the latest write to k among the preceding operations. *)
Theorem C15_run_refines : forall nt nb ops,
  (0 < nt)%nat -> (0 < nb)%nat ->
  length (snd (acc_run (empty_access nt nb) ops)) = length ops /\
  forall ops1 k rest, ops = ops1 ++ TFind k :: rest ->
    exists r, nth (length ops1) (snd (acc_run (empty_access nt nb) ops)) OInsert = OFind r /\
              r = acc_find (reach nt nb ops1) k /\
              (r = None \/
               exists e, r = Some e /\ spec_find (fold_left spec_step ops1 []) k = Some e).
Proof. exact run_refines_reach. Qed.
Print Assumptions C15_run_refines.

(* An entry is retrievable right after its insertion, and stays retrievable (unchanged) as long as
   the key is not written again and no later insertion displaces it (victim_key ... = Some k). *)
Theorem C15_retained : forall nt nb ops k e ops2,
  (0 < nt)%nat -> (0 < nb)%nat ->
  acc_find (reach nt nb (ops ++ [TInsert k e])) k = Some e /\
  ((forall e', ~ In (TInsert k e') ops2) ->
   (forall p k' e' s, ops2 = p ++ TInsert k' e' :: s ->
        victim_key (reach nt nb (ops ++ TInsert k e :: p)) k' e' <> Some k) ->
   acc_find (reach nt nb (ops ++ TInsert k e :: ops2)) k = Some e).
Proof. exact retained_reach. Qed.
Print Assumptions C15_retained.

(* What displacement is: `victim_key a k' e' = Some k` happens only for an insertion of another key
   routed to the very bucket of k, when that bucket is full of keys other than k' (the in-order scan
   falls through: a Replaced write); k is then gone.  Any other insertion of another key leaves the
   lookup of k unchanged. *)
Theorem C15_displacement : forall nt nb ops k k' e',
  (0 < nt)%nat -> (0 < nb)%nat ->
  let a := reach nt nb ops in
  (victim_key a k' e' = Some k ->
     k' <> k /\
     N.to_nat (k mod N.of_nat nt) = N.to_nat (k' mod N.of_nat nt) /\
     N.to_nat (k mod N.of_nat nb) = N.to_nat (k' mod N.of_nat nb) /\
     acc_bucket a k = acc_bucket a k' /\
     bucket_scan (acc_bucket a k') k' e' = None /\
     Forall (fun s => exists h x, s = Some (h, x) /\ h <> k') (acc_bucket a k') /\
     acc_find (acc_insert a k' e') k = None) /\
  (k' <> k -> victim_key a k' e' <> Some k ->
     acc_find (acc_insert a k' e') k = acc_find a k).
Proof. exact displacement_reach. Qed.
Print Assumptions C15_displacement.

(* The reported count is the number of occupied slots and never exceeds the capacity. *)
Theorem C15_count : forall nt nb ops,
  (0 < nt)%nat -> (0 < nb)%nat ->
  acc_entries (reach nt nb ops) = occupied (reach nt nb ops) /\
  acc_entries (reach nt nb ops) <= acc_max_entries (reach nt nb ops) /\
  acc_max_entries (reach nt nb ops) = N.of_nat nt * N.of_nat nb * bucket_size.
Proof. exact count_reach. Qed.
Print Assumptions C15_count.

(* entries() of the access layer takes the sub-table locks one after the other, so under concurrent
   insertion it sums per-sub-table counts read at different times (sub-table i read after the
   operations snaps[i]).  Each summand is the exact occupied count of its sub-table at that time, and
   the sum never exceeds the capacity. *)
Theorem C15_count_per_table : forall nt nb ops i,
  (0 < nt)%nat -> (0 < nb)%nat -> (i < nt)%nat ->
  let t := nth i (reach nt nb ops) (mkTable [] 0) in
  table_entries t = sumN occ (t_buckets t) /\
  table_entries t <= table_max_entries t /\
  table_max_entries t = N.of_nat nb * bucket_size.
Proof. exact count_table_reach. Qed.
Print Assumptions C15_count_per_table.

Theorem C15_count_snapshots : forall nt nb (snaps : list (list top)),
  (0 < nt)%nat -> (0 < nb)%nat -> length snaps = nt ->
  sumN (fun p => table_entries (nth (fst p) (reach nt nb (snd p)) (mkTable [] 0)))
       (combine (seq 0 nt) snaps)
  <= N.of_nat nt * N.of_nat nb * bucket_size.
Proof. exact count_snapshots_reach. Qed.
Print Assumptions C15_count_snapshots.

(* Concurrency.  Each insert/find holds its sub-table's lock for its whole duration, so a concurrent
   execution is an interleaving of the threads' operation lists.  An interleaving is an operation
   list, so everything above holds for it. *)
Theorem C15_interleavings : forall nt nb threads ops,
  (0 < nt)%nat -> (0 < nb)%nat -> Interleave threads ops ->
  (forall ops1 k rest, ops = ops1 ++ TFind k :: rest ->
     exists r, nth (length ops1) (snd (acc_run (empty_access nt nb) ops)) OInsert = OFind r /\
               (r = None \/
                exists e, r = Some e /\ spec_find (fold_left spec_step ops1 []) k = Some e)) /\
  (forall k e, acc_find (reach nt nb ops) k = Some e ->
               spec_find (fold_left spec_step ops []) k = Some e) /\
  (forall ops1 k e ops2, ops = ops1 ++ TInsert k e :: ops2 ->
     (forall e', ~ In (TInsert k e') ops2) ->
     (forall p k' e' s, ops2 = p ++ TInsert k' e' :: s ->
        victim_key (reach nt nb (ops1 ++ TInsert k e :: p)) k' e' <> Some k) ->
     acc_find (reach nt nb ops) k = Some e) /\
  acc_entries (reach nt nb ops) = occupied (reach nt nb ops) /\
  acc_entries (reach nt nb ops) <= acc_max_entries (reach nt nb ops) /\
  acc_max_entries (reach nt nb ops) = N.of_nat nt * N.of_nat nb * bucket_size.
Proof. exact interleavings_reach. Qed.
Print Assumptions C15_interleavings.

(* Interleave is the intended relation: an interleaving executes exactly the threads' operations,
   and the sequential execution is one of them. *)
Theorem C15_interleave_sane : forall threads,
  Interleave threads (concat threads) /\
  forall ops, Interleave threads ops -> Permutation.Permutation ops (concat threads).
Proof. exact interleave_sane. Qed.
Print Assumptions C15_interleave_sane.

(* Non-vacuity (ex_entry m = mkEntry Exact m 1 1 0, an entry whose packed move is m):
   1 sub-table x 1 bucket, nine distinct keys 10,20,..,90.  The ninth insert falls through the full
   bucket and overwrites slot (90 xor 3) mod 8 = 1, which held key 20; the count stays 8. *)
Example C15_ex_replaced :
  let ops8 := map (fun i => TInsert (10 * i) (ex_entry i)) [1; 2; 3; 4; 5; 6; 7; 8] in
  let ops9 := ops8 ++ [TInsert 90 (ex_entry 3)] in
  victim_key (reach 1 1 ops8) 90 (ex_entry 3) = Some 20 /\
  map (acc_find (reach 1 1 ops8)) [10; 20; 30; 90] =
    [Some (ex_entry 1); Some (ex_entry 2); Some (ex_entry 3); None] /\
  map (acc_find (reach 1 1 ops9)) [10; 20; 30; 40; 50; 60; 70; 80; 90] =
    [Some (ex_entry 1); None; Some (ex_entry 3); Some (ex_entry 4); Some (ex_entry 5);
     Some (ex_entry 6); Some (ex_entry 7); Some (ex_entry 8); Some (ex_entry 3)] /\
  acc_entries (reach 1 1 ops8) = 8 /\
  acc_entries (reach 1 1 ops9) = 8 /\ occupied (reach 1 1 ops9) = 8 /\
  acc_max_entries (reach 1 1 ops9) = 8.
Proof. vm_compute. repeat split. Qed.

(* two threads on 2 sub-tables x 3 buckets: thread A writes key 7 twice while thread B reads *)
Example C15_ex_interleaving :
  let tA := [TInsert 7 (ex_entry 1); TInsert 7 (ex_entry 2)] in
  let tB := [TFind 7; TFind 7; TFind 8] in
  let ops := [TFind 7; TInsert 7 (ex_entry 1); TFind 7; TInsert 7 (ex_entry 2); TFind 8] in
  Interleave [tA; tB] ops /\
  snd (acc_run (empty_access 2 3) ops) =
    [OFind None; OInsert; OFind (Some (ex_entry 1)); OInsert; OFind None] /\
  acc_find (reach 2 3 ops) 7 = Some (ex_entry 2) /\ acc_entries (reach 2 3 ops) = 1.
Proof. split; [exact ex_interleave | vm_compute; repeat split]. Qed.
