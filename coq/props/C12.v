(* Property C12: notation.  For every legal move of every legal position, every admissible standard
   algebraic spelling produced by the independent writer spec/SanSpec.v (minimal or fuller
   disambiguation, capture mark, "=Q" or "Q" promotion suffix, optional '+' / '#', O-O / O-O-O) is parsed
   by the SAN scanner (Notation.san_parse, mirror of notation.rs) to a query that, used as the code uses
   it (filter the generated legal moves with MoveQuery::test), selects that move and no other; the fully
   qualified spelling of a pseudo-legal but illegal move selects nothing.  The coordinate notation written
   for a generated move is origin, destination and lower-case promotion letter, and the UCI token parser
   followed by State::by_performing_moves selects the same move again.

   C12_scanner is the pure text part: the right-to-left scanner inverts the writer on every field record
   (piece letter, origin file hint, origin rank hint, capture mark, destination, promotion with or
   without '=', check mark). *)
From WV Require Import Types Bits Attacks Board MoveEnc MoveGen Text Notation Rules Abs Wf Encode SanSpec.
From WV Require Import GenLegal GenResolve SanScan SanProofs.
Import WV.Bits.
Open Scope N_scope.

Theorem C12_scanner : forall (k : piece) (uf ur : option N) (cap : bool) (t : N)
                             (pr : option (piece * bool)) (ck : text),
  k <> PNone ->
  match uf with Some f => f < 8 | None => True end ->
  match ur with Some r => r < 8 | None => True end ->
  t < 64 ->
  match pr with Some (p, _) => is_promo_kind p = true | None => True end ->
  In ck [[]; [43]; [35]] ->
  san_parse (kind_letter k
             ++ match uf with Some f => [97 + f] | None => [] end
             ++ match ur with Some r => [49 + r] | None => [] end
             ++ (if cap then [120] else [])
             ++ sq_text t
             ++ match pr with Some (p, eq) => (if eq then [61] else []) ++ [promo_letter p] | None => [] end
             ++ ck)
  = Some (mkQuery (Some k) ur uf (Some (t / 8)) (Some (t mod 8)) (option_map fst pr) None
                  (if cap then Some true else None)).
Proof. exact san_scan. Qed.
Print Assumptions C12_scanner.

(* castling is recognised by its prefix before anything else *)
Theorem C12_scanner_castle : forall c : text,
  san_parse ([79; 45; 79; 45; 79] ++ c) = Some (q_castling false) /\
  (starts_with [45; 79] c = false -> san_parse ([79; 45; 79] ++ c) = Some (q_castling true)).
Proof. exact (fun c => conj (san_castle_q c) (san_castle_k c)). Qed.
Print Assumptions C12_scanner_castle.

Theorem C12_san_unique : forall s mv sp, LegalPos s -> In mv (Rules.legal_moves (abs s)) ->
  In sp (SanSpec.spellings (abs s) mv) ->
  exists q, san_parse sp = Some q /\
            filter (fun m => qtest q m) (MoveGen.legal_moves s) = [enc_move s mv].
Proof. exact san_unique. Qed.
Print Assumptions C12_san_unique.

Theorem C12_san_illegal : forall s mv, LegalPos s -> In mv (SanSpec.illegal_pseudo_moves (abs s)) ->
  exists q, san_parse (SanSpec.long_form (abs s) mv) = Some q /\
            filter (fun m => qtest q m) (MoveGen.legal_moves s) = [].
Proof. exact san_illegal. Qed.
Print Assumptions C12_san_illegal.

Theorem C12_lan : forall s m, LegalPos s -> In m (MoveGen.legal_moves s) ->
  lan_write m = sq_text (m_origin m) ++ sq_text (m_dest m)
                ++ match m_promotion m with
                   | Some Queen => [113] | Some Rook => [114] | Some Bishop => [98] | Some Knight => [110]
                   | _ => []
                   end /\
  exists q s', uci_move_query (lan_write m) = Ok q /\ resolve s [q] = ROk s' /\ In (m, s') (gen_legal s).
Proof. exact lan_roundtrip. Qed.
Print Assumptions C12_lan.

(* non-vacuity.  White Ke1 Rh1 Nb1 Nf3 Be2 Pa7, Black Kg8 Re8, White to move, White may castle short.
   Both knights reach d2 (Nbd2 / N1d2 / Nb1d2 are the admissible spellings of b1-d2, "Nd2" is not);
   O-O is legal; a7-a8 promotes; the bishop e2 is pinned, so its six moves are pseudo-legal but illegal.
   The rules side is evaluated by lazy (see C01), the model side by vm_compute. *)
Example C12_example_rules :
  let s := mkState (mkBoard 281474976710656 2097154 4096 128 0 16 0 0 0 1152921504606846976 0 4611686018427387904)
                   White true false false false None 3 20 in
  legal_posb s = true /\
  Rules.legal_moves (abs s) =
    [mkMove 1 11 None; mkMove 1 16 None; mkMove 1 18 None; mkMove 4 3 None; mkMove 4 5 None; mkMove 4 6 None;
     mkMove 4 11 None; mkMove 4 13 None; mkMove 7 5 None; mkMove 7 6 None; mkMove 7 15 None; mkMove 7 23 None;
     mkMove 7 31 None; mkMove 7 39 None; mkMove 7 47 None; mkMove 7 55 None; mkMove 7 63 None;
     mkMove 21 6 None; mkMove 21 11 None; mkMove 21 15 None; mkMove 21 27 None; mkMove 21 31 None;
     mkMove 21 36 None; mkMove 21 38 None; mkMove 48 56 (Some Queen); mkMove 48 56 (Some Rook);
     mkMove 48 56 (Some Bishop); mkMove 48 56 (Some Knight)] /\
  spellings (abs s) (mkMove 1 11 None) = [[78; 98; 100; 50]; [78; 49; 100; 50]; [78; 98; 49; 100; 50]] /\
  spellings (abs s) (mkMove 4 6 None) = [[79; 45; 79]] /\
  spellings (abs s) (mkMove 48 56 (Some Knight)) = [[97; 56; 61; 78]; [97; 56; 78]] /\
  illegal_pseudo_moves (abs s) =
    [mkMove 12 3 None; mkMove 12 5 None; mkMove 12 19 None; mkMove 12 26 None; mkMove 12 33 None;
     mkMove 12 40 None] /\
  long_form (abs s) (mkMove 12 3 None) = [66; 101; 50; 100; 49].
Proof. lazy. repeat split. Qed.

Example C12_example_model :
  let s := mkState (mkBoard 281474976710656 2097154 4096 128 0 16 0 0 0 1152921504606846976 0 4611686018427387904)
                   White true false false false None 3 20 in
  let pick sp := match san_parse sp with
                 | Some q => Some (filter (fun m => qtest q m) (MoveGen.legal_moves s))
                 | None => None end in
  pick [78; 98; 100; 50] (* Nbd2 *) = Some [enc_move s (mkMove 1 11 None)] /\
  pick [78; 49; 100; 50] (* N1d2 *) = Some [enc_move s (mkMove 1 11 None)] /\
  pick [78; 98; 49; 100; 50] (* Nb1d2 *) = Some [enc_move s (mkMove 1 11 None)] /\
  pick [78; 100; 50] (* Nd2, not a spelling *) =
    Some [enc_move s (mkMove 1 11 None); enc_move s (mkMove 21 11 None)] /\
  pick [79; 45; 79] (* O-O *) = Some [enc_move s (mkMove 4 6 None)] /\
  pick [97; 56; 61; 78] (* a8=N *) = Some [enc_move s (mkMove 48 56 (Some Knight))] /\
  pick [97; 56; 78] (* a8N *) = Some [enc_move s (mkMove 48 56 (Some Knight))] /\
  pick [66; 101; 50; 100; 49] (* Be2d1, pinned *) = Some [] /\
  lan_write (enc_move s (mkMove 4 6 None)) = [101; 49; 103; 49] (* e1g1 *) /\
  lan_write (enc_move s (mkMove 48 56 (Some Knight))) = [97; 55; 97; 56; 110] (* a7a8n *) /\
  uci_move_query [97; 55; 97; 56; 110] =
    Ok (mkQuery None (Some 6) (Some 0) (Some 7) (Some 0) (Some Knight) None None).
Proof. vm_compute. repeat split. Qed.
