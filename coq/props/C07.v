(* Property C07: the UCI protocol loop.
   "isready is always answered readyok, uci by id/uciok, also while a search runs; the loop always ends with
    the final collection and exit status 0; `position` tracks exactly the position reached by the given legal
    moves (startpos or FEN base) and rejects malformed or illegal move lists with a diagnostic, staying at
    the base position; every go is answered by exactly one bestmove, for the position the go was given in."

   Model: model/Uci.v (Uci.step / Uci.run / collect; header comment: a running search and its artifact are
   abstract).  In the output stream of the model
     OSearchStarted p a    a search was spawned on position p (a: it received an artifact)
     OCollected p          the running search of p was cancelled and joined; by the search contract (C03/C04:
                           a collected search of a position with a legal move has printed exactly one
                           bestmove, legal in that position, by the time it is collected) its bestmove is on
                           stdout by now
     OBookMove p           go answered on the spot from the book, for position p
   so "one bestmove per go" is: the events OBookMove / OSearchStarted (asks) and OBookMove / OCollected
   (answers) are well bracketed.  Definitions used in the statements (proofs/UciProofs.v):
     answers o / asks o / total f outs       the counts
     silent o            o is none of OBookMove / OSearchStarted / OCollected
     quiet o             silent and not OExit
     tracked r outs r'   the bracketing automaton over the output list: r, r' = position of the outstanding
                         search before / after (None: no search outstanding); OSearchStarted p requires
                         None and gives Some p; OCollected p requires Some p (the SAME p) and gives None;
                         OBookMove requires None; silent outputs change nothing
     rpos s              the position of the running search of session s, if any
     pos_base start pp   the base position named by the tokens before "moves" (startpos / fen ...)
     coord_text mv       the coordinate text of a move: squares and promotion letter; lan_write m =
                         coord_text (absm m) (what the engine prints)
     query_of mv         the coordinate query of a rules-level move (proofs/GenResolve.v)
     plays s mvs s'      each move of mvs is Rules-legal in turn, played by apply_move (proofs/PlayProofs.v)
   All session statements hold for arbitrary start position, book predicate, and ARBITRARY command texts. *)
From WV Require Import Types Bits Attacks Board MoveEnc MoveGen Rules Abs Wf Encode Text Notation Uci.
From WV Require Import PlayProofs GenResolve UciProofs.
From Coq Require Import List.
Import ListNotations.
Import WV.Bits.
Open Scope N_scope.

(* ---- protocol ---- *)

(* in every session state, a search running or not *)
Theorem C07_isready : forall start in_book s line (args : list text),
  tokens line = t_isready :: args -> Uci.step start in_book s line = (s, [OReadyOk], true).
Proof. exact step_isready. Qed.
Print Assumptions C07_isready.

Theorem C07_uci : forall start in_book s line (args : list text),
  tokens line = t_uci :: args -> Uci.step start in_book s line = (s, [OIdName; OIdAuthor; OUciOk], true).
Proof. exact step_uci. Qed.
Print Assumptions C07_uci.

(* the loop ends (by quit or by end of input) with exit 0 as its last action, exactly once, with no search
   left running *)
Theorem C07_exit : forall start in_book lines s,
  exists pre, snd (Uci.run start in_book s lines) = pre ++ [OExit] /\ forallb not_exit pre = true /\
              s_running (fst (Uci.run start in_book s lines)) = None.
Proof. exact run_exit. Qed.
Print Assumptions C07_exit.

Theorem C07_exit_last : forall start in_book lines s d, last (snd (Uci.run start in_book s lines)) d = OExit.
Proof. exact run_last_exit. Qed.
Print Assumptions C07_exit_last.

(* only quit ends the loop before the end of input; after quit nothing is read *)
Theorem C07_only_quit_stops : forall start in_book s line,
  snd (Uci.step start in_book s line) = false -> is_quit line.
Proof. exact step_stops. Qed.
Print Assumptions C07_only_quit_stops.

(* ---- position tracking ---- *)

(* State::by_performing_moves over several queries is iterated single-step resolution, and the coordinate
   queries of a legal line resolve to the end of the line *)
Theorem C07_resolve_line : forall s mvs s', LegalPos s -> plays s mvs s' ->
  resolve s (map query_of mvs) = ROk s' /\ LegalPos s'.
Proof. exact resolve_line. Qed.
Print Assumptions C07_resolve_line.

(* the text the engine prints for a move is read back as that move *)
Theorem C07_coordinate_text : forall mv, mv_from mv < 64 -> mv_to mv < 64 -> In (mv_promo mv) promo_options ->
  uci_move_query (coord_text mv) = Ok (query_of mv).
Proof. exact uci_move_query_coord. Qed.
Print Assumptions C07_coordinate_text.

Theorem C07_lan_round_trip : forall s m n, LegalPos s -> In (m, n) (gen_legal s) ->
  uci_move_query (lan_write m) = Ok (query_of (absm m)) /\ resolve s [query_of (absm m)] = ROk n.
Proof. exact lan_round_trip. Qed.
Print Assumptions C07_lan_round_trip.

(* position startpos moves t1 .. tn, where the ti read as the coordinates of a legal line from the start
   position: the session position is the end of the line; nothing is printed but the collection of a
   running search; no search runs afterwards *)
Theorem C07_position_startpos : forall start in_book s line toks mvs p',
  LegalPos start -> tokens line = t_position :: t_startpos :: t_moves :: toks ->
  Forall2 (fun t mv => uci_move_query t = Ok (query_of mv)) toks mvs -> plays start mvs p' ->
  Uci.step start in_book s line = (mkSession p' None (s_artifact (fst (collect s))), snd (collect s), true) /\
  LegalPos p'.
Proof. exact position_startpos. Qed.
Print Assumptions C07_position_startpos.

(* ... in particular for the coordinate texts of any legal line *)
Theorem C07_position_startpos_coord : forall start in_book s line mvs p',
  LegalPos start -> tokens line = t_position :: t_startpos :: t_moves :: map coord_text mvs ->
  plays start mvs p' ->
  Uci.step start in_book s line = (mkSession p' None (s_artifact (fst (collect s))), snd (collect s), true) /\
  LegalPos p'.
Proof. exact position_startpos_coord. Qed.
Print Assumptions C07_position_startpos_coord.

Theorem C07_position_fen : forall start in_book s line fenparts toks b mvs p',
  tokens line = t_position :: t_fen :: fenparts ++ t_moves :: toks ->
  Forall (fun x => text_eqb x t_moves = false) fenparts ->
  fen_read (join_sp fenparts) = Ok b -> LegalPos b ->
  Forall2 (fun t mv => uci_move_query t = Ok (query_of mv)) toks mvs -> plays b mvs p' ->
  Uci.step start in_book s line = (mkSession p' None (s_artifact (fst (collect s))), snd (collect s), true) /\
  LegalPos p'.
Proof. exact position_fen. Qed.
Print Assumptions C07_position_fen.

(* the general form: any tokens before "moves" that name a base position b *)
Theorem C07_position_ok : forall start in_book s line (args : list text) pp toks b mvs p',
  tokens line = t_position :: args -> split_at_moves args [] = (pp, toks) ->
  pos_base start pp = inl (Some b) -> LegalPos b ->
  Forall2 (fun t mv => uci_move_query t = Ok (query_of mv)) toks mvs -> plays b mvs p' ->
  Uci.step start in_book s line = (mkSession p' None (s_artifact (fst (collect s))), snd (collect s), true) /\
  LegalPos p'.
Proof. exact position_ok. Qed.
Print Assumptions C07_position_ok.

(* rejections: some move token is malformed -> "invalid move format" (4), position = base position;
   running-search / artifact fields as after the collection *)
Theorem C07_position_rejects_format : forall start in_book s line (args : list text) pp toks b,
  tokens line = t_position :: args -> split_at_moves args [] = (pp, toks) ->
  pos_base start pp = inl (Some b) ->
  (exists t, In t toks /\ forall q, uci_move_query t <> Ok q) ->
  Uci.step start in_book s line =
  (mkSession b None (s_artifact (fst (collect s))), snd (collect s) ++ [OInfo 4], true).
Proof. exact position_rejects_format. Qed.
Print Assumptions C07_position_rejects_format.

(* all tokens well formed but the list does not resolve -> "invalid move" (5), position = base position *)
Theorem C07_position_rejects_move : forall start in_book s line (args : list text) pp toks b qs,
  tokens line = t_position :: args -> split_at_moves args [] = (pp, toks) ->
  pos_base start pp = inl (Some b) ->
  Forall2 (fun t q => uci_move_query t = Ok q) toks qs -> (forall st, resolve b qs <> ROk st) ->
  Uci.step start in_book s line =
  (mkSession b None (s_artifact (fst (collect s))), snd (collect s) ++ [OInfo 5], true).
Proof. exact position_rejects_move. Qed.
Print Assumptions C07_position_rejects_move.

(* ... and a list fails to resolve exactly because, in the legal position reached by the queries before it,
   some query matches no legal move or more than one *)
Theorem C07_position_reject_reason : forall qs s, LegalPos s -> (forall st, resolve s qs <> ROk st) ->
  exists qs1 q qs2 s1, qs = qs1 ++ q :: qs2 /\ resolve s qs1 = ROk s1 /\ LegalPos s1 /\
    ((forall m, In m (MoveGen.legal_moves s1) -> qtest q m = false) \/
     (exists m1 m2, m1 <> m2 /\ In m1 (MoveGen.legal_moves s1) /\ In m2 (MoveGen.legal_moves s1) /\
                    qtest q m1 = true /\ qtest q m2 = true)).
Proof. exact resolve_fails_sem. Qed.
Print Assumptions C07_position_reject_reason.

(* the three outcomes are exhaustive *)
Theorem C07_position_outcomes : forall start in_book s line (args : list text) pp toks b,
  tokens line = t_position :: args -> split_at_moves args [] = (pp, toks) ->
  pos_base start pp = inl (Some b) ->
  let s1 := fst (collect s) in
  (exists qs st, Forall2 (fun t q => uci_move_query t = Ok q) toks qs /\ resolve b qs = ROk st /\
                 Uci.step start in_book s line = (mkSession st None (s_artifact s1), snd (collect s), true)) \/
  ((exists t, In t toks /\ forall q, uci_move_query t <> Ok q) /\
   Uci.step start in_book s line = (mkSession b None (s_artifact s1), snd (collect s) ++ [OInfo 4], true)) \/
  (exists qs, Forall2 (fun t q => uci_move_query t = Ok q) toks qs /\ (forall st, resolve b qs <> ROk st) /\
              Uci.step start in_book s line = (mkSession b None (s_artifact s1), snd (collect s) ++ [OInfo 5], true)).
Proof. exact position_outcomes. Qed.
Print Assumptions C07_position_outcomes.

(* ---- one bestmove per go ---- *)

(* the invariant: the output of every command, of every history, and of the whole loop is well bracketed
   with respect to the running search of the session *)
Theorem C07_step_tracked : forall start in_book s line,
  tracked (rpos s) (snd (fst (Uci.step start in_book s line))) (rpos (fst (fst (Uci.step start in_book s line)))).
Proof. exact step_tracked. Qed.
Print Assumptions C07_step_tracked.

Theorem C07_run_tracked : forall start in_book lines s, tracked (rpos s) (snd (Uci.run start in_book s lines)) None.
Proof. exact run_tracked. Qed.
Print Assumptions C07_run_tracked.

Theorem C07_one_answer_per_go : forall start in_book lines,
  let outs := snd (Uci.run start in_book (Uci.fresh start) lines) in
  (* every go (book or search) is answered exactly once by the end of the session *)
  total answers outs = total asks outs /\
  (* never an answer without a go; at most one search outstanding *)
  (forall pre post, outs = pre ++ post ->
     (total answers pre <= total asks pre <= total answers pre + 1)%nat) /\
  (* a collection answers the latest search start, which was for the SAME position, and no other go event
     lies between them *)
  (forall pre p post, outs = pre ++ OCollected p :: post ->
     exists pre1 b mid, pre = pre1 ++ OSearchStarted p b :: mid /\ forallb silent mid = true) /\
  (* every started search is collected, for its position, before any other go event and before exit:
     the next go / position / stop / ucinewgame / quit / end of input collects first *)
  (forall pre p b post, outs = pre ++ OSearchStarted p b :: post ->
     exists mid post', post = mid ++ OCollected p :: post' /\ forallb silent mid = true) /\
  (* a book answer is given only when no search is outstanding *)
  (forall pre p post, outs = pre ++ OBookMove p :: post -> total asks pre = total answers pre).
Proof. exact one_answer_per_go. Qed.
Print Assumptions C07_one_answer_per_go.

(* a go event carries the session position at that moment (= the position after the command) *)
Theorem C07_go_position : forall start in_book s line p,
  (In (OBookMove p) (snd (fst (Uci.step start in_book s line))) \/
   exists b, In (OSearchStarted p b) (snd (fst (Uci.step start in_book s line)))) ->
  p = s_pos s /\ p = s_pos (fst (fst (Uci.step start in_book s line))).
Proof. exact go_position. Qed.
Print Assumptions C07_go_position.

(* the shape of go *)
Theorem C07_go : forall start in_book s line (args : list text), tokens line = t_go :: args ->
  exists d mt o2, forallb quiet o2 = true /\
  Uci.step start in_book s line =
  if in_book (s_pos s) then (fst (collect s), snd (collect s) ++ o2 ++ [OBookMove (s_pos s)], true)
  else (mkSession (s_pos s) (Some (s_pos s, d, mt)) (s_artifact (fst (collect s))),
        snd (collect s) ++ o2 ++
        [OSearchStarted (s_pos s) (match s_artifact (fst (collect s)) with Some _ => true | None => false end)], true).
Proof. exact step_go. Qed.
Print Assumptions C07_go.

(* ---- non-vacuity ---- *)

(* "isready", "go depth 3", "isready" (answered while the search runs), "position startpos moves e2e4"
   (collects first), "go" (on the new position, with the artifact), "quit", and an ignored line after quit *)
Example C07_example_session :
  let p := start_state in
  let sp := [32] in
  let nobook := fun _ : state => false in
  let l_go3 := t_go ++ sp ++ t_depth ++ sp ++ [51] in
  let l_pos := t_position ++ sp ++ t_startpos ++ sp ++ t_moves ++ sp ++ [101; 50; 101; 52] in
  let p1 := mkState (mkBoard 268496640 66 36 129 8 16 71776119061217280 4755801206503243776
                             2594073385365405696 9295429630892703744 576460752303423488 1152921504606846976)
                    Black true true true true (Some 20) 0 1 in
  Uci.run p nobook (Uci.fresh p) [t_isready; l_go3; t_isready; l_pos; t_go; t_quit; t_go] =
  (mkSession p1 None (Some (mkArt [p1; p])),
   [OReadyOk; OSearchStarted p false; OReadyOk; OCollected p; OSearchStarted p1 true; OCollected p1; OExit]).
Proof. vm_compute. reflexivity. Qed.

(* C07_position_startpos_coord applied to the fifteen-ply line of proofs/PlayProofs.v (double steps, an
   en-passant capture, both castlings, a capture-promotion):
   "position startpos moves e2e4 a7a6 e4e5 d7d5 e5d6 b8c6 g1f3 c8g4 f1c4 d8d7 e1g1 e8c8 d6c7 g8f6 c7d8q" *)
Example C07_example_line :
  let line := join_sp (t_position :: t_startpos :: t_moves :: map coord_text demo_line) in
  nth_error (map coord_text demo_line) 14 = Some [99; 55; 100; 56; 113] /\
  forall in_book s,
    Uci.step start_state in_book s line =
    (mkSession demo_end None (s_artifact (fst (collect s))), snd (collect s), true).
Proof.
  split; [vm_compute; reflexivity|]. intros in_book s.
  apply (position_startpos_coord start_state in_book s _ demo_line demo_end demo_start_legal).
  - vm_compute. reflexivity.
  - exact (proj1 demo_refines).
Qed.

(* rejections *)
Example C07_example_rejects :
  let p := start_state in
  let sp := [32] in
  let nobook := fun _ : state => false in
  let pre := t_position ++ sp ++ t_startpos ++ sp ++ t_moves ++ sp in
  Uci.step p nobook (Uci.fresh p) (pre ++ [101; 50; 101; 53]) = (Uci.fresh p, [OInfo 5], true) /\   (* e2e5 *)
  Uci.step p nobook (Uci.fresh p) (pre ++ [101; 50; 120]) = (Uci.fresh p, [OInfo 4], true).         (* e2x *)
Proof. vm_compute. split; reflexivity. Qed.
