(* L5 (continued): SAN scanner, Peg/LAN writers, UCI move-token parser.  Mirrors notation.rs (mod san,
   mod peg, mod lan) and the `position ... moves` token parsing of uci.rs. *)
From WV Require Export Text.
Open Scope N_scope.

Fixpoint starts_with (pre l : text) : bool :=
  match pre, l with
  | [], _ => true
  | p :: pt, c :: ct => (p =? c) && starts_with pt ct
  | _ :: _, [] => false
  end.

Definition promo_of_letter (c : N) : option piece :=
  if c =? ch_Q then Some Queen else if c =? ch_R then Some Rook
  else if c =? ch_B then Some Bishop else if c =? ch_N then Some Knight else None.
Definition piece_of_letter (c : N) : option piece :=
  if c =? ch_K then Some King else if c =? ch_Q then Some Queen else if c =? ch_R then Some Rook
  else if c =? ch_B then Some Bishop else if c =? ch_N then Some Knight else if c =? ch_P then Some Pawn else None.

Definition set_q_piece q p := mkQuery (Some p) (q_orank q) (q_ofile q) (q_drank q) (q_dfile q) (q_promotion q) (q_castle q) (q_capture q).
Definition set_q_orank q r := mkQuery (q_piece q) (Some r) (q_ofile q) (q_drank q) (q_dfile q) (q_promotion q) (q_castle q) (q_capture q).
Definition set_q_ofile q f := mkQuery (q_piece q) (q_orank q) (Some f) (q_drank q) (q_dfile q) (q_promotion q) (q_castle q) (q_capture q).
Definition set_q_drank q r := mkQuery (q_piece q) (q_orank q) (q_ofile q) (Some r) (q_dfile q) (q_promotion q) (q_castle q) (q_capture q).
Definition set_q_dfile q f := mkQuery (q_piece q) (q_orank q) (q_ofile q) (q_drank q) (Some f) (q_promotion q) (q_castle q) (q_capture q).
Definition set_q_promotion q p := mkQuery (q_piece q) (q_orank q) (q_ofile q) (q_drank q) (q_dfile q) (Some p) (q_castle q) (q_capture q).
Definition set_q_capture q c := mkQuery (q_piece q) (q_orank q) (q_ofile q) (q_drank q) (q_dfile q) (q_promotion q) (q_castle q) (Some c).
Definition q_castling (kingside : bool) : mquery := mkQuery None None None None None None (Some kingside) None.

(* the right-to-left scanner; r is the reversed remaining input *)
Definition san_parse (str : text) : option mquery :=
  if starts_with [ch_O; ch_dash; ch_O; ch_dash; ch_O] str then Some (q_castling false)
  else if starts_with [ch_O; ch_dash; ch_O] str then Some (q_castling true)
  else
    let r0 := rev str in
    (* check / mate indicator *)
    let r1 := match r0 with c :: tl => if (c =? ch_hash) || (c =? ch_plus) then tl else r0 | [] => r0 end in
    (* promotion *)
    let st2 : option (text * mquery) :=
      match r1 with
      | c :: tl => if is_ascii_upper c then
                     match promo_of_letter c with
                     | None => None
                     | Some p => let q := set_q_promotion q_empty p in
                                 match tl with
                                 | e :: tl' => if e =? ch_eq then Some (tl', q) else Some (tl, q)
                                 | [] => Some (tl, q)
                                 end
                     end
                   else Some (r1, q_empty)
      | [] => Some (r1, q_empty)
      end in
    match st2 with None => None | Some (r2, q2) =>
    (* destination rank *)
    let st3 : option (text * mquery) :=
      match r2 with
      | c :: tl => if is_ascii_digit c then
                     if (ch_1 <=? c) && (c <=? ch_8) then Some (tl, set_q_drank q2 (c - ch_1)) else None
                   else Some (r2, q2)
      | [] => Some (r2, q2)
      end in
    match st3 with None => None | Some (r3, q3) =>
    (* destination file *)
    let st4 : option (text * mquery) :=
      match r3 with
      | c :: tl => if is_ascii_lower c then
                     if (ch_a <=? c) && (c <=? ch_h) then Some (tl, set_q_dfile q3 (c - ch_a)) else None
                   else Some (r3, q3)
      | [] => Some (r3, q3)
      end in
    match st4 with None => None | Some (r4, q4) =>
    (* capture mark *)
    let '(r5, q5) := match r4 with
                     | c :: tl => if c =? ch_x then (tl, set_q_capture q4 true) else (r4, q4)
                     | [] => (r4, q4) end in
    (* origin rank *)
    let st6 : option (text * mquery) :=
      match r5 with
      | c :: tl => if is_ascii_digit c then
                     if (ch_1 <=? c) && (c <=? ch_8) then Some (tl, set_q_orank q5 (c - ch_1)) else None
                   else Some (r5, q5)
      | [] => Some (r5, q5)
      end in
    match st6 with None => None | Some (r6, q6) =>
    (* origin file *)
    let st7 : option (text * mquery) :=
      match r6 with
      | c :: tl => if is_ascii_lower c then
                     if (ch_a <=? c) && (c <=? ch_h) then Some (tl, set_q_ofile q6 (c - ch_a)) else None
                   else Some (r6, q6)
      | [] => Some (r6, q6)
      end in
    match st7 with None => None | Some (r7, q7) =>
    (* piece letter *)
    let st8 : option (text * mquery) :=
      match r7 with
      | c :: tl => if is_ascii_upper c then
                     match piece_of_letter c with Some p => Some (tl, set_q_piece q7 p) | None => None end
                   else Some (r7, q7)
      | [] => Some (r7, q7)
      end in
    match st8 with None => None | Some (r8, q8) =>
    match r8 with
    | _ :: _ => None
    | [] => Some (match q_piece q8 with None => set_q_piece q8 Pawn | Some _ => q8 end)
    end end end end end end end.

(* Lan writer *)
Definition lan_write (m : N) : text :=
  square_text (m_origin m) ++ square_text (m_dest m)
  ++ match m_promotion m with Some p => [to_lower (piece_letter p)] | None => [] end.

(* Peg writer (used by the book tooling / printer); kept for completeness *)
Definition peg_write (m : N) : text :=
  if m_castle_q m || m_castle_k m then
    [ch_O; ch_dash; ch_O] ++ (if m_is_castle m false then [ch_dash; ch_O] else [])
  else
    (if piece_eqb (m_piece m) Pawn then [] else [piece_letter (m_piece m)])
    ++ (if m_is_capture m then (if piece_eqb (m_piece m) Pawn then [file_char (file_of (m_origin m))] else []) ++ [ch_x] else [])
    ++ square_text (m_dest m)
    ++ match m_promotion m with Some p => [ch_eq; piece_letter p] | None => [] end.

(* ---- UCI move token: m.get(0..2)?, m.get(2..4)?, m.chars().nth(4) ----
   str::get(a..b) is None when b exceeds the byte length or a/b is not a char boundary. *)
Fixpoint take_bytes (l : text) (n : N) (fuel : nat) : option (text * text) :=
  (* split l at byte offset n if that is a char boundary *)
  match fuel with
  | O => None
  | S k =>
      if n =? 0 then Some ([], l)
      else match l with
           | [] => None
           | c :: tl => if n <? utf8_len c then None
                        else match take_bytes tl (n - utf8_len c) k with
                             | Some (a, b) => Some (c :: a, b)
                             | None => None
                             end
           end
  end.

Definition uci_move_query (tok : text) : result mquery :=
  match take_bytes tok 2 3 with
  | None => Err                                     (* get(0..2) = None -> filter_map drops the token *)
  | Some (o, rest) =>
    match parse_square o with
    | None => Err
    | Some osq =>
      match take_bytes rest 2 3 with
      | None => Err
      | Some (d, _) =>
        match parse_square d with
        | None => Err
        | Some dsq =>
          let q := set_q_dfile (set_q_drank (set_q_ofile (set_q_orank q_empty (rank_of osq)) (file_of osq)) (rank_of dsq)) (file_of dsq) in
          match nth_error tok 4 with
          | None => Ok q
          | Some p => if p =? ch_q then Ok (set_q_promotion q Queen)
                      else if p =? ch_r then Ok (set_q_promotion q Rook)
                      else if p =? ch_b then Ok (set_q_promotion q Bishop)
                      else if p =? ch_n then Ok (set_q_promotion q Knight)
                      else Err
          end
        end
      end
    end
  end.
