(* L6: the static evaluator, bit-exact (f32 roundings and the truncating casts included).
   Mirrors weechess-engine/src/eval/*.rs.  Constants from the regenerated gen/EvalConsts.v.
   Evaluation values are i32 modelled as Z; the sums stay far below 2^31 (C05_score_bound). *)
From WV Require Export MoveGen F32.
From WV Require Export EvalConsts.
Open Scope Z_scope.

Definition nthZ {A} (l : list A) (i : nat) (d : A) : A := nth i l d.

Definition POS_INF : Z := one_pawn * pos_inf_factor.
Definition NEG_INF : Z := one_pawn * neg_inf_factor.
Definition EVEN : Z := 0.

(* Evaluation * f32 :  (self.0 as f32 * rhs) as i32 *)
Definition emul_f (e : Z) (w : f32) : Z := f_to_i32 (f_mul (f_of_Z e) w).

(* mate_in_ply: POS_INF + ONE_PAWN * max(10 - ply as i32, 0); `ply as i32` wraps a usize *)
Definition as_i32 (n : N) : Z :=
  let z := Z.of_N n mod 4294967296 in if z <? 2147483648 then z else z - 4294967296.
Definition mate_in_ply (ply : N) : Z :=
  POS_INF + one_pawn * Z.max (mate_bonus_plies - as_i32 ply) 0.
Definition is_terminal (e : Z) : bool := (e <=? NEG_INF) || (POS_INF <=? e).

Definition worth (p : piece) : f32 := f_of_dec (nthZ piece_pawn_worths (N.to_nat (piece_to_N p)) (0, 1)).

(* StateVariation *)
Definition count (b : board) (c : color) (p : piece) : Z := Z.of_N (count_ones (pocc b c p)).
Definition color_count (b : board) (c : color) : Z :=
  fold_left (fun a p => a + count b c p) all_pieces 0.

Definition end_game_weight (b : board) : f32 :=
  let both p := f_of_Z (count b White p + count b Black p) in
  let k i := f_of_dec (nthZ egw_consts i (0, 1)) in
  let w1 := k 0%nat in let v1 := f_div (both Pawn) (k 1%nat) in
  let w2 := k 2%nat in let v2 := f_div (both Queen) (k 3%nat) in
  let w3 := k 4%nat in let v3 := f_div (f_of_Z (Z.of_N (count_ones (occupancy b)))) (k 5%nat) in
  f_sub (f_of_Z 1)
        (f_div (f_add (f_add (f_mul w1 v1) (f_mul w2 v2)) (f_mul w3 v3))
               (f_add (f_add w1 w2) w3)).

(* evaluate_piece_worths *)
Definition term_worths (b : board) (c : color) : Z :=
  fold_left (fun a p => a + emul_f one_pawn (worth p) * count b c p) all_pieces 0.

(* evaluate_piece_square *)
Definition piece_square (p : piece) (sq : N) (c : color) (egw : f32) : Z :=
  let sq1 := if is_white c then sq else flip_rank sq in
  let idx := N.to_nat (flip_rank sq1) in
  let maps := nthZ piece_square_map (N.to_nat (piece_to_N p)) (zero_map, zero_map) in
  let e1 := f_of_Z (nthZ (fst maps) idx 0) in
  let e2 := f_of_Z (nthZ (snd maps) idx 0) in
  f_to_i32 (f_add (f_mul (f_sub e2 e1) egw) e1).

Definition term_squares (b : board) (c : color) (egw : f32) : Z :=
  fold_left (fun a p =>
    fold_left (fun a sq => a + piece_square p sq c egw) (iter_ones (pocc b c p)) a) all_pieces 0.

(* evaluate_force_king_to_edge *)
Definition zabs_dist (a b : N) : Z := Z.abs (Z.of_N a - Z.of_N b).
Definition term_king_edge (b : board) (c : color) (egw : f32) : Z :=
  if f_ltb egw (f_of_dec king_edge_threshold) then 0
  else if color_count b c <? color_count b (opp c) + 1 then 0
  else match first_one (pocc b c King), first_one (pocc b (opp c) King) with
       | Some ours, Some theirs =>
           let kd := zabs_dist (rank_of ours) (rank_of theirs) + zabs_dist (file_of ours) (file_of theirs) in
           let rd := Z.min (zabs_dist (rank_of theirs) 0) (zabs_dist (rank_of theirs) 7) in
           let fd := Z.min (zabs_dist (file_of theirs) 0) (zabs_dist (file_of theirs) 7) in
           let disp := nthZ king_edge_consts 0%nat 0 - (rd + fd) in
           emul_f (nthZ king_edge_consts 1%nat 0 * disp - kd) egw
       | _, _ => 0
       end.

(* evaluate_bad_pawns *)
Definition term_bad_pawns (b : board) (c : color) : Z :=
  let pawns := pocc b c Pawn in
  fold_left (fun a f =>
    let doubled := if (1 <? count_ones (N.land pawns (file_mask f)))%N
                   then emul_f one_pawn (f_of_dec (nthZ bad_pawn_consts 0%nat (0, 1))) else 0 in
    let nb := N.lor (if (f =? 0)%N then 0%N else file_mask (f - 1)) (if (f =? 7)%N then 0%N else file_mask (f + 1)) in
    let isolated := if (N.land pawns nb =? 0)%N
                    then emul_f one_pawn (f_of_dec (nthZ bad_pawn_consts 1%nat (0, 1))) else 0 in
    a - doubled - isolated) [0; 1; 2; 3; 4; 5; 6; 7]%N 0.

Definition weight (i : nat) : f32 := f_of_dec (nthZ term_weights i (0, 1)).

(* the heuristic part of Evaluator::evaluate *)
Definition heuristic (b : board) (persp : color) : Z :=
  let egw := end_game_weight b in
  let t0 := term_worths b persp - term_worths b (opp persp) in
  let t1 := term_squares b persp egw - term_squares b (opp persp) egw in
  let t2 := term_king_edge b persp egw - term_king_edge b (opp persp) egw in
  let t3 := term_bad_pawns b persp - term_bad_pawns b (opp persp) in
  emul_f t0 (weight 0) + emul_f t1 (weight 1) + emul_f t2 (weight 2) + emul_f t3 (weight 3).

Inductive eresult := EVal (v : Z) | EPanic.

(* Evaluator::evaluate *)
Definition evaluate (s : state) (persp : color) (depth : N) : eresult :=
  let b := st_board s in
  let c := st_turn s in
  match first_one (pocc b c King) with
  | None => EPanic                                   (* king.first_square().unwrap() *)
  | Some ksq =>
      let valid := N.land (N.land (king_attacks ksq) (lnot64 (occupancy b))) (lnot64 (colored_attacks b (opp c))) in
      let king_has_move := negb (is_check s) && any valid in
      let terminal : option Z :=
        if king_has_move then None
        else match gen_legal s with
             | [] => if is_check s
                     then Some (if color_eqb c persp then - mate_in_ply depth else mate_in_ply depth)
                     else Some EVEN
             | _ => None
             end in
      match terminal with
      | Some v => EVal v
      | None => EVal (heuristic b persp)
      end
  end.

(* Evaluator::estimate (move ordering) *)
Definition estimate (s : state) (m : N) : Z :=
  let b := st_board s in
  let k i := nthZ estimate_consts i (0, 1) in
  let e0 := 0 in
  let e1 := if any (N.land (colored_pawn_attacks b (opp (m_color m))) (just (m_dest m)))
            then e0 - emul_f one_pawn (worth (m_piece m)) else e0 in
  let e2 := match m_capture m with
            | Some cp => e1 + emul_f one_pawn (worth cp) * fst (k 0%nat) - emul_f one_pawn (worth (m_piece m))
            | None => e1 end in
  let e3 := match m_castle_side m with Some _ => e2 + emul_f one_pawn (f_of_dec (k 1%nat)) | None => e2 end in
  let e4 := if m_is_double m then e3 + emul_f one_pawn (f_of_dec (k 2%nat)) else e3 in
  let e5 := match m_promotion m with
            | Some pr => e4 + emul_f (emul_f one_pawn (worth pr)) (f_of_dec (k 3%nat))
            | None => e4 end in
  match m_promotion m with
  | Some _ => e5
  | None =>
      let egw := f_of_dec (k 4%nat) in
      let o := piece_square (m_piece m) (m_origin m) (m_color m) egw in
      let d := piece_square (m_piece m) (m_dest m) (m_color m) egw in
      e5 + (d - o) * fst (k 5%nat)
  end.
