(* L5: hash, FEN reader/writer, SAN scanner, LAN writer, UCI move-token parser.
   Text is a list of Unicode code points (the chars() of a &str); byte offsets are computed with
   utf8_len where the Rust slices by bytes.  Mirrors hasher.rs, notation.rs, uci.rs (move tokens). *)
From WV Require Export MoveGen.
From WV Require Export TextConsts.
Open Scope N_scope.

Definition text := list N.

(* ------------------------------------------------------------------ Zobrist hash *)
Record hasher := mkHasher {
  k_turn : list N;      (* 2 *)
  k_piece : list N;     (* 64 * 16, index square * 16 + piece_index *)
  k_castle : list N;    (* [color][side]: W-K, W-Q, B-K, B-Q *)
  k_ep : list N }.      (* 8 files *)

(* ZobristHasher::with: the order in which next_u64 is drawn *)
Definition hasher_stream_len : nat := (2 + 1024 + 4 + 8)%nat.
Definition hasher_of_stream (l : list N) : hasher :=
  mkHasher (firstn 2 l) (firstn 1024 (skipn 2 l)) (firstn 4 (skipn 1026 l)) (firstn 8 (skipn 1030 l)).

Definition piece_index (c : color) (p : piece) : N := (if is_white c then 0 else 8) + piece_to_N p.

Definition hash_pieces (h : hasher) (b : board) : N :=
  fold_left (fun acc c =>
    fold_left (fun acc p =>
      fold_left (fun acc sq => N.lxor acc (nthN (k_piece h) (sq * 16 + piece_index c p) 0))
                (iter_ones (pocc b c p)) acc)
      (PNone :: all_pieces) acc)
    all_colors 0.

Definition ep_capturable (s : state) : option N :=
  match st_ep s with
  | None => None
  | Some t => if any (N.land (pawn_attacks (is_white (opp (st_turn s))) t)
                             (pocc (st_board s) (st_turn s) Pawn))
              then Some t else None
  end.

Definition hash (h : hasher) (s : state) : N :=
  let x0 := hash_pieces h (st_board s) in
  let x1 := N.lxor x0 (nthN (k_turn h) (if is_white (st_turn s) then 0 else 1) 0) in
  let x2 := fold_left (fun acc ck =>
              if castle_right s (fst ck) (snd ck)
              then N.lxor acc (nthN (k_castle h) ((if is_white (fst ck) then 0 else 2) + (if snd ck then 0 else 1)) 0)
              else acc)
              [(White, true); (White, false); (Black, true); (Black, false)] x1 in
  match ep_capturable s with
  | Some t => N.lxor x2 (nthN (k_ep h) (file_of t) 0)
  | None => x2
  end.

(* ------------------------------------------------------------------ characters *)
Definition ch_space := 32. Definition ch_slash := 47. Definition ch_dash := 45. Definition ch_pipe := 124.
Definition ch_0 := 48. Definition ch_1 := 49. Definition ch_8 := 56. Definition ch_9 := 57.
Definition ch_a := 97. Definition ch_h := 104. Definition ch_z := 122. Definition ch_A := 65. Definition ch_Z := 90.
Definition ch_w := 119. Definition ch_b := 98. Definition ch_x := 120. Definition ch_eq := 61.
Definition ch_plus := 43. Definition ch_hash := 35. Definition ch_O := 79.
Definition ch_K := 75. Definition ch_Q := 81. Definition ch_R := 82. Definition ch_B := 66. Definition ch_N := 78. Definition ch_P := 80.
Definition ch_k := 107. Definition ch_q := 113. Definition ch_r := 114. Definition ch_n := 110. Definition ch_p := 112.

Definition is_ascii_digit (c : N) : bool := (ch_0 <=? c) && (c <=? ch_9).
Definition is_ascii_upper (c : N) : bool := (ch_A <=? c) && (c <=? ch_Z).
Definition is_ascii_lower (c : N) : bool := (ch_a <=? c) && (c <=? ch_z).

(* regex crate \s in Unicode mode: the White_Space property *)
Definition is_ws (c : N) : bool :=
  ((9 <=? c) && (c <=? 13)) || (c =? 32) || (c =? 133) || (c =? 160) || (c =? 5760)
  || ((8192 <=? c) && (c <=? 8202)) || (c =? 8232) || (c =? 8233) || (c =? 8239) || (c =? 8287) || (c =? 12288).

Definition piece_letter (p : piece) : N :=      (* " PNBRQK" *)
  match p with PNone => 32 | Pawn => ch_P | Knight => ch_N | Bishop => ch_B | Rook => ch_R | Queen => ch_Q | King => ch_K end.
Definition to_lower (c : N) : N := if is_ascii_upper c then c + 32 else c.
Definition to_upper (c : N) : N := if is_ascii_lower c then c - 32 else c.

Definition file_char (f : N) : N := if f <=? 7 then ch_a + f else 63.   (* Display for File: '?' beyond 7 *)
Definition rank_char (r : N) : N := if r <=? 7 then ch_1 + r else 63.
Definition square_text (s : N) : text := [file_char (file_of s); rank_char (rank_of s)].

(* ------------------------------------------------------------------ decimal *)
Fixpoint uint_digits (u : Decimal.uint) : text :=
  match u with
  | Decimal.Nil => []
  | Decimal.D0 r => 48 :: uint_digits r | Decimal.D1 r => 49 :: uint_digits r
  | Decimal.D2 r => 50 :: uint_digits r | Decimal.D3 r => 51 :: uint_digits r
  | Decimal.D4 r => 52 :: uint_digits r | Decimal.D5 r => 53 :: uint_digits r
  | Decimal.D6 r => 54 :: uint_digits r | Decimal.D7 r => 55 :: uint_digits r
  | Decimal.D8 r => 56 :: uint_digits r | Decimal.D9 r => 57 :: uint_digits r
  end.
Definition dec_of_N (n : N) : text := uint_digits (N.to_uint n).

(* str::parse::<usize> restricted to what the \d+ gate lets through: None unless every char is an ASCII
   digit; None on overflow of 2^64-1 *)
Fixpoint parse_dec_aux (l : text) (acc : N) : option N :=
  match l with
  | [] => Some acc
  | c :: tl => if is_ascii_digit c then
                 let acc' := acc * 10 + (c - ch_0) in
                 if mask64 <? acc' then None else parse_dec_aux tl acc'
               else None
  end.
Definition parse_usize (l : text) : option N :=
  match l with [] => None | _ => parse_dec_aux l 0 end.

(* ------------------------------------------------------------------ FEN writer *)
Definition piece_char (c : color) (p : piece) : N :=
  match c with White => piece_letter p | Black => to_lower (piece_letter p) end.

Fixpoint fen_rank_aux (b : board) (r : N) (files : list N) (empty : N) : text :=
  match files with
  | [] => if 0 <? empty then dec_of_N empty else []
  | f :: tl =>
      match piece_at b (mk_square r f) with
      | Some (c, p) => (if 0 <? empty then dec_of_N empty else []) ++ piece_char c p :: fen_rank_aux b r tl 0
      | None => fen_rank_aux b r tl (empty + 1)
      end
  end.
Definition files8 : list N := [0;1;2;3;4;5;6;7].
Definition ranks_desc : list N := [7;6;5;4;3;2;1;0].

Definition fen_board (b : board) : text :=
  flat_map (fun r => fen_rank_aux b r files8 0 ++ (if r =? 0 then [] else [ch_slash])) ranks_desc.

Definition fen_write (s : state) : text :=
  fen_board (st_board s) ++ [ch_space]
  ++ [match st_turn s with White => ch_w | Black => ch_b end] ++ [ch_space]
  ++ (if negb (st_wk s || st_wq s) && negb (st_bk s || st_bq s) then [ch_dash]
      else (if st_wk s then [ch_K] else []) ++ (if st_wq s then [ch_Q] else [])
           ++ (if st_bk s then [ch_k] else []) ++ (if st_bq s then [ch_q] else []))
  ++ [ch_space]
  ++ (match st_ep s with None => [ch_dash] | Some t => square_text t end) ++ [ch_space]
  ++ dec_of_N (st_half s) ++ [ch_space] ++ dec_of_N (st_full s).

(* ------------------------------------------------------------------ FEN reader *)
Inductive result (A : Type) := Ok (a : A) | Err | Panic (site : N).
Arguments Ok {A} a. Arguments Err {A}. Arguments Panic {A} site.

(* panic site numbers (see model/PanicSites in DESIGN): *)
Definition site_fen_cursor_inc : N := 1.     (* location_index += 1 on u8 *)
Definition site_fen_square_index : N := 2.   (* map[square] with square >= 64 *)
Definition site_uci_slice : N := 10.

Fixpoint split_on (p : N -> bool) (l : text) (cur : text) : list text :=
  match l with
  | [] => [rev cur]
  | c :: tl => if p c then rev cur :: split_on p tl [] else split_on p tl (c :: cur)
  end.

Definition fen_piece_of_char (c : N) : option (color * piece) :=
  if c =? ch_P then Some (White, Pawn) else if c =? ch_N then Some (White, Knight)
  else if c =? ch_B then Some (White, Bishop) else if c =? ch_R then Some (White, Rook)
  else if c =? ch_Q then Some (White, Queen) else if c =? ch_K then Some (White, King)
  else if c =? ch_p then Some (Black, Pawn) else if c =? ch_n then Some (Black, Knight)
  else if c =? ch_b then Some (Black, Bishop) else if c =? ch_r then Some (Black, Rook)
  else if c =? ch_q then Some (Black, Queen) else if c =? ch_k then Some (Black, King)
  else None.

Definition is_placement_char (c : N) : bool :=
  (match fen_piece_of_char c with Some _ => true | None => false end) || ((ch_1 <=? c) && (c <=? ch_8)).

(* the regex gate, as the equivalent hand-written field check.  Literal it was written against: *)
Definition fen_regex_expected : text :=
  [94; 40; 40; 40; 63; 58; 91; 114; 110; 98; 113; 107; 112; 82; 78; 66; 81; 75; 80; 49; 45; 56; 93; 43; 92; 47; 41; 123; 55; 125; 41; 91; 114; 110; 98; 113; 107; 112; 82; 78; 66; 81; 75; 80; 49; 45; 56; 93; 43; 41; 92; 115; 40; 91; 98; 124; 119; 93; 41; 92; 115; 40; 45; 124; 40; 91; 75; 124; 81; 124; 107; 124; 113; 93; 123; 49; 44; 52; 125; 41; 41; 92; 115; 40; 45; 124; 91; 97; 45; 104; 93; 91; 49; 45; 56; 93; 41; 92; 115; 40; 92; 100; 43; 41; 92; 115; 40; 92; 100; 43; 41; 36].

Definition gate_placement (f : text) : bool :=
  let chunks := split_on (fun c => c =? ch_slash) f [] in
  (length chunks =? 8)%nat &&
  forallb (fun ch => match ch with [] => false | _ => forallb is_placement_char ch end) chunks.
Definition gate_turn (f : text) : bool :=
  match f with [c] => (c =? ch_b) || (c =? ch_pipe) || (c =? ch_w) | _ => false end.
Definition gate_castle (f : text) : bool :=
  match f with
  | [c] => (c =? ch_dash) || (c =? ch_K) || (c =? ch_pipe) || (c =? ch_Q) || (c =? ch_k) || (c =? ch_q)
  | _ => (1 <=? length f)%nat && (length f <=? 4)%nat &&
         forallb (fun c => (c =? ch_K) || (c =? ch_pipe) || (c =? ch_Q) || (c =? ch_k) || (c =? ch_q)) f
  end.
Definition gate_ep (f : text) : bool :=
  match f with
  | [c] => c =? ch_dash
  | [a; b] => (ch_a <=? a) && (a <=? ch_h) && (ch_1 <=? b) && (b <=? ch_8)
  | _ => false
  end.

(* Board::try_parse: the u8 cursor, digits advance (checked_add), '/' ignored, pieces placed at the
   rank-flipped square *)
Fixpoint parse_placement (l : text) (loc : N) (b : board) : result board :=
  match l with
  | [] => Ok b
  | c :: tl =>
      if (ch_1 <=? c) && (c <=? ch_8) then
        let loc' := loc + (c - ch_0) in
        if 255 <? loc' then Err else parse_placement tl loc' b
      else if c =? ch_space then Ok b
      else if c =? ch_slash then parse_placement tl loc b
      else match fen_piece_of_char c with
           | None => Err
           | Some (col, p) =>
               if 63 <? loc then Err
               else let sq := mk_square (7 - rank_of loc) (file_of loc) in
                    if 63 <? sq then Panic site_fen_square_index
                    else if 255 <? loc + 1 then Panic site_fen_cursor_inc
                    else parse_placement tl (loc + 1) (pset_bit b col p sq true)
           end
  end.

Definition parse_castle (f : text) : option (bool * bool * bool * bool) :=
  match f with
  | [45] => Some (false, false, false, false)
  | _ => fold_left (fun acc c =>
           match acc with
           | None => None
           | Some (wk, wq, bk, bq) =>
               if c =? ch_k then Some (wk, wq, true, bq) else if c =? ch_q then Some (wk, wq, bk, true)
               else if c =? ch_K then Some (true, wq, bk, bq) else if c =? ch_Q then Some (wk, true, bk, bq)
               else if c =? ch_dash then acc else None
           end) f (Some (false, false, false, false))
  end.

(* Square::try_from(&str): byte length 2, file letter case-insensitive A..H, rank 1..8 *)
Definition utf8_len (c : N) : N := if c <? 128 then 1 else if c <? 2048 then 2 else if c <? 65536 then 3 else 4.
Definition byte_len (l : text) : N := fold_left (fun a c => a + utf8_len c) l 0.
Definition parse_square (l : text) : option N :=
  if byte_len l =? 2 then
    match l with
    | [a; b] => let u := to_upper a in
                if (ch_A <=? u) && (u <=? 72) && (ch_1 <=? b) && (b <=? ch_8)
                then Some (mk_square (b - ch_1) (u - ch_A)) else None
    | _ => None
    end
  else None.

Definition fen_read (str : text) : result state :=
  match split_on is_ws str [] with
  | [f1; f2; f3; f4; f5; f6] =>
      if gate_placement f1 && gate_turn f2 && gate_castle f3 && gate_ep f4
         && (match f5 with [] => false | _ => true end) && (match f6 with [] => false | _ => true end)
      then
        match parse_placement f1 0 empty_board with
        | Err => Err
        | Panic k => Panic k
        | Ok b =>
          match (match f2 with
                 | [c] => if c =? ch_w then Some White else if c =? ch_b then Some Black else None
                 | _ => None end) with
          | None => Err
          | Some turn =>
            match parse_castle f3 with
            | None => Err
            | Some (wk, wq, bk, bq) =>
              match (match f4 with [45] => Some None
                                 | _ => match parse_square f4 with Some t => Some (Some t) | None => None end end) with
              | None => Err
              | Some ep =>
                match parse_usize f5, parse_usize f6 with
                | Some h, Some fl => Ok (mkState b turn wk wq bk bq ep h fl)
                | _, _ => Err
                end
              end
            end
          end
        end
      else Err
  | _ => Err
  end.
