(* L7c: the search with SEVERAL workers on one shared table, under an explicit schedule.
   Mirrors searcher.rs: analyze_iterative (the lazy-SMP path: thread_count workers per iteration, worker i
   searches to depth - (i mod 2) + 1, only worker 0 gets the prioritised move, results joined by max and
   sum, line read from the shared table) and analyze_recursive written as a PROGRAM over the two shared
   effects it has: TranspositionTableAccess::find and ::insert.  Between two such effects a worker touches
   only its own data (position, window, jitter stream, node counter), so a run of n workers is determined by
   the order in which their table operations are served: the SCHEDULE.  run_sched serves them in the order a
   list of choices dictates; the real code is run under the same order through the yield-point hook.

   No cancellation in this layer (the flag stays clear); the one-worker model with cancellation is
   model/Search.v, and proofs/ConcSeq.v shows that one worker of this layer IS that model. *)
From WV Require Export Search.
Open Scope Z_scope.

Inductive prog (A : Type) : Type :=
| Ret (a : A)
| Find (h : N) (k : option entry -> prog A)
| Insert (h : N) (e : entry) (k : prog A).
Arguments Ret {A} a. Arguments Find {A} h k. Arguments Insert {A} h e k.

Fixpoint bind {A B} (p : prog A) (f : A -> prog B) : prog B :=
  match p with
  | Ret a => f a
  | Find h k => Find h (fun r => bind (k r) f)
  | Insert h e k => Insert h e (bind k f)
  end.

(* a worker's own data *)
Record lstate := mkL { l_jidx : N; l_nodes : N }.
Inductive pres := WVal (v : Z) (l : lstate) | WPanic (site : N) | WFuel.

(* the probe, as a function of what find returned (Search.probe tt h = probe_of (acc_find tt h)) *)
Definition probe_of (r : option entry) (max_depth cur_depth : N) (alpha beta : Z) : probe_res :=
  match r with
  | None => PWindow alpha beta
  | Some e =>
      if (max_depth <? cur_depth)%N then PPanic site_sub_depth
      else if (e_maxdepth e <? e_depth e)%N then PPanic site_sub_entry
      else if (max_depth - cur_depth <=? e_maxdepth e - e_depth e)%N then
        match e_kind e with
        | Exact => PEarly (e_eval e)
        | UpperBound => let b := Z.min beta (e_eval e) in
                        if b <=? alpha then PEarly (e_eval e) else PWindow alpha b
        | LowerBound => let a := Z.max alpha (e_eval e) in
                        if beta <=? a then PEarly (e_eval e) else PWindow a beta
        end
      else PWindow alpha beta
  end.

Definition recP_t := state -> N -> N -> N -> Z -> Z -> option N -> lstate -> prog pres.

Section ConcSearch.
Variable hs : hasher.
Variable history : list N.
Variable jit : N -> Z.

Definition loop_bodyP (rec : recP_t) (s : state) (h max_depth cur_depth cur_ext ext : N) (beta1 : Z) (prev_nodes : N) :
  list N -> Z -> option N -> ekind -> lstate -> prog pres :=
  fix loop (l : list N) (alpha : Z) (best : option N) (kind : ekind) (st : lstate) : prog pres :=
    match l with
    | [] =>
        if (prev_nodes =? l_nodes st)%N then
          match evaluate s (st_turn s) cur_depth with
          | EVal v => Ret (WVal v st)
          | EPanic => Ret (WPanic site_eval_king)
          end
        else
          match best with
          | Some bm => Insert h (mkEntry kind bm cur_depth max_depth alpha) (Ret (WVal alpha st))
          | None => Ret (WVal alpha st)
          end
    | m :: tl =>
        match apply_move s m with
        | None => Ret (WPanic site_apply_unwrap)
        | Some ns =>
            if any (N.land (pocc (st_board ns) (st_turn s) King) (colored_attacks (st_board ns) (st_turn ns)))
            then loop tl alpha best kind st
            else
              bind (rec ns (max_depth + ext)%N (cur_depth + 1 + ext)%N (cur_ext + ext)%N (- beta1) (- alpha) None st)
                (fun r => match r with
                   | WVal r st' =>
                       let e := - r in
                       if beta1 <=? e then
                         Insert h (mkEntry LowerBound m cur_depth max_depth beta1) (Ret (WVal beta1 st'))
                       else if alpha <? e then loop tl e (Some m) Exact st'
                       else loop tl alpha best kind st'
                   | other => Ret other
                   end)
        end
    end.

Definition node_bodyP (rec : recP_t) (s : state) (max_depth cur_depth cur_ext : N) (alpha beta : Z)
           (prio : option N) (st : lstate) : prog pres :=
  let st1 := mkL (l_jidx st) (l_nodes st + 1)%N in
  let h := hash hs s in
  if (0 <? cur_depth)%N && in_history history h then Ret (WVal EVEN st1) else
  Find h (fun r =>
    match probe_of r max_depth cur_depth alpha beta with
    | PPanic site => Ret (WPanic site)
    | PEarly v => Ret (WVal v st1)
    | PWindow alpha1 beta1 =>
        if (max_depth <=? cur_depth)%N then
          match quiesce (S (men s)) s cur_depth alpha1 beta1 with
          | QVal v => Ret (WVal v st1)
          | QPanic site => Ret (WPanic site)
          | QFuel => Ret WFuel
          end
        else
          let moves := pseudo_legal s in
          let keyed := map (fun im => (estimate s (snd im) + jit (l_jidx st1 + fst im)%N, snd im))
                           (combine (map N.of_nat (seq 0 (length moves))) moves) in
          let drawn := if (length moves <? 2)%nat then 0%N else N.of_nat (length moves) in
          let st2 := mkL (l_jidx st1 + drawn)%N (l_nodes st1) in
          let ordered := match prio with
                         | Some pm => pm :: rev (map snd (stable_sort keyed))
                         | None => rev (map snd (stable_sort keyed))
                         end in
          let ext := if (cur_ext <? extension_cap)%N then (if is_check s then 1%N else 0%N) else 0%N in
          loop_bodyP rec s h max_depth cur_depth cur_ext ext beta1 (l_nodes st2) ordered alpha1 None UpperBound st2
    end).

Fixpoint analyzeP (fuel : nat) : recP_t :=
  match fuel with
  | O => fun _ _ _ _ _ _ _ _ => Ret WFuel
  | S k => node_bodyP (analyzeP k)
  end.

End ConcSearch.

(* ------------------------------------------------------------------ *)
(* the scheduler                                                        *)
(* ------------------------------------------------------------------ *)

Definition finished {A} (p : prog A) : bool := match p with Ret _ => true | _ => false end.

(* serve the table operation at the head of a program *)
Definition step1 {A} (p : prog A) (tt : access) : prog A * access :=
  match p with
  | Ret a => (p, tt)
  | Find h k => (k (acc_find tt h), tt)
  | Insert h e k => (k, acc_insert tt h e)
  end.

(* one worker alone, to completion *)
Fixpoint run_seq {A} (p : prog A) (tt : access) : A * access :=
  match p with
  | Ret a => (a, tt)
  | Find h k => run_seq (k (acc_find tt h)) tt
  | Insert h e k => run_seq k (acc_insert tt h e)
  end.

(* serve the c-th (0-based) unfinished worker; workers are kept in index order *)
Fixpoint step_nth {A} (ws : list (prog A)) (c : nat) (tt : access) : list (prog A) * access :=
  match ws with
  | [] => ([], tt)
  | p :: tl =>
      if finished p then let '(tl', tt') := step_nth tl c tt in (p :: tl', tt')
      else match c with
           | O => let '(p', tt') := step1 p tt in (p' :: tl, tt')
           | S c' => let '(tl', tt') := step_nth tl c' tt in (p :: tl', tt')
           end
  end.

Definition unfinished {A} (ws : list (prog A)) : nat := length (filter (fun p => negb (finished p)) ws).

(* consume the schedule while somebody is unfinished; the unused rest is handed back *)
Fixpoint run_sched {A} (sched : list N) (ws : list (prog A)) (tt : access) : list (prog A) * access * list N :=
  match sched with
  | [] => (ws, tt, [])
  | c :: rest =>
      match unfinished ws with
      | O => (ws, tt, sched)
      | S m => let '(ws', tt') := step_nth ws (N.to_nat (c mod N.of_nat (S m))) tt in run_sched rest ws' tt'
      end
  end.

(* when the schedule is used up the lowest unfinished worker is served until it ends, then the next *)
Fixpoint finish_all {A} (ws : list (prog A)) (tt : access) : list A * access :=
  match ws with
  | [] => ([], tt)
  | p :: tl => let '(a, tt1) := run_seq p tt in
               let '(rs, tt2) := finish_all tl tt1 in (a :: rs, tt2)
  end.

Definition run_workers {A} (sched : list N) (ws : list (prog A)) (tt : access) : list A * access * list N :=
  let '(ws', tt', rest) := run_sched sched ws tt in
  let '(rs, tt'') := finish_all ws' tt' in (rs, tt'', rest).

(* ------------------------------------------------------------------ *)
(* analyze_iterative with n workers                                     *)
(* ------------------------------------------------------------------ *)

Record mrun := mkMRun {
  m_events : list event;
  m_tt : access;
  m_history : list N;
  m_sched : list N;        (* unused part of the schedule *)
  m_outcome : N }.         (* 0 finished, 2 out of fuel, 100+site panic *)

(* join of the workers' results: Some (max of the evaluations, sum of the node counts), or the first failure *)
Fixpoint join_results (rs : list pres) (best : option Z) (nodes : N) : option Z * N * N :=
  match rs with
  | [] => (best, nodes, 0%N)
  | WVal v l :: tl => join_results tl (match best with Some b => Some (Z.max b v) | None => Some v end) (nodes + l_nodes l)%N
  | WPanic site :: _ => (best, nodes, (100 + site)%N)
  | WFuel :: _ => (best, nodes, 2%N)
  end.

Section IterativeM.
Variable hs : hasher.
Variable jit_of : N -> N -> N -> Z.        (* iteration, worker, index *)
Variable workers : nat.

Definition worker_depth (depth : N) (i : nat) : N :=
  ((if Nat.even i then depth else depth - 1) + 1)%N.      (* depth.saturating_sub(i % 2) + 1 *)

Definition worker_prog (depth : N) (s : state) (history : list N) (best_mv : option N) (i : nat) : prog pres :=
  analyzeP hs history (jit_of depth (N.of_nat i)) (S (S (N.to_nat depth))) s (worker_depth depth i) 0%N 0%N
           (- mate_in_ply 0) (mate_in_ply 0) (match i with O => best_mv | _ => None end) (mkL 0%N 0%N).

Fixpoint iterateM (iters : nat) (depth : N) (s : state) (history : list N) (tt : access) (sched : list N)
         (nodes_total : N) (best_mv : option N) (acc : list event) : mrun :=
  match iters with
  | O => mkMRun (rev acc) tt history sched 0
  | S k =>
      let ws := map (worker_prog depth s history best_mv) (seq 0 workers) in
      let '(rs, tt1, sched1) := run_workers sched ws tt in
      match join_results rs None 0 with
      | (Some ev, n, 0%N) =>
          let nt := (nodes_total + n)%N in
          let acc1 := EvProgress (depth + 1)%N nt :: acc in
          let line := iter_moves hs (S (S (N.to_nat depth))) tt1 s 0 depth in
          match line with
          | [] => mkMRun (rev acc1) tt1 history sched1 0
          | mv :: _ =>
              let acc2 := EvBest ev line :: acc1 in
              if POS_INF <=? ev then mkMRun (rev acc2) tt1 history sched1 0
              else iterateM k (depth + 1)%N s history tt1 sched1 nt (Some mv) acc2
          end
      | (_, _, 0%N) => mkMRun (rev acc) tt1 history sched1 0        (* no worker: not reachable for workers >= 1 *)
      | (_, _, oc) => mkMRun (rev acc) tt history sched oc
      end
  end.

Definition analyze_iterativeM (iters : nat) (s : state) (history : list N) (tt : access) (sched : list N) : mrun :=
  let root := hash hs s in
  let history' := if existsb (N.eqb root) history then history else root :: history in
  iterateM iters 0 s history' tt sched 0 None [].

End IterativeM.
