(* L0: bitboards as N with explicit 64-bit truncation.  Mirrors weechess-core/src/board.rs
   (BitBoard, Square, Offset).  Definitions only; proofs are in proofs/. *)
From Coq Require Export NArith ZArith List Bool.
Export ListNotations.
Open Scope N_scope.

Definition two64 : N := 18446744073709551616.
Definition mask64 : N := 18446744073709551615.

Definition trunc64 (b : N) : N := N.land b mask64.
Definition shl64 (b k : N) : N := trunc64 (N.shiftl b k).      (* u64 << k, k < 64 *)
Definition shr64 (b k : N) : N := N.shiftr b k.                (* u64 >> k *)
Definition lnot64 (b : N) : N := N.lxor b mask64.              (* !b on u64, b < 2^64 *)
Definition mul64 (a b : N) : N := trunc64 (a * b).             (* u64::wrapping_mul *)

Definition just (s : N) : N := N.shiftl 1 s.                   (* BitBoard::just *)
Definition test (b s : N) : bool := N.testbit b s.             (* BitBoard::test *)
Definition setb (b s : N) (v : bool) : N :=                    (* BitBoard::set *)
  if v then N.lor b (just s) else N.ldiff b (just s).
Definition any (b : N) : bool := negb (b =? 0).
Definition none (b : N) : bool := b =? 0.

(* trailing_zeros for b <> 0 *)
Fixpoint ctz_pos (p : positive) : N :=
  match p with
  | xO q => N.succ (ctz_pos q)
  | _ => 0
  end.
Definition first_one (b : N) : option N :=
  match b with N0 => None | Npos p => Some (ctz_pos p) end.
Definition last_one (b : N) : option N :=
  match b with N0 => None | Npos _ => Some (N.log2 b) end.

(* iter_ones: the set bits in increasing order (BitIterator) *)
Fixpoint ones_pos (p : positive) (i : N) : list N :=
  match p with
  | xH => [i]
  | xO q => ones_pos q (N.succ i)
  | xI q => i :: ones_pos q (N.succ i)
  end.
Definition iter_ones (b : N) : list N :=
  match b with N0 => [] | Npos p => ones_pos p 0 end.
Definition count_ones (b : N) : N := N.of_nat (length (iter_ones b)).

(* Square geometry *)
Definition file_of (s : N) : N := s mod 8.
Definition rank_of (s : N) : N := s / 8.
Definition mk_square (r f : N) : N := r * 8 + f.
Definition flip_rank (s : N) : N := mk_square (7 - rank_of s) (file_of s).

(* Square::offset : coordinates in Z, None when off the board *)
Definition offset (s : N) (df dr : Z) : option N :=
  let f := (Z.of_N (file_of s) + df)%Z in
  let r := (Z.of_N (rank_of s) + dr)%Z in
  if ((f <? 0) || (7 <? f) || (r <? 0) || (7 <? r))%Z%bool then None
  else Some (mk_square (Z.to_N r) (Z.to_N f)).

Definition file_a : N := 72340172838076673.          (* 0x0101010101010101, checked against gen/Consts.v *)
Definition file_h : N := 9259542123273814144.        (* 0x8080808080808080 *)

Fixpoint iter_n {A} (n : nat) (f : A -> A) (x : A) : A :=
  match n with O => x | S k => iter_n k f (f x) end.

(* BitBoard::shift: whole-rank shift with truncation, then |df| single file steps, masking first *)
Definition shift (b : N) (df dr : Z) : N :=
  let b1 := if (0 <? dr)%Z then shl64 b (Z.to_N (dr * 8))
            else if (dr <? 0)%Z then shr64 b (Z.to_N (- dr * 8))
            else b in
  if (0 <? df)%Z then iter_n (Z.to_nat df) (fun x => shl64 (N.land x (lnot64 file_h)) 1) b1
  else if (df <? 0)%Z then iter_n (Z.to_nat (- df)) (fun x => shr64 (N.land x (lnot64 file_a)) 1) b1
  else b1.

Definition squares : list N := map N.of_nat (seq 0 64).
