(* L7c: the UCI session state machine.  Mirrors weechess-engine/src/uci.rs (Client::exec) arm by arm.
   A running search and its artifact are abstract: what the session logic depends on is only
   (a) which position a running search was started on, (b) whether an artifact is kept and which root
   positions it remembers.  The search contract (a collected search of a position with a legal move has
   printed exactly one bestmove, legal in that position, by the time it is collected) is the content of
   C03/C04 and is a hypothesis of the session theorems, stated in props/C07.v. *)
From WV Require Export Notation.
Open Scope N_scope.

(* split_ascii_whitespace: U+0009, U+000A, U+000C, U+000D, U+0020 *)
Definition is_ascii_ws (c : N) : bool := (c =? 9) || (c =? 10) || (c =? 12) || (c =? 13) || (c =? 32).
Definition tokens (l : text) : list text := filter (fun t => match t with [] => false | _ => true end) (split_on is_ascii_ws l []).

Fixpoint text_eqb (a b : text) : bool :=
  match a, b with
  | [], [] => true
  | x :: xs, y :: ys => (x =? y) && text_eqb xs ys
  | _, _ => false
  end.

Definition t_go := [103; 111].
Definition t_isready := [105; 115; 114; 101; 97; 100; 121].
Definition t_position := [112; 111; 115; 105; 116; 105; 111; 110].
Definition t_stop := [115; 116; 111; 112].
Definition t_uci := [117; 99; 105].
Definition t_ucinewgame := [117; 99; 105; 110; 101; 119; 103; 97; 109; 101].
Definition t_quit := [113; 117; 105; 116].
Definition t_state := [46; 115; 116; 97; 116; 101].
Definition t_status := [46; 115; 116; 97; 116; 117; 115].
Definition t_movetime := [109; 111; 118; 101; 116; 105; 109; 101].
Definition t_depth := [100; 101; 112; 116; 104].
Definition t_startpos := [115; 116; 97; 114; 116; 112; 111; 115].
Definition t_fen := [102; 101; 110].
Definition t_moves := [109; 111; 118; 101; 115].

(* an artifact: the root positions its history remembers (table contents are not needed at this level) *)
Record artifact := mkArt { art_roots : list state }.

Record session := mkSession {
  s_pos : state;
  s_running : option (state * option N * option Z);     (* position, depth limit, movetime (ms) of the running search *)
  s_artifact : option artifact }.

Inductive output :=
  | OIdName | OIdAuthor | OUciOk | OReadyOk
  | OInfo (msg : N)                 (* info string; 1 unparsable go, 2 invalid fen, 3 unknown position command, 4 invalid move format,
                                       5 invalid move, 6 unknown command *)
  | OBookMove (pos : state)         (* info string book move + bestmove, chosen among book(pos) *)
  | OSearchStarted (pos : state) (with_artifact : bool)
  | OCollected (pos : state)        (* the running search of pos was cancelled and joined: its single bestmove is on stdout by now *)
  | OStateDump (pos : state)        (* stderr *)
  | OStatusDump (running : bool)
  | OExit.

(* i32::from_str_radix(t, 10) / usize::from_str_radix(t, 10) on a token: optional sign, ASCII digits, range check *)
Definition all_digits (l : text) : bool := match l with [] => false | _ => forallb is_ascii_digit l end.
Definition dec_value (l : text) : N := fold_left (fun a c => a * 10 + (c - 48)) l 0.
Definition parse_i32 (t : text) : option Z :=
  match t with
  | 45 :: r => if all_digits r && (dec_value r <=? 2147483648) then Some (- Z.of_N (dec_value r))%Z else None
  | 43 :: r => if all_digits r && (dec_value r <=? 2147483647) then Some (Z.of_N (dec_value r)) else None
  | _ => if all_digits t && (dec_value t <=? 2147483647) then Some (Z.of_N (dec_value t)) else None
  end.
Definition parse_usize_tok (t : text) : option N :=
  match t with
  | 43 :: r => if all_digits r && (dec_value r <=? mask64) then Some (dec_value r) else None
  | _ => if all_digits t && (dec_value t <=? mask64) then Some (dec_value t) else None
  end.

(* the `go` argument loop: returns (depth, movetime, complained?) *)
Fixpoint go_args (fuel : nat) (args : list text) (depth : option N) (mt : option Z) : option N * option Z * bool :=
  match fuel, args with
  | O, _ => (depth, mt, false)
  | _, [] => (depth, mt, false)
  | S k, a :: rest =>
      if text_eqb a t_movetime then
        match rest with
        | v :: rest' => match parse_i32 v with
                        | Some z => go_args k rest' depth (Some z)
                        | None => (depth, mt, true)
                        end
        | [] => (depth, mt, true)
        end
      else if text_eqb a t_depth then
        match rest with
        | v :: rest' => match parse_usize_tok v with
                        | Some n => go_args k rest' (Some n) mt
                        | None => (depth, mt, true)
                        end
        | [] => (depth, mt, true)
        end
      else (depth, mt, true)
  end.

Fixpoint split_at_moves (args : list text) (acc : list text) : list text * list text :=
  match args with
  | [] => (rev acc, [])
  | a :: rest => if text_eqb a t_moves then (rev acc, rest) else split_at_moves rest (a :: acc)
  end.

Fixpoint join_sp (l : list text) : text :=
  match l with
  | [] => []
  | [x] => x
  | x :: tl => x ++ [32] ++ join_sp tl
  end.

Fixpoint all_ok {A} (l : list (result A)) : option (list A) :=
  match l with
  | [] => Some []
  | Ok x :: tl => match all_ok tl with Some r => Some (x :: r) | None => None end
  | _ :: tl => None
  end.

Section Client.
Variable start : state.                     (* State::default() *)
Variable in_book : state -> bool.           (* OpeningBook::lookup(pos) is Some(non-empty) *)

(* collect the running search, if any: `current_search.take()` + wait_cancel *)
Definition collect (s : session) : session * list output :=
  match s_running s with
  | Some (p, _, _) =>
      let roots := match s_artifact s with Some a => art_roots a | None => [] end in
      (* the search was spawned with previous_artifact.take(): the kept artifact is the one it returns *)
      (mkSession (s_pos s) None (Some (mkArt (p :: roots))), [OCollected p])
  | None => (s, [])
  end.

Definition step (s : session) (line : text) : session * list output * bool (* continue? *) :=
  match tokens line with
  | [] => (s, [OInfo 6], true)
  | cmd :: args =>
      if text_eqb cmd t_go then
        let '(s1, o1) := collect s in
        let '(depth, mt, complained) := go_args (S (length args)) args None None in
        let o2 := if complained then [OInfo 1] else [] in
        if in_book (s_pos s1) then (s1, o1 ++ o2 ++ [OBookMove (s_pos s1)], true)
        else
          (* Search::spawn(current_position, seed, depth, time, previous_artifact.take()) *)
          (mkSession (s_pos s1) (Some (s_pos s1, depth, mt)) (s_artifact s1),
           o1 ++ o2 ++ [OSearchStarted (s_pos s1) (match s_artifact s1 with Some _ => true | None => false end)], true)
      else if text_eqb cmd t_isready then (s, [OReadyOk], true)
      else if text_eqb cmd t_position then
        let '(s1, o1) := collect s in
        let '(pos_part, moves) := split_at_moves args [] in
        let base : option state + N :=        (* inl None = error already reported *)
          match pos_part with
          | p :: rest =>
              if text_eqb p t_startpos then inl (Some start)
              else if text_eqb p t_fen then
                match fen_read (join_sp rest) with
                | Ok st => inl (Some st)
                | _ => inr 2
                end
              else inr 3
          | [] => inr 3
          end in
        match base with
        | inr code => (s1, o1 ++ [OInfo code], true)
        | inl None => (s1, o1, true)
        | inl (Some b) =>
            let s2 := mkSession b (s_running s1) (s_artifact s1) in
            match all_ok (map uci_move_query moves) with
            | None => (s2, o1 ++ [OInfo 4], true)
            | Some qs =>
                match resolve b qs with
                | ROk st => (mkSession st (s_running s1) (s_artifact s1), o1, true)
                | _ => (s2, o1 ++ [OInfo 5], true)
                end
            end
        end
      else if text_eqb cmd t_stop then
        let '(s1, o1) := collect s in (s1, o1, true)
      else if text_eqb cmd t_uci then (s, [OIdName; OIdAuthor; OUciOk], true)
      else if text_eqb cmd t_ucinewgame then
        let '(s1, o1) := collect s in
        (mkSession (s_pos s1) None None, o1, true)
      else if text_eqb cmd t_quit then (s, [], false)
      else if text_eqb cmd t_state then (s, [OStateDump (s_pos s)], true)
      else if text_eqb cmd t_status then (s, [OStatusDump (match s_running s with Some _ => true | None => false end)], true)
      else (s, [OInfo 6], true)
  end.

(* the whole loop: lines until quit or end of input, then the final collection and exit status 0 *)
Fixpoint run (s : session) (lines : list text) : session * list output :=
  match lines with
  | [] => let '(s1, o1) := collect s in (s1, o1 ++ [OExit])
  | l :: tl =>
      let '(s1, o1, cont) := step s l in
      if cont then let '(s2, o2) := run s1 tl in (s2, o1 ++ o2)
      else let '(s2, o2) := collect s1 in (s2, o1 ++ o2 ++ [OExit])
  end.

Definition fresh : session := mkSession start None None.

End Client.
