(* L7d: the threads and channels around one search.  Mirrors Searcher::analyze (searcher.rs: control thread,
   search thread, control channel, status channel, cancellation token) and uci.rs Search::spawn / wait_cancel
   (timer thread, writer thread that prints `bestmove` when the status channel closes, the collecting caller).

   It is a finite transition system.  What it abstracts:
     - the search itself: the search thread is Running until it finishes, which it may do by itself when the
       search is depth-limited (`limited`), and which it does after the flag is set (the contract proved in
       C04_stop_bound: an interrupt within POLL_PERIOD node entries, no further iteration);
     - status events: both mpsc channels are UNBOUNDED, so a send never blocks and a send to a dropped
       receiver returns an error that the code ignores (`_ = sink.send(event)`); the only observable effect of
       the status channel is its closing when the search thread (the last sender) ends;
     - the control channel: the control thread leaves its loop at the FIRST message, so only "is a Stop
       pending" matters; senders are the caller (any number of Stops), the timer (one) and the search thread
       (one, after finishing: `tx3.send(Stop).unwrap()`, which cannot fail because the receiver lives until the
       control thread has joined the search thread);
     - time: the timer fires at an arbitrary moment.
   The caller (UCI loop: stop / go / position / ucinewgame / quit / end of input, or a library user) may start
   collecting at any moment, or never; it may send up to `extra` further Stops at any moment ("repeatedly"). *)
From Coq Require Export List Bool Arith.
Export ListNotations.

Inductive sphase := SRun | SFin | SDone.          (* searching | finished, final Stop not yet sent | thread ended *)
Inductive cphase := CRecv | CCancel | CJoin | CDone.   (* in recv loop | left the loop | flag set, joining | returned *)
Inductive uphase := UIdle | USent | UJoinW | UDone.    (* not collecting | Stop sent, joining control | joining writer | has the artifact *)

Record cstate := mkC {
  c_s : sphase;
  c_flag : bool;           (* the cancellation token *)
  c_c : cphase;
  c_pending : bool;        (* a Stop is waiting in the control channel *)
  c_timer : bool;          (* the timer has fired (and ended) *)
  c_wdone : bool;          (* the writer thread has ended *)
  c_best : nat;            (* bestmove lines printed *)
  c_u : uphase;
  c_extra : nat }.         (* further Stops the caller may still send *)

Definition init (extra : nat) : cstate := mkC SRun false CRecv false false false 0 UIdle extra.

Section Control.
Variable limited : bool.        (* the search has a depth limit (it may finish by itself) *)

(* transitions of the four engine threads: these happen eventually *)
Definition step_sys (st : cstate) : list cstate :=
  let '(mkC s f c p t w b u x) := st in
  (* search thread *)
  (match s with
   | SRun => if limited || f then [mkC SFin f c p t w b u x] else []
   | SFin => [mkC SDone f c (match c with CRecv => true | _ => p end) t w b u x]      (* tx3.send(Stop); thread ends; sink dropped *)
   | SDone => []
   end) ++
  (* control thread *)
  (match c with
   | CRecv => if p then [mkC s f CCancel false t w b u x] else []
   | CCancel => [mkC s true CJoin p t w b u x]                                          (* signal_token.cancel() *)
   | CJoin => match s with SDone => [mkC s f CDone p t w b u x] | _ => [] end           (* search_handle.join() *)
   | CDone => []
   end) ++
  (* timer thread *)
  (if t then [] else [mkC s f c (match c with CRecv => true | _ => p end) true w b u x]) ++
  (* writer thread: recv fails once every sender of the status channel is gone, then prints bestmove *)
  (if w then [] else match s with SDone => [mkC s f c p t true (S b) u x] | _ => [] end).

(* transitions of the caller: they may happen *)
Definition step_env (st : cstate) : list cstate :=
  let '(mkC s f c p t w b u x) := st in
  let send := match c with CRecv => true | _ => p end in
  (match u with
   | UIdle => [mkC s f c send t w b USent x]                                            (* wait_cancel: control.send(Stop) *)
   | USent => match c with CDone => [mkC s f c p t w b UJoinW x] | _ => [] end          (* search_handle.join() *)
   | UJoinW => if w then [mkC s f c p t w b UDone x] else []                            (* write_handle.join() *)
   | UDone => []
   end) ++
  (match x with
   | O => []
   | S x' => match u with UDone => [] | _ => [mkC s f c send t w b u x'] end             (* one more Stop *)
   end).

Definition step_all (st : cstate) : list cstate := step_sys st ++ step_env st.

(* a rank that every transition decreases *)
Definition rank (st : cstate) : nat :=
  let '(mkC s f c p t w b u x) := st in
  (match s with SRun => 2 | SFin => 1 | SDone => 0 end) +
  (match c with CRecv => 3 | CCancel => 2 | CJoin => 1 | CDone => 0 end) +
  (if t then 0 else 1) + (if w then 0 else 1) +
  (match u with UIdle => 3 | USent => 2 | UJoinW => 1 | UDone => 0 end) + x.

(* what must hold when the engine threads have nothing left to do *)
Definition settled (st : cstate) : bool :=
  match c_s st, c_c st with SDone, CDone => c_timer st && c_wdone st && Nat.eqb (c_best st) 1 | _, _ => false end.

(* the caller is in the middle of a collection *)
Definition collecting (st : cstate) : bool := match c_u st with USent | UJoinW => true | _ => false end.

Definition sphase_eqb (a b : sphase) : bool :=
  match a, b with SRun, SRun | SFin, SFin | SDone, SDone => true | _, _ => false end.
Definition cphase_eqb (a b : cphase) : bool :=
  match a, b with CRecv, CRecv | CCancel, CCancel | CJoin, CJoin | CDone, CDone => true | _, _ => false end.
Definition uphase_eqb (a b : uphase) : bool :=
  match a, b with UIdle, UIdle | USent, USent | UJoinW, UJoinW | UDone, UDone => true | _, _ => false end.
Definition cstate_eqb (a b : cstate) : bool :=
  sphase_eqb (c_s a) (c_s b) && Bool.eqb (c_flag a) (c_flag b) && cphase_eqb (c_c a) (c_c b) &&
  Bool.eqb (c_pending a) (c_pending b) && Bool.eqb (c_timer a) (c_timer b) && Bool.eqb (c_wdone a) (c_wdone b) &&
  Nat.eqb (c_best a) (c_best b) && uphase_eqb (c_u a) (c_u b) && Nat.eqb (c_extra a) (c_extra b).

Definition mem (st : cstate) (l : list cstate) : bool := existsb (cstate_eqb st) l.

(* the reachable states, by saturation (fuel = an upper bound on the length of any run) *)
Fixpoint saturate (fuel : nat) (front seen : list cstate) : list cstate :=
  match fuel with
  | O => seen
  | S k =>
      let next := flat_map step_all front in
      let fresh := fold_left (fun acc st => if mem st seen || mem st acc then acc else st :: acc) next [] in
      match fresh with
      | [] => seen
      | _ => saturate k fresh (fresh ++ seen)
      end
  end.

Definition reach (extra : nat) : list cstate := saturate 40 [init extra] [init extra].

End Control.
