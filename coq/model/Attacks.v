(* L1: rays, slide masks, magic tables and leaper tables.  Mirrors weechess-core/src/attacks.rs.
   All constants come from the regenerated gen/Consts.v. *)
From WV Require Export Bits.
From WV Require Export Consts.
From Coq Require Import FSets.FMapPositive.
Open Scope N_scope.

Definition nthN {A} (l : list A) (i : N) (d : A) : A := nth (N.to_nat i) l d.

(* compute_ray: squares reached by repeated offset, nearest first (at most 7) *)
Fixpoint ray_squares_fuel (fuel : nat) (s : N) (df dr : Z) : list N :=
  match fuel with
  | O => []
  | S k => match offset s df dr with
           | None => []
           | Some n => n :: ray_squares_fuel k n df dr
           end
  end.
Definition ray_squares (s : N) (d : Z * Z) : list N := ray_squares_fuel 7 s (fst d) (snd d).
Definition bb_of_list (l : list N) : N := fold_left (fun acc s => setb acc s true) l 0.
Definition ray_bb (s : N) (d : Z * Z) : N := bb_of_list (ray_squares s d).

(* Direction enum order: N S E W NE NW SE SW (gen/Consts.dir_offsets) *)
Definition dirN := nth 0 dir_offsets (0,0)%Z.
Definition dirS := nth 1 dir_offsets (0,0)%Z.
Definition dirE := nth 2 dir_offsets (0,0)%Z.
Definition dirW := nth 3 dir_offsets (0,0)%Z.
Definition dirNE := nth 4 dir_offsets (0,0)%Z.
Definition dirNW := nth 5 dir_offsets (0,0)%Z.
Definition dirSE := nth 6 dir_offsets (0,0)%Z.
Definition dirSW := nth 7 dir_offsets (0,0)%Z.

Definition rank_mask (r : N) : N := nthN rank_masks r 0.
Definition file_mask (f : N) : N := nthN file_masks f 0.

Definition rook_slide_mask (s : N) : N :=
  N.lor (N.lor (N.lor
    (N.land (ray_bb s dirW) (lnot64 (file_mask 0)))
    (N.land (ray_bb s dirE) (lnot64 (file_mask 7))))
    (N.land (ray_bb s dirN) (lnot64 (rank_mask 7))))
    (N.land (ray_bb s dirS) (lnot64 (rank_mask 0))).

Definition bishop_slide_mask (s : N) : N :=
  N.lor (N.lor (N.lor
    (N.land (ray_bb s dirNW) (lnot64 (N.lor (file_mask 0) (rank_mask 7))))
    (N.land (ray_bb s dirSW) (lnot64 (N.lor (file_mask 0) (rank_mask 0)))))
    (N.land (ray_bb s dirNE) (lnot64 (N.lor (file_mask 7) (rank_mask 7)))))
    (N.land (ray_bb s dirSE) (lnot64 (N.lor (file_mask 7) (rank_mask 0)))).

(* compute_blockers_from_index: bit i of the index selects the i-th set bit of the mask *)
Fixpoint blockers_aux (idx : N) (bits : list N) (i : N) (acc : N) : N :=
  match bits with
  | [] => acc
  | b :: tl => blockers_aux idx tl (N.succ i) (if N.testbit idx i then setb acc b true else acc)
  end.
Definition blockers_from_index (idx mask : N) : N := blockers_aux idx (iter_ones mask) 0 0.

(* one step of the "unoptimized" attack: attacks |= ray; cut behind the nearest blocker *)
Definition cut_ray (attacks s blockers : N) (d : Z * Z) (nearest_is_first : bool) : N :=
  let r := ray_bb s d in
  let a := N.lor attacks r in
  match (if nearest_is_first then first_one else last_one) (N.land r blockers) with
  | Some bit => N.land a (lnot64 (ray_bb bit d))
  | None => a
  end.

Definition rook_attacks_unopt (s blockers : N) : N :=
  cut_ray (cut_ray (cut_ray (cut_ray 0 s blockers dirN true) s blockers dirS false)
                   s blockers dirW false) s blockers dirE true.

Definition bishop_attacks_unopt (s blockers : N) : N :=
  cut_ray (cut_ray (cut_ray (cut_ray 0 s blockers dirNW true) s blockers dirSW false)
                   s blockers dirNE true) s blockers dirSE false.

Definition magic_index (occ mask magic bits : N) : N :=
  shr64 (mul64 (N.land occ mask) magic) (64 - bits).

Definition tkey (s idx : N) : positive := N.succ_pos (s * magic_table_slots + idx).

(* the fill loop: for b in 0..2^bits: table[s][index(blockers b)] = unopt(s, blockers b); later writes win *)
Fixpoint fill_square (fuel : nat) (b : N) (s mask magic bits : N) (unopt : N -> N -> N)
         (t : PositiveMap.t N) : PositiveMap.t N :=
  match fuel with
  | O => t
  | S k =>
      let bl := blockers_from_index b mask in
      let idx := magic_index bl mask magic bits in
      fill_square k (N.succ b) s mask magic bits unopt (PositiveMap.add (tkey s idx) (unopt s bl) t)
  end.

Definition build_table (magics bitsl : list N) (maskf : N -> N) (unopt : N -> N -> N) : PositiveMap.t N :=
  fold_left (fun t s =>
    let bits := nthN bitsl s 0 in
    fill_square (N.to_nat (N.shiftl 1 bits)) 0 s (maskf s) (nthN magics s 0) bits unopt t)
    squares (PositiveMap.empty N).

Definition rook_table : PositiveMap.t N := build_table rook_magics rook_bits rook_slide_mask rook_attacks_unopt.
Definition bishop_table : PositiveMap.t N := build_table bishop_magics bishop_bits bishop_slide_mask bishop_attacks_unopt.

Definition table_get (t : PositiveMap.t N) (s idx : N) : N :=
  match PositiveMap.find (tkey s idx) t with Some v => v | None => 0 end.

(* lazy_static ROOK_SLIDE_MASKS / BISHOP_SLIDE_MASKS *)
Definition rook_slide_masks : list N := map rook_slide_mask squares.
Definition bishop_slide_masks : list N := map bishop_slide_mask squares.

(* AttackGenerator::compute_{rook,bishop,queen}_attacks *)
Definition rook_attacks (s occ : N) : N :=
  table_get rook_table s (magic_index occ (nthN rook_slide_masks s 0) (nthN rook_magics s 0) (nthN rook_bits s 0)).
Definition bishop_attacks (s occ : N) : N :=
  table_get bishop_table s (magic_index occ (nthN bishop_slide_masks s 0) (nthN bishop_magics s 0) (nthN bishop_bits s 0)).
Definition queen_attacks (s occ : N) : N := N.lor (rook_attacks s occ) (bishop_attacks s occ).

(* leaper tables built with Square::offset *)
Definition pattern (s : N) (offs : list (Z * Z)) : N :=
  fold_left (fun acc d => match offset s (fst d) (snd d) with
                          | Some t => setb acc t true
                          | None => acc end) offs 0.
(* lazy_static KNIGHT_ATTACKS / KING_ATTACKS / PAWN_ATTACKS *)
Definition knight_table : list N := map (fun s => pattern s knight_offsets) squares.
Definition king_table : list N := map (fun s => pattern s king_offsets) squares.
Definition white_pawn_table : list N := map (fun s => pattern s white_pawn_offsets) squares.
Definition black_pawn_table : list N := map (fun s => pattern s black_pawn_offsets) squares.
Definition knight_attacks (s : N) : N := nthN knight_table s 0.
Definition king_attacks (s : N) : N := nthN king_table s 0.
Definition pawn_attacks (white : bool) (s : N) : N :=
  nthN (if white then white_pawn_table else black_pawn_table) s 0.

(* geometric reference used by the C09 theorems (the property's own definition):
   walk a ray up to and including the first blocker *)
Fixpoint walk (occ : N) (ray : list N) : list N :=
  match ray with
  | [] => []
  | s :: tl => if test occ s then [s] else s :: walk occ tl
  end.
Definition walk_dirs (occ s : N) (dirs : list (Z * Z)) : N :=
  bb_of_list (flat_map (fun d => walk occ (ray_squares s d)) dirs).
Definition rook_dirs := [dirN; dirS; dirE; dirW].
Definition bishop_dirs := [dirNE; dirNW; dirSE; dirSW].
