(* L7d: the opening book.  Mirrors weechess-core/src/book.rs (BookParser::parse_movetext, Book::append/find),
   weechess-engine/build.rs (first BOOK_DEPTH plies of every game) and weechess-engine/src/book.rs (lookup). *)
From WV Require Export Notation.
From WV Require Export SearchConsts.
Open Scope N_scope.

Definition book := list (N * list N).            (* position hash -> recorded moves (BTreeMap<Hash, HashSet<Move>>) *)

Fixpoint book_find (b : book) (h : N) : option (list N) :=
  match b with
  | [] => None
  | (k, ms) :: tl => if k =? h then Some ms else book_find tl h
  end.

Fixpoint add_move (ms : list N) (m : N) : list N :=
  match ms with
  | [] => [m]
  | x :: tl => if x =? m then ms else x :: add_move tl m
  end.

Fixpoint book_append (b : book) (h m : N) : book :=
  match b with
  | [] => [(h, [m])]
  | (k, ms) :: tl => if k =? h then (k, add_move ms m) :: tl else (k, ms) :: book_append tl h m
  end.

(* movetext tokens: results and move numbers ("12.") dropped, "12.e4" cut after the first dot *)
Definition t_draw := [49; 47; 50; 45; 49; 47; 50].
Definition t_white := [49; 45; 48].
Definition t_black := [48; 45; 49].
Fixpoint list_eqb (a b : text) : bool :=
  match a, b with [], [] => true | x :: xs, y :: ys => (x =? y) && list_eqb xs ys | _, _ => false end.
Definition ends_with_dot (t : text) : bool := match rev t with 46 :: _ => true | _ => false end.
Fixpoint after_first_dot (t : text) : option text :=
  match t with [] => None | c :: tl => if c =? 46 then Some tl else after_first_dot tl end.
Definition clean_tokens (toks : list text) : list text :=
  map (fun t => match after_first_dot t with Some r => r | None => t end)
      (filter (fun t => negb (list_eqb t t_draw || list_eqb t t_white || list_eqb t t_black || ends_with_dot t)) toks).

Inductive parse_step := PEntry (h m : N) | PError.

Section Book.
Variable hs : hasher.
Variable start : state.

(* the scan: SAN parse, FIRST matching legal move, entry (hash of the position, move), advance *)
Fixpoint parse_moves (fuel : nat) (s : state) (toks : list text) : list parse_step :=
  match fuel, toks with
  | O, _ => []
  | _, [] => []
  | S k, t :: tl =>
      match san_parse t with
      | None => [PError]
      | Some q =>
          match find (fun ms => qtest q (fst ms)) (gen_legal s) with
          | None => [PError]
          | Some (m, n) => PEntry (hash hs s) m :: parse_moves k n tl
          end
      end
  end.

(* one game: the first BOOK_DEPTH results; an error among them aborts the build (None) *)
Definition game_entries (toks : list text) : option (list (N * N)) :=
  let steps := parse_moves (N.to_nat book_depth) start (clean_tokens toks) in
  fold_right (fun st acc => match st, acc with
                            | PEntry h m, Some l => Some ((h, m) :: l)
                            | _, _ => None end) (Some []) steps.

Fixpoint build (games : list (list text)) (b : book) : option book :=
  match games with
  | [] => Some b
  | g :: tl => match game_entries g with
               | None => None
               | Some es => build tl (fold_left (fun b e => book_append b (fst e) (snd e)) es b)
               end
  end.

(* OpeningBook::lookup *)
Definition lookup (b : book) (s : state) : option (list N) :=
  match book_find b (hash hs s) with
  | Some (m :: ms) => Some (m :: ms)
  | _ => None
  end.

End Book.
