(* L7a: the transposition table.  Mirrors searcher.rs: TranspositionBucket, TranspositionTable,
   TranspositionTableAccess.  Keys are u64 (N < 2^64); `hash as usize` is the identity on a 64-bit
   target (the harness asserts usize::BITS == 64). *)
From WV Require Export Types.
From WV Require Export SearchConsts.
Open Scope N_scope.

Inductive ekind := Exact | UpperBound | LowerBound.

Record entry := mkEntry {
  e_kind : ekind;
  e_move : N;          (* packed move (u32) *)
  e_depth : N;
  e_maxdepth : N;
  e_eval : Z }.

Definition slot := option (N * entry).
Definition bucket := list slot.                         (* BUCKET_SIZE slots *)
Definition empty_bucket : bucket := repeat None (N.to_nat bucket_size).

(* TranspositionBucket::find: first slot holding the key *)
Fixpoint bucket_find (b : bucket) (k : N) : option entry :=
  match b with
  | [] => None
  | Some (h, e) :: tl => if h =? k then Some e else bucket_find tl k
  | None :: tl => bucket_find tl k
  end.

Inductive ires := Inserted | Replaced | Swapped.

(* the in-order scan of insert_or_replace; None when it falls through *)
Fixpoint bucket_scan (b : bucket) (k : N) (e : entry) : option (bucket * ires) :=
  match b with
  | [] => None
  | None :: tl => Some (Some (k, e) :: tl, Inserted)
  | Some (h, x) :: tl =>
      if h =? k then Some (Some (k, e) :: tl, Swapped)
      else match bucket_scan tl k e with
           | Some (tl', r) => Some (Some (h, x) :: tl', r)
           | None => None
           end
  end.

Fixpoint set_nth {A} (l : list A) (i : nat) (v : A) : list A :=
  match l, i with
  | [], _ => []
  | _ :: tl, O => v :: tl
  | x :: tl, S j => x :: set_nth tl j v
  end.

Definition bucket_insert (b : bucket) (k : N) (e : entry) : bucket * ires :=
  match bucket_scan b k e with
  | Some r => r
  | None => (set_nth b (N.to_nat ((N.lxor k (e_move e)) mod N.of_nat (length b))) (Some (k, e)), Replaced)
  end.

Record table := mkTable { t_buckets : list bucket; t_used : N }.
Definition empty_table (nbuckets : nat) : table := mkTable (repeat empty_bucket nbuckets) 0.

Definition table_find (t : table) (k : N) : option entry :=
  bucket_find (nth (N.to_nat (k mod N.of_nat (length (t_buckets t)))) (t_buckets t) []) k.

Definition table_insert (t : table) (k : N) (e : entry) : table :=
  let i := N.to_nat (k mod N.of_nat (length (t_buckets t))) in
  let '(b', r) := bucket_insert (nth i (t_buckets t) []) k e in
  mkTable (set_nth (t_buckets t) i b')
          (match r with Inserted => t_used t + 1 | _ => t_used t end).

Definition table_entries (t : table) : N := t_used t.
Definition table_max_entries (t : table) : N := N.of_nat (length (t_buckets t)) * bucket_size.

(* TranspositionTableAccess: sub-table routing by hash mod tables.len() *)
Definition access := list table.
Definition empty_access (ntables nbuckets : nat) : access := repeat (empty_table nbuckets) ntables.

Definition acc_find (a : access) (k : N) : option entry :=
  table_find (nth (N.to_nat (k mod N.of_nat (length a))) a (mkTable [] 0)) k.
Definition acc_insert (a : access) (k : N) (e : entry) : access :=
  let i := N.to_nat (k mod N.of_nat (length a)) in
  set_nth a i (table_insert (nth i a (mkTable [] 0)) k e).
Definition acc_entries (a : access) : N := fold_left (fun s t => s + table_entries t) a 0.
Definition acc_max_entries (a : access) : N := fold_left (fun s t => s + table_max_entries t) a 0.

(* operations and the run function used by the C15 theorems and the correspondence *)
Inductive top := TFind (k : N) | TInsert (k : N) (e : entry).
Inductive tout := OFind (r : option entry) | OInsert.

Definition acc_step (a : access) (o : top) : access * tout :=
  match o with
  | TFind k => (a, OFind (acc_find a k))
  | TInsert k e => (acc_insert a k e, OInsert)
  end.

Fixpoint acc_run (a : access) (ops : list top) : access * list tout :=
  match ops with
  | [] => (a, [])
  | o :: tl => let '(a1, r) := acc_step a o in
               let '(a2, rs) := acc_run a1 tl in (a2, r :: rs)
  end.

(* the abstract specification: a last-writer-wins map (association list, newest first) *)
Definition mapspec := list (N * entry).
Fixpoint spec_find (m : mapspec) (k : N) : option entry :=
  match m with
  | [] => None
  | (h, e) :: tl => if h =? k then Some e else spec_find tl k
  end.
Definition spec_step (m : mapspec) (o : top) : mapspec :=
  match o with TFind _ => m | TInsert k e => (k, e) :: m end.
