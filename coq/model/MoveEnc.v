(* L3: the 32-bit packed move.  Mirrors moves.rs (mod compact, Move, MoveQuery).
   Offsets and masks come from the regenerated gen/Consts.v. *)
From WV Require Export Board.
Open Scope N_scope.

Definition mask32 : N := 4294967295.
Definition store (data off mask value : N) : N :=
  N.lor data (N.land (N.land (N.shiftl value off) mask32) mask).
Definition load (data off mask : N) : N := N.land (N.shiftr (N.land data mask) off) 255.
Definition bit (data b : N) : bool := negb (N.land data (N.shiftl 1 b) =? 0).
Definition set_bit (data b : N) (v : bool) : N :=
  if v then N.lor data (N.shiftl 1 b) else N.ldiff data (N.shiftl 1 b).

Definition opt_piece_to_N (p : option piece) : N :=
  match p with Some q => piece_to_N q | None => 0 end.

Definition abs_dist (a b : N) : N := if a <? b then b - a else a - b.

(* Move::by_moving *)
Definition by_moving (c : color) (p : piece) (o d : N) : N :=
  let b0 := store 0 piece_offset piece_mask (piece_to_N p) in
  let b1 := store b0 origin_offset origin_mask o in
  let b2 := store b1 dest_offset dest_mask d in
  let b3 := set_bit b2 color_offset (is_white c) in
  if piece_eqb p Pawn && (1 <? abs_dist (rank_of o) (rank_of d)) then set_bit b3 double_pawn_offset true else b3.

Definition set_capture (m : N) (cap : option piece) : N := store m capture_offset capture_mask (opt_piece_to_N cap).
Definition set_promotion (m : N) (pr : option piece) : N := store m promotion_offset promotion_mask (opt_piece_to_N pr).

Definition by_capturing c p o d cap := set_capture (by_moving c p o d) (Some cap).
Definition by_promoting c p o d pr := set_promotion (by_moving c p o d) (Some pr).
Definition by_capture_promoting c p o d cap pr := set_promotion (set_capture (by_moving c p o d) (Some cap)) (Some pr).
Definition by_en_passant c p o d := set_capture (set_bit (by_moving c p o d) en_passant_offset true) (Some Pawn).

Definition king_origin (c : color) : N := nth (if is_white c then 0 else 1)%nat king_origins 0.
Definition castle_dest (c : color) (kingside : bool) : N :=
  nth ((if is_white c then 0 else 2) + (if kingside then 0 else 1))%nat castle_dests 0.
Definition by_castling (c : color) (kingside : bool) : N :=
  let m := by_moving c King (king_origin c) (castle_dest c kingside) in
  let m1 := set_bit m castle_queenside_offset (negb kingside) in
  set_bit m1 castle_kingside_offset kingside.

(* accessors; the Rust unwraps are total on values produced by the constructors (C20) *)
Definition m_piece_raw (m : N) : N := load m piece_offset piece_mask.
Definition m_piece (m : N) : piece := match piece_of_N (m_piece_raw m) with Some p => p | None => PNone end.
Definition m_origin (m : N) : N := load m origin_offset origin_mask.
Definition m_dest (m : N) : N := load m dest_offset dest_mask.
Definition m_capture (m : N) : option piece :=
  let c := load m capture_offset capture_mask in
  if c =? 0 then None else piece_of_N c.
Definition m_promotion (m : N) : option piece :=
  let c := load m promotion_offset promotion_mask in
  if c =? 0 then None else piece_of_N c.
Definition m_is_ep (m : N) : bool := bit m en_passant_offset.
Definition m_is_double (m : N) : bool := bit m double_pawn_offset.
Definition m_castle_q (m : N) : bool := bit m castle_queenside_offset.
Definition m_castle_k (m : N) : bool := bit m castle_kingside_offset.
Definition m_color (m : N) : color := if bit m color_offset then White else Black.
Definition m_is_capture (m : N) : bool := match m_capture m with Some _ => true | None => false end.
(* Some true = king side, Some false = queen side; queen side is tested first as in castle_side() *)
Definition m_castle_side (m : N) : option bool :=
  if m_castle_q m then Some false else if m_castle_k m then Some true else None.
Definition m_is_castle (m : N) (kingside : bool) : bool :=
  match m_castle_side m with Some k => Bool.eqb k kingside | None => false end.

(* does any accessor's unwrap panic on this raw value?  (piece/capture/promotion decode) *)
Definition m_decodes (m : N) : bool :=
  match piece_of_N (m_piece_raw m) with None => false | Some _ =>
  let c := load m capture_offset capture_mask in
  let p := load m promotion_offset promotion_mask in
  (if c =? 0 then true else match piece_of_N c with Some _ => true | None => false end) &&
  (if p =? 0 then true else match piece_of_N p with Some _ => true | None => false end) end.

(* MoveQuery *)
Record mquery := mkQuery {
  q_piece : option piece;
  q_orank : option N; q_ofile : option N;
  q_drank : option N; q_dfile : option N;
  q_promotion : option piece;
  q_castle : option bool;          (* Some true = king side *)
  q_capture : option bool }.
Definition q_empty : mquery := mkQuery None None None None None None None None.

Definition opt_test {A} (o : option A) (f : A -> bool) : bool :=
  match o with Some x => f x | None => true end.

(* MoveQuery::test *)
Definition qtest (q : mquery) (m : N) : bool :=
  opt_test (q_piece q) (fun p => piece_eqb p (m_piece m)) &&
  opt_test (q_orank q) (fun r => r =? rank_of (m_origin m)) &&
  opt_test (q_ofile q) (fun f => f =? file_of (m_origin m)) &&
  opt_test (q_drank q) (fun r => r =? rank_of (m_dest m)) &&
  opt_test (q_dfile q) (fun f => f =? file_of (m_dest m)) &&
  opt_test (q_promotion q) (fun p => piece_eqb p (match m_promotion m with Some x => x | None => m_piece m end)) &&
  opt_test (q_castle q) (fun k => m_is_castle m k) &&
  opt_test (q_capture q) (fun c => Bool.eqb c (m_is_capture m)).
