(* L4: pseudo-legal generation in the Rust's own order, make-move, legality filter, perft,
   query resolution.  Mirrors movegen.rs, state.rs (by_performing_move(s)), searcher.rs (perft). *)
From WV Require Export MoveEnc.
Open Scope N_scope.

Definition forward_dr (c : color) : Z := match c with White => 1%Z | Black => (-1)%Z end.
Definition backward_dr (c : color) : Z := match c with White => (-1)%Z | Black => 1%Z end.

Definition own_backrank_mask (c : color) : N := match c with White => rank_mask 7 | Black => rank_mask 0 end.
Definition own_pawn_home_mask (c : color) : N := match c with White => rank_mask 1 | Black => rank_mask 6 end.

Definition sat_add1 (n : N) : N := if n =? mask64 then n else n + 1.   (* usize::saturating_add(1) *)

(* State::by_performing_move; None = Err(IllegalEnPassant) *)
Definition apply_move (s : state) (m : N) : option state :=
  let b := st_board s in
  let c := st_turn s in
  let o := opp c in
  let p := m_piece m in
  let b1 := pset_bit (pset_bit b c p (m_origin m) false) c p (m_dest m) true in
  let b2 : option board :=
    if m_is_ep m then
      match st_ep s with
      | None => None
      | Some t => match offset t 0 (backward_dr c) with
                  | None => None
                  | Some cs => Some (pset_bit b1 o Pawn cs false)
                  end
      end
    else match m_capture m with
         | Some cap => Some (pset_bit b1 o cap (m_dest m) false)
         | None => Some b1
         end in
  match b2 with
  | None => None
  | Some b2 =>
    let b3 := match m_promotion m with
              | Some pr => pset_bit (pset_bit b2 c p (m_dest m) false) c pr (m_dest m) true
              | None => b2 end in
    let r := rank_of (m_origin m) in
    let b4 := if m_is_castle m true then
                pset_bit (pset_bit b3 c Rook (mk_square r 7) false) c Rook (mk_square r 5) true
              else if m_is_castle m false then
                pset_bit (pset_bit b3 c Rook (mk_square r 0) false) c Rook (mk_square r 3) true
              else b3 in
    let kingmove := piece_eqb p King in
    let wk0 := if kingmove && is_white c then false else st_wk s in
    let wq0 := if kingmove && is_white c then false else st_wq s in
    let bk0 := if kingmove && negb (is_white c) then false else st_bk s in
    let bq0 := if kingmove && negb (is_white c) then false else st_bq s in
    Some (mkState b4 o
            (wk0 && test (pocc b4 White Rook) 7)
            (wq0 && test (pocc b4 White Rook) 0)
            (bk0 && test (pocc b4 Black Rook) 63)
            (bq0 && test (pocc b4 Black Rook) 56)
            (if m_is_double m then offset (m_dest m) 0 (backward_dr c) else None)
            (if m_is_capture m || piece_eqb p Pawn then 0 else sat_add1 (st_half s))
            (match c with Black => sat_add1 (st_full s) | White => st_full s end))
  end.

Definition unwrap_sq (o : option N) : N := match o with Some s => s | None => 0 end.
Definition cap_kind (b : board) (t : N) : piece :=
  match piece_at b t with Some (_, p) => p | None => PNone end.

(* --- pawns --- *)
Definition pawn_moves (s : state) : list N :=
  let b := st_board s in
  let c := st_turn s in
  let pawns := pocc b c Pawn in
  let fwd := forward_dr c in
  let bwd := backward_dr c in
  let opp_pieces := colored_occ b (opp c) in
  (* simple push *)
  let positions := N.land (shift pawns 0 fwd) (vacancy b) in
  let promo_pos := N.land positions (own_backrank_mask c) in
  let nonpromo_pos := N.land positions (lnot64 (own_backrank_mask c)) in
  let pushes := map (fun t => by_moving c Pawn (unwrap_sq (offset t 0 bwd)) t) (iter_ones nonpromo_pos) in
  let promos := flat_map (fun t =>
                  map (fun pr => by_promoting c Pawn (unwrap_sq (offset t 0 bwd)) t
                                   (match piece_of_N pr with Some q => q | None => PNone end))
                      promotion_types) (iter_ones promo_pos) in
  (* double push *)
  let home := N.land pawns (own_pawn_home_mask c) in
  let step x := N.land (shift x 0 fwd) (vacancy b) in
  let dbl_pos := step (step home) in
  let doubles := map (fun t => by_moving c Pawn
                         (unwrap_sq (offset (unwrap_sq (offset t 0 bwd)) 0 bwd)) t) (iter_ones dbl_pos) in
  (* captures: (EAST, WEST) then (WEST, EAST) *)
  let captures (fo inv : Z) : list N :=
    let attacks := shift (shift pawns 0 fwd) fo 0 in
    let with_promo := N.land (N.land attacks (own_backrank_mask c)) opp_pieces in
    let without_promo := N.land (N.land attacks (lnot64 (own_backrank_mask c))) opp_pieces in
    let with_ep := N.land attacks (match st_ep s with Some t => just t | None => 0 end) in
    map (fun t => by_capturing c Pawn (unwrap_sq (offset t inv bwd)) t (cap_kind b t)) (iter_ones without_promo)
    ++ flat_map (fun t =>
         map (fun pr => by_capture_promoting c Pawn (unwrap_sq (offset t inv bwd)) t (cap_kind b t)
                          (match piece_of_N pr with Some q => q | None => PNone end))
             promotion_types) (iter_ones with_promo)
    ++ match first_one with_ep with
       | Some t => [by_en_passant c Pawn (unwrap_sq (offset t inv bwd)) t]
       | None => []
       end in
  pushes ++ promos ++ doubles ++ captures 1%Z (-1)%Z ++ captures (-1)%Z 1%Z.

(* GameStateHelper::expand_moves *)
Definition expand_moves (s : state) (origin dests : N) (p : piece) : list N :=
  let b := st_board s in
  let c := st_turn s in
  map (fun t => match piece_at b t with
                | Some (_, cap) => by_capturing c p origin t cap
                | None => by_moving c p origin t
                end) (iter_ones dests).

Definition knight_moves (s : state) : list N :=
  let b := st_board s in
  let c := st_turn s in
  flat_map (fun o => expand_moves s o
              (N.land (knight_attacks o) (N.lor (colored_occ b (opp c)) (vacancy b))) Knight)
           (iter_ones (pocc b c Knight)).

Definition castle_mask (tbl : list N) (kingside : bool) (c : color) : N :=
  nth ((if kingside then 0 else 2) + (if is_white c then 0 else 1))%nat tbl 0.

Definition king_moves (s : state) : list N :=
  let b := st_board s in
  let c := st_turn s in
  let opp_att := colored_attacks b (opp c) in
  flat_map (fun o => expand_moves s o
              (N.land (N.land (king_attacks o) (N.lor (colored_occ b (opp c)) (vacancy b)))
                      (lnot64 opp_att)) King)
           (iter_ones (pocc b c King))
  ++ flat_map (fun kingside =>
       if castle_right s c kingside then
         if none (N.land (occupancy b) (castle_mask castle_path_masks kingside c)) &&
            none (N.land opp_att (castle_mask castle_check_masks kingside c))
         then [by_castling c kingside] else []
       else []) [true; false].

Definition slider_moves (s : state) (p : piece) (att : N -> N -> N) : list N :=
  let b := st_board s in
  let c := st_turn s in
  flat_map (fun o => expand_moves s o (N.land (att o (occupancy b)) (lnot64 (colored_occ b c))) p)
           (iter_ones (pocc b c p)).

(* MoveGenerator::compute_psuedo_legal_moves_into *)
Definition pseudo_legal (s : state) : list N :=
  pawn_moves s ++ knight_moves s ++ king_moves s
  ++ slider_moves s Bishop bishop_attacks ++ slider_moves s Rook rook_attacks
  ++ slider_moves s Queen queen_attacks.

(* PseudoLegalMove::try_as_legal_move.  The Rust unwraps by_performing_move; an Err there would be a
   panic, modelled as dropping the move AND flagged by gen_panics below. *)
Definition try_as_legal (s : state) (m : N) : option (N * state) :=
  match apply_move s m with
  | None => None
  | Some n =>
      if none (N.land (pocc (st_board n) (st_turn s) King) (colored_attacks (st_board n) (st_turn n)))
      then Some (m, n) else None
  end.

Definition gen_panics (s : state) : bool :=
  existsb (fun m => match apply_move s m with None => true | Some _ => false end) (pseudo_legal s).

Fixpoint filter_map {A B} (f : A -> option B) (l : list A) : list B :=
  match l with
  | [] => []
  | x :: tl => match f x with Some y => y :: filter_map f tl | None => filter_map f tl end
  end.

(* MoveGenerator::compute_legal_moves *)
Definition gen_legal (s : state) : list (N * state) := filter_map (try_as_legal s) (pseudo_legal s).
Definition legal_moves (s : state) : list N := map fst (gen_legal s).

(* Searcher::perft: leaves at exactly depth d; 0 buffers -> 0 *)
Fixpoint perft (d : nat) (s : state) : N :=
  match d with
  | O => 0
  | S O => N.of_nat (length (gen_legal s))
  | S k => fold_left (fun acc ms => acc + perft k (snd ms)) (gen_legal s) 0
  end.

(* State::by_performing_moves *)
Inductive resolve_result := ROk (s : state) | RAmbiguous | RUnknown | RIllegalEp.
Fixpoint resolve (s : state) (qs : list mquery) : resolve_result :=
  match qs with
  | [] => ROk s
  | q :: tl =>
      match filter (fun ms => qtest q (fst ms)) (gen_legal s) with
      | [ms] => match apply_move s (fst ms) with
                | Some n => resolve n tl
                | None => RIllegalEp
                end
      | [] => RUnknown
      | _ => RAmbiguous
      end
  end.
