(* L7b: the search, for one worker with an explicit table, jitter stream and cancellation by node
   count.  Mirrors searcher.rs: analyze_iterative (single-worker path), analyze_recursive,
   quiescence_search, TranspositionTableMoveIterator (iter_moves).  Every place where the Rust can
   panic is an explicit SPanic outcome; running out of the structural fuel is SFuel (the theorems show
   it unreachable for fuel = remaining depth + 1). *)
From WV Require Export Eval Table Text.
From WV Require Export SearchConsts.
Open Scope Z_scope.

Record wstate := mkW {
  w_tt : access;            (* shared transposition table *)
  w_jidx : N;               (* index of the next jitter value of this worker's stream *)
  w_nodes : N;              (* nodes_searched of this worker in this iteration *)
  w_gnodes : N;             (* node entries since the start of the run (hook counter) *)
  w_flag : bool;            (* cancellation flag *)
  w_trace : list (N * N * N * Z * Z) }.   (* node entries, newest first: hash, depth, max depth, alpha, beta *)

Inductive sres (A : Type) := SVal (a : A) (w : wstate) | SInterrupt (w : wstate) | SPanic (site : N) | SFuel.
Arguments SVal {A} a w. Arguments SInterrupt {A} w. Arguments SPanic {A} site. Arguments SFuel {A}.

Definition site_sub_depth : N := 20.      (* max_depth - current_depth underflow *)
Definition site_sub_entry : N := 21.      (* entry.max_depth - entry.depth underflow *)
Definition site_apply_unwrap : N := 22.   (* by_performing_move(..).unwrap() in try_as_legal_move *)
Definition site_eval_king : N := 23.      (* first_square().unwrap() in the evaluator *)

Section Search.
Variable hs : hasher.
Variable history : list N.                 (* recorded position hashes (StateHistory keys) *)
Variable jit : N -> Z.                     (* this worker's jitter stream: i-th gen_range(-10..=10) *)
Variable cancel_at : option N.             (* the flag is set when this many nodes have been entered *)

Definition in_history (h : N) : bool := existsb (N.eqb h) history.

(* stable insertion sort by key, ascending (sort_by_cached_key) *)
Fixpoint insert_by {A} (k : Z) (x : A) (l : list (Z * A)) : list (Z * A) :=
  match l with
  | [] => [(k, x)]
  | (k', y) :: tl => if k <? k' then (k, x) :: l else (k', y) :: insert_by k x tl
  end.
Definition stable_sort {A} (l : list (Z * A)) : list (Z * A) :=
  fold_left (fun acc kx => insert_by (fst kx) (snd kx) acc) l [].

Definition eval_or_panic {A} (s : state) (c : color) (d : N) (k : Z -> sres A) : sres A :=
  match evaluate s c d with EVal v => k v | EPanic => SPanic site_eval_king end.

(* quiescence_search: fuel = number of men + 1 (every recursive call follows a capture) *)
Definition capture_key (m : N) : Z :=
  let mv := worth (m_piece m) in
  let cv := match m_capture m with Some p => worth p | None => f_of_Z 0 end in
  - f_to_i32 (f_mul (f_sub cv mv) (f_of_Z 10)).

Inductive qres := QVal (v : Z) | QPanic (site : N) | QFuel.

Fixpoint quiesce (fuel : nat) (s : state) (depth : N) (alpha beta : Z) : qres :=
  match fuel with
  | O => QFuel
  | S k =>
      let legal := gen_legal s in
      if gen_panics s then QPanic site_apply_unwrap else
      match evaluate s (st_turn s) depth with
      | EPanic => QPanic site_eval_king
      | EVal normal =>
          match legal with
          | [] => QVal normal
          | _ =>
              if forallb (fun ms => negb (m_is_capture (fst ms))) legal then QVal normal
              else if beta <=? normal then QVal beta
              else
                let alpha0 := if alpha <? normal then normal else alpha in
                let sorted := map snd (stable_sort (map (fun ms => (capture_key (fst ms), ms)) legal)) in
                (fix loop (l : list (N * state)) (alpha : Z) : qres :=
                   match l with
                   | [] => QVal alpha
                   | (m, ns) :: tl =>
                       if negb (m_is_capture m) then loop tl alpha
                       else match quiesce k ns (depth + 1)%N (- beta) (- alpha) with
                            | QVal r => let e := - r in
                                        if beta <=? e then QVal beta
                                        else loop tl (if alpha <? e then e else alpha)
                            | other => other
                            end
                   end) sorted alpha0
          end
      end
  end.

Definition men (s : state) : nat := N.to_nat (count_ones (occupancy (st_board s))).

(* node entry: counters, hook, poll *)
Definition enter_node (w : wstate) : wstate * bool :=
  let n := (w_nodes w + 1)%N in
  let g := (w_gnodes w + 1)%N in
  let flag := w_flag w || match cancel_at with Some c => (c <=? g)%N | None => false end in
  (mkW (w_tt w) (w_jidx w) n g flag (w_trace w), ((n mod poll_period =? 0)%N && flag)).

(* the transposition-table probe at the top of analyze_recursive *)
Inductive probe_res := PEarly (v : Z) | PWindow (a b : Z) | PPanic (site : N).
Definition probe (tt : access) (h max_depth cur_depth : N) (alpha beta : Z) : probe_res :=
  match acc_find tt h with
  | None => PWindow alpha beta
  | Some e =>
      if (max_depth <? cur_depth)%N then PPanic site_sub_depth
      else if (e_maxdepth e <? e_depth e)%N then PPanic site_sub_entry
      else if (max_depth - cur_depth <=? e_maxdepth e - e_depth e)%N then
        match e_kind e with
        | Exact => PEarly (e_eval e)
        | UpperBound => let b := Z.min beta (e_eval e) in
                        if b <=? alpha then PEarly (e_eval e) else PWindow alpha b
        | LowerBound => let a := Z.max alpha (e_eval e) in
                        if beta <=? a then PEarly (e_eval e) else PWindow a beta
        end
      else PWindow alpha beta
  end.

(* analyze_recursive.  fuel = remaining depth + 1 *)
Fixpoint analyze (fuel : nat) (s : state) (max_depth cur_depth cur_ext : N) (alpha beta : Z)
         (prio : option N) (w : wstate) : sres Z :=
  match fuel with
  | O => SFuel
  | S k =>
    let '(w1, interrupt) := enter_node w in
    if interrupt then SInterrupt w1 else
    let h := hash hs s in
    let w1 := mkW (w_tt w1) (w_jidx w1) (w_nodes w1) (w_gnodes w1) (w_flag w1) ((h, cur_depth, max_depth, alpha, beta) :: w_trace w1) in
    if (0 <? cur_depth)%N && in_history h then SVal EVEN w1 else
    match probe (w_tt w1) h max_depth cur_depth alpha beta with
    | PPanic site => SPanic site
    | PEarly v => SVal v w1
    | PWindow alpha1 beta1 =>
      if (max_depth <=? cur_depth)%N then
        match quiesce (S (men s)) s cur_depth alpha1 beta1 with
        | QVal v => SVal v w1
        | QPanic site => SPanic site
        | QFuel => SFuel
        end
      else
        let moves := pseudo_legal s in
        let keyed := map (fun im => (estimate s (snd im) + jit (w_jidx w1 + fst im)%N, snd im))
                         (combine (map N.of_nat (seq 0 (length moves))) moves) in
        (* sort_by_cached_key returns at once on slices shorter than 2, without calling the key function *)
        let drawn := if (length moves <? 2)%nat then 0%N else N.of_nat (length moves) in
        let w2 := mkW (w_tt w1) (w_jidx w1 + drawn)%N (w_nodes w1) (w_gnodes w1) (w_flag w1) (w_trace w1) in
        let ordered := match prio with
                       | Some pm => pm :: rev (map snd (stable_sort keyed))
                       | None => rev (map snd (stable_sort keyed))
                       end in
        let prev_nodes := w_nodes w2 in
        let ext := if (cur_ext <? extension_cap)%N then (if is_check s then 1%N else 0%N) else 0%N in
        (fix loop (l : list N) (alpha : Z) (best : option N) (kind : ekind) (w : wstate) : sres Z :=
           match l with
           | [] =>
               if (prev_nodes =? w_nodes w)%N then
                 eval_or_panic s (st_turn s) cur_depth (fun v => SVal v w)
               else
                 match best with
                 | Some bm => SVal alpha (mkW (acc_insert (w_tt w) h (mkEntry kind bm cur_depth max_depth alpha))
                                              (w_jidx w) (w_nodes w) (w_gnodes w) (w_flag w) (w_trace w))
                 | None => SVal alpha w
                 end
           | m :: tl =>
               match apply_move s m with
               | None => SPanic site_apply_unwrap
               | Some ns =>
                   if any (N.land (pocc (st_board ns) (st_turn s) King) (colored_attacks (st_board ns) (st_turn ns)))
                   then loop tl alpha best kind w
                   else
                     match analyze k ns (max_depth + ext)%N (cur_depth + 1 + ext)%N (cur_ext + ext)%N
                                   (- beta1) (- alpha) None w with
                     | SVal r w' =>
                         let e := - r in
                         if beta1 <=? e then
                           SVal beta1 (mkW (acc_insert (w_tt w') h (mkEntry LowerBound m cur_depth max_depth beta1))
                                           (w_jidx w') (w_nodes w') (w_gnodes w') (w_flag w') (w_trace w'))
                         else if alpha <? e then loop tl e (Some m) Exact w'
                         else loop tl alpha best kind w'
                     | other => other
                     end
               end
           end) ordered alpha1 None UpperBound w2
    end
  end.

(* TranspositionTableMoveIterator: walk the table from the root, applying moves without a legality check *)
Fixpoint iter_moves (fuel : nat) (tt : access) (s : state) (idx max_depth : N) : list N :=
  match fuel with
  | O => []
  | S k =>
      if (max_depth <? idx)%N then []
      else match acc_find tt (hash hs s) with
           | None => []
           | Some e =>
               match apply_move s (e_move e) with
               | None => []
               | Some n => e_move e :: iter_moves k tt n (idx + 1)%N max_depth
               end
           end
  end.

End Search.

(* events of analyze_iterative *)
Inductive event := EvProgress (depth : N) (nodes : N) | EvBest (ev : Z) (line : list N).

Record run_result := mkRun {
  r_events : list event;
  r_tt : access;
  r_history : list N;
  r_gnodes : N;
  r_trace : list (N * N * N * Z * Z);     (* newest first *)
  r_outcome : N }.      (* 0 finished, 1 interrupted, 2 out of iteration fuel, 100+site panic *)

(* analyze_iterative for one worker.  jit_of it = the jitter stream of the worker of iteration `it`;
   iters = number of iterations allowed by the depth limit (or the iteration fuel when unlimited) *)
Section Iterative.
Variable hs : hasher.
Variable jit_of : N -> N -> Z.
Variable cancel_at : option N.

Fixpoint iterate (iters : nat) (depth : N) (s : state) (history : list N) (tt : access) (gnodes : N) (flag : bool)
         (trace : list (N * N * N * Z * Z)) (nodes_total : N) (best_eval : Z) (best_mv : option N) (acc : list event) : run_result :=
  match iters with
  | O => mkRun (rev acc) tt history gnodes trace 0
  | S k =>
      if (0 <? depth)%N && flag then mkRun (rev acc) tt history gnodes trace 1 else
      let w0 := mkW tt 0 0 gnodes flag trace in
      let root := hash hs s in
      match analyze hs history (jit_of depth) cancel_at (S (S (N.to_nat depth))) s (depth + 1)%N 0 0
                    (- mate_in_ply 0) (mate_in_ply 0) best_mv w0 with
      | SVal ev w =>
          let nt := (nodes_total + w_nodes w)%N in
          let acc1 := EvProgress (depth + 1)%N nt :: acc in
          let line := iter_moves hs (S (S (N.to_nat depth))) (w_tt w) s 0 depth in
          match line with
          | [] => mkRun (rev acc1) (w_tt w) history (w_gnodes w) (w_trace w) 0
          | mv :: _ =>
              let acc2 := EvBest ev line :: acc1 in
              if POS_INF <=? ev then mkRun (rev acc2) (w_tt w) history (w_gnodes w) (w_trace w) 0
              else iterate k (depth + 1)%N s history (w_tt w) (w_gnodes w) (w_flag w) (w_trace w) nt ev (Some mv) acc2
          end
      | SInterrupt w =>
          let acc1 :=
            match acc_find (w_tt w) root with
            | Some x =>
                let line := iter_moves hs (S (S (N.to_nat depth))) (w_tt w) s 0 depth in
                if (best_eval <? e_eval x) && (match line with [] => false | _ => true end)
                then EvBest (e_eval x) line :: acc else acc
            | None => acc
            end in
          mkRun (rev acc1) (w_tt w) history (w_gnodes w) (w_trace w) 1
      | SPanic site => mkRun (rev acc) tt history gnodes trace (100 + site)
      | SFuel => mkRun (rev acc) tt history gnodes trace 2
      end
  end.

(* the whole call: the root hash is recorded first; the flag may already be set (cancel_at = Some 0) *)
Definition analyze_iterative (iters : nat) (s : state) (history : list N) (tt : access) : run_result :=
  let root := hash hs s in
  let history' := if existsb (N.eqb root) history then history else root :: history in
  let flag0 := match cancel_at with Some 0%N => true | _ => false end in
  iterate iters 0 s history' tt 0 flag0 [] 0 NEG_INF None [].

End Iterative.
