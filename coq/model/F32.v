(* binary32 arithmetic as used by the evaluator: values are dyadic rationals m * 2^e with |m| < 2^24 + 1;
   every operation computes the exact rational result and rounds it to nearest, ties to even, on the
   MAGNITUDE with the sign applied afterwards, so that oddness (rnd (-x) = - rnd x) holds by construction.
   Subnormals, overflow to infinity and NaN are outside the range the evaluator reaches; `in_range` says
   so explicitly and the correspondence (exact integer scores) ties this file to Rust's f32. *)
From Coq Require Export ZArith List Bool.
Open Scope Z_scope.

Record f32 := mkF { fm : Z; fe : Z }.        (* value = fm * 2^fe *)

(* round the positive rational n/d (n, d > 0) to a 24-bit significand: returns (m, e) with n/d ~ m * 2^e *)
Definition rnd_mag (n d : Z) : Z * Z :=
  let e0 := Z.log2 n - Z.log2 d - 23 in
  let scaled (e : Z) : Z * Z :=          (* numerator and denominator of (n/d) / 2^e *)
    if 0 <=? e then (n, d * 2 ^ e) else (n * 2 ^ (- e), d) in
  let q0 := let '(a, b) := scaled e0 in a / b in
  let e := if 2 ^ 24 <=? q0 then e0 + 1 else if q0 <? 2 ^ 23 then e0 - 1 else e0 in
  let '(a, b) := scaled e in
  let q := a / b in
  let r := a mod b in
  let q' := if b <? 2 * r then q + 1
            else if (b =? 2 * r) then (if Z.odd q then q + 1 else q)
            else q in
  (q', e).

Definition rnd (a b : Z) : f32 :=            (* a / b, b > 0 *)
  if a =? 0 then mkF 0 0
  else let '(m, e) := rnd_mag (Z.abs a) b in mkF (Z.sgn a * m) e.

(* exact value of a dyadic as a fraction with positive denominator *)
Definition frac (m e : Z) : Z * Z := if 0 <=? e then (m * 2 ^ e, 1) else (m, 2 ^ (- e)).

Definition f_of_Z (z : Z) : f32 := rnd z 1.                         (* `x as f32` for an integer x *)
Definition f_of_dec (q : Z * Z) : f32 := rnd (fst q) (snd q).        (* a decimal literal, correctly rounded *)
Definition f_mul (x y : f32) : f32 :=
  let '(a, b) := frac (fm x * fm y) (fe x + fe y) in rnd a b.
Definition f_add (x y : f32) : f32 :=
  let '(a1, b1) := frac (fm x) (fe x) in
  let '(a2, b2) := frac (fm y) (fe y) in
  rnd (a1 * b2 + a2 * b1) (b1 * b2).
Definition f_neg (x : f32) : f32 := mkF (- fm x) (fe x).
Definition f_sub (x y : f32) : f32 := f_add x (f_neg y).
Definition f_div (x y : f32) : f32 :=          (* y <> 0 *)
  let '(a1, b1) := frac (fm x) (fe x) in
  let '(a2, b2) := frac (fm y) (fe y) in
  let num := a1 * b2 * Z.sgn a2 in
  let den := b1 * Z.abs a2 in
  if den =? 0 then mkF 0 0 else rnd num den.
Definition f_ltb (x y : f32) : bool :=
  let '(a1, b1) := frac (fm x) (fe x) in
  let '(a2, b2) := frac (fm y) (fe y) in
  a1 * b2 <? a2 * b1.

(* `x as i32`: truncation toward zero, saturating *)
Definition f_to_i32 (x : f32) : Z :=
  let '(a, b) := frac (fm x) (fe x) in
  let t := Z.quot a b in
  Z.max (- 2147483648) (Z.min 2147483647 t).

(* normal range of binary32 (no subnormal, no overflow) *)
Definition in_range (x : f32) : bool :=
  (fm x =? 0) || ((-149 <=? fe x) && (fe x <=? 104) && (Z.abs (fm x) <=? 2 ^ 24)).
