(* colours and piece kinds, shared by the implementation model and the rules specification *)
From Coq Require Export NArith ZArith List Bool.
Export ListNotations.
Open Scope N_scope.

Inductive color := White | Black.
Inductive piece := PNone | Pawn | Knight | Bishop | Rook | Queen | King.

Definition opp (c : color) : color := match c with White => Black | Black => White end.
Definition color_eqb (a b : color) : bool :=
  match a, b with White, White | Black, Black => true | _, _ => false end.
Definition piece_to_N (p : piece) : N :=
  match p with PNone => 0 | Pawn => 1 | Knight => 2 | Bishop => 3 | Rook => 4 | Queen => 5 | King => 6 end.
Definition piece_of_N (n : N) : option piece :=   (* Piece::try_from_primitive *)
  match n with 0 => Some PNone | 1 => Some Pawn | 2 => Some Knight | 3 => Some Bishop
             | 4 => Some Rook | 5 => Some Queen | 6 => Some King | _ => None end.
Definition piece_eqb (a b : piece) : bool := piece_to_N a =? piece_to_N b.
Definition is_white (c : color) : bool := match c with White => true | Black => false end.

