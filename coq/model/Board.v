(* L2: Board (piece occupancy, attack maps, check) and State.  Mirrors board.rs / state.rs. *)
From WV Require Export Types Attacks.
Open Scope N_scope.

Definition all_pieces : list piece := [Pawn; Knight; Bishop; Rook; Queen; King].   (* Piece::ALL *)
Definition all_colors : list color := [White; Black].

(* piece_occupancy: ArrayMap<PieceIndex, BitBoard>.  The two Piece::None slots (indices 0 and 8)
   are never written with a set bit by any constructor and are left out of the model. *)
Record board := mkBoard {
  wP : N; wN : N; wB : N; wR : N; wQ : N; wK : N;
  bP : N; bN : N; bB : N; bR : N; bQ : N; bK : N }.

Definition empty_board : board := mkBoard 0 0 0 0 0 0 0 0 0 0 0 0.

Definition pocc (b : board) (c : color) (p : piece) : N :=
  match c, p with
  | White, Pawn => wP b | White, Knight => wN b | White, Bishop => wB b
  | White, Rook => wR b | White, Queen => wQ b | White, King => wK b
  | Black, Pawn => bP b | Black, Knight => bN b | Black, Bishop => bB b
  | Black, Rook => bR b | Black, Queen => bQ b | Black, King => bK b
  | _, PNone => 0
  end.

Definition pset (b : board) (c : color) (p : piece) (v : N) : board :=
  match c, p with
  | White, Pawn => mkBoard v (wN b) (wB b) (wR b) (wQ b) (wK b) (bP b) (bN b) (bB b) (bR b) (bQ b) (bK b)
  | White, Knight => mkBoard (wP b) v (wB b) (wR b) (wQ b) (wK b) (bP b) (bN b) (bB b) (bR b) (bQ b) (bK b)
  | White, Bishop => mkBoard (wP b) (wN b) v (wR b) (wQ b) (wK b) (bP b) (bN b) (bB b) (bR b) (bQ b) (bK b)
  | White, Rook => mkBoard (wP b) (wN b) (wB b) v (wQ b) (wK b) (bP b) (bN b) (bB b) (bR b) (bQ b) (bK b)
  | White, Queen => mkBoard (wP b) (wN b) (wB b) (wR b) v (wK b) (bP b) (bN b) (bB b) (bR b) (bQ b) (bK b)
  | White, King => mkBoard (wP b) (wN b) (wB b) (wR b) (wQ b) v (bP b) (bN b) (bB b) (bR b) (bQ b) (bK b)
  | Black, Pawn => mkBoard (wP b) (wN b) (wB b) (wR b) (wQ b) (wK b) v (bN b) (bB b) (bR b) (bQ b) (bK b)
  | Black, Knight => mkBoard (wP b) (wN b) (wB b) (wR b) (wQ b) (wK b) (bP b) v (bB b) (bR b) (bQ b) (bK b)
  | Black, Bishop => mkBoard (wP b) (wN b) (wB b) (wR b) (wQ b) (wK b) (bP b) (bN b) v (bR b) (bQ b) (bK b)
  | Black, Rook => mkBoard (wP b) (wN b) (wB b) (wR b) (wQ b) (wK b) (bP b) (bN b) (bB b) v (bQ b) (bK b)
  | Black, Queen => mkBoard (wP b) (wN b) (wB b) (wR b) (wQ b) (wK b) (bP b) (bN b) (bB b) (bR b) v (bK b)
  | Black, King => mkBoard (wP b) (wN b) (wB b) (wR b) (wQ b) (wK b) (bP b) (bN b) (bB b) (bR b) (bQ b) v
  | _, PNone => b
  end.

(* map[idx].set(square, value) *)
Definition pset_bit (b : board) (c : color) (p : piece) (s : N) (v : bool) : board :=
  pset b c p (setb (pocc b c p) s v).

(* Board::new: occupancy and colored_occupancy are derived from the piece map *)
Definition colored_occ (b : board) (c : color) : N :=
  fold_left (fun acc p => N.lor acc (pocc b c p)) all_pieces 0.
Definition occupancy (b : board) : N := N.lor (colored_occ b White) (colored_occ b Black).
Definition vacancy (b : board) : N := lnot64 (occupancy b).

(* Board::piece_at: first match in colour, piece order *)
Definition piece_at (b : board) (s : N) : option (color * piece) :=
  let find c := find (fun p => test (pocc b c p) s) all_pieces in
  match find White with
  | Some p => Some (White, p)
  | None => match find Black with Some p => Some (Black, p) | None => None end
  end.

(* AttackGenerator::compute *)
Definition piece_attacks (c : color) (p : piece) (s occ : N) : N :=
  match p with
  | PNone => 0
  | Pawn => pawn_attacks (is_white c) s
  | Knight => knight_attacks s
  | Bishop => bishop_attacks s occ
  | Rook => rook_attacks s occ
  | Queen => queen_attacks s occ
  | King => king_attacks s
  end.

(* AttackMap::from_occupancy *)
Definition attacks_of_kind (b : board) (c : color) (p : piece) : N :=
  fold_left (fun acc s => N.lor acc (piece_attacks c p s (occupancy b))) (iter_ones (pocc b c p)) 0.
Definition colored_attacks (b : board) (c : color) : N :=
  N.land (fold_left (fun acc p => N.lor acc (attacks_of_kind b c p)) all_pieces 0)
         (lnot64 (colored_occ b c)).
Definition colored_pawn_attacks (b : board) (c : color) : N :=
  N.land (attacks_of_kind b c Pawn) (lnot64 (colored_occ b c)).

Definition board_is_check (b : board) (c : color) : bool :=
  any (N.land (pocc b c King) (colored_attacks b (opp c))).

(* State *)
Record state := mkState {
  st_board : board;
  st_turn : color;
  st_wk : bool; st_wq : bool; st_bk : bool; st_bq : bool;    (* castle rights *)
  st_ep : option N;
  st_half : N;
  st_full : N }.

Definition is_check (s : state) : bool := board_is_check (st_board s) (st_turn s).

Definition castle_right (s : state) (c : color) (kingside : bool) : bool :=
  match c, kingside with
  | White, true => st_wk s | White, false => st_wq s
  | Black, true => st_bk s | Black, false => st_bq s
  end.

(* the OnceCell attack-map cache, as an explicit wrapper (used by C10_cache) *)
Record cboard := mkCBoard {
  cb_board : board;
  cb_white : option (N * N);     (* AttackMap { all, pawn } for White *)
  cb_black : option (N * N) }.
Definition fresh (b : board) : cboard := mkCBoard b None None.
Definition attack_map_pure (b : board) (c : color) : N * N :=
  (colored_attacks b c, colored_pawn_attacks b c).
(* get_or_init *)
Definition attack_map (cb : cboard) (c : color) : (N * N) * cboard :=
  match c with
  | White => match cb_white cb with
             | Some m => (m, cb)
             | None => let m := attack_map_pure (cb_board cb) White in
                       (m, mkCBoard (cb_board cb) (Some m) (cb_black cb))
             end
  | Black => match cb_black cb with
             | Some m => (m, cb)
             | None => let m := attack_map_pure (cb_board cb) Black in
                       (m, mkCBoard (cb_board cb) (cb_white cb) (Some m))
             end
  end.
