#!/bin/sh
# MANIFEST.setup_cmd: build everything from files on disk, offline
set -e
cd /verif
export CARGO_NET_OFFLINE=true
python3 tools/extract.py --repo /repo --out /verif
cd coq && coq_makefile -f _CoqProject -o Makefile > /dev/null && timeout 3000 make -j16 > /verif/.setup-coq.log 2>&1 || { tail -30 /verif/.setup-coq.log; echo "setup: coq build failed (checks will report it)"; }
cd /verif
ocaml/build.sh || echo "setup: ocaml build failed"
(cd harness && RUSTFLAGS="--cfg weechess_verif" cargo build --offline --profile chk > /verif/.setup-cargo.log 2>&1 || tail -30 /verif/.setup-cargo.log)
(cd /repo && CARGO_TARGET_DIR=/verif/harness/target-cli cargo build --offline --release -p weechess_cli > /verif/.setup-cli.log 2>&1 || tail -20 /verif/.setup-cli.log)
echo setup done
