#!/bin/sh
# run every registered quick check (used before committing evidence)
cd /verif
for p in C20 C09 C15 C01 C02 C08 C10 C11 C12 C13 C05 C14 C19 C03 C04 C06 C17 C07 C18 C16; do
  /usr/bin/time -f "$p %es" ./check $p --tier ${1:-quick} 2>&1 | tail -4
done
