// Harness for the correspondence checks: runs the real weechess code on the cases read from stdin
// ("<id>\t<cmd>\t<args...>") and prints "<id>\t<result>" in the same canonical form as ocaml/model_run.
#![feature(generic_const_exprs)]
#![allow(incomplete_features)]

use std::io::{BufRead, Write};
use std::panic::{catch_unwind, AssertUnwindSafe};

use weechess_core::notation::{into_notation, lan::Lan, try_from_notation, Fen, San};
use weechess_core::{
    AttackGenerator, BitBoard, Color, Move, MoveGenerator, MoveQuery, Piece, PieceIndex, Side,
    Square, State,
};

mod cmds;

pub fn unescape_pub(s: &str) -> String {
    unescape(s)
}

fn unescape(s: &str) -> String {
    let mut out = String::new();
    let b: Vec<char> = s.chars().collect();
    let mut i = 0;
    while i < b.len() {
        if i + 2 < b.len() && b[i] == '\\' && b[i + 1] == 'x' && b[i + 2] == '{' {
            let mut j = i + 3;
            let mut hex = String::new();
            while b[j] != '}' {
                hex.push(b[j]);
                j += 1;
            }
            out.push(char::from_u32(u32::from_str_radix(&hex, 16).unwrap()).unwrap());
            i = j + 1;
        } else {
            out.push(b[i]);
            i += 1;
        }
    }
    out
}

pub fn piece_int(p: Piece) -> u8 {
    p as u8
}

pub fn opt_piece_int(p: Option<Piece>) -> u8 {
    p.map(|p| p as u8).unwrap_or(0)
}

pub fn move_attrs(m: &Move) -> String {
    let o: u8 = m.origin().into();
    let d: u8 = m.destination().into();
    format!(
        "{}/{}/{}/{}/{}/{}/{}/{}/{}/{}",
        m.as_raw(),
        o,
        d,
        opt_piece_int(m.promotion()),
        piece_int(m.piece()),
        if m.color() == Color::White { 0 } else { 1 },
        opt_piece_int(m.capture()),
        m.is_en_passant() as u8,
        match m.castle_side() {
            None => 0,
            Some(Side::King) => 1,
            Some(Side::Queen) => 2,
        },
        m.is_double_pawn() as u8
    )
}

pub fn fen_of(s: &State) -> String {
    into_notation::<_, Fen>(s).to_string()
}

pub fn state_of(fen: &str) -> Option<State> {
    try_from_notation::<State, Fen>(fen).ok()
}

fn run(cmd: &str, args: &[&str]) -> String {
    match (cmd, args) {
        ("gen", [fen]) => match state_of(fen) {
            None => "badfen".into(),
            Some(s) => {
                let set = MoveGenerator::compute_legal_moves(&s);
                let mut l: Vec<String> = set
                    .moves()
                    .iter()
                    .map(|r| format!("{}={}", move_attrs(&r.0), fen_of(&r.1)))
                    .collect();
                l.sort();
                l.join(";")
            }
        },
        ("perft", [d, fen]) => match state_of(fen) {
            None => "badfen".into(),
            Some(s) => {
                let searcher = weechess_engine::searcher::Searcher::new();
                let n = searcher.perft(&s, d.parse().unwrap(), |_, _, _, _| {});
                n.to_string()
            }
        },
        ("rook", [s, occ]) => {
            let sq = Square::try_from(s.parse::<u8>().unwrap()).unwrap();
            let bb: u64 = AttackGenerator::compute_rook_attacks(sq, BitBoard::new(occ.parse().unwrap())).into();
            bb.to_string()
        }
        ("bishop", [s, occ]) => {
            let sq = Square::try_from(s.parse::<u8>().unwrap()).unwrap();
            let bb: u64 = AttackGenerator::compute_bishop_attacks(sq, BitBoard::new(occ.parse().unwrap())).into();
            bb.to_string()
        }
        ("queen", [s, occ]) => {
            let sq = Square::try_from(s.parse::<u8>().unwrap()).unwrap();
            let bb: u64 = AttackGenerator::compute_queen_attacks(sq, BitBoard::new(occ.parse().unwrap())).into();
            bb.to_string()
        }
        ("leapers", [s]) => {
            let sq = Square::try_from(s.parse::<u8>().unwrap()).unwrap();
            let v: Vec<u64> = vec![
                AttackGenerator::compute_knight_attacks(sq).into(),
                AttackGenerator::compute_king_attacks(sq).into(),
                AttackGenerator::compute_pawn_attacks(sq, Color::White).into(),
                AttackGenerator::compute_pawn_attacks(sq, Color::Black).into(),
            ];
            v.iter().map(|x| x.to_string()).collect::<Vec<_>>().join(",")
        }
        ("fenrt", [fen]) => {
            let text = unescape(fen);
            match try_from_notation::<State, Fen>(&text) {
                Ok(s) => format!("ok {}", fen_of(&s)),
                Err(_) => "err".into(),
            }
        }
        _ => cmds::run(cmd, args),
    }
}

fn main() {
    if std::env::args().nth(1).as_deref() == Some("uci") {
        // the real UCI client loop on this process' stdin/stdout (same code as `weechess uci`)
        let r = weechess_engine::uci::Client::new().exec();
        std::process::exit(if r.is_ok() { 0 } else { 1 });
    }
    // keep panic messages out of the result stream; outcome classes are what is compared
    if std::env::var("WV_PANIC_MSG").is_err() {
        std::panic::set_hook(Box::new(|_| {}));
    }
    let stdin = std::io::stdin();
    let stdout = std::io::stdout();
    let mut out = std::io::BufWriter::new(stdout.lock());
    for line in stdin.lock().lines() {
        let line = line.unwrap();
        let parts: Vec<&str> = line.split('\t').collect();
        if parts.len() < 2 {
            continue;
        }
        let res = catch_unwind(AssertUnwindSafe(|| run(parts[1], &parts[2..])));
        let res = match res {
            Ok(s) => s,
            Err(_) => "panic".to_string(),
        };
        writeln!(out, "{}\t{}", parts[0], res).unwrap();
    }
    out.flush().unwrap();
    let _ = (San, Lan, MoveQuery::new(), PieceIndex::NONE);
}
