// further commands (grown per property)
pub fn run(_cmd: &str, _args: &[&str]) -> String {
    "unknown-command".into()
}
